package main

import (
	"fmt"
	"time"
	"unicode/utf8"

	vaxis "git.sr.ht/~rockorager/vaxis"
	"git.sr.ht/~rockorager/vaxis/vxfw"
	"verif/harness/hx"
)

// apprun stream: the REAL vxfw.App.Run with a root widget whose Draw returns a prepared surface
// tree.  The frame App.Run renders (layout, win.Clear, root.render into the window App.Run
// makes for it, vx.Render) is read back from the bytes the fake terminal receives: Vaxis
// positions with CUP only and every cell of the tree is one width-1 grapheme that carries its
// id (rune idBase+id), so the decoder is "CUP sets the cursor, a printable rune is stored at the
// cursor and advances it by one, every other escape sequence is skipped".

const idBase = 0x1400 // Canadian Aboriginal Syllabics U+1400..U+167F: 640 letters of width 1, none combining
const idMax = 630

func (t *tree) appSurface(root vxfw.Widget) vxfw.Surface {
	s := vxfw.NewSurface(uint16(t.W), uint16(t.H), root)
	for i, id := range t.Buf {
		s.Buffer[i] = vaxis.Cell{Character: vaxis.Character{Grapheme: string(rune(idBase + id)), Width: 1}}
	}
	for _, k := range t.Kids {
		s.AddChild(k.Col, k.Row, k.T.appSurface(nil))
		s.Children[len(s.Children)-1].ZIndex = k.Z
	}
	return s
}

type treeWidget struct {
	t     *tree
	fc    *hx.FakeConsole
	draws chan struct{}
	frame []byte
}

const quitKey = 'q'

func (w *treeWidget) HandleEvent(ev vaxis.Event, _ vxfw.EventPhase) (vxfw.Command, error) {
	if k, ok := ev.(vaxis.Key); ok && k.Keycode == quitKey {
		// events are handled between frames: everything the frame wrote is in the console
		w.frame = w.fc.Take()
		return vxfw.QuitCmd{}, nil
	}
	return nil, nil
}

func (w *treeWidget) Draw(vxfw.DrawContext) (vxfw.Surface, error) {
	select {
	case w.draws <- struct{}{}:
	default:
	}
	return w.t.appSurface(w), nil
}

// decodeFrame: the screen a terminal shows after receiving b on a blank cols x rows screen
func decodeFrame(b []byte, cols, rows int) [][]int { return decodeFrameFrom(b, cols, rows, 0) }

// decodeFrameFrom: the same on a screen that shows [init] in every cell
func decodeFrameFrom(b []byte, cols, rows int, init int) [][]int {
	grid := make([][]int, rows)
	for i := range grid {
		grid[i] = make([]int, cols)
		for j := range grid[i] {
			grid[i][j] = init
		}
	}
	row, col := 0, 0
	for i := 0; i < len(b); {
		c := b[i]
		if c == 0x1b && i+1 < len(b) {
			switch b[i+1] {
			case '[':
				j := i + 2
				var ps []int
				cur, have := 0, false
				for j < len(b) && (b[j] < 0x40 || b[j] > 0x7e) {
					switch {
					case b[j] >= '0' && b[j] <= '9':
						cur, have = cur*10+int(b[j]-'0'), true
					case b[j] == ';':
						ps = append(ps, cur)
						cur, have = 0, false
					}
					j++
				}
				if have {
					ps = append(ps, cur)
				}
				if j < len(b) && b[j] == 'H' {
					row, col = 0, 0
					if len(ps) > 0 && ps[0] > 0 {
						row = ps[0] - 1
					}
					if len(ps) > 1 && ps[1] > 0 {
						col = ps[1] - 1
					}
				}
				i = j + 1
			case ']', 'P', '_', '^', 'X': // string sequences: up to BEL or ST
				j := i + 2
				for j < len(b) && b[j] != 0x07 && !(b[j] == 0x1b && j+1 < len(b) && b[j+1] == '\\') {
					j++
				}
				if j < len(b) && b[j] == 0x1b {
					j++
				}
				i = j + 1
			case '(', ')', '*', '+':
				i += 3
			default:
				i += 2
			}
			continue
		}
		if c < 0x20 || c == 0x7f {
			i++
			continue
		}
		r, n := utf8.DecodeRune(b[i:])
		i += n
		if row >= 0 && row < rows && col >= 0 && col < cols {
			if r >= idBase {
				grid[row][col] = int(r) - idBase
			} else {
				grid[row][col] = 0 // a blank written by win.Clear
			}
		}
		col++
	}
	return grid
}

func apprunCase(s *hx.Stream, cols, rows int, t *tree, tags ...string) {
	fc := hx.NewFakeConsole(hx.ProfileFromMask(0, rows, cols))
	app, err := vxfw.NewApp(vaxis.Options{WithConsole: fc, NoSignals: true})
	if err != nil {
		panic(err)
	}
	fc.Take()
	w := &treeWidget{t: t, fc: fc, draws: make(chan struct{}, 8)}
	done := make(chan error, 1)
	out := 0
	go func() {
		var rerr error
		panicked, msg := hx.Catch(func() { rerr = app.Run(w) })
		if panicked {
			rerr = fmt.Errorf("panic: %s", msg)
		}
		done <- rerr
	}()
	// vaxis.New leaves the initial Resize in the queue: Run lays out once before its loop and
	// once for the frame the Resize asks for; after that second Draw the frame is rendered and
	// the quit key is handled only after it
	finished := false
	for n := 0; n < 2 && !finished; n++ {
		select {
		case <-w.draws:
		case err := <-done:
			finished = true
			if err != nil {
				out = 1
			}
		case <-time.After(20 * time.Second):
			panic("apprun: App.Run did not draw a frame")
		}
	}
	if !finished {
		app.PostEvent(vaxis.Key{Keycode: quitKey})
		select {
		case err := <-done:
			if err != nil {
				out = 1
			}
		case <-time.After(20 * time.Second):
			panic("apprun: App.Run did not quit")
		}
	}
	var grid [][]int
	if out == 0 {
		grid = decodeFrame(w.frame, cols, rows)
	}
	gs := make([]string, len(grid))
	for i, r := range grid {
		gs[i] = hx.IntList(r)
	}
	term := hx.Tuple(hx.Tuple(hx.Z(int64(cols)), hx.Z(int64(rows)), t.coq()), hx.Tuple(hx.Z(int64(out)), hx.List(gs)))
	js := map[string]interface{}{"stream": "apprun", "what": "vxfw.App.Run with a root widget returning this tree; screen decoded from the terminal output of the frame",
		"cols": cols, "rows": rows, "tree": t.json(), "outcome": out, "screen": grid}
	tags = append(tags, fmt.Sprintf("nodes=%d", min(t.nodes(), 9)), "rootW"+relTag(t.W, cols)+"win", "rootH"+relTag(t.H, rows)+"win")
	if t.wrapDepth() > 0 {
		tags = append(tags, fmt.Sprintf("wrappers=%d", min(t.wrapDepth(), 3)))
	}
	s.Add(term, js, t.nodes() > 1, tags...)
}

func apprunStream() *hx.Stream {
	s := hx.NewStream("apprun", "model.Surface", "render_input * render_obs", "c14_apprun_mismatches", "c14_apprun_violations")
	s.ShardMax = 100
	// directed: root smaller than / equal to / larger than the terminal, children of the ROOT
	// overhanging each side of it, 0..1 same-size wrappers
	for _, d := range [][2]int{{-3, -2}, {0, -2}, {-3, 0}, {0, 0}, {1, 1}} {
		for k := 0; k <= 1; k++ {
			nextID = 0
			cols, rows := 8, 5
			w, h := cols+d[0], rows+d[1]
			inner := []kid{{Col: 0, Row: h - 1, T: filled(3, 2)}, {Col: w - 1, Row: 0, Z: 1, T: filled(2, 2)}, {Col: -1, Row: -1, Z: -1, T: filled(2, 2)}, {Col: w, Row: h, T: filled(1, 1)}}
			apprunCase(s, cols, rows, wrapperTree(w, h, k, inner), "directed")
		}
	}
	n := 60
	if cfg.Thorough() {
		n = 1500
	}
	for i := 0; i < n; i++ {
		nextID = 0
		cols, rows := 2+cfg.Rand.Intn(11), 2+cfg.Rand.Intn(5)
		depth := 1 + cfg.Rand.Intn(2)
		t := genShaped(depth, genRootSize(cols), genRootSize(rows))
		if nextID > idMax {
			continue
		}
		apprunCase(s, cols, rows, t, "shaped")
	}
	return s
}

// ---------------------------------------------------------------- apphist stream

// apphist stream: ONE vxfw.App.Run during which the terminal is resized several times (shrink
// then grow, grow then shrink, the same size again, one axis each way); after every resize a
// frame is painted and the whole terminal screen is compared with the model, whose window is
// the CURRENT terminal size at each frame.  The root widget returns, at step k, the prepared
// tree of step k.  The terminal is resized the way a real one reports it: the fake console's
// size changes and the in-band size report CSI 48 ; rows ; cols ; ypix ; xpix t arrives on its
// input.  The screen is kept across frames the way a terminal keeps it (Vaxis repaints only
// what changed while the size stays the same, and everything after the size changed).

type histStep struct {
	Cols, Rows int
	T          *tree
}

type stepEv struct{ k int }

type drawNote struct{ k, w, h int }

type histWidget struct {
	steps   []histStep
	fc      *hx.FakeConsole
	cur     int // step whose tree Draw returns; written between frames on App.Run's goroutine
	notes   chan drawNote
	pending []byte
	term    [][]int // the terminal's screen
	screens [][][]int
}

// absorb: the terminal (of the size of step k) receives what was written since the last call
func (w *histWidget) absorb(k int) {
	b := w.fc.Take()
	st := w.steps[k]
	if len(w.term) != st.Rows || (st.Rows > 0 && len(w.term[0]) != st.Cols) {
		w.term = nil // the size changed: Vaxis repaints every cell
	}
	w.term = applyFrame(w.term, b, st.Cols, st.Rows)
	snap := make([][]int, len(w.term))
	for i, r := range w.term {
		snap[i] = append([]int{}, r...)
	}
	w.screens = append(w.screens, snap)
}

func (w *histWidget) HandleEvent(ev vaxis.Event, _ vxfw.EventPhase) (vxfw.Command, error) {
	e, ok := ev.(stepEv)
	if !ok {
		return nil, nil
	}
	// events are handled between frames: everything the frames of step k-1 wrote is in the console
	if e.k > 0 {
		w.absorb(e.k - 1)
	}
	if e.k >= len(w.steps) {
		return vxfw.QuitCmd{}, nil
	}
	w.cur = e.k
	st := w.steps[e.k]
	w.fc.SetSize(st.Rows, st.Cols)
	w.fc.InjectString(fmt.Sprintf("\x1b[48;%d;%d;%d;%dt", st.Rows, st.Cols, st.Rows*16, st.Cols*8))
	return nil, nil
}

func (w *histWidget) Draw(ctx vxfw.DrawContext) (vxfw.Surface, error) {
	k := w.cur
	if k < 0 {
		k = 0
	}
	select {
	case w.notes <- drawNote{w.cur, int(ctx.Max.Width), int(ctx.Max.Height)}:
	default:
	}
	return w.steps[k].T.appSurface(w), nil
}

// applyFrame: decodeFrame on a screen that already shows something (nil = blank)
func applyFrame(grid [][]int, b []byte, cols, rows int) [][]int {
	fresh := decodeFrameMarked(b, cols, rows)
	if grid == nil {
		grid = make([][]int, rows)
		for i := range grid {
			grid[i] = make([]int, cols)
		}
	}
	for y := range fresh {
		for x, v := range fresh[y] {
			if v >= 0 {
				grid[y][x] = v
			}
		}
	}
	return grid
}

// decodeFrameMarked: as decodeFrame, but cells the bytes did not write are -1
func decodeFrameMarked(b []byte, cols, rows int) [][]int { return decodeFrameFrom(b, cols, rows, -1) }

func apphistCase(s *hx.Stream, steps []histStep, tags ...string) {
	fc := hx.NewFakeConsole(hx.ProfileFromMask(0, steps[0].Rows, steps[0].Cols))
	app, err := vxfw.NewApp(vaxis.Options{WithConsole: fc, NoSignals: true})
	if err != nil {
		panic(err)
	}
	fc.Take()
	w := &histWidget{steps: steps, fc: fc, cur: -1, notes: make(chan drawNote, 4096)}
	done := make(chan error, 1)
	out := 0
	go func() {
		var rerr error
		panicked, msg := hx.Catch(func() { rerr = app.Run(w) })
		if panicked {
			rerr = fmt.Errorf("panic: %s", msg)
		}
		done <- rerr
	}()
	finished := false
	for k := 0; k <= len(steps) && !finished; k++ {
		app.PostEvent(stepEv{k})
		if k == len(steps) {
			break
		}
		// a Draw of step k's tree with the maximum = step k's terminal size: layout, render and
		// vx.Render of that frame happen before the next event is handled
		deadline := time.After(20 * time.Second)
	wait:
		for {
			select {
			case n := <-w.notes:
				if n.k == k && n.w == steps[k].Cols && n.h == steps[k].Rows {
					break wait
				}
			case err := <-done:
				finished = true
				if err != nil {
					out = 1
				}
				break wait
			case <-deadline:
				panic(fmt.Sprintf("apphist: App.Run did not draw a frame of step %d (%dx%d)", k, steps[k].Cols, steps[k].Rows))
			}
		}
	}
	if !finished {
		select {
		case err := <-done:
			if err != nil {
				out = 1
			}
		case <-time.After(20 * time.Second):
			panic("apphist: App.Run did not quit")
		}
	}
	if out == 0 && len(w.screens) != len(steps) {
		out = 1
	}
	var ins, scrs []string
	var jsSteps []interface{}
	kids := false
	for k, st := range steps {
		ins = append(ins, hx.Tuple(hx.Z(int64(st.Cols)), hx.Z(int64(st.Rows)), st.T.coq()))
		js := map[string]interface{}{"cols": st.Cols, "rows": st.Rows, "tree": st.T.json()}
		if out == 0 {
			gs := make([]string, len(w.screens[k]))
			for i, r := range w.screens[k] {
				gs[i] = hx.IntList(r)
			}
			scrs = append(scrs, hx.List(gs))
			js["screen"] = w.screens[k]
		}
		jsSteps = append(jsSteps, js)
		if st.T.nodes() > 1 {
			kids = true
		}
	}
	term := hx.Tuple(hx.List(ins), hx.Tuple(hx.Z(int64(out)), hx.List(scrs)))
	js := map[string]interface{}{"stream": "apphist", "what": "one vxfw.App.Run; the terminal is resized to the size of each step in turn (step 0 = the initial size) and the root widget returns the step's tree; screen = the terminal after the frame of that step",
		"steps": jsSteps, "outcome": out}
	grewAfterShrink, shrunk, resized := false, false, false
	for k := 1; k < len(steps); k++ {
		a, b := steps[k-1], steps[k]
		switch {
		case b.Cols == a.Cols && b.Rows == a.Rows:
			tags = append(tags, "step=same")
		case b.Cols >= a.Cols && b.Rows >= a.Rows:
			tags = append(tags, "step=grow")
		case b.Cols <= a.Cols && b.Rows <= a.Rows:
			tags = append(tags, "step=shrink")
		default:
			tags = append(tags, "step=mixed")
		}
		if b.Cols != a.Cols || b.Rows != a.Rows {
			resized = true
		}
		if (b.Cols > a.Cols || b.Rows > a.Rows) && shrunk {
			grewAfterShrink = true
		}
		if b.Cols < a.Cols || b.Rows < a.Rows {
			shrunk = true
		}
	}
	if grewAfterShrink {
		tags = append(tags, "grows-after-shrinking")
	}
	tags = append(tags, fmt.Sprintf("steps=%d", len(steps)))
	_ = kids
	s.Add(term, js, resized, tags...)
}

// a tree for a terminal of the given size: the root fills it exactly (what a root widget that
// takes all the space it is offered returns), or is smaller / larger / shaped
func histTree(cols, rows int) *tree {
	switch cfg.Rand.Intn(3) {
	case 0:
		return genShaped(1, cols, rows)
	case 1:
		inner := []kid{{Col: 0, Row: rows - 1, T: filled(3, 2)}, {Col: cols - 2, Row: 0, Z: 1, T: filled(2, 2)}}
		return wrapperTree(cols, rows, cfg.Rand.Intn(2), inner)
	default:
		return genShaped(1+cfg.Rand.Intn(2), genRootSize(cols), genRootSize(rows))
	}
}

func apphistStream() *hx.Stream {
	s := hx.NewStream("apphist", "model.Surface", "apphist_input * apphist_obs", "c14_apphist_mismatches", "c14_apphist_violations")
	s.ShardMax = 40
	mk := func(sizes [][2]int, tags ...string) {
		nextID = 0
		var steps []histStep
		for _, z := range sizes {
			steps = append(steps, histStep{z[0], z[1], histTree(z[0], z[1])})
		}
		if nextID > idMax {
			return
		}
		apphistCase(s, steps, tags...)
	}
	// directed histories: shrink then grow (beyond the start), grow then shrink, the same size
	// again, one axis each way, grow only, shrink only, back to the first size
	for _, h := range [][][2]int{
		{{10, 4}, {6, 3}, {14, 6}},
		{{10, 4}, {14, 6}, {6, 3}},
		{{8, 4}, {8, 4}, {8, 4}},
		{{8, 4}, {12, 4}, {12, 6}},
		{{12, 6}, {8, 6}, {8, 3}},
		{{9, 5}, {5, 5}, {9, 5}},
		{{9, 5}, {9, 2}, {9, 5}},
		{{6, 5}, {11, 3}, {5, 6}},
		{{7, 3}, {8, 3}, {7, 3}, {9, 4}},
		{{5, 2}, {5, 2}, {13, 6}, {13, 6}, {4, 2}},
	} {
		mk(h, "directed")
	}
	n := 14
	if cfg.Thorough() {
		n = 400
	}
	for i := 0; i < n; i++ {
		k := 2 + cfg.Rand.Intn(4)
		sizes := make([][2]int, k)
		for j := range sizes {
			switch {
			case j > 0 && cfg.Rand.Intn(5) == 0: // the same size again
				sizes[j] = sizes[j-1]
			case j > 0 && cfg.Rand.Intn(3) == 0: // one axis only
				sizes[j] = sizes[j-1]
				if cfg.Rand.Intn(2) == 0 {
					sizes[j][0] = 2 + cfg.Rand.Intn(12)
				} else {
					sizes[j][1] = 2 + cfg.Rand.Intn(5)
				}
			default:
				sizes[j] = [2]int{2 + cfg.Rand.Intn(12), 2 + cfg.Rand.Intn(5)}
			}
		}
		mk(sizes, "random")
	}
	return s
}
