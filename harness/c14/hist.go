package main

import (
	"fmt"
	"strings"

	vaxis "git.sr.ht/~rockorager/vaxis"
	"git.sr.ht/~rockorager/vaxis/vxfw"
	"git.sr.ht/~rockorager/vaxis/vxfw/button"
	"git.sr.ht/~rockorager/vaxis/vxfw/list"
	"git.sr.ht/~rockorager/vaxis/vxfw/richtext"
	"git.sr.ht/~rockorager/vaxis/vxfw/text"
	"git.sr.ht/~rockorager/vaxis/vxfw/textfield"
	"verif/harness/hx"
)

// hist stream: ONE widget value is built once and then drawn 3..6 times, as an application
// does frame after frame, with a sequence of constraints (zero width/height, tiny, unbounded,
// repeated) and with fields changed between the draws where the widget has exported fields
// (Content/Softwrap of Text and RichText, Value of TextField, Label of Button, Gap/DrawCursor of
// list.Dynamic and the fields of its items).  At every step the surface returned by the
// long-lived value is recorded.  Coq decides, per step, the clauses of the layout contract on
// that surface (violations) and compares it with the model's history (model/WidgetsHist.v:
// Draw of every widget but list.Dynamic is a function of fields and constraint, so state hidden
// in the Go value is a disagreement; list.Dynamic's scroll index is threaded by the model).
// The replay file also says which steps differ from a freshly built copy with the same fields
// (a hint for the reader; list.Dynamic legitimately keeps its scroll position).

type hstep struct {
	MW, MH int
	Mut    bool // change some field before this draw
}

func (w *wspec) resetRec() {
	w.lines, w.drawn, w.bad = nil, false, false
	if w.Child != nil {
		w.Child.resetRec()
	}
	for _, it := range w.Items {
		it.resetRec()
	}
}

func richSegments(segs []string) []vaxis.Segment {
	out := make([]vaxis.Segment, len(segs))
	for i, s := range segs {
		out[i] = vaxis.Segment{Text: s, Style: vaxis.Style{Attribute: vaxis.AttributeMask(i % 3)}}
	}
	return out
}

func genHistContent() string {
	if cfg.Rand.Intn(4) == 0 {
		return "" // an item / a text that becomes empty
	}
	return genContentAny()
}

// mutate changes exported fields of the live widget (and of the spec that describes it)
func (w *wspec) mutate() {
	switch w.Kind {
	case "text":
		t := w.live.(*text.Text)
		k := cfg.Rand.Intn(3)
		if k != 1 {
			w.Content = genHistContent()
		}
		if k != 0 {
			w.Soft = !w.Soft
		}
		t.Content, t.Softwrap = w.Content, w.Soft
	case "rich":
		t := w.live.(*richtext.RichText)
		k := cfg.Rand.Intn(3)
		if k != 1 {
			n := cfg.Rand.Intn(4)
			w.Segs = make([]string, n)
			for i := range w.Segs {
				w.Segs[i] = genHistContent()
			}
		}
		if k != 0 {
			w.Soft = !w.Soft
		}
		t.Content, t.Softwrap = richSegments(w.Segs), w.Soft
	case "field":
		w.Content = strings.ReplaceAll(genContent(cfg.Rand.Intn(20)), "\n", "")
		w.live.(*textfield.TextField).Value = w.Content
	case "button":
		w.Content = genHistContent()
		w.live.(*button.Button).Label = w.Content
	case "center":
		w.Child.mutate()
	case "list":
		d := w.live.(*list.Dynamic)
		switch k := cfg.Rand.Intn(4); {
		case k == 0:
			w.Gap = pick([]int{0, 0, 1, 2})
			d.Gap = w.Gap
		case k == 1:
			w.Cursor = !w.Cursor
			d.DrawCursor = w.Cursor
		case len(w.Items) > 0:
			w.Items[cfg.Rand.Intn(len(w.Items))].mutate()
		}
	}
}

func (w *wspec) hasList() bool {
	if w.Kind == "list" {
		return true
	}
	return w.Child != nil && w.Child.hasList()
}

// cappedHist bounds the cost of a step in the list-based model (the fields of a list may change
// during the history, so every list is treated as one that may draw its cursor)
func cappedHist(w *wspec, mw, mh, limit int) bool {
	if !w.allocates() {
		return true
	}
	if mw == 65535 || mh == 65535 {
		return true // documented panic before allocating
	}
	if w.hasList() && (mh > 300 || mw > 300) {
		return false
	}
	return mw*mh <= limit
}

func drawObserve(e *env, widget vxfw.Widget, ctx vxfw.DrawContext) (*onode, int, string) {
	var obs *onode
	panicked, msg := hx.Catch(func() {
		sf, err := widget.Draw(ctx)
		if err != nil {
			panic("error returned: " + err.Error())
		}
		obs = observeSurface(e, sf)
	})
	if panicked {
		return &onode{}, 1, msg
	}
	return obs, 0, ""
}

// exceeds: the surface, or the child surface of a Center/Button, is larger than the maximum
// (replay hint only)
func exceeds(w *wspec, o *onode, mw, mh int) bool {
	if o.W > mw || o.H > mh {
		return true
	}
	if (w.Kind == "center" || w.Kind == "button") && len(o.Kids) == 1 {
		k := o.Kids[0].T
		if k.W > mw || k.H > mh {
			return true
		}
		if w.Kind == "center" {
			return exceeds(w.Child, k, mw, mh)
		}
	}
	return false
}

func obsTerm(out int, o *onode) string { return hx.Tuple(hx.Z(int64(out)), o.coq()) }

func histCase(s *hx.Stream, w *wspec, steps []hstep, weird bool, tags ...string) {
	e := &env{d: newDict(), chars: vaxis.Characters}
	if weird {
		e.chars = weirdChars
	}
	initial := w.json()
	widget := w.build(e) // built once: the same object is drawn at every step
	var terms []string
	var jsteps []interface{}
	larger, differing := []int{}, []int{}
	distinct := map[[2]int]bool{}
	mutated := false
	for i, st := range steps {
		if st.Mut {
			w.mutate()
			mutated = true
		}
		w.resetRec()
		ctx := vxfw.DrawContext{Max: vxfw.Size{Width: uint16(st.MW), Height: uint16(st.MH)}, Characters: e.chars}
		obs, out, msg := drawObserve(e, widget, ctx)
		w.recordUndrawn(e, ctx)
		if w.anyBad() {
			n, _ := drawExtra["skipped_scanner_failed"].(int)
			drawExtra["skipped_scanner_failed"] = n + 1
			return
		}
		// a freshly built copy with the fields the object has now, same constraint
		fresh := deepCopy(w)
		fe := &env{d: e.d, chars: e.chars}
		fobs, fout, _ := drawObserve(fe, fresh.build(fe), ctx)
		terms = append(terms, hx.Tuple(hx.Tuple(w.coq(), hx.Z(int64(st.MW)), hx.Z(int64(st.MH))), obsTerm(out, obs)))
		js := map[string]interface{}{"step": i + 1, "max_width": st.MW, "max_height": st.MH, "fields_changed_before": st.Mut,
			"widget": w.json(), "outcome": out, "surface": obs.json(), "fresh_outcome": fout, "fresh_surface": fobs.json()}
		if out == 1 {
			js["panic"] = msg
		}
		jsteps = append(jsteps, js)
		// hints for the reader of a replay file (the verdict is Coq's)
		if out == 0 && exceeds(w, obs, st.MW, st.MH) {
			larger = append(larger, i+1)
		}
		if out != fout || (out == 0 && obs.coq() != fobs.coq()) {
			differing = append(differing, i+1)
		}
		distinct[[2]int{st.MW, st.MH}] = true
	}
	js := map[string]interface{}{"stream": "hist", "what": "one widget value, drawn once per step", "widget_as_built": initial,
		"weird_widths": weird, "steps": jsteps, "steps_larger_than_max": larger, "steps_differing_from_fresh_copy": differing}
	tags = append(tags, w.Kind, fmt.Sprintf("draws=%d", len(steps)))
	if mutated {
		tags = append(tags, "fields-changed")
	}
	s.Add("["+strings.Join(terms, ";\n ")+"]", js, len(steps) >= 3 && (len(distinct) >= 2 || mutated), tags...)
}

// a constraint for the next step of a random history
func genHistCons(w *wspec, prev [][2]int, limit int) [2]int {
	if len(prev) > 0 && cfg.Rand.Intn(3) == 0 {
		return prev[cfg.Rand.Intn(len(prev))] // a constraint seen before (very often: the last one)
	}
	var c [2]int
	switch cfg.Rand.Intn(6) {
	case 0:
		c = [][2]int{{0, 0}, {cfg.Rand.Intn(30), 0}, {0, cfg.Rand.Intn(12)}}[cfg.Rand.Intn(3)]
	case 1:
		c = [2]int{pick(cons), pick(cons)}
	default:
		c = [2]int{cfg.Rand.Intn(30), cfg.Rand.Intn(12)}
	}
	if !cappedHist(w, c[0], c[1], limit) {
		c = [2]int{cfg.Rand.Intn(300), cfg.Rand.Intn(300)}
	}
	return c
}

func histStream() *hx.Stream {
	s := hx.NewStream("hist", "model.Surface model.Widgets model.WidgetsHist", "hist_case", "c14_hist_mismatches", "c14_hist_violations")
	s.ShardMax = 40
	limit := 140000
	widgets := []*wspec{
		{Kind: "text", Soft: true, Content: "hello\nworld, this is text"},
		{Kind: "text", Soft: true, Content: "hello wide 世界 world\nsecond line\n\nfourth"},
		{Kind: "text", Soft: false, Content: "hello wide 世界 world\nsecond line\n\nfourth"},
		{Kind: "rich", Soft: true, Segs: []string{"hello wide 世界 ", "world\nsecond", " line\n\nfourth"}},
		{Kind: "rich", Soft: false, Segs: []string{"hello wide 世界 ", "world\nsecond", " line\n\nfourth"}},
		{Kind: "button", Soft: true, Content: "OK go"},
		{Kind: "field", Content: "some 世界 value"},
		{Kind: "center", Child: &wspec{Kind: "text", Soft: true, Content: "ab\ncde fgh"}},
		{Kind: "center", Child: &wspec{Kind: "center", Child: &wspec{Kind: "rich", Soft: true, Segs: []string{"v w", " x"}}}},
		{Kind: "list", Cursor: true, Gap: 1, Items: []*wspec{{Kind: "text", Soft: true, Content: "one"}, {Kind: "text", Soft: false, Content: "two\nlines"}, {Kind: "text", Soft: true, Content: "three"}}},
		{Kind: "list", Cursor: false, Items: []*wspec{{Kind: "text", Soft: true, Content: "one two three"}, {Kind: "rich", Soft: true, Segs: []string{"b c", "d"}}, {Kind: "field", Content: "f"}}},
		{Kind: "list", Cursor: true, Items: []*wspec{{Kind: "text", Soft: true, Content: ""}, {Kind: "text", Soft: true, Content: "a"}, {Kind: "text", Soft: true, Content: "b"}}},
		{Kind: "center", Child: &wspec{Kind: "list", Cursor: true, Gap: 0, Items: []*wspec{{Kind: "text", Soft: true, Content: "x y z"}, {Kind: "text", Soft: true, Content: "w"}}}},
	}
	A, B := [2]int{20, 5}, [2]int{7, 2}
	U := [2]int{65535, 65535}
	pat := func(mut []int, cs ...[2]int) []hstep {
		out := make([]hstep, len(cs))
		for i, c := range cs {
			out[i] = hstep{MW: c[0], MH: c[1]}
		}
		for _, m := range mut {
			out[m].Mut = true
		}
		return out
	}
	var patterns [][]hstep
	for _, z := range [][2]int{{0, 0}, {20, 0}, {0, 5}} {
		patterns = append(patterns,
			pat(nil, A, z, z),       // shown, collapsed, still collapsed
			pat(nil, z, A, A),       // collapsed first
			pat(nil, A, z, A, z, z), // collapsing again and again
		)
	}
	patterns = append(patterns,
		pat(nil, A, B, A, B), // alternating
		pat(nil, B, B, B),    // the same frame three times
		pat(nil, A, U, A),    // unbounded in between (a documented panic for the containers)
		pat(nil, A, [2]int{65535, 5}, [2]int{20, 65535}, A),
		pat(nil, [2]int{1, 1}, [2]int{2, 2}, [2]int{3, 3}, [2]int{7, 7}, A, [2]int{256, 3}), // growing
		pat(nil, [2]int{256, 3}, A, B, [2]int{2, 2}, [2]int{1, 1}, [2]int{0, 0}),            // shrinking
		pat([]int{1, 3}, A, A, [2]int{0, 5}, [2]int{0, 5}, A),                               // fields change, constraint repeats
		pat([]int{1, 2, 3}, B, B, B, B),
	)
	for _, f := range widgets {
		for _, p := range patterns {
			ok := true
			for _, st := range p {
				ok = ok && cappedHist(f, st.MW, st.MH, limit)
			}
			if ok {
				histCase(s, deepCopy(f), p, false, "directed")
			}
		}
	}
	n := 260
	if cfg.Thorough() {
		n = 9000
	}
	for i := 0; i < n; i++ {
		w := genWidget(cfg.Rand.Intn(3))
		k := 3 + cfg.Rand.Intn(4)
		steps := make([]hstep, k)
		var prev [][2]int
		for j := range steps {
			c := genHistCons(w, prev, limit)
			// repeat the previous constraint more often than any older one
			if j > 0 && cfg.Rand.Intn(4) == 0 {
				c = prev[j-1]
			}
			prev = append(prev, c)
			steps[j] = hstep{MW: c[0], MH: c[1], Mut: j > 0 && cfg.Rand.Intn(3) == 0}
		}
		weird := cfg.Rand.Intn(8) == 0
		tag := "random"
		if weird {
			tag = "random-weird-widths"
		}
		histCase(s, w, steps, weird, tag)
	}
	return s
}
