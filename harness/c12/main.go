// Harness for C12: a real Vaxis whose terminal is the real embedded emulator
// (widgets/term, driven through its verif hook): every byte Vaxis writes is
// parsed and fed to the emulator, the emulator's replies are injected back.
// After every frame the emulator's grid and cursor are recorded, the emulator
// is drawn into a host Vaxis and the host's screen is recorded too.
package main

import (
	"fmt"
	"io"
	"math/rand"
	"os"
	"sort"
	"strings"
	"sync"
	"time"

	vaxis "git.sr.ht/~rockorager/vaxis"
	"git.sr.ht/~rockorager/vaxis/ansi"
	"git.sr.ht/~rockorager/vaxis/widgets/term"
	"verif/harness/hx"
	"verif/harness/renderhx"
)

type br struct{ b []byte }

func (r *br) Read(p []byte) (int, error) {
	if len(r.b) == 0 {
		return 0, io.EOF
	}
	n := copy(p, r.b)
	r.b = r.b[n:]
	return n, nil
}

var graphemes = []string{"a", "b", " ", "", "é", "漢", "👍🏽", "́", "x", "한", "🇩🇪"}
var capOrder = []string{"synchronizedUpdate", "unicodeCore", "colorThemeUpdates", "inBandResize", "kittyKeyboard", "kittyGraphics",
	"sixels", "reportSizeChars", "reportSizePixels", "explicitWidth", "rgb", "styledUnderlines", "osc4", "osc10", "osc11", "osc176"}

func randColor(r *rand.Rand) vaxis.Color {
	switch r.Intn(6) {
	case 0, 1:
		return 0
	case 2:
		return vaxis.IndexColor(uint8(r.Intn(16)))
	case 3:
		return vaxis.IndexColor(uint8(16 + r.Intn(240)))
	default:
		return vaxis.RGBColor(uint8(r.Intn(256)), uint8(r.Intn(256)), uint8(r.Intn(256)))
	}
}

func randStyle(r *rand.Rand, pool *[]vaxis.Style) vaxis.Style {
	if len(*pool) > 0 && r.Intn(3) > 0 {
		return (*pool)[r.Intn(len(*pool))]
	}
	var s vaxis.Style
	if r.Intn(2) == 0 {
		s.Foreground = randColor(r)
	}
	if r.Intn(3) == 0 {
		s.Background = randColor(r)
	}
	if r.Intn(4) == 0 {
		s.UnderlineColor = randColor(r)
	}
	if r.Intn(3) == 0 {
		s.UnderlineStyle = vaxis.UnderlineStyle(r.Intn(6))
	}
	switch r.Intn(4) {
	case 0:
		s.Attribute = vaxis.AttributeMask(r.Intn(128) << 1)
	case 1:
		s.Attribute = vaxis.AttributeMask(1 << uint(1+r.Intn(7)))
	}
	if r.Intn(5) == 0 {
		s.Hyperlink = []string{"http://a", "http://b", "https://e.org/d;v=2/p;rev=7?x=1", "x:;;y"}[r.Intn(4)]
		if r.Intn(2) == 0 {
			s.HyperlinkParams = []string{"id=1", "id=a:b=c"}[r.Intn(2)]
		}
	}
	if len(*pool) < 6 {
		*pool = append(*pool, s)
	}
	return s
}

// hyperlink targets and parameter strings by LENGTH: nothing in Vaxis, the parser or the
// emulator may depend on how long an OSC 8 payload is.  The classes: 1, 100, the 2083 of VTE and
// browsers and the byte after it, 5000, and a random length around each power-of-two/"round"
// buffer size an implementation might have chosen
var linkLens = []int{1, 100, 2083, 2084, 5000}

func linkLen(r *rand.Rand) int {
	switch r.Intn(8) {
	case 0:
		return []int{255, 256, 257, 1023, 1024, 1025, 2047, 2048, 2049, 4095, 4096, 4097}[r.Intn(12)]
	case 1:
		return 1 + r.Intn(5200)
	default:
		return linkLens[r.Intn(len(linkLens))]
	}
}

const uriChars = "abcdefghijklmnopqrstuvwxyzABCDEFGHIJKLMNOPQRSTUVWXYZ0123456789-._~/?#&=+%:@,!$'()*;"

// a URI of exactly n bytes (n >= 1)
func longURI(r *rand.Rand, n int) string {
	head := []string{"https://e.org/?q=", "data:text/plain;base64,", "x", "file:///"}[r.Intn(4)]
	if len(head) > n {
		head = head[:n]
	}
	b := []byte(head)
	for len(b) < n {
		b = append(b, uriChars[r.Intn(len(uriChars))])
	}
	return string(b)
}

// OSC 8 parameters of exactly n bytes (n >= 4): key=value pairs separated by ':'; no ';'
func longParams(r *rand.Rand, n int) string {
	b := []byte("id=")
	for len(b) < n {
		c := uriChars[r.Intn(len(uriChars)-1)] // not ';'
		b = append(b, c)
	}
	return string(b)
}

// a style whose hyperlink (and, half of the time, its parameters) is chosen by length
func longLinkStyle(r *rand.Rand, pool *[]vaxis.Style) vaxis.Style {
	st := randStyle(r, pool)
	st.Hyperlink = longURI(r, linkLen(r))
	st.HyperlinkParams = ""
	switch r.Intn(4) {
	case 0:
		st.HyperlinkParams = longParams(r, 3+linkLen(r))
	case 1:
		st.HyperlinkParams = "id=7"
	}
	return st
}

func ecell(g string, w int, st vaxis.Style) string {
	return hx.Tuple(hx.Runes(g), hx.Z(int64(w)), renderhx.Style(st))
}

func main() {
	os.Unsetenv("COLORTERM")
	os.Unsetenv("VAXIS_GRAPHICS")
	cfg := hx.ParseFlags()
	r := cfg.Rand
	s := hx.NewStream("embed", "model.RenderTypes model.Render model.RenderCheck model.EmuSpec model.EmuBridge model.EmuBytes", "ecase", "c12_mismatches", "c12_violations_all")
	s.ShardMax = 25
	// every third history starts on a primary screen that already holds styled text (what a
	// shell leaves before the application starts): resize re-prints that screen through the
	// pen and must give the pen back (fix 63dc3f8, finding resize-pen-leak)
	nHist, maxRows, maxCols, maxFrames := 160, 4, 9, 6
	if cfg.Thorough() {
		nHist, maxRows, maxCols, maxFrames = 4000, 10, 30, 10
	}
	var direct []hx.DirectViolation
	frames := 0
	nResize := 0
	nLong := 0
	for h := 0; h < nHist; h++ {
		rows, cols := 1+r.Intn(maxRows), 2+r.Intn(maxCols)
		rows0, cols0 := rows, cols
		hResizes := 0
		emu, oc, msg := term.VerifNewTerm(cols, rows)
		if oc != 0 {
			direct = append(direct, hx.DirectViolation{Class: "emulator-setup", Case: []int{rows, cols}, What: msg})
			continue
		}
		var mu sync.Mutex
		var feedProblem string
		// uniseg's answers: every printed run the real parser delivered, with its clusters
		segs := map[string][]ansi.Print{}
		fc := hx.NewFakeConsole(hx.Profile{Rows: rows, Cols: cols})
		fc.AutoReply = false
		feedBytes := func(b []byte) {
			mu.Lock()
			defer mu.Unlock()
			// parse first (again when the Escape timer fired: a scheduling artefact, see
			// hx.IsTimerEsc), then feed; the sequences are not handed back to the parser's pools
			parse := func() (seqs []ansi.Sequence, timerEsc bool) {
				p := ansi.NewParser(&br{b: append([]byte(nil), b...)})
				for seq := range p.Next() {
					if _, ok := seq.(ansi.EOF); ok {
						continue
					}
					if hx.IsTimerEsc(seq) {
						timerEsc = true
					}
					seqs = append(seqs, seq)
				}
				return
			}
			seqs, timerEsc := parse()
			for n := 0; n < hx.TimerEscRetries && timerEsc; n++ {
				seqs, timerEsc = parse()
			}
			var run []ansi.Print
			flush := func() {
				if len(run) > 0 {
					var sb strings.Builder
					for _, p := range run {
						sb.WriteString(p.Grapheme)
					}
					segs[sb.String()] = run
					run = nil
				}
			}
			for _, seq := range seqs {
				if p, ok := seq.(ansi.Print); ok {
					run = append(run, p)
				} else {
					flush()
				}
				if o, m := emu.Feed(seq); o != 0 && feedProblem == "" {
					feedProblem = fmt.Sprintf("outcome %d on %v: %s", o, seq, m)
				}
			}
			flush()
			if rep := emu.Replies(); len(rep) > 0 {
				fc.Inject(rep)
			}
		}
		fc.WriteHook = feedBytes
		var pre []byte
		if h%3 == 2 {
			switch r.Intn(3) {
			case 0: // the whole screen on a colour, cursor sent home
				pre = []byte(fmt.Sprintf("\x1b[4%dm%s\x1b[m\x1b[H", 1+r.Intn(6), strings.Repeat("x", rows*cols)))
			case 1: // coloured, underlined lines of output, then a prompt: the cursor stays behind it
				var sb strings.Builder
				for i := 0; i < rows+r.Intn(3); i++ {
					fmt.Fprintf(&sb, "\x1b[3%d;4%d;4m%s\x1b[m\r\n", 1+r.Intn(6), 1+r.Intn(6), strings.Repeat("y", 1+r.Intn(cols)))
				}
				sb.WriteString("\x1b[1m$\x1b[m")
				pre = []byte(sb.String())
			default: // the last column of every row in reverse video with a hyperlink
				var sb strings.Builder
				for i := 0; i < rows; i++ {
					fmt.Fprintf(&sb, "\x1b[%d;%dH\x1b[7m\x1b]8;;http://o\x1b\\z\x1b]8;;\x1b\\\x1b[m", i+1, cols)
				}
				sb.WriteString("\x1b[H")
				pre = []byte(sb.String())
			}
			feedBytes(pre)
			emu.Replies()
		}
		vx, err := vaxis.New(vaxis.Options{WithConsole: fc, NoSignals: true, DisableMouse: true})
		if err != nil {
			panic(err)
		}
		got := vx.VerifCaps()
		var capsT []string
		for _, n := range capOrder {
			capsT = append(capsT, hx.Bool(got[n]))
		}
		// the host: a second Vaxis of the same size into which the emulator is drawn
		hostFC := hx.NewFakeConsole(hx.ProfileFromMask(0, rows, cols))
		host, err := vaxis.New(vaxis.Options{WithConsole: hostFC, NoSignals: true, DisableMouse: true})
		if err != nil {
			panic(err)
		}
		emu.Model().Focus()
		fc.Take()
		var pool []vaxis.Style
		var fterms []string
		var fjson []interface{}
		nf := 1 + r.Intn(maxFrames)
		haveCursor, curCol, curRow := false, 0, 0
		// directed pair of frames (one history in four): a frame whose last written cell is the
		// bottom-right one and leaves the cursor hidden - the emulator is then in the deferred-wrap
		// state - followed by a frame that changes nothing but that cell (a CUP onto the cell the
		// cursor is already on, then text)
		pairAt := -1
		if nf >= 2 && h%4 == 1 {
			pairAt = r.Intn(nf - 1)
		}
		// one history in eight: at one frame one or two cells carry a hyperlink chosen by its
		// LENGTH (the first histories of the class take 1, 100, 2083, 2084, 5000 in turn)
		longAt := -1
		if h%8 == 3 {
			longAt = r.Intn(nf)
			nLong++
		}
		for f := 0; f < nf; f++ {
			win := vx.Window()
			var ops, opsJ []string
			nops := r.Intn(7)
			if f == 0 {
				nops += 3
			}
			// an idle frame: at most the cursor's shape changes; with no drawing call at all and
			// ended by Render it writes ZERO bytes: the emulator receives nothing between two Draws
			// into the (cleared) host window, which must show the same picture again
			idle := f > 0 && r.Intn(6) == 0
			if idle {
				nops = r.Intn(2)
				if !haveCursor {
					nops = 0
				}
			}
			trueIdle := idle && nops == 0 && f != longAt
			if f == pairAt+1 && pairAt >= 0 {
				idle, nops = false, 0
			}
			for k := 0; k < nops; k++ {
				sel := r.Intn(10)
				if idle {
					sel = 2
				}
				switch sel {
				case 0:
					st := randStyle(r, &pool)
					col, row := r.Intn(cols), r.Intn(rows)
					win.SetStyle(col, row, st)
					ops = append(ops, fmt.Sprintf("OStyle %d %d %s", col, row, renderhx.Style(st)))
					opsJ = append(opsJ, fmt.Sprintf("SetStyle(%d,%d)", col, row))
				case 1:
					c := vaxis.Cell{Character: vaxis.Character{Grapheme: " ", Width: 1}, Style: randStyle(r, &pool)}
					win.Fill(c)
					ops = append(ops, "OFill "+renderhx.Cell(vx, c))
					opsJ = append(opsJ, "Fill")
				case 2:
					col, row, st := r.Intn(cols), r.Intn(rows), r.Intn(7)
					if idle || (haveCursor && r.Intn(4) == 0) {
						col, row = curCol, curRow
					}
					haveCursor, curCol, curRow = true, col, row
					vx.ShowCursor(col, row, vaxis.CursorStyle(st))
					ops = append(ops, fmt.Sprintf("OShowCursor %d %d %d", col, row, st))
					opsJ = append(opsJ, fmt.Sprintf("ShowCursor(%d,%d,%d)", col, row, st))
				case 3:
					vx.HideCursor()
					ops = append(ops, "OHideCursor")
					opsJ = append(opsJ, "HideCursor")
				default:
					c := vaxis.Cell{Character: vaxis.Character{Grapheme: graphemes[r.Intn(len(graphemes))]}, Style: randStyle(r, &pool)}
					col, row := r.Intn(cols), r.Intn(rows)
					w := vx.RenderedWidth(c.Grapheme)
					if w > cols {
						c.Grapheme = "a"
						w = 1
					}
					if w > 1 && col+w > cols {
						col = cols - w // keep wide cells off the right edge (finding wide-overhang of C01)
					}
					win.SetCell(col, row, c)
					ops = append(ops, fmt.Sprintf("OSet %d %d %s", col, row, renderhx.Cell(vx, c)))
					opsJ = append(opsJ, fmt.Sprintf("SetCell(%d,%d,%q)", col, row, c.Grapheme))
				}
			}
			if f == longAt {
				for k, nl := 0, 1+r.Intn(2); k < nl; k++ {
					st := longLinkStyle(r, &pool)
					if k == 0 && nLong <= len(linkLens) {
						st.Hyperlink = longURI(r, linkLens[nLong-1])
					} else if k == 0 && nLong <= 2*len(linkLens) {
						st.Hyperlink = "http://p"
						st.HyperlinkParams = longParams(r, 3+linkLens[nLong-1-len(linkLens)])
					}
					c := vaxis.Cell{Character: vaxis.Character{Grapheme: []string{"L", "a", "漢"}[r.Intn(3)]}, Style: st}
					col, row := r.Intn(cols), r.Intn(rows)
					if w := vx.RenderedWidth(c.Grapheme); w > 1 && col+w > cols {
						c.Grapheme = "L"
					}
					win.SetCell(col, row, c)
					ops = append(ops, fmt.Sprintf("OSet %d %d %s", col, row, renderhx.Cell(vx, c)))
					opsJ = append(opsJ, fmt.Sprintf("SetCell(%d,%d,%q,link=%d bytes,params=%d bytes)", col, row, c.Grapheme, len(st.Hyperlink), len(st.HyperlinkParams)))
				}
			}
			if pairAt >= 0 && (f == pairAt || f == pairAt+1) {
				g := []string{"a", "b", "x"}[(f-pairAt+h)%3]
				c := vaxis.Cell{Character: vaxis.Character{Grapheme: g}}
				if f == pairAt+1 && r.Intn(2) == 0 {
					c.Style = randStyle(r, &pool)
				}
				win.SetCell(cols-1, rows-1, c)
				ops = append(ops, fmt.Sprintf("OSet %d %d %s", cols-1, rows-1, renderhx.Cell(vx, c)))
				opsJ = append(opsJ, fmt.Sprintf("SetCell(%d,%d,%q)", cols-1, rows-1, g))
				vx.HideCursor()
				ops = append(ops, "OHideCursor")
				opsJ = append(opsJ, "HideCursor")
				haveCursor = false
			}
			end := "FRender"
			resized := false
			switch x := r.Intn(40); {
			case pairAt >= 0 && (f == pairAt || f == pairAt+1), f == longAt, trueIdle:
				vx.Render()
			case x < 5:
				vx.Refresh()
				end = "FRefresh"
			case (x < 12 || (len(pre) > 0 && x < 18)) && f > 0:
				// a size change: the host window changes size, drawing the emulator into it
				// resizes the emulator (Draw -> Resize), Vaxis inside sees the new size at its
				// next Render and writes nothing; the frame after it repaints
				oldRows, oldCols := rows, cols
				switch r.Intn(6) {
				case 0:
					rows, cols = 1, 1
				case 1:
					rows = 1 + r.Intn(rows) // shrink, possibly below the cursor
				case 2:
					rows, cols = rows+1+r.Intn(2), cols+r.Intn(3) // grow
				case 3:
					cols = 1 + r.Intn(cols)
				default:
					rows, cols = 1+r.Intn(maxRows), 1+r.Intn(maxCols+1)
				}
				if rows == oldRows && cols == oldCols {
					cols++
				}
				hostFC.SetSize(rows, cols)
				host.Resize()
				host.Render()
				emu.Model().Draw(host.Window())
				fc.SetSize(rows, cols)
				vx.Resize()
				vx.Render()
				end = fmt.Sprintf("(FResize %d %d)", rows, cols)
				resized = true
				nResize++
				hResizes++
			default:
				vx.Render()
			}
			toks := renderhx.Tokenize(fc.Take())
			// emulator after the frame
			mu.Lock()
			snap := emu.Snapshot(true)
			mu.Unlock()
			grid := snap.Primary
			if snap.ActiveIsAlt {
				grid = snap.Alt
			}
			var gridT []string
			for _, row := range grid {
				var rt []string
				for _, c := range row {
					rt = append(rt, ecell(c.Grapheme, c.Width, c.Style))
				}
				gridT = append(gridT, hx.List(rt))
			}
			curT := hx.Tuple(fmt.Sprint(snap.CursorRow), fmt.Sprint(snap.CursorCol), hx.Bool(snap.Dectcem), fmt.Sprint(snap.Shape))
			// draw the emulator into the host
			hwin := host.Window()
			hwin.Clear()
			host.HideCursor()
			emu.Model().Draw(hwin)
			hs := host.VerifScreenNext()
			var hostT []string
			for _, row := range hs {
				var rt []string
				for _, c := range row {
					rt = append(rt, ecell(c.Grapheme, c.Width, c.Style))
				}
				hostT = append(hostT, hx.List(rt))
			}
			hc := host.VerifCursorNext()
			hcurT := hx.Tuple(fmt.Sprint(hc.Row), fmt.Sprint(hc.Col), hx.Bool(hc.Visible), fmt.Sprint(int(hc.Style)))
			fterms = append(fterms, fmt.Sprintf("Build_eframe %s %s %s %s %s %s %s", hx.List(ops), end, hx.List(toks), hx.List(gridT), curT, hx.List(hostT), hcurT))
			fjson = append(fjson, map[string]interface{}{"ops": opsJ, "end": end, "tokens": len(toks)})
			frames++
			if resized {
				haveCursor = false
			}
			for len(vx.Events()) > 0 {
				<-vx.Events()
			}
		}
		var wt []string
		for _, g := range graphemes {
			wt = append(wt, hx.Tuple(hx.Runes(g), fmt.Sprint(vx.RenderedWidth(g))))
		}
		var runs []string
		for k := range segs {
			runs = append(runs, k)
		}
		sort.Strings(runs)
		var st []string
		for _, k := range runs {
			var cl []string
			for _, p := range segs[k] {
				cl = append(cl, hx.Tuple(hx.Runes(p.Grapheme), fmt.Sprint(p.Width)))
			}
			st = append(st, hx.Tuple(hx.Runes(k), hx.List(cl)))
		}
		js := map[string]interface{}{"rows": rows0, "cols": cols0, "frames": fjson, "caps": got}
		if len(pre) > 0 {
			js["pre"] = string(pre)
		}
		if feedProblem != "" {
			direct = append(direct, hx.DirectViolation{Class: "emulator-feed", Case: js, What: feedProblem})
		}
		s.Add(fmt.Sprintf("Build_ecase %d %d %s %s %s %s %s", rows0, cols0, hx.List(wt), hx.List(st), hx.List(capsT), hx.Bytes(pre), hx.List(fterms)), js, nf > 1,
			fmt.Sprintf("frames=%d", nf), fmt.Sprintf("resizes=%d", hResizes), fmt.Sprintf("dirty=%v", len(pre) > 0), fmt.Sprintf("lastcol-pair=%v", pairAt >= 0), fmt.Sprintf("long-link=%v", longAt >= 0))
		hx.WithTimeout(2*time.Second, vx.Close)
		hx.WithTimeout(2*time.Second, host.Close)
		emu.Close()
	}
	cfg.Write("C12", "a real Vaxis started on the real embedded emulator (handshake through the emulator's own replies), every third history over a primary screen that already holds styled text (coloured fill, coloured underlined lines and a prompt, reverse-video hyperlinked last column); random frame histories as in C01 (sizes up to 4x9 quick / 10x30 thorough, wide, zero-width and multi-codepoint graphemes, all colour classes, attributes, underline styles, hyperlinks, cursor), one history in eight with one or two cells whose hyperlink target and parameters are chosen by LENGTH (1, 100, 2083, 2084, 5000 bytes, sizes around 256/1024/2048/4096, random up to 5200), one history in four with a directed pair of frames (the bottom-right cell written last with the cursor hidden, then a frame changing only that cell); ended by Render, Refresh or a size change (the host window is resized - to 1x1, shrinking below the cursor, growing, random -, drawing the emulator into it resizes the emulator, Vaxis sees the new size and repaints with the next frame); after every frame the emulator's grid and cursor and the cells obtained by drawing the emulator into a host Vaxis are recorded, and for every printed run the clusters and widths the real parser (uniseg) cut it into. non-trivial = more than one frame",
		[]*hx.Stream{s}, map[string]interface{}{"frames": frames, "resizes": nResize}, direct)
}
