module verif/harness

go 1.18

require (
	git.sr.ht/~rockorager/vaxis v0.0.0
	github.com/containerd/console v1.0.3
	github.com/rivo/uniseg v0.4.4
)

require (
	github.com/creack/pty v1.1.18 // indirect
	github.com/mattn/go-runewidth v0.0.14 // indirect
	github.com/mattn/go-sixel v0.0.5 // indirect
	github.com/soniakeys/quant v1.0.0 // indirect
	golang.org/x/exp v0.0.0-20230522175609-2e198f4a06a1 // indirect
	golang.org/x/image v0.9.0 // indirect
	golang.org/x/sys v0.10.0 // indirect
)

replace git.sr.ht/~rockorager/vaxis => /repo
