// Harness for C10: scripted interleavings against a real Vaxis on the fake
// console.  Poster goroutines perform one post per hand-off from the driver;
// the driver polls, types, and calls Close/Suspend/Resume under watchdogs.
// Every action's observation (did the call return, which event was polled) is
// written into a Coq case together with the schedule; model/Conc.v runs the
// same schedule (sched_model) and states the property on the observation alone
// (sched_violation).
//
// Synchronisation with the library's own goroutines is by waiting for the
// queue length the schedule implies (len(vx.Events())), never by a bare sleep,
// so a loaded machine slows the run down but does not change observations.
// A "blocked" observation is a call that has not returned after blockWait.
//
// Thorough tier additionally builds ./c10/stress with `go build -race` (needs
// cgo) and runs it; detector reports go into the evidence as search support.
package main

import (
	"bytes"
	"fmt"
	"os"
	"os/exec"
	"os/signal"
	"path/filepath"
	"regexp"
	"runtime"
	"sort"
	"strings"
	"syscall"
	"time"

	vaxis "git.sr.ht/~rockorager/vaxis"
	"verif/harness/hx"
)

const (
	blockWait = 40 * time.Millisecond  // a blocking post that has not returned by then is "blocked"
	noneWait  = 25 * time.Millisecond  // a poll that sees nothing for this long polled nothing
	hangWait  = 400 * time.Millisecond // watchdog for a Close/Suspend the schedule expects to hang
)

// lw is the time the driver waits for something the schedule says must happen.
// Once such waits have expired a few times (the implementation does not do what
// the schedule implies: the case files will say so) the driver stops being patient.
var expired int

func lw() time.Duration {
	if expired > 6 {
		return 100 * time.Millisecond
	}
	return 3 * time.Second
}

type pev struct{ src, val int }

type act struct {
	Kind string `json:"k"`           // post poll type close suspend resume
	I    int    `json:"i,omitempty"` // poster
	Keys []int  `json:"keys,omitempty"`
}

type post struct {
	Blk bool `json:"blk"`
	Val int  `json:"val"`
}

type obsT struct {
	Ret bool    `json:"ret"`
	Ev  *[2]int `json:"ev,omitempty"`
}

type caseJS struct {
	N       int      `json:"n"`
	Ans     bool     `json:"ans"`
	Scripts [][]post `json:"scripts"`
	Acts    []act    `json:"acts"`
	Obs     []obsT   `json:"obs"`
	Rest    [][2]int `json:"rest"`
	Leak    int      `json:"leak"`
	Class   string   `json:"class,omitempty"`
	Kind    string   `json:"kind"`
}

// shadow is the driver's bookkeeping of what the schedule implies: how many
// events must be in the queue, how many typed keys are still on their way,
// which poster is blocked.  Used only to know what to wait for.
type shadow struct {
	n, qlen, pendIn, waiter int
	suspended, closed, hung bool
	next                    []int // next script index per poster
}

func (s *shadow) flow() {
	for s.pendIn > 0 && s.qlen < s.n {
		s.pendIn--
		s.qlen++
	}
}

// ---------------------------------------------------------------- running one schedule

type poster struct {
	cmd  chan post
	done chan struct{}
}

func evCode(ev vaxis.Event) [2]int {
	switch e := ev.(type) {
	case pev:
		return [2]int{e.src, e.val}
	case vaxis.Key:
		return [2]int{-1, int(e.Keycode) - 'a'}
	case vaxis.Mouse:
		return [2]int{-1, e.Col}
	case vaxis.QuitEvent:
		return [2]int{-2, -1}
	}
	if strings.Contains(fmt.Sprintf("%T", ev), "primaryDeviceAttribute") {
		return [2]int{-1, -2}
	}
	return [2]int{-9, 0}
}

func waitLen(vx *vaxis.Vaxis, want int, d time.Duration) bool {
	dl := time.Now().Add(d)
	for {
		if len(vx.Events()) == want {
			return true
		}
		if time.Now().After(dl) {
			expired++
			return false
		}
		time.Sleep(200 * time.Microsecond)
	}
}

// quiesce waits until every goroutine of the library (parser run loop, input
// goroutine) is blocked — in a channel operation, a select or a read — in two
// consecutive samples.  This is the "settle" of the model's runner: the model
// is compared with the implementation only at such points.
func quiesce(d time.Duration) bool {
	dl := time.Now().Add(d)
	buf := make([]byte, 1<<18)
	okRuns := 0
	for {
		n := runtime.Stack(buf, true)
		blocked := true
		for _, g := range strings.Split(string(buf[:n]), "\n\n") {
			if !strings.Contains(g, "vaxis/ansi.(*Parser).run") && !strings.Contains(g, "vaxis.(*Vaxis).openTty.func1") {
				continue
			}
			hdr := g
			if i := strings.IndexByte(g, '\n'); i >= 0 {
				hdr = g[:i]
			}
			if !(strings.Contains(hdr, "[chan send") || strings.Contains(hdr, "[chan receive") || strings.Contains(hdr, "[select") || strings.Contains(hdr, "[IO wait")) {
				blocked = false
			}
		}
		if blocked {
			okRuns++
			if okRuns >= 2 {
				return true
			}
		} else {
			okRuns = 0
		}
		if time.Now().After(dl) {
			expired++
			return false
		}
		time.Sleep(150 * time.Microsecond)
	}
}

func waitGoroutines(max int, d time.Duration) int {
	dl := time.Now().Add(d)
	for {
		g := runtime.NumGoroutine()
		if g <= max || time.Now().After(dl) {
			return g
		}
		time.Sleep(time.Millisecond)
	}
}

func runCase(n int, ans bool, scripts [][]post, acts []act) (obs []obsT, rest [][2]int, leak int, note string) {
	base := waitGoroutines(0, 0)
	fc := hx.NewFakeConsole(hx.Profile{Rows: 5, Cols: 10, CursorStyleReply: -1})
	vx, err := vaxis.New(vaxis.Options{WithConsole: fc, NoSignals: true, EventQueueSize: n})
	if err != nil {
		panic(err)
	}
	// start-up leaves a Resize event (and nothing else for this profile): drain
	for {
		select {
		case <-vx.Events():
			continue
		case <-time.After(15 * time.Millisecond):
		}
		break
	}
	if !ans {
		fc.P.NoDA1 = true
	}
	ps := make([]*poster, len(scripts))
	for i := range scripts {
		p := &poster{cmd: make(chan post), done: make(chan struct{}, 4)}
		ps[i] = p
		src := i
		go func() {
			for c := range p.cmd {
				if c.Blk {
					vx.PostEventBlocking(pev{src, c.Val})
				} else {
					vx.PostEvent(pev{src, c.Val})
				}
				p.done <- struct{}{}
			}
		}()
	}
	sh := &shadow{n: n, waiter: -1, next: make([]int, len(scripts))}
	gBeforeSuspend := 0
	for _, a := range acts {
		o := obsT{Ret: true}
		t0 := time.Now()
		switch a.Kind {
		case "post":
			c := scripts[a.I][sh.next[a.I]]
			sh.next[a.I]++
			ps[a.I].cmd <- c
			willBlock := c.Blk && sh.qlen >= sh.n
			w := lw()
			if willBlock {
				w = blockWait
			}
			select {
			case <-ps[a.I].done:
			case <-time.After(w):
				o.Ret = false
				if !willBlock {
					expired++
				}
			}
			if willBlock {
				sh.waiter = a.I
			} else if sh.qlen < sh.n {
				sh.qlen++
			}
			if o.Ret && !willBlock {
				waitLen(vx, sh.qlen, lw())
			}
		case "poll":
			w := noneWait
			if sh.qlen > 0 {
				w = lw()
			} else if len(vx.Events()) == 0 {
				w = 0 // the library is at rest (quiesce) and the queue is empty: nothing can arrive
			}
			select {
			case ev := <-vx.Events():
				c := evCode(ev)
				o.Ev = &c
				if sh.qlen > 0 {
					sh.qlen--
				}
				if sh.waiter >= 0 {
					select {
					case <-ps[sh.waiter].done:
					case <-time.After(lw()):
						note += "blocked poster did not wake; "
					}
					sh.waiter = -1
					sh.qlen++
				}
				sh.flow()
				waitLen(vx, sh.qlen, lw())
			case <-time.After(w):
				if sh.qlen > 0 {
					expired++
				}
			}
		case "type":
			// every third code is typed as an SGR mouse press at column k (one event each, like a key)
			var b []byte
			for _, k := range a.Keys {
				if k%3 == 2 {
					b = append(b, fmt.Sprintf("\x1b[<0;%d;1M", k+1)...)
				} else {
					b = append(b, byte('a'+k))
				}
			}
			fc.Inject(b)
			sh.pendIn += len(a.Keys)
			sh.flow()
			if !waitLen(vx, sh.qlen, lw()) {
				note += "typed keys did not arrive; "
			}
		case "close", "suspend":
			expectHang := sh.suspended || !ans || (sh.qlen >= sh.n && sh.pendIn >= 3)
			if a.Kind == "close" && sh.closed {
				expectHang = false
			}
			w := lw()
			if expectHang {
				w = hangWait
			}
			gBeforeSuspend = runtime.NumGoroutine()
			if a.Kind == "close" {
				if sh.qlen < sh.n && !sh.closed {
					sh.qlen++
				}
				o.Ret = hx.WithTimeout(w, vx.Close)
				sh.closed = sh.closed || o.Ret
			} else {
				o.Ret = hx.WithTimeout(w, func() { _ = vx.Suspend() })
				sh.suspended = o.Ret
			}
			if !o.Ret {
				if !expectHang {
					expired++
				}
				sh.hung = true
			} else {
				sh.flow()
				waitLen(vx, sh.qlen, lw())
				if a.Kind == "suspend" {
					// parser and input goroutine must be gone before Resume is modelled
					waitGoroutines(gBeforeSuspend-2, lw())
				}
			}
		case "resume":
			o.Ret = hx.WithTimeout(lw(), func() { _ = vx.Resume() })
			sh.suspended = false
			time.Sleep(2 * time.Millisecond)
		}
		if !sh.hung {
			if !quiesce(lw()) {
				note += "library goroutines did not come to rest; "
			}
		}
		if d := time.Since(t0); d > 500*time.Millisecond && os.Getenv("C10_DEBUG") != "" {
			fmt.Fprintf(os.Stderr, "slow %v: %+v sh=%+v\n", d, a, *sh)
		}
		obs = append(obs, o)
		if sh.hung {
			break // nothing after a hang is comparable
		}
	}
	// what is left in the queue right now
	for k := len(vx.Events()); k > 0; k-- {
		select {
		case ev := <-vx.Events():
			rest = append(rest, evCode(ev))
		default:
		}
	}
	for _, p := range ps {
		close(p.cmd)
	}
	if !sh.hung {
		// unblock anything still waiting for room, then count what is left
		stop := make(chan struct{})
		go func() {
			for {
				select {
				case <-vx.Events():
				case <-stop:
					return
				}
			}
		}()
		g := waitGoroutines(base+1, lw())
		close(stop)
		g = waitGoroutines(base, 200*time.Millisecond)
		leak = g - base
		if leak < 0 {
			leak = 0
		}
	}
	return
}

// ---------------------------------------------------------------- Coq printing

func coqActs(acts []act) string {
	var s []string
	for _, a := range acts {
		switch a.Kind {
		case "post":
			s = append(s, "APost "+hx.Z(int64(a.I)))
		case "poll":
			s = append(s, "APoll")
		case "type":
			s = append(s, "AType "+hx.IntList(a.Keys))
		case "close":
			s = append(s, "AClose")
		case "suspend":
			s = append(s, "ASuspend")
		case "resume":
			s = append(s, "AResume")
		}
	}
	return hx.List(s)
}

func coqPair(p [2]int) string { return hx.Tuple(hx.Z(int64(p[0])), hx.Z(int64(p[1]))) }

func coqCase(c caseJS) string {
	var scr []string
	for _, sc := range c.Scripts {
		var ps []string
		for _, p := range sc {
			ps = append(ps, hx.Tuple(hx.Bool(p.Blk), hx.Z(int64(p.Val))))
		}
		scr = append(scr, hx.List(ps))
	}
	var os []string
	for _, o := range c.Obs {
		e := hx.None
		if o.Ev != nil {
			e = hx.Some(coqPair(*o.Ev))
		}
		os = append(os, hx.Tuple(hx.Bool(o.Ret), e))
	}
	var rs []string
	for _, r := range c.Rest {
		rs = append(rs, coqPair(r))
	}
	return hx.Tuple(hx.Z(int64(c.N)), hx.Bool(c.Ans), hx.List(scr), coqActs(c.Acts), hx.List(os), hx.List(rs), hx.Z(int64(c.Leak)))
}

// ---------------------------------------------------------------- schedule generator

type gen struct {
	cfg *hx.Config
}

func (g *gen) scripts(k, maxLen int, allBlocking int) [][]post {
	out := make([][]post, k)
	for i := range out {
		m := 1 + g.cfg.Rand.Intn(maxLen)
		for j := 0; j < m; j++ {
			blk := g.cfg.Rand.Intn(2) == 0
			if i < allBlocking {
				blk = true
			}
			out[i] = append(out[i], post{blk, 100*(i+1) + j})
		}
	}
	return out
}

// random schedule that never has two senders waiting for the same slot, ends
// with Close and enough polls to drain (so that loss and leaks are decidable)
func (g *gen) random(n int, scripts [][]post, withSuspend bool) []act {
	r := g.cfg.Rand
	sh := &shadow{n: n, waiter: -1, next: make([]int, len(scripts))}
	var acts []act
	key := 0
	steps := 6 + r.Intn(14)
	for s := 0; s < steps; s++ {
		switch c := r.Intn(10); {
		case c < 4: // post
			i := r.Intn(len(scripts))
			if i == sh.waiter || sh.next[i] >= len(scripts[i]) {
				continue
			}
			p := scripts[i][sh.next[i]]
			if p.Blk && sh.qlen >= sh.n && (sh.waiter >= 0 || sh.pendIn > 0) {
				continue
			}
			sh.next[i]++
			if p.Blk && sh.qlen >= sh.n {
				sh.waiter = i
			} else if sh.qlen < sh.n {
				sh.qlen++
			}
			acts = append(acts, act{Kind: "post", I: i})
		case c < 7: // poll
			if sh.qlen > 0 {
				sh.qlen--
				if sh.waiter >= 0 {
					sh.waiter = -1
					sh.qlen++
				}
				sh.flow()
			}
			acts = append(acts, act{Kind: "poll"})
		case c < 9: // type
			if sh.waiter >= 0 {
				continue
			}
			m := 1 + r.Intn(3)
			var ks []int
			for j := 0; j < m; j++ {
				ks = append(ks, key%26)
				key++
			}
			sh.pendIn += m
			sh.flow()
			acts = append(acts, act{Kind: "type", Keys: ks})
		default: // suspend + resume
			if !withSuspend || sh.pendIn > 0 || sh.waiter >= 0 {
				continue
			}
			acts = append(acts, act{Kind: "suspend"}, act{Kind: "resume"})
		}
	}
	for sh.qlen >= sh.n && sh.pendIn >= 3 {
		// would be the full-queue hang (finding close-full-queue, shown by directed cases): make room first
		acts = append(acts, act{Kind: "poll"})
		sh.qlen--
		if sh.waiter >= 0 {
			sh.waiter = -1
			sh.qlen++
		}
		sh.flow()
	}
	acts = append(acts, act{Kind: "close"})
	for k := 0; k < n+sh.pendIn+3; k++ {
		acts = append(acts, act{Kind: "poll"})
	}
	return acts
}

func main() {
	cfg := hx.ParseFlags()
	os.Unsetenv("COLORTERM")
	// Resume installs signal handlers (even with NoSignals); start os/signal's own goroutine before any baseline
	warm := make(chan os.Signal, 1)
	signal.Notify(warm, syscall.SIGUSR2)
	signal.Stop(warm)
	sched := hx.NewStream("sched", "model.Conc", "sched_case", "c10_sched_mismatches", "c10_sched_violations")
	sched.Known, sched.KnownClass = "c10_sched_known", "suspend-then-close"
	fullq := hx.NewStream("fullq", "model.Conc", "sched_case", "c10_sched_mismatches", "c10_fullq_violations")
	fullq.Known, fullq.KnownClass = "c10_fullq_known", "close-full-queue"
	g := &gen{cfg}
	var notes []string
	add := func(st *hx.Stream, kind, class string, n int, ans bool, scripts [][]post, acts []act) {
		obs, rest, leak, note := runCase(n, ans, scripts, acts)
		c := caseJS{N: n, Ans: ans, Scripts: scripts, Acts: acts, Obs: obs, Rest: rest, Leak: leak, Class: class, Kind: kind}
		if note != "" {
			notes = append(notes, kind+": "+note)
		}
		blocked, dropped, susp := false, false, false
		for i, a := range acts {
			if a.Kind == "post" && !obs[i].Ret {
				blocked = true
			}
			if a.Kind == "suspend" {
				susp = true
			}
		}
		_ = dropped
		tags := []string{kind, fmt.Sprintf("N=%d", n), fmt.Sprintf("posters=%d", len(scripts))}
		if blocked {
			tags = append(tags, "has-blocked-post")
		}
		if susp {
			tags = append(tags, "has-suspend")
		}
		st.Add(coqCase(c), c, blocked || susp || kind != "random", tags...)
	}

	// directed schedules
	two := [][]post{{{true, 10}, {false, 11}, {true, 12}}, {{false, 20}, {false, 21}}}
	add(sched, "directed-fifo", "", 1, true, two, []act{{Kind: "post", I: 1}, {Kind: "post", I: 1}, {Kind: "post", I: 0}, {Kind: "poll"}, {Kind: "poll"}, {Kind: "poll"}, {Kind: "close"}, {Kind: "poll"}, {Kind: "poll"}})
	add(sched, "directed-close-with-input", "", 2, true, two, []act{{Kind: "type", Keys: []int{7}}, {Kind: "post", I: 0}, {Kind: "close"}, {Kind: "poll"}, {Kind: "poll"}, {Kind: "poll"}})
	add(sched, "directed-suspend-resume-close", "", 4, true, two, []act{{Kind: "post", I: 0}, {Kind: "suspend"}, {Kind: "resume"}, {Kind: "type", Keys: []int{1, 2}}, {Kind: "close"}, {Kind: "poll"}, {Kind: "poll"}, {Kind: "poll"}, {Kind: "poll"}, {Kind: "poll"}})
	add(sched, "directed-suspend-twice-resume", "", 4, true, two, []act{{Kind: "suspend"}, {Kind: "resume"}, {Kind: "suspend"}, {Kind: "resume"}, {Kind: "close"}, {Kind: "poll"}, {Kind: "poll"}})
	add(sched, "directed-close-twice", "", 4, true, two, []act{{Kind: "close"}, {Kind: "close"}, {Kind: "poll"}, {Kind: "poll"}})
	add(sched, "directed-full-queue-close-returns", "", 1, true, two, []act{{Kind: "post", I: 1}, {Kind: "type", Keys: []int{1, 2}}, {Kind: "close"}, {Kind: "poll"}, {Kind: "poll"}, {Kind: "poll"}, {Kind: "poll"}, {Kind: "poll"}})
	// the terminal does not answer DA1: outside the theorem's hypothesis, model and implementation agree that Close hangs
	add(sched, "directed-no-da1", "", 4, false, two, []act{{Kind: "post", I: 0}, {Kind: "close"}})
	// recorded findings
	add(sched, "known-suspend-then-close", "suspend-then-close", 4, true, two, []act{{Kind: "post", I: 0}, {Kind: "suspend"}, {Kind: "close"}})
	add(sched, "known-suspend-then-suspend", "suspend-then-close", 4, true, two, []act{{Kind: "suspend"}, {Kind: "suspend"}})
	add(fullq, "known-close-full-queue", "close-full-queue", 1, true, two, []act{{Kind: "post", I: 1}, {Kind: "type", Keys: []int{1, 2, 3, 4}}, {Kind: "close"}})
	add(fullq, "known-close-full-queue-eof", "close-full-queue", 1, true, two, []act{{Kind: "post", I: 1}, {Kind: "type", Keys: []int{1, 2, 3}}, {Kind: "close"}})
	add(fullq, "known-suspend-full-queue", "close-full-queue", 2, true, two, []act{{Kind: "post", I: 1}, {Kind: "post", I: 1}, {Kind: "type", Keys: []int{1, 2, 3, 4, 5}}, {Kind: "suspend"}})

	// random schedules
	nRandom := 90
	if cfg.Thorough() {
		nRandom = 1500
	}
	for i := 0; i < nRandom; i++ {
		n := 1 + cfg.Rand.Intn(4)
		k := 1 + cfg.Rand.Intn(3)
		scripts := g.scripts(k, 5, cfg.Rand.Intn(k+1))
		acts := g.random(n, scripts, cfg.Rand.Intn(3) == 0)
		add(sched, "random", "", n, true, scripts, acts)
	}

	qst, qnotes := queryStream(cfg)
	for _, n := range qnotes {
		notes = append(notes, "query/"+n)
	}

	lst, ldirect := spinnerUnderFullQueue()

	extra := map[string]interface{}{"driver_notes": notes}
	if cfg.Thorough() {
		extra["race_detector"] = raceStress(cfg)
	} else {
		extra["race_detector"] = "not run in the quick tier"
	}
	cfg.Write("C10",
		"non-trivial = a directed schedule, or a random schedule in which a blocking post blocked or a Suspend/Resume happened; every schedule ends with Close and a drain so that loss and goroutine leaks are decidable; query scenarios: non-trivial = directed, or contains an early or unanswered query or a reply at rest",
		[]*hx.Stream{sched, fullq, qst, lst}, extra, append(slowTerminal(), ldirect...))
}

// slowTerminal: a terminal whose write of the DA1 query returns only after its reply has
// been consumed by the parser (a slow or remote link).  Close and Suspend must still return:
// the close request has to be visible to the parser before the wake-up reply arrives.
func slowTerminal() []hx.DirectViolation {
	var out []hx.DirectViolation
	for _, script := range [][]string{{"close"}, {"suspend", "resume", "close"}, {"suspend", "resume", "suspend", "resume", "close"}} {
		prof := hx.ProfileFromMask(0, 5, 10)
		prof.NoDA1 = true
		fc := hx.NewFakeConsole(prof)
		fc.WriteHook = func(b []byte) {
			if strings.Contains(string(b), "\x1b[c") {
				fc.InjectString("\x1b[?62;22c")
				time.Sleep(5 * time.Millisecond)
			}
		}
		vx, err := vaxis.New(vaxis.Options{WithConsole: fc, NoSignals: true})
		if err != nil {
			out = append(out, hx.DirectViolation{Class: "slow-terminal-shutdown", Case: script, What: "New failed: " + err.Error()})
			continue
		}
		for i, op := range script {
			var ok bool
			switch op {
			case "close":
				ok = hx.WithTimeout(3*time.Second, vx.Close)
			case "suspend":
				ok = hx.WithTimeout(3*time.Second, func() { _ = vx.Suspend() })
			case "resume":
				ok = hx.WithTimeout(3*time.Second, func() { _ = vx.Resume() })
			}
			if !ok {
				out = append(out, hx.DirectViolation{Class: "slow-terminal-shutdown", Case: script,
					What: fmt.Sprintf("%s (step %d) did not return within 3 s on a terminal whose DA1 reply is consumed before the query write returns", op, i)})
				break
			}
		}
	}
	return out
}

// ---------------------------------------------------------------- race detector (thorough tier, search support only)

func raceStress(cfg *hx.Config) map[string]interface{} {
	res := map[string]interface{}{}
	// the orchestrator runs everything with CGO_ENABLED=0; ask the toolchain for its own default
	var env []string
	for _, e := range os.Environ() {
		if !strings.HasPrefix(e, "CGO_ENABLED=") {
			env = append(env, e)
		}
	}
	q := exec.Command("go", "env", "CGO_ENABLED")
	q.Env = env
	out, err := q.Output()
	if err != nil || strings.TrimSpace(string(out)) != "1" {
		res["status"] = "skipped: go env CGO_ENABLED is not 1 (the race detector needs cgo on linux/amd64)"
		return res
	}
	if _, err := exec.LookPath("gcc"); err != nil {
		if _, err2 := exec.LookPath("cc"); err2 != nil {
			res["status"] = "skipped: no C compiler (the race detector needs cgo on linux/amd64)"
			return res
		}
	}
	wd, _ := os.Getwd()
	hdir := filepath.Join(wd, "harness")
	if _, err := os.Stat(filepath.Join(hdir, "c10", "stress")); err != nil {
		hdir = "/verif/harness"
	}
	bin := filepath.Join(cfg.Out, "c10stress")
	cmd := exec.Command("go", "build", "-race", "-tags", "verif", "-o", bin, "./c10/stress")
	cmd.Dir = hdir
	cmd.Env = append(env, "GOFLAGS=-mod=mod", "GOPROXY=off", "GOSUMDB=off", "GOTOOLCHAIN=local")
	if b, err := cmd.CombinedOutput(); err != nil {
		res["status"] = "skipped: go build -race failed: " + strings.TrimSpace(string(b))
		return res
	}
	run := exec.Command(bin, fmt.Sprint(cfg.Seed))
	run.Env = append(os.Environ(), "GORACE=halt_on_error=0 history_size=3")
	var buf bytes.Buffer
	run.Stdout, run.Stderr = &buf, &buf
	done := make(chan error, 1)
	if err := run.Start(); err != nil {
		res["status"] = "skipped: " + err.Error()
		return res
	}
	go func() { done <- run.Wait() }()
	select {
	case <-done:
	case <-time.After(4 * time.Minute):
		_ = run.Process.Kill()
		res["timeout"] = true
	}
	text := buf.String()
	_ = os.WriteFile(filepath.Join(cfg.Out, "race.log"), []byte(text), 0o644)
	// summarise: for each report, the kind and the first /repo source line of both accesses
	reports := strings.Split(text, "WARNING: DATA RACE")
	loc := regexp.MustCompile(`^\s+/repo/(\S+:\d+)`)
	seen := map[string]int{}
	for _, rp := range reports[1:] {
		var parts []string
		lines := strings.Split(rp, "\n")
		for i, l := range lines {
			kind := ""
			switch {
			case strings.HasPrefix(l, "Read at"), strings.HasPrefix(l, "Previous read at"):
				kind = "R"
			case strings.HasPrefix(l, "Write at"), strings.HasPrefix(l, "Previous write at"):
				kind = "W"
			}
			if kind == "" {
				continue
			}
			where := "?"
			for _, m := range lines[i+1:] {
				if m == "" {
					break
				}
				if mm := loc.FindStringSubmatch(m); mm != nil {
					where = mm[1]
					break
				}
			}
			parts = append(parts, kind+" "+where)
		}
		seen[strings.Join(parts, " vs ")]++
	}
	var keys []string
	for k := range seen {
		keys = append(keys, fmt.Sprintf("%dx %s", seen[k], k))
	}
	sort.Strings(keys)
	res["status"] = "ran"
	res["reports"] = len(reports) - 1
	res["distinct"] = keys
	res["log"] = filepath.Join(cfg.Out, "race.log")
	return res
}
