// Stress program for C10, built with `go build -race` by the c10 harness in
// the thorough tier.  It exercises every entry point the property names at
// once.  Its only output that matters is what the race detector prints; the
// harness summarises that as SEARCH SUPPORT (it proves nothing).
package main

import (
	"fmt"
	"math/rand"
	"os"
	"strconv"
	"sync"
	"time"

	vaxis "git.sr.ht/~rockorager/vaxis"
	"verif/harness/hx"
)

type tick struct{ src, n int }

func main() {
	os.Unsetenv("COLORTERM")
	seed := int64(1)
	if len(os.Args) > 1 {
		seed, _ = strconv.ParseInt(os.Args[1], 10, 64)
	}
	rnd := rand.New(rand.NewSource(seed))
	for round := 0; round < 12; round++ {
		// a terminal that answers the colour queries, so that Query* can be used
		fc := hx.NewFakeConsole(hx.Profile{Rows: 6, Cols: 20, CursorStyleReply: 2, Osc4: true, Osc10: true, Osc11: true,
			Sync: true, Unicode: round%2 == 0, KittyKB: round%3 == 0, RGB: true, ReportSize: round%2 == 1})
		vx, err := vaxis.New(vaxis.Options{WithConsole: fc, NoSignals: true, EventQueueSize: 8 + rnd.Intn(64)})
		if err != nil {
			panic(err)
		}
		stop := make(chan struct{})
		var wg sync.WaitGroup
		// posters
		for p := 0; p < 4; p++ {
			wg.Add(1)
			go func(p int) {
				defer wg.Done()
				for n := 0; ; n++ {
					select {
					case <-stop:
						return
					default:
					}
					switch n % 5 {
					case 0:
						vx.PostEvent(tick{p, n})
					case 1:
						// blocking post, but never block for ever once the consumer is gone
						done := make(chan struct{})
						go func() { vx.PostEventBlocking(tick{p, n}); close(done) }()
						select {
						case <-done:
						case <-stop:
							return
						}
					case 2:
						vx.SyncFunc(func() {})
					case 3:
						vx.Resize()
					case 4:
						// a reply lost to a concurrent Suspend would block the query for ever (C03's business)
						done := make(chan struct{})
						go func() {
							if p == 0 {
								_ = vx.QueryColor(vaxis.IndexColor(1))
							} else if p == 1 {
								_ = vx.QueryForeground()
							} else {
								_ = vx.CanRGB()
							}
							close(done)
						}()
						select {
						case <-done:
						case <-time.After(20 * time.Millisecond):
						case <-stop:
							return
						}
					}
					time.Sleep(time.Duration(50+n%200) * time.Microsecond)
				}
			}(p)
		}
		// terminal input, including a lone ESC around the 10 ms timer
		wg.Add(1)
		go func() {
			defer wg.Done()
			inputs := []string{"a", "bc", "\x1b", "\x1b[A", "\x1b[200~xy\x1b[201~", "\x1b", "\x1b]52;c;aGk=\x1b\\", "\x1b[I", "\x1b[<0;1;1M"}
			for i := 0; ; i++ {
				select {
				case <-stop:
					return
				default:
				}
				fc.InjectString(inputs[i%len(inputs)])
				if i%3 == 0 {
					time.Sleep(12 * time.Millisecond)
				} else {
					time.Sleep(300 * time.Microsecond)
				}
			}
		}()
		// main goroutine: poll, draw, render, suspend/resume
		deadline := time.Now().Add(700 * time.Millisecond)
		frames := 0
		for time.Now().Before(deadline) {
			select {
			case ev := <-vx.Events():
				if f, ok := ev.(vaxis.SyncFunc); ok {
					f()
				}
			case <-time.After(time.Millisecond):
			}
			win := vx.Window()
			win.Clear()
			win.Print(vaxis.Segment{Text: fmt.Sprintf("frame %d", frames)})
			if frames%7 == 0 {
				vx.ShowCursor(frames%20, 0, vaxis.CursorBeam)
			} else if frames%7 == 3 {
				vx.HideCursor()
			}
			vx.Render()
			frames++
			if frames%97 == 0 {
				okS := hx.WithTimeout(5*time.Second, func() { _ = vx.Suspend() })
				if !okS {
					fmt.Println("suspend hung")
					os.Exit(3)
				}
				time.Sleep(time.Millisecond)
				_ = vx.Resume()
			}
		}
		// keep consuming while Close runs on another goroutine? No: Close is main-goroutine API.
		close(stop)
		// drain so that blocked posters can leave
		drained := make(chan struct{})
		go func() {
			for {
				select {
				case <-vx.Events():
				case <-drained:
					return
				}
			}
		}()
		wg.Wait()
		close(drained)
		if !hx.WithTimeout(5*time.Second, vx.Close) {
			fmt.Println("close hung in round", round)
		}
	}
	fmt.Println("stress done")
}
