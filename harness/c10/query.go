// Query / reply scenarios (stream "query"): model/ConcQuery.v Part E.
//
// One scenario = a list of actions on a real Vaxis after start-up.  After each
// action the driver lets every goroutine of the library come to rest (parser
// blocked in the console read, input goroutine back in its select and outside
// handleSequence, timers of pending offers and queries expired) and records
//   - the return code of the query issued by the action (-3 no query, -2 still
//     blocked, -1 returned without a value, v >= 0 the value returned),
//   - the key events delivered meanwhile,
//   - earlier blocked queries that returned meanwhile.
// The order of events inside an action is forced through the fake console:
//   early   the reply is injected inside the console Write of the query and
//           Write returns only after the library has handled the reply
//   prompt  the reply is injected once the calling goroutine is parked in its
//           receive (or has returned already)
//   never   no reply
// Coq runs the same scenario on the model instantiated with the configuration
// translated from the Go source (exec_scn gen_qcfg) and evaluates the property
// on the observation alone (query_violation).
package main

import (
	"bytes"
	"context"
	"encoding/base64"
	"fmt"
	"os"
	"runtime"
	"strconv"
	"strings"
	"sync"
	"time"

	vaxis "git.sr.ht/~rockorager/vaxis"
	"git.sr.ht/~rockorager/vaxis/widgets/spinner"
	"verif/harness/hx"
)

type qact struct {
	Kind string `json:"k"`           // query reply keyr key
	Q    string `json:"q,omitempty"` // fg bg col cpr clip size
	M    int    `json:"m"`           // query: 0 early 1 prompt 2 never
	V    int    `json:"v"`
	Two  bool   `json:"two,omitempty"`
}

type qobsT struct {
	Rc   int      `json:"rc"`
	Keys []int    `json:"keys"`
	Rel  [][2]int `json:"rel"`
}

type qcaseJS struct {
	Acts  []qact  `json:"acts"`
	Obs   []qobsT `json:"obs"`
	Class string  `json:"class,omitempty"`
	Kind  string  `json:"kind"`
	Runs  int     `json:"runs"`
	// the first action (a size request answered early) is the request New itself makes
	Startup bool   `json:"first_action_is_the_size_request_of_New,omitempty"`
	Note    string `json:"note,omitempty"`
}

// "size" is the request reportWinsize makes when VAXIS_FORCE_XTWINOPS is set and the terminal
// reports its size in characters and in pixels (CSI 14 t / CSI 18 t): issued through
// Resize() + Render() (or by New), answered by the input goroutine through chSizeDone.  Its
// value is rows*256+cols of the Resize event that Render posts, -1 = no Resize event: the
// resize request was lost.
var qKinds = []string{"fg", "bg", "col", "cpr", "clip", "size"}

// kinds a reply at rest is generated for (a size report at rest is not: see queryStream)
var qReplyKinds = qKinds[:5]

var qCoqKind = map[string]string{"fg": "KFg", "bg": "KBg", "col": "KCol", "cpr": "KCpr", "clip": "KClip", "size": "KSize"}

var qQuery = map[string]string{
	"fg":   "\x1b]10;?\x07",
	"bg":   "\x1b]11;?\x07",
	"col":  "\x1b]4;1;?\x1b\\",
	"cpr":  "\x1b[6n",
	"clip": "\x1b]52;c;?\x1b\\",
	"size": "\x1b[14t\x1b[18t",
}

func qTimed(k string) bool { return k == "cpr" || k == "clip" || k == "size" }

func qReply(k string, v int) string {
	rgb := fmt.Sprintf("rgb:%04x/%04x/%04x", (v>>16)&0xff, (v>>8)&0xff, v&0xff)
	switch k {
	case "fg":
		return "\x1b]10;" + rgb + "\x07"
	case "bg":
		return "\x1b]11;" + rgb + "\x07"
	case "col":
		return "\x1b]4;1;" + rgb + "\x1b\\"
	case "cpr":
		return fmt.Sprintf("\x1b[%d;%dR", v/256, v%256)
	case "clip":
		return "\x1b]52;c;" + base64.StdEncoding.EncodeToString([]byte(strconv.Itoa(v))) + "\x1b\\"
	case "size":
		rows, cols := v/256, v%256
		return fmt.Sprintf("\x1b[4;%d;%dt\x1b[8;%d;%dt", rows*16, cols*8, rows, cols)
	}
	panic("kind " + k)
}

func colourCode(c vaxis.Color) int {
	if c == 0 {
		return -1
	}
	p := c.Params()
	if len(p) != 3 {
		return -1
	}
	return int(p[0])<<16 | int(p[1])<<8 | int(p[2])
}

// ---------------------------------------------------------------- goroutine states

func goid() int {
	buf := make([]byte, 64)
	n := runtime.Stack(buf, false)
	f := strings.Fields(string(buf[:n]))
	id, _ := strconv.Atoi(f[1])
	return id
}

type gsnap map[int]string // goroutine id -> its stack block

var snapBuf = make([]byte, 1<<19)

func snapshot() (gsnap, []string) {
	buf := snapBuf
	n := runtime.Stack(buf, true)
	blocks := strings.Split(string(buf[:n]), "\n\n")
	m := gsnap{}
	for _, b := range blocks {
		if !strings.HasPrefix(b, "goroutine ") {
			continue
		}
		f := strings.Fields(b)
		if id, err := strconv.Atoi(f[1]); err == nil {
			m[id] = b
		}
	}
	return m, blocks
}

func header(b string) string {
	if i := strings.IndexByte(b, '\n'); i >= 0 {
		return b[:i]
	}
	return b
}

// parked: goroutine id sits in the receive / select of a query function
func parked(m gsnap, id int) bool {
	b, ok := m[id]
	if !ok {
		return false
	}
	h := header(b)
	if !(strings.Contains(h, "[chan receive") || strings.Contains(h, "[select")) {
		return false
	}
	for _, fn := range []string{"QueryForeground", "QueryBackground", "QueryColor", "CursorPosition", "ClipboardPop", "reportWinsize"} {
		if strings.Contains(b, "vaxis.(*Vaxis)."+fn+"(") {
			return true
		}
	}
	return false
}

// libAtRest: the parser is blocked reading the console and the input goroutine
// is in the select of its loop, outside handleSequence (no pending offer).
// handling=true accepts an input goroutine blocked inside handleSequence too
// (a timed offer): that is "the library has handled the reply as far as it can".
func libAtRest(m gsnap, base map[int]bool, handling bool) bool {
	seenParser, seenInput := false, false
	for id, g := range m {
		if base[id] {
			continue // left over from an earlier scenario (some end in a recorded hang)
		}
		isParser := strings.Contains(g, "vaxis/ansi.(*Parser).run")
		isInput := strings.Contains(g, "vaxis.(*Vaxis).openTty.func1")
		if !isParser && !isInput {
			continue
		}
		h := header(g)
		if isParser {
			seenParser = true
			if !strings.Contains(h, "[chan receive") {
				return false
			}
		}
		if isInput {
			seenInput = true
			if !strings.Contains(h, "[select") {
				return false
			}
			if !handling && strings.Contains(g, "handleSequence") {
				return false
			}
		}
	}
	return seenParser && seenInput
}

func waitRest(base map[int]bool, handling bool, d time.Duration) bool {
	dl := time.Now().Add(d)
	ok := 0
	for {
		m, _ := snapshot()
		if libAtRest(m, base, handling) {
			ok++
			if ok >= 2 {
				return true
			}
		} else {
			ok = 0
		}
		if time.Now().After(dl) {
			expired++
			return false
		}
		time.Sleep(120 * time.Microsecond)
	}
}

// ---------------------------------------------------------------- one scenario

type querier struct {
	idx  int
	kind string
	id   int
	res  chan int
	got  bool
}

type qrun struct {
	base    map[int]bool // goroutines that existed before this scenario's Vaxis
	vx      *vaxis.Vaxis
	fc      *hx.FakeConsole
	mu      sync.Mutex
	early   []byte // query the hook waits for
	reply   string
	esize   int // early size request: the size the reply reports (0: not a size request)
	blocked []*querier
	notes   []string
	sizes   []int // Resize events seen by settle since the action began
}

// lateConsole: a console whose Write returns late (a slow tty, or the writing goroutine being
// descheduled): after is called once the bytes have gone out and been answered
type lateConsole struct {
	*hx.FakeConsole
	mu    sync.Mutex
	after func(p []byte)
}

func (c *lateConsole) Write(p []byte) (int, error) {
	n, err := c.FakeConsole.Write(p)
	c.mu.Lock()
	f := c.after
	c.mu.Unlock()
	if f != nil {
		f(p)
	}
	return n, err
}

func (c *lateConsole) setAfter(f func(p []byte)) {
	c.mu.Lock()
	c.after = f
	c.mu.Unlock()
}

func sizeRc(sizes []int) int {
	switch len(sizes) {
	case 0:
		return -1
	case 1:
		return sizes[0]
	}
	return -7
}

func (r *qrun) hook(p []byte) {
	r.mu.Lock()
	q, rep, esize := r.early, r.reply, r.esize
	if q != nil && bytes.Contains(p, q) {
		r.early = nil
	} else {
		q = nil
	}
	r.mu.Unlock()
	if q == nil {
		return
	}
	r.fc.InjectString(rep)
	if esize != 0 {
		// the size report carries its value in nextSize, not in the channel: wait until the input
		// goroutine has stored it (the send on chSizeDone follows at once; waitRest covers it)
		dl := time.Now().Add(lw())
		for {
			st := r.vx.VerifC03State()
			if st.NextSize.Rows == esize/256 && st.NextSize.Cols == esize%256 {
				break
			}
			if time.Now().After(dl) {
				expired++
				r.notes = append(r.notes, "early size report: nextSize never changed")
				break
			}
			time.Sleep(50 * time.Microsecond)
		}
	}
	// the library handles the reply while the caller is still inside Write
	if !waitRest(r.base, true, lw()) {
		r.notes = append(r.notes, "early reply: library did not come to rest")
	}
}

func (r *qrun) start(idx int, k string) *querier {
	q := &querier{idx: idx, kind: k, res: make(chan int, 1)}
	ready := make(chan int)
	go func() {
		ready <- goid()
		switch k {
		case "fg":
			q.res <- colourCode(r.vx.QueryForeground())
		case "bg":
			q.res <- colourCode(r.vx.QueryBackground())
		case "col":
			q.res <- colourCode(r.vx.QueryColor(vaxis.IndexColor(1)))
		case "cpr":
			row, col := r.vx.CursorPosition()
			if row < 0 || col < 0 {
				q.res <- -1
			} else {
				q.res <- (row+1)*256 + col + 1
			}
		case "clip":
			ctx, cancel := context.WithTimeout(context.Background(), 40*time.Millisecond)
			s, err := r.vx.ClipboardPop(ctx)
			cancel()
			if err != nil {
				q.res <- -1
			} else if n, e := strconv.Atoi(s); e == nil {
				q.res <- n
			} else {
				q.res <- -4
			}
		case "size":
			// a resize request from this goroutine, then the frame that serves it; what came of
			// it is the Resize event (or its absence) the driver finds in the queue
			r.vx.Resize()
			r.vx.Render()
			q.res <- 0
		}
	}()
	q.id = <-ready
	return q
}

// wait until q has returned (its value), or is parked (ok=false)
func (r *qrun) untilParkedOrDone(q *querier) (int, bool) {
	dl := time.Now().Add(lw())
	for {
		select {
		case v := <-q.res:
			q.got = true
			return v, true
		default:
		}
		m, _ := snapshot()
		if parked(m, q.id) {
			return 0, false
		}
		if time.Now().After(dl) {
			expired++
			return 0, false
		}
		time.Sleep(100 * time.Microsecond)
	}
}

// the final word on a query: its value, or -2 when it is blocked in its receive
// with the library at rest (receives without a timer), or after the watchdog
func (r *qrun) outcome(q *querier) int {
	w := lw()
	if qTimed(q.kind) {
		w = 2 * time.Second
	}
	dl := time.Now().Add(w)
	still := 0
	for {
		select {
		case v := <-q.res:
			q.got = true
			return v
		default:
		}
		if !qTimed(q.kind) {
			m, _ := snapshot()
			if parked(m, q.id) && libAtRest(m, r.base, false) {
				still++
				if still >= 3 {
					return -2
				}
			} else {
				still = 0
			}
		}
		if time.Now().After(dl) {
			expired++
			return -2
		}
		time.Sleep(150 * time.Microsecond)
	}
}

func keyCode(k vaxis.Key) int {
	if k.Keycode >= 'a' && k.Keycode <= 'z' && k.Modifiers == 0 {
		return int(k.Keycode - 'a')
	}
	// the inverse of decodeKey on CSI p0;p1 R for the rows the generator uses (1..19):
	// row 1 is F3, row 8 (the BS code point) is KeyBackspace, any other row is its own rune
	p0 := int(k.Keycode)
	switch k.Keycode {
	case vaxis.KeyF03:
		p0 = 1
	case vaxis.KeyBackspace:
		p0 = 8
	}
	return 100000 + p0*256 + int(k.Modifiers) + 1
}

// settle: library at rest, event queue drained; returns the key events seen
func (r *qrun) settle() []int {
	keys := []int{}
	for round := 0; round < 50; round++ {
		if !waitRest(r.base, false, lw()) {
			r.notes = append(r.notes, "library did not come to rest")
		}
		n := 0
	drain:
		for {
			select {
			case ev := <-r.vx.Events():
				n++
				if k, ok := ev.(vaxis.Key); ok {
					keys = append(keys, keyCode(k))
				}
				if z, ok := ev.(vaxis.Resize); ok {
					r.sizes = append(r.sizes, z.Rows*256+z.Cols)
				}
			default:
				break drain
			}
		}
		if n == 0 {
			break
		}
	}
	return keys
}

func (r *qrun) released() [][2]int {
	rel := [][2]int{}
	var still []*querier
	for _, q := range r.blocked {
		select {
		case v := <-q.res:
			q.got = true
			rel = append(rel, [2]int{q.idx, v})
		default:
			still = append(still, q)
		}
	}
	r.blocked = still
	return rel
}

func hasSize(acts []qact) bool {
	for _, a := range acts {
		if a.Q == "size" {
			return true
		}
	}
	return false
}

// startup: acts[0] is a size request answered early, and it is the one New itself makes (the
// console's Write of that request returns only after the library has handled the answer)
func runQueryScenario(acts []qact, startup bool) ([]qobsT, string) {
	base := map[int]bool{}
	m0, _ := snapshot()
	for id := range m0 {
		base[id] = true
	}
	prof := hx.Profile{Rows: 5, Cols: 10, CursorStyleReply: -1, Osc4: true, Osc10: true, Osc11: true}
	opts := vaxis.Options{NoSignals: true}
	withSize := hasSize(acts)
	var lc *lateConsole
	if withSize {
		// the terminal reports its size in characters and pixels and the application opted in:
		// reportWinsize asks the terminal instead of the tty driver
		prof.ReportSize = true
		os.Setenv("VAXIS_FORCE_XTWINOPS", "1")
	}
	if startup {
		prof.Rows, prof.Cols = acts[0].V/256, acts[0].V%256
	}
	fc := hx.NewFakeConsole(prof)
	opts.WithConsole = fc
	if startup {
		lc = &lateConsole{FakeConsole: fc}
		lc.setAfter(func(p []byte) {
			if bytes.Equal(p, []byte(qQuery["size"])) {
				time.Sleep(300 * time.Microsecond)
				waitRest(base, true, lw())
			}
		})
		opts.WithConsole = lc
	}
	vx, err := vaxis.New(opts)
	os.Unsetenv("VAXIS_FORCE_XTWINOPS")
	if lc != nil {
		lc.setAfter(nil)
	}
	if err != nil {
		if !withSize {
			panic(err)
		}
		// start-up failed although the terminal answered every request
		obs := make([]qobsT, len(acts))
		for i := range obs {
			obs[i] = qobsT{Rc: -5, Keys: []int{}, Rel: [][2]int{}}
		}
		if startup {
			obs[0].Rc = -1
		}
		return obs, "New failed: " + err.Error()
	}
	r := &qrun{vx: vx, fc: fc, base: base}
	r.settle()
	if !(vx.CanReportBackgroundColor() && vx.CanReportForegroundColor() && vx.CanReportColor()) {
		panic("query scenarios: start-up did not establish the colour capabilities")
	}
	if withSize {
		if st := vx.VerifC03State(); !st.Xtwinops {
			panic("query scenarios: VAXIS_FORCE_XTWINOPS did not take effect")
		}
	}
	fc.AutoReply = false
	fc.WriteHook = r.hook
	var obs []qobsT
	for i, a := range acts {
		o := qobsT{Rc: -3}
		if i == 0 && startup {
			// the request was New's: what came of it is the first Resize event
			obs = append(obs, qobsT{Rc: sizeRc(r.sizes), Keys: []int{}, Rel: [][2]int{}})
			continue
		}
		r.sizes = nil
		switch a.Kind {
		case "query":
			if a.M == 0 {
				r.mu.Lock()
				r.early, r.reply, r.esize = []byte(qQuery[a.Q]), qReply(a.Q, a.V), 0
				if a.Q == "size" {
					r.esize = a.V
				}
				r.mu.Unlock()
			}
			q := r.start(i, a.Q)
			if a.M == 1 {
				// answer once the caller is parked (or gone)
				v, done := r.untilParkedOrDone(q)
				fc.InjectString(qReply(a.Q, a.V))
				if done {
					o.Rc = v
				}
			}
			if !q.got {
				o.Rc = r.outcome(q)
			}
			r.mu.Lock()
			if r.early != nil {
				r.notes = append(r.notes, "the query was never written")
				r.early = nil
			}
			r.mu.Unlock()
			o.Keys = r.settle()
			if a.Q == "size" && o.Rc != -2 {
				o.Rc = sizeRc(r.sizes)
			}
			o.Rel = r.released()
			if o.Rc == -2 {
				r.blocked = append(r.blocked, q)
			}
		case "reply":
			fc.InjectString(qReply(a.Q, a.V))
			o.Keys = r.settle()
			o.Rel = r.released()
		case "keyr":
			if a.Two {
				fc.InjectString(fmt.Sprintf("\x1b[%d;%dR", a.V/256, a.V%256))
			} else {
				fc.InjectString("\x1b[R")
			}
			o.Keys = r.settle()
			o.Rel = r.released()
		case "key":
			fc.Inject([]byte{byte('a' + a.V)})
			o.Keys = r.settle()
			o.Rel = r.released()
		}
		obs = append(obs, o)
	}
	// let blocked callers go, then shut down
	for _, q := range r.blocked {
		fc.InjectString(qReply(q.kind, 1))
		select {
		case <-q.res:
		case <-time.After(50 * time.Millisecond):
		}
	}
	fc.WriteHook = nil
	fc.AutoReply = true
	if !hx.WithTimeout(3*time.Second, vx.Close) {
		r.notes = append(r.notes, "Close did not return")
	}
	return obs, strings.Join(r.notes, "; ")
}

// ---------------------------------------------------------------- Coq printing

func coqQActs(acts []qact) string {
	var s []string
	for _, a := range acts {
		switch a.Kind {
		case "query":
			s = append(s, fmt.Sprintf("AQuery %s %s %s", qCoqKind[a.Q], hx.Z(int64(a.M)), hx.Z(int64(a.V))))
		case "reply":
			s = append(s, fmt.Sprintf("AReply %s %s", qCoqKind[a.Q], hx.Z(int64(a.V))))
		case "keyr":
			s = append(s, fmt.Sprintf("AKeyR %s %s", hx.Bool(a.Two), hx.Z(int64(a.V))))
		case "key":
			s = append(s, "AKey "+hx.Z(int64(a.V)))
		}
	}
	return hx.List(s)
}

func coqQCase(c qcaseJS) string {
	var os []string
	for _, o := range c.Obs {
		var rs []string
		for _, p := range o.Rel {
			rs = append(rs, coqPair(p))
		}
		os = append(os, hx.Tuple(hx.Z(int64(o.Rc)), hx.IntList(o.Keys), hx.List(rs)))
	}
	return hx.Tuple(coqQActs(c.Acts), hx.List(os))
}

// ---------------------------------------------------------------- generator

// a scenario is suspicious when an answered query of a timed kind came back
// empty: on a loaded machine the 10 ms / 50 ms offers of the code under test can
// expire before the driver has let the caller continue.  Such a scenario is run
// again (up to three runs); what two runs agree on is kept.
func suspicious(acts []qact, obs []qobsT) bool {
	for i, a := range acts {
		if a.Kind == "query" && a.M != 2 && qTimed(a.Q) && i < len(obs) && obs[i].Rc == -1 {
			return true
		}
	}
	return false
}

func randomQueryScenario(cfg *hx.Config) []qact {
	r := cfg.Rand
	n := 3 + r.Intn(6)
	var acts []qact
	val := 300 + r.Intn(50)
	owedColour := map[string]int{}
	nevers := 0
	for len(acts) < n {
		val += 1 + r.Intn(3)
		switch c := r.Intn(20); {
		case c < 10:
			k := qKinds[r.Intn(len(qKinds))]
			m := r.Intn(3)
			if m == 2 {
				if nevers >= 2 {
					m = r.Intn(2)
				} else {
					nevers++
				}
			}
			v := val
			if k == "cpr" {
				v = (2+r.Intn(18))*256 + 1 + r.Intn(30)
			}
			if k == "size" {
				// never the size the screen has: every request of a scenario reports another number of rows
				v = (6+len(acts))*256 + 1 + r.Intn(60)
			}
			if m == 2 && !qTimed(k) {
				if owedColour[k] >= 1 {
					m = 1
				} else {
					owedColour[k]++
				}
			} else if m != 2 && !qTimed(k) && owedColour[k] > 0 {
				// the answer goes to the older caller; this one takes its place
			}
			acts = append(acts, qact{Kind: "query", Q: k, M: m, V: v})
		case c < 14:
			k := qReplyKinds[r.Intn(len(qReplyKinds))]
			v := val
			if k == "cpr" {
				v = (2+r.Intn(18))*256 + 1 + r.Intn(30)
			}
			if owedColour[k] > 0 {
				owedColour[k]--
			}
			acts = append(acts, qact{Kind: "reply", Q: k, V: v})
		case c < 17:
			if r.Intn(3) == 0 {
				acts = append(acts, qact{Kind: "keyr", Two: false})
			} else {
				acts = append(acts, qact{Kind: "keyr", Two: true, V: 256 + 1 + r.Intn(8)})
			}
		default:
			acts = append(acts, qact{Kind: "key", V: r.Intn(26)})
		}
	}
	return acts
}

func queryStream(cfg *hx.Config) (*hx.Stream, []string) {
	st := hx.NewStream("query", "model.ConcQuery", "query_case", "c10_query_mismatches", "c10_query_violations")
	// the guard of the stale-reply finding is reported through the stream only once the
	// finding is recorded; until then the guarded predicate is the one evaluated
	if kf, err := os.ReadFile("/verif/KNOWN_FINDINGS.txt"); err == nil && strings.Contains(string(kf), "property=C10 key=stale-colour-reply ") {
		st.Viol, st.Known, st.KnownClass = "c10_query_violations_all", "c10_query_known", "stale-colour-reply"
	}
	var notes []string
	startup := false
	add := func(kind, class string, acts []qact) {
		obs, note := runQueryScenario(acts, startup)
		runs := 1
		// an expired offer is a legitimate behaviour of the code (its 10 ms / 50 ms timer fired before the
		// driver let the caller continue: a busy machine), a lost early reply is not: the scenario is run
		// again, up to five times, until no answered query of a timed kind comes back empty
		for runs < 5 && suspicious(acts, obs) {
			obs, note = runQueryScenario(acts, startup)
			runs++
		}
		if runs > 1 {
			notes = append(notes, fmt.Sprintf("%s: %d runs (an offer of the code under test expired before the caller continued)", kind, runs))
		}
		if note != "" {
			notes = append(notes, kind+": "+note)
		}
		c := qcaseJS{Acts: acts, Obs: obs, Class: class, Kind: kind, Runs: runs, Startup: startup, Note: note}
		tags := []string{kind}
		if startup {
			tags = append(tags, "startup-size-request-early")
		}
		nontriv := kind != "random"
		for _, a := range acts {
			switch a.Kind {
			case "query":
				tags = append(tags, "query-"+a.Q, []string{"early", "prompt", "never"}[a.M])
				if a.M != 1 {
					nontriv = true
				}
			case "reply":
				tags = append(tags, "reply-at-rest")
				nontriv = true
			case "keyr":
				tags = append(tags, "key-csi-r")
			}
		}
		st.Add(coqQCase(c), c, nontriv, tags...)
	}
	q := func(k string, m, v int) qact { return qact{Kind: "query", Q: k, M: m, V: v} }
	rp := func(k string, v int) qact { return qact{Kind: "reply", Q: k, V: v} }
	key := func(c int) qact { return qact{Kind: "key", V: c} }
	f3 := func(mods int) qact { return qact{Kind: "keyr", Two: true, V: 256 + mods} }
	f3plain := qact{Kind: "keyr"}
	cp := func(row, col int) int { return row*256 + col }

	// directed: every kind early / prompt / never
	for i, k := range qKinds {
		v := 400 + 10*i
		w := v + 1
		if k == "cpr" {
			v, w = cp(3, 7+i), cp(4, 9)
		}
		if k == "size" {
			v, w = 20*256+50, 21*256+51
		}
		add("directed-early", "", []qact{q(k, 0, v), key(1), q(k, 0, w)})
		add("directed-prompt", "", []qact{q(k, 1, v), q(k, 1, w), key(2)})
		if qTimed(k) {
			add("directed-never", "", []qact{q(k, 2, 0), key(3), q(k, 1, v), q(k, 0, w)})
		} else {
			add("directed-never-then-reply", "", []qact{q(k, 2, 0), key(3), rp(k, v), q(k, 0, w), q(k, 1, w+1)})
			add("directed-two-callers", "", []qact{q(k, 2, 0), q(k, 0, v), rp(k, w), q(k, 1, w+1)})
		}
	}
	// no lost input: keys that look like a cursor position report, at rest, before and after queries
	add("directed-f3-at-rest", "", []qact{f3(2), f3plain, key(0), f3(5)})
	add("directed-f3-after-unanswered-cpr", "", []qact{q("cpr", 2, 0), key(0), f3(2), key(1), f3(2), f3plain})
	add("directed-f3-after-answered-cpr", "", []qact{q("cpr", 1, cp(5, 6)), f3(2), q("cpr", 0, cp(7, 8)), f3(2), f3plain})
	add("directed-late-cpr", "", []qact{q("cpr", 2, 0), rp("cpr", cp(9, 3)), f3(2), q("cpr", 1, cp(2, 2))})
	add("directed-two-unanswered-cpr", "", []qact{q("cpr", 2, 0), q("cpr", 2, 0), f3(3), f3plain, q("cpr", 0, cp(6, 6)), f3(2)})
	// replies nobody waits for
	add("directed-unsolicited-clipboard", "", []qact{rp("clip", 501), key(4), q("clip", 1, 502), q("clip", 0, 503)})
	add("directed-late-clipboard", "", []qact{q("clip", 2, 0), rp("clip", 511), key(5), q("clip", 0, 512), rp("clip", 513), q("clip", 1, 514)})
	add("directed-clipboard-twice", "", []qact{q("clip", 0, 521), q("clip", 0, 522), q("clip", 0, 523), q("clip", 1, 524)})
	// the recorded / proposed finding: a colour report nobody waits for is handed to the next query
	add("known-stale-colour-reply", "stale-colour-reply", []qact{rp("bg", 601), q("bg", 0, 602), q("bg", 1, 603)})
	add("known-stale-colour-reply", "stale-colour-reply", []qact{q("fg", 1, 611), rp("fg", 612), key(6), q("fg", 1, 613)})
	add("known-stale-colour-reply", "stale-colour-reply", []qact{rp("col", 621), rp("col", 622), q("col", 1, 623), q("col", 0, 624)})
	// the size request (VAXIS_FORCE_XTWINOPS, terminal reporting characters and pixels): a resize asked
	// for by another goroutine is applied — a Resize event with the size the terminal reports — whenever
	// the terminal answers, early (handled before the requester waits) or while the requester waits;
	// it is lost only when the terminal does not answer.  A size report at rest is not generated: the
	// report's value travels in nextSize, not in the channel, and the LTS has no such variable.
	sz := func(rows, cols int) int { return rows*256 + cols }
	add("directed-size-early", "", []qact{q("size", 0, sz(30, 100)), key(1), q("size", 0, sz(10, 40)), q("size", 0, sz(50, 132))})
	add("directed-size-prompt", "", []qact{q("size", 1, sz(7, 20)), q("size", 1, sz(8, 21)), key(2), q("size", 0, sz(9, 22))})
	add("directed-size-never", "", []qact{q("size", 2, 0), key(3), q("size", 0, sz(12, 33)), q("size", 2, 0), q("size", 1, sz(13, 34))})
	add("directed-size-mixed", "", []qact{q("bg", 0, 711), q("size", 0, sz(11, 17)), q("cpr", 0, cp(2, 3)), q("size", 1, sz(12, 18)), f3(2), q("clip", 0, 712), q("size", 0, sz(14, 19)), q("cpr", 2, 0), q("size", 0, sz(15, 20))})
	// ... and the same request made by New: answered early, start-up succeeds with that size
	startup = true
	add("directed-size-startup-early", "", []qact{q("size", 0, sz(24, 80))})
	add("directed-size-startup-early", "", []qact{q("size", 0, sz(7, 33)), q("size", 0, sz(9, 40)), key(4), q("size", 1, sz(10, 41))})
	startup = false
	// mixed
	add("directed-mixed", "", []qact{q("bg", 0, 701), q("cpr", 0, cp(2, 3)), q("clip", 0, 702), q("fg", 1, 703), q("col", 0, 704), f3(2), q("cpr", 2, 0), f3(2)})

	nRandom := 70
	if cfg.Thorough() {
		nRandom = 1200
	}
	for i := 0; i < nRandom; i++ {
		acts := randomQueryScenario(cfg)
		if cfg.Rand.Intn(8) == 0 {
			// ... preceded by New's own size request, answered early
			startup = true
			acts = append([]qact{q("size", 0, sz(20+cfg.Rand.Intn(10), 40+cfg.Rand.Intn(60)))}, acts...)
		}
		add("random", "", acts)
		startup = false
	}
	return st, notes
}

// ---------------------------------------------------------------- a poster that posts under a lock the main goroutine takes

// widgets/spinner: the ticker goroutine posts a Redraw while holding the spinner's
// mutex, Draw (main goroutine) takes the same mutex.  With the event queue full —
// the main goroutine is in the middle of a frame and does not poll — Draw must
// still return: the post under the lock must not wait for room in the queue.
type lockCaseJS struct {
	N        int      `json:"EventQueueSize"`
	Queued   int      `json:"queued_when_draw_was_called"`
	Returned bool     `json:"draw_returned"`
	Steps    []string `json:"steps"`
	Class    string   `json:"class,omitempty"`
}

func spinnerUnderFullQueue() (*hx.Stream, []hx.DirectViolation) {
	st := hx.NewStream("lock", "model.ConcLock", "lock_case", "c10_lock_mismatches", "c10_lock_violations")
	var out []hx.DirectViolation
	for _, n := range []int{1, 2, 3, 4, 8} {
		fc := hx.NewFakeConsole(hx.Profile{Rows: 5, Cols: 10, CursorStyleReply: -1})
		vx, err := vaxis.New(vaxis.Options{WithConsole: fc, NoSignals: true, EventQueueSize: n})
		if err != nil {
			out = append(out, hx.DirectViolation{Class: "spinner-draw-full-queue", Case: n, What: "New failed: " + err.Error()})
			continue
		}
		// drain start-up
		for {
			select {
			case <-vx.Events():
				continue
			case <-time.After(15 * time.Millisecond):
			}
			break
		}
		sp := spinner.New(vx, time.Millisecond)
		sp.Start() // queues a SyncFunc for the main goroutine
		started := false
		dl := time.Now().Add(time.Second)
		for !started && time.Now().Before(dl) {
			select {
			case ev := <-vx.Events():
				if f, ok := ev.(vaxis.SyncFunc); ok {
					f()
					started = true
				}
			case <-time.After(10 * time.Millisecond):
			}
		}
		if !started {
			out = append(out, hx.DirectViolation{Class: "spinner-draw-full-queue", Case: n, What: "the spinner's SyncFunc never arrived"})
			_ = hx.WithTimeout(time.Second, vx.Close)
			continue
		}
		// the main goroutine stops polling: the ticks fill the queue
		dl = time.Now().Add(time.Second)
		for len(vx.Events()) < n && time.Now().Before(dl) {
			time.Sleep(time.Millisecond)
		}
		time.Sleep(5 * time.Millisecond) // a few more ticks against the full queue
		full := len(vx.Events())
		ok := true
		for i := 0; i < 3 && ok; i++ {
			ok = hx.WithTimeout(time.Second, func() { sp.Draw(vx.Window()) })
			time.Sleep(2 * time.Millisecond)
		}
		c := lockCaseJS{N: n, Queued: full, Returned: ok, Class: "spinner-draw-full-queue",
			Steps: []string{"spinner.Start", "run its SyncFunc", "stop polling until the event queue is full", "spinner.Draw (1 s watchdog)"}}
		st.Add(hx.Tuple(hx.Z(int64(n)), hx.Bool(ok)), c, true, fmt.Sprintf("N=%d", n))
		if !ok {
			// make room so that everything can shut down
			stop := make(chan struct{})
			defer close(stop)
			go func() {
				for {
					select {
					case <-vx.Events():
					case <-stop:
						return
					}
				}
			}()
		}
		sp.Stop()
		for k := 0; k < 3; k++ {
			select {
			case ev := <-vx.Events():
				if f, ok := ev.(vaxis.SyncFunc); ok {
					f()
				}
			case <-time.After(5 * time.Millisecond):
			}
		}
		_ = hx.WithTimeout(2*time.Second, vx.Close)
	}
	return st, out
}
