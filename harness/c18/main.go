// Harness for C18: runs the real SGR producers (EncodeCells, StyledString.Encode,
// Vaxis.render) and the real SGR consumers (parseSGR, NewStyledString, the
// emulator's sgr) and writes what they did as Coq case files.
package main

import (
	"fmt"
	"os"
	"strconv"
	"strings"

	vaxis "git.sr.ht/~rockorager/vaxis"
	"git.sr.ht/~rockorager/vaxis/ansi"
	"git.sr.ht/~rockorager/vaxis/widgets/term"
	"github.com/rivo/uniseg"
	"verif/harness/hx"
)

// ---------- Coq printers ----------

func penTerm(s vaxis.Style) string {
	return fmt.Sprintf("(mkPen %d %d %d %d %d)", uint32(s.Foreground), uint32(s.Background),
		uint32(s.UnderlineColor), uint8(s.UnderlineStyle), uint8(s.Attribute))
}

func styleTerm(s vaxis.Style) string {
	return fmt.Sprintf("(mkStyle %s %s %s)", penTerm(s), hx.Runes(s.Hyperlink), hx.Runes(s.HyperlinkParams))
}

func cellTerm(c vaxis.Cell) string { return hx.Tuple(hx.Runes(c.Grapheme), styleTerm(c.Style)) }

func pcellTerm(c vaxis.Cell) string { return hx.Tuple(hx.Runes(c.Grapheme), penTerm(c.Style)) }

func cellsTerm(cs []vaxis.Cell, f func(vaxis.Cell) string) string {
	s := make([]string, len(cs))
	for i, c := range cs {
		s[i] = f(c)
	}
	return hx.List(s)
}

// optCells prints None when cs equals ref (graphemes and styles, as Go values)
func optCells(cs, ref []vaxis.Cell) string {
	same := len(cs) == len(ref)
	for i := 0; same && i < len(cs); i++ {
		same = cs[i].Grapheme == ref[i].Grapheme && cs[i].Style == ref[i].Style
	}
	if same {
		return hx.None
	}
	return hx.Some(cellsTerm(cs, pcellTerm))
}

func paramsTerm(ps [][]int) string {
	s := make([]string, len(ps))
	for i, p := range ps {
		s[i] = hx.IntList(p)
	}
	return hx.List(s)
}

type jsStyle struct {
	Fg, Bg, Ul uint32
	Uls, Attr  uint8
	Link       string `json:",omitempty"`
	LinkP      string `json:",omitempty"`
}
type jsCell struct {
	G string
	S jsStyle
}

func jsS(s vaxis.Style) jsStyle {
	return jsStyle{uint32(s.Foreground), uint32(s.Background), uint32(s.UnderlineColor),
		uint8(s.UnderlineStyle), uint8(s.Attribute), s.Hyperlink, s.HyperlinkParams}
}
func jsCells(cs []vaxis.Cell) []jsCell {
	out := make([]jsCell, len(cs))
	for i, c := range cs {
		out[i] = jsCell{c.Grapheme, jsS(c.Style)}
	}
	return out
}

// ---------- running the consumers ----------

// feed runs s through the library's ansi.Parser (as ParseStyledString does) and
// applies every SGR sequence with apply; returns the pen at each grapheme and at the end.
func feed(s string, apply func([][]int, vaxis.Style) vaxis.Style) ([]vaxis.Cell, vaxis.Style) {
	cells, pen, timerEsc := feedOnce(s, apply)
	for n := 0; n < hx.TimerEscRetries && timerEsc; n++ {
		cells, pen, timerEsc = feedOnce(s, apply) // scheduling artefact, see hx.IsTimerEsc
	}
	return cells, pen
}

func feedOnce(s string, apply func([][]int, vaxis.Style) vaxis.Style) (cells []vaxis.Cell, pen vaxis.Style, timerEsc bool) {
	parser := ansi.NewParser(strings.NewReader(s))
	defer parser.Close()
	for seq := range parser.Next() {
		if hx.IsTimerEsc(seq) {
			timerEsc = true
		}
		switch seq := seq.(type) {
		case ansi.Print:
			cells = append(cells, vaxis.Cell{Character: vaxis.Character{Grapheme: seq.Grapheme}, Style: pen})
		case ansi.CSI:
			if seq.Final == 'm' {
				// copy: the parser recycles the slices
				ps := make([][]int, len(seq.Parameters))
				for i, p := range seq.Parameters {
					ps[i] = append([]int(nil), p...)
				}
				pen = apply(ps, pen)
			}
		}
		parser.Finish(seq)
	}
	return cells, pen, timerEsc
}

var vx0 vaxis.Vaxis // NewStyledString only reads vx.caps (for widths, which C18 ignores)

func printSGR(ps [][]int) string {
	var b strings.Builder
	b.WriteString("\x1b[")
	for i, p := range ps {
		if i > 0 {
			b.WriteByte(';')
		}
		for j, v := range p {
			if j > 0 {
				b.WriteByte(':')
			}
			b.WriteString(strconv.Itoa(v))
		}
	}
	b.WriteByte('m')
	return b.String()
}

// ---------- generators ----------

type gen struct {
	cfg *hx.Config
}

func (g *gen) n(k int) int { return g.cfg.Rand.Intn(k) }

// colour classes: 0 default, 1 index 0-7, 2 index 8-15, 3 index 16-255, 4 RGB
func (g *gen) colour(class int) vaxis.Color {
	switch class {
	case 1:
		return vaxis.IndexColor(uint8(g.n(8)))
	case 2:
		return vaxis.IndexColor(uint8(8 + g.n(8)))
	case 3:
		return vaxis.IndexColor([]uint8{16, 17, 100, 231, 232, 254, 255, uint8(16 + g.n(240))}[g.n(8)])
	case 4:
		lv := []uint8{0, 1, 5, 0x5f, 0x80, 0xfe, 0xff, uint8(g.n(256))}
		return vaxis.RGBColor(lv[g.n(8)], lv[g.n(8)], lv[g.n(8)])
	}
	return 0
}

func (g *gen) attr() vaxis.AttributeMask { return vaxis.AttributeMask(2 * g.n(128)) }

func (g *gen) style() vaxis.Style {
	return vaxis.Style{Foreground: g.colour(g.n(5)), Background: g.colour(g.n(5)), UnderlineColor: g.colour(g.n(5)),
		UnderlineStyle: vaxis.UnderlineStyle(g.n(6)), Attribute: g.attr()}
}

// a style that mostly keeps the fields of prev (so that single-field transitions occur)
func (g *gen) near(prev vaxis.Style) vaxis.Style {
	s := prev
	for k := 0; k < 1+g.n(2); k++ {
		switch g.n(5) {
		case 0:
			s.Foreground = g.colour(g.n(5))
		case 1:
			s.Background = g.colour(g.n(5))
		case 2:
			s.UnderlineColor = g.colour(g.n(5))
		case 3:
			s.UnderlineStyle = vaxis.UnderlineStyle(g.n(6))
		case 4:
			s.Attribute ^= vaxis.AttributeMask(2 << uint(g.n(7)))
		}
	}
	return s
}

// single grapheme clusters none of which starts with a combining code point
var graphemes = []string{"a", "b", "c", "x", "Z", "0", " ", "~", "m", "[", ";", "é", "é", "世", "界",
	"👩‍👩‍👧", "🇩🇪", "ﬁ", "ñ", " "}

func (g *gen) grapheme(ascii bool) string {
	if ascii {
		return graphemes[g.n(11)]
	}
	return graphemes[g.n(len(graphemes))]
}

// segmentsAs reports whether uniseg splits the concatenation into exactly gs
func segmentsAs(gs []string) bool {
	s := strings.Join(gs, "")
	st := -1
	for _, want := range gs {
		if want == "" { // a blank cell contributes no bytes: its neighbours must not merge
			continue
		}
		var c string
		c, s, _, st = uniseg.FirstGraphemeClusterInString(s, st)
		if c != want {
			return false
		}
	}
	return s == ""
}

// ---------- streams ----------

type harness struct {
	g      *gen
	codec  *hx.Stream
	render *hx.Stream
	sgr    *hx.Stream
	direct []hx.DirectViolation
	vxs    map[[2]bool]*vaxis.Vaxis
	fcs    map[[2]bool]*hx.FakeConsole
	// legacy: VAXIS_FORCE_LEGACY_SGR was set when a Vaxis was created in this process
	// (applyQuirks then rewrites the package-level format strings, for good)
	legacy bool
}

const rowLen = 12

func wfStyle(s vaxis.Style) bool {
	okc := func(c vaxis.Color) bool {
		return c == 0 || (c >= 1<<24 && c < 1<<24+256) || (c >= 1<<25 && c < 1<<25+1<<24)
	}
	return okc(s.Foreground) && okc(s.Background) && okc(s.UnderlineColor) && s.UnderlineStyle <= 5 && s.Attribute&1 == 0
}

func (h *harness) addCodec(cells []vaxis.Cell, tags ...string) {
	gs := make([]string, len(cells))
	links, blanks := false, false
	wf := true
	for i, c := range cells {
		gs[i] = c.Grapheme
		if c.Hyperlink != "" {
			links = true
		}
		wf = wf && wfStyle(c.Style)
		blanks = blanks || c.Grapheme == ""
	}
	if !segmentsAs(gs) {
		return
	}
	var encE, encS string
	var parsed, styled, styledE, termCells []vaxis.Cell
	var finParse, finTerm vaxis.Style
	panicked, msg := hx.Catch(func() {
		encE = vaxis.EncodeCells(cells)
		encS = (&vaxis.StyledString{Cells: cells}).Encode()
		parsed = vaxis.ParseStyledString(encE)
		if !links {
			styled = vx0.NewStyledString(encS, vaxis.Style{}).Cells
			styledE = vx0.NewStyledString(encE, vaxis.Style{}).Cells
		}
		_, finParse = feed(encE, vaxis.VerifC18ParseSGR)
		termCells, finTerm = feed(encE, term.VerifC18SGR)
	})
	js := map[string]interface{}{"legacySGR": h.legacy, "cells": jsCells(cells), "encodeCells": encE, "encode": encS,
		"parsed": jsCells(parsed), "styled": jsCells(styled), "styledOfEncodeCells": jsCells(styledE), "term": jsCells(termCells),
		"finParse": jsS(finParse), "finTerm": jsS(finTerm)}
	if panicked {
		h.direct = append(h.direct, hx.DirectViolation{Class: "codec-panic", Case: js, What: "a codec function panicked: " + msg})
		return
	}
	encSTerm := hx.None
	if encS != encE {
		encSTerm = hx.Some(hx.Runes(encS))
	}
	if links {
		styled, styledE = parsed, parsed // not observed (the model ignores them)
	}
	obs := fmt.Sprintf("(mkCodecW %s %s %s %s %s %s %s %s)", hx.Runes(encE), encSTerm,
		cellsTerm(parsed, pcellTerm), optCells(styled, parsed), optCells(styledE, parsed), optCells(termCells, parsed),
		penTerm(finParse), penTerm(finTerm))
	if !wf {
		tags = append(tags, "not-wellformed")
	}
	if links {
		tags = append(tags, "hyperlink")
	}
	if blanks {
		tags = append(tags, "blank-cells")
	}
	if h.legacy {
		tags = append(tags, "legacy-sgr")
	}
	h.codec.Add(hx.Tuple(hx.Bool(h.legacy), cellsTerm(cells, cellTerm), obs), js, len(cells) >= 2 && wf, tags...)
}

func (h *harness) vaxisFor(rgb, smulx bool) (*vaxis.Vaxis, *hx.FakeConsole) {
	k := [2]bool{rgb, smulx}
	if vx, ok := h.vxs[k]; ok {
		return vx, h.fcs[k]
	}
	fc := hx.NewFakeConsole(hx.Profile{RGB: rgb, Smulx: smulx, Rows: 1, Cols: rowLen, CursorStyleReply: -1})
	vx, err := vaxis.New(vaxis.Options{WithConsole: fc, NoSignals: true})
	if err != nil {
		panic(err)
	}
	caps := vx.VerifCaps()
	if caps["rgb"] != rgb || caps["styledUnderlines"] != smulx {
		panic(fmt.Sprintf("fake terminal rgb=%v smulx=%v but caps %v", rgb, smulx, caps))
	}
	fc.Take()
	h.vxs[k] = vx
	h.fcs[k] = fc
	return vx, fc
}

// addRender draws exactly one full row of cells (width 1 each) and takes the frame.
func (h *harness) addRender(rgb, smulx bool, cells []vaxis.Cell, tags ...string) {
	if len(cells) != rowLen {
		panic("render rows have rowLen cells")
	}
	vx, fc := h.vaxisFor(rgb, smulx)
	win := vx.Window()
	wf := true
	blanks := false
	for i := range cells {
		cells[i].Width = 1
		if cells[i].Grapheme == "" {
			// a blank screen cell is the zero-value Character: render measures it (width 0)
			// and draws a space
			cells[i].Width = 0
			blanks = true
		}
		win.SetCell(i, 0, cells[i])
		wf = wf && wfStyle(cells[i].Style)
	}
	if blanks {
		tags = append(tags, "blank-cells")
	}
	vx.Refresh()
	frame := string(fc.Take())
	const cup = "\x1b[1;1H"
	a := strings.Index(frame, cup)
	b := strings.LastIndex(frame, "\x1b[m")
	js := map[string]interface{}{"legacySGR": h.legacy, "rgb": rgb, "styledUnderlines": smulx, "cells": jsCells(cells)}
	if a < 0 || b < a {
		js["frame"] = frame
		h.direct = append(h.direct, hx.DirectViolation{Class: "render-frame", Case: js, What: "frame has no CUP 1;1 ... SGR reset"})
		return
	}
	out := frame[a+len(cup) : b+3]
	var parsed, styled, termCells []vaxis.Cell
	var finTerm vaxis.Style
	panicked, msg := hx.Catch(func() {
		parsed = vaxis.ParseStyledString(out)
		styled = vx0.NewStyledString(out, vaxis.Style{}).Cells
		termCells, finTerm = feed(out, term.VerifC18SGR)
	})
	js["out"] = out
	js["parsed"], js["styled"], js["term"], js["finTerm"] = jsCells(parsed), jsCells(styled), jsCells(termCells), jsS(finTerm)
	if panicked {
		h.direct = append(h.direct, hx.DirectViolation{Class: "render-consumer-panic", Case: js, What: "a consumer panicked on render output: " + msg})
		return
	}
	obs := fmt.Sprintf("(mkRenderW %s %s %s %s %s)", hx.Runes(out), cellsTerm(parsed, pcellTerm),
		optCells(styled, parsed), optCells(termCells, parsed), penTerm(finTerm))
	tags = append(tags, fmt.Sprintf("rgb=%v,smulx=%v", rgb, smulx))
	if h.legacy {
		tags = append(tags, "legacy-sgr")
	}
	h.render.Add(hx.Tuple(hx.Tuple(hx.Bool(h.legacy), hx.Bool(rgb), hx.Bool(smulx)), cellsTerm(cells, pcellTerm), obs), js, wf, tags...)
}

func (h *harness) addSGR(start vaxis.Style, ps [][]int, tags ...string) {
	printable := true
	nonempty := true
	for _, p := range ps {
		if len(p) == 0 {
			printable, nonempty = false, false
		}
		for _, v := range p {
			if v < 0 {
				printable = false
			}
		}
	}
	run := func(f func() vaxis.Style) (int, vaxis.Style) {
		var r vaxis.Style
		if p, _ := hx.Catch(func() { r = f() }); p {
			return 1, start
		}
		return 0, r
	}
	cp := func() [][]int { // the consumers must not see each other's writes
		o := make([][]int, len(ps))
		for i, p := range ps {
			o[i] = append([]int{}, p...)
		}
		return o
	}
	oc, sc := run(func() vaxis.Style { return vaxis.VerifC18ParseSGR(cp(), start) })
	ot, st := run(func() vaxis.Style { return term.VerifC18SGR(cp(), start) })
	os_, ss := 0, start
	op, sp := 0, start
	str := ""
	if printable {
		str = printSGR(ps) + "x"
		one := func(cs []vaxis.Cell) vaxis.Style {
			if len(cs) != 1 || cs[0].Grapheme != "x" {
				panic("expected exactly the cell x")
			}
			return cs[0].Style
		}
		os_, ss = run(func() vaxis.Style { return one(vx0.NewStyledString(str, start).Cells) })
		op, sp = run(func() vaxis.Style { return one(vaxis.ParseStyledString(str)) })
	}
	pair := func(o int, s vaxis.Style) string { return hx.Tuple(hx.Z(int64(o)), penTerm(s)) }
	obs := fmt.Sprintf("(mkSgrObs %s %s %s %s %s)", pair(oc, sc), pair(ot, st), hx.Bool(printable), pair(os_, ss), pair(op, sp))
	js := map[string]interface{}{"start": jsS(start), "params": ps, "string": str,
		"parseSGR": []interface{}{oc, jsS(sc)}, "termSGR": []interface{}{ot, jsS(st)},
		"newStyledString": []interface{}{os_, jsS(ss)}, "parseStyledString": []interface{}{op, jsS(sp)}}
	if !nonempty {
		tags = append(tags, "empty-sublist")
	}
	h.sgr.Add(hx.Tuple(penTerm(start), paramsTerm(ps), obs), js, len(ps) > 0 && nonempty, tags...)
}

// ---------- case generation ----------

func cellOf(g string, s vaxis.Style) vaxis.Cell {
	return vaxis.Cell{Character: vaxis.Character{Grapheme: g}, Style: s}
}

func main() {
	os.Unsetenv("COLORTERM")
	cfg := hx.ParseFlags()
	g := &gen{cfg}
	h := &harness{g: g,
		codec:  hx.NewStream("codec", "model.Sgr", "codec_case", "c18_codec_mismatches", "c18_codec_violations"),
		render: hx.NewStream("render", "model.Sgr", "render_case", "c18_render_mismatches", "c18_render_violations"),
		sgr:    hx.NewStream("sgr", "model.Sgr", "sgr_case", "c18_sgr_mismatches", "c18_sgr_violations"),
		vxs:    map[[2]bool]*vaxis.Vaxis{}, fcs: map[[2]bool]*hx.FakeConsole{}}
	h.codec.ShardMax, h.render.ShardMax, h.sgr.ShardMax = 100, 100, 400
	h.codec.Known, h.codec.KnownClass = "c18_codec_known", "legacy-sgr-newstyledstring"
	h.render.Known, h.render.KnownClass = "c18_render_known", "legacy-sgr-newstyledstring"
	thorough := cfg.Thorough()
	allCaps := [][2]bool{{true, true}, {true, false}, {false, true}, {false, false}}

	// --- A. every ordered pair of the 128 attribute masks, as neighbouring cells.
	// Row for mask a: a b1 a b2 a b3 ...  gives (a,b) and (b,a) for the b's of the row.
	// The other fields cycle through all colour classes and underline styles.
	reps := 1
	if thorough {
		reps = 2 // second pass: the other fields vary as well
	}
	pairCount, rowNo := 0, 0
	for rep := 0; rep < reps; rep++ {
		for a := 0; a < 128; a++ {
			var row []vaxis.AttributeMask
			flush := func() {
				if len(row) < 2 {
					return
				}
				for len(row) < rowLen {
					row = append(row, row[len(row)-2]) // repeat earlier transitions to fill the row
				}
				cells := make([]vaxis.Cell, rowLen)
				for i, m := range row {
					var st vaxis.Style // first pass: only the attributes change (short case terms)
					if rep > 0 {
						st = g.style()
						if i%2 == 1 {
							st = cells[i-1].Style
						}
					}
					st.Attribute = m
					cells[i] = cellOf(g.grapheme(true), st)
				}
				pairCount += rowLen - 1
				rowNo++
				h.addCodec(cells, "attr-pairs")
				// render sees the same rows (capabilities in rotation, all four in the thorough tier)
				for ci, c := range allCaps {
					if (thorough && rep == 0) || ci == rowNo%4 {
						h.addRender(c[0], c[1], append([]vaxis.Cell(nil), cells...), "attr-pairs")
					}
				}
				row = nil
			}
			for b := a; b < 128; b++ {
				if len(row) == 0 {
					row = append(row, vaxis.AttributeMask(2*a))
				}
				row = append(row, vaxis.AttributeMask(2*b), vaxis.AttributeMask(2*a))
				if len(row) >= rowLen-1 {
					flush()
				}
			}
			flush()
		}
	}

	// --- B. every ordered pair of colour classes in each colour slot, every ordered pair of underline styles
	nB := 2
	if thorough {
		nB = 12
	}
	phaseB := func(nB int) {
		for rep := 0; rep < nB; rep++ {
			for slot := 0; slot < 4; slot++ {
				n := 5
				if slot == 3 {
					n = 6
				}
				var seq []int // a walk through all ordered pairs (x,y): x y x for y >= x
				for x := 0; x < n; x++ {
					for y := x; y < n; y++ {
						seq = append(seq, x, y)
					}
					seq = append(seq, x)
				}
				base := g.style()
				if rep%2 == 0 {
					base = vaxis.Style{}
				}
				for off := 0; off < len(seq)-1; off += rowLen - 1 {
					cells := make([]vaxis.Cell, 0, rowLen)
					for i := off; i < off+rowLen; i++ {
						st := base
						v := seq[i%len(seq)]
						switch slot {
						case 0:
							st.Foreground = g.colour(v)
						case 1:
							st.Background = g.colour(v)
						case 2:
							st.UnderlineColor = g.colour(v)
						case 3:
							st.UnderlineStyle = vaxis.UnderlineStyle(v)
						}
						cells = append(cells, cellOf(g.grapheme(true), st))
					}
					tag := []string{"fg-classes", "bg-classes", "ul-classes", "uls-pairs"}[slot]
					h.addCodec(cells, tag)
					for _, c := range allCaps {
						h.addRender(c[0], c[1], append([]vaxis.Cell(nil), cells...), tag)
					}
				}
			}
		}
	}
	phaseB(nB)

	// --- C. random cell sequences: lengths 0..12, non-ASCII graphemes, hyperlinks, near-identical neighbours
	nC := 500
	if thorough {
		nC = 4000
	}
	phaseC := func(nC int) {
		for i := 0; i < nC; i++ {
			n := g.n(13)
			if i < 4 {
				n = i
			}
			cells := make([]vaxis.Cell, n)
			prev := vaxis.Style{}
			withLinks := g.n(8) == 0
			withBlanks := i%3 == 2
			for j := range cells {
				var st vaxis.Style
				switch g.n(4) {
				case 0:
					st = g.style()
				case 1:
					st = prev
				default:
					st = g.near(prev)
				}
				if withLinks && g.n(2) == 0 {
					st.Hyperlink = []string{"", "https://example.com/a", "x"}[g.n(3)]
					st.HyperlinkParams = []string{"", "id=1"}[g.n(2)]
				} else {
					st.Hyperlink, st.HyperlinkParams = "", ""
				}
				if g.n(6) == 0 {
					st = vaxis.Style{}
				}
				cells[j] = cellOf(g.grapheme(false), st)
				if withBlanks && g.n(3) == 0 {
					cells[j].Grapheme = "" // blank cell, with whatever style was drawn for it
				}
				prev = st
				prev.Hyperlink, prev.HyperlinkParams = "", ""
			}
			h.addCodec(cells, "random")
		}
		for i := 0; i < nC/2; i++ {
			cells := make([]vaxis.Cell, rowLen)
			prev := vaxis.Style{}
			for j := range cells {
				st := g.near(prev)
				if g.n(4) == 0 {
					st = g.style()
				}
				cells[j] = cellOf(g.grapheme(true), st)
				if i%3 == 2 && g.n(3) == 0 {
					cells[j].Grapheme = ""
				}
				prev = st
			}
			c := allCaps[i%4]
			h.addRender(c[0], c[1], cells, "random")
		}
	}
	phaseC(nC)

	// --- G. blank cells (Grapheme == "": untouched screen cells, continuation cells of wide
	// characters) x style transitions: a blank styled differently from the cell before it, from
	// the cell after it, from both, several blanks in a row, a styled blank first / last / alone.
	// The styles run through every single attribute bit, bold/dim combinations (shared reset 22),
	// every colour class in every colour slot, every underline style, and full random styles.
	gRow := 0
	phaseG := func(full bool) {
		var S []vaxis.Style
		for b := uint(0); b < 7; b++ {
			S = append(S, vaxis.Style{Attribute: vaxis.AttributeMask(2 << b)})
		}
		S = append(S, vaxis.Style{Attribute: vaxis.AttrBold | vaxis.AttrDim}, vaxis.Style{Attribute: vaxis.AttrDim | vaxis.AttrItalic})
		for class := 1; class <= 4; class++ {
			S = append(S, vaxis.Style{Foreground: g.colour(class)}, vaxis.Style{Background: g.colour(class)},
				vaxis.Style{UnderlineColor: g.colour(class), UnderlineStyle: vaxis.UnderlineSingle})
		}
		for u := 1; u <= 5; u++ {
			S = append(S, vaxis.Style{UnderlineStyle: vaxis.UnderlineStyle(u)})
		}
		S = append(S, vaxis.Style{Attribute: vaxis.AttrBold, Foreground: vaxis.IndexColor(1)}, g.style(), g.style())
		if !full {
			S = S[len(S)-14:]
		}
		var pairs [][2]vaxis.Style
		for i, s := range S {
			pairs = append(pairs, [2]vaxis.Style{s, {}}, [2]vaxis.Style{s, S[(i+1)%len(S)]})
			if full {
				pairs = append(pairs, [2]vaxis.Style{s, g.near(s)})
			}
		}
		bl := func(st vaxis.Style) vaxis.Cell { return cellOf("", st) }
		for _, pr := range pairs {
			s, t := pr[0], pr[1]
			ch := func(st vaxis.Style) vaxis.Cell { return cellOf(g.grapheme(true), st) }
			for _, cells := range [][]vaxis.Cell{
				{bl(s), ch(t)},               // styled blank, then text in another style
				{ch(s), bl(t), ch(s)},        // blank in another style between two equal cells
				{ch(t), bl(s)},               // styled blank at the end
				{bl(s)},                      // alone
				{bl(s), bl(t), ch(s), bl(t)}, // runs of blanks
				{ch(s), bl(s), ch(t), bl(t), bl(s), ch(t)},
				{cellOf("世", s), bl(s), ch(t), cellOf("界", t), bl(s), bl(vaxis.Style{})}, // continuation cells
			} {
				h.addCodec(cells, "blank-transitions")
			}
			gRow++
			row := []vaxis.Cell{bl(s), ch(t), ch(s), bl(t), ch(s), bl(t), bl(s), ch(s), ch(t), bl(t), ch(t), bl(s)}
			for ci, c := range allCaps {
				if full || ci == gRow%4 {
					h.addRender(c[0], c[1], append([]vaxis.Cell(nil), row...), "blank-transitions")
				}
			}
		}
	}
	phaseG(true)

	// --- H. attribute transitions (several bits at once, to and from no attributes) while the
	// other fields KEEP a non-default value: whatever is written for the attributes must leave
	// colours, underline style and underline colour alone
	phaseH := func(rows int) {
		bases := []vaxis.Style{{UnderlineStyle: vaxis.UnderlineSingle}, {UnderlineStyle: vaxis.UnderlineCurly, UnderlineColor: g.colour(4)},
			{UnderlineColor: vaxis.IndexColor(200)}, {Foreground: g.colour(3)}, {Background: g.colour(4)},
			{Foreground: g.colour(1), Background: g.colour(2)}, g.style()}
		for bi, base := range bases {
			for r := 0; r < rows; r++ {
				cells := make([]vaxis.Cell, rowLen)
				for i := range cells {
					st := base
					st.Attribute = g.attr()
					if i%2 == 1 {
						switch g.n(3) {
						case 0:
							st.Attribute = 0
						case 1:
							st.Attribute = vaxis.AttributeMask(2 << uint(g.n(7)))
						}
					}
					cells[i] = cellOf(g.grapheme(true), st)
				}
				h.addCodec(cells, "attrs-other-fields-kept")
				c := allCaps[(bi+r)%4]
				h.addRender(c[0], c[1], append([]vaxis.Cell(nil), cells...), "attrs-other-fields-kept")
			}
		}
	}
	phaseH(6)

	// --- D. values outside the named constants (no claim is made for them; the model must still agree)
	odd := []vaxis.Style{{Foreground: 5}, {Background: vaxis.Color(1<<24 | 1<<25 | 7)}, {UnderlineStyle: 9},
		{Attribute: 1}, {Attribute: 3}, {UnderlineColor: vaxis.Color(1<<26 | 3)}, {Foreground: vaxis.HexColor(0x1000000)}}
	for _, o := range odd {
		h.addCodec([]vaxis.Cell{cellOf("a", o), cellOf("b", vaxis.Style{}), cellOf("c", o)}, "odd-values")
		h.addCodec([]vaxis.Cell{cellOf("a", g.style()), cellOf("b", o)}, "odd-values")
	}

	// --- E. SGR param lists for the consumers
	starts := func() vaxis.Style {
		if g.n(3) == 0 {
			return vaxis.Style{}
		}
		return g.style()
	}
	basic := []int{0, 1, 2, 3, 4, 5, 7, 8, 9, 21, 22, 23, 24, 25, 27, 28, 29, 39, 49, 59}
	for k := 30; k <= 37; k++ {
		basic = append(basic, k, k+10, k+60, k+70)
	}
	for _, k := range basic {
		h.addSGR(vaxis.Style{}, [][]int{{k}}, "vocabulary")
		h.addSGR(g.style(), [][]int{{k}}, "vocabulary")
		h.addSGR(vaxis.Style{Attribute: 254, Foreground: vaxis.IndexColor(1), Background: vaxis.RGBColor(1, 2, 3),
			UnderlineColor: vaxis.IndexColor(200), UnderlineStyle: 3}, [][]int{{k}}, "vocabulary")
	}
	h.addSGR(g.style(), [][]int{}, "vocabulary")
	h.addSGR(vaxis.Style{}, [][]int{}, "vocabulary")
	for k := 0; k <= 7; k++ {
		h.addSGR(starts(), [][]int{{4, k}}, "vocabulary")
	}
	for _, c := range []int{38, 48, 58} {
		for _, n := range []int{0, 7, 8, 15, 16, 255} {
			h.addSGR(starts(), [][]int{{c, 5, n}}, "vocabulary")
		}
		h.addSGR(starts(), [][]int{{c, 2, 1, 2, 3}}, "vocabulary")
		h.addSGR(starts(), [][]int{{c, 2, 255, 0, 128}}, "vocabulary")
		// truncated and malformed extended-colour forms, sub-param and legacy syntax
		trunc := [][][]int{
			{{c}}, {{c}, {2}}, {{c}, {5}}, {{c}, {2}, {1}}, {{c}, {2}, {1}, {2}}, {{c}, {5}, {7}}, {{c}, {2}, {1}, {2}, {3}},
			{{c}, {9}, {1}}, {{c}, {9}}, {{c}, {5}, {300}}, {{c}, {2}, {256}, {257}, {511}},
			{{c, 2}}, {{c, 5}}, {{c, 2, 1}}, {{c, 2, 1, 2}}, {{c, 2, 1, 2, 3}}, {{c, 2, 0, 1, 2, 3}}, {{c, 2, 0, 1, 2, 3, 4}},
			{{c, 5, 7}}, {{c, 9, 7}}, {{c, 5, 7, 1, 1}}, {{c, 9, 1, 2, 3}}, {{c, 5, 1, 2, 3}}, {{c, 9, 0, 1, 2, 3}}, {{c, 2, 7}},
			{{c}, {5}, {7}, {1}}, {{c}, {2}, {1}, {2}, {3}, {4}}, {{1}, {c}, {5}, {9}, {3}}, {{c}, {5, 1}, {7, 2}},
			{{c}, {2}, {1}, {2}}, {{3}, {c}, {2}, {10}, {20}}, {{c}, {5}}, {{1}, {c}}, {{c, 5, 300}}, {{c, 2, 256, 257, 511}},
			{{c}, {2, 5}, {1}, {2}, {3}}, {{c}, {c}, {5}, {5}, {5}},
		}
		for _, t := range trunc {
			h.addSGR(vaxis.Style{}, t, "truncated-or-legacy")
			h.addSGR(g.style(), t, "truncated-or-legacy")
		}
		// sub-lists the parser never delivers: the Go code indexes [0] and panics
		for _, t := range [][][]int{{{}}, {{1}, {}}, {{c}, {}, {5}}, {{c}, {2}, {}, {1}, {2}}, {{c}, {5}, {}}, {{c}, {2}, {1}, {2}, {}}, {{}, {1}}} {
			h.addSGR(g.style(), t, "unreachable")
		}
	}
	h.addSGR(g.style(), [][]int{{4, 1, 2}}, "random")
	h.addSGR(g.style(), [][]int{{-1}}, "random")
	h.addSGR(g.style(), [][]int{{38, 5, -1}}, "random")
	h.addSGR(g.style(), [][]int{{38}, {5}, {1 << 40}}, "random")
	nE := 1500
	if thorough {
		nE = 20000
	}
	vals := []int{0, 1, 2, 3, 4, 5, 6, 7, 8, 15, 16, 100, 255, 256, 257, 511, 1000, 65535, 99999}
	codes := append([]int{38, 48, 58, 38, 48, 58, 2, 5, 6, 10, 20, 26, 50, 60, 89, 98, 99, 108, 110}, basic...)
	for i := 0; i < nE; i++ {
		n := g.n(7)
		ps := make([][]int, n)
		for j := range ps {
			m := 1
			if g.n(3) == 0 {
				m = 1 + g.n(6)
			}
			p := make([]int, m)
			if g.n(5) == 0 {
				p[0] = g.n(120)
			} else {
				p[0] = codes[g.n(len(codes))]
			}
			for q := 1; q < m; q++ {
				p[q] = vals[g.n(len(vals))]
			}
			if j > 0 && len(ps[j-1]) == 1 && (ps[j-1][0] == 38 || ps[j-1][0] == 48 || ps[j-1][0] == 58) && g.n(4) != 0 {
				p[0] = []int{2, 5}[g.n(2)] // make the legacy forms likely
			} else if j > 1 && g.n(2) == 0 {
				p[0] = vals[g.n(len(vals))]
			}
			ps[j] = p
		}
		h.addSGR(starts(), ps, "random")
	}

	closeAll := func() {
		for k, vx := range h.vxs {
			vx := vx
			hx.WithTimeout(2e9, vx.Close)
			delete(h.vxs, k)
			delete(h.fcs, k)
		}
	}
	closeAll()

	// --- F. the legacy quirk, last because it cannot be undone in this process: from the next
	// vaxis.New on, render and EncodeCells write 38;5;n / 38;2;r;g;b with semicolons
	os.Setenv("VAXIS_FORCE_LEGACY_SGR", "1")
	h.legacy = true
	h.vaxisFor(true, true)
	if probe := vaxis.EncodeCells([]vaxis.Cell{cellOf("a", vaxis.Style{Foreground: vaxis.IndexColor(100)})}); probe != "\x1b[38;5;100ma\x1b[m" {
		panic(fmt.Sprintf("legacy quirk not active: %q", probe))
	}
	phaseB(2)
	phaseC(nC / 4)
	phaseG(false)
	closeAll()

	cfg.Write("C18", "codec: cell rows covering every ordered pair of the 128 attribute masks, every ordered pair of colour classes "+
		"(default, 0-7, 8-15, 16-255, RGB) per colour slot and of underline styles, random cell lists (length 0-12, non-ASCII graphemes, hyperlinks), "+
		"blank cells (empty grapheme) styled differently from the cells before / after them, first, last, alone and in runs (directed over every attribute bit, colour class per slot, underline style; random), "+
		"attribute transitions with the other fields kept at non-default values, values outside the named constants; render: the same rows drawn by Vaxis.render under the 4 combinations of the rgb and styledUnderlines capabilities; "+
		"codec and render again (colour classes, random) with VAXIS_FORCE_LEGACY_SGR; sgr: the whole producer vocabulary, truncated/legacy/sub-param extended-colour forms, random param lists, lists with empty sub-lists. "+
		"Non-trivial = at least one style transition between well-formed neighbouring cells (codec, render) / a non-empty list without empty sub-lists (sgr); distinct by the whole case",
		[]*hx.Stream{h.codec, h.render, h.sgr},
		map[string]interface{}{"attr_pair_transitions": pairCount}, h.direct)
}
