package hx

import "git.sr.ht/~rockorager/vaxis/ansi"

// TimerEscRetries bounds the re-runs of a parse that was disturbed by the Escape timer.
const TimerEscRetries = 8

// IsTimerEsc reports whether seq is the Escape that the parser's 10 ms timer delivers.
//
// Nothing but that timer makes ansi.Parser deliver C0(0x1B), and with a reader that hands over
// its bytes without pauses the timer can fire only when the parser goroutine was not scheduled
// for 10 ms between ESC and the next byte (readRune stops the timer also at end of input).  On
// a loaded machine that happens now and then; it is real-time behaviour of the test machine,
// not of the code under test.  Harnesses whose input has no deliberate pause therefore parse
// again when they see it (a change that makes the parser deliver Escape wrongly does so on every
// attempt and is still reported; runs with deliberate pauses are never retried).
func IsTimerEsc(seq interface{}) bool {
	c, ok := seq.(ansi.C0)
	return ok && c == 0x1B
}
