// Package hx is the shared library of the correspondence harness: one PRNG,
// Coq term printers, case-file and statistics writers.
package hx

import (
	"encoding/json"
	"flag"
	"fmt"
	"math/rand"
	"os"
	"path/filepath"
	"sort"
	"strconv"
	"strings"
)

// Config is parsed from the command line of every harness binary.
type Config struct {
	Tier   string
	Seed   int64
	Out    string
	Replay string
	Rand   *rand.Rand
}

func ParseFlags() *Config {
	c := &Config{}
	flag.StringVar(&c.Tier, "tier", "quick", "quick|thorough")
	flag.Int64Var(&c.Seed, "seed", 1, "PRNG seed")
	flag.StringVar(&c.Out, "out", "", "output directory")
	flag.StringVar(&c.Replay, "replay", "", "replay file (a case JSON)")
	flag.Parse()
	if c.Out == "" {
		fmt.Fprintln(os.Stderr, "missing -out")
		os.Exit(2)
	}
	if err := os.MkdirAll(c.Out, 0o755); err != nil {
		panic(err)
	}
	c.Rand = rand.New(rand.NewSource(c.Seed))
	return c
}

func (c *Config) Thorough() bool { return c.Tier == "thorough" }

// ---------- Coq term printers (everything is in Z_scope) ----------

func Z(n int64) string {
	if n < 0 {
		return "(" + strconv.FormatInt(n, 10) + ")"
	}
	return strconv.FormatInt(n, 10)
}

func ZU(n uint64) string { return strconv.FormatUint(n, 10) }

func Bool(b bool) string {
	if b {
		return "true"
	}
	return "false"
}

func List(items []string) string { return "[" + strings.Join(items, "; ") + "]" }

func ZList(ns []int64) string {
	s := make([]string, len(ns))
	for i, n := range ns {
		s[i] = Z(n)
	}
	return List(s)
}

func IntList(ns []int) string {
	s := make([]string, len(ns))
	for i, n := range ns {
		s[i] = Z(int64(n))
	}
	return List(s)
}

// Runes prints a Go string as the list of its code points (invalid bytes as U+FFFD)
func Runes(str string) string {
	var s []string
	for _, r := range str {
		s = append(s, Z(int64(r)))
	}
	return List(s)
}

func RuneSlice(rs []rune) string {
	s := make([]string, len(rs))
	for i, r := range rs {
		s[i] = Z(int64(r))
	}
	return List(s)
}

func Bytes(b []byte) string {
	s := make([]string, len(b))
	for i, x := range b {
		s[i] = strconv.Itoa(int(x))
	}
	return List(s)
}

func Tuple(items ...string) string { return "(" + strings.Join(items, ", ") + ")" }

func Some(s string) string { return "(Some " + s + ")" }

const None = "None"

// ---------- case streams ----------

// Stream collects the cases of one correspondence stream: for each case the Coq
// term (input together with what the implementation did) and a JSON rendering
// used for replay files and evidence samples.
type Stream struct {
	Name    string // e.g. "colour"
	Imports string // e.g. "model.Colour"
	Type    string // Coq type of one case
	Mism    string // Coq function: list case -> list Z
	Viol    string // Coq function: list case -> list Z
	// Known (optional): Coq function list case -> list Z giving the indices of the
	// cases that fall under the explicit guard of a recorded finding; a violating
	// case in that list is reported under KnownClass instead of as a new violation.
	Known      string
	KnownClass string
	Terms      []string // Coq terms
	JSON       []interface{}
	keys       map[string]bool
	Nontriv    int
	Dist       map[string]int
	ShardMax   int
}

func NewStream(name, imports, typ, mism, viol string) *Stream {
	return &Stream{Name: name, Imports: imports, Type: typ, Mism: mism, Viol: viol,
		keys: map[string]bool{}, Dist: map[string]int{}, ShardMax: 400}
}

// Add records a case. nontrivial: the case reaches a non-default branch by the
// stream's stated rule. Distinctness is measured on the Coq term.
func (s *Stream) Add(term string, js interface{}, nontrivial bool, tags ...string) {
	s.Terms = append(s.Terms, term)
	s.JSON = append(s.JSON, js)
	if !s.keys[term] {
		s.keys[term] = true
		if nontrivial {
			s.Nontriv++
		}
	}
	for _, t := range tags {
		s.Dist[t]++
	}
}

type shardInfo struct {
	File   string `json:"file"`
	Module string `json:"module"`
	First  int    `json:"first"`
	N      int    `json:"n"`
}

type streamInfo struct {
	Name       string         `json:"name"`
	N          int            `json:"n"`
	Distinct   int            `json:"distinct"`
	Nontriv    int            `json:"distinct_nontrivial"`
	Dist       map[string]int `json:"distribution"`
	Shards     []shardInfo    `json:"shards"`
	CaseFile   string         `json:"cases_jsonl"`
	KnownClass string         `json:"known_class"`
	Samples    []interface{}  `json:"samples"`
}

// Stats is written as stats.json next to the case files.
type Stats struct {
	Property string                 `json:"property"`
	Tier     string                 `json:"tier"`
	Seed     int64                  `json:"seed"`
	Rule     string                 `json:"rule"`
	Streams  []streamInfo           `json:"streams"`
	Extra    map[string]interface{} `json:"extra,omitempty"`
	// Violations found by the harness itself (runtime effects a Coq case file
	// cannot carry: panics, hangs): each has a class and a replay case.
	Direct []DirectViolation `json:"direct_violations"`
}

type DirectViolation struct {
	Class string      `json:"class"`
	Case  interface{} `json:"case"`
	What  string      `json:"what"`
}

func (c *Config) Write(prop, rule string, streams []*Stream, extra map[string]interface{}, direct []DirectViolation) {
	st := Stats{Property: prop, Tier: c.Tier, Seed: c.Seed, Rule: rule, Extra: extra, Direct: direct}
	if st.Direct == nil {
		st.Direct = []DirectViolation{}
	}
	for _, s := range streams {
		si := streamInfo{Name: s.Name, N: len(s.Terms), Distinct: len(s.keys), Nontriv: s.Nontriv, Dist: s.Dist, KnownClass: s.KnownClass}
		// JSON lines for replay
		jl := filepath.Join(c.Out, fmt.Sprintf("%s_%s.cases.jsonl", prop, s.Name))
		f, err := os.Create(jl)
		if err != nil {
			panic(err)
		}
		enc := json.NewEncoder(f)
		for _, j := range s.JSON {
			if err := enc.Encode(j); err != nil {
				panic(err)
			}
		}
		f.Close()
		si.CaseFile = jl
		for i := 0; i < len(s.JSON) && len(si.Samples) < 3; i += 1 + len(s.JSON)/3 {
			si.Samples = append(si.Samples, s.JSON[i])
		}
		for first, k := 0, 0; first < len(s.Terms); first, k = first+s.ShardMax, k+1 {
			last := first + s.ShardMax
			if last > len(s.Terms) {
				last = len(s.Terms)
			}
			mod := fmt.Sprintf("Cases%s_%s_%d", prop, s.Name, k)
			path := filepath.Join(c.Out, mod+".v")
			var b strings.Builder
			fmt.Fprintf(&b, "From Vx Require Import base.Prelude %s.\nLocal Open Scope Z_scope.\n", s.Imports)
			fmt.Fprintf(&b, "Definition cases : list (%s) := [\n", s.Type)
			for i := first; i < last; i++ {
				b.WriteString(s.Terms[i])
				if i+1 < last {
					b.WriteString(";\n")
				}
			}
			b.WriteString("].\n")
			fmt.Fprintf(&b, "Definition mism := Eval vm_compute in (let l := %s cases in (zlen l, firstn 8 l)).\n", s.Mism)
			if s.Known == "" {
				fmt.Fprintf(&b, "Definition viol := Eval vm_compute in (let l := %s cases in (zlen l, firstn 8 l)).\n", s.Viol)
				b.WriteString("Definition known := (0, @nil Z).\n")
			} else {
				fmt.Fprintf(&b, "Definition vk := Eval vm_compute in (let v := %s cases in let k := %s cases in (filter (fun i => negb (existsb (Z.eqb i) k)) v, filter (fun i => existsb (Z.eqb i) k) v)).\n", s.Viol, s.Known)
				b.WriteString("Definition viol := Eval vm_compute in (zlen (fst vk), firstn 8 (fst vk)).\n")
				b.WriteString("Definition known := Eval vm_compute in (zlen (snd vk), firstn 8 (snd vk)).\n")
			}
			b.WriteString("Print mism.\nPrint viol.\nPrint known.\n")
			if err := os.WriteFile(path, []byte(b.String()), 0o644); err != nil {
				panic(err)
			}
			si.Shards = append(si.Shards, shardInfo{File: path, Module: mod, First: first, N: last - first})
		}
		st.Streams = append(st.Streams, si)
	}
	data, err := json.MarshalIndent(st, "", " ")
	if err != nil {
		panic(err)
	}
	if err := os.WriteFile(filepath.Join(c.Out, "stats.json"), data, 0o644); err != nil {
		panic(err)
	}
}

// SortedKeys is a small helper for canonical output of maps.
func SortedKeys(m map[string]int) []string {
	ks := make([]string, 0, len(m))
	for k := range m {
		ks = append(ks, k)
	}
	sort.Strings(ks)
	return ks
}

// Catch runs f and reports whether it panicked.
func Catch(f func()) (panicked bool, msg string) {
	defer func() {
		if r := recover(); r != nil {
			panicked = true
			msg = fmt.Sprint(r)
		}
	}()
	f()
	return
}
