package hx

import (
	"bytes"
	"fmt"
	"io"
	"sync"
	"time"

	"github.com/containerd/console"
)

// Profile says which start-up queries the fake terminal answers (= what it
// advertises).  DA1 is always answered unless NoDA1.
type Profile struct {
	Sync, Unicode, ColorTheme, InBandResize bool
	XTVersion                               string
	KittyKB, KittyGraphics, Sixel           bool
	ReportSize                              bool // answers CSI 14t / 18t
	ExplicitWidth                           bool // cursor moves by the OSC 66 width
	RGB, Smulx                              bool // XTGETTCAP replies
	Osc4, Osc10, Osc11, Osc176              bool
	VTE                                     bool // tertiary DA reply "~VTE"
	CursorStyleReply                        int  // -1: "invalid" DECRQSS reply (0$r), -2: no reply, n>=0: 1$r<n> q
	NoDA1                                   bool
	NoCPR                                   bool // never answers CSI 6n (cursor position report)
	Rows, Cols                              int
	// StartCol is the column (0-based) the cursor is in when the application starts; the
	// alternate screen is entered with the cursor where it was
	StartCol int
}

// CapNames lists the profile switches in a fixed order (bit i of a mask).
var CapNames = []string{"sync", "unicode", "colortheme", "inband", "xtversion", "kittykb", "kittygfx", "sixel",
	"reportsize", "explicitwidth", "rgb", "smulx", "osc4", "osc10", "osc11", "osc176", "vte"}

func ProfileFromMask(m uint32, rows, cols int) Profile {
	b := func(i uint) bool { return m&(1<<i) != 0 }
	p := Profile{Sync: b(0), Unicode: b(1), ColorTheme: b(2), InBandResize: b(3), KittyKB: b(5), KittyGraphics: b(6),
		Sixel: b(7), ReportSize: b(8), ExplicitWidth: b(9), RGB: b(10), Smulx: b(11), Osc4: b(12), Osc10: b(13),
		Osc11: b(14), Osc176: b(15), VTE: b(16), Rows: rows, Cols: cols, CursorStyleReply: -1}
	if b(4) {
		p.XTVersion = "fake(1.0)"
	}
	return p
}

// FakeConsole implements console.Console in memory.
type FakeConsole struct {
	P Profile

	mu     sync.Mutex
	out    bytes.Buffer // everything written by Vaxis
	in     chan []byte
	rest   []byte
	closed bool
	// AutoReply can be switched off to script replies by hand
	AutoReply bool
	// Log of queries seen, for tests
	Resets int
	Raws   int
	// WriteHook, when set, is called (outside the lock) with every write
	WriteHook func(p []byte)
	// cursor column during the start-up dialogue (from CSI ?1049h to the DA1 query): CSI H homes
	// it, an OSC 66 text advances it by its width when the terminal implements explicit width.
	// A cursor position report says where the cursor IS when CSI 6n arrives.
	probing bool
	curCol  int
}

func NewFakeConsole(p Profile) *FakeConsole {
	if p.Rows == 0 {
		p.Rows = 24
	}
	if p.Cols == 0 {
		p.Cols = 80
	}
	return &FakeConsole{P: p, in: make(chan []byte, 1<<16), AutoReply: true}
}

func (c *FakeConsole) Read(p []byte) (int, error) {
	if len(c.rest) == 0 {
		b, ok := <-c.in
		if !ok {
			return 0, io.EOF
		}
		c.rest = b
	}
	n := copy(p, c.rest)
	c.rest = c.rest[n:]
	return n, nil
}

// Inject makes bytes available to the reader as one chunk.
func (c *FakeConsole) Inject(b []byte) {
	if len(b) == 0 {
		return
	}
	cp := append([]byte(nil), b...)
	c.mu.Lock()
	closed := c.closed
	c.mu.Unlock()
	if closed {
		return
	}
	c.in <- cp
}

func (c *FakeConsole) InjectString(s string) { c.Inject([]byte(s)) }

func (c *FakeConsole) Write(p []byte) (int, error) {
	c.mu.Lock()
	c.out.Write(p)
	auto := c.AutoReply
	hook := c.WriteHook
	c.mu.Unlock()
	if hook != nil {
		hook(p)
	}
	if auto {
		c.reply(p)
	}
	return len(p), nil
}

// Take returns everything written since the last Take.
func (c *FakeConsole) Take() []byte {
	c.mu.Lock()
	defer c.mu.Unlock()
	b := append([]byte(nil), c.out.Bytes()...)
	c.out.Reset()
	return b
}

func (c *FakeConsole) reply(p []byte) {
	pr := c.P
	type q struct {
		pat string
		fn  func() string
	}
	qs := []q{
		{"\x1bP$q q\x1b\\", func() string {
			switch {
			case pr.CursorStyleReply == -2:
				return ""
			case pr.CursorStyleReply < 0:
				return "\x1bP0$r\x1b\\"
			}
			return fmt.Sprintf("\x1bP1$r%d q\x1b\\", pr.CursorStyleReply)
		}},
		{"\x1b[?2026$p", func() string {
			if pr.Sync {
				return "\x1b[?2026;2$y"
			}
			return ""
		}},
		{"\x1b[?2027$p", func() string {
			if pr.Unicode {
				return "\x1b[?2027;2$y"
			}
			return ""
		}},
		{"\x1b[?2031$p", func() string {
			if pr.ColorTheme {
				return "\x1b[?2031;2$y"
			}
			return ""
		}},
		{"\x1b[?2048h", func() string {
			if pr.InBandResize {
				return fmt.Sprintf("\x1b[48;%d;%d;%d;%dt", pr.Rows, pr.Cols, pr.Rows*16, pr.Cols*8)
			}
			return ""
		}},
		{"\x1b[>0q", func() string {
			if pr.XTVersion != "" {
				return "\x1bP>|" + pr.XTVersion + "\x1b\\"
			}
			return ""
		}},
		{"\x1b[?u", func() string {
			if pr.KittyKB {
				return "\x1b[?0u"
			}
			return ""
		}},
		{"\x1b_Gi=1,a=q\x1b\\", func() string {
			if pr.KittyGraphics {
				return "\x1b_Gi=1;OK\x1b\\"
			}
			return ""
		}},
		{"\x1b[?2;1;0S", func() string {
			if pr.Sixel {
				return "\x1b[?2;0;800;600S"
			}
			return ""
		}},
		{"\x1b[14t", func() string {
			if pr.ReportSize {
				return fmt.Sprintf("\x1b[4;%d;%dt", pr.Rows*16, pr.Cols*8)
			}
			return ""
		}},
		{"\x1b[18t", func() string {
			if pr.ReportSize {
				return fmt.Sprintf("\x1b[8;%d;%dt", pr.Rows, pr.Cols)
			}
			return ""
		}},
		{"\x1b[6n", func() string {
			if pr.NoCPR {
				return ""
			}
			if c.probing {
				return fmt.Sprintf("\x1b[1;%dR", c.curCol+1)
			}
			if pr.ExplicitWidth {
				return "\x1b[1;2R"
			}
			return "\x1b[1;1R"
		}},
		{"\x1bP+q524742\x1b\\", func() string {
			if pr.RGB {
				return "\x1bP1+r524742=38\x1b\\"
			}
			return "\x1bP0+r524742\x1b\\"
		}},
		{"\x1bP+q536D756C78\x1b\\", func() string {
			if pr.Smulx {
				return "\x1bP1+r536D756C78=5C455B343A25703125646D\x1b\\"
			}
			return "\x1bP0+r536D756C78\x1b\\"
		}},
		{"\x1b]4;1;?\x1b\\", func() string {
			if pr.Osc4 {
				return "\x1b]4;1;rgb:cdcd/0000/0000\x1b\\"
			}
			return ""
		}},
		{"\x1b]10;?\x07", func() string {
			if pr.Osc10 {
				return "\x1b]10;rgb:ffff/ffff/ffff\x07"
			}
			return ""
		}},
		{"\x1b]11;?\x07", func() string {
			if pr.Osc11 {
				return "\x1b]11;rgb:0000/0000/0000\x07"
			}
			return ""
		}},
		{"\x1b]176;?\x1b\\", func() string {
			if pr.Osc176 {
				return "\x1b]176;fakeapp\x1b\\"
			}
			return ""
		}},
		{"\x1b[=c", func() string {
			if pr.VTE {
				return "\x1bP!|7E565445\x1b\\"
			}
			return ""
		}},
		{"\x1b[c", func() string {
			if pr.NoDA1 {
				return ""
			}
			if pr.Sixel {
				return "\x1b[?62;4;22c"
			}
			return "\x1b[?62;22c"
		}},
	}
	// answer in the order the queries appear in p
	for i := 0; i < len(p); i++ {
		if p[i] != 0x1b {
			continue
		}
		switch {
		case bytes.HasPrefix(p[i:], []byte("\x1b[?1049h")):
			c.probing, c.curCol = true, pr.StartCol
		case bytes.HasPrefix(p[i:], []byte("\x1b[c")):
			defer func() { c.probing = false }()
		case bytes.HasPrefix(p[i:], []byte("\x1b[H")):
			c.curCol = 0
		case bytes.HasPrefix(p[i:], []byte("\x1b]66;w=")):
			if pr.ExplicitWidth {
				w := 0
				for k := i + len("\x1b]66;w="); k < len(p) && p[k] >= '0' && p[k] <= '9'; k++ {
					w = w*10 + int(p[k]-'0')
				}
				c.curCol += w
			}
		}
		for _, qq := range qs {
			if bytes.HasPrefix(p[i:], []byte(qq.pat)) {
				if r := qq.fn(); r != "" {
					c.InjectString(r)
				}
				break
			}
		}
	}
}

func (c *FakeConsole) Close() error {
	c.mu.Lock()
	defer c.mu.Unlock()
	if !c.closed {
		c.closed = true
		close(c.in)
	}
	return nil
}

func (c *FakeConsole) Fd() uintptr  { return ^uintptr(0) }
func (c *FakeConsole) Name() string { return "fake" }
func (c *FakeConsole) Resize(ws console.WinSize) error {
	c.P.Rows, c.P.Cols = int(ws.Height), int(ws.Width)
	return nil
}
func (c *FakeConsole) ResizeFrom(console.Console) error { return nil }
func (c *FakeConsole) SetRaw() error                    { c.Raws++; return nil }
func (c *FakeConsole) DisableEcho() error               { return nil }
func (c *FakeConsole) Reset() error                     { c.Resets++; return nil }
func (c *FakeConsole) Size() (console.WinSize, error) {
	return console.WinSize{Height: uint16(c.P.Rows), Width: uint16(c.P.Cols)}, nil
}

// SetSize changes what Size() reports (a later Resize()/Render picks it up).
func (c *FakeConsole) SetSize(rows, cols int) { c.P.Rows, c.P.Cols = rows, cols }

// WithTimeout runs f and reports whether it returned within d.
func WithTimeout(d time.Duration, f func()) bool {
	done := make(chan struct{})
	go func() {
		defer close(done)
		f()
	}()
	select {
	case <-done:
		return true
	case <-time.After(d):
		return false
	}
}
