// Package parsehx drives the real ansi.Parser for the C02 / C08 harnesses.
package parsehx

import (
	"fmt"
	"io"
	"math/rand"
	"strings"
	"time"
	"unicode/utf8"

	"git.sr.ht/~rockorager/vaxis/ansi"
	"github.com/rivo/uniseg"
	"verif/harness/hx"
)

// ChunkReader returns exactly the scripted chunks; before the first chunk of
// segment k>0 it sleeps Gap.  After the last chunk it returns Err (io.EOF by default).
type ChunkReader struct {
	Chunks [][]byte
	GapAt  map[int]bool // sleep before returning chunk i
	Gap    time.Duration
	Err    error
	i      int
	rest   []byte
}

func (c *ChunkReader) Read(p []byte) (int, error) {
	if len(c.rest) == 0 {
		if c.i >= len(c.Chunks) {
			if c.Err != nil {
				return 0, c.Err
			}
			return 0, io.EOF
		}
		if c.GapAt[c.i] {
			time.Sleep(c.Gap)
		}
		c.rest = c.Chunks[c.i]
		c.i++
		if len(c.rest) == 0 {
			return 0, nil
		}
	}
	n := copy(p, c.rest)
	c.rest = c.rest[n:]
	return n, nil
}

// Item is the canonical rendering of one delivered sequence.
type Item struct {
	Kind  string    `json:"k"`
	Runes []int64   `json:"r,omitempty"`
	Inter []int64   `json:"i,omitempty"`
	Final int64     `json:"f,omitempty"`
	PS    [][]int64 `json:"ps,omitempty"`
	DP    []int64   `json:"dp,omitempty"`
	Data  []int64   `json:"d,omitempty"`
}

func runes(rs []rune) []int64 {
	out := make([]int64, len(rs))
	for i, r := range rs {
		out[i] = int64(r)
	}
	return out
}

// ClusterProblem is set when a Print does not carry exactly one grapheme
// cluster with uniseg's width (checked against uniseg itself; a test, not a theorem).
type Result struct {
	Items          []Item
	ClusterProblem string
	SegProblem     string // consecutive Prints are not the cluster segmentation of their text (meaningful for a single read)
	EOFs           int
	AfterEOF       int
	Closed         bool
	Hung           bool
	Panic          string
	Mutated        string // a retained sequence changed after delivery
	timerEsc       bool   // the Escape timer fired
}

// Run feeds the reader to a fresh parser and collects everything it delivers.
// finish: call Parser.Finish on each sequence (false = retain everything).
func Run(rd io.Reader, finish bool, timeout time.Duration) Result {
	res := runOnce(rd, finish, timeout)
	// a reader without pauses: an Escape from the timer is a scheduling artefact (hx.IsTimerEsc)
	if cr, ok := rd.(*ChunkReader); ok && len(cr.GapAt) == 0 {
		for n := 0; n < hx.TimerEscRetries && res.timerEsc && !res.Hung; n++ {
			cr.i, cr.rest = 0, nil
			res = runOnce(cr, finish, timeout)
		}
	}
	return res
}

func runOnce(rd io.Reader, finish bool, timeout time.Duration) Result {
	var res Result
	p := ansi.NewParser(rd)
	done := make(chan struct{})
	type retained struct {
		seq  ansi.Sequence
		copy string
	}
	var kept []retained
	go func() {
		defer close(done)
		defer func() {
			if r := recover(); r != nil {
				res.Panic = fmt.Sprint(r)
			}
		}()
		// consecutive Prints: when everything was buffered by one read they must be exactly
		// uniseg's segmentation of the run (checked for runs of valid UTF-8 only)
		var printRun []string
		endRun := func() {
			whole := strings.Join(printRun, "")
			if len(printRun) > 0 && utf8.ValidString(whole) && res.SegProblem == "" {
				var want []string
				gr := uniseg.NewGraphemes(whole)
				for gr.Next() {
					want = append(want, gr.Str())
				}
				if strings.Join(want, "\x00") != strings.Join(printRun, "\x00") {
					res.SegProblem = fmt.Sprintf("text %q delivered as %q, its clusters are %q", whole, printRun, want)
				}
			}
			printRun = nil
		}
		defer endRun()
		for seq := range p.Next() {
			if res.EOFs > 0 {
				res.AfterEOF++
			}
			if _, isPrint := seq.(ansi.Print); !isPrint {
				endRun()
			}
			switch s := seq.(type) {
			case ansi.EOF:
				res.EOFs++
				continue
			case error:
				continue
			case ansi.Print:
				g := s.Grapheme
				printRun = append(printRun, g)
				if uniseg.GraphemeClusterCount(g) != 1 {
					res.ClusterProblem = fmt.Sprintf("Print %q is not one cluster", g)
				} else if w := uniseg.StringWidth(g); w != s.Width {
					res.ClusterProblem = fmt.Sprintf("Print %q has width %d, uniseg says %d", g, s.Width, w)
				}
				n := len(res.Items)
				if n > 0 && res.Items[n-1].Kind == "print" {
					res.Items[n-1].Runes = append(res.Items[n-1].Runes, runes([]rune(g))...)
				} else {
					res.Items = append(res.Items, Item{Kind: "print", Runes: runes([]rune(g))})
				}
			case ansi.C0:
				if hx.IsTimerEsc(s) {
					res.timerEsc = true
				}
				res.Items = append(res.Items, Item{Kind: "c0", Final: int64(s)})
			case ansi.ESC:
				res.Items = append(res.Items, Item{Kind: "esc", Inter: runes(s.Intermediate), Final: int64(s.Final)})
			case ansi.SS3:
				res.Items = append(res.Items, Item{Kind: "ss3", Final: int64(s)})
			case ansi.CSI:
				it := Item{Kind: "csi", Inter: runes(s.Intermediate), Final: int64(s.Final)}
				for _, ps := range s.Parameters {
					var sub []int64
					for _, v := range ps {
						sub = append(sub, int64(v))
					}
					it.PS = append(it.PS, sub)
				}
				res.Items = append(res.Items, it)
			case ansi.OSC:
				res.Items = append(res.Items, Item{Kind: "osc", Data: runes(s.Payload)})
			case ansi.DCS:
				it := Item{Kind: "dcs", Inter: runes(s.Intermediate), Final: int64(s.Final), Data: runes(s.Data)}
				for _, v := range s.Parameters {
					it.DP = append(it.DP, int64(v))
				}
				res.Items = append(res.Items, it)
			case ansi.APC:
				res.Items = append(res.Items, Item{Kind: "apc", Data: runes([]rune(s.Data))})
			default:
				res.Items = append(res.Items, Item{Kind: fmt.Sprintf("unknown %T", seq)})
			}
			if finish {
				p.Finish(seq)
			} else {
				kept = append(kept, retained{seq, fmt.Sprintf("%#v", seq)})
			}
		}
		res.Closed = true
	}()
	select {
	case <-done:
	case <-time.After(timeout):
		res.Hung = true
		return res
	}
	for _, k := range kept {
		if now := fmt.Sprintf("%#v", k.seq); now != k.copy {
			res.Mutated = fmt.Sprintf("delivered %s, later reads %s", k.copy, now)
			break
		}
	}
	return res
}

// Coq rendering of an item list (type list item of model/Parser.v)
func CoqItems(items []Item, eofs int) string {
	var out []string
	for _, it := range items {
		switch it.Kind {
		case "print":
			out = append(out, "IPrint "+hx.ZList(it.Runes))
		case "c0":
			out = append(out, "IC0 "+hx.Z(it.Final))
		case "esc":
			out = append(out, "IEsc "+hx.ZList(it.Inter)+" "+hx.Z(it.Final))
		case "ss3":
			out = append(out, "ISS3 "+hx.Z(it.Final))
		case "csi":
			var ps []string
			for _, p := range it.PS {
				ps = append(ps, hx.ZList(p))
			}
			out = append(out, "ICsi "+hx.ZList(it.Inter)+" "+hx.List(ps)+" "+hx.Z(it.Final))
		case "osc":
			out = append(out, "IOsc "+hx.ZList(it.Data))
		case "dcs":
			out = append(out, "IDcs "+hx.Z(it.Final)+" "+hx.ZList(it.Inter)+" "+hx.ZList(it.DP)+" "+hx.ZList(it.Data))
		case "apc":
			out = append(out, "IApc "+hx.ZList(it.Data))
		default:
			out = append(out, "IPanic")
		}
	}
	for i := 0; i < eofs; i++ {
		out = append(out, "IEof")
	}
	return hx.List(out)
}

func CoqSegments(segs [][]byte) string {
	var out []string
	for _, s := range segs {
		out = append(out, hx.Bytes(s))
	}
	return hx.List(out)
}

// ---------------------------------------------------------------- generators

// Alphabet: one representative per byte class of the state machine
var Alphabet = [][]byte{{0x00}, {0x07}, {0x18}, {0x1b}, {0x20}, {0x30}, {0x3a}, {0x3b}, {0x3c}, {0x40}, {0x4f}, {0x50},
	{0x58}, {0x5b}, {0x5c}, {0x5d}, {0x5f}, {0x61}, {0x7f}, {0xc3, 0xa9}, {0xff}}

func randParams(r *rand.Rand) string {
	var b strings.Builder
	n := r.Intn(5)
	for i := 0; i < n; i++ {
		if i > 0 {
			if r.Intn(4) == 0 {
				b.WriteByte(':')
			} else {
				b.WriteByte(';')
			}
		}
		switch r.Intn(8) {
		case 0: // empty
		case 1:
			b.WriteString("0")
		case 2:
			fmt.Fprintf(&b, "%d", r.Intn(10))
		case 3:
			fmt.Fprintf(&b, "%d", r.Intn(100000))
		case 4:
			b.WriteString("9223372036854775807")
		case 5:
			b.WriteString("9223372036854775808")
		case 6:
			b.WriteString("00000000000000000000000018446744073709551617")
		default:
			fmt.Fprintf(&b, "%d", r.Intn(300))
		}
	}
	return b.String()
}

func randPayload(r *rand.Rand, allowC0 bool) string {
	var b strings.Builder
	n := r.Intn(8)
	for i := 0; i < n; i++ {
		switch r.Intn(10) {
		case 0:
			b.WriteString("é")
		case 1:
			b.WriteString("\U0001F600")
		case 2:
			if allowC0 {
				b.WriteByte(byte(r.Intn(0x18)))
			}
		case 3:
			b.WriteByte(0x7f)
		case 4:
			b.WriteByte(';')
		case 5:
			b.WriteString("�")
		default:
			b.WriteByte(byte(0x20 + r.Intn(0x5f)))
		}
	}
	return b.String()
}

func randInter(r *rand.Rand) string {
	var b strings.Builder
	for n := r.Intn(3); n > 0; n-- {
		b.WriteByte(byte(0x20 + r.Intn(16)))
	}
	return b.String()
}

// One grammar-generated element (a sequence, text, or noise)
func Element(r *rand.Rand) (string, string) {
	term := func() string {
		switch r.Intn(6) {
		case 0:
			return "\x18"
		case 1:
			return "\x1a"
		case 2:
			return "\x1b"
		default:
			return "\x1b\\"
		}
	}
	switch r.Intn(14) {
	case 0:
		priv := ""
		if r.Intn(3) == 0 {
			priv = string(rune(0x3c + r.Intn(4)))
		}
		return "\x1b[" + priv + randParams(r) + randInter(r) + string(rune(0x40+r.Intn(0x3f))), "csi"
	case 1:
		t := "\x07"
		if r.Intn(2) == 0 {
			t = term()
		}
		return "\x1b]" + randPayload(r, true) + t, "osc"
	case 2:
		ps := randParams(r)
		ps = strings.ReplaceAll(ps, ":", ";")
		return "\x1bP" + ps + randInter(r) + string(rune(0x40+r.Intn(0x3f))) + randPayload(r, true) + term(), "dcs"
	case 3:
		return "\x1b_" + randPayload(r, true) + term(), "apc"
	case 4:
		return "\x1bO" + string(rune(0x20+r.Intn(0x5f))), "ss3"
	case 5:
		return "\x1b" + randInter(r) + string(rune(0x30+r.Intn(0x4f))), "esc"
	case 6:
		return "\x1b" + string([]byte{"X^"[r.Intn(2)]}) + randPayload(r, true) + term(), "sospm"
	case 7: // cancelled / malformed csi
		return "\x1b[" + randParams(r) + []string{"\x18", "\x1a", "\x1b", "<1m", " 1m", "\x7f", "é"}[r.Intn(7)], "csi-cancel"
	case 8:
		return string([]byte{byte(r.Intn(0x20))}), "c0"
	case 9:
		return []string{"é", "👍🏽", "👨‍👩‍👧", "한", "à́", "🇩🇪", "\r\n", "�"}[r.Intn(8)], "cluster"
	case 10:
		b := make([]byte, 1+r.Intn(4))
		for i := range b {
			b[i] = byte(0x80 + r.Intn(0x80))
		}
		return string(b), "invalid-utf8"
	case 11: // string with empty body ended by ST
		return []string{"\x1b]\x1b\\", "\x1bP0$r\x1b\\", "\x1b_\x1b\\", "\x1bX\x1b\\", "\x1bP\x1b\\"}[r.Intn(5)], "empty-string"
	default:
		n := 1 + r.Intn(5)
		var b strings.Builder
		for i := 0; i < n; i++ {
			b.WriteRune(rune(0x20 + r.Intn(0x5f)))
		}
		return b.String(), "text"
	}
}

// Chunkings returns k ways of splitting b into reads (the first is "all at once").
func Chunkings(r *rand.Rand, b []byte, k int) [][][]byte {
	out := [][][]byte{{b}}
	if len(b) > 1 {
		var one [][]byte
		for i := range b {
			one = append(one, b[i:i+1])
		}
		out = append(out, one)
	}
	for len(out) < k && len(b) > 1 {
		var cs [][]byte
		for i := 0; i < len(b); {
			n := 1 + r.Intn(4)
			if i+n > len(b) {
				n = len(b) - i
			}
			cs = append(cs, b[i:i+n])
			i += n
		}
		out = append(out, cs)
	}
	return out
}

var _ = utf8.RuneError
