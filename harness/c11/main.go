// Harness for C11 (windows clip): builds real Window values on a real Vaxis
// (fake console), runs one drawing call per case and records the cells of
// screenNext that changed together with the frames New produced, Origin()
// and the returned cursor position.  Grapheme and line segmentation, cluster
// widths and the trailing-line-break test are taken from the very libraries
// the code links against and shipped inside the case (oracles).
package main

import (
	"fmt"
	"os"
	"strings"
	"time"

	vaxis "git.sr.ht/~rockorager/vaxis"
	"github.com/rivo/uniseg"
	"verif/harness/hx"
)

type cellT struct {
	G  string `json:"g"`
	W  int    `json:"w"`
	St int    `json:"st"`
}

type frameT struct{ Col, Row, W, H int }

type stepT struct {
	ViaNew     bool
	A, B, C, D int
}

type winT struct {
	Root  *frameT
	Steps []stepT
}

type segT struct {
	Text string
	St   int
}

type opT struct {
	Kind     string // setcell setstyle fill clear print ptrunc println wrap
	Col, Row int
	Cell     cellT
	St       int
	Segs     []segT
}

type env struct {
	vx         *vaxis.Vaxis
	cols, rows int
	remeasure  bool
	mask       uint32
	kitty      bool   // the terminal identifies as kitty: caps.noZWJ (width method "no ZWJ")
	capTag     string // which width method is in force, for the distribution report
}

var bg = cellT{".", 1, 99}

func style(tag int) vaxis.Style { return vaxis.Style{Attribute: vaxis.AttributeMask(tag)} }

func goCell(c cellT) vaxis.Cell {
	return vaxis.Cell{Character: vaxis.Character{Grapheme: c.G, Width: c.W}, Style: style(c.St)}
}

func obsCell(c vaxis.VerifCell) cellT {
	tag := int(c.Style.Attribute)
	if c.Style != style(tag) || c.Sixel {
		tag = -1
	}
	return cellT{c.Grapheme, c.Width, tag}
}

func coqCell(c cellT) string {
	return "(mkCell " + hx.Runes(c.G) + " " + hx.Z(int64(c.W)) + " " + hx.Z(int64(c.St)) + ")"
}

func coqFrame(f frameT) string {
	return fmt.Sprintf("(mkFrame %s %s %s %s)", hx.Z(int64(f.Col)), hx.Z(int64(f.Row)), hx.Z(int64(f.W)), hx.Z(int64(f.H)))
}

// clusters of s exactly as Characters obtains them
func clusters(s string) (out []string, widths []int) {
	state := -1
	for s != "" {
		var cl string
		var w int
		cl, s, w, state = uniseg.FirstGraphemeClusterInString(s, state)
		out = append(out, cl)
		widths = append(widths, w)
	}
	return
}

func coqClusters(s string) string {
	cls, ws := clusters(s)
	items := make([]string, len(cls))
	for i := range cls {
		items[i] = hx.Tuple(hx.Runes(cls[i]), hx.Z(int64(ws[i])))
	}
	return hx.List(items)
}

func coqSegs(segs []segT) string {
	items := make([]string, len(segs))
	for i, sg := range segs {
		items[i] = hx.Tuple(coqClusters(sg.Text), hx.Z(int64(sg.St)))
	}
	return hx.List(items)
}

// line segments exactly as Wrap obtains them (state carried over the Segments)
func lineSegs(segs []segT) []segT {
	var out []segT
	state := -1
	for _, sg := range segs {
		rest := sg.Text
		for len(rest) > 0 {
			var segment string
			segment, rest, _, state = uniseg.FirstLineSegmentInString(rest, state)
			out = append(out, segT{segment, sg.St})
		}
	}
	return out
}

func (e *env) build(ws winT) (vaxis.Window, []frameT) {
	var w vaxis.Window
	if ws.Root == nil {
		w = e.vx.Window()
	} else {
		w = vaxis.Window{Vx: e.vx, Column: ws.Root.Col, Row: ws.Root.Row, Width: ws.Root.W, Height: ws.Root.H}
	}
	for _, st := range ws.Steps {
		if st.ViaNew {
			w = w.New(st.A, st.B, st.C, st.D)
		} else {
			p := w
			w = vaxis.Window{Vx: e.vx, Parent: &p, Column: st.A, Row: st.B, Width: st.C, Height: st.D}
		}
	}
	var fs []frameT
	for p := &w; p != nil; p = p.Parent {
		fs = append(fs, frameT{p.Column, p.Row, p.Width, p.Height})
	}
	return w, fs
}

func coqWin(ws winT) string {
	root := hx.None
	if ws.Root != nil {
		root = hx.Some(coqFrame(*ws.Root))
	}
	steps := make([]string, len(ws.Steps))
	for i, st := range ws.Steps {
		steps[i] = hx.Tuple(hx.Bool(st.ViaNew), hx.Tuple(hx.Z(int64(st.A)), hx.Z(int64(st.B)), hx.Z(int64(st.C)), hx.Z(int64(st.D))))
	}
	return hx.Tuple(root, hx.List(steps))
}

func toSegments(segs []segT) []vaxis.Segment {
	out := make([]vaxis.Segment, len(segs))
	for i, sg := range segs {
		out[i] = vaxis.Segment{Text: sg.Text, Style: style(sg.St)}
	}
	return out
}

type runner struct {
	cfg    *hx.Config
	s      *hx.Stream // one call on a background screen
	q      *hx.Stream // sequences of calls on one screen
	direct []hx.DirectViolation
}

// fill the real screen with the background through the root window
func (e *env) reset() {
	root := e.vx.Window()
	root.Fill(goCell(bg))
	for _, line := range e.vx.VerifScreenNext() {
		for _, c := range line {
			if obsCell(c) != bg {
				panic("background fill failed")
			}
		}
	}
}

// what one call did: Coq terms of the call and of the observation, the oracle answers it
// needs, and the JSON rendering
type stepRes struct {
	opTerm, obsTerm string
	snap            [][]cellT // the whole screen afterwards
	ndiff           int
	panicked        bool
	js              map[string]interface{}
}

// build the window, run the call on the screen as it is, observe.  tab/seen collect the
// oracle table (shared by the steps of a sequence)
func (r *runner) exec(e *env, ws winT, op opT, tab *[]string, seen map[string]bool) stepRes {
	w, frames := e.build(ws)
	ox, oy := w.Origin()
	retc, retr := 0, 0
	panicked, msg := hx.Catch(func() {
		switch op.Kind {
		case "setcell":
			w.SetCell(op.Col, op.Row, goCell(op.Cell))
		case "setstyle":
			w.SetStyle(op.Col, op.Row, style(op.St))
		case "fill":
			w.Fill(goCell(op.Cell))
		case "clear":
			w.Clear()
		case "print":
			retc, retr = w.Print(toSegments(op.Segs)...)
		case "ptrunc":
			w.PrintTruncate(op.Row, toSegments(op.Segs)...)
		case "println":
			w.Println(op.Row, toSegments(op.Segs)...)
		case "wrap":
			retc, retr = w.Wrap(toSegments(op.Segs)...)
		default:
			panic("bad op")
		}
	})
	snap := e.vx.VerifScreenNext()
	if len(snap) != e.rows {
		panic("screen height changed")
	}
	var diff []string
	var diffJS []interface{}
	cells := make([][]cellT, len(snap))
	for y, line := range snap {
		if len(line) != e.cols {
			panic("screen width changed")
		}
		cells[y] = make([]cellT, len(line))
		for x, c := range line {
			oc := obsCell(c)
			cells[y][x] = oc
			if oc != bg {
				diff = append(diff, hx.Tuple(hx.Z(int64(x)), hx.Z(int64(y)), coqCell(oc)))
				diffJS = append(diffJS, []interface{}{x, y, oc})
			}
		}
	}
	// oracle table for every character the text helpers will see
	tabSrc := op.Segs
	if op.Kind == "wrap" {
		// Wrap calls Characters on each line segment separately
		tabSrc = lineSegs(op.Segs)
	}
	for _, sg := range tabSrc {
		cls, _ := clusters(sg.Text)
		for _, cl := range cls {
			if cl == "\t" {
				cl = " "
			}
			if seen[cl] {
				continue
			}
			seen[cl] = true
			*tab = append(*tab, hx.Tuple(hx.Runes(cl), hx.Tuple(hx.Z(int64(e.vx.RenderedWidth(cl))), hx.Bool(uniseg.HasTrailingLineBreakInString(cl)))))
		}
	}
	var opTerm string
	switch op.Kind {
	case "setcell":
		opTerm = fmt.Sprintf("(OSetCell %s %s %s)", hx.Z(int64(op.Col)), hx.Z(int64(op.Row)), coqCell(op.Cell))
	case "setstyle":
		opTerm = fmt.Sprintf("(OSetStyle %s %s %s)", hx.Z(int64(op.Col)), hx.Z(int64(op.Row)), hx.Z(int64(op.St)))
	case "fill":
		opTerm = "(OFill " + coqCell(op.Cell) + ")"
	case "clear":
		opTerm = "OClear"
	case "print":
		opTerm = "(OPrint " + coqSegs(op.Segs) + ")"
	case "ptrunc":
		opTerm = fmt.Sprintf("(OPrintTruncate %s %s)", hx.Z(int64(op.Row)), coqSegs(op.Segs))
	case "println":
		opTerm = fmt.Sprintf("(OPrintln %s %s)", hx.Z(int64(op.Row)), coqSegs(op.Segs))
	case "wrap":
		opTerm = "(OWrap " + coqSegs(lineSegs(op.Segs)) + ")"
	}
	outcome := 0
	if panicked {
		outcome = 1
	}
	fr := make([]string, len(frames))
	for i, f := range frames {
		fr[i] = coqFrame(f)
	}
	obs := fmt.Sprintf("(mkObs %d %s %s %s %s)", outcome, hx.List(fr), hx.Tuple(hx.Z(int64(ox)), hx.Z(int64(oy))),
		hx.List(diff), hx.Tuple(hx.Z(int64(retc)), hx.Z(int64(retr))))
	js := map[string]interface{}{"window": ws, "op": op, "frames": frames, "origin": []int{ox, oy},
		"changed": diffJS, "ret": []int{retc, retr}, "panic": msg}
	return stepRes{opTerm: opTerm, obsTerm: obs, snap: cells, ndiff: len(diff), panicked: panicked, js: js}
}

// one case: reset the screen to the background, build the window, run the call, observe
func (r *runner) run(e *env, ws winT, op opT, tags ...string) {
	e.reset()
	var tab []string
	res := r.exec(e, ws, op, &tab, map[string]bool{})
	term := fmt.Sprintf("(mkCase %d %d %s %s %s %s %s %s)", e.cols, e.rows, coqCell(bg), coqWin(ws), hx.Bool(e.remeasure),
		hx.List(tab), res.opTerm, res.obsTerm)
	js := res.js
	js["cols"], js["rows"], js["capmask"], js["kitty"], js["caps"] = e.cols, e.rows, e.mask, e.kitty, e.capTag
	r.s.Add(term, js, res.ndiff > 0, append(tags, op.Kind, fmt.Sprintf("depth%d", len(ws.Steps)), e.capTag)...)
}

// the call as Go source, for the replay file
func describe(st seqStep) string {
	var b strings.Builder
	if st.Win.Root == nil {
		b.WriteString("vx.Window()")
	} else {
		fmt.Fprintf(&b, "Window{%d,%d,%d,%d}", st.Win.Root.Col, st.Win.Root.Row, st.Win.Root.W, st.Win.Root.H)
	}
	for _, s := range st.Win.Steps {
		if s.ViaNew {
			fmt.Fprintf(&b, ".New(%d,%d,%d,%d)", s.A, s.B, s.C, s.D)
		} else {
			fmt.Fprintf(&b, ".Literal{%d,%d,%d,%d}", s.A, s.B, s.C, s.D)
		}
	}
	op := st.Op
	var texts []string
	for _, sg := range op.Segs {
		texts = append(texts, fmt.Sprintf("%q/st%d", sg.Text, sg.St))
	}
	cell := fmt.Sprintf("%q/w%d/st%d", op.Cell.G, op.Cell.W, op.Cell.St)
	switch op.Kind {
	case "setcell":
		fmt.Fprintf(&b, ".SetCell(%d,%d,%s)", op.Col, op.Row, cell)
	case "setstyle":
		fmt.Fprintf(&b, ".SetStyle(%d,%d,st%d)", op.Col, op.Row, op.St)
	case "fill":
		fmt.Fprintf(&b, ".Fill(%s)", cell)
	case "clear":
		b.WriteString(".Clear()")
	case "print":
		fmt.Fprintf(&b, ".Print(%s)", strings.Join(texts, ","))
	case "wrap":
		fmt.Fprintf(&b, ".Wrap(%s)", strings.Join(texts, ","))
	case "ptrunc":
		fmt.Fprintf(&b, ".PrintTruncate(%d,%s)", op.Row, strings.Join(texts, ","))
	case "println":
		fmt.Fprintf(&b, ".Println(%d,%s)", op.Row, strings.Join(texts, ","))
	}
	return b.String()
}

type seqStep struct {
	Win winT
	Op  opT
}

// one sequence: reset the screen once, then run every call (each through its own window) on
// what the earlier calls left behind; the screen is observed after every step
func (r *runner) runSeq(e *env, steps []seqStep, tags ...string) {
	e.reset()
	var tab []string
	seen := map[string]bool{}
	var terms []string
	var stepsJS []interface{}
	var calls []string // the whole input in one line per call, first in the replay file
	var prev [][]cellT
	active := 0 // steps that changed the screen they found
	for _, st := range steps {
		res := r.exec(e, st.Win, st.Op, &tab, seen)
		terms = append(terms, hx.Tuple(coqWin(st.Win), res.opTerm, res.obsTerm))
		calls = append(calls, describe(st))
		// for the replay file: what this step changed with respect to the screen before it
		delta := []string{}
		for y, line := range res.snap {
			for x, c := range line {
				old := bg
				if prev != nil {
					old = prev[y][x]
				}
				if c != old {
					delta = append(delta, fmt.Sprintf("(%d,%d) %q/%d/%d -> %q/%d/%d", x, y, old.G, old.W, old.St, c.G, c.W, c.St))
				}
			}
		}
		if len(delta) > 0 {
			active++
		}
		res.js["delta"] = delta
		delete(res.js, "changed")
		stepsJS = append(stepsJS, res.js)
		prev = res.snap
		tags = append(tags, "step-"+st.Op.Kind)
		if res.panicked {
			break
		}
	}
	term := fmt.Sprintf("(mkSCase %d %d %s %s %s %s)", e.cols, e.rows, coqCell(bg), hx.Bool(e.remeasure), hx.List(tab), hx.List(terms))
	js := map[string]interface{}{"calls": calls, "cols": e.cols, "rows": e.rows, "capmask": e.mask, "kitty": e.kitty, "caps": e.capTag, "steps": stepsJS}
	r.q.Add(term, js, active >= 2, append(tags, fmt.Sprintf("len%d", len(steps)), e.capTag)...)
}

// ---------- generators ----------

func (r *runner) rint(lo, hi int) int { return lo + r.cfg.Rand.Intn(hi-lo+1) }

func (r *runner) genWin(e *env, maxDepth int) (winT, string) {
	rnd := r.cfg.Rand
	ws := winT{}
	pw, ph := e.cols, e.rows
	kind := "built"
	if rnd.Intn(100) < 12 {
		f := frameT{r.rint(-1, 1), r.rint(-1, 1), r.rint(-1, e.cols+3), r.rint(-1, e.rows+3)}
		ws.Root = &f
		pw, ph = f.W, f.H
		kind = "literal"
	}
	depth := rnd.Intn(maxDepth + 1)
	for i := 0; i < depth; i++ {
		bw, bh := pw, ph
		if bw < 0 {
			bw = 0
		}
		if bh < 0 {
			bh = 0
		}
		var st stepT
		st.ViaNew = rnd.Intn(100) < 80
		if !st.ViaNew {
			kind = "literal"
		}
		if rnd.Intn(100) < 60 && bw > 0 && bh > 0 {
			// a proper sub-rectangle
			st.A, st.B = rnd.Intn(bw), rnd.Intn(bh)
			st.C, st.D = r.rint(1, bw-st.A), r.rint(1, bh-st.B)
		} else if rnd.Intn(100) < 60 && bw > 0 && bh > 0 {
			// overlaps the parent but may stick out on any side
			st.A, st.B = r.rint(-2, bw-1), r.rint(-2, bh-1)
			st.C, st.D = r.rint(1, bw+3), r.rint(1, bh+3)
			if rnd.Intn(4) == 0 {
				st.C = -1 - rnd.Intn(2) // "the rest of the parent"
			}
			if rnd.Intn(4) == 0 {
				st.D = -1 - rnd.Intn(2)
			}
		} else {
			st.A, st.B = r.rint(-3, bw+3), r.rint(-3, bh+3)
			st.C, st.D = r.rint(-3, bw+3), r.rint(-3, bh+3)
		}
		ws.Steps = append(ws.Steps, st)
		// size of the new window, to steer the next level (the real value is observed later)
		if st.ViaNew {
			pw, ph = clampSize(st.C, st.A, pw), clampSize(st.D, st.B, ph)
		} else {
			pw, ph = st.C, st.D
		}
	}
	return ws, kind
}

// only used to steer the generator
func clampSize(size, off, parent int) int {
	if size < 0 || size+off > parent {
		return parent - off
	}
	return size
}

func (r *runner) sizeOf(e *env, ws winT) (int, int) {
	_, fs := e.build(ws)
	return fs[0].W, fs[0].H
}

var narrow = []string{"a", "b", "c", "d", "e", "x", "y"}
var wide = []string{"\u4e2d", "\u5b57", "\U0001F600", "\ud55c"}
var special = []string{"e\u0301", "\u0301", "\U0001F469\u200d\U0001F680", "\U0001F1E9\U0001F1EA", "\u2764\ufe0f", "\r", "\u200b", "-", "a\u0323\u0308"}

// characters whose cluster expansion / string width / break behaviour differ from a plain
// letter: full-width punctuation that is a line-break non-starter or closer (no break
// opportunity BEFORE it, so it stays glued to a preceding tab or blank run), a full-width
// opener (no break AFTER it), zero-width characters, glue characters that forbid a break
var wideClose = []string{"\u3002", "\u3001", "\uff0c", "\uff01", "\uff1f", "\uff09", "\u300d", "\u30fc"}
var wideOpen = []string{"\uff08", "\u300c"}
var zeroWide = []string{"\u200b", "\u2060", "\u00ad", "\ufeff", "\u200d"}
var glue = []string{"\u00a0", "\u2011", "\u202f"}

// what may directly follow a tab (or any run that ends at the window's edge)
func (r *runner) genFollower() string {
	rnd := r.cfg.Rand
	switch rnd.Intn(8) {
	case 0, 1, 2:
		return wideClose[rnd.Intn(len(wideClose))]
	case 3:
		return zeroWide[rnd.Intn(len(zeroWide))] + wide[rnd.Intn(len(wide))]
	case 4:
		return glue[rnd.Intn(len(glue))] + wide[rnd.Intn(len(wide))]
	case 5:
		return wideOpen[rnd.Intn(len(wideOpen))] + wide[rnd.Intn(len(wide))]
	case 6:
		return wide[rnd.Intn(len(wide))]
	default:
		return special[rnd.Intn(len(special))]
	}
}

// text rich in tabs: short narrow/wide prefixes, a tab, then a follower that often allows no
// line break before it
func (r *runner) genTabText(maxLen int) string {
	rnd := r.cfg.Rand
	var b strings.Builder
	n := rnd.Intn(maxLen/3 + 2)
	for i := 0; i < n; i++ {
		k := rnd.Intn(100)
		switch {
		case k < 30:
			b.WriteString("\t")
			if rnd.Intn(3) > 0 {
				b.WriteString(r.genFollower())
			}
		case k < 45:
			b.WriteString(wideClose[rnd.Intn(len(wideClose))])
		case k < 52:
			b.WriteString(zeroWide[rnd.Intn(len(zeroWide))])
		case k < 58:
			b.WriteString(glue[rnd.Intn(len(glue))])
		case k < 64:
			b.WriteString(wide[rnd.Intn(len(wide))])
		case k < 69:
			b.WriteString(" ")
		case k < 72:
			b.WriteString("\n")
		default:
			b.WriteString(narrow[rnd.Intn(len(narrow))])
		}
	}
	return b.String()
}

func (r *runner) genText(maxLen int) string {
	rnd := r.cfg.Rand
	if rnd.Intn(4) == 0 {
		return r.genTabText(maxLen)
	}
	var b strings.Builder
	n := rnd.Intn(maxLen + 1)
	// mostly narrow, or rich in wide clusters
	wideShare := []int{5, 25, 60}[rnd.Intn(3)]
	for i := 0; i < n; i++ {
		k := rnd.Intn(100)
		switch {
		case k < wideShare:
			b.WriteString(wide[rnd.Intn(len(wide))])
		case k < wideShare+8:
			b.WriteString(" ")
		case k < wideShare+12:
			b.WriteString("\n")
		case k < wideShare+14:
			b.WriteString("\t")
		case k < wideShare+15:
			b.WriteString("\r\n")
		case k < wideShare+22:
			b.WriteString(special[rnd.Intn(len(special))])
		default:
			b.WriteString(narrow[rnd.Intn(len(narrow))])
		}
	}
	return b.String()
}

func (r *runner) genSegs(maxLen int) []segT {
	n := 1 + r.cfg.Rand.Intn(3)
	segs := make([]segT, n)
	for i := range segs {
		segs[i] = segT{r.genText(maxLen), 1 + r.cfg.Rand.Intn(7)}
	}
	if r.cfg.Rand.Intn(10) == 0 {
		segs[r.cfg.Rand.Intn(n)].Text = ""
	}
	return segs
}

func (r *runner) genCell() cellT {
	rnd := r.cfg.Rand
	switch rnd.Intn(5) {
	case 0:
		return cellT{wide[rnd.Intn(len(wide))], 2, 1 + rnd.Intn(7)}
	case 1:
		return cellT{special[rnd.Intn(3)], rnd.Intn(3), 1 + rnd.Intn(7)}
	default:
		return cellT{narrow[rnd.Intn(len(narrow))], rnd.Intn(2), rnd.Intn(8)}
	}
}

// a coordinate for a window dimension n: mostly the edges and their neighbours
func (r *runner) coord(n int) int {
	if n > 0 && r.cfg.Rand.Intn(2) == 0 {
		return r.cfg.Rand.Intn(n)
	}
	switch r.cfg.Rand.Intn(10) {
	case 0, 1:
		return n - 1
	case 2, 3:
		return n
	case 4:
		return 0
	case 5:
		return -1
	case 6:
		return n + 1
	default:
		return r.rint(-2, n+2)
	}
}

func (r *runner) genOp(e *env, ws winT, kind string) opT {
	w, h := r.sizeOf(e, ws)
	if w < 0 {
		w = 0
	}
	if h < 0 {
		h = 0
	}
	op := opT{Kind: kind}
	switch kind {
	case "setcell":
		op.Col, op.Row, op.Cell = r.coord(w), r.coord(h), r.genCell()
	case "setstyle":
		op.Col, op.Row, op.St = r.coord(w), r.coord(h), 1+r.cfg.Rand.Intn(7)
	case "fill":
		op.Cell = r.genCell()
	case "clear":
	case "print", "wrap":
		op.Segs = r.genSegs(2 + (w*h)/2)
	case "ptrunc", "println":
		op.Row = r.rint(-2, h+2)
		if h > 0 && r.cfg.Rand.Intn(10) < 6 {
			op.Row = r.cfg.Rand.Intn(h)
		}
		op.Segs = r.genSegs(2 + w)
	}
	return op
}

// a call through the root (or a large window) that leaves content on most of the screen
func (r *runner) painter(e *env, which int) seqStep {
	root := winT{}
	rowsOf := func(even, odd string) string {
		var b strings.Builder
		for y := 0; y < e.rows; y++ {
			t := even
			if y%2 == 1 {
				t = odd
			}
			n := 0
			for _, ch := range []rune(strings.Repeat(t, e.cols)) {
				w := 1
				if ch >= 0x1100 {
					w = 2
				}
				if n+w > e.cols {
					break
				}
				b.WriteRune(ch)
				n += w
			}
			if n < e.cols && y+1 < e.rows {
				b.WriteString("\n")
			}
		}
		return b.String()
	}
	switch which {
	case 0: // wide cell at every column
		return seqStep{root, opT{Kind: "fill", Cell: cellT{"世", 2, 2}}}
	case 1: // wide clusters at even columns / at odd columns, alternating by row
		return seqStep{root, opT{Kind: "print", Segs: []segT{{rowsOf("世界", "a世界"), 2}}}}
	case 2: // mixed text, wrapped
		return seqStep{root, opT{Kind: "wrap", Segs: []segT{{rowsOf("ab世cd", "世 b界"), 3}}}}
	default: // narrow text only
		return seqStep{root, opT{Kind: "print", Segs: []segT{{rowsOf("abcde", "fghij"), 1}}}}
	}
}

func (r *runner) genPainter(e *env) seqStep {
	rnd := r.cfg.Rand
	if rnd.Intn(3) > 0 {
		return r.painter(e, rnd.Intn(4))
	}
	// a random large window with random wide-rich text or a random (often wide) fill
	ws := winT{}
	if rnd.Intn(2) == 0 {
		ws.Steps = []stepT{{true, r.rint(-1, 1), r.rint(-1, 1), -1, -1}}
	}
	if rnd.Intn(2) == 0 {
		return seqStep{ws, opT{Kind: "fill", Cell: r.genCell()}}
	}
	kind := []string{"print", "wrap"}[rnd.Intn(2)]
	return seqStep{ws, opT{Kind: kind, Segs: r.genSegs(e.cols * e.rows)}}
}

func main() {
	os.Unsetenv("COLORTERM")
	cfg := hx.ParseFlags()
	r := &runner{cfg: cfg}
	r.s = hx.NewStream("draw", "model.Window", "case", "c11_draw_mismatches", "c11_draw_violations")
	r.s.ShardMax = 250
	r.q = hx.NewStream("seq", "model.Window", "scase", "c11_seq_mismatches", "c11_seq_violations")
	r.q.ShardMax = 120

	sizes := [][2]int{{1, 1}, {2, 2}, {3, 2}, {5, 4}, {6, 3}, {8, 5}, {10, 3}}
	// every width-measuring method the text helpers can run under: unicodeCore x explicitWidth
	// (both set: the widths uniseg reported with the clusters are used as they are; otherwise
	// every cluster is re-measured by Vaxis.characterWidth) x the kitty quirk caps.noZWJ (the
	// terminal identifies as kitty: characterWidth ignores ZWJ when neither capability is set)
	masks := []uint32{0, 1<<1 | 1<<9, 1 << 1, 1 << 9}
	var envs []*env
	for _, sz := range sizes {
		for _, m := range masks {
			for _, kitty := range []bool{false, true} {
				prof := hx.ProfileFromMask(m, sz[1], sz[0])
				if kitty {
					prof.XTVersion = "kitty(0.35.2)"
				}
				fc := hx.NewFakeConsole(prof)
				vx, err := vaxis.New(vaxis.Options{WithConsole: fc, NoSignals: true})
				if err != nil {
					panic(err)
				}
				caps := vx.VerifCaps()
				if caps["unicodeCore"] != (m&(1<<1) != 0) || caps["explicitWidth"] != (m&(1<<9) != 0) || caps["noZWJ"] != kitty {
					panic(fmt.Sprintf("capabilities not as requested: mask %#x kitty %v: %v", m, kitty, caps))
				}
				e := &env{vx: vx, cols: sz[0], rows: sz[1], mask: m, kitty: kitty, remeasure: !caps["unicodeCore"] || !caps["explicitWidth"]}
				e.capTag = "caps"
				for _, k := range []string{"unicodeCore", "explicitWidth", "noZWJ"} {
					if caps[k] {
						e.capTag += "+" + k
					}
				}
				if len(vx.VerifScreenNext()) != e.rows {
					panic("unexpected screen size")
				}
				envs = append(envs, e)
			}
		}
	}
	defer func() {
		for _, e := range envs {
			hx.WithTimeout(2*time.Second, e.vx.Close)
		}
	}()

	kinds := []string{"setcell", "setcell", "setstyle", "fill", "clear", "print", "print", "ptrunc", "println", "wrap", "wrap", "setcell"}
	n := 3600
	if cfg.Thorough() {
		n = 200000
	}
	for i := 0; i < n; i++ {
		e := envs[cfg.Rand.Intn(len(envs))]
		if e.cols < 3 && cfg.Rand.Intn(3) > 0 {
			e = envs[cfg.Rand.Intn(len(envs))] // fewer tiny screens
		}
		ws, kind := r.genWin(e, 4)
		op := r.genOp(e, ws, kinds[i%len(kinds)])
		r.run(e, ws, op, "random", kind, fmt.Sprintf("%dx%d", e.cols, e.rows))
	}

	// bounded-exhaustive: every window New can make from the root of a 5x4 screen with
	// offsets and sizes from -3 to 3 beyond the parent, filled completely (a Fill visits
	// every coordinate of the window).  Quick tier: a stride through the same space.
	var e54 *env
	for _, e := range envs {
		if e.cols == 5 && e.rows == 4 && e.mask == 0 && !e.kitty {
			e54 = e
		}
	}
	stride := 37
	if cfg.Thorough() {
		stride = 1
	}
	k := 0
	for a := -3; a <= 8; a++ {
		for b := -3; b <= 7; b++ {
			for c := -3; c <= 8; c++ {
				for d := -3; d <= 7; d++ {
					k++
					if k%stride != 0 {
						continue
					}
					ws := winT{Steps: []stepT{{true, a, b, c, d}}}
					r.run(e54, ws, opT{Kind: "fill", Cell: cellT{"#", 1, 3}}, "exhaustive-depth1")
				}
			}
		}
	}
	// depth 2 on a 3x2 screen, offsets/sizes -2..parent+2, strided in quick
	var e32 *env
	for _, e := range envs {
		if e.cols == 3 && e.rows == 2 && e.mask == 0 && !e.kitty {
			e32 = e
		}
	}
	stride2 := 24989
	if cfg.Thorough() {
		stride2 = 61
	}
	k = 0
	rng := func(p int) (int, int) { return -2, p + 2 }
	al, ah := rng(3)
	bl, bh := rng(2)
	for a := al; a <= ah; a++ {
		for b := bl; b <= bh; b++ {
			for c := al; c <= ah; c++ {
				for d := bl; d <= bh; d++ {
					for a2 := al; a2 <= ah; a2++ {
						for b2 := bl; b2 <= bh; b2++ {
							for c2 := al; c2 <= ah; c2++ {
								for d2 := bl; d2 <= bh; d2++ {
									k++
									if k%stride2 != 0 {
										continue
									}
									ws := winT{Steps: []stepT{{true, a, b, c, d}, {k%3 != 0, a2, b2, c2, d2}}}
									r.run(e32, ws, opT{Kind: "fill", Cell: cellT{"#", 1, 3}}, "exhaustive-depth2")
								}
							}
						}
					}
				}
			}
		}
	}

	// the classic: a wide cluster that does not fit in what is left of the row
	for ei, e := range envs {
		if e.cols < 5 {
			continue
		}
		for ki, kind := range []string{"print", "wrap", "println", "ptrunc"} {
			for xi, txt := range []string{"ab\u4e2dd", "\u4e2d\u4e2d\u4e2d\u4e2d", "a\u4e2d\n\u4e2db\u4e2d", "ab \u4e2d cd"} {
				if !cfg.Thorough() && (ei+ki+xi)%3 != 0 {
					continue // quick tier: a third of the (call, text) pairs per environment, rotating
				}
				ws := winT{Steps: []stepT{{true, 1, 0, 3, 2}}}
				r.run(e, ws, opT{Kind: kind, Segs: []segT{{txt, 2}}}, "wide-at-edge")
				ws = winT{Steps: []stepT{{true, 0, 0, 1, 3}}}
				r.run(e, ws, opT{Kind: kind, Segs: []segT{{txt, 2}}}, "wide-in-1col")
			}
		}
	}

	// a run of cells that ends exactly in the window's last column, followed by a cluster
	// that must not be put there.  The run comes from a TAB (Characters expands it to eight
	// blanks while its string width is 0), after a prefix chosen so that (prefix + 8) mod
	// width = width-1 (and one column less / more); the follower is a wide cluster before
	// which no line break is allowed (closing punctuation, a wide cluster glued by WORD
	// JOINER), one before which a break is allowed, a zero-width character, a narrow cluster.
	// Every text helper, every window width the screen allows, window flush left and flush
	// right on the screen, every width-measuring method.
	noBreak := []string{"\u3002", "\uff09x", "\u2060\u4e16"}
	others := []string{"\u4e16", "\u200b\u3002", "e\u0301", "\u00a0\U0001F600"}
	ti := 0
	for _, e := range envs {
		if e.cols < 3 || (!cfg.Thorough() && (e.cols == 5 || e.cols == 8)) {
			continue
		}
		for wd := 1; wd <= e.cols; wd++ {
			for ki, kind := range []string{"wrap", "print", "println", "ptrunc"} {
				var fl []string
				if cfg.Thorough() {
					fl = append(append(fl, noBreak...), others...)
				} else if ki < 2 {
					fl = append(append(fl, noBreak...), others[ti%len(others)])
				} else {
					fl = []string{append(append([]string{}, noBreak...), others...)[ti%(len(noBreak)+len(others))]}
				}
				for _, f := range fl {
					ti++
					exact := ((wd-9)%wd + wd) % wd
					ps := []int{exact}
					if cfg.Thorough() {
						ps = append(ps, (exact+1)%wd, (exact+wd-1)%wd)
					} else if ti%3 == 0 {
						ps = []int{(exact + 1 + ti%2*(wd-2) + wd) % wd}
					}
					for _, p := range ps {
						prefix := strings.Repeat("ab", p)[:p]
						if p >= 2 && ti%4 == 0 {
							prefix = "\u4e2d" + prefix[2:] // same width, a wide cluster in it
						}
						a := 0
						if ti%2 == 1 {
							a = e.cols - wd // flush right: an overhang would leave the screen
						}
						ws := winT{Steps: []stepT{{true, a, 0, wd, -1}}}
						op := opT{Kind: kind, Row: ti % 2, Segs: []segT{{prefix + "\t" + f, 3}}}
						if ti%5 == 0 {
							// the tab in a Segment of its own (the line-break state is carried over)
							op.Segs = []segT{{prefix, 2}, {"\t", 3}, {f, 4}}
						}
						r.run(e, ws, op, "tab-run-at-edge")
					}
				}
			}
		}
	}

	// ---------- sequences: state that survives between calls ----------
	// (a) random: 2-4 calls, each through its own random window, on one screen.  The first
	// call is often a "painter" that covers a large window with content rich in wide
	// clusters, so that later windows cut through clusters and overwrite parts of them.
	allKinds := []string{"setcell", "setstyle", "fill", "clear", "print", "ptrunc", "println", "wrap"}
	nseq := 240
	if cfg.Thorough() {
		nseq = 20000
	}
	for i := 0; i < nseq; i++ {
		e := envs[cfg.Rand.Intn(len(envs))]
		if e.cols < 5 && cfg.Rand.Intn(4) > 0 {
			e = envs[cfg.Rand.Intn(len(envs))]
		}
		n := 2 + cfg.Rand.Intn(3)
		var steps []seqStep
		for j := 0; j < n; j++ {
			if j == 0 && cfg.Rand.Intn(100) < 55 {
				steps = append(steps, r.genPainter(e))
				continue
			}
			ws, _ := r.genWin(e, 3)
			steps = append(steps, seqStep{ws, r.genOp(e, ws, allKinds[cfg.Rand.Intn(len(allKinds))])})
		}
		r.runSeq(e, steps, "seq-random", fmt.Sprintf("%dx%d", e.cols, e.rows))
	}
	// (b) directed: content painted through the root (wide clusters at every column parity,
	// narrow text, a wide fill), then a window made by New whose four edges run through that
	// content at every column offset, then each of the eight calls through that window
	// touching its first and last column.  One capability set per (screen, painter).
	pk := 0
	for _, sz := range sizes {
		if sz[0] < 5 || (!cfg.Thorough() && sz[0] > 8) {
			continue
		}
		for pi := 0; pi < 4; pi++ {
			var e *env
			for _, c := range envs {
				if c.cols == sz[0] && c.rows == sz[1] && c.mask == masks[(pk+pk/4)%len(masks)] && c.kitty == (pk/4%2 == 1) {
					e = c
				}
			}
			pk++
			for a := 1; a < e.cols; a++ {
				for ki, kind := range allKinds {
					if !cfg.Thorough() && (ki+a+pi)%2 == 1 {
						continue // quick tier: half of the calls per edge, alternating
					}
					b := (a + ki) % 2
					wd := 1 + (a+ki)%3
					ws := winT{Steps: []stepT{{true, a, b, wd, 2}}}
					cw, _ := r.sizeOf(e, ws)
					op := opT{Kind: kind, Cell: cellT{"x", 1, 5}, St: 6, Row: ki % 2, Segs: []segT{{"xy字z", 4}}}
					if ki%2 == 1 {
						op.Cell = cellT{"字", 2, 5}
						op.Col = cw - 1
					}
					r.runSeq(e, []seqStep{r.painter(e, pi), {ws, op}}, "seq-edge-cut")
				}
			}
		}
	}

	cfg.Write("C11", "one drawing call (SetCell, SetStyle, Fill, Clear, Print, PrintTruncate, Println, Wrap) through a window chain of depth 0-4 built by Vaxis.Window/New and by Window literals with offsets and sizes from negative to beyond the parent, on screens 1x1..10x3 under all eight width-measuring settings (unicodeCore x explicitWidth x kitty noZWJ quirk); texts over narrow, wide, combining, ZWJ, flag, tab, CR, LF, CRLF clusters, full-width closing/opening punctuation (line-break non-starters), zero-width and glue characters, a quarter of the texts rich in tabs followed by such characters; directed: a prefix + TAB whose eight blanks end exactly in (one before, one after) the last column of a window of every width, followed by wide clusters with and without a break opportunity, for all four text helpers; plus a (strided in quick, complete in thorough) enumeration of all depth-1 New windows on 5x4 and depth-2 windows on 3x2 under Fill; non-trivial = at least one screen cell changed.  Stream seq: 2-4 calls, each through its own window, on one screen that is not reset in between (random windows and calls after a painter that covers the screen with wide/narrow content; directed: a New window whose edges cut painted content at every column, then each of the eight calls), every step compared and decided against the screen observed before it; non-trivial = at least two steps changed the screen they found",
		[]*hx.Stream{r.s, r.q}, map[string]interface{}{"envs": len(envs)}, r.direct)
}
