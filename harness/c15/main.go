// Harness for C15 (vxfw event routing, focus, hover, commands).
//
// Stream "direct": the unexported handlers of /repo/vxfw/vxfw.go (focusHandler.handleEvent,
// updatePath, focusWidget, mouseHandler.handleEvent/update/mouseExit, App.handleCommand,
// Surface.render) are called one by one through /repo/vxfw/verif_hooks_c15.go on hand-built
// Surface trees; after every call the handler calls made, the terminal commands written
// and a snapshot of the routing state are recorded.
// Stream "app": a real App.Run on a fake console; events are injected with App.PostEvent,
// the root widget draws scripted Surface trees; the whole call log is recorded.
// Widgets are instrumented: every HandleEvent/CaptureEvent call is logged as
// (widget id, event, phase) and returns a command drawn at random at call time; the
// commands returned are shipped in the case as the script (k-th call -> k-th command).
package main

import (
	"encoding/base64"
	"fmt"
	"math/rand"
	"os"
	"strings"
	"sync"
	"sync/atomic"
	"time"

	vaxis "git.sr.ht/~rockorager/vaxis"
	"git.sr.ht/~rockorager/vaxis/vxfw"
	"verif/harness/hx"
)

// ---------------------------------------------------------------- data

type node struct {
	ID   int   `json:"id"`
	W    int   `json:"w"`
	H    int   `json:"h"`
	Kids []kid `json:"kids,omitempty"`
}

type kid struct {
	Col int   `json:"col"`
	Row int   `json:"row"`
	Z   int   `json:"z"`
	N   *node `json:"n"`
}

type cmdT struct {
	K     string `json:"k"` // none redraw refresh quit consume debug out focus batch
	A     int    `json:"a,omitempty"`
	B     int    `json:"b,omitempty"`
	L     []cmdT `json:"l,omitempty"`
	Slice bool   `json:"slice,omitempty"`
}

type evT struct {
	K string `json:"k"` // key init mouse focusin focusout enter leave
	A int    `json:"a,omitempty"`
	B int    `json:"b,omitempty"`
}

type callT struct {
	W  int `json:"w"`
	Ev evT `json:"ev"`
	Ph int `json:"ph"` // 0 capture 1 target 2 bubble
}

type inputT struct {
	K  string `json:"k"`
	A  int    `json:"a,omitempty"`
	B  int    `json:"b,omitempty"`
	Ev *evT   `json:"ev,omitempty"`
	T  *node  `json:"t,omitempty"`
	T2 *node  `json:"t2,omitempty"` // frame2: what the root draws at the second layout of the tick
	C  *cmdT  `json:"c,omitempty"`
}

type hitT struct{ Col, Row, W int }

type snapT struct {
	Focused                               int
	Path                                  []int
	Hits                                  []hitT
	Mouse                                 bool
	Redraw, Refresh, Quit, Consume, Debug bool
}

type obsT struct {
	Calls []callT `json:"calls"`
	Outs  []cmdT  `json:"outs"`
	Snap  snapT   `json:"snap"`
}

// ---------------------------------------------------------------- Coq printers

func coqTree(n *node) string {
	ks := make([]string, len(n.Kids))
	for i, k := range n.Kids {
		ks[i] = hx.Tuple(hx.Z(int64(k.Col)), hx.Z(int64(k.Row)), hx.Z(int64(k.Z)), coqTree(k.N))
	}
	return fmt.Sprintf("Node %s %s %s %s", hx.Z(int64(n.ID)), hx.Z(int64(n.W)), hx.Z(int64(n.H)), hx.List(ks))
}

func coqCmd(c cmdT) string {
	switch c.K {
	case "none":
		return "CNone"
	case "redraw":
		return "CRedraw"
	case "refresh":
		return "CRefresh"
	case "quit":
		return "CQuit"
	case "consume":
		return "CConsume"
	case "debug":
		return "CDebug"
	case "out":
		return fmt.Sprintf("(COut %s %s)", hx.Z(int64(c.A)), hx.Z(int64(c.B)))
	case "focus":
		return fmt.Sprintf("(CFocus %s)", hx.Z(int64(c.A)))
	case "batch":
		return fmt.Sprintf("(CBatch %s %s)", hx.Bool(c.Slice), coqCmds(c.L))
	}
	panic("cmd kind " + c.K)
}

func coqCmds(l []cmdT) string {
	s := make([]string, len(l))
	for i, c := range l {
		s[i] = coqCmd(c)
	}
	return hx.List(s)
}

func coqEv(e evT) string {
	switch e.K {
	case "key":
		return fmt.Sprintf("(EKey %s)", hx.Z(int64(e.A)))
	case "init":
		return "EInit"
	case "mouse":
		return fmt.Sprintf("(EMouse %s %s)", hx.Z(int64(e.A)), hx.Z(int64(e.B)))
	case "focusin":
		return "EFocusIn"
	case "focusout":
		return "EFocusOut"
	case "enter":
		return "EEnter"
	case "leave":
		return "ELeave"
	}
	panic("event kind " + e.K)
}

var phaseNames = []string{"Capture", "Target", "Bubble"}

func coqCalls(l []callT) string {
	s := make([]string, len(l))
	for i, c := range l {
		s[i] = hx.Tuple(hx.Z(int64(c.W)), coqEv(c.Ev), phaseNames[c.Ph])
	}
	return hx.List(s)
}

func coqInput(i inputT) string {
	switch i.K {
	case "ev":
		return "IEv " + coqEv(*i.Ev)
	case "mouse":
		return fmt.Sprintf("IMouse %s %s", hx.Z(int64(i.A)), hx.Z(int64(i.B)))
	case "termfocusin":
		return "ITermFocusIn"
	case "termfocusout":
		return "ITermFocusOut"
	case "redrawreq":
		return "IRedrawReq"
	case "frame":
		return "IFrame (" + coqTree(i.T) + ")"
	case "start":
		return "IStart (" + coqTree(i.T) + ")"
	case "update":
		return "PUpdate (" + coqTree(i.T) + ")"
	case "updatepath":
		return "PUpdatePath (" + coqTree(i.T) + ")"
	case "setlast":
		return "PSetLast (" + coqTree(i.T) + ")"
	case "render":
		return "PRender (" + coqTree(i.T) + ")"
	case "mouseexit":
		return "PMouseExit"
	case "clearmouse":
		return "PClearMouse"
	case "focus":
		return "PFocus " + hx.Z(int64(i.A))
	case "cmd":
		return "PCmd " + coqCmd(*i.C)
	}
	panic("input kind " + i.K)
}

func coqSnap(s snapT) string {
	hs := make([]string, len(s.Hits))
	for i, h := range s.Hits {
		hs[i] = hx.Tuple(hx.Z(int64(h.Col)), hx.Z(int64(h.Row)), hx.Z(int64(h.W)))
	}
	return fmt.Sprintf("(mkSnap %s %s %s %s %s %s %s %s %s)", hx.Z(int64(s.Focused)), hx.IntList(s.Path), hx.List(hs),
		hx.Bool(s.Mouse), hx.Bool(s.Redraw), hx.Bool(s.Refresh), hx.Bool(s.Quit), hx.Bool(s.Consume), hx.Bool(s.Debug))
}

// ---------------------------------------------------------------- instrumented widgets

type customEv struct{ n int }

type env struct {
	r       *rand.Rand
	widgets map[int]vxfw.Widget
	capt    map[int]bool
	calls   []callT
	script  []cmdT
	gen     func(e *env, w int, ev evT, ph int) cmdT

	// app mode
	mu         sync.Mutex
	curTree    *node
	curTree2   *node // drawn from the second layout of a tick on (nil: curTree again)
	frameDraws int   // layouts since the last gated Draw (= in the current tick)
	draws      int
	gateDraw   bool          // the next Draw of the root blocks
	drawn      chan struct{} // signalled by a gated Draw
	goDraw     chan struct{}
	syncKey    int // the key the app goroutine must stop at; 0 = none
	reached    chan struct{}
	release    chan struct{}
	quitKey    int
	quitSeen   bool // a QuitCmd was returned by some handler
}

type plainW struct {
	id int
	e  *env
}

type captW struct{ plainW }

func (w *plainW) HandleEvent(ev vaxis.Event, ph vxfw.EventPhase) (vxfw.Command, error) {
	return w.e.handle(w.id, ev, int(ph)), nil
}

func (w *captW) CaptureEvent(ev vaxis.Event) (vxfw.Command, error) {
	return w.e.handle(w.id, ev, 0), nil
}

func (w *plainW) Draw(ctx vxfw.DrawContext) (vxfw.Surface, error) {
	e := w.e
	e.mu.Lock()
	e.draws++
	gate := e.gateDraw
	e.gateDraw = false
	if gate {
		e.frameDraws = 0
	}
	t := e.curTree
	if e.frameDraws >= 1 && e.curTree2 != nil {
		t = e.curTree2
	}
	e.frameDraws++
	e.mu.Unlock()
	if gate {
		e.drawn <- struct{}{}
		<-e.goDraw
	}
	return e.build(t), nil
}

func decodeEv(ev vaxis.Event) evT {
	switch ev := ev.(type) {
	case vaxis.Key:
		return evT{K: "key", A: int(ev.Keycode)}
	case customEv:
		return evT{K: "key", A: ev.n}
	case vxfw.Init:
		return evT{K: "init"}
	case vaxis.Mouse:
		return evT{K: "mouse", A: ev.Col, B: ev.Row}
	case vaxis.FocusIn:
		return evT{K: "focusin"}
	case vaxis.FocusOut:
		return evT{K: "focusout"}
	case vxfw.MouseEnter:
		return evT{K: "enter"}
	case vxfw.MouseLeave:
		return evT{K: "leave"}
	}
	panic(fmt.Sprintf("unexpected event %T", ev))
}

func goEvent(e evT) vaxis.Event {
	switch e.K {
	case "key":
		if e.A >= 0 {
			return vaxis.Key{Keycode: rune(e.A)}
		}
		return customEv{e.A}
	case "init":
		return vxfw.Init{}
	}
	panic("goEvent " + e.K)
}

func (e *env) handle(w int, ev vaxis.Event, ph int) vxfw.Command {
	evt := decodeEv(ev)
	quit := false
	if evt.K == "key" {
		e.mu.Lock()
		stop := e.syncKey != 0 && evt.A == e.syncKey
		if stop {
			e.syncKey = 0
		}
		if e.quitKey != 0 && evt.A == e.quitKey {
			quit = true
			e.quitKey = 0
		}
		e.mu.Unlock()
		if stop {
			e.reached <- struct{}{}
			<-e.release
		}
	}
	var c cmdT
	if quit {
		c = cmdT{K: "quit"}
	} else {
		c = e.gen(e, w, evt, ph)
	}
	e.mu.Lock()
	e.calls = append(e.calls, callT{W: w, Ev: evt, Ph: ph})
	e.script = append(e.script, c)
	if c.K == "quit" {
		e.quitSeen = true
	}
	e.mu.Unlock()
	return e.goCmd(c)
}

func (e *env) goCmd(c cmdT) vxfw.Command {
	switch c.K {
	case "none":
		return nil
	case "redraw":
		return vxfw.RedrawCmd{}
	case "refresh":
		return vxfw.RefreshCmd{}
	case "quit":
		return vxfw.QuitCmd{}
	case "consume":
		return vxfw.ConsumeEventCmd{}
	case "debug":
		return vxfw.DebugCmd{}
	case "out":
		switch c.A {
		case 0:
			return vxfw.SetTitleCmd(fmt.Sprintf("t%d", c.B))
		case 1:
			return vxfw.CopyToClipboardCmd(fmt.Sprintf("c%d", c.B))
		case 2:
			return vxfw.SendNotificationCmd{Body: fmt.Sprintf("n%d", c.B)}
		default:
			return vxfw.SendNotificationCmd{Title: "T", Body: fmt.Sprintf("m%d", c.B)}
		}
	case "focus":
		return vxfw.FocusWidgetCmd(e.widgets[c.A])
	case "batch":
		l := make([]vxfw.Command, len(c.L))
		for i, x := range c.L {
			l[i] = e.goCmd(x)
		}
		if c.Slice {
			return l
		}
		return vxfw.BatchCmd(l)
	}
	panic("goCmd " + c.K)
}

func (e *env) build(n *node) vxfw.Surface {
	s := vxfw.Surface{Size: vxfw.Size{Width: uint16(n.W), Height: uint16(n.H)}, Widget: e.widgets[n.ID]}
	for _, k := range n.Kids {
		s.Children = append(s.Children, vxfw.SubSurface{
			Origin: vxfw.RelativePoint{Row: k.Row, Col: k.Col}, ZIndex: k.Z, Surface: e.build(k.N)})
	}
	return s
}

func (e *env) idOf(w vxfw.Widget) int {
	switch w := w.(type) {
	case *plainW:
		return w.id
	case *captW:
		return w.id
	}
	return -1
}

func newEnv(r *rand.Rand, universe int, capt map[int]bool, gen func(e *env, w int, ev evT, ph int) cmdT) *env {
	e := &env{r: r, widgets: map[int]vxfw.Widget{}, capt: capt, gen: gen,
		drawn: make(chan struct{}), goDraw: make(chan struct{}), reached: make(chan struct{}), release: make(chan struct{})}
	for i := 0; i < universe; i++ {
		if capt[i] {
			e.widgets[i] = &captW{plainW{i, e}}
		} else {
			e.widgets[i] = &plainW{i, e}
		}
	}
	return e
}

// parseOuts extracts the terminal commands of handleCommand from what was written
func parseOuts(b []byte) []cmdT {
	var outs []cmdT
	s := string(b)
	for {
		i := strings.Index(s, "\x1b]")
		if i < 0 {
			break
		}
		s = s[i+2:]
		j := strings.Index(s, "\x1b\\")
		if j < 0 {
			break
		}
		body := s[:j]
		s = s[j+2:]
		var n int
		switch {
		case strings.HasPrefix(body, "2;t"):
			if _, err := fmt.Sscanf(body, "2;t%d", &n); err == nil {
				outs = append(outs, cmdT{K: "out", A: 0, B: n})
			}
		case strings.HasPrefix(body, "52;c;"):
			dec, err := base64.StdEncoding.DecodeString(body[5:])
			if err == nil {
				if _, err := fmt.Sscanf(string(dec), "c%d", &n); err == nil {
					outs = append(outs, cmdT{K: "out", A: 1, B: n})
				}
			}
		case strings.HasPrefix(body, "9;n"):
			if _, err := fmt.Sscanf(body, "9;n%d", &n); err == nil {
				outs = append(outs, cmdT{K: "out", A: 2, B: n})
			}
		case strings.HasPrefix(body, "777;notify;T;m"):
			if _, err := fmt.Sscanf(body, "777;notify;T;m%d", &n); err == nil {
				outs = append(outs, cmdT{K: "out", A: 3, B: n})
			}
		}
	}
	return outs
}

// ---------------------------------------------------------------- generators

type treeOpts struct {
	overlap  bool // children may overlap (otherwise they tile the parent)
	dup      bool // a widget may appear on two surfaces
	foreign  bool // the root surface belongs to another widget than the App root
	huge     bool // sizes and offsets near the uint16 limits
	popup    bool // a full-size panel below floating surfaces that lie inside the parent (overlaps are the rule)
	universe int
	spare    int // the last [spare] ids of the universe are not used by genTree (wrappers, panels, swapped ancestors)
}

func genTree(r *rand.Rand, o treeOpts, rootID int) *node {
	o.universe -= o.spare
	next := 0
	fresh := func() int {
		if o.dup && next > 1 && r.Intn(5) == 0 {
			return r.Intn(min(next, o.universe))
		}
		for {
			id := next
			next++
			if id != rootID || o.dup {
				if id >= o.universe {
					return r.Intn(o.universe)
				}
				return id
			}
		}
	}
	var sub func(depth int, w, h int) []kid
	sub = func(depth int, w, h int) []kid {
		if depth <= 0 || r.Intn(5) == 0 {
			return nil
		}
		n := 1 + r.Intn(3)
		var ks []kid
		for i := 0; i < n; i++ {
			var k kid
			if o.popup && w > 0 && h > 0 {
				if i == 0 && r.Intn(4) != 0 {
					k.N = &node{W: w, H: h}
				} else {
					kw, kh := 1+r.Intn(w), 1+r.Intn(h)
					k.Col, k.Row = r.Intn(w-kw+1), r.Intn(h-kh+1)
					k.N = &node{W: kw, H: kh}
				}
			} else if o.overlap {
				k.Col = r.Intn(w+3) - 2
				k.Row = r.Intn(h+2) - 1
				kw, kh := r.Intn(w+2), r.Intn(h+2)
				k.N = &node{W: kw, H: kh}
			} else {
				// vertical strips
				sw := w / n
				k.Col = i * sw
				k.Row = r.Intn(2)
				kw := sw
				if r.Intn(4) == 0 && kw > 0 {
					kw--
				}
				k.N = &node{W: kw, H: h - k.Row}
				if k.N.H < 0 {
					k.N.H = 0
				}
			}
			if o.huge && r.Intn(3) == 0 {
				k.Col = -r.Intn(40000)
				k.N.W = 65535
			}
			switch r.Intn(3) {
			case 0:
				k.Z = 0
			default:
				k.Z = r.Intn(4) - 1
			}
			k.N.ID = fresh()
			k.N.Kids = sub(depth-1, k.N.W, k.N.H)
			ks = append(ks, k)
		}
		return ks
	}
	root := &node{W: 4 + r.Intn(9), H: 3 + r.Intn(6)}
	if o.huge {
		root.W, root.H = 65535, 65535
	}
	if o.foreign {
		root.ID = fresh()
	} else {
		root.ID = rootID
	}
	root.Kids = sub(1+r.Intn(4), min(root.W, 40), min(root.H, 20))
	return root
}

func min(a, b int) int {
	if a < b {
		return a
	}
	return b
}

// overlapAt: at some level of the surfaces under the cell at least two siblings contain it
func overlapAt(n *node, ox, oy, c, r int) bool {
	cnt := 0
	for _, k := range n.Kids {
		x, y := ox+k.Col, oy+k.Row
		if c >= x && c < x+k.N.W && r >= y && r < y+k.N.H {
			cnt++
			if overlapAt(k.N, x, y, c, r) {
				return true
			}
		}
	}
	return cnt >= 2
}

// overlapPoints lists the cells of the root surface (a window of 16x12 of it) that lie under
// overlapping siblings
func overlapPoints(t *node) [][2]int {
	var pts [][2]int
	for c := 0; c < min(t.W, 16); c++ {
		for r := 0; r < min(t.H, 12); r++ {
			if overlapAt(t, 0, 0, c, r) {
				pts = append(pts, [2]int{c, r})
			}
		}
	}
	return pts
}

// resized is the same frame with a root surface of another size (the children are shared)
func resized(r *rand.Rand, t *node) *node {
	c := *t
	for c.W == t.W && c.H == t.H {
		c.W, c.H = t.W+r.Intn(9)-4, t.H+r.Intn(7)-3
		if c.W < 1 {
			c.W = 1
		}
		if c.H < 1 {
			c.H = 1
		}
		if c.W > 65535 {
			c.W = 65535
		}
		if c.H > 65535 {
			c.H = 65535
		}
	}
	return &c
}

// pickBand picks a cell in the band between the extents of two root surfaces (or just
// inside / outside one of them)
func pickBand(r *rand.Rand, a, b *node) (int, int) {
	lo, hi := min(a.W, b.W), a.W+b.W-min(a.W, b.W)
	col := lo - 1 + r.Intn(hi-lo+2)
	lo, hi = min(a.H, b.H), a.H+b.H-min(a.H, b.H)
	row := lo - 1 + r.Intn(hi-lo+2)
	switch r.Intn(3) {
	case 0:
		row = r.Intn(min(a.H, b.H))
	case 1:
		col = r.Intn(min(a.W, b.W))
	}
	return col, row
}

func treeIDs(n *node, acc []int) []int {
	acc = append(acc, n.ID)
	for _, k := range n.Kids {
		acc = treeIDs(k.N, acc)
	}
	return acc
}

type cmdOpts struct {
	universe     int
	focusInOut   bool // focus commands may be returned from FocusOut handlers
	quitRate     int  // 1 in quitRate leaf commands is a quit (0 = never)
	captFocus    int  // percent of the capture-phase calls that answer with a focus command and do not consume
	focusTargets []int
}

func genLeaf(r *rand.Rand, o *cmdOpts, allowFocus bool) cmdT {
	x := r.Intn(100)
	switch {
	case x < 22:
		return cmdT{K: "redraw"}
	case x < 44:
		return cmdT{K: "consume"}
	case x < 50:
		return cmdT{K: "refresh"}
	case x < 54:
		return cmdT{K: "debug"}
	case x < 72:
		return cmdT{K: "out", A: r.Intn(4), B: r.Intn(3)}
	case x < 94:
		if !allowFocus {
			return cmdT{K: "redraw"}
		}
		if len(o.focusTargets) > 0 && r.Intn(4) != 0 {
			return cmdT{K: "focus", A: o.focusTargets[r.Intn(len(o.focusTargets))]}
		}
		return cmdT{K: "focus", A: r.Intn(o.universe)}
	case x < 97:
		return cmdT{K: "none"}
	default:
		if o.quitRate > 0 && r.Intn(o.quitRate) == 0 {
			return cmdT{K: "quit"}
		}
		return cmdT{K: "refresh"}
	}
}

func genCmd(r *rand.Rand, o *cmdOpts, depth int, allowFocus bool) cmdT {
	x := r.Intn(100)
	if x < 14 && depth > 0 {
		n := r.Intn(4)
		c := cmdT{K: "batch", Slice: r.Intn(3) == 0}
		for i := 0; i < n; i++ {
			c.L = append(c.L, genCmd(r, o, depth-1, allowFocus))
		}
		if r.Intn(3) == 0 { // vxfw.ConsumeAndRedraw()
			return cmdT{K: "batch", L: []cmdT{{K: "redraw"}, {K: "consume"}}}
		}
		return c
	}
	return genLeaf(r, o, allowFocus)
}

// scriptGen returns the command of one handler call
func scriptGen(o *cmdOpts, quiet int) func(e *env, w int, ev evT, ph int) cmdT {
	return func(e *env, w int, ev evT, ph int) cmdT {
		if e.r.Intn(100) < quiet {
			return cmdT{K: "none"}
		}
		if ph == 0 && o.captFocus > 0 && e.r.Intn(100) < o.captFocus {
			// a capturing ancestor moves the focus and lets the event through
			f := cmdT{K: "focus", A: e.r.Intn(o.universe)}
			if len(o.focusTargets) > 0 && e.r.Intn(5) != 0 {
				f.A = o.focusTargets[e.r.Intn(len(o.focusTargets))]
			}
			switch e.r.Intn(4) {
			case 0:
				return cmdT{K: "batch", L: []cmdT{{K: "redraw"}, f}}
			case 1:
				return cmdT{K: "batch", Slice: true, L: []cmdT{f, {K: "out", A: e.r.Intn(4), B: e.r.Intn(3)}}}
			}
			return f
		}
		allowFocus := true
		if ev.K == "focusout" && !o.focusInOut {
			allowFocus = false
		}
		// keep chains of focus changes finite: calls made deep inside a focus change
		// get fewer and fewer focus commands
		if (ev.K == "focusin" || ev.K == "focusout") && e.r.Intn(3) != 0 {
			allowFocus = false
		}
		return genCmd(e.r, o, 3, allowFocus)
	}
}

// ---------------------------------------------------------------- direct stream

type dcase struct {
	Class   string   `json:"class,omitempty"`
	Capt    []int    `json:"capturers"`
	Root    int      `json:"root"`
	Focus0  int      `json:"focused0"`
	Path0   []int    `json:"path0"`
	Script  []cmdT   `json:"script"`
	Inputs  []inputT `json:"inputs"`
	Obs     []obsT   `json:"obs"`
	tags    []string
	nontriv bool
}

func (c *dcase) term() string {
	steps := make([]string, len(c.Inputs))
	for i := range c.Inputs {
		o := c.Obs[i]
		steps[i] = hx.Tuple(coqInput(c.Inputs[i]), hx.Tuple(coqCalls(o.Calls), coqCmds(o.Outs), coqSnap(o.Snap)))
	}
	return hx.Tuple(hx.IntList(c.Capt), hx.Z(int64(c.Root)), hx.Z(int64(c.Focus0)), hx.IntList(c.Path0),
		coqCmds(c.Script), hx.List(steps))
}

type direct struct {
	e  *env
	v  *vxfw.VerifC15
	fc *hx.FakeConsole
}

func newDirect(e *env) *direct {
	fc := hx.NewFakeConsole(hx.ProfileFromMask(0, 24, 80))
	v, err := vxfw.VerifC15New(vaxis.Options{WithConsole: fc, NoSignals: true})
	if err != nil {
		panic(err)
	}
	return &direct{e: e, v: v, fc: fc}
}

// closeHangs counts Vaxis.Close calls that did not return (not this property's subject:
// the instance is abandoned and the run goes on)
var closeHangs int32

func (d *direct) close() {
	if !hx.WithTimeout(3*time.Second, d.v.Close) {
		atomic.AddInt32(&closeHangs, 1)
	}
}

func (d *direct) snap() snapT {
	s := d.v.Snapshot()
	out := snapT{Focused: d.e.idOf(s.Focused), Mouse: s.HasMouse, Redraw: s.Redraw, Refresh: s.Refresh,
		Quit: s.ShouldQuit, Consume: s.ConsumeEvent, Debug: s.Debug, Path: []int{}, Hits: []hitT{}}
	for _, w := range s.Path {
		out.Path = append(out.Path, d.e.idOf(w))
	}
	for _, h := range s.Hits {
		out.Hits = append(out.Hits, hitT{int(h.Col), int(h.Row), d.e.idOf(h.W)})
	}
	return out
}

func (d *direct) exec(i inputT) obsT {
	n0 := len(d.e.calls)
	var err error
	switch i.K {
	case "ev":
		err = d.v.FocusHandleEvent(goEvent(*i.Ev))
	case "mouse":
		err = d.v.MouseHandleEvent(vaxis.Mouse{Col: i.A, Row: i.B})
	case "update":
		err = d.v.MouseUpdate(d.e.build(i.T))
	case "updatepath":
		d.v.UpdatePath(d.e.build(i.T))
	case "setlast":
		d.v.SetLastFrame(d.e.build(i.T))
	case "render":
		s := d.e.build(i.T)
		d.v.Render(s)
		d.v.UpdatePath(s)
		d.v.SetLastFrame(s)
	case "mouseexit":
		err = d.v.MouseExit()
	case "clearmouse":
		d.v.ClearMouse()
	case "focus":
		err = d.v.FocusWidget(d.e.widgets[i.A])
	case "cmd":
		d.v.HandleCommand(d.e.goCmd(*i.C))
	default:
		panic("direct input " + i.K)
	}
	if err != nil {
		panic(err)
	}
	o := obsT{Calls: append([]callT{}, d.e.calls[n0:]...), Outs: parseOuts(d.fc.Take()), Snap: d.snap()}
	if o.Outs == nil {
		o.Outs = []cmdT{}
	}
	return o
}

type dplan struct {
	class     string
	tree      treeOpts
	cmds      cmdOpts
	quiet     int
	steps     int
	rerender  int // percent: re-render after a focus change
	captRate  int
	startBare bool
	family    string
	hotMouse  int // percent of the mouse events aimed at a cell under overlapping siblings (if there is one)
	resize    int // percent of the steps that are a redraw-path update with a root surface of another size
	swap      int // percent of the steps that are a tick showing a changed tree (ancestor swapped / wrapped / panel) while the pointer rests
}

func pickMouse(r *rand.Rand, t *node) (int, int) {
	if r.Intn(8) == 0 {
		switch r.Intn(4) {
		case 0:
			return -1, r.Intn(t.H + 1)
		case 1:
			return t.W, r.Intn(t.H + 1)
		case 2:
			return r.Intn(t.W + 1), t.H
		default:
			return r.Intn(t.W + 1), -1
		}
	}
	w, h := t.W, t.H
	if w > 14 && r.Intn(3) != 0 {
		w = 14
	}
	if h > 10 && r.Intn(3) != 0 {
		h = 10
	}
	if w == 0 || h == 0 {
		return 0, 0
	}
	return r.Intn(w), r.Intn(h)
}

func genDirect(r *rand.Rand, p dplan) *dcase {
	u := p.tree.universe
	capt := map[int]bool{}
	var captL []int
	for i := 0; i < u; i++ {
		if r.Intn(100) < p.captRate {
			capt[i] = true
			captL = append(captL, i)
		}
	}
	root := r.Intn(2)
	cmds := p.cmds
	e := newEnv(r, u, capt, nil)
	e.gen = scriptGen(&cmds, p.quiet)
	d := newDirect(e)
	defer d.close()
	c := &dcase{Class: p.class, Capt: captL, Root: root, Focus0: root, Path0: []int{root}}
	if c.Capt == nil {
		c.Capt = []int{}
	}
	d.v.SetFocusState(e.widgets[root], e.widgets[root], []vxfw.Widget{e.widgets[root]})
	d.fc.Take()
	cur := genTree(r, p.tree, root)
	cmds.focusTargets = treeIDs(cur, nil)
	add := func(i inputT) obsT {
		o := d.exec(i)
		c.Inputs = append(c.Inputs, i)
		c.Obs = append(c.Obs, o)
		return o
	}
	if !p.startBare {
		add(inputT{K: "render", T: cur})
	}
	lastFocus := root
	prev := cur       // the frame before the last change of the root surface's size
	var lastM *[2]int // where the mouse handler saw the pointer last
	for len(c.Inputs) < p.steps {
		var i inputT
		x := r.Intn(100)
		if p.swap > 0 && r.Intn(100) < p.swap {
			if lastM == nil {
				col, row := deepCell(r, cur)
				lastM = &[2]int{col, row}
				add(inputT{K: "mouse", A: col, B: row})
			}
			kind := r.Intn(2)
			if nt := changeTree(r, cur, lastM, lastFocus, u, capt, kind); nt != nil {
				// the frame case of App.Run with the pointer at rest
				cur = nt
				cmds.focusTargets = treeIDs(cur, nil)
				add(inputT{K: "update", T: cur})
				add(inputT{K: "render", T: cur})
				if r.Intn(4) != 0 {
					add(inputT{K: "mouse", A: lastM[0], B: lastM[1]})
				}
				continue
			}
		}
		if p.resize > 0 && r.Intn(100) < p.resize {
			// the frame case of App.Run after the root surface changed its size while the
			// pointer rests: update(new frame), then (mostly) render + updatePath + lastFrame
			nt := resized(r, cur)
			add(inputT{K: "update", T: nt})
			prev = cur
			if r.Intn(4) != 0 {
				cur = nt
				add(inputT{K: "render", T: cur})
			}
			continue
		}
		switch {
		case x < 60 && x >= 28 && p.resize > 0 && r.Intn(2) == 0:
			col, row := pickBand(r, prev, cur)
			i = inputT{K: "mouse", A: col, B: row}
		case x < 60 && x >= 28 && p.hotMouse > 0 && r.Intn(100) < p.hotMouse && len(overlapPoints(cur)) > 0:
			pts := overlapPoints(cur)
			pt := pts[r.Intn(len(pts))]
			i = inputT{K: "mouse", A: pt[0], B: pt[1]}
		case x < 28:
			k := r.Intn(5)
			if r.Intn(4) == 0 {
				k = -1 - r.Intn(3)
			}
			i = inputT{K: "ev", Ev: &evT{K: "key", A: k}}
			if r.Intn(30) == 0 {
				i.Ev = &evT{K: "init"}
			}
		case x < 60:
			col, row := pickMouse(r, cur)
			i = inputT{K: "mouse", A: col, B: row}
		case x < 66:
			if r.Intn(2) == 0 {
				cur = genTree(r, p.tree, root)
				cmds.focusTargets = treeIDs(cur, nil)
			}
			i = inputT{K: "render", T: cur}
		case x < 71:
			t := cur
			if r.Intn(2) == 0 {
				t = genTree(r, p.tree, root)
			}
			i = inputT{K: "update", T: t}
		case x < 74:
			i = inputT{K: "updatepath", T: cur}
		case x < 77:
			t := cur
			if r.Intn(2) == 0 {
				t = genTree(r, p.tree, root)
			}
			i = inputT{K: "setlast", T: t}
		case x < 81:
			i = inputT{K: "mouseexit"}
		case x < 83:
			i = inputT{K: "clearmouse"}
		case x < 90:
			ids := cmds.focusTargets
			w := ids[r.Intn(len(ids))]
			if r.Intn(6) == 0 {
				w = r.Intn(u)
			}
			i = inputT{K: "focus", A: w}
		default:
			cc := genCmd(r, &cmds, 3, true)
			i = inputT{K: "cmd", C: &cc}
		}
		if i.K == "mouse" {
			lastM = &[2]int{i.A, i.B}
		} else if i.K == "clearmouse" {
			lastM = nil
		}
		o := add(i)
		if o.Snap.Focused != lastFocus {
			lastFocus = o.Snap.Focused
			if r.Intn(100) < p.rerender {
				add(inputT{K: "render", T: cur})
			}
		}
	}
	c.Script = append([]cmdT{}, e.script...)
	if c.Script == nil {
		c.Script = []cmdT{}
	}
	c.nontriv = len(e.calls) > 0
	c.tags = directTags(c, p)
	return c
}

func directTags(c *dcase, p dplan) []string {
	tags := []string{}
	if p.tree.overlap {
		tags = append(tags, "tree:overlapping")
	} else {
		tags = append(tags, "tree:tiled")
	}
	if p.tree.dup {
		tags = append(tags, "tree:dup-widgets")
	}
	if p.tree.foreign {
		tags = append(tags, "tree:foreign-root-surface")
	}
	if p.tree.huge {
		tags = append(tags, "tree:uint16-limits")
	}
	if p.class != "" {
		tags = append(tags, "class:"+p.class)
	}
	if p.family != "" {
		tags = append(tags, "family:"+p.family)
	}
	if p.tree.popup {
		tags = append(tags, "tree:popup")
	}
	seen := map[string]bool{}
	for i, in := range c.Inputs {
		tags = append(tags, "in:"+in.K)
		for _, cl := range c.Obs[i].Calls {
			k := "call:" + cl.Ev.K + "/" + phaseNames[cl.Ph]
			if !seen[k] {
				seen[k] = true
				tags = append(tags, k)
			}
		}
	}
	consumed, focus, batch := false, false, false
	var walk func(c cmdT)
	walk = func(c cmdT) {
		switch c.K {
		case "consume":
			consumed = true
		case "focus":
			focus = true
		case "batch":
			batch = true
			for _, x := range c.L {
				walk(x)
			}
		}
	}
	for _, s := range c.Script {
		walk(s)
	}
	if consumed {
		tags = append(tags, "script:consume")
	}
	if focus {
		tags = append(tags, "script:focus")
	}
	if batch {
		tags = append(tags, "script:batch")
	}
	return tags
}

// ---------------------------------------------------------------- app stream

type acase struct {
	Class   string   `json:"class,omitempty"`
	Capt    []int    `json:"capturers"`
	Root    int      `json:"root"`
	Script  []cmdT   `json:"script"`
	Inputs  []inputT `json:"inputs"`
	Calls   []callT  `json:"calls"`
	Outs    []cmdT   `json:"outs"`
	Early   bool     `json:"quit_early"`
	tags    []string
	nontriv bool
}

func (c *acase) term() string {
	ins := make([]string, len(c.Inputs))
	for i := range c.Inputs {
		ins[i] = coqInput(c.Inputs[i])
	}
	return hx.Tuple(hx.IntList(c.Capt), hx.Z(int64(c.Root)), coqCmds(c.Script), hx.List(ins), coqCalls(c.Calls), coqCmds(c.Outs), hx.Bool(c.Early))
}

type aplan struct {
	class     string
	tree      treeOpts
	cmds      cmdOpts
	quiet     int
	segments  int
	perSeg    int
	termFocus bool
	captRate  int
}

const syncBase = 100000

type aseg struct {
	burst  []inputT
	redraw int   // which request ends the burst (0 Redraw, 1 Resize)
	tree   *node // what the root draws in the frame after the burst
}

type aplanned struct {
	class string
	root  int
	capt  []int
	uni   int
	t0    *node
	segs  []aseg // the last segment has no frame: it ends with the quit key
}

func planApp(r *rand.Rand, p aplan) aplanned {
	u := p.tree.universe
	pl := aplanned{class: p.class, uni: u, root: r.Intn(2)}
	for i := 0; i < u; i++ {
		if r.Intn(100) < p.captRate {
			pl.capt = append(pl.capt, i)
		}
	}
	cur := genTree(r, p.tree, pl.root)
	pl.t0 = cur
	for seg := 0; seg < p.segments; seg++ {
		var sg aseg
		for k := 0; k < p.perSeg; k++ {
			x := r.Intn(100)
			switch {
			case x < 35:
				kc := r.Intn(5) + 1
				if r.Intn(3) == 0 {
					kc = -1 - r.Intn(3)
				}
				sg.burst = append(sg.burst, inputT{K: "ev", Ev: &evT{K: "key", A: kc}})
			case x < 80 || !p.termFocus:
				col, row := pickMouse(r, cur)
				sg.burst = append(sg.burst, inputT{K: "mouse", A: col, B: row})
			case x < 90:
				sg.burst = append(sg.burst, inputT{K: "termfocusin"})
			default:
				sg.burst = append(sg.burst, inputT{K: "termfocusout"})
			}
		}
		sg.redraw = r.Intn(2)
		if r.Intn(2) == 0 {
			cur = genTree(r, p.tree, pl.root)
		}
		sg.tree = cur
		pl.segs = append(pl.segs, sg)
	}
	return pl
}

// execApp runs a real App.Run.  The history is a list of segments; each segment is a burst
// of events that is queued completely while the App goroutine is parked inside a handler
// (so no 8 ms gap can occur inside a burst), followed by a Redraw request and the frame
// the 8 ms timer then produces.  The root's first Draw of that frame parks the goroutine
// again until the next segment's first event is queued.
func execApp(r *rand.Rand, pl aplanned, gen func(e *env, w int, ev evT, ph int) cmdT, cmds *cmdOpts) *acase {
	capt := map[int]bool{}
	for _, w := range pl.capt {
		capt[w] = true
	}
	root := pl.root
	e := newEnv(r, pl.uni, capt, gen)
	c := &acase{Class: pl.class, Capt: pl.capt, Root: root}
	if c.Capt == nil {
		c.Capt = []int{}
	}
	fc := hx.NewFakeConsole(hx.ProfileFromMask(0, 24, 80))
	app, err := vxfw.NewApp(vaxis.Options{WithConsole: fc, NoSignals: true})
	if err != nil {
		panic(err)
	}
	fc.Take()
	cur := pl.t0
	if cmds != nil {
		cmds.focusTargets = treeIDs(cur, nil)
	}
	e.curTree = cur
	c.Inputs = append(c.Inputs, inputT{K: "start", T: cur})
	// vaxis.New leaves the initial Resize in the queue
	c.Inputs = append(c.Inputs, inputT{K: "redrawreq", A: 1})

	post := func(i inputT) {
		switch i.K {
		case "ev":
			app.PostEvent(goEvent(*i.Ev))
		case "mouse":
			app.PostEvent(vaxis.Mouse{Col: i.A, Row: i.B})
		case "termfocusin":
			app.PostEvent(vaxis.FocusIn{})
		case "termfocusout":
			app.PostEvent(vaxis.FocusOut{})
		case "redrawreq":
			if i.A == 0 {
				app.PostEvent(vaxis.Redraw{})
			} else {
				app.PostEvent(vaxis.Resize{Cols: 80, Rows: 24})
			}
		default:
			panic("app input " + i.K)
		}
		c.Inputs = append(c.Inputs, i)
	}
	keyIn := func(k int) inputT { return inputT{K: "ev", Ev: &evT{K: "key", A: k}} }

	// first sync key is queued before Run starts
	e.syncKey = syncBase
	post(keyIn(syncBase))
	done := make(chan error, 1)
	go func() { done <- app.Run(e.widgets[root]) }()

	finished := false
	wait := func(ch chan struct{}) bool {
		select {
		case <-ch:
			return true
		case err := <-done:
			if err != nil {
				panic(err)
			}
			finished = true
			return false
		case <-time.After(90 * time.Second):
			panic("app stream: the App goroutine did not reach the rendezvous")
		}
	}
	for seg := 0; seg < len(pl.segs) && !finished; seg++ {
		if !wait(e.reached) {
			break
		}
		// the App goroutine is parked in the handler of the sync key: queue the burst
		sg := pl.segs[seg]
		for _, in := range sg.burst {
			post(in)
		}
		if seg == len(pl.segs)-1 {
			e.mu.Lock()
			e.quitKey = syncBase + 999
			e.mu.Unlock()
			post(keyIn(syncBase + 999))
			e.release <- struct{}{}
			break
		}
		post(inputT{K: "redrawreq", A: sg.redraw})
		cur = sg.tree
		e.mu.Lock()
		if cmds != nil {
			cmds.focusTargets = treeIDs(cur, nil)
		}
		e.curTree = cur
		e.gateDraw = true
		e.mu.Unlock()
		c.Inputs = append(c.Inputs, inputT{K: "frame", T: cur})
		e.release <- struct{}{}
		if !wait(e.drawn) {
			break
		}
		// the frame has started and is parked in Draw: queue the next sync key
		e.mu.Lock()
		e.syncKey = syncBase + seg + 1
		e.mu.Unlock()
		post(keyIn(syncBase + seg + 1))
		e.goDraw <- struct{}{}
	}
	if !finished {
		select {
		case err := <-done:
			if err != nil {
				panic(err)
			}
		case <-time.After(8 * time.Second):
			// App.Run ends with vx.Close(); if a QuitCmd was returned and nothing
			// moves any more, Close is what hangs (not this property's subject)
			e.mu.Lock()
			seen, n := e.quitSeen, len(e.calls)
			e.mu.Unlock()
			time.Sleep(200 * time.Millisecond)
			e.mu.Lock()
			still := len(e.calls) == n
			e.mu.Unlock()
			if !seen || !still {
				panic("app stream: App.Run did not return after QuitCmd")
			}
			atomic.AddInt32(&closeHangs, 1)
		}
	}
	e.mu.Lock()
	defer e.mu.Unlock()
	c.Calls = append([]callT{}, e.calls...)
	c.Script = append([]cmdT{}, e.script...)
	c.Outs = parseOuts(fc.Take())
	if c.Outs == nil {
		c.Outs = []cmdT{}
	}
	if c.Script == nil {
		c.Script = []cmdT{}
	}
	// the forced QuitCmd of the last key was never needed: App.Run returned before the
	// end of the history
	c.Early = finished || e.quitKey != 0
	c.nontriv = len(c.Calls) > 2
	c.tags = []string{}
	for _, in := range c.Inputs {
		c.tags = append(c.tags, "in:"+in.K)
	}
	if pl.class != "" {
		c.tags = append(c.tags, "class:"+pl.class)
	}
	if c.Early {
		c.tags = append(c.tags, "quit-early")
	}
	return c
}

func runApp(r *rand.Rand, p aplan) *acase {
	cmds := p.cmds
	pl := planApp(r, p)
	return execApp(r, pl, scriptGen(&cmds, p.quiet), &cmds)
}

// fixedGen answers the k-th call with script[k] (nothing after the end)
func fixedGen(script []cmdT) func(e *env, w int, ev evT, ph int) cmdT {
	return func(e *env, w int, ev evT, ph int) cmdT {
		if k := len(e.calls); k < len(script) {
			return script[k]
		}
		return cmdT{K: "none"}
	}
}

// runDirectFixed replays a fixed history through the handlers
func runDirectFixed(class string, universe int, capt []int, root int, inputs []inputT, script []cmdT) *dcase {
	cm := map[int]bool{}
	for _, w := range capt {
		cm[w] = true
	}
	e := newEnv(rand.New(rand.NewSource(1)), universe, cm, fixedGen(script))
	d := newDirect(e)
	defer d.close()
	c := &dcase{Class: class, Capt: capt, Root: root, Focus0: root, Path0: []int{root}}
	if c.Capt == nil {
		c.Capt = []int{}
	}
	d.v.SetFocusState(e.widgets[root], e.widgets[root], []vxfw.Widget{e.widgets[root]})
	d.fc.Take()
	for _, i := range inputs {
		c.Inputs = append(c.Inputs, i)
		c.Obs = append(c.Obs, d.exec(i))
	}
	c.Script = append([]cmdT{}, e.script...)
	c.nontriv = len(e.calls) > 0
	c.tags = directTags(c, dplan{class: class})
	return c
}

// ---------------------------------------------------------------- main

func main() {
	os.Unsetenv("COLORTERM")
	cfg := hx.ParseFlags()
	r := cfg.Rand

	nDirect, nApp := 1200, 160
	if cfg.Thorough() {
		nDirect, nApp = 12000, 2000
	}

	direct := hx.NewStream("direct", "model.Route", "dcase", "c15_direct_mismatches", "c15_direct_violations")
	direct.ShardMax = 100
	// nine tenths random plans; the rest are three directed families (each still random in
	// trees, scripts and inputs): a capturing ancestor that moves the focus and lets the event
	// through; pointer events under overlapping siblings (popups over a panel); the redraw
	// path update(new frame) with a root surface of another size under a resting pointer
	nFam := nDirect / 20
	for n := 0; n < nDirect; n++ {
		p := dplan{
			tree:      treeOpts{overlap: r.Intn(2) == 0, foreign: r.Intn(8) == 0, huge: r.Intn(12) == 0, dup: r.Intn(15) == 0, universe: 5 + r.Intn(6)},
			cmds:      cmdOpts{focusInOut: r.Intn(12) == 0},
			quiet:     30 + r.Intn(60),
			steps:     6 + r.Intn(22),
			rerender:  75,
			captRate:  20 + r.Intn(50),
			startBare: r.Intn(10) == 0,
		}
		switch {
		case n >= nDirect-nFam:
			p.family = "capture-refocus"
			p.tree.dup, p.tree.huge = false, false
			p.cmds.captFocus = 30 + r.Intn(60)
			p.captRate = 50 + r.Intn(50)
			p.quiet = 50 + r.Intn(45)
			p.rerender = 50 + r.Intn(51)
		case n >= nDirect-2*nFam:
			p.family = "popup"
			p.tree.popup, p.tree.dup, p.tree.huge = true, false, false
			p.hotMouse = 50 + r.Intn(50)
			p.quiet = 60 + r.Intn(38)
		case n >= nDirect-3*nFam:
			p.family = "root-resize"
			p.tree.dup = false
			p.resize = 15 + r.Intn(30)
			p.quiet = 60 + r.Intn(38)
			p.startBare = false
		case n >= nDirect-4*nFam:
			// the tree changes between two ticks while the pointer rests: an ancestor of the
			// widget under the pointer is another widget at the same depth and offset (a widget
			// instance shared by two parents), a wrapper appears or goes, a panel comes or goes
			p.family = "tree-change"
			p.tree.dup, p.tree.huge, p.tree.overlap = false, false, r.Intn(4) == 0
			p.tree.universe = 8 + r.Intn(5)
			p.tree.spare = 3
			p.swap = 20 + r.Intn(30)
			p.quiet = 70 + r.Intn(28)
			p.startBare = false
		}
		p.cmds.universe = p.tree.universe
		c := genDirect(r, p)
		direct.Add(c.term(), c, c.nontriv, c.tags...)
	}

	appS := hx.NewStream("app", "model.Route", "acase", "c15_app_mismatches", "c15_app_violations")
	appS.ShardMax = 100
	type job struct {
		seed int64
		p    aplan
	}
	jobs := make([]job, nApp)
	for n := range jobs {
		p := aplan{
			tree:      treeOpts{overlap: r.Intn(2) == 0, foreign: r.Intn(8) == 0, dup: r.Intn(15) == 0, universe: 5 + r.Intn(6)},
			cmds:      cmdOpts{focusInOut: r.Intn(12) == 0, quitRate: 6},
			quiet:     30 + r.Intn(60),
			segments:  2 + r.Intn(4),
			perSeg:    1 + r.Intn(7),
			termFocus: r.Intn(3) == 0,
			captRate:  20 + r.Intn(50),
		}
		p.cmds.universe = p.tree.universe
		jobs[n] = job{seed: r.Int63(), p: p}
	}
	res := make([]*acase, nApp)
	var wg sync.WaitGroup
	sem := make(chan struct{}, 12)
	for n := range jobs {
		wg.Add(1)
		sem <- struct{}{}
		go func(n int) {
			defer wg.Done()
			defer func() { <-sem }()
			res[n] = runApp(rand.New(rand.NewSource(jobs[n].seed)), jobs[n].p)
		}(n)
	}
	wg.Wait()
	for _, c := range res {
		appS.Add(c.term(), c, c.nontriv, c.tags...)
	}

	// ---- frames stream: App.Run observed per input, ticks with two different layouts
	nFrames := 150
	if cfg.Thorough() {
		nFrames = 2000
	}
	framesS := hx.NewStream("frames", "model.Route", "fcase", "c15_frames_mismatches", "c15_frames_violations")
	framesS.ShardMax = 50
	{
		type fjob struct {
			seed int64
			p    fplan
		}
		fjobs := make([]fjob, nFrames)
		for n := range fjobs {
			fjobs[n] = fjob{seed: r.Int63(), p: fplan{
				universe: 8 + r.Intn(5), overlap: r.Intn(5) == 0, segments: 3 + r.Intn(4), perSeg: 1 + r.Intn(4),
				captRate: 30 + r.Intn(50), relayout: 30 + r.Intn(40), change: 20 + r.Intn(20),
				hoverRed: 30 + r.Intn(50), focusKey: 10 + r.Intn(25)}}
		}
		fres := make([]*fcase, nFrames)
		var fwg sync.WaitGroup
		fsem := make(chan struct{}, 12)
		for n := range fjobs {
			fwg.Add(1)
			fsem <- struct{}{}
			go func(n int) {
				defer fwg.Done()
				defer func() { <-fsem }()
				fres[n] = execFrames(rand.New(rand.NewSource(fjobs[n].seed)), fjobs[n].p)
			}(n)
		}
		fwg.Wait()
		for _, c := range fres {
			framesS.Add(c.term(), c, c.nontriv, c.tags...)
		}
	}

	// ---- finding streams: witnesses of the recorded findings replayed on the real code
	// (same histories as the ..._refuted theorems of props/C15.v) plus a few random
	// histories of the class; checked against the property WITHOUT the guards.
	key := func(k int) inputT { return inputT{K: "ev", Ev: &evT{K: "key", A: k}} }
	leaf := func(id, w, h int) *node { return &node{ID: id, W: w, H: h} }
	mkDirectKF := func(name, class string) *hx.Stream {
		st := hx.NewStream(name, "model.Route", "dcase", "c15_direct_mismatches", "c15_direct_strict_violations")
		st.Known, st.KnownClass = "c15_direct_all", class
		return st
	}
	nKF := 12
	if cfg.Thorough() {
		nKF = 120
	}
	randomDirect := func(st *hx.Stream, class string, mod func(p *dplan)) {
		for n := 0; n < nKF; n++ {
			p := dplan{class: class, tree: treeOpts{universe: 6}, quiet: 60, steps: 12, rerender: 100, captRate: 40}
			mod(&p)
			p.cmds.universe = p.tree.universe
			c := genDirect(r, p)
			st.Add(c.term(), c, c.nontriv, c.tags...)
		}
	}

	staleTree := &node{ID: 0, W: 10, H: 5, Kids: []kid{
		{Col: 0, Row: 0, N: &node{ID: 1, W: 5, H: 5, Kids: []kid{{N: leaf(2, 2, 2)}}}},
		{Col: 5, Row: 0, N: leaf(3, 5, 5)}}}
	kfStale := mkDirectKF("kf_stale", "stale-path")
	{
		c := runDirectFixed("stale-path", 4, nil, 0,
			[]inputT{{K: "render", T: staleTree}, {K: "focus", A: 2}, {K: "render", T: staleTree}, key(1), key(2)},
			[]cmdT{{K: "none"}, {K: "none"}, {K: "focus", A: 3}})
		kfStale.Add(c.term(), c, true, c.tags...)
		randomDirect(kfStale, "stale-path", func(p *dplan) { p.rerender = 0; p.quiet = 40 })
	}

	overlapTree := &node{ID: 0, W: 10, H: 5, Kids: []kid{{Col: 0, Row: 0, N: leaf(1, 6, 5)}, {Col: 4, Row: 0, N: leaf(2, 6, 5)}}}
	kfOverlap := mkDirectKF("kf_overlap", "overlap-siblings")
	{
		c := runDirectFixed("overlap-siblings", 3, []int{1}, 0,
			[]inputT{{K: "render", T: overlapTree}, {K: "mouse", A: 4, B: 0}}, nil)
		kfOverlap.Add(c.term(), c, true, c.tags...)
		randomDirect(kfOverlap, "overlap-siblings", func(p *dplan) { p.tree.overlap = true; p.cmds = cmdOpts{}; p.quiet = 95 })
	}

	kfFocusOut := mkDirectKF("kf_focusout", "focus-in-focusout")
	{
		c := runDirectFixed("focus-in-focusout", 3, nil, 0, []inputT{key(1)},
			[]cmdT{{K: "focus", A: 1}, {K: "focus", A: 2}})
		kfFocusOut.Add(c.term(), c, true, c.tags...)
		randomDirect(kfFocusOut, "focus-in-focusout", func(p *dplan) { p.cmds.focusInOut = true; p.quiet = 20 })
	}

	dupTree := &node{ID: 0, W: 5, H: 5, Kids: []kid{{N: &node{ID: 1, W: 5, H: 5, Kids: []kid{{N: leaf(1, 3, 3)}}}}}}
	kfDup := mkDirectKF("kf_dup", "dup-widget")
	{
		c := runDirectFixed("dup-widget", 2, nil, 0, []inputT{{K: "render", T: dupTree}, {K: "mouse", A: 0, B: 0}}, nil)
		kfDup.Add(c.term(), c, true, c.tags...)
		randomDirect(kfDup, "dup-widget", func(p *dplan) { p.tree.dup = true; p.cmds = cmdOpts{}; p.quiet = 95 })
	}

	kfTerm := hx.NewStream("kf_termfocus", "model.Route", "acase", "c15_app_mismatches", "c15_app_strict_violations")
	kfTerm.Known, kfTerm.KnownClass = "c15_app_all", "termfocus-enter"
	{
		t := leaf(0, 5, 5)
		for _, burst := range [][]inputT{
			{{K: "termfocusin"}, {K: "termfocusout"}},
			{{K: "termfocusin"}, {K: "mouse", A: 0, B: 0}},
		} {
			pl := aplanned{class: "termfocus-enter", root: 0, uni: 2, t0: t, segs: []aseg{{burst: burst}}}
			c := execApp(rand.New(rand.NewSource(1)), pl, fixedGen(nil), nil)
			kfTerm.Add(c.term(), c, true, c.tags...)
		}
		for n := 0; n < nKF; n++ {
			p := aplan{class: "termfocus-enter", tree: treeOpts{universe: 5}, quiet: 95, segments: 2, perSeg: 6, termFocus: true, captRate: 30}
			p.cmds.universe = 5
			c := runApp(rand.New(rand.NewSource(r.Int63())), p)
			kfTerm.Add(c.term(), c, c.nontriv, c.tags...)
		}
	}

	cfg.Write("C15",
		"direct: a case is nontrivial when at least one handler call was made; app, frames: when more than the two calls every history has were made; kf_*: the witnesses of the recorded findings and random histories of their class, checked without the guards",
		[]*hx.Stream{direct, appS, framesS, kfStale, kfOverlap, kfFocusOut, kfDup, kfTerm},
		map[string]interface{}{"direct_cases": nDirect, "app_cases": nApp, "frames_cases": nFrames, "vaxis_close_hangs_tolerated": int(atomic.LoadInt32(&closeHangs))}, nil)
}
