// Stream "frames" and the tree-change generators.
//
// A real App.Run on a fake console, like stream "app", but observed per input: every key of a
// history has its own code and no two non-key events are adjacent, so the calls of each input can
// be told apart in the log (the start of every tick and of every rendezvous key is known exactly:
// the App goroutine is parked there).  A tick's root widget may draw ANOTHER tree at the second
// layout of the tick (the layout App.Run repeats when an enter/leave handler called by
// mouseHandler.update asked for a redraw), and trees change between ticks while focus and pointer
// rest: a widget wrapped into / unwrapped from a (capturing) container, an ancestor replaced by
// another widget at the same depth and offset (= a widget instance shared by two parents), a panel
// appearing under or vanishing from under the pointer.
package main

import (
	"math/rand"
	"sync/atomic"
	"time"

	vaxis "git.sr.ht/~rockorager/vaxis"
	"git.sr.ht/~rockorager/vaxis/vxfw"
	"verif/harness/hx"
)

// ---------------------------------------------------------------- tree changes

func cloneNode(n *node) *node {
	c := *n
	c.Kids = make([]kid, len(n.Kids))
	for i, k := range n.Kids {
		c.Kids[i] = k
		c.Kids[i].N = cloneNode(k.N)
	}
	return &c
}

// chainUnder: one chain of surfaces under the cell, root first (at each level the last child
// that contains it)
func chainUnder(t *node, c, r int) []*node {
	if c < 0 || r < 0 || c >= t.W || r >= t.H {
		return nil
	}
	ch := []*node{t}
	n, ox, oy := t, 0, 0
	for {
		var next *node
		nx, ny := 0, 0
		for i := range n.Kids {
			k := &n.Kids[i]
			x, y := ox+k.Col, oy+k.Row
			if c >= x && c < x+k.N.W && r >= y && r < y+k.N.H {
				next, nx, ny = k.N, x, y
			}
		}
		if next == nil {
			return ch
		}
		ch = append(ch, next)
		n, ox, oy = next, nx, ny
	}
}

// chainTo: the surfaces from the root to the first surface of widget id
func chainTo(t *node, id int) []*node {
	if t.ID == id {
		return []*node{t}
	}
	for _, k := range t.Kids {
		if ch := chainTo(k.N, id); ch != nil {
			return append([]*node{t}, ch...)
		}
	}
	return nil
}

func hasDup(t *node) bool {
	seen := map[int]bool{}
	for _, id := range treeIDs(t, nil) {
		if seen[id] {
			return true
		}
		seen[id] = true
	}
	return false
}

func spareID(r *rand.Rand, t *node, universe int, prefer map[int]bool) int {
	used := map[int]bool{}
	for _, id := range treeIDs(t, nil) {
		used[id] = true
	}
	var free, pref []int
	for i := 0; i < universe; i++ {
		if !used[i] {
			free = append(free, i)
			if prefer[i] {
				pref = append(pref, i)
			}
		}
	}
	if len(pref) > 0 && r.Intn(4) != 0 {
		return pref[r.Intn(len(pref))]
	}
	if len(free) == 0 {
		return -1
	}
	return free[r.Intn(len(free))]
}

func replaceNode(t *node, target, repl *node) bool {
	for i := range t.Kids {
		if t.Kids[i].N == target {
			t.Kids[i].N = repl
			return true
		}
		if replaceNode(t.Kids[i].N, target, repl) {
			return true
		}
	}
	return false
}

// swapOn: a copy of t in which one surface of the chain (never the root surface, the last one
// only when inner is false) belongs to another widget, everything else (sizes, offsets, depth)
// unchanged.  nil when there is no such surface or no unused widget.
func swapOn(r *rand.Rand, t *node, chain func(*node) []*node, inner bool, universe int, capt map[int]bool) *node {
	c := cloneNode(t)
	ch := chain(c)
	hi := len(ch)
	if inner {
		hi--
	}
	if hi <= 1 {
		return nil
	}
	id := spareID(r, c, universe, capt)
	if id < 0 {
		return nil
	}
	ch[1+r.Intn(hi-1)].ID = id
	return c
}

// wrapOn: a copy of t in which one non-root surface of the chain is wrapped into a new surface
// of the same size at the same place (the chain gets one level deeper)
func wrapOn(r *rand.Rand, t *node, chain func(*node) []*node, universe int, capt map[int]bool) *node {
	c := cloneNode(t)
	ch := chain(c)
	if len(ch) < 2 {
		return nil
	}
	id := spareID(r, c, universe, capt)
	if id < 0 {
		return nil
	}
	tgt := ch[1+r.Intn(len(ch)-1)]
	w := &node{ID: id, W: tgt.W, H: tgt.H, Kids: []kid{{N: tgt}}}
	if !replaceNode(c, tgt, w) {
		return nil
	}
	return c
}

// unwrapOn: a copy of t without one inner surface of the chain that has exactly one child
// (the child takes its place)
func unwrapOn(r *rand.Rand, t *node, chain func(*node) []*node) *node {
	c := cloneNode(t)
	ch := chain(c)
	var cands []*node
	for i := 1; i < len(ch)-1; i++ {
		if len(ch[i].Kids) == 1 && ch[i].Kids[0].Col == 0 && ch[i].Kids[0].Row == 0 {
			cands = append(cands, ch[i])
		}
	}
	if len(cands) == 0 {
		return nil
	}
	tgt := cands[r.Intn(len(cands))]
	if !replaceNode(c, tgt, tgt.Kids[0].N) {
		return nil
	}
	return c
}

// panelAt: a copy of t with a new surface of the root that covers the cell
func panelAt(r *rand.Rand, t *node, c, row int, universe int, capt map[int]bool) *node {
	if c < 0 || row < 0 || c >= t.W || row >= t.H {
		return nil
	}
	cp := cloneNode(t)
	id := spareID(r, cp, universe, capt)
	if id < 0 {
		return nil
	}
	dx, dy := r.Intn(3), r.Intn(2)
	cp.Kids = append(cp.Kids, kid{Col: c - dx, Row: row - dy, Z: r.Intn(3), N: &node{ID: id, W: dx + 1 + r.Intn(3), H: dy + 1 + r.Intn(2)}})
	return cp
}

// dropUnder: a copy of t without the deepest surface under the cell
func dropUnder(t *node, c, row int) *node {
	cp := cloneNode(t)
	ch := chainUnder(cp, c, row)
	if len(ch) < 2 {
		return nil
	}
	par, tgt := ch[len(ch)-2], ch[len(ch)-1]
	for i := range par.Kids {
		if par.Kids[i].N == tgt {
			par.Kids = append(par.Kids[:i:i], par.Kids[i+1:]...)
			return cp
		}
	}
	return nil
}

// changeTree: one of the tree changes; under = the pointer (nil: unknown), focus = the widget
// believed to hold the focus.  kind: 0 ancestor swap under the pointer (same depth), 1 any.
func changeTree(r *rand.Rand, t *node, under *[2]int, focus int, universe int, capt map[int]bool, kind int) *node {
	ptr := func(n *node) []*node {
		if under == nil {
			return nil
		}
		return chainUnder(n, under[0], under[1])
	}
	foc := func(n *node) []*node { return chainTo(n, focus) }
	for try := 0; try < 6; try++ {
		var nt *node
		x := r.Intn(10)
		if kind == 0 {
			x = 0
		}
		switch {
		case x < 2:
			nt = swapOn(r, t, ptr, true, universe, capt)
		case x < 4:
			nt = swapOn(r, t, foc, true, universe, capt)
		case x < 6:
			nt = wrapOn(r, t, foc, universe, capt)
		case x < 7:
			nt = wrapOn(r, t, ptr, universe, capt)
		case x < 8:
			if r.Intn(2) == 0 {
				nt = unwrapOn(r, t, foc)
			} else {
				nt = unwrapOn(r, t, ptr)
			}
		case x < 9:
			if under != nil {
				nt = panelAt(r, t, under[0], under[1], universe, capt)
			}
		default:
			if under != nil {
				nt = dropUnder(t, under[0], under[1])
			}
		}
		if nt != nil && !hasDup(nt) {
			return nt
		}
		if kind == 0 {
			return nil
		}
	}
	return nil
}

// hoverChange: a copy of t with another set of widgets under the pointer
func hoverChange(r *rand.Rand, t *node, under [2]int, universe int, capt map[int]bool) *node {
	for try := 0; try < 6; try++ {
		var nt *node
		switch r.Intn(4) {
		case 0:
			nt = dropUnder(t, under[0], under[1])
		case 1:
			nt = swapOn(r, t, func(n *node) []*node { return chainUnder(n, under[0], under[1]) }, r.Intn(2) == 0, universe, capt)
		default:
			nt = panelAt(r, t, under[0], under[1], universe, capt)
		}
		if nt != nil && !hasDup(nt) {
			return nt
		}
	}
	return nil
}

func genTreeNoDup(r *rand.Rand, o treeOpts, rootID int) *node {
	for {
		t := genTree(r, o, rootID)
		if !hasDup(t) {
			return t
		}
	}
}

// deepCell: a cell under a chain of at least three surfaces if there is one (else any cell)
func deepCell(r *rand.Rand, t *node) (int, int) {
	var best [][2]int
	depth := 0
	for c := 0; c < min(t.W, 16); c++ {
		for row := 0; row < min(t.H, 12); row++ {
			d := len(chainUnder(t, c, row))
			if d > depth {
				depth, best = d, nil
			}
			if d == depth {
				best = append(best, [2]int{c, row})
			}
		}
	}
	if len(best) == 0 {
		return 0, 0
	}
	p := best[r.Intn(len(best))]
	return p[0], p[1]
}

// ---------------------------------------------------------------- frames stream

type fstepT struct {
	In    inputT  `json:"in"`
	Calls []callT `json:"calls"`
	Lay   int     `json:"layouts"`
}

type fcase struct {
	Class   string   `json:"class,omitempty"`
	Capt    []int    `json:"capturers"`
	Root    int      `json:"root"`
	Script  []cmdT   `json:"script"`
	Steps   []fstepT `json:"steps"`
	tags    []string
	nontriv bool
}

func coqFInput(i inputT) string {
	if i.K == "frame2" {
		return "FFrame2 (" + coqTree(i.T) + ") (" + coqTree(i.T2) + ")"
	}
	return "FI (" + coqInput(i) + ")"
}

func (c *fcase) term() string {
	steps := make([]string, len(c.Steps))
	for i, s := range c.Steps {
		steps[i] = hx.Tuple(coqFInput(s.In), hx.Tuple(coqCalls(s.Calls), hx.Z(int64(s.Lay))))
	}
	return hx.Tuple(hx.IntList(c.Capt), hx.Z(int64(c.Root)), coqCmds(c.Script), hx.List(steps))
}

type fplan struct {
	universe int
	overlap  bool
	segments int
	perSeg   int
	captRate int
	relayout int // percent of the ticks whose two layouts differ
	change   int // percent of the other ticks that show a changed tree
	hoverRed int // percent of the enter/leave handlers that ask for a redraw
	focusKey int // percent of the target-phase key handlers that move the focus
}

// framesGen: mostly quiet handlers; enter/leave handlers ask for a redraw, key handlers move the
// focus into the tree
func framesGen(p *fplan, targets *[]int) func(e *env, w int, ev evT, ph int) cmdT {
	return func(e *env, w int, ev evT, ph int) cmdT {
		r := e.r
		focus := func() cmdT {
			if len(*targets) > 0 && r.Intn(6) != 0 {
				return cmdT{K: "focus", A: (*targets)[r.Intn(len(*targets))]}
			}
			return cmdT{K: "focus", A: r.Intn(p.universe)}
		}
		switch ev.K {
		case "enter", "leave":
			x := r.Intn(100)
			switch {
			case x < p.hoverRed:
				return cmdT{K: "redraw"}
			case x < p.hoverRed+8:
				return cmdT{K: "batch", Slice: r.Intn(2) == 0, L: []cmdT{{K: "out", A: r.Intn(4), B: r.Intn(3)}, {K: "redraw"}}}
			case x < p.hoverRed+12:
				return focus()
			case x < p.hoverRed+16:
				return cmdT{K: "consume"}
			}
			return cmdT{K: "none"}
		case "focusin", "focusout":
			if r.Intn(8) == 0 {
				return cmdT{K: "redraw"}
			}
			if ev.K == "focusin" && r.Intn(25) == 0 {
				return focus()
			}
			return cmdT{K: "none"}
		case "key", "init":
			x := r.Intn(100)
			switch {
			case ph == 1 && x < p.focusKey:
				if r.Intn(3) == 0 {
					return cmdT{K: "batch", L: []cmdT{focus(), {K: "redraw"}}}
				}
				return focus()
			case x < p.focusKey+8:
				return cmdT{K: "consume"}
			case x < p.focusKey+14:
				return cmdT{K: "redraw"}
			case x < p.focusKey+18:
				return cmdT{K: "out", A: r.Intn(4), B: r.Intn(3)}
			case x < p.focusKey+20:
				return cmdT{K: "refresh"}
			}
			return cmdT{K: "none"}
		default: // mouse
			x := r.Intn(100)
			switch {
			case x < 8:
				return cmdT{K: "consume"}
			case x < 12:
				return focus()
			case x < 18:
				return cmdT{K: "redraw"}
			}
			return cmdT{K: "none"}
		}
	}
}

func isKeyCall(c callT) bool   { return c.Ev.K == "key" }
func isFocusCall(c callT) bool { return c.Ev.K == "focusin" || c.Ev.K == "focusout" }

// execFrames runs one history under the real App.Run
func execFrames(r *rand.Rand, p fplan) *fcase {
	u := p.universe
	capt := map[int]bool{}
	c := &fcase{Capt: []int{}, Root: r.Intn(2)}
	for i := 0; i < u; i++ {
		if r.Intn(100) < p.captRate {
			capt[i] = true
			c.Capt = append(c.Capt, i)
		}
	}
	root := c.Root
	var targets []int
	e := newEnv(r, u, capt, nil)
	e.gen = framesGen(&p, &targets)
	fc := hx.NewFakeConsole(hx.ProfileFromMask(0, 24, 80))
	app, err := vxfw.NewApp(vaxis.Options{WithConsole: fc, NoSignals: true})
	if err != nil {
		panic(err)
	}
	fc.Take()
	topts := treeOpts{universe: u, spare: 3, overlap: p.overlap}
	cur := genTreeNoDup(r, topts, root)
	targets = treeIDs(cur, nil)
	e.curTree = cur

	var inputs []inputT
	var hard []int // known index of the first call of the input, -1 = unknown
	var lays []int
	add := func(i inputT, h int) int {
		inputs = append(inputs, i)
		hard = append(hard, h)
		lays = append(lays, 0)
		return len(inputs) - 1
	}
	add(inputT{K: "start", T: cur}, 0)
	add(inputT{K: "redrawreq", A: 1}, -1) // vaxis.New leaves the initial Resize in the queue
	post := func(i inputT) {
		switch i.K {
		case "ev":
			app.PostEvent(goEvent(*i.Ev))
		case "mouse":
			app.PostEvent(vaxis.Mouse{Col: i.A, Row: i.B})
		case "termfocusout":
			app.PostEvent(vaxis.FocusOut{})
		case "redrawreq":
			if i.A == 0 {
				app.PostEvent(vaxis.Redraw{})
			} else {
				app.PostEvent(vaxis.Resize{Cols: 80, Rows: 24})
			}
		default:
			panic("frames input " + i.K)
		}
	}
	keyIn := func(k int) inputT { return inputT{K: "ev", Ev: &evT{K: "key", A: k}} }
	nextKey := 1
	freshKey := func() inputT {
		k := nextKey
		nextKey++
		if r.Intn(3) == 0 {
			k = -k
		}
		return keyIn(k)
	}

	e.syncKey = syncBase
	syncIdx := add(keyIn(syncBase), -1)
	post(keyIn(syncBase))
	done := make(chan error, 1)
	go func() { done <- app.Run(e.widgets[root]) }()
	wait := func(ch chan struct{}) {
		select {
		case <-ch:
		case err := <-done:
			panic(fmt_err("frames stream: App.Run returned early", err))
		case <-time.After(90 * time.Second):
			panic("frames stream: the App goroutine did not reach the rendezvous")
		}
	}
	nCalls := func() int {
		e.mu.Lock()
		defer e.mu.Unlock()
		return len(e.calls)
	}
	focusGuess := func() int {
		e.mu.Lock()
		defer e.mu.Unlock()
		for i := len(e.calls) - 1; i >= 0; i-- {
			if e.calls[i].Ev.K == "focusin" {
				return e.calls[i].W
			}
		}
		return root
	}
	var ptr *[2]int
	frameIdx := -1
	var alt *node // the tree of the first layout of the last tick
	relaid := false
	for seg := 0; seg < p.segments; seg++ {
		wait(e.reached)
		hard[syncIdx] = nCalls()
		if frameIdx >= 0 {
			e.mu.Lock()
			lays[frameIdx] = e.frameDraws
			e.mu.Unlock()
			if lays[frameIdx] < 2 && alt != nil {
				cur = alt
			}
			if lays[frameIdx] == 2 {
				relaid = true
			}
			targets = treeIDs(cur, nil)
		}
		// the burst: no two non-key events next to each other
		n := 1 + r.Intn(p.perSeg)
		lastKey := true
		for k := 0; k < n; k++ {
			x := r.Intn(100)
			var in inputT
			switch {
			case x < 40:
				in = freshKey()
			case x < 92:
				col, row := pickMouse(r, cur)
				switch y := r.Intn(10); {
				case y < 4:
					col, row = deepCell(r, cur)
				case y < 7 && ptr != nil:
					col, row = ptr[0], ptr[1]
				}
				in = inputT{K: "mouse", A: col, B: row}
				ptr = &[2]int{col, row}
			default:
				in = inputT{K: "termfocusout"}
				ptr = nil
			}
			if in.K != "ev" && !lastKey {
				sep := freshKey()
				add(sep, -1)
				post(sep)
			}
			lastKey = in.K == "ev"
			add(in, -1)
			post(in)
		}
		if seg == p.segments-1 {
			e.mu.Lock()
			e.quitKey = syncBase + 999
			e.mu.Unlock()
			add(keyIn(syncBase+999), -1)
			post(keyIn(syncBase + 999))
			e.release <- struct{}{}
			break
		}
		rr := inputT{K: "redrawreq", A: r.Intn(2)}
		add(rr, -1)
		post(rr)
		// the tick
		t1, t2 := cur, cur
		fg := focusGuess()
		switch x := r.Intn(100); {
		case x < p.relayout:
			if ptr != nil {
				if nt := hoverChange(r, cur, *ptr, u, capt); nt != nil {
					t1 = nt
				}
			}
			base := cur
			if r.Intn(2) == 0 {
				base = t1
			}
			t2 = base
			if nt := changeTree(r, base, ptr, fg, u, capt, 1); nt != nil {
				t2 = nt
			}
		case x < p.relayout+p.change:
			kind := 1
			if r.Intn(3) == 0 {
				kind = 0
			}
			if nt := changeTree(r, cur, ptr, fg, u, capt, kind); nt != nil {
				t1, t2 = nt, nt
			}
		case x < p.relayout+p.change+10:
			t1 = genTreeNoDup(r, topts, root)
			t2 = t1
		}
		alt, cur = t1, t2
		e.mu.Lock()
		e.curTree, e.curTree2 = t1, t2
		e.gateDraw = true
		e.mu.Unlock()
		frameIdx = add(inputT{K: "frame2", T: t1, T2: t2}, -1)
		e.release <- struct{}{}
		wait(e.drawn)
		hard[frameIdx] = nCalls()
		e.mu.Lock()
		e.syncKey = syncBase + seg + 1
		e.mu.Unlock()
		syncIdx = add(keyIn(syncBase+seg+1), -1)
		post(keyIn(syncBase + seg + 1))
		e.goDraw <- struct{}{}
	}
	select {
	case err := <-done:
		if err != nil {
			panic(err)
		}
	case <-time.After(8 * time.Second):
		// App.Run ends with vx.Close(); when that hangs (not this property's subject) the
		// history is complete all the same once nothing moves any more
		n := nCalls()
		time.Sleep(200 * time.Millisecond)
		e.mu.Lock()
		seen := e.quitSeen
		e.mu.Unlock()
		if !seen || nCalls() != n {
			panic("frames stream: App.Run did not return after QuitCmd")
		}
		atomic.AddInt32(&closeHangs, 1)
	}
	e.mu.Lock()
	defer e.mu.Unlock()
	c.Script = append([]cmdT{}, e.script...)
	// the calls of each input
	calls := e.calls
	nextHard := func(j int) int {
		for k := j + 1; k < len(inputs); k++ {
			if hard[k] >= 0 {
				return hard[k]
			}
		}
		return len(calls)
	}
	pos := 0
	for j, in := range inputs {
		if hard[j] >= 0 {
			if pos < hard[j] && j > 0 {
				// cannot happen when the segmentation rule is right; keep the calls
				// (the comparison with the model then fails)
				c.Steps[j-1].Calls = append(c.Steps[j-1].Calls, calls[pos:hard[j]]...)
			}
			pos = hard[j]
		}
		lim := nextHard(j)
		from := pos
		switch {
		case in.K == "ev":
			for pos < lim && ((isKeyCall(calls[pos]) && calls[pos].Ev.A == in.Ev.A) || (pos > from && isFocusCall(calls[pos]))) {
				pos++
			}
		case in.K == "redrawreq":
		default:
			for pos < lim && !isKeyCall(calls[pos]) {
				pos++
			}
		}
		c.Steps = append(c.Steps, fstepT{In: in, Calls: append([]callT{}, calls[from:pos]...), Lay: lays[j]})
	}
	if pos < len(calls) {
		last := &c.Steps[len(c.Steps)-1]
		last.Calls = append(last.Calls, calls[pos:]...)
	}
	c.nontriv = len(calls) > 2
	c.tags = []string{}
	for _, s := range c.Steps {
		c.tags = append(c.tags, "in:"+s.In.K)
		if s.In.K == "frame2" {
			c.tags = append(c.tags, map[int]string{0: "tick:no-layout", 1: "tick:one-layout", 2: "tick:two-layouts"}[s.Lay])
			if s.Lay == 2 && !sameTree(s.In.T, s.In.T2) {
				c.tags = append(c.tags, "tick:two-different-layouts")
			}
		}
	}
	if relaid {
		c.tags = append(c.tags, "history:relayout")
	}
	return c
}

func sameTree(a, b *node) bool { return coqTree(a) == coqTree(b) }

func fmt_err(s string, err error) string {
	if err != nil {
		return s + ": " + err.Error()
	}
	return s
}
