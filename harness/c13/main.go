// Harness for C13: hands keys, paste boundaries and mouse events to the real
// embedded terminal (widgets/term, Model.Update on a PTY stand-in, modes set
// through the emulator's own DECSET/DECRST/keypad dispatch), records the bytes
// written towards the child, feeds them to a real Vaxis (fake console) and
// records the events that Vaxis posts.  Writes Coq case files for
// model/TermKeys.v and model/TermMouse.v.
package main

import (
	"bytes"
	"fmt"
	"os"
	"sort"
	"strconv"
	"strings"
	"time"
	"unicode"

	vaxis "git.sr.ht/~rockorager/vaxis"
	"git.sr.ht/~rockorager/vaxis/ansi"
	"git.sr.ht/~rockorager/vaxis/widgets/term"
	"github.com/rivo/uniseg"
	"verif/harness/hx"
)

// ---------- the unicode oracle, from Go's own tables (format of model/Keys.v) ----------

func foldRep(r rune) rune {
	if r < 0 || r > unicode.MaxRune {
		return r
	}
	min := r
	for x := unicode.SimpleFold(r); x != r; x = unicode.SimpleFold(x) {
		if x < min {
			min = x
		}
	}
	return min
}

func infoTerm(r rune) string {
	f := 0
	if unicode.IsUpper(r) {
		f |= 1
	}
	if unicode.IsLower(r) {
		f |= 2
	}
	if unicode.IsLetter(r) {
		f |= 4
	}
	if unicode.IsGraphic(r) {
		f |= 8
	}
	if unicode.IsPrint(r) {
		f |= 16
	}
	return hx.Tuple(hx.Z(int64(f)), hx.Z(int64(unicode.ToUpper(r))), hx.Z(int64(unicode.ToLower(r))), hx.Z(int64(foldRep(r))))
}

func utab(rs []rune) string {
	set := map[rune]bool{}
	var add func(r rune, depth int)
	add = func(r rune, depth int) {
		if r >= 0 && r < 128 || r < 0 || r > unicode.MaxRune || set[r] {
			return
		}
		set[r] = true
		if depth > 0 {
			add(unicode.ToUpper(r), depth-1)
			add(unicode.ToLower(r), depth-1)
		}
	}
	for _, r := range rs {
		add(r, 2)
	}
	keys := make([]rune, 0, len(set))
	for r := range set {
		keys = append(keys, r)
	}
	sort.Slice(keys, func(i, j int) bool { return keys[i] < keys[j] })
	items := make([]string, len(keys))
	for i, r := range keys {
		items[i] = hx.Tuple(hx.Z(int64(r)), infoTerm(r))
	}
	return hx.List(items)
}

// ---------- Coq printers ----------

func keyTerm(k vaxis.Key) string {
	return fmt.Sprintf("(mkKey %s %s %s %s %s %s)", hx.Runes(k.Text), hx.Z(int64(k.Keycode)), hx.Z(int64(k.ShiftedCode)),
		hx.Z(int64(k.BaseLayoutCode)), hx.Z(int64(k.Modifiers)), hx.Z(int64(k.EventType)))
}

func keyJSON(k vaxis.Key) map[string]interface{} {
	return map[string]interface{}{"text": k.Text, "keycode": k.Keycode, "shifted": k.ShiftedCode, "base": k.BaseLayoutCode,
		"mods": int(k.Modifiers), "event": int(k.EventType)}
}

func mouseTerm(m vaxis.Mouse) string {
	return fmt.Sprintf("(mkMouse %s %s %s %s %s)", hx.Z(int64(m.Button)), hx.Z(int64(m.Row)), hx.Z(int64(m.Col)),
		hx.Z(int64(m.EventType)), hx.Z(int64(m.Modifiers)))
}

func mouseJSON(m vaxis.Mouse) map[string]interface{} {
	return map[string]interface{}{"button": int(m.Button), "row": m.Row, "col": m.Col, "type": int(m.EventType), "mods": int(m.Modifiers)}
}

func opsTerm(ops []term.VerifC13ModeOp) string {
	items := make([]string, len(ops))
	for i, op := range ops {
		switch op.Kind {
		case 'h':
			items[i] = "OpSet " + hx.Z(int64(op.N))
		case 'l':
			items[i] = "OpReset " + hx.Z(int64(op.N))
		case '=':
			items[i] = "OpKpam"
		default:
			items[i] = "OpKpnm"
		}
	}
	return hx.List(items)
}

func opsJSON(ops []term.VerifC13ModeOp) []string {
	out := make([]string, len(ops))
	for i, op := range ops {
		switch op.Kind {
		case 'h', 'l':
			out[i] = fmt.Sprintf("CSI ? %d %c", op.N, op.Kind)
		default:
			out[i] = fmt.Sprintf("ESC %c", op.Kind)
		}
	}
	return out
}

func modesTerm(m term.VerifC13Modes) string {
	return fmt.Sprintf("(mkModes %s %s %s %s %s %s %s %s %s)", hx.Bool(m.Deckpam), hx.Bool(m.Decckm), hx.Bool(m.Paste),
		hx.Bool(m.MouseButtons), hx.Bool(m.MouseDrag), hx.Bool(m.MouseMotion), hx.Bool(m.MouseSGR), hx.Bool(m.AltScroll), hx.Bool(m.Smcup))
}

func eventsTerm(evs []vaxis.Event) string {
	items := make([]string, len(evs))
	for i, ev := range evs {
		switch ev := ev.(type) {
		case vaxis.Key:
			items[i] = "HKey " + keyTerm(ev)
		case vaxis.Mouse:
			items[i] = "HMouse " + mouseTerm(ev)
		case vaxis.PasteStartEvent:
			items[i] = "HPasteStart"
		case vaxis.PasteEndEvent:
			items[i] = "HPasteEnd"
		case vaxis.FocusIn:
			items[i] = "HFocusIn"
		case vaxis.FocusOut:
			items[i] = "HFocusOut"
		default:
			items[i] = "HInternal"
		}
	}
	return hx.List(items)
}

func eventsJSON(evs []vaxis.Event) []interface{} {
	out := make([]interface{}, len(evs))
	for i, ev := range evs {
		switch ev := ev.(type) {
		case vaxis.Key:
			out[i] = map[string]interface{}{"key": keyJSON(ev)}
		case vaxis.Mouse:
			out[i] = map[string]interface{}{"mouse": mouseJSON(ev)}
		default:
			out[i] = fmt.Sprintf("%T", ev)
		}
	}
	return out
}

// ---------- the host side: a real Vaxis on a fake console ----------

type host struct {
	fc     *hx.FakeConsole
	vx     *vaxis.Vaxis
	direct []hx.DirectViolation
	reads  int
	pauses int
}

const sentinel = "\x1b[I"

func newHost() *host {
	os.Unsetenv("COLORTERM")
	fc := hx.NewFakeConsole(hx.ProfileFromMask(0, 24, 80))
	vx, err := vaxis.New(vaxis.Options{WithConsole: fc, NoSignals: true})
	if err != nil {
		panic(err)
	}
	h := &host{fc: fc, vx: vx}
	// drain whatever start-up posted
	if _, ok := h.read(nil, false); !ok {
		panic("the start-up sentinel never arrived")
	}
	return h
}

// read injects the bytes, then (after a pause longer than the Escape timer when
// pause is set) a focus-in report, and returns the events posted before it.
func (h *host) read(b []byte, pause bool) ([]vaxis.Event, bool) {
	h.reads++
	if pause {
		h.pauses++
		h.fc.Inject(b)
		time.Sleep(45 * time.Millisecond)
		h.fc.InjectString(sentinel)
	} else {
		h.fc.Inject(append(append([]byte(nil), b...), sentinel...))
	}
	var evs []vaxis.Event
	deadline := time.After(3 * time.Second)
	for {
		select {
		case ev := <-h.vx.Events():
			if _, ok := ev.(vaxis.FocusIn); ok {
				return evs, true
			}
			evs = append(evs, ev)
		case <-deadline:
			return evs, false
		}
	}
}

// ---------- the embedded terminal ----------

func runTerm(ops []term.VerifC13ModeOp, ev vaxis.Event) (term.VerifC13Modes, []byte) {
	t, err := term.VerifC13New()
	if err != nil {
		panic(err)
	}
	t.Apply(ops)
	md := t.Modes()
	return md, t.Update(ev)
}

type harness struct {
	cfg  *hx.Config
	host *host
	keys *hx.Stream
	mice *hx.Stream
	pads *hx.Stream
	kids *hx.Stream
	hist *hx.Stream
	cuts *hx.Stream
}

func (h *harness) pick(n int) int { return h.cfg.Rand.Intn(n) }

// ops that bring a fresh emulator to the given keypad / cursor-key modes, with
// some irrelevant or redundant control functions mixed in
func (h *harness) keyOps(kp, ck bool) []term.VerifC13ModeOp {
	var ops []term.VerifC13ModeOp
	switch h.pick(4) {
	case 0:
		ops = append(ops, term.VerifC13ModeOp{Kind: 'h', N: 25})
	case 1:
		ops = append(ops, term.VerifC13ModeOp{Kind: 'h', N: 1}, term.VerifC13ModeOp{Kind: '='})
	case 2:
		ops = append(ops, term.VerifC13ModeOp{Kind: 'l', N: 1}, term.VerifC13ModeOp{Kind: '>'})
	}
	if kp {
		ops = append(ops, term.VerifC13ModeOp{Kind: '='})
	} else if len(ops) > 0 {
		ops = append(ops, term.VerifC13ModeOp{Kind: '>'})
	}
	if ck {
		ops = append(ops, term.VerifC13ModeOp{Kind: 'h', N: 1})
	} else if len(ops) > 0 {
		ops = append(ops, term.VerifC13ModeOp{Kind: 'l', N: 1})
	}
	if h.pick(5) == 0 {
		ops = append(ops, term.VerifC13ModeOp{Kind: 'h', N: []int{2004, 1000, 1006, 7, 12}[h.pick(5)]})
	}
	return ops
}

func clusters(s string) []string {
	var out []string
	g := uniseg.NewGraphemes(s)
	for g.Next() {
		out = append(out, g.Str())
	}
	return out
}

func isText(b []byte) bool {
	for _, c := range b {
		if c < 0x20 {
			return false
		}
	}
	return len(b) > 0
}

func (h *harness) addKey(k vaxis.Key, kp, ck bool, tags ...string) {
	ops := h.keyOps(kp, ck)
	md, out := runTerm(ops, k)
	if md.Deckpam != kp || md.Decckm != ck {
		panic("keyOps did not reach the requested modes")
	}
	// the hook re-export must agree with the Update path
	if direct := term.VerifC13EncodeXterm(k, md.Deckpam, md.Decckm); direct != string(out) {
		h.host.direct = append(h.host.direct, hx.DirectViolation{Class: "update-vs-encode", Case: keyJSON(k),
			What: fmt.Sprintf("Model.Update wrote %q, encodeXterm returned %q", out, direct)})
	}
	pause := len(out) > 0 && out[len(out)-1] == 0x1b
	evs, ok := h.host.read(out, pause)
	if !ok {
		h.host.direct = append(h.host.direct, hx.DirectViolation{Class: "host-hang", Case: keyJSON(k),
			What: fmt.Sprintf("the host Vaxis did not deliver the sentinel after %q", out)})
	}
	var segs []string
	if isText(out) {
		for _, c := range clusters(string(out)) {
			segs = append(segs, hx.Runes(c))
		}
	}
	rs := []rune{k.Keycode, k.ShiftedCode}
	rs = append(rs, []rune(k.Text)...)
	rs = append(rs, []rune(string(out))...)
	for _, ev := range evs {
		if kk, ok := ev.(vaxis.Key); ok {
			rs = append(rs, kk.Keycode, kk.ShiftedCode)
			rs = append(rs, []rune(kk.Text)...)
		}
	}
	termS := hx.Tuple(utab(rs), hx.List(segs), opsTerm(ops), keyTerm(k), hx.Bool(pause), modesTerm(md), hx.Bytes(out),
		hx.Some(eventsTerm(evs)))
	js := map[string]interface{}{"ops": opsJSON(ops), "key": keyJSON(k), "deckpam": kp, "decckm": ck,
		"written": fmt.Sprintf("%q", out), "pause": pause, "events": eventsJSON(evs)}
	xm := k.Modifiers & (vaxis.ModShift | vaxis.ModAlt | vaxis.ModCtrl)
	nontrivial := xm != 0 || k.Keycode > unicode.MaxRune || kp || ck
	h.keys.Add(termS, js, nontrivial, tags...)
}

func (h *harness) mouseOps(buttons, drag, motion, sgr, alt, smcup bool) []term.VerifC13ModeOp {
	var ops []term.VerifC13ModeOp
	set := func(n int) { ops = append(ops, term.VerifC13ModeOp{Kind: 'h', N: n}) }
	rst := func(n int) { ops = append(ops, term.VerifC13ModeOp{Kind: 'l', N: n}) }
	if h.pick(6) == 0 {
		// a mode switched on and off again
		n := []int{1000, 1002, 1003, 1006, 2004}[h.pick(5)]
		set(n)
		rst(n)
	}
	if smcup {
		set(1049)
		if !alt {
			rst(1007)
		}
	} else if alt {
		set(1007)
	}
	order := h.cfg.Rand.Perm(4)
	for _, i := range order {
		switch i {
		case 0:
			if buttons {
				set(1000)
			}
		case 1:
			if drag {
				set(1002)
			}
		case 2:
			if motion {
				set(1003)
			}
		case 3:
			if sgr {
				set(1006)
			}
		}
	}
	return ops
}

func (h *harness) addEvent(ops []term.VerifC13ModeOp, ev vaxis.Event, tags ...string) {
	md, out := runTerm(ops, ev)
	var evTerm string
	var evJS interface{}
	nontrivial := len(out) > 0
	switch e := ev.(type) {
	case vaxis.Mouse:
		evTerm = "(TMouse " + mouseTerm(e) + ")"
		evJS = map[string]interface{}{"mouse": mouseJSON(e)}
	case vaxis.PasteStartEvent:
		evTerm = "TPasteStart"
		evJS = "PasteStartEvent"
	case vaxis.PasteEndEvent:
		evTerm = "TPasteEnd"
		evJS = "PasteEndEvent"
	default:
		evTerm = "TOther"
		evJS = fmt.Sprintf("%T", ev)
	}
	// Re-read through the host unless the bytes are a legacy (X10) mouse report:
	// CSI M without '<' makes parseMouseEvent index an empty slice (property C03).
	reread := len(out) > 0 && !strings.HasPrefix(string(out), "\x1b[M")
	evsTerm := hx.None
	var evsJS interface{}
	if reread {
		evs, ok := h.host.read(out, false)
		if !ok {
			h.host.direct = append(h.host.direct, hx.DirectViolation{Class: "host-hang", Case: evJS,
				What: fmt.Sprintf("the host Vaxis did not deliver the sentinel after %q", out)})
		}
		if strings.Contains(string(out), "\x1b[200~") {
			// leave paste mode again
			h.host.read([]byte("\x1b[201~"), false)
		}
		evsTerm = hx.Some(eventsTerm(evs))
		evsJS = eventsJSON(evs)
	}
	termS := hx.Tuple(opsTerm(ops), evTerm, modesTerm(md), hx.Bytes(out), evsTerm)
	js := map[string]interface{}{"ops": opsJSON(ops), "event": evJS, "written": fmt.Sprintf("%q", out), "events": evsJS}
	h.mice.Add(termS, js, nontrivial, tags...)
}

// addKeypad records what encodeXterm writes for the key under DECKPNM and under
// DECKPAM (through Model.Update, modes set by ESC > / ESC =).
func (h *harness) addKeypad(k vaxis.Key, ck bool, tags ...string) {
	var base []term.VerifC13ModeOp
	if ck {
		base = append(base, term.VerifC13ModeOp{Kind: 'h', N: 1})
	}
	_, bn := runTerm(append(append([]term.VerifC13ModeOp(nil), base...), term.VerifC13ModeOp{Kind: '>'}), k)
	_, ba := runTerm(append(append([]term.VerifC13ModeOp(nil), base...), term.VerifC13ModeOp{Kind: '='}), k)
	rs := []rune{k.Keycode, k.ShiftedCode}
	rs = append(rs, []rune(k.Text)...)
	rs = append(rs, []rune(string(bn)+string(ba))...)
	termS := hx.Tuple(utab(rs), keyTerm(k), hx.Bool(ck), hx.Bytes(bn), hx.Bytes(ba))
	js := map[string]interface{}{"key": keyJSON(k), "decckm": ck, "written_deckpnm": fmt.Sprintf("%q", bn), "written_deckpam": fmt.Sprintf("%q", ba)}
	isPad := k.Keycode >= vaxis.KeyKeyPad0 && k.Keycode <= vaxis.KeyKeyPadBegin
	if isPad && k.Modifiers&(vaxis.ModShift|vaxis.ModAlt|vaxis.ModCtrl) == 0 {
		js["class"] = "keypad-mode-ignored"
	}
	h.pads.Add(termS, js, isPad, tags...)
}

func (h *harness) genKeypad() {
	// corpus case of the finding keypad-mode-ignored: keypad 0 as the kitty protocol reports it
	h.addKeypad(vaxis.Key{Keycode: vaxis.KeyKeyPad0, Text: "0"}, false, "corpus")
	texts := map[rune]string{vaxis.KeyKeyPad0: "0", vaxis.KeyKeyPad1: "1", vaxis.KeyKeyPad2: "2", vaxis.KeyKeyPad3: "3", vaxis.KeyKeyPad4: "4",
		vaxis.KeyKeyPad5: "5", vaxis.KeyKeyPad6: "6", vaxis.KeyKeyPad7: "7", vaxis.KeyKeyPad8: "8", vaxis.KeyKeyPad9: "9",
		vaxis.KeyKeyPadDecimal: ".", vaxis.KeyKeyPadDivide: "/", vaxis.KeyKeyPadMultiply: "*", vaxis.KeyKeyPadSubtract: "-",
		vaxis.KeyKeyPadAdd: "+", vaxis.KeyKeyPadEqual: "=", vaxis.KeyKeyPadSeparator: ","}
	for c := vaxis.KeyKeyPad0; c <= vaxis.KeyKeyPadBegin; c++ {
		for _, ck := range []bool{false, true} {
			h.addKeypad(vaxis.Key{Keycode: c, Text: texts[c]}, ck, "keypad")
			h.addKeypad(vaxis.Key{Keycode: c, Modifiers: vaxis.ModNumLock}, ck, "keypad")
		}
		h.addKeypad(vaxis.Key{Keycode: c, Text: texts[c], Modifiers: vaxis.ModShift}, false, "keypad-mod")
	}
	// keys outside the keypad: the keypad mode must not matter, and the guard does not cover them
	for _, c := range []rune{vaxis.KeyInsert, vaxis.KeyDelete, vaxis.KeyPgUp, vaxis.KeyPgDown, vaxis.KeyUp, vaxis.KeyHome, vaxis.KeyF01, vaxis.KeyF05, 'a', '0', vaxis.KeyEnter} {
		k := vaxis.Key{Keycode: c}
		if c < 0x7f && c >= 0x20 {
			k.Text = string(c)
		}
		h.addKeypad(k, h.pick(2) == 0, "other")
	}
}

// ---------- the child's output: bytes through the real parser and the emulator's own update path ----------

// creq is one control function of the child's output that concerns the
// input-related modes, as the generator meant it: 'h' DECSET / 'l' DECRST with
// the modes it names, '=' DECKPAM, '>' DECKPNM, 'c' RIS.
type creq struct {
	kind byte
	ns   []int
}

func (r creq) bytes(rnd func(int) int) string {
	switch r.kind {
	case 'h', 'l':
		ps := make([]string, len(r.ns))
		for i, n := range r.ns {
			ps[i] = strconv.Itoa(n)
			if n == 0 && len(r.ns) > 1 && rnd(2) == 0 {
				ps[i] = "" // an omitted parameter is 0
			}
		}
		return "\x1b[?" + strings.Join(ps, ";") + string(r.kind)
	default:
		return "\x1b" + string(r.kind)
	}
}

func reqsTerm(rs []creq) string {
	items := make([]string, len(rs))
	for i, r := range rs {
		switch r.kind {
		case 'h':
			items[i] = "QSet " + hx.IntList(r.ns)
		case 'l':
			items[i] = "QReset " + hx.IntList(r.ns)
		case '=':
			items[i] = "QKpam"
		case '>':
			items[i] = "QKpnm"
		default:
			items[i] = "QRis"
		}
	}
	return hx.List(items)
}

func reqsJSON(rs []creq) []string {
	out := make([]string, len(rs))
	for i, r := range rs {
		switch r.kind {
		case 'h', 'l':
			ps := make([]string, len(r.ns))
			for j, n := range r.ns {
				ps[j] = strconv.Itoa(n)
			}
			out[i] = "CSI ? " + strings.Join(ps, " ; ") + " " + string(r.kind)
		default:
			out[i] = "ESC " + string(r.kind)
		}
	}
	return out
}

// the modes DECRQM is asked about after the child's output (model: reported_modes)
var reportedModes = []int{1, 1000, 1002, 1003, 1006, 1007, 1049, 2004}

func parseChild(b []byte) []ansi.Sequence {
	out, timerEsc := parseChildOnce(b)
	for n := 0; n < hx.TimerEscRetries && timerEsc; n++ {
		out, timerEsc = parseChildOnce(b) // scheduling artefact, see hx.IsTimerEsc
	}
	return out
}

func parseChildOnce(b []byte) (out []ansi.Sequence, timerEsc bool) {
	p := ansi.NewParser(bytes.NewReader(b))
	for s := range p.Next() {
		if _, ok := s.(ansi.EOF); ok {
			continue
		}
		if hx.IsTimerEsc(s) {
			timerEsc = true
		}
		out = append(out, s)
	}
	return out, timerEsc
}

// runChild: a fresh emulator (80x24, no child process) receives the child's
// output — parsed by the real ansi.Parser, every sequence handed to the
// unmodified Model.update — then the DECRQM queries, then the event through
// Model.Update.  Returns the DECRQM replies and the bytes written for the event.
func (h *harness) runChild(out []byte, ev vaxis.Event, js interface{}) (report, written []byte) {
	t, oc, msg := term.VerifNewTerm(80, 24)
	if oc != term.VerifOK {
		panic("VerifNewTerm: " + msg)
	}
	defer t.Close()
	feed := func(b []byte) {
		for _, seq := range parseChild(b) {
			if oc, msg := t.Feed(seq); oc != term.VerifOK {
				h.host.direct = append(h.host.direct, hx.DirectViolation{Class: "child-output-outcome", Case: js,
					What: fmt.Sprintf("Model.update ended with outcome %d (%s) on %q", oc, msg, b)})
			}
		}
	}
	feed(out)
	t.Replies() // answers to the child's own queries are not part of the observation
	var q []byte
	for _, n := range reportedModes {
		q = append(q, fmt.Sprintf("\x1b[?%d$p", n)...)
	}
	feed(q)
	report = t.Replies()
	panicked, pmsg := hx.Catch(func() { t.Model().Update(ev) })
	if panicked {
		h.host.direct = append(h.host.direct, hx.DirectViolation{Class: "update-panic", Case: js, What: pmsg})
	}
	written = t.Replies()
	return report, written
}

func (h *harness) addChild(pieces []piece, ev vaxis.Event, tags ...string) {
	var out []byte
	var reqs []creq
	multi, nonfinal1049 := false, false
	for _, p := range pieces {
		out = append(out, p.bytes...)
		if p.req != nil {
			reqs = append(reqs, *p.req)
			if len(p.req.ns) > 1 {
				multi = true
				for i, n := range p.req.ns[:len(p.req.ns)-1] {
					_ = i
					if n == 1049 || n == 47 || n == 1047 {
						nonfinal1049 = true
					}
				}
			}
		}
	}
	var evTerm string
	var evJS interface{}
	switch e := ev.(type) {
	case vaxis.Key:
		evTerm = "(TKey " + keyTerm(e) + ")"
		evJS = map[string]interface{}{"key": keyJSON(e)}
	case vaxis.Mouse:
		evTerm = "(TMouse " + mouseTerm(e) + ")"
		evJS = map[string]interface{}{"mouse": mouseJSON(e)}
	case vaxis.PasteStartEvent:
		evTerm = "TPasteStart"
		evJS = "PasteStartEvent"
	case vaxis.PasteEndEvent:
		evTerm = "TPasteEnd"
		evJS = "PasteEndEvent"
	default:
		evTerm = "TOther"
		evJS = fmt.Sprintf("%T", ev)
	}
	js := map[string]interface{}{"child_output": fmt.Sprintf("%q", out), "requests": reqsJSON(reqs), "event": evJS}
	report, written := h.runChild(out, ev, js)
	// re-read through the host, except a legacy (X10) mouse report (see addEvent)
	_, isKey := ev.(vaxis.Key)
	reread := (isKey || len(written) > 0) && !strings.HasPrefix(string(written), "\x1b[M")
	pause := len(written) > 0 && written[len(written)-1] == 0x1b
	evsTerm := hx.None
	var evsJS interface{}
	if reread {
		evs, ok := h.host.read(written, pause)
		if !ok {
			h.host.direct = append(h.host.direct, hx.DirectViolation{Class: "host-hang", Case: js,
				What: fmt.Sprintf("the host Vaxis did not deliver the sentinel after %q", written)})
		}
		if strings.Contains(string(written), "\x1b[200~") {
			h.host.read([]byte("\x1b[201~"), false)
		}
		evsTerm = hx.Some(eventsTerm(evs))
		evsJS = eventsJSON(evs)
	}
	js["decrqm_replies"] = fmt.Sprintf("%q", report)
	js["written"] = fmt.Sprintf("%q", written)
	js["events"] = evsJS
	termS := hx.Tuple(reqsTerm(reqs), hx.Bytes(out), evTerm, hx.Bool(pause), hx.Bytes(report), hx.Bytes(written), evsTerm)
	if multi {
		tags = append(tags, "multi-parameter")
	}
	if nonfinal1049 {
		tags = append(tags, "screen-mode-not-last")
	}
	if len(written) > 0 {
		tags = append(tags, "written")
	} else {
		tags = append(tags, "nothing-written")
	}
	h.kids.Add(termS, js, multi, tags...)
}

type piece struct {
	bytes string
	req   *creq
}

var (
	inputModes  = []int{1, 1000, 1002, 1003, 1006, 1007, 2004}
	screenModes = []int{1049, 47, 1047}
	otherModes  = []int{0, 2, 3, 5, 6, 7, 8, 12, 25, 66, 1004, 1005, 1015, 1016, 1048, 2026, 2027, 9999, 65535, 2147483647}
)

func (h *harness) req(kind byte, ns ...int) piece {
	r := creq{kind: kind, ns: append([]int(nil), ns...)}
	return piece{bytes: r.bytes(h.pick), req: &r}
}

// a control function or text that must leave the input-related modes alone
func (h *harness) distractor() piece {
	n := append(append(append([]int(nil), inputModes...), screenModes...), 4, 20)[h.pick(len(inputModes)+len(screenModes)+2)]
	m := inputModes[h.pick(len(inputModes))]
	return piece{bytes: []string{
		"hello", "$ ls\r\n", "\t", "\x1b[1;31m", "\x1b[0m", "\x1b[5;7H", "\x1b[2J", "\x1b[K", "\x1b7", "\x1b8", "\x1b(0", "\x1b(B", "é",
		fmt.Sprintf("\x1b[%dh", n),        // SM: the ANSI mode of that number, not the DEC private one
		fmt.Sprintf("\x1b[%d;%dl", n, m),  // RM
		fmt.Sprintf("\x1b[?%d$p", m),      // DECRQM: a reply, no change
		fmt.Sprintf("\x1b[>%d;%dh", n, m), // another private marker
		fmt.Sprintf("\x1b[?%d;%d$h", n, m),
		fmt.Sprintf("\x1b[?%d;%dm", n, m),
		fmt.Sprintf("\x1b[%d;%dr", 1+h.pick(10), 12+h.pick(12)),
	}[h.pick(20)]}
}

func (h *harness) perm(ns []int) []int {
	out := make([]int, len(ns))
	for i, j := range h.cfg.Rand.Perm(len(ns)) {
		out[i] = ns[j]
	}
	return out
}

func (h *harness) subset(ns []int, p int) []int {
	var out []int
	for _, n := range ns {
		if h.pick(100) < p {
			out = append(out, n)
		}
	}
	return out
}

// an event whose forwarding depends on mode n
func (h *harness) eventFor(n int) vaxis.Event {
	col, row := h.pick(200), h.pick(60)
	switch n {
	case 1:
		return vaxis.Key{Keycode: []rune{vaxis.KeyUp, vaxis.KeyDown, vaxis.KeyRight, vaxis.KeyLeft, vaxis.KeyEnd, vaxis.KeyHome}[h.pick(6)]}
	case 1000:
		return vaxis.Mouse{Button: buttons[h.pick(3)], Col: col, Row: row, EventType: []vaxis.EventType{vaxis.EventPress, vaxis.EventRelease}[h.pick(2)]}
	case 1002:
		return vaxis.Mouse{Button: buttons[h.pick(3)], Col: col, Row: row, EventType: vaxis.EventMotion}
	case 1003:
		return vaxis.Mouse{Button: vaxis.MouseNoButton, Col: col, Row: row, EventType: vaxis.EventMotion}
	case 1006:
		return vaxis.Mouse{Button: buttons[h.pick(len(buttons))], Col: col, Row: row, EventType: vaxis.EventPress}
	case 1007, 1049, 47, 1047:
		return vaxis.Mouse{Button: []vaxis.MouseButton{vaxis.MouseWheelUp, vaxis.MouseWheelDown}[h.pick(2)], Col: col, Row: row, EventType: vaxis.EventPress}
	case 2004:
		if h.pick(2) == 0 {
			return vaxis.PasteStartEvent{}
		}
		return vaxis.PasteEndEvent{}
	}
	return h.anyEvent()
}

func (h *harness) anyEvent() vaxis.Event {
	switch h.pick(12) {
	case 0, 1:
		return h.eventFor(2004)
	case 2, 3:
		return h.eventFor(1)
	case 4:
		// keys the cursor-key mode must not touch
		c := []rune{'a', 'Z', '5', vaxis.KeyEnter, vaxis.KeyTab, vaxis.KeyF05, vaxis.KeyInsert, vaxis.KeyPgDown, vaxis.KeyKeyPad5}[h.pick(9)]
		k := vaxis.Key{Keycode: c}
		if c >= 0x20 && c < 0x7f {
			k.Text = string(c)
		}
		return k
	case 5:
		return vaxis.Key{Keycode: specialKeys[h.pick(len(specialKeys))], Modifiers: vaxis.ModifierMask(h.pick(8))}
	default:
		return h.eventFor([]int{1000, 1002, 1003, 1006, 1007}[h.pick(5)])
	}
}

func (h *harness) genChild() {
	thorough := h.cfg.Thorough()
	enterAlt := func() piece { return h.req('h', 1049) }
	// A. one mode and one companion in the same control function, both orders, on the primary and on the
	//    alternate screen: set together / reset together / set and reset together
	companions := []int{1049, 47, 1047, 1007, 1000, 1006, 2004, 1, 25, 0}
	reps := 1
	if thorough {
		reps = 6
	}
	for rep := 0; rep < reps; rep++ {
		for _, t := range inputModes {
			for _, alt := range []bool{false, true} {
				for _, c := range companions {
					if c == t {
						continue
					}
					for order := 0; order < 2; order++ {
						pair := []int{c, t}
						if order == 1 {
							pair = []int{t, c}
						}
						for phase := 0; phase < 3; phase++ {
							var ps []piece
							if alt {
								ps = append(ps, enterAlt())
							}
							if h.pick(3) == 0 {
								ps = append(ps, h.distractor())
							}
							// what makes the mode observable
							switch t {
							case 1006:
								ps = append(ps, h.req('h', 1000))
							case 1000, 1002, 1003:
								if h.pick(2) == 0 {
									ps = append(ps, h.req('h', 1006))
								}
							}
							switch phase {
							case 0: // set together
								ps = append(ps, h.req('h', pair...))
							case 1: // set alone, reset together
								ps = append(ps, h.req('h', t), h.req('l', pair...))
							case 2: // set together, reset together (a clean-up string)
								ps = append(ps, h.req('h', pair...))
								if h.pick(3) == 0 {
									ps = append(ps, h.distractor())
								}
								ps = append(ps, h.req('l', pair...))
							}
							scr := "primary"
							if alt {
								scr = "alternate"
							}
							h.addChild(ps, h.eventFor(t), "pair", "screen-"+scr)
						}
					}
				}
			}
		}
	}
	// B. a program's start-up and clean-up strings: several modes in one DECSET, any order; a DECRST naming
	//    any subset in any order (screen modes anywhere in the list), possibly sent twice
	all := append(append([]int(nil), inputModes...), screenModes...)
	n := 450
	if thorough {
		n = 6000
	}
	for i := 0; i < n; i++ {
		var ps []piece
		alt := false
		if h.pick(3) == 0 {
			ps = append(ps, enterAlt())
			alt = true
		}
		on := h.subset(all, 55)
		if h.pick(4) == 0 {
			on = append(on, otherModes[h.pick(len(otherModes))])
		}
		on = h.perm(on)
		switch {
		case len(on) == 0:
		case h.pick(3) == 0 && len(on) > 1:
			k := 1 + h.pick(len(on)-1)
			ps = append(ps, h.req('h', on[:k]...), h.req('h', on[k:]...))
		default:
			ps = append(ps, h.req('h', on...))
		}
		if h.pick(4) == 0 {
			ps = append(ps, h.req([]byte{'=', '>'}[h.pick(2)]))
		}
		for k := h.pick(3); k > 0; k-- {
			ps = append(ps, h.distractor())
		}
		var off []int
		switch h.pick(4) {
		case 0: // exactly what was switched on, in another order
			off = h.perm(on)
		case 1: // everything
			off = h.perm(all)
		default:
			off = h.perm(h.subset(all, 50))
		}
		if h.pick(5) == 0 {
			off = append(off, otherModes[h.pick(len(otherModes))])
			off = h.perm(off)
		}
		if len(off) > 0 && h.pick(6) != 0 {
			ps = append(ps, h.req('l', off...))
			if h.pick(4) == 0 {
				ps = append(ps, h.req('l', off...))
			}
		}
		var ev vaxis.Event
		if len(off) > 0 && h.pick(3) != 0 {
			ev = h.eventFor(off[h.pick(len(off))])
		} else {
			ev = h.anyEvent()
		}
		scr := "primary"
		if alt {
			scr = "alternate"
		}
		h.addChild(ps, ev, "startup-cleanup", "screen-"+scr)
	}
	// C. random output: mode-setting control functions with 1-6 parameters from all pools (duplicates
	//    allowed), keypad switches, an occasional full reset, text and other control functions in between
	pool := append(append(append([]int(nil), all...), all...), otherModes...)
	n = 450
	if thorough {
		n = 6000
	}
	for i := 0; i < n; i++ {
		var ps []piece
		for k := 2 + h.pick(8); k > 0; k-- {
			switch x := h.pick(20); {
			case x < 12:
				ns := make([]int, 1+h.pick(6))
				for j := range ns {
					ns[j] = pool[h.pick(len(pool))]
				}
				ps = append(ps, h.req([]byte{'h', 'l'}[h.pick(2)], ns...))
			case x < 14:
				ps = append(ps, h.req([]byte{'=', '>'}[h.pick(2)]))
			case x == 14 && h.pick(3) == 0:
				ps = append(ps, h.req('c'))
			default:
				ps = append(ps, h.distractor())
			}
		}
		h.addChild(ps, h.anyEvent(), "random")
	}
	// D. corpus: the shapes real programs send
	for _, c := range []struct {
		out string
		ev  vaxis.Event
	}{
		{"\x1b[?2004h\x1b[?1049;2004l", vaxis.PasteStartEvent{}},
		{"\x1b[?1h\x1b[?1000;1006h\x1b[?1049;1;1000;1006l", vaxis.Key{Keycode: vaxis.KeyUp}},
		{"\x1b[?1h\x1b[?1000;1006h\x1b[?1049;1;1000;1006l", vaxis.Mouse{Button: vaxis.MouseLeftButton, Col: 3, Row: 4, EventType: vaxis.EventPress}},
		{"\x1b[?1049h\x1b[?1;2004h\x1b[?1000;1002;1003;1006h\x1b[?1006;1003;1002;1000l\x1b[?2004;1;1049l", vaxis.PasteEndEvent{}},
		{"\x1b[?1049h\x1b[?1049;1007l\x1b[?1049;1007h", vaxis.Mouse{Button: vaxis.MouseWheelUp, EventType: vaxis.EventPress}},
		{"\x1b[?47;1000h\x1b[?1047;1000l", vaxis.Mouse{Button: vaxis.MouseLeftButton, EventType: vaxis.EventPress}},
	} {
		var ps []piece
		for _, seq := range parseChild([]byte(c.out)) {
			cs := seq.(ansi.CSI)
			var ns []int
			for _, p := range cs.Parameters {
				ns = append(ns, p[0])
			}
			ps = append(ps, h.req(byte(cs.Final), ns...))
		}
		h.addChild(ps, c.ev, "corpus")
	}
}

// ---------- histories: ONE emulator, many steps ----------

// hstep is one step in the life of one Model: a piece of child output (parsed by
// the real ansi.Parser, every sequence through the unmodified Model.update) or
// an event handed to Model.Update.
type hstep struct {
	out []piece
	ev  vaxis.Event
}

func evDesc(ev vaxis.Event) (string, interface{}) {
	switch e := ev.(type) {
	case vaxis.Key:
		return "(TKey " + keyTerm(e) + ")", map[string]interface{}{"key": keyJSON(e)}
	case vaxis.Mouse:
		return "(TMouse " + mouseTerm(e) + ")", map[string]interface{}{"mouse": mouseJSON(e)}
	case vaxis.PasteStartEvent:
		return "TPasteStart", "PasteStartEvent"
	case vaxis.PasteEndEvent:
		return "TPasteEnd", "PasteEndEvent"
	}
	return "TOther", fmt.Sprintf("%T", ev)
}

func outStep(ps ...piece) hstep   { return hstep{out: ps} }
func evStep(ev vaxis.Event) hstep { return hstep{ev: ev} }
func evSteps(evs ...vaxis.Event) []hstep {
	out := make([]hstep, len(evs))
	for i, ev := range evs {
		out[i] = evStep(ev)
	}
	return out
}

// addHist drives ONE emulator (80x24, no child process) through the steps: the
// state that survives between Update calls and between pieces of child output is
// the emulator's own.  After every event the bytes written to the PTY stand-in
// are taken and re-read by the host Vaxis; at the end DECRQM is asked for the
// eight input modes.
func (h *harness) addHist(steps []hstep, tags ...string) {
	t, oc, msg := term.VerifNewTerm(80, 24)
	if oc != term.VerifOK {
		panic("VerifNewTerm: " + msg)
	}
	defer t.Close()
	var jsSteps []interface{}
	js := map[string]interface{}{}
	feed := func(b []byte) {
		for _, seq := range parseChild(b) {
			if oc, msg := t.Feed(seq); oc != term.VerifOK {
				h.host.direct = append(h.host.direct, hx.DirectViolation{Class: "child-output-outcome", Case: js,
					What: fmt.Sprintf("Model.update ended with outcome %d (%s) on %q", oc, msg, b)})
			}
		}
	}
	var obs []string
	events, outsBetween, sawEvent, pendingOut, survives := 0, 0, false, false, false
	anyWritten, anySilent := false, false
	for _, st := range steps {
		if st.ev == nil {
			var out []byte
			var reqs []creq
			for _, p := range st.out {
				out = append(out, p.bytes...)
				if p.req != nil {
					reqs = append(reqs, *p.req)
				}
			}
			feed(out)
			t.Replies() // answers to the child's own queries are not part of the observation
			obs = append(obs, "OOut "+reqsTerm(reqs)+" "+hx.Bytes(out))
			jsSteps = append(jsSteps, map[string]interface{}{"child_output": fmt.Sprintf("%q", out), "requests": reqsJSON(reqs)})
			outsBetween++
			if sawEvent {
				pendingOut = true
			}
			continue
		}
		evTerm, evJS := evDesc(st.ev)
		panicked, pmsg := hx.Catch(func() { t.Model().Update(st.ev) })
		if panicked {
			h.host.direct = append(h.host.direct, hx.DirectViolation{Class: "update-panic", Case: evJS, What: pmsg})
		}
		written := t.Replies()
		_, isKey := st.ev.(vaxis.Key)
		reread := (isKey || len(written) > 0) && !strings.HasPrefix(string(written), "\x1b[M")
		pause := len(written) > 0 && written[len(written)-1] == 0x1b
		evsTerm := hx.None
		var evsJS interface{}
		if reread {
			evs, ok := h.host.read(written, pause)
			if !ok {
				h.host.direct = append(h.host.direct, hx.DirectViolation{Class: "host-hang", Case: evJS,
					What: fmt.Sprintf("the host Vaxis did not deliver the sentinel after %q", written)})
			}
			if strings.Contains(string(written), "\x1b[200~") {
				h.host.read([]byte("\x1b[201~"), false) // leave paste mode again
			}
			evsTerm = hx.Some(eventsTerm(evs))
			evsJS = eventsJSON(evs)
		}
		obs = append(obs, fmt.Sprintf("OEv %s %s %s %s", evTerm, hx.Bool(pause), hx.Bytes(written), evsTerm))
		jsSteps = append(jsSteps, map[string]interface{}{"event": evJS, "written": fmt.Sprintf("%q", written), "events": evsJS})
		events++
		if pendingOut {
			survives = true // an event, then child output, then another event: state had to survive
		}
		sawEvent = true
		if len(written) > 0 {
			anyWritten = true
		} else {
			anySilent = true
		}
	}
	var q []byte
	for _, n := range reportedModes {
		q = append(q, fmt.Sprintf("\x1b[?%d$p", n)...)
	}
	feed(q)
	report := t.Replies()
	js["steps"] = jsSteps
	js["decrqm_replies_at_end"] = fmt.Sprintf("%q", report)
	termS := hx.Tuple(hx.List(obs), hx.Bytes(report))
	tags = append(tags, fmt.Sprintf("events-%d", (events/4)*4))
	if anyWritten && anySilent {
		tags = append(tags, "written-and-silent")
	}
	h.hist.Add(termS, js, survives, tags...)
}

// the events whose forwarding depends on mode n: a whole gesture (a complete
// paste with a pasted key; press, drag, release ...)
func (h *harness) gestureFor(n int) []vaxis.Event {
	col, row := h.pick(200), h.pick(60)
	btn := buttons[h.pick(3)]
	pasted := vaxis.Key{Keycode: rune('a' + h.pick(26)), EventType: vaxis.EventPaste}
	pasted.Text = string(pasted.Keycode)
	switch n {
	case 2004:
		if h.pick(3) == 0 {
			return []vaxis.Event{vaxis.PasteStartEvent{}, pasted, vaxis.Key{Keycode: vaxis.KeyEnter, EventType: vaxis.EventPaste}, vaxis.PasteEndEvent{}}
		}
		return []vaxis.Event{vaxis.PasteStartEvent{}, pasted, vaxis.PasteEndEvent{}}
	case 1, '=':
		c := []rune{vaxis.KeyUp, vaxis.KeyDown, vaxis.KeyRight, vaxis.KeyLeft, vaxis.KeyEnd, vaxis.KeyHome}[h.pick(6)]
		other := []rune{vaxis.KeyInsert, vaxis.KeyPgUp, vaxis.KeyF05, vaxis.KeyKeyPad5, vaxis.KeyEnter, vaxis.KeyTab}[h.pick(6)]
		return []vaxis.Event{vaxis.Key{Keycode: c}, vaxis.Key{Keycode: other}, vaxis.Key{Keycode: c, Modifiers: vaxis.ModifierMask(1 + h.pick(7))}}
	case 1000, 1006:
		return []vaxis.Event{vaxis.Mouse{Button: btn, Col: col, Row: row, EventType: vaxis.EventPress},
			vaxis.Mouse{Button: btn, Col: col, Row: row, EventType: vaxis.EventRelease}}
	case 1002:
		return []vaxis.Event{vaxis.Mouse{Button: btn, Col: col, Row: row, EventType: vaxis.EventPress},
			vaxis.Mouse{Button: btn, Col: col + 1, Row: row, EventType: vaxis.EventMotion},
			vaxis.Mouse{Button: btn, Col: col + 1, Row: row, EventType: vaxis.EventRelease}}
	case 1003:
		return []vaxis.Event{vaxis.Mouse{Button: vaxis.MouseNoButton, Col: col, Row: row, EventType: vaxis.EventMotion},
			vaxis.Mouse{Button: btn, Col: col, Row: row, EventType: vaxis.EventPress}}
	default: // 1007, 1049, 47, 1047: the wheel
		return []vaxis.Event{vaxis.Mouse{Button: vaxis.MouseWheelUp, Col: col, Row: row, EventType: vaxis.EventPress},
			vaxis.Mouse{Button: vaxis.MouseWheelDown, Col: col, Row: row, EventType: vaxis.EventPress}}
	}
}

// a control function that switches mode n ('=' stands for the keypad mode) on / off,
// alone or in a parameter list with companions (any position)
func (h *harness) switchMode(n int, on bool, how int) piece {
	if n == '=' {
		if on {
			return h.req('=')
		}
		if how == 2 {
			return h.req('c')
		}
		return h.req('>')
	}
	kind := byte('l')
	if on {
		kind = 'h'
	}
	switch how {
	case 1: // in a list with companions
		comp := h.subset([]int{1, 1000, 1002, 1003, 1006, 1007, 2004, 25, 7, 66, 12}, 25)
		ns := []int{n}
		for _, c := range comp {
			if c != n {
				ns = append(ns, c)
			}
		}
		return h.req(kind, h.perm(ns)...)
	case 2: // a full reset switches everything off
		if !on {
			return h.req('c')
		}
	}
	return h.req(kind, n)
}

func (h *harness) genHist() {
	thorough := h.cfg.Thorough()
	modes := []int{2004, 1, '=', 1000, 1002, 1003, 1006, 1007, 1049}
	reps := 2
	if thorough {
		reps = 12
	}
	// what makes the mode observable (a tracking mode for 1006, the alternate screen for 1007 ...)
	prelude := func(n int) []piece {
		var ps []piece
		switch n {
		case 1006:
			ps = append(ps, h.req('h', []int{1000, 1002, 1003}[h.pick(3)]))
		case 1000, 1002, 1003:
			if h.pick(3) != 0 {
				ps = append(ps, h.req('h', 1006))
			}
		case 1007:
			ps = append(ps, h.req('h', 1049), h.req('l', 1007))
		}
		if h.pick(4) == 0 {
			ps = append(ps, h.distractor())
		}
		return ps
	}
	// one history: the gesture g, then the child switches mode n (on, off, on ... — alone, in a parameter list, or off
	// by a full reset), then g again, and so on, all on ONE emulator; `mixed` lets another gesture follow now and then
	toggle := func(n int, g []vaxis.Event, how int, on bool, mixed bool, tags ...string) {
		var steps []hstep
		if ps := prelude(n); len(ps) > 0 {
			steps = append(steps, outStep(ps...))
		}
		if !on {
			steps = append(steps, evSteps(g...)...) // before the child said anything
		}
		for k := 3 + h.pick(3); k > 0; k-- {
			ps := []piece{h.switchMode(n, on, how)}
			if how == 2 && !on {
				ps = append(ps, prelude(n)...) // a full reset also removed what made the mode observable
			}
			if h.pick(4) == 0 {
				ps = append(ps, h.distractor())
			}
			steps = append(steps, outStep(ps...))
			steps = append(steps, evSteps(g...)...)
			if mixed && h.pick(3) == 0 {
				steps = append(steps, evSteps(h.gestureFor(n)...)...)
			}
			on = !on
		}
		h.addHist(steps, tags...)
	}
	for rep := 0; rep < reps; rep++ {
		for _, n := range modes {
			// A. the same gesture while the child switches the mode on, off, on, off ... on ONE emulator; the
			//    mode is switched alone, in a parameter list, or off by a full reset
			for how := 0; how < 3; how++ {
				for first := 0; first < 2; first++ {
					toggle(n, h.gestureFor(n), how, first == 0, true, "toggle", fmt.Sprintf("toggle-how-%d", how))
				}
			}
			// B. the child changes its mind in the middle of a gesture (between paste start and paste end,
			//    between press and release), in both directions
			for first := 0; first < 2; first++ {
				g := h.gestureFor(n)
				on := first == 0
				var steps []hstep
				if ps := prelude(n); len(ps) > 0 {
					steps = append(steps, outStep(ps...))
				}
				steps = append(steps, outStep(h.switchMode(n, on, 0)))
				for round := 0; round < 2; round++ {
					cut := 1 + h.pick(len(g)-1)
					steps = append(steps, evSteps(g[:cut]...)...)
					on = !on
					steps = append(steps, outStep(h.switchMode(n, on, h.pick(2))))
					steps = append(steps, evSteps(g[cut:]...)...)
				}
				steps = append(steps, evSteps(g...)...)
				h.addHist(steps, "mid-gesture")
			}
		}
	}
	// E. the SAME event on both sides of a mode change with no other event in between (what a user who holds a key
	//    down, or a program that repeats a report, produces), for every way a mode can change — DECSET / DECRST alone,
	//    in a parameter list with companions, ESC = / ESC >, a full reset, the alternate-screen switches 1049 / 47 /
	//    1047 — and for every kind of event: every cursor, editing, function and keypad key, keys that produce text,
	//    pasted keys, the paste boundaries, presses, releases, motion and the wheel.  The modes switched are the ones
	//    that govern the event and, for keys, also modes that must not matter.
	{
		var ks []vaxis.Key
		for _, c := range specialKeys {
			ks = append(ks, vaxis.Key{Keycode: c})
		}
		for c := vaxis.KeyKeyPad0; c <= vaxis.KeyKeyPadBegin; c++ {
			ks = append(ks, vaxis.Key{Keycode: c})
		}
		for _, c := range []rune{vaxis.KeyEnter, vaxis.KeyTab, vaxis.KeyEsc, vaxis.KeyBackspace, vaxis.KeySpace, 'a', ';', '5', '~'} {
			k := vaxis.Key{Keycode: c}
			if c >= 0x20 && c < 0x7f {
				k.Text = string(c)
			}
			ks = append(ks, k)
		}
		keyModes := []int{1, '='}
		idle := []int{2004, 1000, 1006, 1049, 47, 1047, 1007}
		for _, k := range ks {
			for _, n := range keyModes {
				for how := 0; how < 3; how++ {
					if thorough {
						toggle(n, []vaxis.Event{k}, how, false, false, "same-event", "same-key")
						toggle(n, []vaxis.Event{k}, how, true, false, "same-event", "same-key")
					} else {
						toggle(n, []vaxis.Event{k}, how, h.pick(2) == 0, false, "same-event", "same-key")
					}
				}
			}
			// with modifiers (the chord forms carry the modifier in a parameter; the cursor-key mode must not matter
			// for them), as a pasted key, and across modes that have nothing to do with keys
			km := k
			km.Modifiers = vaxis.ModifierMask(1 + h.pick(7))
			if k.Text != "" {
				if k.Keycode != 'a' {
					km.Modifiers &= vaxis.ModShift | vaxis.ModAlt // Ctrl chords outside the xterm table: keys stream (needs the unicode oracle)
					if km.Modifiers == 0 {
						km.Modifiers = vaxis.ModAlt
					}
				}
				km = hostKey(k.Keycode, km.Modifiers)
			}
			toggle(keyModes[h.pick(2)], []vaxis.Event{km}, h.pick(3), h.pick(2) == 0, false, "same-event", "same-chord")
			toggle(idle[h.pick(len(idle))], []vaxis.Event{[]vaxis.Key{k, km}[h.pick(2)]}, h.pick(3), h.pick(2) == 0, false, "same-event", "same-key-idle-mode")
			if thorough || h.pick(4) == 0 {
				kp := k
				kp.EventType = vaxis.EventPaste
				toggle([]int{2004, 1, '='}[h.pick(3)], []vaxis.Event{kp}, h.pick(3), h.pick(2) == 0, false, "same-event", "same-pasted-key")
			}
		}
		for how := 0; how < 3; how++ {
			for first := 0; first < 2; first++ {
				for _, ev := range []vaxis.Event{vaxis.PasteStartEvent{}, vaxis.PasteEndEvent{}} {
					toggle(2004, []vaxis.Event{ev}, how, first == 0, false, "same-event", "same-paste-boundary")
				}
				for _, n := range []int{1000, 1002, 1003, 1006, 1007, 1049, 47, 1047} {
					col, row := h.pick(200), h.pick(60)
					btn := buttons[h.pick(3)]
					for _, ev := range []vaxis.Event{
						vaxis.Mouse{Button: btn, Col: col, Row: row, EventType: vaxis.EventPress},
						vaxis.Mouse{Button: btn, Col: col, Row: row, EventType: vaxis.EventRelease},
						vaxis.Mouse{Button: btn, Col: col, Row: row, EventType: vaxis.EventMotion},
						vaxis.Mouse{Button: vaxis.MouseNoButton, Col: col, Row: row, EventType: vaxis.EventMotion},
						vaxis.Mouse{Button: []vaxis.MouseButton{vaxis.MouseWheelUp, vaxis.MouseWheelDown}[h.pick(2)], Col: col, Row: row, EventType: vaxis.EventPress},
					} {
						toggle(n, []vaxis.Event{ev}, how, first == 0, false, "same-event", "same-mouse")
					}
				}
			}
		}
	}
	// C. random histories: a small pool of events handed to the emulator again and again while the child writes
	//    mode-setting control functions (1-4 parameters from all pools), keypad switches, full resets, text and
	//    other control functions in between
	all := append(append([]int(nil), inputModes...), screenModes...)
	pool := append(append(append([]int(nil), all...), inputModes...), otherModes...)
	n := 350
	if thorough {
		n = 6000
	}
	for i := 0; i < n; i++ {
		var evPool []vaxis.Event
		for k := 2 + h.pick(3); k > 0; k-- {
			evPool = append(evPool, h.gestureFor(append(modes, 1000, 2004, 2004)[h.pick(len(modes)+3)])...)
		}
		if h.pick(2) == 0 {
			evPool = append(evPool, h.anyEvent())
		}
		var steps []hstep
		var lastEv vaxis.Event
		for k := 3 + h.pick(5); k > 0; k-- {
			var ps []piece
			for j := 1 + h.pick(3); j > 0; j-- {
				switch x := h.pick(20); {
				case x < 12:
					ns := make([]int, 1+h.pick(4))
					for l := range ns {
						ns[l] = pool[h.pick(len(pool))]
					}
					ps = append(ps, h.req([]byte{'h', 'h', 'h', 'l', 'l'}[h.pick(5)], ns...))
				case x < 14:
					ps = append(ps, h.req([]byte{'=', '>'}[h.pick(2)]))
				case x == 14:
					ps = append(ps, h.req('c'))
				default:
					ps = append(ps, h.distractor())
				}
			}
			steps = append(steps, outStep(ps...))
			if lastEv != nil && h.pick(3) == 0 {
				steps = append(steps, evStep(lastEv)) // the same event on both sides of the child's output
			}
			for j := 1 + h.pick(3); j > 0; j-- {
				lastEv = evPool[h.pick(len(evPool))]
				steps = append(steps, evStep(lastEv))
			}
		}
		h.addHist(steps, "random")
	}
	// D. corpus: a shell session.  readline switches bracketed paste on at the prompt and off before it runs a
	//    command; a full-screen program takes the alternate screen, application cursor keys and the mouse and gives
	//    them back; pastes, arrows and clicks arrive at every stage
	paste := []vaxis.Event{vaxis.PasteStartEvent{}, vaxis.Key{Keycode: 'l', Text: "l", EventType: vaxis.EventPaste},
		vaxis.Key{Keycode: 's', Text: "s", EventType: vaxis.EventPaste}, vaxis.PasteEndEvent{}}
	click := []vaxis.Event{vaxis.Mouse{Button: vaxis.MouseLeftButton, Col: 3, Row: 4, EventType: vaxis.EventPress},
		vaxis.Mouse{Button: vaxis.MouseLeftButton, Col: 3, Row: 4, EventType: vaxis.EventRelease}}
	keys := []vaxis.Event{vaxis.Key{Keycode: vaxis.KeyUp}, vaxis.Key{Keycode: vaxis.KeyHome}, vaxis.Key{Keycode: 'q', Text: "q"}}
	wheel := []vaxis.Event{vaxis.Mouse{Button: vaxis.MouseWheelUp, EventType: vaxis.EventPress}}
	text := func(s string) piece { return piece{bytes: s} }
	var steps []hstep
	steps = append(steps, outStep(text("$ "), h.req('h', 2004)))
	steps = append(steps, evSteps(append(append(append([]vaxis.Event(nil), paste...), keys...), click...)...)...)
	steps = append(steps, outStep(text("\r\n"), h.req('l', 2004)))
	steps = append(steps, evSteps(append(append([]vaxis.Event(nil), paste...), wheel...)...)...)
	steps = append(steps, outStep(h.req('h', 1049), h.req('h', 1), h.req('='), h.req('h', 1000, 1002, 1006), h.req('h', 2004)))
	steps = append(steps, evSteps(append(append(append(append([]vaxis.Event(nil), paste...), keys...), click...), wheel...)...)...)
	steps = append(steps, outStep(h.req('l', 2004), h.req('l', 1006, 1002, 1000), h.req('>'), h.req('l', 1), h.req('l', 1049)))
	steps = append(steps, evSteps(append(append(append(append([]vaxis.Event(nil), paste...), keys...), click...), wheel...)...)...)
	steps = append(steps, outStep(text("$ "), h.req('h', 2004)))
	steps = append(steps, evSteps(paste...)...)
	steps = append(steps, outStep(h.req('c')))
	steps = append(steps, evSteps(append(append([]vaxis.Event(nil), paste...), keys...)...)...)
	h.addHist(steps, "corpus")
}

// ---------- generators ----------

var specialKeys = []rune{vaxis.KeyUp, vaxis.KeyDown, vaxis.KeyRight, vaxis.KeyLeft, vaxis.KeyEnd, vaxis.KeyHome,
	vaxis.KeyInsert, vaxis.KeyDelete, vaxis.KeyPgUp, vaxis.KeyPgDown,
	vaxis.KeyF01, vaxis.KeyF02, vaxis.KeyF03, vaxis.KeyF04, vaxis.KeyF05, vaxis.KeyF06,
	vaxis.KeyF07, vaxis.KeyF08, vaxis.KeyF09, vaxis.KeyF10, vaxis.KeyF11, vaxis.KeyF12}

// US layout: what Shift makes of a non-letter
var shifted = map[rune]rune{'1': '!', '2': '@', '3': '#', '4': '$', '5': '%', '6': '^', '7': '&', '8': '*', '9': '(', '0': ')',
	'-': '_', '=': '+', '[': '{', ']': '}', '\\': '|', ';': ':', '\'': '"', ',': '<', '.': '>', '/': '?', '`': '~'}

// what a host Vaxis reports for the key `c` with the modifiers m (kitty-style:
// lower-case key code, shifted code and text when Shift produces text)
func hostKey(c rune, m vaxis.ModifierMask) vaxis.Key {
	k := vaxis.Key{Keycode: c, Modifiers: m}
	if c < 0x20 || c == 0x7f || c > unicode.MaxRune {
		return k
	}
	if m&(vaxis.ModCtrl|vaxis.ModAlt) == 0 {
		k.Text = string(c)
	}
	if m&vaxis.ModShift != 0 {
		s := unicode.ToUpper(c)
		if x, ok := shifted[c]; ok {
			s = x
		}
		if s != c {
			k.ShiftedCode = s
		}
		if m&(vaxis.ModCtrl|vaxis.ModAlt) == 0 {
			k.Text = string(s)
		}
	}
	return k
}

func (h *harness) genKeys() {
	thorough := h.cfg.Thorough()
	bools := []bool{false, true}
	// 1. every key of xtermKeymap x 8 modifier sets x 4 mode sets, exhaustively
	for _, c := range specialKeys {
		for m := 0; m < 8; m++ {
			for _, kp := range bools {
				for _, ck := range bools {
					h.addKey(vaxis.Key{Keycode: c, Modifiers: vaxis.ModifierMask(m)}, kp, ck, "special")
				}
			}
		}
	}
	// ... with lock bits, other modifier bits, stray text and event types
	n := 150
	if thorough {
		n = 3000
	}
	for i := 0; i < n; i++ {
		k := vaxis.Key{Keycode: specialKeys[h.pick(len(specialKeys))], Modifiers: vaxis.ModifierMask(h.pick(8))}
		switch h.pick(4) {
		case 0:
			k.Modifiers |= vaxis.ModifierMask([]int{64, 128, 192}[h.pick(3)])
		case 1:
			k.Modifiers |= vaxis.ModifierMask(h.pick(32) << 3)
		case 2:
			k.Text = "x"
			k.EventType = vaxis.EventType(h.pick(3))
		}
		h.addKey(k, h.pick(2) == 0, h.pick(2) == 0, "special-extra")
	}
	// 2. every other named key (F13.., keypad, media, modifier keys): unmodified and one modifier set
	for c := vaxis.KeyUp - 1; c <= vaxis.KeyKeyPadBegin+1; c++ {
		skip := false
		for _, s := range specialKeys {
			if s == c {
				skip = true
			}
		}
		if skip {
			continue
		}
		h.addKey(vaxis.Key{Keycode: c}, h.pick(2) == 0, h.pick(2) == 0, "named")
		h.addKey(vaxis.Key{Keycode: c, Modifiers: vaxis.ModifierMask(1 + h.pick(7))}, h.pick(2) == 0, h.pick(2) == 0, "named")
		if thorough {
			for m := 0; m < 8; m++ {
				h.addKey(vaxis.Key{Keycode: c, Modifiers: vaxis.ModifierMask(m)}, h.pick(2) == 0, h.pick(2) == 0, "named")
			}
		}
	}
	// keypad keys as kitty reports them (with text)
	for i, c := range []rune{vaxis.KeyKeyPad0, vaxis.KeyKeyPad5, vaxis.KeyKeyPad9} {
		for _, kp := range bools {
			h.addKey(vaxis.Key{Keycode: c, Text: string(rune('0' + []int{0, 5, 9}[i]))}, kp, false, "keypad")
		}
	}
	// 3. printable ASCII x 8 modifier sets, exhaustively; Tab, Enter, Esc, Backspace likewise
	for c := rune(32); c < 127; c++ {
		for m := 0; m < 8; m++ {
			h.addKey(hostKey(c, vaxis.ModifierMask(m)), h.pick(4) == 0, h.pick(4) == 0, "ascii")
		}
	}
	for _, c := range []rune{vaxis.KeyTab, vaxis.KeyEnter, vaxis.KeyEsc, vaxis.KeyBackspace, 0x08, 0x00} {
		for m := 0; m < 8; m++ {
			h.addKey(vaxis.Key{Keycode: c, Modifiers: vaxis.ModifierMask(m)}, h.pick(4) == 0, h.pick(4) == 0, "c0key")
		}
	}
	// upper-case key codes and lock bits on printable keys
	for c := rune('A'); c <= 'Z'; c += 5 {
		h.addKey(vaxis.Key{Keycode: c, Text: string(c)}, false, false, "ascii-upper")
		h.addKey(vaxis.Key{Keycode: unicode.ToLower(c), Text: string(c), Modifiers: vaxis.ModCapsLock}, false, false, "ascii-caps")
		h.addKey(vaxis.Key{Keycode: unicode.ToLower(c), ShiftedCode: c, Text: string(c), Modifiers: vaxis.ModShift | vaxis.ModNumLock}, false, false, "ascii-lock")
	}
	// keys whose text is not their key code: Caps Lock, AltGr, compose, dead keys
	for _, kc := range []struct {
		c rune
		t string
		m vaxis.ModifierMask
	}{{'q', "@", 0}, {'e', "€", 0}, {'a', "ä", 0}, {'7', "{", 0}, {'s', "ß", vaxis.ModNumLock}, {'i', "İ", vaxis.ModCapsLock},
		{'o', "Ö", vaxis.ModCapsLock}, {'2', "\"", vaxis.ModShift}, {'ö', "Ö", vaxis.ModShift | vaxis.ModCapsLock}, {'1', "!", vaxis.ModShift}} {
		h.addKey(vaxis.Key{Keycode: kc.c, Text: kc.t, Modifiers: kc.m}, false, h.pick(2) == 0, "text-not-code")
	}
	// 4. other scripts, sampled
	scripts := [][2]rune{{0xa1, 0xff}, {0x100, 0x17f}, {0x391, 0x3c9}, {0x410, 0x44f}, {0x5d0, 0x5ea}, {0x3041, 0x3096},
		{0x4e00, 0x4e80}, {0x10400, 0x1044f}, {0x1f600, 0x1f64f}, {0x80, 0x9f}, {0xd7f0, 0xe010}, {0xfff0, 0x10010}, {0x10fff0, 0x10ffff}}
	n = 40
	if thorough {
		n = 600
	}
	for _, sc := range scripts {
		for i := 0; i < n; i++ {
			c := sc[0] + rune(h.pick(int(sc[1]-sc[0])+1))
			if c >= 0xd800 && c < 0xe000 {
				// a surrogate key code cannot come from valid input; keep a few as raw key codes without text
				h.addKey(vaxis.Key{Keycode: c, Modifiers: vaxis.ModifierMask(h.pick(8))}, false, false, "surrogate")
				continue
			}
			m := vaxis.ModifierMask([]int{0, 0, 1, 1, 2, 4, 3, 5, 6, 7}[h.pick(10)])
			h.addKey(hostKey(unicode.ToLower(c), m), h.pick(4) == 0, h.pick(4) == 0, "script")
		}
	}
	// 5. texts of several code points: one cluster, several clusters
	for _, tx := range []string{"é", "\U0001F1E9\U0001F1EA", "ab", "क्ष", "äb", "\U0001F468‍\U0001F469‍\U0001F467", "ß", "ẞ"} {
		r := []rune(tx)[0]
		h.addKey(vaxis.Key{Keycode: r, Text: tx}, false, false, "multi")
		h.addKey(vaxis.Key{Keycode: unicode.ToLower(r), Text: tx, Modifiers: vaxis.ModShift}, false, false, "multi")
		h.addKey(vaxis.Key{Keycode: r, Text: tx, Modifiers: vaxis.ModAlt}, false, false, "multi")
	}
	// 6. random keys: any key code (negative, beyond Unicode), any modifier mask, unrelated text
	n = 300
	if thorough {
		n = 20000
	}
	for i := 0; i < n; i++ {
		var c rune
		switch h.pick(6) {
		case 0:
			c = rune(h.pick(128))
		case 1:
			c = rune(h.pick(0x3000))
		case 2:
			c = rune(h.pick(0x110000))
		case 3:
			c = vaxis.KeyUp + rune(h.pick(260)) - 5
		case 4:
			c = -rune(h.pick(1 << 20))
		default:
			c = rune(h.cfg.Rand.Int31())
		}
		if c >= 0xd800 && c < 0xe000 {
			c = 'q'
		}
		k := vaxis.Key{Keycode: c, Modifiers: vaxis.ModifierMask(h.pick(256))}
		if h.pick(20) == 0 {
			k.Modifiers = vaxis.ModifierMask(h.cfg.Rand.Int63()) - (1 << 62)
		}
		if h.pick(3) == 0 {
			k.ShiftedCode = rune(33 + h.pick(0x400))
		}
		if h.pick(2) == 0 {
			t := rune(33 + h.pick(0x500))
			k.Text = string(t)
			if h.pick(4) == 0 {
				k.Text += string(rune(33 + h.pick(90)))
			}
		}
		h.addKey(k, h.pick(2) == 0, h.pick(2) == 0, "random")
	}
}

var buttons = []vaxis.MouseButton{vaxis.MouseLeftButton, vaxis.MouseMiddleButton, vaxis.MouseRightButton, vaxis.MouseNoButton,
	vaxis.MouseWheelUp, vaxis.MouseWheelDown, vaxis.MouseButton8, vaxis.MouseButton9, vaxis.MouseButton10, vaxis.MouseButton11}

func (h *harness) pos() (int, int) {
	switch h.pick(8) {
	case 0:
		return 0, 0
	case 1:
		return 79, 23
	case 2:
		return 222, 94 // beyond the reach of the legacy encoding
	case 3:
		return h.pick(100000), h.pick(100000)
	case 4:
		return int(h.cfg.Rand.Int63()), int(h.cfg.Rand.Int63())
	default:
		return h.pick(200), h.pick(60)
	}
}

func (h *harness) genMouse() {
	thorough := h.cfg.Thorough()
	types := []vaxis.EventType{vaxis.EventPress, vaxis.EventRelease, vaxis.EventMotion}
	reps := 1
	if thorough {
		reps = 12
	}
	// every combination of the six modes x every button x press/release/motion
	for mask := 0; mask < 64; mask++ {
		b := func(i uint) bool { return mask&(1<<i) != 0 }
		for _, btn := range buttons {
			for _, ty := range types {
				for r := 0; r < reps; r++ {
					col, row := h.pos()
					mods := vaxis.ModifierMask(0)
					if h.pick(4) == 0 {
						mods = vaxis.ModifierMask(h.pick(8))
					}
					ops := h.mouseOps(b(0), b(1), b(2), b(3), b(4), b(5))
					h.addEvent(ops, vaxis.Mouse{Button: btn, Col: col, Row: row, EventType: ty, Modifiers: mods}, "grid")
				}
			}
		}
	}
	// random buttons, event types and positions (negative ones too)
	n := 300
	if thorough {
		n = 20000
	}
	for i := 0; i < n; i++ {
		mask := h.pick(64)
		b := func(i uint) bool { return mask&(1<<i) != 0 }
		col, row := h.pos()
		if h.pick(10) == 0 {
			col = -h.pick(50)
		}
		if h.pick(10) == 0 {
			row = -1 - h.pick(3)
		}
		if h.pick(40) == 0 {
			col = int(^uint(0) >> 1)
		}
		btn := vaxis.MouseButton(h.pick(300))
		if h.pick(3) == 0 {
			btn = buttons[h.pick(len(buttons))]
		}
		ty := vaxis.EventType(h.pick(5))
		h.addEvent(h.mouseOps(b(0), b(1), b(2), b(3), b(4), b(5)),
			vaxis.Mouse{Button: btn, Col: col, Row: row, EventType: ty, Modifiers: vaxis.ModifierMask(h.pick(8))}, "random")
	}
	// paste boundaries with and without mode 2004, other events
	for i := 0; i < 8; i++ {
		var ops []term.VerifC13ModeOp
		switch i % 4 {
		case 1:
			ops = []term.VerifC13ModeOp{{Kind: 'h', N: 2004}}
		case 2:
			ops = []term.VerifC13ModeOp{{Kind: 'h', N: 2004}, {Kind: 'l', N: 2004}}
		case 3:
			ops = []term.VerifC13ModeOp{{Kind: 'h', N: 1006}, {Kind: 'h', N: 2004}, {Kind: 'h', N: 1000}}
		}
		h.addEvent(ops, vaxis.PasteStartEvent{}, "paste")
		h.addEvent(ops, vaxis.PasteEndEvent{}, "paste")
	}
	h.addEvent(nil, vaxis.FocusIn{}, "other")
	h.addEvent([]term.VerifC13ModeOp{{Kind: 'h', N: 1000}}, vaxis.Resize{}, "other")
}

func main() {
	cfg := hx.ParseFlags()
	h := &harness{cfg: cfg, host: newHost()}
	h.keys = hx.NewStream("key", "gen.GenKeys model.Keys model.TermMouse model.TermKeys", "key_case", "c13_key_mismatches", "c13_key_violations")
	h.mice = hx.NewStream("mouse", "gen.GenKeys model.Keys model.TermMouse model.TermKeys", "mouse_case", "c13_mouse_mismatches", "c13_mouse_violations")
	h.pads = hx.NewStream("keypad", "gen.GenKeys model.Keys model.TermMouse model.TermKeys", "keypad_case", "c13_keypad_mismatches", "c13_keypad_violations")
	h.pads.Known = "c13_keypad_known"
	h.pads.KnownClass = "keypad-mode-ignored"
	h.kids = hx.NewStream("child", "gen.GenKeys model.Keys model.Parser model.TermMouse model.TermKeys", "child_case", "c13_child_mismatches", "c13_child_violations")
	h.hist = hx.NewStream("hist", "gen.GenKeys model.Keys model.Parser model.TermMouse model.TermKeys model.TermHist", "hist_case", "c13_hist_mismatches", "c13_hist_violations")
	h.hist.ShardMax = 40
	h.cuts = hx.NewStream("cut", "gen.GenKeys model.Keys model.Parser model.TermMouse model.TermKeys model.TermHist", "hist_case", "c13_cut_mismatches", "c13_cut_violations")
	h.cuts.ShardMax = 40
	h.keys.ShardMax = 250
	h.mice.ShardMax = 250
	h.kids.ShardMax = 250
	h.genKeypad()
	h.genKeys()
	h.genMouse()
	h.genChild()
	h.genHist()
	h.genCut()
	ok := hx.WithTimeout(5*time.Second, h.host.vx.Close)
	extra := map[string]interface{}{"host_reads": h.host.reads, "host_reads_after_pause": h.host.pauses, "host_closed": ok}
	cfg.Write("C13", "key stream: every key of xtermKeymap x 8 modifier sets x DECCKM x DECKPAM exhaustively, every named key, printable ASCII x 8 modifier sets exhaustively, "+
		"Tab/Enter/Esc/Backspace x 8, sampled scripts, multi-code-point texts, random key codes/masks/texts; each is written by Model.Update into a pipe "+
		"(modes set through the emulator's DECSET/DECRST/ESC = dispatch) and the bytes are read back by a real Vaxis on a fake console. "+
		"keypad stream: every keypad key (with its kitty text, with Num Lock, with Shift) and some other keys, written under DECKPNM and under DECKPAM; the unmodified keypad keys are the guard of the recorded finding keypad-mode-ignored. "+
		"mouse stream: 64 mode combinations x 10 buttons x press/release/motion, random buttons/types/positions, paste boundaries with and without 2004; "+
		"read back by the real Vaxis unless the bytes are a legacy X10 report. "+
		"child stream: the modes come from the child's OUTPUT as bytes (real ansi.Parser, every sequence through the unmodified Model.update): DECSET/DECRST with 1-10 parameters in any order "+
		"(1, 1000, 1002, 1003, 1006, 1007, 2004 mixed with 1049/47/1047 and unrelated modes, omitted parameters, duplicates), on the primary and on the alternate screen, "+
		"every input mode paired with every companion in both orders (set together / reset together / both), start-up and clean-up strings (any subset, any order, sent twice), "+
		"random output with keypad switches, RIS, text, SM/RM/DECRQM and other control functions in between; then DECRQM for the eight input modes and one key / paste boundary / mouse event "+
		"through Model.Update; the property is decided from the requests the generator put into the output (the child's last word on each mode), not from the emulator's mode state. "+
		"non-trivial = key: Shift/Alt/Ctrl held, a special key or a non-default mode; "+
		"mouse: something was written; child: a DECSET/DECRST with at least two parameters; hist: an event, then child output, then another event on the same emulator; "+
		"cut stream: ONE emulator fed by ONE real ansi.Parser whose input arrives in pieces cut at arbitrary byte offsets (every mode-setting control function — DECSET/DECRST alone and in parameter lists, "+
		"ESC = / ESC > / RIS — cut at EVERY byte offset with the governed gesture forwarded before, between the halves and after; whole streams byte by byte; random streams cut at random places), "+
		"a request counts from the read that delivers its last byte; non-trivial = an event was forwarded while a control function was half delivered; distinct by the whole case",
		[]*hx.Stream{h.pads, h.keys, h.mice, h.kids, h.hist, h.cuts}, extra, h.host.direct)
}
