package main

import (
	"fmt"

	vaxis "git.sr.ht/~rockorager/vaxis"
	"git.sr.ht/~rockorager/vaxis/widgets/term"
)

func run(ops []term.VerifC13ModeOp, ev vaxis.Event) []byte {
	t, err := term.VerifC13New()
	if err != nil {
		panic(err)
	}
	t.Apply(ops)
	return t.Update(ev)
}

func main() {
	fmt.Printf("shift+tab: %q\n", term.VerifC13EncodeXterm(vaxis.Key{Keycode: vaxis.KeyTab, Modifiers: vaxis.ModShift}, false, false))
	fmt.Printf("1006 only, press: %q\n", run([]term.VerifC13ModeOp{{'h', 1006}}, vaxis.Mouse{Button: vaxis.MouseLeftButton, Col: 3, Row: 4, EventType: vaxis.EventPress}))
	fmt.Printf("1003+1006, drag: %q\n", run([]term.VerifC13ModeOp{{'h', 1003}, {'h', 1006}}, vaxis.Mouse{Button: vaxis.MouseLeftButton, Col: 3, Row: 4, EventType: vaxis.EventMotion}))
	fmt.Printf("1003+1006, motion: %q\n", run([]term.VerifC13ModeOp{{'h', 1003}, {'h', 1006}}, vaxis.Mouse{Button: vaxis.MouseNoButton, Col: 3, Row: 4, EventType: vaxis.EventMotion}))
	fmt.Printf("1002+1006, drag: %q\n", run([]term.VerifC13ModeOp{{'h', 1002}, {'h', 1006}}, vaxis.Mouse{Button: vaxis.MouseLeftButton, Col: 3, Row: 4, EventType: vaxis.EventMotion}))
	fmt.Printf("1000+1006, ctrl press: %q\n", run([]term.VerifC13ModeOp{{'h', 1000}, {'h', 1006}}, vaxis.Mouse{Button: vaxis.MouseLeftButton, Col: 3, Row: 4, EventType: vaxis.EventPress, Modifiers: vaxis.ModCtrl}))
	fmt.Printf("1049 wheel: %q\n", run([]term.VerifC13ModeOp{{'h', 1049}}, vaxis.Mouse{Button: vaxis.MouseWheelUp, EventType: vaxis.EventPress}))
	fmt.Printf("paste off: %q on: %q\n", run(nil, vaxis.PasteStartEvent{}), run([]term.VerifC13ModeOp{{'h', 2004}}, vaxis.PasteEndEvent{}))
	fmt.Printf("ctrl+space: %q\n", term.VerifC13EncodeXterm(vaxis.Key{Keycode: ' ', Modifiers: vaxis.ModCtrl}, false, false))
}
