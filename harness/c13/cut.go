package main

import (
	"fmt"
	"io"
	"strings"
	"unicode/utf8"

	vaxis "git.sr.ht/~rockorager/vaxis"
	"git.sr.ht/~rockorager/vaxis/ansi"
	"git.sr.ht/~rockorager/vaxis/widgets/term"
	"verif/harness/hx"
)

// ---------- cut stream: child output cut at ANY byte, ONE parser for the whole history ----------

// cutReader stands in for the PTY: every Read returns (the rest of) one piece,
// and the reader announces on idle that the parser has come back for more,
// i.e. that everything delivered so far has been consumed.
type cutReader struct {
	ch   chan []byte
	idle chan struct{}
	cur  []byte
}

func (r *cutReader) Read(p []byte) (int, error) {
	if len(r.cur) == 0 {
		r.idle <- struct{}{}
		b, ok := <-r.ch
		if !ok {
			return 0, io.EOF
		}
		r.cur = b
	}
	n := copy(p, r.cur)
	r.cur = r.cur[n:]
	return n, nil
}

// cutParser is ONE real ansi.Parser reading the pieces one after the other, as
// the emulator's parser reads the PTY: its state survives between the pieces.
type cutParser struct {
	r *cutReader
	p *ansi.Parser
}

func newCutParser() *cutParser {
	r := &cutReader{ch: make(chan []byte), idle: make(chan struct{})}
	cp := &cutParser{r: r, p: ansi.NewParser(r)}
	<-r.idle
	return cp
}

// feed hands one piece to the parser and returns the sequences it delivered
// before it came back for more.
func (cp *cutParser) feed(b []byte) (out []ansi.Sequence) {
	cp.r.ch <- append([]byte(nil), b...)
	for {
		select {
		case s := <-cp.p.Next():
			out = append(out, s)
		case <-cp.r.idle:
			for {
				select {
				case s := <-cp.p.Next():
					out = append(out, s)
				default:
					return out
				}
			}
		}
	}
}

func (cp *cutParser) close() {
	close(cp.r.ch)
	for range cp.p.Next() {
	}
}

// cutCase: the child's stream (pieces with the requests the generator meant),
// the byte offsets at which the PTY reads end, and the events forwarded after
// the read that ends at a given offset.
type cutCase struct {
	stream []piece
	cuts   []int
	events map[int][]vaxis.Event
}

// addCut drives ONE emulator and ONE parser through the cut stream.  A request
// belongs to the read that delivers its last byte.  Returns false when the
// Escape timer fired between two reads (the harness was descheduled for more
// than 10 ms right after an ESC): the case is then run again.
func (h *harness) addCutOnce(c cutCase, tags []string) bool {
	t, oc, msg := term.VerifNewTerm(80, 24)
	if oc != term.VerifOK {
		panic("VerifNewTerm: " + msg)
	}
	defer t.Close()
	cp := newCutParser()
	defer cp.close()
	var all []byte
	var ends []int // end offset of every piece of the generator
	for _, p := range c.stream {
		all = append(all, p.bytes...)
		ends = append(ends, len(all))
	}
	js := map[string]interface{}{}
	var jsSteps []interface{}
	var obs []string
	timerEsc := false
	var direct []hx.DirectViolation
	feed := func(b []byte) {
		for _, seq := range cp.feed(b) {
			if _, ok := seq.(ansi.EOF); ok {
				continue
			}
			if hx.IsTimerEsc(seq) {
				timerEsc = true
			}
			if oc, msg := t.Feed(seq); oc != term.VerifOK {
				direct = append(direct, hx.DirectViolation{Class: "child-output-outcome", Case: js,
					What: fmt.Sprintf("Model.update ended with outcome %d (%s) on %q", oc, msg, b)})
			}
		}
	}
	cuts := append(append([]int(nil), c.cuts...), len(all))
	start, events, midSeq := 0, 0, 0
	for _, end := range cuts {
		if end <= start || end > len(all) {
			continue
		}
		var reqs []creq
		for i, e := range ends {
			if e > start && e <= end && c.stream[i].req != nil {
				reqs = append(reqs, *c.stream[i].req)
			}
		}
		inside := true
		for _, e := range ends {
			if e == end {
				inside = false
			}
		}
		feed(all[start:end])
		t.Replies()
		obs = append(obs, "OOut "+reqsTerm(reqs)+" "+hx.Bytes(all[start:end]))
		jsSteps = append(jsSteps, map[string]interface{}{"pty_read": fmt.Sprintf("%q", all[start:end]), "requests_completed": reqsJSON(reqs)})
		start = end
		for _, ev := range c.events[end] {
			if inside {
				midSeq++
			}
			evTerm, evJS := evDesc(ev)
			panicked, pmsg := hx.Catch(func() { t.Model().Update(ev) })
			if panicked {
				direct = append(direct, hx.DirectViolation{Class: "update-panic", Case: evJS, What: pmsg})
			}
			written := t.Replies()
			_, isKey := ev.(vaxis.Key)
			reread := (isKey || len(written) > 0) && !strings.HasPrefix(string(written), "\x1b[M")
			pause := len(written) > 0 && written[len(written)-1] == 0x1b
			evsTerm := hx.None
			var evsJS interface{}
			if reread {
				evs, ok := h.host.read(written, pause)
				if !ok {
					direct = append(direct, hx.DirectViolation{Class: "host-hang", Case: evJS,
						What: fmt.Sprintf("the host Vaxis did not deliver the sentinel after %q", written)})
				}
				if strings.Contains(string(written), "\x1b[200~") {
					h.host.read([]byte("\x1b[201~"), false) // leave paste mode again
				}
				evsTerm = hx.Some(eventsTerm(evs))
				evsJS = eventsJSON(evs)
			}
			obs = append(obs, fmt.Sprintf("OEv %s %s %s %s", evTerm, hx.Bool(pause), hx.Bytes(written), evsTerm))
			jsSteps = append(jsSteps, map[string]interface{}{"event": evJS, "written": fmt.Sprintf("%q", written), "events": evsJS})
			events++
		}
	}
	var q []byte
	for _, n := range reportedModes {
		q = append(q, fmt.Sprintf("\x1b[?%d$p", n)...)
	}
	feed(q)
	report := t.Replies()
	if timerEsc {
		return false
	}
	h.host.direct = append(h.host.direct, direct...)
	js["steps"] = jsSteps
	js["decrqm_replies_at_end"] = fmt.Sprintf("%q", report)
	termS := hx.Tuple(hx.List(obs), hx.Bytes(report))
	tags = append(append([]string(nil), tags...), fmt.Sprintf("reads-%d", (len(cuts)/4)*4))
	if midSeq > 0 {
		tags = append(tags, "event-inside-a-sequence")
	}
	h.cuts.Add(termS, js, midSeq > 0, tags...)
	return true
}

func (h *harness) addCut(c cutCase, tags ...string) {
	// never an event (host read-back takes milliseconds) right after a read that ends in ESC, and every
	// cut on a rune boundary
	var all []byte
	for _, p := range c.stream {
		all = append(all, p.bytes...)
	}
	var cuts []int
	for _, off := range c.cuts {
		if off <= 0 || off >= len(all) || !utf8.RuneStart(all[off]) {
			continue
		}
		cuts = append(cuts, off)
		if all[off-1] == 0x1b {
			delete(c.events, off)
		}
	}
	c.cuts = cuts
	for n := 0; n <= hx.TimerEscRetries; n++ {
		if h.addCutOnce(c, tags) {
			return
		}
	}
	h.host.direct = append(h.host.direct, hx.DirectViolation{Class: "cut-timer", Case: fmt.Sprintf("%q", all),
		What: "the Escape timer fired between two reads in every attempt"})
}

func (h *harness) cutPrelude(n int) []piece {
	var ps []piece
	switch n {
	case 1006:
		ps = append(ps, h.req('h', []int{1000, 1002, 1003}[h.pick(3)]))
	case 1000, 1002, 1003:
		if h.pick(3) != 0 {
			ps = append(ps, h.req('h', 1006))
		}
	case 1007:
		ps = append(ps, h.req('h', 1049), h.req('l', 1007))
	}
	if h.pick(4) == 0 {
		ps = append(ps, h.distractor())
	}
	return ps
}

func streamLen(ps []piece) int {
	n := 0
	for _, p := range ps {
		n += len(p.bytes)
	}
	return n
}

func (h *harness) genCut() {
	thorough := h.cfg.Thorough()
	modes := []int{2004, 1, '=', 1000, 1002, 1003, 1006, 1007, 1049}
	hows := 2
	if thorough {
		hows = 6
	}
	for _, n := range modes {
		for _, on := range []bool{true, false} {
			for how := 0; how < hows; how++ {
				// A. the mode-setting control function cut at EVERY byte offset, the event the mode governs
				//    forwarded before it, between its two halves and after it
				pre := append(h.cutPrelude(n), h.switchMode(n, !on, 0))
				target := h.switchMode(n, on, how%2)
				base := streamLen(pre)
				g := h.gestureFor(n)
				for off := 1; off < len(target.bytes); off++ {
					stream := append(append([]piece(nil), pre...), target)
					if h.pick(3) == 0 {
						stream = append(stream, h.distractor())
					}
					c := cutCase{stream: stream, cuts: []int{base, base + off, base + len(target.bytes)},
						events: map[int][]vaxis.Event{base: g, base + off: g, base + len(target.bytes): g}}
					h.addCut(c, "every-offset", fmt.Sprintf("offset-%d", off))
				}
				// B. byte by byte: every byte of the stream is its own read; events between any two
				stream := append(append([]piece(nil), pre...), target, h.switchMode(n, !on, how%2), h.switchMode(n, on, 0))
				total := streamLen(stream)
				c := cutCase{stream: stream, events: map[int][]vaxis.Event{}}
				for off := 1; off < total; off++ {
					c.cuts = append(c.cuts, off)
					if h.pick(6) == 0 {
						c.events[off] = []vaxis.Event{h.eventFor(n)}
					}
				}
				c.events[total] = g
				h.addCut(c, "byte-by-byte")
			}
		}
	}
	// C. random output (several requests per control function, keypad switches, RIS, distractors) cut at random
	//    places, any event anywhere
	reps := 40
	if thorough {
		reps = 600
	}
	for rep := 0; rep < reps; rep++ {
		var stream []piece
		for k := 3 + h.pick(6); k > 0; k-- {
			switch h.pick(5) {
			case 0:
				stream = append(stream, h.distractor())
			case 1:
				stream = append(stream, h.switchMode('=', h.pick(2) == 0, h.pick(3)))
			default:
				n := modes[h.pick(len(modes))]
				if n == '=' {
					n = 1
				}
				stream = append(stream, h.switchMode(n, h.pick(2) == 0, h.pick(3)))
			}
		}
		total := streamLen(stream)
		c := cutCase{stream: stream, events: map[int][]vaxis.Event{}}
		for off := 1; off < total; off++ {
			if h.pick(5) == 0 {
				c.cuts = append(c.cuts, off)
				if h.pick(2) == 0 {
					c.events[off] = []vaxis.Event{h.anyEvent()}
				}
			}
		}
		c.events[total] = []vaxis.Event{h.anyEvent(), h.eventFor(2004), h.eventFor(1)}
		h.addCut(c, "random-cuts")
	}
}
