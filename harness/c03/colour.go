package main

import (
	"bytes"
	"fmt"
	"strings"
	"time"

	vaxis "git.sr.ht/~rockorager/vaxis"
	"verif/harness/hx"
)

// Stream "colour": the CONTENT of the colour replies.  The real QueryColor / QueryForeground /
// QueryBackground are called on a real Vaxis (fake console; the replies are scripted by hand)
// against OSC 4 / OSC 10 / OSC 11 reports that match the query, name another palette entry, are
// malformed, duplicated, or stale (delivered before the call and parked in the 1-slot reply
// channel).  Observed: the trace of the steps with the return of every call where it happened
// (coq/model/InputColour.v: kstep, krun, ccase_violation).

// ---------- cases ----------

type CStep struct {
	// a delivered sequence: the bytes the terminal sends (through the real parser), or a
	// synthetic item (direct mode only: payloads the generator wants rune by rune)
	Bytes string `json:"bytes,omitempty"`
	It    *Item  `json:"it,omitempty"`
	// a call: "color" (with Arg), "fg", "bg"
	Call string `json:"call,omitempty"`
	Arg  uint32 `json:"arg,omitempty"`
	// observed only: the call returned Ret
	Ret *uint32 `json:"ret,omitempty"`
}

type CCase struct {
	Loop bool     `json:"loop"` // bytes through the real input goroutine (else handleSequence directly)
	Mask uint32   `json:"mask"`
	Plan []CStep  `json:"plan"`
	Show string   `json:"show"`
	Tags []string `json:"tags"`
}

type CResult struct {
	Code     int     `json:"code"`
	Msg      string  `json:"msg,omitempty"`
	Steps    []CStep `json:"-"`     // the input steps as executed
	Trace    []CStep `json:"trace"` // the same with the returns
	Init     Snap    `json:"init"`
	Final    *Snap   `json:"final"`
	CapsTerm string  `json:"-"`
	CapsOn   []string `json:"caps"`
	Answered int      `json:"answered"` // calls that passed their guards and returned
}

func chanOfCall(call string) int {
	switch call {
	case "color":
		return 0
	case "fg":
		return 1
	}
	return 2
}

func (s CStep) term() string {
	q := func() string {
		switch s.Call {
		case "color":
			return "(QColor " + hx.Z(int64(s.Arg)) + ")"
		case "fg":
			return "QFg"
		}
		return "QBg"
	}
	switch {
	case s.Ret != nil:
		return "KRet " + q() + " " + hx.Z(int64(*s.Ret))
	case s.Call != "":
		return "KCall " + q()
	}
	return "KItem (" + s.It.term() + ")"
}

func cstepsTerm(l []CStep) string {
	out := make([]string, len(l))
	for i, s := range l {
		out[i] = s.term()
	}
	return hx.List(out)
}

func (res CResult) term() string {
	fin := hx.None
	if res.Final != nil {
		fin = hx.Some(res.Final.term())
	}
	return hx.Tuple(hx.Tuple(res.CapsTerm, res.Init.term()), cstepsTerm(res.Steps),
		hx.Tuple(hx.Z(int64(res.Code)), cstepsTerm(res.Trace), fin))
}

// ---------- running one case ----------

type cwaiter struct {
	step CStep
	ch   chan uint32
}

// the reply channel a delivered sequence is for, by its OSC number (protocol knowledge, not the
// implementation's dispatch): 0 OSC 4.., 1 OSC 10.., 2 OSC 11.., -1 none
func replyChan(it Item) int {
	if it.Kind != "osc" {
		return -1
	}
	s := string(it.Runes)
	switch {
	case strings.HasPrefix(s, "4"):
		return 0
	case strings.HasPrefix(s, "10"):
		return 1
	case strings.HasPrefix(s, "11"):
		return 2
	}
	return -1
}

func runColour(cc CCase) CResult {
	in := newInst(hx.ProfileFromMask(cc.Mask, 24, 80), 0)
	res := CResult{Init: snapOf(in.vx)}
	res.CapsTerm, res.CapsOn = capsTerm(in.vx)
	sawQuery := make(chan struct{}, 8)
	in.fc.WriteHook = func(p []byte) {
		if bytes.Contains(p, []byte("\x1b]4;")) || bytes.Contains(p, []byte("\x1b]10;?")) || bytes.Contains(p, []byte("\x1b]11;?")) {
			sawQuery <- struct{}{}
		}
	}
	waiting := map[int]*cwaiter{}
	clean := true
	record := func(s CStep, input bool) {
		if input {
			res.Steps = append(res.Steps, s)
		}
		res.Trace = append(res.Trace, s)
	}
	// the call blocked on channel k returns now (it has, or will get, a payload)
	collect := func(k int, d time.Duration) bool {
		w := waiting[k]
		select {
		case v := <-w.ch:
			r := w.step
			r.Ret = &v
			record(r, false)
			delete(waiting, k)
			res.Answered++
			return true
		case <-time.After(d):
			return false
		}
	}
	lenOf := func(s Snap, k int) int { return []int{s.Color, s.Fg, s.Bg}[k] }

steps:
	for _, st := range cc.Plan {
		if st.Call != "" {
			k := chanOfCall(st.Call)
			if waiting[k] != nil {
				continue // one call at a time per reply channel: the previous one has not returned
			}
			st.Ret = nil
			record(st, true)
			before := snapOf(in.vx)
			w := &cwaiter{step: st, ch: make(chan uint32, 1)}
			st := st
			go func() {
				switch st.Call {
				case "color":
					w.ch <- uint32(in.vx.QueryColor(vaxis.Color(st.Arg)))
				case "fg":
					w.ch <- uint32(in.vx.QueryForeground())
				default:
					w.ch <- uint32(in.vx.QueryBackground())
				}
			}()
			select {
			case v := <-w.ch:
				// stopped by a guard (or answered from the parked payload before we looked)
				r := w.step
				r.Ret = &v
				record(r, false)
				select {
				case <-sawQuery:
					res.Answered++
				default:
				}
				continue
			case <-sawQuery:
			case <-time.After(time.Second):
				res.Code, res.Msg, clean = 2, "the call neither wrote its query nor returned within 1 s", false
				break steps
			}
			waiting[k] = w
			if lenOf(before, k) > 0 {
				// a payload is parked in the reply channel: the call takes it and returns
				if !collect(k, 500*time.Millisecond) {
					res.Msg += " a call did not take the payload parked in its reply channel;"
				}
			}
			continue
		}
		// delivered sequences
		var items []Item
		if st.It != nil {
			items = []Item{*st.It}
		} else if cc.Loop {
			b := append([]byte(st.Bytes), holdMarkerBytes...)
			items = parseItems(b)
			in.fc.Inject(b)
			deadline := time.After(1500 * time.Millisecond)
		wait:
			for {
				select {
				case ev := <-in.vx.Events():
					if isHoldMarker(fromEvent(ev)) {
						break wait
					}
				case <-deadline:
					for _, it := range items {
						it := it
						record(CStep{It: &it}, true)
					}
					res.Code, res.Msg, clean = 2, "marker key not delivered within 1.5 s", false
					break steps
				}
			}
		} else {
			items = parseItems([]byte(st.Bytes))
		}
		for _, it := range items {
			it := it
			record(CStep{It: &it}, true)
			if !cc.Loop || st.It != nil {
				var panicked bool
				var msg string
				returned := hx.WithTimeout(300*time.Millisecond, func() {
					panicked, msg = hx.Catch(func() { in.vx.VerifC03Handle(it.toSeq()) })
				})
				if !returned {
					res.Code, res.Msg, clean = 2, "handleSequence did not return within 300 ms", false
					break steps
				}
				if panicked {
					res.Code, res.Msg = 1, msg
					break steps
				}
			}
			if k := replyChan(it); k >= 0 && waiting[k] != nil {
				collect(k, 300*time.Millisecond)
			}
		}
		if cc.Loop && st.It == nil {
			// the returns of a chunk that went through the goroutine are observed after the chunk:
			// a chunk carries at most one report per channel that a call is waiting on (generator)
			in.drain()
		}
	}
	if res.Code == 0 {
		f := snapOf(in.vx)
		res.Final = &f
	}
	// let the callers that are still blocked go (not part of the observation)
	for k, w := range waiting {
		pl := []string{"4;0;rgb:0/0/0", "10;rgb:0/0/0", "11;rgb:0/0/0"}[k]
		for i := 0; i < 3 && res.Code == 0; i++ {
			it := Item{Kind: "osc", Runes: []rune(pl)}
			hx.WithTimeout(300*time.Millisecond, func() { hx.Catch(func() { in.vx.VerifC03Handle(it.toSeq()) }) })
			select {
			case <-w.ch:
				i = 3
			case <-time.After(20 * time.Millisecond):
			}
		}
	}
	in.drain()
	in.close(clean)
	return res
}

// ---------- generators ----------

func (g *gen) hexField() string {
	digits := "0123456789abcdef"
	if g.n(5) == 0 {
		digits = "0123456789ABCDEF"
	}
	n := []int{4, 4, 4, 2, 2, 1, 3}[g.n(7)]
	b := make([]byte, n)
	for i := range b {
		b[i] = digits[g.n(16)]
	}
	if g.n(6) == 0 {
		// xterm style: the byte repeated
		return string(b[:1]) + string(b[:1]) + string(b[:1]) + string(b[:1])
	}
	return string(b)
}

// a colour specification, mostly the strict form rgb:<r>/<g>/<b>; sometimes one of the shapes at
// the boundary of what the caller's scan accepts (blanks, signs, overflow, missing and extra
// fields, other colour syntaxes, trailing text)
func (g *gen) colourSpec() (string, string) {
	r, gr, b := g.hexField(), g.hexField(), g.hexField()
	switch g.n(40) {
	case 0:
		return "rgb:" + r + "/" + gr, "spec-two-fields"
	case 1:
		return "rgb:" + r + "//" + b, "spec-empty-field"
	case 2:
		return "rgb:" + r + "/" + gr + "/" + b + "/" + g.hexField(), "spec-four-fields"
	case 3:
		return "rgb:" + r + "/" + gr + "/" + b + g.pick("junk", " ", ";x", "g", "/", "é", "\t"), "spec-trailing"
	case 4:
		return "rgb:" + g.pick(" ", "  ", "\t", "\u00a0", "\u3000", "\r", "\u2003", "\u0085") + r + "/" + gr + "/" + g.pick(" ", "\u00a0", "") + b, "spec-blanks"
	case 5:
		return "rgb:" + g.pick("-", "+") + r + "/" + g.pick("-", "+", "") + gr + "/" + g.pick("-", "+") + b, "spec-signs"
	case 6:
		big := g.pick("7fffffffffffffff", "8000000000000000", "ffffffffffffffff", "10000000000000000", "00000000000000000000ab", "123456789abcdef01")
		f := []string{r, gr, b}
		f[g.n(3)] = g.pick("", "-") + big
		return "rgb:" + f[0] + "/" + f[1] + "/" + f[2], "spec-overflow"
	case 7:
		return g.pick("#", "#") + r + gr + b, "spec-sharp"
	case 8:
		return g.pick("rgbi:", "rgba:", "RGB:", "rgb", "rgb;", "rgb::", "hsl:") + r + "/" + gr + "/" + b, "spec-other-syntax"
	case 9:
		return "rgb:" + g.pick("zz", "g0", "x11", "0x11", "_1", "", " ", "+", "-") + "/" + gr + "/" + b, "spec-nonhex"
	case 10:
		return g.pick("?", "", "rgb:", "r", "rgb:/", "rgb://"), "spec-truncated"
	case 11:
		return "rgb:" + r + g.pick(" /", "\n/", "/\n", ":", ";") + gr + "/" + b, "spec-separator"
	}
	return "rgb:" + r + "/" + gr + "/" + b, "spec-strict"
}

// the text in front of the colour specification of an OSC 4 report naming entry idx, or one of
// its look-alikes
func (g *gen) osc4Head(idx int) (string, string) {
	switch g.n(30) {
	case 0:
		return fmt.Sprintf("4;%03d;", idx), "head-leading-zeros"
	case 1:
		return fmt.Sprintf("4;%s%d;", g.pick(" ", "+", "-"), idx), "head-sign-or-blank"
	case 2:
		return fmt.Sprintf("4;%d", idx), "head-no-separator"
	case 3:
		return fmt.Sprintf("4%d;", idx), "head-osc-number-joined"
	case 4:
		return fmt.Sprintf("4;%d;%d;", idx, idx), "head-index-twice"
	case 5:
		return fmt.Sprintf("4;;%d;", idx), "head-empty-field"
	case 6:
		return fmt.Sprintf("4;%d;", idx+256), "head-index-plus-256"
	}
	return fmt.Sprintf("4;%d;", idx), "head-plain"
}

func oscBytes(g *gen, body string) string { return "\x1b]" + body + g.pick("\x07", "\x1b\\") }

// indices whose decimal forms are prefixes of one another, boundary values, and neighbours
var idxPools = [][]int{{1, 12, 123}, {2, 25, 255}, {0, 10, 100}, {5, 3, 7}, {9, 99, 199}, {255, 254, 0}, {16, 61, 116}, {20, 200, 2}}

// a random schedule over a small pool of palette entries: calls, reports for entries of the pool
// (so that a report for another entry than the one asked for is the common case), foreground /
// background calls and reports, keys
func (g *gen) colourCase(loop bool, maxLen int) CCase {
	pool := idxPools[g.n(len(idxPools))]
	if g.n(4) == 0 {
		pool = []int{g.n(256), g.n(256), g.n(256)}
	}
	mask := uint32(0x1ffff) &^ (1 << 3)
	switch g.n(8) {
	case 0:
		mask = g.mask()
	case 1:
		mask &^= 1 << uint(12+g.n(3))
	}
	cc := CCase{Loop: loop, Mask: mask}
	tags := map[string]bool{}
	show := []string{}
	add := func(s CStep, tag, sh string) {
		cc.Plan = append(cc.Plan, s)
		tags[tag] = true
		show = append(show, sh)
	}
	reply := func(body string, tag ...string) {
		b := oscBytes(g, body)
		for _, t := range tag {
			tags[t] = true
		}
		add(CStep{Bytes: b}, "report", quoted([]byte(b)))
	}
	n := 2 + g.n(maxLen)
	for i := 0; i < n; i++ {
		switch v := g.n(20); {
		case v < 5:
			idx := pool[g.n(len(pool))]
			add(CStep{Call: "color", Arg: uint32(vaxis.IndexColor(uint8(idx)))}, "call-color", fmt.Sprintf("<QueryColor(%d)>", idx))
		case v < 6:
			switch g.n(3) {
			case 0:
				c := uint32(vaxis.RGBColor(uint8(g.n(256)), uint8(g.n(256)), uint8(g.n(256))))
				add(CStep{Call: "color", Arg: c}, "call-color-rgb", fmt.Sprintf("<QueryColor(%#x)>", c))
			case 1:
				add(CStep{Call: "color", Arg: 0}, "call-color-default", "<QueryColor(0)>")
			default:
				// both tag bits set, or stray high bits
				c := uint32(g.pick("\x03", "\x07", "\x01", "\x81")[0])<<24 | uint32(g.n(1<<24))
				add(CStep{Call: "color", Arg: c}, "call-color-oddbits", fmt.Sprintf("<QueryColor(%#x)>", c))
			}
		case v < 8:
			add(CStep{Call: "fg"}, "call-fg", "<QueryForeground>")
		case v < 10:
			add(CStep{Call: "bg"}, "call-bg", "<QueryBackground>")
		case v < 16:
			idx := pool[g.n(len(pool))]
			h, ht := g.osc4Head(idx)
			sp, st := g.colourSpec()
			reply(h+sp, "report-osc4", ht, st)
			if g.n(6) == 0 {
				reply(h+sp, "report-repeated")
			}
		case v < 17:
			sp, st := g.colourSpec()
			reply("10;"+sp, "report-osc10", st)
		case v < 18:
			sp, st := g.colourSpec()
			reply("11;"+sp, "report-osc11", st)
		case v < 19:
			sp, _ := g.colourSpec()
			reply(g.pick("4", "4;", "40;1;", "104", "104;1", "110;", "111", "1", "12;", "4;1;?", "10;?", "11;?", "10", "11", "5;1;", "52;c;aGk=")+g.pick("", sp), "report-other")
		default:
			k := g.key()
			add(CStep{Bytes: k.bytes}, "key", quoted([]byte(k.bytes)))
		}
	}
	cc.Show = strings.Join(show, " ")
	for t := range tags {
		cc.Tags = append(cc.Tags, t)
	}
	if loop {
		cc.Tags = append(cc.Tags, "loop")
	} else {
		cc.Tags = append(cc.Tags, "direct")
	}
	return cc
}

// payloads rune by rune (direct mode): what only a synthetic item can carry
func (g *gen) syntheticColourCase() CCase {
	idx := g.n(256)
	head := fmt.Sprintf("4;%d;", idx)
	call := CStep{Call: "color", Arg: uint32(vaxis.IndexColor(uint8(idx)))}
	switch g.n(3) {
	case 0:
		head, call = "10;", CStep{Call: "fg"}
	case 1:
		head, call = "11;", CStep{Call: "bg"}
	}
	alpha := []rune("0123456789abcdefABCDEF/ :;+-rgb\n\r\t_xg\u00a0\u3000\x00é\u2028")
	var rs []rune
	switch g.n(3) {
	case 0:
		rs = []rune(head + "rgb:")
		for i, n := 0, g.n(14); i < n; i++ {
			rs = append(rs, alpha[g.n(len(alpha))])
		}
	case 1:
		sp, _ := g.colourSpec()
		rs = []rune(head + sp)
		for i, n := 0, 1+g.n(2); i < n && len(rs) > 0; i++ {
			k := g.n(len(rs))
			switch g.n(3) {
			case 0:
				rs[k] = alpha[g.n(len(alpha))]
			case 1:
				rs = append(rs[:k:k], rs[k+1:]...)
			default:
				rs = append(rs[:k:k], append([]rune{alpha[g.n(len(alpha))]}, rs[k:]...)...)
			}
		}
	default:
		sp, _ := g.colourSpec()
		rs = []rune(head + sp)
		// code points string([]rune) replaces
		rs = append(rs, []rune{0xD800, 0x110000, -1}[g.n(3)])
	}
	it := Item{Kind: "osc", Runes: rs}
	cc := CCase{Mask: uint32(0x1ffff) &^ (1 << 3), Tags: []string{"synthetic-payload", "direct"}}
	if g.n(2) == 0 {
		cc.Plan = []CStep{call, {It: &it}}
	} else {
		cc.Plan = []CStep{{It: &it}, call}
		cc.Tags = append(cc.Tags, "stale")
	}
	cc.Show = fmt.Sprintf("%q", string(rs))
	return cc
}

func directedColour() []CCase {
	var out []CCase
	all := uint32(0x1ffff) &^ (1 << 3)
	ix := func(i int) CStep { return CStep{Call: "color", Arg: uint32(vaxis.IndexColor(uint8(i)))} }
	rep := func(body string) CStep { return CStep{Bytes: "\x1b]" + body + "\x1b\\"} }
	r4 := func(i int, spec string) CStep { return rep(fmt.Sprintf("4;%d;%s", i, spec)) }
	fg, bg := CStep{Call: "fg"}, CStep{Call: "bg"}
	add := func(mask uint32, tag string, plan ...CStep) {
		for _, loop := range []bool{false, true} {
			cc := CCase{Loop: loop, Mask: mask, Plan: plan, Tags: []string{tag, "directed"}}
			var sh []string
			for _, s := range plan {
				switch {
				case s.Call == "color":
					sh = append(sh, fmt.Sprintf("<QueryColor(%#x)>", s.Arg))
				case s.Call != "":
					sh = append(sh, "<"+s.Call+">")
				default:
					sh = append(sh, quoted([]byte(s.Bytes)))
				}
			}
			cc.Show = strings.Join(sh, " ")
			if loop {
				cc.Tags = append(cc.Tags, "loop")
			} else {
				cc.Tags = append(cc.Tags, "direct")
			}
			out = append(out, cc)
		}
	}
	a, b, c := "rgb:1111/2222/3333", "rgb:aaaa/bbbb/cccc", "rgb:4e4e/9a9a/0606"
	for _, p := range [][2]int{{5, 3}, {1, 12}, {12, 1}, {25, 255}, {0, 100}, {255, 0}, {7, 7}} {
		j, i := p[0], p[1]
		add(all, "matching", ix(j), r4(j, a))
		add(all, "other-index", ix(j), r4(i, a), ix(j), r4(j, b))
		add(all, "stale", r4(i, a), ix(j), r4(j, b))
		add(all, "stale-then-next", r4(i, a), ix(j), r4(j, b), ix(j), r4(j, c), ix(i))
		add(all, "stale-two", r4(i, a), r4(j, b), ix(j), ix(j), r4(j, c))
		add(all, "repeated", ix(j), r4(j, a), r4(j, a), ix(i), r4(i, b), ix(i))
		add(all, "late-pair", ix(j), r4(i, a), r4(j, b), ix(i), ix(j))
	}
	for _, spec := range []string{"rgb:12/34/56", "rgb:1/2/3", "rgb:ABCD/EF01/2345", "rgb:123/456/789", "rgb:1111/2222", "rgb:1111//3333",
		"rgb:1111/2222/3333/4444", "rgb:1111/2222/3333zz", "rgb: 11/ 22/ 33", "rgb:-11/+22/-33", "rgb:8000000000000000/1/1",
		"rgb:-8000000000000000/1/1", "rgb:7fffffffffffffff/1/1", "#112233", "rgbi:1.0/0.5/0.0", "?", "", "rgb:", "rgb:g/1/1", "rgb:1/1/g", "rgb:0x11/22/33"} {
		add(all, "spec-forms", ix(9), r4(9, spec))
		add(all, "spec-forms", fg, rep("10;"+spec))
		add(all, "spec-forms", bg, rep("11;"+spec))
		add(all, "spec-forms-stale", r4(9, spec), ix(9))
	}
	// foreground / background: reports on the wrong channel, stale, repeated
	add(all, "fg-bg", fg, rep("11;"+a), rep("10;"+b), bg)
	add(all, "fg-bg", rep("10;"+a), rep("10;"+b), fg, fg, rep("10;"+c))
	add(all, "fg-bg", bg, fg, rep("10;"+a), rep("11;"+b))
	add(all, "fg-bg", fg, rep("104"), rep("10"), fg, rep("10;"+a))
	add(all, "fg-bg", ix(4), fg, rep("4;4;"+a), rep("10;"+b), rep("40;"+c), ix(4))
	add(all, "fg-bg", bg, rep("110;x"), bg)
	// the guards: no OSC 4 / 10 / 11 support, an RGB colour, the default colour
	for _, m := range []uint32{0, all &^ (1 << 12), all &^ (1 << 13), all &^ (1 << 14)} {
		add(m, "guards", ix(5), fg, bg, r4(5, a), rep("10;"+a), rep("11;"+a), ix(5), fg, bg)
	}
	add(all, "guards", CStep{Call: "color", Arg: uint32(vaxis.RGBColor(1, 2, 3))}, CStep{Call: "color", Arg: 0}, r4(0, a), ix(0))
	add(all, "guards", CStep{Call: "color", Arg: 3<<24 | 0x010203}, r4(3, a))
	return out
}

func colourCases(g *gen, s *hx.Stream, nDirect, nLoop, nSynth int) (time.Duration, map[string]int) {
	t0 := time.Now()
	var cases []CCase
	cases = append(cases, directedColour()...)
	for i := 0; i < nDirect; i++ {
		cases = append(cases, g.colourCase(false, 8))
	}
	for i := 0; i < nLoop; i++ {
		cases = append(cases, g.colourCase(true, 6))
	}
	for i := 0; i < nSynth; i++ {
		cases = append(cases, g.syntheticColourCase())
	}
	stats := map[string]int{}
	for _, cc := range cases {
		res := runColour(cc)
		nonzero := 0
		for _, st := range res.Trace {
			if st.Ret != nil && *st.Ret != 0 {
				nonzero++
			}
		}
		tags := append([]string{}, cc.Tags...)
		if res.Answered > 0 {
			tags = append(tags, "call-answered")
		}
		if nonzero > 0 {
			tags = append(tags, "colour-returned")
			stats["colour_returned"]++
		}
		tags = append(tags, []string{"outcome-ok", "outcome-panic", "outcome-wedged"}[res.Code])
		js := map[string]interface{}{"case": cc, "observed": res}
		s.Add(res.term(), js, res.Answered > 0 || res.Code != 0, tags...)
		stats["cases"]++
		stats["answered_calls"] += res.Answered
	}
	return time.Since(t0), stats
}
