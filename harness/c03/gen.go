package main

import (
	"encoding/base64"
	"fmt"
	"math/rand"
	"strings"
)

// A token is one thing a terminal may send: a user report, a reply, or garbage.
type token struct {
	tag   string
	bytes string
}

type gen struct{ r *rand.Rand }

func (g *gen) n(k int) int              { return g.r.Intn(k) }
func (g *gen) pick(xs ...string) string { return xs[g.n(len(xs))] }

// small numbers with boundary values, sometimes huge (int64 wrap in the parser)
func (g *gen) num() string {
	switch g.n(12) {
	case 0:
		return ""
	case 1:
		return "0"
	case 2:
		return "1"
	case 3:
		return fmt.Sprint(g.n(300))
	case 4:
		return g.pick("9223372036854775807", "9223372036854775808", "18446744073709551617", "65536", "4294967296")
	default:
		return fmt.Sprint(1 + g.n(200))
	}
}

func (g *gen) key() token {
	switch g.n(14) {
	case 0, 1, 2:
		return token{"key-ascii", string(rune(32 + g.n(95)))}
	case 3:
		return token{"key-utf8", g.pick("é", "ß", "Ж", "日", "𝄞", "É", "Ω")}
	case 4:
		return token{"key-cluster", g.pick("👩‍👩‍👧", "é", "🇩🇪", "👍🏽")}
	case 5:
		return token{"key-c0", string(rune(g.pick("\x00", "\x01", "\x03", "\x08", "\x09", "\x0d", "\x1a", "\x1c", "\x1f", "\x7f")[0]))}
	case 6:
		return token{"key-alt", "\x1b" + string(rune(33+g.n(90)))}
	case 7:
		return token{"key-ss3", "\x1bO" + g.pick("A", "B", "C", "D", "F", "H", "P", "Q", "R", "S", "x")}
	case 8:
		return token{"key-csi-legacy", "\x1b[" + g.pick("A", "B", "C", "D", "F", "H", "Z", "1;5A", "1;2D", "1;3H", "1;6F", "P", "1;2P", "1;2S", "S")}
	case 9:
		return token{"key-csi-tilde", "\x1b[" + g.pick("2", "3", "5", "6", "15", "17", "24", "3;5", "24;8", "27;5;13", "27;6;9", "199", "202") + "~"}
	case 10:
		return token{"key-f3-csiR", "\x1b[" + g.pick("R", "1;2R", "1;5R", "1;1R")}
	case 11, 12:
		code := g.pick("97", "65", "13", "27", "9", "127", "57358", "57441", "8364", "32", "98:66", "99:67:99", "57399")
		mods := g.pick("", ";1", ";2", ";5", ";8", ";3:1", ";1:2", ";5:3", ";129", ";0", ";2:0")
		text := ""
		if mods != "" && g.n(3) == 0 {
			text = g.pick(";97", ";65", ";8364", ";97:98", ";1114112", ";55296")
		}
		return token{"key-kitty", "\x1b[" + code + mods + text + "u"}
	default:
		return token{"key-esc-inter", "\x1b" + g.pick("(B", "#8", " F")}
	}
}

func (g *gen) mouse() token {
	buttons := []int{0, 1, 2, 3, 64, 65, 66, 67, 128, 129, 130, 131}
	b := buttons[g.n(len(buttons))]
	cb := b
	if g.n(2) == 0 {
		cb += []int{0, 4, 8, 16, 28, 12, 20}[g.n(7)]
	}
	if g.n(3) == 0 {
		cb += 32
	}
	x := g.pick("1", "2", "80", "223", "224", "1000", "65535", "0")
	y := g.pick("1", "2", "24", "223", "500", "0")
	fin := g.pick("M", "m")
	switch g.n(12) {
	case 0:
		return token{"mouse-legacy-x10", "\x1b[M" + string([]byte{byte(32 + g.n(4)), byte(33 + g.n(90)), byte(33 + g.n(90))})}
	case 1:
		return token{"mouse-nomarker", fmt.Sprintf("\x1b[%d;%s;%s%s", cb, x, y, fin)}
	case 2:
		return token{"mouse-short", g.pick(fmt.Sprintf("\x1b[<%d;%s%s", cb, x, fin), "\x1b[<"+fin, "\x1b[<5"+fin, "\x1b["+fin, "\x1b[;"+fin, "\x1b[<;;"+fin)}
	case 3:
		return token{"mouse-long", fmt.Sprintf("\x1b[<%d;%s;%s;7%s", cb, x, y, fin)}
	case 4:
		return token{"mouse-othermarker", fmt.Sprintf("\x1b[%s%d;%s;%s%s", g.pick("?", ">", "=", "<<"), cb, x, y, fin)}
	case 5:
		return token{"mouse-subparams", fmt.Sprintf("\x1b[<%d:9;%s:1;%s%s", cb, x, y, fin)}
	case 6:
		return token{"mouse-inter2", fmt.Sprintf("\x1b[<%d;%s;%s$%s", cb, x, y, fin)}
	case 7:
		return token{"mouse-sgr-big", fmt.Sprintf("\x1b[<%s;%s;%s%s", g.pick("255", "256", "1023", "9223372036854775807", "9223372036854775808"), g.num(), g.num(), fin)}
	default:
		return token{"mouse-sgr", fmt.Sprintf("\x1b[<%d;%s;%s%s", cb, x, y, fin)}
	}
}

func (g *gen) focus() token { return token{"focus", g.pick("\x1b[I", "\x1b[O", "\x1b[1I", "\x1b[?O")} }

func (g *gen) osc(body string) string { return "\x1b]" + body + g.pick("\x07", "\x1b\\") }
func (g *gen) dcs(body string) string { return "\x1bP" + body + "\x1b\\" }

func (g *gen) reply() token {
	switch g.n(22) {
	case 0:
		return token{"reply-da1", "\x1b[?" + g.pick("62;4;22", "62;22", "4", "", ";", "4;4;4", "1;2", "64;4:3") + "c"}
	case 1:
		return token{"reply-decrpm", fmt.Sprintf("\x1b[?%s;%s$y", g.pick("2026", "2027", "2031", "2048", "1", ""), g.pick("0", "1", "2", "3", "4", ""))}
	case 2:
		return token{"reply-decrpm-short", "\x1b[" + g.pick("?2026$y", "?$y", "$y", "y", "?2027y", "2031;1y")}
	case 3:
		return token{"reply-cpr", fmt.Sprintf("\x1b[%s;%sR", g.pick("1", "5", "24", "0"), g.pick("1", "2", "80", "0"))}
	case 4:
		return token{"reply-sixelgeom", "\x1b[?" + g.pick("2;0;800;600", "2;0;0", "2;1;0", "2;3", "1;0;256", "2", "", "2:1;0:1;5") + "S"}
	case 5:
		return token{"reply-theme", "\x1b[?" + g.pick("997;1", "997;2", "997;0", "997", "996;1", "997;1;1") + "n"}
	case 6:
		return token{"reply-kittykb", "\x1b[?" + g.pick("0", "1", "31", "") + "u"}
	case 7:
		return token{"reply-size-chars", fmt.Sprintf("\x1b[8;%s;%st", g.num(), g.num())}
	case 8:
		return token{"reply-size-pix", fmt.Sprintf("\x1b[4;%s;%st", g.num(), g.num())}
	case 9:
		return token{"reply-inband", g.pick(fmt.Sprintf("\x1b[48;%s;%s;%s;%st", g.num(), g.num(), g.num(), g.num()), "\x1b[48;24;80t", "\x1b[48;24;80;1;2;3t", "\x1b[48;1;2;3t")}
	case 10:
		return token{"reply-size-other", "\x1b[" + g.pick("8t", "8;1t", "t", "9;1;1t", "4;;t", "8;24;80;7t", "?8;1;1t") + ""}
	case 11:
		return token{"reply-xtgettcap", g.dcs(g.pick("1+r524742=38", "1+r536D756C78=5C45", "0+r524742", "1+r524742", "1+r", "+r524742=1", "1+r524742=1=2", "2+r536D756C78=", "1+r536d756c78=1"))}
	case 12:
		if g.n(2) == 0 {
			return g.dcsReplyEdge()
		}
		return token{"reply-decrpss", g.dcs(g.pick("1$r2 q", "1$r0 q", "1$r6 q", "1$r7 q", "1$r q", "0$r", "1$r/ q", "1$r12 q", "$r3 q", "1$rq", "1$r3 q "))}
	case 13:
		return token{"reply-xtversion", g.dcs(">|" + g.pick("fake(1.0)", "kitty(0.31)", "tmux 3.4", "", "é日"))}
	case 14:
		return token{"reply-tertiary", g.dcs("!|" + g.pick("7E565445", "7e565445", "00000000", ""))}
	case 15:
		return token{"reply-dcs-other", g.dcs(g.pick("r", "|", "1;2|x", "q", "1$q", "9223372036854775808$r1 q"))}
	case 16:
		return token{"reply-apc", "\x1b_" + g.pick("Gi=1;OK", "G", "", "X", "gi=1") + "\x1b\\"}
	case 17:
		return token{"reply-osc4", g.osc(g.pick("4;1;rgb:cdcd/0000/0000", "4", "4;", "40", "4;1;?"))}
	case 18:
		return token{"reply-osc10-11", g.osc(g.pick("10;rgb:ffff/ffff/ffff", "11;rgb:0000/0000/0000", "10", "11", "104", "110;x", "1"))}
	case 19:
		return g.osc52()
	case 20:
		return token{"reply-osc176", g.osc(g.pick("176;fakeapp", "176;", "176", "176;a;b", "176;é"))}
	default:
		return token{"reply-osc-other", g.osc(g.pick("0;title", "8;;http://x", "", "5", "7;file://h/p", "12;x"))}
	}
}

// an OSC 52 clipboard report: mostly well formed (three fields, valid base64), sometimes with a
// wrong number of fields or an undecodable third field
func (g *gen) osc52() token {
	s := g.pick("hello", "", "päste\n", "a;b")
	b := base64.StdEncoding.EncodeToString([]byte(s))
	return token{"reply-osc52", g.osc(g.pick("52;c;"+b, "52;c;"+b, "52;;"+b, "52;c;!!!", "52;c", "52;c;"+b+";x", "52", "52;c;"+strings.TrimRight(b, "=")))}
}

// a well-formed clipboard report carrying a text of its own (so that the answers of different
// reports in one case can be told apart)
func (g *gen) osc52Text() token {
	n := g.n(6)
	b := make([]byte, n)
	for i := range b {
		b[i] = byte(g.pick("a", "b", "Z", "0", " ", ";", "\n", "\xc3", "\xa9", "q")[0])
	}
	sel := g.pick("c", "c", "p", "", "s0")
	return token{"reply-osc52", g.osc("52;" + sel + ";" + base64.StdEncoding.EncodeToString(b))}
}

// DCS replies whose data string is at the boundary of what the handlers index: the DECRPSS
// (DCS Ps $ r D..D ST) and XTGETTCAP (DCS Ps + r D..D ST) shapes with every short data string over
// the characters the handlers look at (empty, only the " q" suffix, no style digit, several
// digits, ...), with and without the DCS parameter
func (g *gen) dcsReplyEdge() token {
	alpha := " q0123456789/:;=+$"
	n := g.n(5)
	d := make([]byte, n)
	for i := range d {
		switch g.n(3) {
		case 0:
			d[i] = " q"[g.n(2)]
		default:
			d[i] = alpha[g.n(len(alpha))]
		}
	}
	data := string(d)
	if g.n(3) == 0 {
		data += " q"
	}
	ps := g.pick("", "0", "1", "1", "2", "1;1")
	inter := g.pick("$", "$", "+", "+", "!", ">", "$$", "")
	fin := g.pick("r", "r", "r", "|", "q")
	return token{"reply-dcs-edge", g.dcs(ps + inter + fin + data)}
}

func (g *gen) garbage() token {
	switch g.n(6) {
	case 0:
		n := 1 + g.n(6)
		b := make([]byte, n)
		for i := range b {
			b[i] = byte(g.n(256))
		}
		return token{"garbage-bytes", string(b)}
	case 1:
		return token{"garbage-c1ish", g.pick("\x1b[", "\x1b", "\x1bO", "\x1b]", "\x1bP", "\x1b_", "\x1bX", "\x1b^", "\x1b[?", "\x1b[1;", "\x1b[<0;1")}
	case 2:
		return token{"garbage-cancel", g.pick("\x1b[1;2\x18", "\x1b]52;c;\x1a", "\x1bP1$r\x18", "\x1b[<0;1;\x1b[<0;1;1M")}
	case 3:
		return token{"garbage-params", "\x1b[" + g.pick(";;;", "1:2:3;4", ":::", "1;2;3;4;5;6;7;8;9;10;11;12;13;14;15;16;17", "99999999999999999999") + g.pick("c", "t", "M", "y", "S", "n", "u", "~", "R", "A")}
	case 4:
		return token{"garbage-utf8", g.pick("\xe2\x82", "\xf0\x9f", "\xc3", "\xff\xfe", "\xed\xa0\x80")}
	default:
		return token{"garbage-empty-st", g.pick("\x1b]\x1b\\", "\x1bP\x1b\\", "\x1b_\x1b\\")}
	}
}

func (g *gen) paste() []token {
	out := []token{{"paste-start", "\x1b[200~"}}
	for i, n := 0, g.n(5); i < n; i++ {
		switch g.n(6) {
		case 0:
			out = append(out, g.reply())
		case 1:
			out = append(out, g.mouse())
		default:
			out = append(out, g.key())
		}
	}
	if g.n(8) != 0 {
		out = append(out, token{"paste-end", "\x1b[201~"})
	}
	return out
}

// truncated: a token cut short (what a reader sees when the terminal dies mid-sequence)
func (g *gen) truncated() token {
	t := g.pick(g.reply().bytes, g.mouse().bytes, g.key().bytes)
	if len(t) > 1 {
		t = t[:1+g.n(len(t)-1)]
	}
	return token{"truncated", t}
}

// stream: a random interleaving of user reports, replies and garbage
func (g *gen) stream(maxTok int) []token {
	var out []token
	for i, n := 0, 1+g.n(maxTok); i < n; i++ {
		switch v := g.n(20); {
		case v < 6:
			out = append(out, g.key())
		case v < 9:
			out = append(out, g.mouse())
		case v < 10:
			out = append(out, g.focus())
		case v < 15:
			out = append(out, g.reply())
		case v < 16:
			out = append(out, g.paste()...)
		case v < 17:
			out = append(out, g.truncated())
		case v < 18:
			// the same reply twice in a row (unsolicited repeated replies)
			t := g.reply()
			out = append(out, t, t)
		default:
			out = append(out, g.garbage())
		}
	}
	return out
}

func joinTokens(ts []token) (string, []string) {
	var b strings.Builder
	tags := map[string]bool{}
	var tl []string
	for _, t := range ts {
		b.WriteString(t.bytes)
		if !tags[t.tag] {
			tags[t.tag] = true
			tl = append(tl, t.tag)
		}
	}
	return b.String(), tl
}
