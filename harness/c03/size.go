package main

import (
	"bytes"
	"fmt"
	"os"
	"time"

	"verif/harness/hx"
)

// Stream "size": the history start-up, then size requests (VAXIS_FORCE_XTWINOPS, a terminal that
// reports its size on request and has no in-band reports).  Each round: the terminal has a size
// (new or unchanged), the application calls Resize() and Render(), the terminal's bytes of the
// round (its reports with user input around them, or nothing: the request times out) go through
// handleSequence (direct) or the real input goroutine (loop), Render returns.  Observed: the
// Resize event Render posted.  Every character-size report is the answer to a request.

type ZRound struct {
	Rows, Cols int    `json:"-"`
	Terminal   string `json:"terminal_size"`
	Show       string `json:"terminal_sent"`
	Steps      []Step `json:"steps"`
	Early      bool   `json:"render_returned_before_the_reply"`
	Resize     []int  `json:"resize_event"` // cols, rows, xpix, ypix; nil: none
	Msg        string `json:"msg,omitempty"`
}

type ZCase struct {
	Mask       uint32   `json:"mask"`
	Loop       bool     `json:"loop"`
	Rows, Cols int      // at start-up
	Init       Snap     `json:"state_after_startup"`
	CapsOn     []string `json:"caps"`
	Rounds     []ZRound `json:"rounds"`
}

func (g *gen) sizeNoise(n int) string {
	s := ""
	for i := 0; i < n; i++ {
		switch g.n(5) {
		case 0:
			s += g.mouse().bytes
		case 1:
			s += g.focus().bytes
		default:
			s += g.key().bytes
		}
	}
	return s
}

func sizeCases(g *gen, s *hx.Stream, n int) time.Duration {
	t0 := time.Now()
	os.Setenv("VAXIS_FORCE_XTWINOPS", "1")
	defer os.Unsetenv("VAXIS_FORCE_XTWINOPS")
	for i := 0; i < n; i++ {
		zc := ZCase{Mask: (g.mask() | 1<<8) &^ (1 << 3), Loop: g.n(3) == 0, Rows: 5 + g.n(40), Cols: 10 + g.n(150)}
		if i < 4 {
			// directed: the first request after start-up meets a changed / an unchanged terminal
			zc.Mask, zc.Loop = []uint32{1 << 8, 0x1ffff &^ (1 << 3)}[i%2], i >= 2
		}
		in := newInst(hx.ProfileFromMask(zc.Mask, zc.Rows, zc.Cols), 0)
		saw := make(chan struct{}, 8)
		in.fc.WriteHook = func(p []byte) {
			if bytes.Contains(p, []byte("\x1b[14t\x1b[18t")) {
				saw <- struct{}{}
			}
		}
		zc.Init = snapOf(in.vx)
		var capsT string
		capsT, zc.CapsOn = capsTerm(in.vx)
		rows, cols := zc.Rows, zc.Cols
		nr := 1 + g.n(4)
		if i < 4 {
			nr = 2 + i%2
		}
		alive := true
		var all []Step
		for r := 0; r < nr && alive; r++ {
			if g.n(4) != 0 || (i < 4 && r == 0) {
				rows, cols = 5+g.n(40), 10+g.n(150)
			}
			zr := ZRound{Rows: rows, Cols: cols, Terminal: fmt.Sprintf("%dx%d", cols, rows)}
			b := ""
			if g.n(10) != 0 || i < 4 {
				b += g.sizeNoise(g.n(3))
				if g.n(6) != 0 {
					b += fmt.Sprintf("\x1b[4;%d;%dt", rows*16, cols*8)
				}
				b += g.sizeNoise(g.n(2))
				b += fmt.Sprintf("\x1b[8;%d;%dt", rows, cols)
				b += g.sizeNoise(g.n(3))
			} else {
				// the terminal does not answer this request (100 ms deadline)
				b += g.sizeNoise(g.n(3))
			}
			if zc.Loop {
				b += holdMarkerBytes
			}
			zr.Show = quoted([]byte(b))
			items := parseItems([]byte(b))
			in.drain()
			in.vx.Resize()
			done := make(chan struct{})
			go func() { in.vx.Render(); close(done) }()
			select {
			case <-saw:
			case <-done:
			case <-time.After(time.Second):
				zr.Msg = "no size request written"
			}
			// a request that finds a token in chSizeDone returns at once, before the terminal's
			// bytes of this round are handled
			select {
			case <-done:
				zr.Early = true
			case <-time.After(3 * time.Millisecond):
			}
			var evs []Ev
			if zc.Loop {
				in.fc.Inject([]byte(b))
				deadline := time.After(1500 * time.Millisecond)
			read:
				for {
					select {
					case ev := <-in.vx.Events():
						e := fromEvent(ev)
						evs = append(evs, e)
						if isHoldMarker(e) {
							break read
						}
					case <-deadline:
						zr.Msg, alive = "marker key not delivered within 1.5 s", false
						break read
					}
				}
			} else {
				for _, it := range items {
					it := it
					if !hx.WithTimeout(300*time.Millisecond, func() { in.vx.VerifC03Handle(it.toSeq()) }) {
						zr.Msg, alive = "handleSequence did not return within 300 ms", false
						break
					}
				}
			}
			for _, it := range items {
				it := it
				zr.Steps = append(zr.Steps, Step{It: &it})
			}
			if !zr.Early {
				select {
				case <-done:
				case <-time.After(time.Second):
					zr.Msg, alive = "Render did not return within 1 s", false
				}
			}
			evs = append(evs, in.drain()...)
			for _, e := range evs {
				if e.Kind == "resize" {
					zr.Resize = e.M
				}
			}
			all = append(all, zr.Steps...)
			zc.Rounds = append(zc.Rounds, zr)
		}
		in.close(alive)

		z := func(v int) string { return hx.Z(int64(v)) }
		rts := make([]string, len(zc.Rounds))
		announced := false
		for k, zr := range zc.Rounds {
			obs := hx.None
			if zr.Resize != nil {
				obs = hx.Some(fmt.Sprintf("(mkSize %s %s %s %s)", z(zr.Resize[0]), z(zr.Resize[1]), z(zr.Resize[2]), z(zr.Resize[3])))
				announced = true
			}
			rts[k] = hx.Tuple(stepsTerm(zr.Steps), obs)
		}
		var its []Item
		for _, st := range all {
			its = append(its, *st.It)
		}
		term := hx.Tuple(hx.Tuple(capsT, zc.Init.term(), hx.Tuple(z(zc.Cols), z(zc.Rows))), hx.List(rts),
			hx.Tuple(keyTab(its), b64Tab(all)))
		tags := []string{"size-history", fmt.Sprintf("rounds-%d", len(zc.Rounds))}
		if zc.Loop {
			tags = append(tags, "loop")
		} else {
			tags = append(tags, "direct")
		}
		s.Add(term, map[string]interface{}{"case": zc}, announced, tags...)
	}
	return time.Since(t0)
}
