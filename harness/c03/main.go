// Harness of property C03: every terminal report becomes the right event; the input loop
// survives any input.  Runs the real handleSequence / input goroutine / New of /repo on a fake
// console and writes Coq case files (coq/model/InputCheck.v evaluates them).
package main

import (
	"bufio"
	"encoding/json"
	"fmt"
	"os"
	"os/exec"
	"strconv"
	"time"

	vaxis "git.sr.ht/~rockorager/vaxis"
	"git.sr.ht/~rockorager/vaxis/ansi"
	"verif/harness/hx"
)

// ---------- child process: loop-mode cases (a panic of the input goroutine kills the
// process, so these run isolated; the parent records the case that killed a child) ----------

func childMain(file string, from int) {
	data, err := os.ReadFile(file)
	if err != nil {
		panic(err)
	}
	var cases []HCase
	if err := json.Unmarshal(data, &cases); err != nil {
		panic(err)
	}
	w := bufio.NewWriter(os.Stdout)
	enc := json.NewEncoder(w)
	for i := from; i < len(cases); i++ {
		fmt.Fprintf(w, "BEGIN %d\n", i)
		w.Flush()
		res := runCase(cases[i])
		fmt.Fprintf(w, "RESULT %d ", i)
		if err := enc.Encode(res); err != nil {
			panic(err)
		}
		w.Flush()
	}
}

func runLoopCases(cases []HCase, dir string) []HResult {
	file := dir + "/C03_loop_cases.json"
	data, _ := json.Marshal(cases)
	if err := os.WriteFile(file, data, 0o644); err != nil {
		panic(err)
	}
	results := make([]HResult, len(cases))
	from := 0
	for from < len(cases) {
		cmd := exec.Command(os.Args[0], "-loopchild", file, strconv.Itoa(from))
		out, err := cmd.StdoutPipe()
		if err != nil {
			panic(err)
		}
		var stderr limitedBuf
		cmd.Stderr = &stderr
		if err := cmd.Start(); err != nil {
			panic(err)
		}
		sc := bufio.NewScanner(out)
		sc.Buffer(make([]byte, 1<<20), 1<<26)
		begun, done := -1, from-1
		for sc.Scan() {
			line := sc.Text()
			var i int
			if n, _ := fmt.Sscanf(line, "BEGIN %d", &i); n == 1 {
				begun = i
				continue
			}
			if n, _ := fmt.Sscanf(line, "RESULT %d ", &i); n == 1 {
				js := line[len(fmt.Sprintf("RESULT %d ", i)):]
				if err := json.Unmarshal([]byte(js), &results[i]); err != nil {
					panic(err)
				}
				done = i
			}
		}
		cmd.Wait()
		if done == len(cases)-1 {
			break
		}
		// the child died while running case `begun`
		if begun <= done {
			panic("loop child died outside a case: " + stderr.String())
		}
		hc := cases[begun]
		res := HResult{Code: 1, Msg: "the process died: " + stderr.String(), Events: []Ev{}, Cursors: [][2]int{}, Clips: [][]byte{}}
		// what is needed to print the case: state before and the delivered items (recomputed;
		// a fresh instance with the same profile starts in the same state)
		in := newInst(hx.ProfileFromMask(hc.Mask, 24, 80), hc.QSize)
		res.Init = snapOf(in.vx)
		res.CapsTerm, res.CapsOn = capsTerm(in.vx)
		in.close(true)
		if len(hc.Pre) > 0 {
			for _, it := range parseItems(append(append([]byte(nil), hc.Pre...), holdMarkerBytes...)) {
				it := it
				res.Steps = append(res.Steps, Step{It: &it})
			}
		}
		for _, s := range hc.Plan {
			res.Steps = append(res.Steps, Step{It: s.It, App: s.App})
		}
		if hc.held() {
			for _, it := range parseItems(append(append([]byte(nil), hc.Held...), holdMarkerBytes...)) {
				it := it
				res.Steps = append(res.Steps, Step{It: &it})
			}
		}
		for _, it := range parseItems(hc.Bytes) {
			it := it
			res.Steps = append(res.Steps, Step{It: &it})
		}
		results[begun] = res
		from = begun + 1
	}
	return results
}

type limitedBuf struct{ b []byte }

func (l *limitedBuf) Write(p []byte) (int, error) {
	if len(l.b) < 600 {
		l.b = append(l.b, p...)
	}
	return len(p), nil
}
func (l *limitedBuf) String() string {
	if len(l.b) > 600 {
		return string(l.b[:600])
	}
	return string(l.b)
}

// ---------- case generation ----------

func (g *gen) mask() uint32 {
	switch g.n(6) {
	case 0:
		return 0
	case 1:
		return 0x1ffff &^ (1 << 3)
	case 2:
		return 0x1ffff
	case 3:
		return 1 << uint(g.n(17))
	default:
		return uint32(g.r.Int63()) & 0x1ffff
	}
}

func hasTag(ts []token, tag string) bool {
	for _, t := range ts {
		if t.tag == tag {
			return true
		}
	}
	return false
}

func dropTags(ts []token, tags ...string) []token {
	var out []token
	for _, t := range ts {
		keep := true
		for _, d := range tags {
			if t.tag == d {
				keep = false
			}
		}
		if keep {
			out = append(out, t)
		}
	}
	return out
}

// loop-mode case: bytes through the real goroutine
func (g *gen) loopCase(maxTok int) HCase {
	ts := g.stream(maxTok)
	hc := HCase{Loop: true, Mask: g.mask()}
	switch g.n(10) {
	case 0:
		// an outstanding cursor-position query (no 10 ms clipboard waits in the same stream, so
		// that the 50 ms time-out cannot fire in the middle)
		ts = dropTags(ts, "reply-osc52")
		if g.n(2) == 0 {
			k := g.n(len(ts) + 1)
			tok := token{"reply-cpr-solicited", fmt.Sprintf("\x1b[%d;%dR", 1+g.n(50), 1+g.n(100))}
			ts = append(ts[:k:k], append([]token{tok}, ts[k:]...)...)
		}
		hc.Plan = []Step{{App: "ACursorQuery"}}
		hc.Tags = append(hc.Tags, "app-cursor-query")
	case 1:
		hc.Plan = []Step{{App: "AClipWait"}}
		ts = append(ts, token{"reply-osc52-solicited", "\x1b]52;c;aGVsbG8gd29ybGQ=\x1b\\"})
		hc.Tags = append(hc.Tags, "app-clip-wait")
	case 3:
		// earlier traffic: clipboard reports (and anything else) that arrived while no call was in
		// progress, then a ClipboardPop whose own answer may or may not come
		pre := g.stream(1 + maxTok/2)
		for i, n := 0, 1+g.n(2); i < n; i++ {
			k := g.n(len(pre) + 1)
			pre = append(pre[:k:k], append([]token{g.osc52Text()}, pre[k:]...)...)
		}
		ps, ptags := joinTokens(pre)
		hc.Pre = []byte(ps)
		hc.Plan = []Step{{App: "AClipWait"}}
		if g.n(3) != 0 {
			k := g.n(len(ts) + 1)
			ts = append(ts[:k:k], append([]token{g.osc52Text()}, ts[k:]...)...)
		}
		hc.Tags = append(hc.Tags, "earlier-traffic", "app-clip-wait", "clip-unsolicited-then-call")
		hc.Tags = append(hc.Tags, ptags...)
	case 4:
		// earlier traffic of any kind (state left behind: paste bracket open, reply channels
		// filled, a request flag), no call
		ps, ptags := joinTokens(g.stream(maxTok))
		hc.Pre = []byte(ps)
		hc.Tags = append(hc.Tags, "earlier-traffic")
		hc.Tags = append(hc.Tags, ptags...)
	case 2:
		// slow consumer: tiny queue, the application starts reading late (no non-blocking posts
		// in the stream: those are dropped by design when the queue is full)
		ts = dropTags(ts, "reply-inband", "reply-osc176", "garbage-params", "truncated")
		hc.QSize = 1 + g.n(4)
		hc.Lazy = true
		hc.Tags = append(hc.Tags, "lazy-reader")
	}
	s, tags := joinTokens(ts)
	hc.Bytes = []byte(s + sentinelBytes)
	hc.Show = quoted(hc.allBytes())
	hc.Tags = append(hc.Tags, tags...)
	hc.Tags = append(hc.Tags, "loop")
	return hc
}

// calls to ClipboardPop against clipboard reports in every arrival order: a report before any
// call (unsolicited), while a call waits (its answer), after the call has been answered
// (repeated), after the caller has left (late), and the next call after each of these.
// Elements: "<W>" a call starts, "<L>" it returns (answered or cancelled), anything else: bytes.
func clipSchedule(g *gen) []string {
	var out []string
	waiting := false
	for i, n := 0, 2+g.n(6); i < n; i++ {
		switch g.n(7) {
		case 0, 1:
			if waiting {
				out = append(out, "<L>")
			} else {
				out = append(out, "<W>")
			}
			waiting = !waiting
		case 2:
			out = append(out, g.osc52().bytes)
		case 3:
			out = append(out, g.key().bytes)
		default:
			out = append(out, g.osc52Text().bytes)
		}
	}
	if !waiting && g.n(2) == 0 {
		out = append(out, "<W>")
		if g.n(2) == 0 {
			out = append(out, g.osc52Text().bytes)
		}
	}
	return out
}

// direct-mode case from a schedule of byte strings and ClipboardPop calls ("<W>" / "<L>")
func clipCase(mask uint32, sched []string, tags ...string) HCase {
	hc := HCase{Mask: mask, Tags: append([]string{"clip-schedule", "direct"}, tags...)}
	show := ""
	seenReport, calls := false, 0
	for _, e := range sched {
		switch e {
		case "<W>":
			hc.Plan = append(hc.Plan, Step{App: "AClipWait"})
			show += " <ClipboardPop> "
			calls++
			if seenReport && calls == 1 {
				hc.Tags = append(hc.Tags, "clip-unsolicited-then-call")
			}
			if calls == 2 {
				hc.Tags = append(hc.Tags, "clip-second-call")
			}
		case "<L>":
			hc.Plan = append(hc.Plan, Step{App: "AClipLeave"})
			show += " <returns> "
		default:
			for _, it := range parseItems([]byte(e)) {
				it := it
				hc.Plan = append(hc.Plan, Step{It: &it})
				if it.Kind == "osc" {
					seenReport = true
				}
			}
			show += quoted([]byte(e))
		}
	}
	hc.Show = show
	return hc
}

// fast terminal: a cursor-position query whose Write does not return before the terminal's next
// bytes (the reply among them, or not) have been handled.  held / rest: what is handled before /
// after the Write returns.  Explores the schedules of the input goroutine against the
// statements of CursorPosition's prologue (the harness reports the order it observes).
func fastCase(loop bool, mask uint32, held, rest string, tags ...string) HCase {
	hc := HCase{Loop: loop, Mask: mask, Tags: append([]string{"fast-terminal", "app-cursor-query"}, tags...)}
	if loop {
		hc.Plan = []Step{{App: "ACursorQuery", Hold: 1}}
		hc.Held = []byte(held)
		hc.Bytes = []byte(rest + sentinelBytes)
		hc.Show = quoted(hc.allBytes())
		hc.Tags = append(hc.Tags, "loop")
		return hc
	}
	hi := parseItems([]byte(held))
	if len(hi) > 0 {
		hc.Plan = []Step{{App: "ACursorQuery", Hold: len(hi)}}
	} else {
		hc.Plan = []Step{{App: "ACursorQuery"}}
	}
	for _, it := range append(hi, parseItems([]byte(rest))...) {
		it := it
		hc.Plan = append(hc.Plan, Step{It: &it})
	}
	hc.Show = quoted([]byte(held)) + " | " + quoted([]byte(rest))
	hc.Tags = append(hc.Tags, "direct")
	return hc
}

func (g *gen) fastCase(loop bool, maxTok int) HCase {
	// no 10 ms clipboard waits next to a 50 ms time-out
	ts := dropTags(g.stream(maxTok), "reply-osc52")
	pos := -1
	if g.n(4) != 0 {
		pos = g.n(len(ts) + 1)
		tok := token{"reply-cpr-solicited", fmt.Sprintf("\x1b[%d;%dR", g.n(51), g.n(101))}
		if g.n(8) == 0 {
			tok = token{"reply-cpr-solicited-malformed", g.pick("\x1b[R", "\x1b[7R", "\x1b[1;2;3R", "\x1b[5:1;7:2R", "\x1b[?5;7R")}
		}
		ts = append(ts[:pos:pos], append([]token{tok}, ts[pos:]...)...)
	}
	k := g.n(len(ts) + 1)
	if pos >= 0 && g.n(2) == 0 {
		// the reply is handled before the Write returns
		k = pos + 1 + g.n(len(ts)-pos)
	}
	held, t1 := joinTokens(ts[:k])
	rest, t2 := joinTokens(ts[k:])
	tags := append(t1, t2...)
	if pos >= 0 && pos < k {
		tags = append(tags, "reply-before-write-returns")
	}
	return fastCase(loop, g.mask(), held, rest, tags...)
}

// a cursor-position query that is not answered in time: CursorPosition returns after its 50 ms
// time-out (plan step ACursorGiveUp in the middle of the plan), and only then does the terminal
// send `after`.  `before` is handled while the call waits (a report in it answers the call: the
// step is then its return).  User input after ANY finished query must be delivered: keys whose
// legacy encoding has the shape of a cursor-position report (CSI R, CSI 1;m R) among them.
func timeoutCase(loop bool, mask uint32, pre, before, after string, tags ...string) HCase {
	hc := HCase{Loop: loop, Mask: mask, Tags: append([]string{"cursor-timeout-then-input", "app-cursor-query"}, tags...)}
	if loop {
		// loop mode: all application actions of the plan run before Bytes; `before` is part of
		// the earlier traffic
		hc.Pre = []byte(pre + before)
		hc.Plan = []Step{{App: "ACursorQuery"}, {App: "ACursorGiveUp"}}
		hc.Bytes = []byte(after + sentinelBytes)
		hc.Show = quoted(hc.Pre) + " <CursorPosition times out> " + quoted(hc.Bytes)
		hc.Tags = append(hc.Tags, "loop")
		if len(hc.Pre) > 0 {
			hc.Tags = append(hc.Tags, "earlier-traffic")
		}
		return hc
	}
	items := func(b string) {
		for _, it := range parseItems([]byte(b)) {
			it := it
			hc.Plan = append(hc.Plan, Step{It: &it})
		}
	}
	items(pre)
	hc.Plan = append(hc.Plan, Step{App: "ACursorQuery"})
	items(before)
	hc.Plan = append(hc.Plan, Step{App: "ACursorGiveUp"})
	items(after)
	hc.Show = quoted([]byte(pre)) + " <CursorPosition> " + quoted([]byte(before)) + " <returns> " + quoted([]byte(after))
	hc.Tags = append(hc.Tags, "direct")
	return hc
}

func (g *gen) timeoutCase(loop bool, maxTok int) HCase {
	f3 := func() token { return token{"key-f3-csiR", "\x1b[" + g.pick("R", "1;2R", "1;5R", "1;3R", "1;1R", "1;6R")} }
	part := func(n int, withF3 bool) (string, []string) {
		ts := dropTags(g.stream(n), "reply-osc52")
		if withF3 {
			for i, m := 0, 1+g.n(2); i < m; i++ {
				k := g.n(len(ts) + 1)
				ts = append(ts[:k:k], append([]token{f3()}, ts[k:]...)...)
			}
		}
		return joinTokens(ts)
	}
	pre, t0 := "", []string(nil)
	if g.n(2) == 0 {
		pre, t0 = part(1+maxTok/2, g.n(3) == 0)
	}
	before, t1 := "", []string(nil)
	if g.n(3) == 0 {
		// traffic while the call waits: without a report of the CSI R shape the call times out
		ts := dropTags(g.stream(1+maxTok/3), "reply-osc52", "reply-cpr", "key-f3-csiR", "garbage-params", "truncated")
		before, t1 = joinTokens(ts)
	}
	after, t2 := part(maxTok, true)
	return timeoutCase(loop, g.mask(), pre, before, after, append(append(t0, t1...), t2...)...)
}

// synthetic items the parser cannot deliver (empty parameter lists) and odd shapes
func (g *gen) rawItem() Item {
	fin := rune(g.pick("c", "R", "S", "n", "y", "~", "M", "m", "t", "u", "A")[0])
	var inter []rune
	switch g.n(4) {
	case 0:
		inter = []rune{'?'}
	case 1:
		inter = []rune{'<'}
	case 2:
		inter = []rune{'<', '$'}
	}
	var ps [][]int
	for i, n := 0, g.n(6); i < n; i++ {
		switch g.n(5) {
		case 0:
			ps = append(ps, []int{})
		case 1:
			ps = append(ps, []int{g.n(10), g.n(10)})
		default:
			ps = append(ps, []int{[]int{0, 1, 2, 4, 8, 48, 200, 201, 997, 2026, 2027, 2031}[g.n(12)]})
		}
	}
	return Item{Kind: "csi", Inter: inter, PS: ps, Final: fin}
}

// direct-mode case: handleSequence called item by item on an idle Vaxis
func (g *gen) directCase(maxTok int) HCase {
	ts := g.stream(maxTok)
	hc := HCase{Mask: g.mask()}
	mode := g.n(20)
	if mode == 0 {
		ts = dropTags(ts, "reply-osc52")
	}
	s, tags := joinTokens(ts)
	for _, it := range parseItems([]byte(s)) {
		it := it
		hc.Plan = append(hc.Plan, Step{It: &it})
	}
	hc.Tags = append(tags, "direct")
	ins := func(st Step) {
		k := g.n(len(hc.Plan) + 1)
		hc.Plan = append(hc.Plan[:k:k], append([]Step{st}, hc.Plan[k:]...)...)
	}
	switch mode {
	case 0:
		if g.n(2) == 0 {
			it := Item{Kind: "csi", PS: [][]int{{1 + g.n(50)}, {1 + g.n(100)}}, Final: 'R'}
			ins(Step{It: &it})
		}
		ins(Step{App: "ACursorQuery"})
		hc.Tags = append(hc.Tags, "app-cursor-query")
	case 1:
		it := Item{Kind: "osc", Runes: []rune("52;c;aGk=")}
		ins(Step{It: &it})
		ins(Step{App: "AClipWait"})
		hc.Tags = append(hc.Tags, "app-clip-wait")
	case 2:
		// nobody reads and the queue is tiny: back-pressure
		hc.QSize = 1 + g.n(4)
		hc.Tags = append(hc.Tags, "stalled-queue")
	case 3, 4:
		for i, n := 0, 1+g.n(3); i < n; i++ {
			it := g.rawItem()
			ins(Step{It: &it})
		}
		hc.Tags = append(hc.Tags, "synthetic-item")
	}
	hc.Show = quoted([]byte(s))
	return hc
}

func directed() []HCase {
	var out []HCase
	add := func(loop bool, mask uint32, tag, s string) {
		hc := HCase{Loop: loop, Mask: mask, Tags: []string{tag, "directed"}}
		if loop {
			hc.Bytes = []byte(s + sentinelBytes)
			hc.Show = quoted(hc.Bytes)
			hc.Tags = append(hc.Tags, "loop")
		} else {
			for _, it := range parseItems([]byte(s)) {
				it := it
				hc.Plan = append(hc.Plan, Step{It: &it})
			}
			hc.Show = quoted([]byte(s))
			hc.Tags = append(hc.Tags, "direct")
		}
		out = append(out, hc)
	}
	all := uint32(0x1ffff) &^ (1 << 3)
	for _, loop := range []bool{false, true} {
		for _, m := range []uint32{0, all} {
			// the defects repaired in /repo: each of these crashed or wedged the pinned code
			add(loop, m, "mouse-nomarker", "\x1b[0;1;1M")
			add(loop, m, "mouse-legacy-x10", "\x1b[M !!")
			add(loop, m, "mouse-nomarker", "\x1b[m")
			add(loop, m, "repeated-size-reply", "\x1b[8;24;80t\x1b[8;24;80t\x1b[8;25;81t")
			add(loop, m, "repeated-osc4-reply", "\x1b]4;1;rgb:0000/0000/0000\x07\x1b]4;1;rgb:1111/0000/0000\x07\x1b]4;2;rgb:2/2/2\x07")
			add(loop, m, "repeated-osc10-reply", "\x1b]10;rgb:0000/0000/0000\x07\x1b]10;rgb:1/1/1\x07")
			add(loop, m, "repeated-osc11-reply", "\x1b]11;rgb:0000/0000/0000\x07\x1b]11;rgb:1/1/1\x07")
			add(loop, m, "paste", "a\x1b[200~b\x1b[Ac\x1b[<0;1;1M\x1b[201~d")
			add(loop, m, "reply-inband", "\x1b[48;30;100;600;1000t")
			// DCS replies at the boundary of what the handlers index (no style digit, no data,
			// no parameter)
			for _, d := range []string{"1$r q", "$r q", "1$rq", "1$r", "1$r  q", "1$r q q", "1+r", "+r", "1+r=", "0+r", "$r", "r", "1$r7 q", "1$r4 q"} {
				add(loop, m, "reply-dcs-edge", "\x1bP"+d+"\x1b\\")
			}
			// a terminal faster than the writer of the cursor-position query
			for _, f := range [][2]string{
				{"\x1b[5;7R", "x"},
				{"a\x1b[5;7Rb", "c"},
				{"\x1b[1;2;3R\x1b[5;7R", "x"},
				{"\x1b[5;7R\x1b[5;7R", ""},
				{"a", "\x1b[5;7Rb"},
				{"\x1b[I\x1b[<0;3;4M", "y"},
				{"\x1b[0;0R", ""},
				{"\x1b[200~p\x1b[5;7Rq\x1b[201~", "z"},
				{"\x1b[8;24;80t\x1b[?62;4c\x1b[24;80R", "\x1b[1;2R"},
			} {
				out = append(out, fastCase(loop, m, f[0], f[1], "directed"))
			}
		}
	}
	// user input after a cursor-position query that timed out
	for _, loop := range []bool{false, true} {
		for _, m := range []uint32{0, all} {
			for _, f := range [][3]string{
				{"", "", "\x1b[1;2Rx"},
				{"", "", "\x1b[R\x1b[1;5R"},
				{"a", "b", "c\x1b[1;2R\x1b[1;2R"},
				{"\x1b[1;2R", "", "\x1b[1;3R\x1bOR"},
				{"", "\x1b[I", "\x1b[200~\x1b[1;2R\x1b[201~\x1b[R"},
			} {
				out = append(out, timeoutCase(loop, m, f[0], f[1], f[2], "directed"))
			}
		}
	}
	// clipboard reports against calls to ClipboardPop, every arrival order
	ra, rb, rc := "\x1b]52;c;b2xk\x1b\\", "\x1b]52;c;bmV3\x07", "\x1b]52;p;\x1b\\" // "old" "new" ""
	for _, m := range []uint32{0, all} {
		for _, sch := range [][]string{
			{ra, "<W>", rb},
			{ra, "x", "<W>", "<L>", "<W>", rb},
			{"<W>", "<L>", ra, "<W>", rb, "<L>"},
			{"<W>", ra, rb, "<L>", "<W>", "<L>"},
			{ra, ra, "<W>", "<L>", "<W>", rb, "<L>", "<W>", rc},
			{rc, "<W>", "y", ra},
			{"<W>", "\x1b]52;c;!!!\x07", "\x1b]52;c\x07", rb, "<L>", ra},
		} {
			out = append(out, clipCase(m, sch, "directed"))
		}
		for _, f := range [][2]string{{ra, rb}, {ra + ra, "x"}, {"a" + ra + "b", "c" + rb + rb}, {rc, ra}} {
			hc := HCase{Loop: true, Mask: m, Pre: []byte(f[0]), Plan: []Step{{App: "AClipWait"}}, Bytes: []byte(f[1] + sentinelBytes),
				Tags: []string{"earlier-traffic", "app-clip-wait", "clip-unsolicited-then-call", "directed", "loop"}}
			hc.Show = quoted(hc.allBytes())
			out = append(out, hc)
		}
	}
	return out
}

// ---------- mouse stream ----------

func mouseCases(g *gen, s *hx.Stream, n int) {
	add := func(it Item, tags ...string) {
		seq := it.toSeq().(ansi.CSI)
		var m vaxis.Mouse
		var ok bool
		panicked, msg := hx.Catch(func() { m, ok = vaxis.VerifC03ParseMouse(seq) })
		code := 0
		if panicked {
			code = 1
		}
		z := func(i int) string { return hx.Z(int64(i)) }
		term := hx.Tuple(hx.Tuple(hx.RuneSlice(it.Inter), psTerm(it.PS), z(int(it.Final))),
			hx.Tuple(z(code), hx.Bool(ok), hx.Tuple(z(int(m.Button)), z(m.Row), z(m.Col), z(int(m.EventType)), z(int(m.Modifiers)))))
		js := map[string]interface{}{"item": it, "panic": msg, "ok": ok, "mouse": m}
		s.Add(term, js, ok || panicked, tags...)
	}
	for i := 0; i < n; i++ {
		switch g.n(4) {
		case 0:
			add(g.rawItem(), "synthetic")
		default:
			t := g.mouse()
			for _, it := range parseItems([]byte(t.bytes)) {
				if it.Kind == "csi" && (it.Final == 'M' || it.Final == 'm') {
					add(it, t.tag)
				}
			}
		}
	}
	// every button code x modifier x motion combination, press and release
	for cb := 0; cb < 256; cb++ {
		for _, fin := range []rune{'M', 'm'} {
			add(Item{Kind: "csi", Inter: []rune{'<'}, PS: [][]int{{cb}, {1 + cb%7}, {1 + cb%5}}, Final: fin}, "all-cb")
		}
	}
	add(Item{Kind: "csi", PS: [][]int{{0}, {1}, {1}}, Final: 'M'}, "no-marker")
	add(Item{Kind: "csi", Final: 'M'}, "no-marker")
	add(Item{Kind: "csi", Inter: []rune{'<'}, PS: [][]int{{0}, {-9223372036854775808}, {0}}, Final: 'M'}, "int-min")
}

// ---------- timing samples (partial: real delays around the 50 ms / 100 ms time-outs) ----------

type timing struct {
	Trials, Answered, TimedOut, Wedged int
}

// a cursor-position reply arriving d after the query; afterwards the loop must still deliver
func cursorRace(delays []time.Duration) (timing, []hx.DirectViolation) {
	var t timing
	var dv []hx.DirectViolation
	for _, d := range delays {
		in := newInst(hx.ProfileFromMask(0, 24, 80), 0)
		res := make(chan [2]int, 1)
		go func() {
			r, c := in.vx.CursorPosition()
			res <- [2]int{r, c}
		}()
		<-in.sawCursor
		time.Sleep(d)
		in.fc.InjectString("\x1b[3;4R" + sentinelBytes)
		alive := false
		deadline := time.After(500 * time.Millisecond)
	read:
		for {
			select {
			case ev := <-in.vx.Events():
				if isSentinel(fromEvent(ev)) {
					alive = true
					break read
				}
			case <-deadline:
				break read
			}
		}
		rc := <-res
		t.Trials++
		switch {
		case !alive:
			t.Wedged++
			dv = append(dv, hx.DirectViolation{Class: "cursor-reply-race", Case: map[string]interface{}{"delay_us": d.Microseconds()},
				What: "a cursor-position reply arriving around the 50 ms time-out wedged the input loop"})
		case rc == [2]int{2, 3}:
			t.Answered++
		default:
			t.TimedOut++
		}
		in.close(alive)
	}
	return t, dv
}

// reportWinsize (100 ms deadline) against size reports arriving early, late, twice, never
func sizeRace(delays []time.Duration) (timing, []hx.DirectViolation) {
	var t timing
	var dv []hx.DirectViolation
	os.Setenv("VAXIS_FORCE_XTWINOPS", "1")
	defer os.Unsetenv("VAXIS_FORCE_XTWINOPS")
	for _, d := range delays {
		in := newInst(hx.ProfileFromMask(1<<8, 24, 80), 0)
		saw := make(chan struct{}, 4)
		in.fc.WriteHook = func(p []byte) {
			if string(p) == "\x1b[14t\x1b[18t" {
				saw <- struct{}{}
			}
		}
		in.vx.Resize()
		done := make(chan struct{})
		go func() { in.vx.Render(); close(done) }()
		<-saw
		time.Sleep(d)
		// the same report twice: the second one finds the channel full (or nobody waiting)
		in.fc.InjectString("\x1b[4;384;640t\x1b[8;30;100t\x1b[8;30;100t" + sentinelBytes)
		alive := false
		deadline := time.After(600 * time.Millisecond)
	read:
		for {
			select {
			case ev := <-in.vx.Events():
				if isSentinel(fromEvent(ev)) {
					alive = true
					break read
				}
			case <-deadline:
				break read
			}
		}
		<-done
		t.Trials++
		if !alive {
			t.Wedged++
			dv = append(dv, hx.DirectViolation{Class: "size-reply-race", Case: map[string]interface{}{"delay_us": d.Microseconds()},
				What: "size reports arriving around reportWinsize's 100 ms deadline wedged the input loop"})
		} else if d < 100*time.Millisecond {
			t.Answered++
		} else {
			t.TimedOut++
		}
		in.close(alive)
	}
	return t, dv
}

func main() {
	os.Unsetenv("COLORTERM")
	if len(os.Args) == 4 && os.Args[1] == "-loopchild" {
		from, _ := strconv.Atoi(os.Args[3])
		childMain(os.Args[2], from)
		return
	}
	cfg := hx.ParseFlags()
	g := &gen{r: cfg.Rand}
	imports := "model.Parser model.Mouse model.Input model.InputCheck model.InputColour"
	handle := hx.NewStream("handle", imports, "hcase", "c03_handle_mismatches", "c03_handle_violations")
	mouse := hx.NewStream("mouse", imports, "mcase", "c03_mouse_mismatches", "c03_mouse_violations")
	startup := hx.NewStream("startup", imports, "scase", "c03_startup_mismatches", "c03_startup_violations")
	startup.Known, startup.KnownClass = "c03_startup_known", "startup-typeahead"
	colour := hx.NewStream("colour", imports, "ccase", "c03_colour_mismatches", "c03_colour_violations")
	size := hx.NewStream("size", imports, "zcase", "c03_size_mismatches", "c03_size_violations")
	handle.ShardMax, startup.ShardMax, colour.ShardMax = 150, 100, 300

	nDirect, nLoop, nMouse, nStart, maxTok := 750, 600, 400, 90, 8
	nFastDirect, nFastLoop := 110, 70
	nClip := 60
	nTimeoutDirect, nTimeoutLoop := 24, 16
	nSize := 40
	nColDirect, nColLoop, nColSynth := 260, 60, 120
	raceDelays := []time.Duration{0, 45 * time.Millisecond, 49500 * time.Microsecond, 50 * time.Millisecond, 50500 * time.Microsecond, 55 * time.Millisecond}
	sizeDelays := []time.Duration{0, 99 * time.Millisecond, 101 * time.Millisecond}
	if cfg.Thorough() {
		nDirect, nLoop, nMouse, nStart, maxTok = 12000, 9000, 6000, 1500, 12
		nFastDirect, nFastLoop = 1600, 1000
		nClip = 900
		nTimeoutDirect, nTimeoutLoop = 300, 200
		nSize = 500
		nColDirect, nColLoop, nColSynth = 5000, 1200, 2500
		for i := 0; i < 120; i++ {
			raceDelays = append(raceDelays, 49*time.Millisecond+time.Duration(g.n(2000))*time.Microsecond)
		}
		for i := 0; i < 30; i++ {
			sizeDelays = append(sizeDelays, 99*time.Millisecond+time.Duration(g.n(2000))*time.Microsecond)
		}
	}

	if os.Getenv("C03_ONLY") == "colour" {
		// development aid: only the colour stream
		_, st := colourCases(g, colour, nColDirect, nColLoop, nColSynth)
		cfg.Write("C03", "colour only", []*hx.Stream{colour}, map[string]interface{}{"colour_stream": st}, nil)
		return
	}

	// ---- handle stream
	t0 := time.Now()
	var direct, loop []HCase
	for _, hc := range directed() {
		if hc.Loop {
			loop = append(loop, hc)
		} else {
			direct = append(direct, hc)
		}
	}
	for i := 0; i < nDirect; i++ {
		direct = append(direct, g.directCase(maxTok))
	}
	for i := 0; i < nLoop; i++ {
		loop = append(loop, g.loopCase(maxTok))
	}
	for i := 0; i < nFastDirect; i++ {
		direct = append(direct, g.fastCase(false, maxTok))
	}
	for i := 0; i < nFastLoop; i++ {
		loop = append(loop, g.fastCase(true, maxTok))
	}
	for i := 0; i < nClip; i++ {
		direct = append(direct, clipCase(g.mask(), clipSchedule(g)))
	}
	for i := 0; i < nTimeoutDirect; i++ {
		direct = append(direct, g.timeoutCase(false, maxTok))
	}
	for i := 0; i < nTimeoutLoop; i++ {
		loop = append(loop, g.timeoutCase(true, maxTok))
	}
	outcomes := map[string]int{}
	addH := func(hc HCase, res HResult) {
		js := map[string]interface{}{"case": hc, "observed": res}
		if len(res.Clips) > 0 {
			var cs []string
			for _, c := range res.Clips {
				cs = append(cs, quoted(c))
			}
			js["clipboardpop_returned"] = cs
		}
		nontrivial := false
		for _, e := range res.Events {
			if e.Kind != "key" {
				nontrivial = true
			}
		}
		tags := append([]string{}, hc.Tags...)
		// the observed order of CursorPosition's prologue, and whether a caller got an answer
		for _, st := range res.Steps {
			if st.App == "ACursorArm" {
				tags = append(tags, "sched-armed-before-write")
				break
			}
			if st.App == "ACursorWrite" {
				tags = append(tags, "sched-written-before-armed")
				break
			}
		}
		if len(res.Cursors) > 0 {
			tags = append(tags, "cursor-answered")
			nontrivial = true
		}
		if len(res.Clips) > 0 {
			tags = append(tags, "clip-answered")
			nontrivial = true
		}
		tags = append(tags, []string{"outcome-ok", "outcome-panic", "outcome-wedged"}[res.Code])
		outcomes[tags[len(tags)-1]]++
		handle.Add(res.term(hc), js, nontrivial || res.Code != 0, tags...)
	}
	for _, hc := range direct {
		addH(hc, runCase(hc))
	}
	tDirect := time.Since(t0)
	t0 = time.Now()
	for i, res := range runLoopCases(loop, cfg.Out) {
		addH(loop[i], res)
	}
	tLoop := time.Since(t0)

	// ---- mouse stream
	mouseCases(g, mouse, nMouse)

	// ---- start-up stream
	t0 = time.Now()
	startupFlakes := 0
	for i := 0; i < nStart; i++ {
		sc := SCase{Mask: g.mask(), DisableKitty: g.n(4) == 0, Rows: 5 + g.n(40), Cols: 10 + g.n(150),
			XTVersion: g.pick("", "fake(1.0)", "kitty(0.31.0)", "tmux 3.4", "tmux 3.4a"), CursorStyle: g.n(9) - 2}
		if i < 18 {
			sc.Mask = 1 << uint(i%17)
			if i == 17 {
				sc.Mask = 0x1ffff
			}
		}
		tags := []string{"profile"}
		if g.n(4) == 0 {
			// user input typed while the start-up queries are outstanding
			ks := ""
			for j, n := 0, 1+g.n(3); j < n; j++ {
				switch g.n(3) {
				case 0:
					ks += g.pick("a", "Z", "\r", "\x1b[A", "\x1b[97;5u")
				case 1:
					ks += g.pick("\x1b[<0;3;4M", "\x1b[I", "\x1b[200~x\x1b[201~")
				default:
					ks += string(rune(97 + g.n(26)))
				}
			}
			if g.n(2) == 0 {
				sc.Pre = ks
			} else {
				sc.Mid = ks
			}
			tags = append(tags, "typeahead")
		}
		// a start-up run is repeated when two observations of it differ (a machine stall can hit
		// New's 3 s deadline or the 50 ms cursor query): majority of three
		res := runStartup(sc)
		if r2 := runStartup(sc); r2.term(sc) != res.term(sc) {
			startupFlakes++
			if r3 := runStartup(sc); r3.term(sc) == r2.term(sc) {
				res = r2
			}
		}
		js := map[string]interface{}{"case": sc, "observed": res}
		if sc.Pre != "" || sc.Mid != "" {
			js["class"] = "startup-typeahead"
		}
		startup.Add(res.term(sc), js, len(res.CapsOn) > 0, tags...)
	}
	tStart := time.Since(t0)

	// ---- colour stream: the content of the colour replies against the real Query* calls
	tColour, colourStats := colourCases(g, colour, nColDirect, nColLoop, nColSynth)

	// ---- size stream: start-up, then size requests against a terminal whose size changes
	tSize := sizeCases(g, size, nSize)

	// ---- timing samples
	t0 = time.Now()
	race, dv1 := cursorRace(raceDelays)
	srace, dv2 := sizeRace(sizeDelays)
	tTiming := time.Since(t0)

	extra := map[string]interface{}{
		"handle_outcomes":   outcomes,
		"direct_cases":      len(direct),
		"loop_cases":        len(loop),
		"direct_seconds":    tDirect.Seconds(),
		"loop_seconds":      tLoop.Seconds(),
		"startup_seconds":   tStart.Seconds(),
		"timing_seconds":    tTiming.Seconds(),
		"colour_seconds":    tColour.Seconds(),
		"size_seconds":      tSize.Seconds(),
		"colour_stream":     colourStats,
		"startup_reruns":    startupFlakes,
		"cursor_reply_race": race,
		"size_reply_race":   srace,
		"timing_note":       "partial: replies are sent at sampled real delays around the 50 ms (CursorPosition) and 100 ms (reportWinsize) time-outs; only liveness of the loop afterwards is checked",
	}
	rule := "handle: a case is non-trivial when the implementation delivered an event other than a plain key, handed a cursor position or a clipboard text to a waiting caller, or crashed/wedged; mouse: parseMouseEvent accepted or panicked; startup: at least one capability detected; colour: a call to QueryColor / QueryForeground / QueryBackground passed its guards, wrote its query and returned; size: some Render of the history announced a new size"
	cfg.Write("C03", rule, []*hx.Stream{handle, mouse, startup, colour, size}, extra, append(dv1, dv2...))
}
