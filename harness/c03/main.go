package main

import (
	"fmt"
	"os"
	"time"

	vaxis "git.sr.ht/~rockorager/vaxis"
	"verif/harness/hx"
)

func drain(vx *vaxis.Vaxis, d time.Duration) []vaxis.Event {
	var out []vaxis.Event
	for {
		select {
		case ev := <-vx.Events():
			out = append(out, ev)
		case <-time.After(d):
			return out
		}
	}
}

func main() {
	os.Unsetenv("COLORTERM")
	which := os.Args[1]
	mask := uint32(0x1ffff) &^ (1 << 3)
	fc := hx.NewFakeConsole(hx.ProfileFromMask(mask, 5, 10))
	if which == "typeahead" {
		fc.InjectString("ab")
	}
	vx, err := vaxis.New(vaxis.Options{WithConsole: fc, NoSignals: true})
	if err != nil {
		panic(err)
	}
	fmt.Printf("startup events: %#v\n", drain(vx, 20*time.Millisecond))
	switch which {
	case "size":
		fc.InjectString("\x1b[8;5;10t\x1b[8;5;10tx")
	case "size1":
		fc.InjectString("\x1b[8;5;10tx")
	case "osc4":
		fc.InjectString("\x1b]4;1;rgb:0000/0000/0000\x07\x1b]4;1;rgb:0000/0000/0000\x07x")
	case "mouse":
		fc.InjectString("\x1b[0;1;1Mx")
	case "mouseok":
		fc.InjectString("\x1b[<0;1;1Mx")
	}
	fmt.Printf("events: %#v\n", drain(vx, 200*time.Millisecond))
}
