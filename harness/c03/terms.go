package main

import (
	"fmt"
	"reflect"
	"strings"

	vaxis "git.sr.ht/~rockorager/vaxis"
	"git.sr.ht/~rockorager/vaxis/ansi"
	"verif/harness/hx"
)

// Item is one delivered sequence in the vocabulary of coq/model/Parser.v (item).
type Item struct {
	Kind  string  `json:"k"` // print c0 esc ss3 csi osc dcs apc error
	Runes []rune  `json:"r,omitempty"`
	Inter []rune  `json:"i,omitempty"`
	PS    [][]int `json:"ps,omitempty"`
	DP    []int   `json:"dp,omitempty"`
	Final rune    `json:"f,omitempty"`
}

func cpRunes(r []rune) []rune { return append([]rune(nil), r...) }

// fromSeq copies a sequence delivered by the real parser (before Finish recycles it).
func fromSeq(seq ansi.Sequence) (Item, bool) {
	switch s := seq.(type) {
	case ansi.Print:
		return Item{Kind: "print", Runes: []rune(s.Grapheme)}, true
	case ansi.C0:
		return Item{Kind: "c0", Final: rune(s)}, true
	case ansi.ESC:
		return Item{Kind: "esc", Inter: cpRunes(s.Intermediate), Final: s.Final}, true
	case ansi.SS3:
		return Item{Kind: "ss3", Final: rune(s)}, true
	case ansi.CSI:
		it := Item{Kind: "csi", Inter: cpRunes(s.Intermediate), Final: s.Final}
		for _, p := range s.Parameters {
			it.PS = append(it.PS, append([]int{}, p...))
		}
		return it, true
	case ansi.OSC:
		return Item{Kind: "osc", Runes: cpRunes(s.Payload)}, true
	case ansi.DCS:
		return Item{Kind: "dcs", Inter: cpRunes(s.Intermediate), Final: s.Final, DP: append([]int(nil), s.Parameters...), Runes: cpRunes(s.Data)}, true
	case ansi.APC:
		return Item{Kind: "apc", Runes: []rune(s.Data)}, true
	case error:
		return Item{Kind: "error"}, true
	}
	return Item{}, false
}

// toSeq builds a fresh sequence value for a direct call of handleSequence.
func (it Item) toSeq() ansi.Sequence {
	switch it.Kind {
	case "print":
		return ansi.Print{Grapheme: string(it.Runes), Width: 1}
	case "c0":
		return ansi.C0(it.Final)
	case "esc":
		return ansi.ESC{Intermediate: cpRunes(it.Inter), Final: it.Final}
	case "ss3":
		return ansi.SS3(it.Final)
	case "csi":
		c := ansi.CSI{Intermediate: cpRunes(it.Inter), Final: it.Final}
		for _, p := range it.PS {
			c.Parameters = append(c.Parameters, append([]int{}, p...))
		}
		return c
	case "osc":
		return ansi.OSC{Payload: cpRunes(it.Runes)}
	case "dcs":
		return ansi.DCS{Final: it.Final, Intermediate: cpRunes(it.Inter), Parameters: append([]int(nil), it.DP...), Data: cpRunes(it.Runes)}
	case "apc":
		return ansi.APC{Data: string(it.Runes)}
	}
	return fmt.Errorf("error item")
}

func psTerm(ps [][]int) string {
	out := make([]string, len(ps))
	for i, p := range ps {
		out[i] = hx.IntList(p)
	}
	return hx.List(out)
}

func (it Item) term() string {
	switch it.Kind {
	case "print":
		return "IPrint " + hx.RuneSlice(it.Runes)
	case "c0":
		return "IC0 " + hx.Z(int64(it.Final))
	case "esc":
		return "IEsc " + hx.RuneSlice(it.Inter) + " " + hx.Z(int64(it.Final))
	case "ss3":
		return "ISS3 " + hx.Z(int64(it.Final))
	case "csi":
		return "ICsi " + hx.RuneSlice(it.Inter) + " " + psTerm(it.PS) + " " + hx.Z(int64(it.Final))
	case "osc":
		return "IOsc " + hx.RuneSlice(it.Runes)
	case "dcs":
		return "IDcs " + hx.Z(int64(it.Final)) + " " + hx.RuneSlice(it.Inter) + " " + hx.IntList(it.DP) + " " + hx.RuneSlice(it.Runes)
	case "apc":
		return "IApc " + hx.RuneSlice(it.Runes)
	}
	return "IError"
}

func (it Item) isKeyKind() bool {
	switch it.Kind {
	case "print", "c0", "esc", "ss3", "csi":
		return true
	}
	return false
}

func keyTerm(k vaxis.Key) string {
	return fmt.Sprintf("mkIKey %s %s %s %s %s %s", hx.Runes(k.Text), hx.Z(int64(k.Keycode)), hx.Z(int64(k.ShiftedCode)),
		hx.Z(int64(k.BaseLayoutCode)), hx.Z(int64(k.Modifiers)), hx.Z(int64(k.EventType)))
}

// keyTab is the decodeKey oracle for the items of a case: what the real decodeKey returns.
func keyTab(items []Item) string {
	seen := map[string]bool{}
	var out []string
	for _, it := range items {
		if !it.isKeyKind() {
			continue
		}
		t := it.term()
		if seen[t] {
			continue
		}
		seen[t] = true
		k := vaxis.VerifC03DecodeKey(it.toSeq())
		out = append(out, "("+t+", "+keyTerm(k)+")")
	}
	return hx.List(out)
}

// Ev is one event read from Events(), in the vocabulary of coq/model/Input.v (event).
type Ev struct {
	Kind string     `json:"k"`
	Key  *vaxis.Key `json:"key,omitempty"`
	M    []int      `json:"m,omitempty"` // button,row,col,type,mods | mode | cols,rows,xpix,ypix
	S    string     `json:"s,omitempty"`
}

var capNames = map[string]string{
	"vaxis.capabilitySixel": "CSixel", "vaxis.capabilityOsc4": "COsc4", "vaxis.capabilityOsc10": "COsc10",
	"vaxis.capabilityOsc11": "COsc11", "vaxis.synchronizedUpdates": "CSync", "vaxis.unicodeCoreCap": "CUnicode",
	"vaxis.kittyKeyboard": "CKittyKb", "vaxis.kittyGraphics": "CKittyGfx", "vaxis.styledUnderlines": "CSmulx",
	"vaxis.truecolor": "CRgb", "vaxis.notifyColorChange": "CTheme", "vaxis.textAreaPix": "CPix",
	"vaxis.textAreaChar": "CChars", "vaxis.inBandResizeEvents": "CInband",
}

func fromEvent(ev vaxis.Event) Ev {
	switch e := ev.(type) {
	case vaxis.Key:
		k := e
		return Ev{Kind: "key", Key: &k}
	case vaxis.Mouse:
		return Ev{Kind: "mouse", M: []int{int(e.Button), e.Row, e.Col, int(e.EventType), int(e.Modifiers)}}
	case vaxis.FocusIn:
		return Ev{Kind: "focusin"}
	case vaxis.FocusOut:
		return Ev{Kind: "focusout"}
	case vaxis.PasteStartEvent:
		return Ev{Kind: "pastestart"}
	case vaxis.PasteEndEvent:
		return Ev{Kind: "pasteend"}
	case vaxis.ColorThemeUpdate:
		return Ev{Kind: "theme", M: []int{int(e.Mode)}}
	case vaxis.Redraw:
		return Ev{Kind: "redraw"}
	case vaxis.Resize:
		return Ev{Kind: "resize", M: []int{e.Cols, e.Rows, e.XPixel, e.YPixel}}
	case vaxis.QuitEvent:
		return Ev{Kind: "quit"}
	}
	name := fmt.Sprintf("%T", ev)
	if c, ok := capNames[name]; ok {
		return Ev{Kind: "cap", S: c}
	}
	switch name {
	case "vaxis.primaryDeviceAttribute":
		return Ev{Kind: "da1"}
	case "vaxis.appID":
		return Ev{Kind: "appid", S: reflect.ValueOf(ev).String()}
	case "vaxis.terminalID":
		return Ev{Kind: "termid", S: reflect.ValueOf(ev).String()}
	}
	return Ev{Kind: "unknown " + name}
}

func (e Ev) term() string {
	z := func(i int) string { return hx.Z(int64(e.M[i])) }
	switch e.Kind {
	case "key":
		return "EKey (" + keyTerm(*e.Key) + ")"
	case "mouse":
		return fmt.Sprintf("EMouse (mkMouse %s %s %s %s %s)", z(0), z(1), z(2), z(3), z(4))
	case "focusin":
		return "EFocusIn"
	case "focusout":
		return "EFocusOut"
	case "pastestart":
		return "EPasteStart"
	case "pasteend":
		return "EPasteEnd"
	case "theme":
		return "EColorTheme " + z(0)
	case "redraw":
		return "ERedraw"
	case "resize":
		return fmt.Sprintf("EResize (mkSize %s %s %s %s)", z(0), z(1), z(2), z(3))
	case "quit":
		return "EQuit"
	case "cap":
		return "ECap " + e.S
	case "da1":
		return "EDA1"
	case "appid":
		return "EAppID " + hx.Runes(e.S)
	case "termid":
		return "ETermID " + hx.Runes(e.S)
	}
	panic("unknown event kind " + e.Kind)
}

func evsTerm(evs []Ev) string {
	out := make([]string, len(evs))
	for i, e := range evs {
		out[i] = e.term()
	}
	return hx.List(out)
}

// Step is an item or an application action (appact of Input.v).
type Step struct {
	It *Item `json:"it,omitempty"`
	// in a plan: ACursorQuery AClipWait; in the observed steps: ACursorArm ACursorWrite
	// ACursorGiveUp AClipWait AClipLeave
	App string `json:"app,omitempty"`
	// plan only, with ACursorQuery: the query's Write is held while the next Hold sequences
	// (direct mode) / the Held bytes (loop mode, any Hold > 0) are handled
	Hold int `json:"hold,omitempty"`
}

func stepsTerm(steps []Step) string {
	out := make([]string, len(steps))
	for i, s := range steps {
		if s.It != nil {
			out[i] = "SItem (" + s.It.term() + ")"
		} else {
			out[i] = "SApp " + s.App
		}
	}
	return hx.List(out)
}

type Snap struct {
	Paste, Req, Resize      bool
	Cols, Rows, XPix, YPix  int
	UserCursor              int
	SizeDone, Color, Fg, Bg int
	QLen, QCap              int
}

func snapOf(vx *vaxis.Vaxis) Snap {
	s := vx.VerifC03State()
	return Snap{s.PastePending, s.ReqCursorPos, s.ResizeFlag, s.NextSize.Cols, s.NextSize.Rows, s.NextSize.XPixel, s.NextSize.YPixel,
		s.UserCursorStyle, s.LenSizeDone, s.LenColor, s.LenFg, s.LenBg, s.LenQueue, s.CapQueue}
}

func (s Snap) term() string {
	z := func(i int) string { return hx.Z(int64(i)) }
	return hx.Tuple(hx.Bool(s.Paste), hx.Bool(s.Req), hx.Bool(s.Resize), hx.Tuple(z(s.Cols), z(s.Rows), z(s.XPix), z(s.YPix)),
		z(s.UserCursor), z(s.SizeDone), z(s.Color), z(s.Fg), z(s.Bg))
}

// the capability bits in the order of caps_bits in Input.v
var capOrder = []string{"synchronizedUpdate", "unicodeCore", "noZWJ", "rgb", "kittyGraphics", "kittyKeyboard",
	"styledUnderlines", "sixels", "colorThemeUpdates", "reportSizeChars", "reportSizePixels", "osc4", "osc10", "osc11",
	"osc176", "inBandResize", "explicitWidth"}

func capsTerm(vx *vaxis.Vaxis) (string, []string) {
	m := vx.VerifCaps()
	bits := make([]string, len(capOrder))
	var on []string
	for i, n := range capOrder {
		bits[i] = hx.Bool(m[n])
		if m[n] {
			on = append(on, n)
		}
	}
	return hx.List(bits), on
}

func optZ(v int, some bool) string {
	if !some {
		return hx.None
	}
	return hx.Some(hx.Z(int64(v)))
}

func quoted(b []byte) string { return strings.ReplaceAll(fmt.Sprintf("%q", string(b)), "\\x1b", "\\e") }
