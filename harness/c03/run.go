package main

import (
	"bytes"
	"context"
	"encoding/base64"
	"io"
	"strings"
	"sync"
	"time"

	vaxis "git.sr.ht/~rockorager/vaxis"
	"git.sr.ht/~rockorager/vaxis/ansi"
	"verif/harness/hx"
)

// ---------- a second, independent run of the real parser over the same bytes ----------

type chunkReader struct {
	rest []byte
}

func (c *chunkReader) Read(p []byte) (int, error) {
	if len(c.rest) == 0 {
		return 0, io.EOF
	}
	n := copy(p, c.rest)
	c.rest = c.rest[n:]
	return n, nil
}

// parseItems returns what ansi.Parser delivers for the bytes read as one chunk (prints
// unmerged: one per grapheme cluster, exactly what the input goroutine receives).
func parseItems(b []byte) []Item {
	out, timerEsc := parseItemsOnce(b)
	for n := 0; n < hx.TimerEscRetries && timerEsc; n++ {
		out, timerEsc = parseItemsOnce(b) // scheduling artefact, see hx.IsTimerEsc
	}
	return out
}

func parseItemsOnce(b []byte) (out []Item, timerEsc bool) {
	p := ansi.NewParser(&chunkReader{rest: append([]byte(nil), b...)})
	for seq := range p.Next() {
		if _, ok := seq.(ansi.EOF); ok {
			break
		}
		if hx.IsTimerEsc(seq) {
			timerEsc = true
		}
		it, ok := fromSeq(seq)
		if !ok {
			it = Item{Kind: "error"}
		}
		p.Finish(seq)
		if it.Kind == "error" {
			continue // documented noise: no case in handleSequence's type switch
		}
		out = append(out, it)
	}
	return out, timerEsc
}

// ---------- a real Vaxis on the fake console ----------

// teeConsole records every byte the parser reads: exactly what the terminal sent.
type teeConsole struct {
	*hx.FakeConsole
	mu  sync.Mutex
	log []byte
}

func (t *teeConsole) Read(p []byte) (int, error) {
	n, err := t.FakeConsole.Read(p)
	t.mu.Lock()
	t.log = append(t.log, p[:n]...)
	t.mu.Unlock()
	return n, err
}

func (t *teeConsole) taken() []byte {
	t.mu.Lock()
	defer t.mu.Unlock()
	return append([]byte(nil), t.log...)
}

type inst struct {
	fc *hx.FakeConsole
	vx *vaxis.Vaxis
	// signalled when the application-side query strings are written
	sawCursor chan struct{}
	sawClip   chan struct{}
	// the terminal as seen by the writer of a cursor-position query: the request flag at the
	// moment the query bytes arrive (read-only snapshot, taken inside Write), and, when hold is
	// set, a Write that does not return until the harness says so: a terminal that is faster
	// than the writer (its reply is handled before Write returns to CursorPosition)
	holdMu       sync.Mutex
	hold         chan struct{}
	armedAtWrite bool
}

func newInst(p hx.Profile, qsize int) *inst {
	in := &inst{fc: hx.NewFakeConsole(p), sawCursor: make(chan struct{}, 8), sawClip: make(chan struct{}, 8)}
	vx, err := vaxis.New(vaxis.Options{WithConsole: in.fc, NoSignals: true, EventQueueSize: qsize})
	if err != nil {
		panic(err)
	}
	in.vx = vx
	// quiescence: replies provoked by enableModes (a second in-band size report) may still be in
	// flight when New returns; a sentinel key tells when the goroutine has consumed everything
	in.fc.InjectString(sentinelBytes)
	deadline := time.After(2 * time.Second)
wait:
	for {
		select {
		case ev := <-vx.Events():
			if isSentinel(fromEvent(ev)) {
				break wait
			}
		case <-deadline:
			panic("start-up sentinel not delivered")
		}
	}
	in.fc.AutoReply = false
	in.fc.WriteHook = func(p []byte) {
		if bytes.Contains(p, []byte("\x1b[6n")) {
			armed := in.vx.VerifC03State().ReqCursorPos
			in.holdMu.Lock()
			in.armedAtWrite = armed
			h := in.hold
			in.holdMu.Unlock()
			in.sawCursor <- struct{}{}
			if h != nil {
				select {
				case <-h:
				case <-time.After(40 * time.Millisecond):
				}
			}
		}
		if bytes.Contains(p, []byte("\x1b]52;c;?\x1b\\")) {
			in.sawClip <- struct{}{}
		}
	}
	return in
}

func (in *inst) reqFlag() bool { return in.vx.VerifC03State().ReqCursorPos }

// drain takes what is in the queue right now
func (in *inst) drain() []Ev {
	var out []Ev
	for {
		select {
		case ev := <-in.vx.Events():
			out = append(out, fromEvent(ev))
		default:
			return out
		}
	}
}

func (in *inst) close(clean bool) {
	in.fc.WriteHook = nil
	if clean {
		in.fc.AutoReply = true
		if hx.WithTimeout(2*time.Second, in.vx.Close) {
			return
		}
	}
	in.fc.Close() // unblocks the parser's reader; the goroutines unwind on EOF
}

// ---------- one "handle" case ----------

type HCase struct {
	Loop  bool     `json:"loop"`  // through the real input goroutine (else handleSequence directly)
	Mask  uint32   `json:"mask"`  // capability profile of the fake terminal
	QSize int      `json:"qsize"` // Options.EventQueueSize (0 = default 1024)
	Lazy  bool     `json:"lazy"`  // loop mode: start reading Events() only after 25 ms
	Bytes []byte   `json:"bytes"` // loop mode: injected as one chunk (sentinel included)
	// loop mode, with a held cursor-position query in the plan: injected (followed by the hold
	// marker key) while the query's Write has not returned yet; Bytes follow after the release
	Held []byte `json:"held,omitempty"`
	// loop mode: earlier traffic.  Injected (followed by the hold marker key, whose delivery is
	// waited for) BEFORE the application actions of the plan start: what the terminal sent while
	// no call was in progress (unsolicited / late / repeated replies, keys); whatever state it
	// leaves behind is what the calls of the plan then meet
	Pre   []byte   `json:"pre,omitempty"`
	Show  string   `json:"show"`
	Plan  []Step   `json:"plan"` // direct mode: the steps; loop mode: app actions only (query first)
	Tags  []string `json:"tags"`
}

// held reports whether the plan holds the Write of a cursor-position query
func (hc HCase) held() bool {
	for _, s := range hc.Plan {
		if s.It == nil && s.Hold > 0 {
			return true
		}
	}
	return false
}

// allBytes is everything a loop-mode case sends, in order (two chunks when a Write is held)
func (hc HCase) allBytes() []byte {
	if !hc.Loop || (!hc.held() && len(hc.Pre) == 0) {
		return hc.Bytes
	}
	var b []byte
	if len(hc.Pre) > 0 {
		b = append(b, hc.Pre...)
		b = append(b, holdMarkerBytes...)
	}
	if hc.held() {
		b = append(b, hc.Held...)
		b = append(b, holdMarkerBytes...)
	}
	return append(b, hc.Bytes...)
}

type HResult struct {
	Code     int      `json:"code"` // 0 ok 1 panic 2 wedged
	Msg      string   `json:"msg,omitempty"`
	Steps    []Step   `json:"steps"`
	Events   []Ev     `json:"events"`
	Cursors  [][2]int `json:"cursors"`
	// what the callers of ClipboardPop received: raw bytes (a clipboard text need not be valid
	// UTF-8, and loop-mode results travel through JSON)
	Clips    [][]byte `json:"clips"`
	Init     Snap     `json:"init"`
	Final    *Snap    `json:"final"`
	CapsTerm string   `json:"capsterm"`
	CapsOn   []string `json:"caps"`
	QFree    int      `json:"qfree"`
}

const sentinelBytes = "\x18\x1b[20;7~"

var sentinelKey = vaxis.VerifC03DecodeKey(ansi.CSI{Parameters: [][]int{{20}, {7}}, Final: '~'})

// the key that ends the bytes injected while a Write is held (F10 with modifiers; CAN first, so
// that an unfinished sequence before it cannot swallow it)
const holdMarkerBytes = "\x18\x1b[21;7~"

var holdMarkerKey = vaxis.VerifC03DecodeKey(ansi.CSI{Parameters: [][]int{{21}, {7}}, Final: '~'})

func isHoldMarker(e Ev) bool {
	if e.Kind != "key" {
		return false
	}
	k := *e.Key
	k.EventType = holdMarkerKey.EventType
	return k == holdMarkerKey
}

func isSentinel(e Ev) bool {
	if e.Kind != "key" {
		return false
	}
	k := *e.Key
	k.EventType = sentinelKey.EventType
	return k == sentinelKey
}

type waiters struct {
	in     *inst
	curCh  chan [2]int
	clipCh chan *string
	cancel context.CancelFunc
	cursor bool
	clip   bool
	// CursorPosition returned -1,-1 well before its time-out: the reply was 0;0
	zeroAnswer bool
	// the query's Write is being held; the arming of the request flag has not been seen yet
	holding    bool
	pendingArm bool
}

// release lets a held Write return, and reports the arming of the request flag if it had not
// happened when the query was written (it then follows the write: waited for, at most 5 ms)
func (w *waiters) release(res *HResult) {
	if w.holding {
		w.in.holdMu.Lock()
		close(w.in.hold)
		w.in.hold = nil
		w.in.holdMu.Unlock()
		w.holding = false
	}
	if w.pendingArm {
		deadline := time.Now().Add(5 * time.Millisecond)
		for !w.in.reqFlag() && time.Now().Before(deadline) {
			time.Sleep(20 * time.Microsecond)
		}
		res.Steps = append(res.Steps, Step{App: "ACursorArm"})
		w.pendingArm = false
	}
}

// handle calls handleSequence (direct mode).  While a Write is held, a report that uses the
// armed request up leaves the handler offering the answer to a caller that cannot reach its
// select before Write returns: the Write is released at that point (the reply WAS handled before
// the write returned; how long the terminal keeps the writer waiting afterwards is immaterial)
func (w *waiters) handle(seq ansi.Sequence, res *HResult) (returned, panicked bool, msg string) {
	armedBefore := w.holding && w.in.reqFlag()
	done := make(chan struct{})
	go func() {
		defer close(done)
		panicked, msg = hx.Catch(func() { w.in.vx.VerifC03Handle(seq) })
	}()
	deadline := time.After(150 * time.Millisecond)
	tick := time.NewTicker(50 * time.Microsecond)
	defer tick.Stop()
	for {
		select {
		case <-done:
			return true, panicked, msg
		case <-deadline:
			return false, false, ""
		case <-tick.C:
			if w.holding && armedBefore && !w.in.reqFlag() {
				w.release(res)
			}
		}
	}
}

// start begins an application action; for CursorPosition the observed order of its two prologue
// statements is reported (ACursorArm / ACursorWrite: the flag as the terminal found it when the
// query arrived), with hold the Write does not return before release
func (w *waiters) start(app string, hold bool, res *HResult) {
	switch app {
	case "ACursorQuery":
		w.curCh = make(chan [2]int, 1)
		w.cursor = true
		if hold {
			w.in.holdMu.Lock()
			w.in.hold = make(chan struct{})
			w.in.holdMu.Unlock()
			w.holding = true
		}
		go func() {
			t0 := time.Now()
			r, c := w.in.vx.CursorPosition()
			if r == -1 && c == -1 && time.Since(t0) < 40*time.Millisecond {
				// an answer "0;0" (reported as -1,-1), not the 50 ms time-out
				w.curCh <- [2]int{-1, -1}
				w.zeroAnswer = true
				return
			}
			w.curCh <- [2]int{r, c}
		}()
		select {
		case <-w.in.sawCursor:
		case <-time.After(time.Second):
		}
		w.in.holdMu.Lock()
		armed := w.in.armedAtWrite
		w.in.holdMu.Unlock()
		if armed {
			res.Steps = append(res.Steps, Step{App: "ACursorArm"}, Step{App: "ACursorWrite"})
		} else {
			res.Steps = append(res.Steps, Step{App: "ACursorWrite"})
			w.pendingArm = true
		}
		if !hold {
			w.release(res)
		}
	case "ACursorGiveUp":
		// in the middle of a plan: the call to CursorPosition in progress returns now, with its
		// answer or because its 50 ms timer fires; what follows in the plan meets the state the
		// finished (timed-out) query leaves behind
		if w.cursor {
			w.release(res)
			select {
			case rc := <-w.curCh:
				if rc != [2]int{-1, -1} || w.zeroAnswer {
					res.Cursors = append(res.Cursors, [2]int{rc[0] + 1, rc[1] + 1})
				}
			case <-time.After(500 * time.Millisecond):
				res.Msg += " CursorPosition did not return"
			}
			w.cursor = false
			w.zeroAnswer = false
			res.Steps = append(res.Steps, Step{App: "ACursorGiveUp"})
		}
	case "AClipLeave":
		if w.clip {
			w.leaveClip(res)
		}
	case "AClipWait":
		if w.clip {
			// one call at a time: the previous one returns first
			w.leaveClip(res)
		}
		res.Steps = append(res.Steps, Step{App: app})
		w.clipCh = make(chan *string, 1)
		w.clip = true
		ctx, cancel := context.WithCancel(context.Background())
		w.cancel = cancel
		go func() {
			s, err := w.in.vx.ClipboardPop(ctx)
			if err != nil {
				w.clipCh <- nil
				return
			}
			w.clipCh <- &s
		}()
		select {
		case <-w.in.sawClip:
		case <-time.After(time.Second):
		}
		// the caller enters its select right after the write
		time.Sleep(200 * time.Microsecond)
	}
}

// finish waits for the callers to return: the cursor query either got its answer or times
// out (50 ms); the clipboard caller is cancelled.
func (w *waiters) finish(res *HResult) {
	if w.cursor {
		select {
		case rc := <-w.curCh:
			if rc != [2]int{-1, -1} || w.zeroAnswer {
				res.Cursors = append(res.Cursors, [2]int{rc[0] + 1, rc[1] + 1})
			}
		case <-time.After(500 * time.Millisecond):
			res.Msg += " CursorPosition did not return"
		}
	}
	if w.clip {
		w.leaveClip(res)
	}
}

// leaveClip: the call to ClipboardPop in progress returns: with the answer it has received, or
// because its context is cancelled now (AClipLeave)
func (w *waiters) leaveClip(res *HResult) {
	select {
	case s := <-w.clipCh:
		if s != nil {
			res.Clips = append(res.Clips, []byte(*s))
		}
	case <-time.After(2 * time.Millisecond):
		w.cancel()
		if s := <-w.clipCh; s != nil {
			res.Clips = append(res.Clips, []byte(*s))
		}
	}
	w.cancel()
	w.clip = false
	res.Steps = append(res.Steps, Step{App: "AClipLeave"})
}

func runCase(hc HCase) HResult {
	in := newInst(hx.ProfileFromMask(hc.Mask, 24, 80), hc.QSize)
	res := HResult{Init: snapOf(in.vx), Events: []Ev{}, Cursors: [][2]int{}, Clips: [][]byte{}}
	res.CapsTerm, res.CapsOn = capsTerm(in.vx)
	res.QFree = res.Init.QCap - res.Init.QLen
	w := &waiters{in: in}
	clean := true
	if hc.Loop {
		if len(hc.Pre) > 0 {
			pre := append(append([]byte(nil), hc.Pre...), holdMarkerBytes...)
			for _, it := range parseItems(pre) {
				it := it
				res.Steps = append(res.Steps, Step{It: &it})
			}
			in.fc.Inject(pre)
			deadline := time.After(1500 * time.Millisecond)
		pre:
			for {
				select {
				case ev := <-in.vx.Events():
					e := fromEvent(ev)
					res.Events = append(res.Events, e)
					if isHoldMarker(e) {
						break pre
					}
				case <-deadline:
					res.Code = 2
					res.Msg = "marker key after the earlier traffic not delivered within 1.5 s"
					in.close(false)
					return res
				}
			}
		}
		for _, s := range hc.Plan {
			w.start(s.App, s.Hold > 0, &res)
		}
		if w.holding {
			// the terminal answers while the Write has not returned: these bytes go through the
			// real goroutine now; the Write returns when the marker key that ends them has been
			// delivered, or as soon as a report has used the armed request up (see handle)
			held := append(append([]byte(nil), hc.Held...), holdMarkerBytes...)
			for _, it := range parseItems(held) {
				it := it
				res.Steps = append(res.Steps, Step{It: &it})
			}
			armedBefore := in.reqFlag()
			in.fc.Inject(held)
			deadline := time.After(30 * time.Millisecond)
			tick := time.NewTicker(50 * time.Microsecond)
		hold:
			for {
				select {
				case ev := <-in.vx.Events():
					e := fromEvent(ev)
					res.Events = append(res.Events, e)
					if isHoldMarker(e) {
						break hold
					}
				case <-tick.C:
					if armedBefore && !in.reqFlag() {
						break hold
					}
				case <-deadline:
					break hold
				}
			}
			tick.Stop()
			w.release(&res)
			time.Sleep(200 * time.Microsecond)
		}
		for _, it := range parseItems(hc.Bytes) {
			it := it
			res.Steps = append(res.Steps, Step{It: &it})
		}
		in.fc.Inject(hc.Bytes)
		if hc.Lazy {
			time.Sleep(25 * time.Millisecond)
		}
		deadline := time.After(1500 * time.Millisecond)
	read:
		for {
			select {
			case ev := <-in.vx.Events():
				e := fromEvent(ev)
				res.Events = append(res.Events, e)
				if isSentinel(e) {
					break read
				}
			case <-deadline:
				res.Code = 2
				res.Msg = "sentinel key not delivered within 1.5 s"
				clean = false
				break read
			}
		}
	} else {
		heldLeft := 0
	steps:
		for _, s := range hc.Plan {
			if s.It == nil {
				// with Hold = k the query's Write returns only after the next k sequences of the
				// plan have been handled
				w.start(s.App, s.Hold > 0, &res)
				heldLeft = s.Hold
				continue
			}
			res.Steps = append(res.Steps, s)
			returned, panicked, msg := w.handle(s.It.toSeq(), &res)
			switch {
			case !returned:
				res.Code, res.Msg, clean = 2, "handleSequence did not return within 150 ms", false
				break steps
			case panicked:
				res.Code, res.Msg = 1, msg
				break steps
			}
			if heldLeft > 0 {
				if heldLeft--; heldLeft == 0 {
					w.release(&res)
				}
			}
		}
		w.release(&res)
		if res.Code == 2 {
			// the queue is full and the handler is blocked in a send: take exactly what is queued
			n := snapOf(in.vx).QLen
			for i := 0; i < n; i++ {
				res.Events = append(res.Events, fromEvent(<-in.vx.Events()))
			}
		} else {
			res.Events = append(res.Events, in.drain()...)
		}
	}
	if res.Code == 0 {
		// the waiting callers return (answer, 50 ms time-out, or cancellation)
		if w.cursor {
			res.Steps = append(res.Steps, Step{App: "ACursorGiveUp"})
		}
		// a call to ClipboardPop still in progress returns (step AClipLeave)
		w.finish(&res)
		f := snapOf(in.vx)
		res.Final = &f
	}
	in.close(clean)
	return res
}

// parserModelGap: Parser.print extends a grapheme cluster with bufio's ReadRune directly, so an
// invalid byte right after a cluster-prepending rune is joined as U+FFFD, where readRune would
// have delivered the raw byte; the parser model (C02) has readRune's behaviour only.  For such a
// stream the byte-level agreement with the parser model is not asserted (the items are still
// checked against the model of handleSequence).
func parserModelGap(b []byte, items []Item) bool {
	if bytes.Contains(b, []byte("\xef\xbf\xbd")) {
		return false
	}
	for _, it := range items {
		if it.Kind == "print" {
			for _, r := range it.Runes {
				if r == 0xFFFD {
					return true
				}
			}
		}
	}
	return false
}

// the oracle table for base64.StdEncoding.DecodeString: the third field of OSC 52 payloads
func b64Tab(steps []Step) string {
	var out []string
	seen := map[string]bool{}
	for _, s := range steps {
		if s.It == nil || s.It.Kind != "osc" {
			continue
		}
		pl := string(s.It.Runes)
		vals := strings.Split(pl, ";")
		if !strings.HasPrefix(pl, "52") || len(vals) != 3 || seen[vals[2]] {
			continue
		}
		seen[vals[2]] = true
		b, err := base64.StdEncoding.DecodeString(vals[2])
		r := hx.None
		if err == nil {
			r = hx.Some(hx.Bytes(b))
		}
		out = append(out, hx.Tuple(hx.Runes(vals[2]), r))
	}
	return hx.List(out)
}

func (res HResult) term(hc HCase) string {
	var items []Item
	for _, s := range res.Steps {
		if s.It != nil {
			items = append(items, *s.It)
		}
	}
	q, bs := hx.Some(hx.Z(int64(res.QFree))), hx.None
	if hc.Loop {
		all := hc.allBytes()
		q, bs = hx.None, hx.Some(hx.Bytes(all))
		if parserModelGap(all, items) {
			bs = hx.None
		}
	}
	curs := make([]string, len(res.Cursors))
	for i, c := range res.Cursors {
		curs[i] = hx.Tuple(hx.Z(int64(c[0])), hx.Z(int64(c[1])))
	}
	clips := make([]string, len(res.Clips))
	for i, c := range res.Clips {
		clips[i] = hx.Bytes(c)
	}
	fin := hx.None
	if res.Final != nil {
		fin = hx.Some(res.Final.term())
	}
	return hx.Tuple(
		hx.Tuple(res.CapsTerm, q, bs, res.Init.term()),
		stepsTerm(res.Steps),
		hx.Tuple(keyTab(items), b64Tab(res.Steps)),
		hx.Tuple(hx.Z(int64(res.Code)), evsTerm(res.Events), hx.List(curs), hx.List(clips), fin))
}

// ---------- start-up ----------

type SCase struct {
	Mask         uint32 `json:"mask"`
	DisableKitty bool   `json:"disable_kitty"`
	XTVersion    string `json:"xtversion"`
	CursorStyle  int    `json:"cursor_style_reply"`
	Pre          string `json:"typeahead_before"` // sent before any reply
	Mid          string `json:"typeahead_mid"`    // sent after the cursor-position reply, before the other replies
	Rows, Cols   int
}

type SResult struct {
	Sent     []byte   `json:"-"`
	Show     string   `json:"terminal_sent"`
	Items    []Item   `json:"items"`
	CapsTerm string   `json:"-"`
	CapsOn   []string `json:"caps"`
	AppID    string   `json:"appid"`
	TermID   string   `json:"termid"`
	Events   []Ev     `json:"events"`
}

func runStartup(sc SCase) SResult {
	p := hx.ProfileFromMask(sc.Mask, sc.Rows, sc.Cols)
	p.XTVersion = sc.XTVersion
	p.CursorStyleReply = sc.CursorStyle
	fc := hx.NewFakeConsole(p)
	tee := &teeConsole{FakeConsole: fc}
	if sc.Pre != "" {
		fc.InjectString(sc.Pre)
	}
	fc.WriteHook = func(b []byte) {
		if sc.Mid != "" && bytes.Contains(b, []byte("\x1b[c")) {
			fc.InjectString(sc.Mid)
		}
	}
	vx, err := vaxis.New(vaxis.Options{WithConsole: tee, NoSignals: true, DisableKittyKeyboard: sc.DisableKitty})
	if err != nil {
		panic(err)
	}
	var res SResult
	fc.InjectString(sentinelBytes)
	deadline := time.After(2 * time.Second)
wait:
	for {
		select {
		case ev := <-vx.Events():
			e := fromEvent(ev)
			res.Events = append(res.Events, e)
			if isSentinel(e) {
				break wait
			}
		case <-deadline:
			panic("start-up sentinel not delivered")
		}
	}
	res.Sent = tee.taken()
	res.Show = quoted(res.Sent)
	res.Items = parseItems(res.Sent)
	in := &inst{fc: fc, vx: vx}
	res.CapsTerm, res.CapsOn = capsTerm(vx)
	st := vx.VerifC03State()
	res.AppID, res.TermID = st.AppIDLast, st.TermID
	fc.WriteHook = nil
	in.close(true)
	return res
}

func (res SResult) term(sc SCase) string {
	its := make([]string, len(res.Items))
	for i, it := range res.Items {
		its[i] = it.term()
	}
	return hx.Tuple(
		hx.Tuple(hx.Bool(sc.DisableKitty), hx.Tuple(hx.Z(int64(sc.Cols)), hx.Z(int64(sc.Rows)))),
		hx.List(its), keyTab(res.Items),
		hx.Tuple(res.CapsTerm, hx.Runes(res.AppID), hx.Runes(res.TermID), evsTerm(res.Events)))
}
