// Package termhx drives the real embedded terminal emulator (widgets/term) through
// the verif hook for the C05 / C06 harnesses: byte generators, the step runner and
// the Coq rendering of items, cells and observations (types of coq/model/Term.v and
// coq/model/TermCheck.v).
package termhx

import (
	"bytes"
	"fmt"
	"math/rand"
	"strconv"
	"strings"

	vaxis "git.sr.ht/~rockorager/vaxis"
	"git.sr.ht/~rockorager/vaxis/ansi"
	"git.sr.ht/~rockorager/vaxis/widgets/term"
	"verif/harness/hx"
)

// ---------------------------------------------------------------- items

// Item is one delivered sequence in the vocabulary of Term.titem.
type Item struct {
	Kind   string    `json:"k"` // print c0 esc csi osc dcs apc other
	Runes  []int64   `json:"r,omitempty"`
	Width  int       `json:"w,omitempty"`
	Inter  []int64   `json:"i,omitempty"`
	Final  int64     `json:"f,omitempty"`
	Params [][]int64 `json:"ps,omitempty"`
}

func runes(rs []rune) []int64 {
	out := make([]int64, len(rs))
	for i, r := range rs {
		out[i] = int64(r)
	}
	return out
}

// FromSeq copies a sequence (update recycles its slices).
func FromSeq(seq ansi.Sequence) Item {
	switch s := seq.(type) {
	case ansi.Print:
		return Item{Kind: "print", Runes: runes([]rune(s.Grapheme)), Width: s.Width}
	case ansi.C0:
		return Item{Kind: "c0", Final: int64(s)}
	case ansi.ESC:
		return Item{Kind: "esc", Inter: runes(s.Intermediate), Final: int64(s.Final)}
	case ansi.CSI:
		it := Item{Kind: "csi", Inter: runes(s.Intermediate), Final: int64(s.Final)}
		for _, p := range s.Parameters {
			sub := make([]int64, len(p))
			for i, v := range p {
				sub[i] = int64(v)
			}
			it.Params = append(it.Params, sub)
		}
		return it
	case ansi.OSC:
		return Item{Kind: "osc", Runes: runes(s.Payload)}
	case ansi.DCS:
		return Item{Kind: "dcs", Final: int64(s.Final)}
	case ansi.APC:
		return Item{Kind: "apc"}
	default:
		return Item{Kind: "other"}
	}
}

// ToSeq rebuilds a sequence from an item (for hand-built items).
func (it Item) ToSeq() ansi.Sequence {
	rs := func(v []int64) []rune {
		if len(v) == 0 {
			return nil
		}
		out := make([]rune, len(v))
		for i, x := range v {
			out[i] = rune(x)
		}
		return out
	}
	switch it.Kind {
	case "print":
		return ansi.Print{Grapheme: string(rs(it.Runes)), Width: it.Width}
	case "c0":
		return ansi.C0(rune(it.Final))
	case "esc":
		return ansi.ESC{Intermediate: rs(it.Inter), Final: rune(it.Final)}
	case "csi":
		c := ansi.CSI{Intermediate: rs(it.Inter), Final: rune(it.Final)}
		for _, p := range it.Params {
			sub := make([]int, len(p))
			for i, v := range p {
				sub[i] = int(v)
			}
			c.Parameters = append(c.Parameters, sub)
		}
		return c
	case "osc":
		return ansi.OSC{Payload: rs(it.Runes)}
	case "apc":
		return ansi.APC{}
	case "dcs":
		return ansi.DCS{Final: rune(it.Final)}
	}
	return ansi.SS3('A')
}

func (it Item) Coq() string {
	switch it.Kind {
	case "print":
		return "TPrint " + hx.ZList(it.Runes) + " " + hx.Z(int64(it.Width))
	case "c0":
		return "TC0 " + hx.Z(it.Final)
	case "esc":
		return "TEsc " + hx.ZList(it.Inter) + " " + hx.Z(it.Final)
	case "csi":
		ps := make([]string, len(it.Params))
		for i, p := range it.Params {
			ps[i] = hx.ZList(p)
		}
		return "TCsi " + hx.ZList(it.Inter) + " " + hx.List(ps) + " " + hx.Z(it.Final)
	case "osc":
		return "TOsc " + hx.ZList(it.Runes)
	case "dcs":
		return "TDcs"
	case "apc":
		return "TApc"
	}
	return "TOther"
}

// Parse runs the real parser over one chunk of child output.
func Parse(b []byte) []ansi.Sequence {
	out, timerEsc := parseOnce(b)
	for n := 0; n < hx.TimerEscRetries && timerEsc; n++ {
		out, timerEsc = parseOnce(b) // scheduling artefact, see hx.IsTimerEsc
	}
	return out
}

func parseOnce(b []byte) (out []ansi.Sequence, timerEsc bool) {
	p := ansi.NewParser(bytes.NewReader(b))
	for s := range p.Next() {
		if _, ok := s.(ansi.EOF); ok {
			continue
		}
		if hx.IsTimerEsc(s) {
			timerEsc = true
		}
		out = append(out, s)
	}
	return out, timerEsc
}

// ---------------------------------------------------------------- Coq rendering of state

func CoqStyle(s vaxis.Style) string {
	return fmt.Sprintf("(mkStyle (mkPen %d %d %d %d %d) %s %s)",
		uint32(s.Foreground), uint32(s.Background), uint32(s.UnderlineColor), int(s.UnderlineStyle), int(s.Attribute),
		hx.Runes(s.Hyperlink), hx.Runes(s.HyperlinkParams))
}

func coqCell(c term.VerifCell) string {
	return fmt.Sprintf("(mkCell %s %s %s %s)", hx.Runes(c.Grapheme), hx.Z(int64(c.Width)), CoqStyle(c.Style), hx.Bool(c.Wrapped))
}

func isZeroCell(c term.VerifCell) bool {
	return c.Grapheme == "" && c.Width == 0 && c.Style == (vaxis.Style{}) && !c.Wrapped
}

func coqSparse(g [][]term.VerifCell) string {
	var out []string
	for r := range g {
		for c := range g[r] {
			if !isZeroCell(g[r][c]) {
				out = append(out, fmt.Sprintf("(%d, %d, %s)", r, c, coqCell(g[r][c])))
			}
		}
	}
	return hx.List(out)
}

func coqChars(des [4]int, sel, saved int, ss bool) string {
	return fmt.Sprintf("(mkChars [%d; %d; %d; %d] %d %d %s)", des[0], des[1], des[2], des[3], sel, saved, hx.Bool(ss))
}

func coqSaved(s term.VerifSaved) string {
	return fmt.Sprintf("(mkSaved %s %s %s %d %s %s %s)", hx.Z(int64(s.Row)), hx.Z(int64(s.Col)), CoqStyle(s.Pen), s.Shape,
		hx.Bool(s.Decawm), hx.Bool(s.Decom), coqChars(s.Designations, s.Selected, s.SavedCharset, false))
}

// Obs is the observation after one step.
type Obs struct {
	Outcome int                 `json:"out"`
	Msg     string              `json:"msg,omitempty"`
	Snap    *term.VerifSnapshot `json:"-"`
	PLens   []int               `json:"-"`
	ALens   []int               `json:"-"`
	Full    bool                `json:"-"`
	Row     int                 `json:"row"`
	Col     int                 `json:"col"`
	Rows    int                 `json:"rows"`
	Cols    int                 `json:"cols"`
	Top     int                 `json:"top"`
	Bottom  int                 `json:"bot"`
	LastCol bool                `json:"lastcol"`
	Events  int                 `json:"ev"`
}

func (o Obs) Coq() string {
	if o.Outcome != 0 || o.Snap == nil {
		return fmt.Sprintf("(mkObs %d 0 0 0 0 false 0 0 0 0 0 [] [] None)", o.Outcome)
	}
	s := o.Snap
	full := "None"
	if o.Full {
		full = fmt.Sprintf("(Some (mkFull %s %d %s (mkModes %s %s %s %s %s %s) %s %s %s %s %s %s))",
			CoqStyle(s.Pen), s.Shape, hx.Bool(s.ActiveIsAlt),
			hx.Bool(s.Irm), hx.Bool(s.Lnm), hx.Bool(s.Decawm), hx.Bool(s.Decom), hx.Bool(s.Smcup), hx.Bool(s.Dectcem),
			hx.IntList(s.TabStops), coqChars(s.Designations, s.Selected, s.SavedCharset, s.SingleShift),
			coqSaved(s.SavedPrimary), coqSaved(s.SavedAlt), coqSparse(s.Primary), coqSparse(s.Alt))
	}
	return fmt.Sprintf("(mkObs 0 %d %d %s %s %s %s %s %s %s %d %s %s %s)",
		s.Rows, s.Cols, hx.Z(int64(s.CursorRow)), hx.Z(int64(s.CursorCol)), hx.Bool(s.LastCol),
		hx.Z(int64(s.Top)), hx.Z(int64(s.Bottom)), hx.Z(int64(s.Left)), hx.Z(int64(s.Right)), s.Events,
		hx.IntList(o.PLens), hx.IntList(o.ALens), full)
}

// Step is one element of a history.
type Step struct {
	Resize bool   `json:"resize,omitempty"`
	W      int    `json:"w,omitempty"`
	H      int    `json:"h,omitempty"`
	Drain  bool   `json:"drain,omitempty"`
	Item   *Item  `json:"item,omitempty"`
	Bytes  string `json:"bytes,omitempty"` // the chunk this item came from (first item of a chunk only)
	Obs    Obs    `json:"obs"`
}

func (s Step) Coq() string {
	if s.Resize {
		return fmt.Sprintf("(HResize %d %d, %s)", s.W, s.H, s.Obs.Coq())
	}
	return fmt.Sprintf("(HFeed %s (%s), %s)", hx.Bool(s.Drain), s.Item.Coq(), s.Obs.Coq())
}

func CoqHistory(steps []Step) string {
	out := make([]string, len(steps))
	for i, s := range steps {
		out[i] = s.Coq()
	}
	return "[" + strings.Join(out, ";\n ") + "]"
}

// ---------------------------------------------------------------- runner

// Runner executes a history on the real emulator.
type Runner struct {
	T         *term.VerifTerm
	Steps     []Step
	Dead      bool // a step ended with panic / stall / hang
	FullEvery int
	n         int
}

func (r *Runner) observe(outcome int, msg string, forceFull bool) Obs {
	o := Obs{Outcome: outcome, Msg: msg}
	if outcome != 0 {
		r.Dead = true
		return o
	}
	r.n++
	full := forceFull || (r.FullEvery > 0 && r.n%r.FullEvery == 0)
	s := r.T.Snapshot(full)
	o.Snap = &s
	o.Full = full
	o.PLens, o.ALens = r.T.RowLens()
	o.Row, o.Col, o.Rows, o.Cols, o.Top, o.Bottom, o.LastCol, o.Events = s.CursorRow, s.CursorCol, s.Rows, s.Cols, s.Top, s.Bottom, s.LastCol, s.Events
	return o
}

// Observe takes a light observation of the current state.
func (r *Runner) Observe() Obs { return r.observe(0, "", false) }

// Start builds the emulator (New + first resize).
func (r *Runner) Start(w, h int) {
	t, o, m := term.VerifNewTerm(w, h)
	r.T = t
	r.Steps = append(r.Steps, Step{Resize: true, W: w, H: h, Obs: r.observe(o, m, false)})
}

func (r *Runner) Resize(w, h int) {
	if r.Dead {
		return
	}
	o, m := r.T.Resize(w, h)
	r.Steps = append(r.Steps, Step{Resize: true, W: w, H: h, Obs: r.observe(o, m, false)})
}

// FeedSeq feeds one sequence; drain: the goroutine consumed one event first.
func (r *Runner) FeedSeq(seq ansi.Sequence, drain bool, chunk string) {
	if r.Dead {
		return
	}
	it := FromSeq(seq)
	if drain {
		r.T.Drain()
	}
	o, m := r.T.Feed(seq)
	r.T.Replies()
	r.Steps = append(r.Steps, Step{Drain: drain, Item: &it, Bytes: chunk, Obs: r.observe(o, m, false)})
}

// FeedBytes parses a chunk with the real parser and feeds every sequence.
func (r *Runner) FeedBytes(b []byte, drainP float64, rng *rand.Rand) {
	if r.Dead {
		return
	}
	chunk := strconv.Quote(string(b))
	for _, seq := range Parse(b) {
		if r.Dead {
			return
		}
		r.FeedSeq(seq, rng.Float64() < drainP, chunk)
		chunk = ""
	}
}

// Finish marks the last observation as a full one and releases the emulator.
func (r *Runner) Finish() {
	if !r.Dead && len(r.Steps) > 0 {
		last := &r.Steps[len(r.Steps)-1]
		s := r.T.Snapshot(true)
		last.Obs.Snap = &s
		last.Obs.Full = true
	}
	r.T.Close()
}

// LastOutcome is the outcome of the final step.
func (r *Runner) LastOutcome() int {
	if len(r.Steps) == 0 {
		return 0
	}
	return r.Steps[len(r.Steps)-1].Obs.Outcome
}
