package termhx

import (
	"fmt"
	"math/rand"
	"strings"
)

// Gen produces child output for a screen of the given size.
type Gen struct {
	R    *rand.Rand
	W, H int
	// MaxParam bounds the "huge" parameter values (0 = include 2^31, 2^63-1 and
	// values that wrap in the parser).
	NoHuge bool
}

func (g *Gen) pick(xs ...string) string { return xs[g.R.Intn(len(xs))] }

// Pick returns one of xs.
func (g *Gen) Pick(xs ...string) string { return g.pick(xs...) }

// Param returns one parameter as text: omitted, 0, 1, around the screen size, huge.
func (g *Gen) Param(size int) string {
	switch n := g.R.Intn(20); {
	case n < 3:
		return ""
	case n < 5:
		return "0"
	case n < 8:
		return "1"
	case n < 10:
		return "2"
	case n < 12:
		return fmt.Sprint(maxi(size-1, 0))
	case n < 14:
		return fmt.Sprint(size)
	case n < 16:
		return fmt.Sprint(size + 1)
	case n < 18:
		return fmt.Sprint(g.R.Intn(size + 3))
	default:
		if g.NoHuge {
			return fmt.Sprint(size + 2 + g.R.Intn(5))
		}
		return g.pick("2147483648", "9223372036854775807", "65535", "65536", "9223372036854775808",
			"9999999999999999999", "18446744073709551615", "18446744073709551617", "32767")
	}
}

func maxi(a, b int) int {
	if a > b {
		return a
	}
	return b
}

var narrow = []string{"a", "b", "x", "Z", "0", " ", "~", "_", "q", "é", "ß", "λ", "j", "m", "`"}
var wide = []string{"中", "日", "한", "😀", "｡"}
var odd = []string{"é", "́", "​", "🇩🇪", "👩‍👩‍👧", "­"}

// Text returns printable text.
func (g *Gen) Text() string {
	var b strings.Builder
	n := 1 + g.R.Intn(maxi(2, g.W+2))
	if g.R.Intn(4) == 0 {
		n = 1
	}
	for i := 0; i < n; i++ {
		switch k := g.R.Intn(20); {
		case k < 14:
			b.WriteString(narrow[g.R.Intn(len(narrow))])
		case k < 18:
			b.WriteString(wide[g.R.Intn(len(wide))])
		default:
			b.WriteString(odd[g.R.Intn(len(odd))])
		}
	}
	return b.String()
}

// C0 returns one C0 control.
func (g *Gen) C0() string {
	return g.pick("\a", "\b", "\b", "\t", "\t", "\n", "\n", "\n", "\v", "\f", "\r", "\r", "\r", "\x0e", "\x0f", "\x00", "\x05")
}

// Esc returns one escape sequence.
func (g *Gen) Esc() string {
	return "\x1b" + g.pick("7", "8", "D", "D", "E", "E", "H", "M", "M", "M", "N", "O", "=", ">", "c",
		"(0", ")0", "*0", "+0", "(B", ")B", "*B", "+B", "#8", "Z", "(A")
}

// Csi returns one control sequence.
func (g *Gen) Csi() string {
	W, H := g.W, g.H
	switch k := g.R.Intn(40); {
	case k < 3: // cursor vertical
		return "\x1b[" + g.Param(H) + g.pick("A", "B", "E", "F", "d", "e")
	case k < 6: // cursor horizontal
		return "\x1b[" + g.Param(W) + g.pick("C", "D", "G", "`", "a", "I", "Z")
	case k < 10: // cup / hvp
		switch g.R.Intn(5) {
		case 0:
			return "\x1b[" + g.pick("H", "f")
		case 1:
			return "\x1b[" + g.Param(H) + g.pick("H", "f")
		case 2:
			return "\x1b[" + g.Param(H) + ";" + g.Param(W) + ";" + g.Param(W) + "H"
		default:
			return "\x1b[" + g.Param(H) + ";" + g.Param(W) + g.pick("H", "f")
		}
	case k < 13: // erase
		return "\x1b[" + g.pick("", "0", "1", "2", "3", g.Param(3)) + g.pick("J", "K")
	case k < 17: // insert / delete / erase characters, repeat
		return "\x1b[" + g.Param(W) + g.pick("@", "P", "X", "b")
	case k < 20: // insert / delete lines
		return "\x1b[" + g.Param(H) + g.pick("L", "M")
	case k < 23: // scroll
		if g.R.Intn(8) == 0 {
			return "\x1b[1;2;3;4;5T"
		}
		return "\x1b[" + g.Param(H) + g.pick("S", "T")
	case k < 27: // margins
		switch g.R.Intn(4) {
		case 0:
			return "\x1b[r"
		case 1:
			return "\x1b[" + g.Param(H) + "r"
		default:
			return "\x1b[" + g.Param(H) + ";" + g.Param(H) + "r"
		}
	case k < 30: // modes
		n := g.pick("4", "20", "2", "12", "4", "4;20", "")
		return "\x1b[" + n + g.pick("h", "l")
	case k < 34: // private modes
		n := g.pick("1", "6", "7", "7", "25", "1049", "1049", "1049", "2004", "1000", "7;1049", "", "3", "1047")
		return "\x1b[?" + n + g.pick("h", "l")
	case k < 37: // SGR
		return g.Sgr()
	case k < 38: // tabs
		return "\x1b[" + g.pick("", "0", "3", "1") + "g"
	case k < 39: // save / restore, cursor style
		return "\x1b[" + g.pick("s", "u", "s", "u", "2 q", " q", "6 q")
	default: // reports and unknown
		return "\x1b[" + g.pick("c", ">c", "5n", "6n", "n", "?7$p", "$p", "?1049$p", "!p", "1;2y", "?u", ">4;2m", "=5u")
	}
}

// Sgr returns one SGR sequence.
func (g *Gen) Sgr() string {
	n := g.R.Intn(4)
	var ps []string
	for i := 0; i <= n; i++ {
		switch k := g.R.Intn(16); {
		case k < 1:
			ps = append(ps, "")
		case k < 2:
			ps = append(ps, "0")
		case k < 6:
			ps = append(ps, g.pick("1", "2", "3", "4", "5", "7", "8", "9", "21", "22", "23", "24", "25", "27", "28", "29", "4:3", "4:0", "4:9"))
		case k < 9:
			ps = append(ps, g.pick(fmt.Sprint(30+g.R.Intn(8)), fmt.Sprint(40+g.R.Intn(8)), "39", "49"))
		case k < 11:
			ps = append(ps, g.pick("38;5;", "48;5;", "58;5;", "38:5:", "48:5:", "58:5:")+fmt.Sprint(g.R.Intn(300)))
		case k < 13:
			ps = append(ps, g.pick("38;2;", "48;2;", "58;2;", "38:2:", "48:2::", "58:2:", "58:2::")+
				strings.ReplaceAll(fmt.Sprintf("%d;%d;%d", g.R.Intn(256), g.R.Intn(256), g.R.Intn(256)), ";", g.pick(";", ":")))
		case k < 14:
			// an extended colour cut at a random length (it swallows the parameters
			// that follow it, or is the tail of the list)
			ps = append(ps, g.ExtColour())
		case k < 15:
			ps = append(ps, g.pick(fmt.Sprint(90+g.R.Intn(8)), fmt.Sprint(100+g.R.Intn(8))))
		default:
			ps = append(ps, g.pick("59", "49", "39", "99", "1000"))
		}
	}
	return "\x1b[" + strings.Join(ps, ";") + "m"
}

// ExtColour returns one extended-colour parameter group (SGR 38 / 48 / 58) in the
// semicolon form, the colon form or a mixture, with the selector omitted, 0, 2 (RGB),
// 5 (indexed) or unknown, followed by 0..5 values: every truncation of every form.
func (g *Gen) ExtColour() string {
	parts := []string{g.pick("38", "48", "58")}
	if g.R.Intn(8) != 0 {
		parts = append(parts, g.pick("2", "2", "5", "5", "5", "", "0", "9"))
		for n := g.R.Intn(6); n > 0; n-- {
			parts = append(parts, g.pick("0", "1", "7", "255", "256", "300", "", fmt.Sprint(g.R.Intn(256))))
		}
	}
	var b strings.Builder
	sep := g.pick(";", ";", ":", ":", "?")
	for i, p := range parts {
		if i > 0 {
			if sep == "?" {
				b.WriteString(g.pick(";", ":"))
			} else {
				b.WriteString(sep)
			}
		}
		b.WriteString(p)
	}
	return b.String()
}

// SgrTruncations enumerates the parameter text of SGR sequences around the extended
// colours: for each of 38 / 48 / 58, the bare code and every selector (omitted, 0, 2, 5,
// unknown) followed by 0..5 values, in the semicolon form, the colon form and the two
// mixed forms (selector attached by ':' and values by ';', and the reverse), each at the
// start of the list and after other parameters (so that the group is the tail of the
// list at every length).
func SgrTruncations() []string {
	var groups []string
	for _, code := range []string{"38", "48", "58"} {
		groups = append(groups, code)
		for _, sel := range []string{"", "0", "2", "5", "9"} {
			for n := 0; n <= 5; n++ {
				vals := []string{"7", "8", "9", "10", "11"}[:n]
				for _, form := range [][2]string{{";", ";"}, {":", ":"}, {":", ";"}, {";", ":"}} {
					if n == 0 && form[0] != form[1] {
						continue
					}
					s := code + form[0] + sel
					for _, v := range vals {
						s += form[1] + v
					}
					groups = append(groups, s)
				}
			}
		}
	}
	var out []string
	for _, pre := range []string{"", "1;", "4:3;", "7;38;5;1;"} {
		for _, gr := range groups {
			out = append(out, pre+gr)
		}
	}
	return out
}

// linkChars is the alphabet of generated hyperlink targets and parameters: it contains
// the OSC field separator ';', the parameter separators ':' and '=', and other URI
// punctuation.
const linkChars = "ab/;;;:=?&#%.-_~+,@!$'()*[]19 "

// LinkText returns a string of 0..n characters over linkChars (no ';' if !semi).
func (g *Gen) LinkText(n int, semi bool) string {
	var b strings.Builder
	for k := g.R.Intn(n + 1); k > 0; k-- {
		c := linkChars[g.R.Intn(len(linkChars))]
		if c == ';' && !semi {
			c = ':'
		}
		b.WriteByte(c)
	}
	return b.String()
}

// Link returns the payload of an OSC 8: params ; URI, the URI being everything after
// the second ';' of the sequence.
func (g *Gen) Link() (params, uri string) {
	params = g.pick("", "", "id=1", "id=a:b=c", "id=x=y", g.LinkText(6, false))
	uri = g.pick("", "http://a", "x;y", ";", ";;", "https://example.org/docs;v=2/page;rev=7?x=1", "mailto:a@b?subject=x;y",
		"data:text/plain;charset=utf-8;base64,aGk=", "http://h/p;jsessionid=1:2=3", g.LinkText(12, true), g.LinkText(12, true))
	return
}

// Osc returns an OSC / APC / DCS string.
func (g *Gen) Str() string {
	end := g.pick("\a", "\x1b\\")
	switch k := g.R.Intn(14); {
	case k < 2:
		return "\x1b]" + g.pick("0", "2") + ";title" + end
	case k < 3:
		return "\x1b]9;note" + end
	case k < 4:
		return "\x1b]777;notify;t;body" + end
	case k < 5:
		return "\x1b]777;" + g.pick("notify;t", "notify", "x;y;z", "") + end
	case k < 8:
		if g.R.Intn(6) == 0 {
			return "\x1b]8;" + g.pick("", "id=1") + ";λ" + end
		}
		p, u := g.Link()
		return "\x1b]8;" + p + ";" + u + end
	case k < 9:
		return "\x1b]8" + g.pick("", ";", ";x") + end
	case k < 10:
		return "\x1b]" + g.pick("11;?", "11;x", "4;1;?", "52;c;aGk=", "52;c;!!", "52", "1", "", ";", "0") + end
	case k < 12:
		return "\x1b_" + g.pick("Gi=1;OK", "", "x") + "\x1b\\"
	case k < 13:
		return "\x1bP" + g.pick("q#0;2;0;0;0#0~~@@vv@@~~@@~~$-", "q", "1$r", "q\"1;1;2;2#1!2~", "0;1q~") + "\x1b\\"
	default:
		return "\x1b" + g.pick("X", "^") + "ignored" + "\x1b\\"
	}
}

// Chunk returns a piece of child output made of n generated elements.
func (g *Gen) Chunk(n int) []byte {
	var b strings.Builder
	for i := 0; i < n; i++ {
		switch k := g.R.Intn(20); {
		case k < 6:
			b.WriteString(g.Text())
		case k < 9:
			b.WriteString(g.C0())
		case k < 11:
			b.WriteString(g.Esc())
		case k < 19:
			b.WriteString(g.Csi())
		default:
			b.WriteString(g.Str())
		}
	}
	return []byte(b.String())
}

// Fuzz returns raw bytes biased towards control-sequence syntax.
func (g *Gen) Fuzz(n int) []byte {
	alphabet := []byte("\x1b\x1b\x1b[[[]];;;::??0123456789ABCDHJKLMPSTXrhlm@`abdefgsu \"$!>=<_P\\\a\b\t\n\r\x0e\x0f\x18\x1a\x7f\x9b\x90\x9d\xc3\xa9\xe4\xb8\xad\xffxyz")
	out := make([]byte, n)
	for i := range out {
		if g.R.Intn(10) == 0 {
			out[i] = byte(g.R.Intn(256))
		} else {
			out[i] = alphabet[g.R.Intn(len(alphabet))]
		}
	}
	return out
}

// Size returns a screen size, small ones first.
func (g *Gen) Size() (w, h int) {
	switch k := g.R.Intn(10); {
	case k < 1:
		return 1, 1
	case k < 2:
		return g.pick2(1, 2), g.pick2(1, 2)
	case k < 4:
		return 1 + g.R.Intn(3), 1 + g.R.Intn(3)
	case k < 8:
		return 2 + g.R.Intn(7), 2 + g.R.Intn(5)
	default:
		return 8 + g.R.Intn(5), 1 + g.R.Intn(6)
	}
}

func (g *Gen) pick2(a, b int) int {
	if g.R.Intn(2) == 0 {
		return a
	}
	return b
}
