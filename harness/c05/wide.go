// Directed + random histories for the class "wide glyph neighbourhood": operations that
// read the cell before the cursor, shift cells, or walk from the cursor to the right
// margin, run next to a glyph that occupies more than one cell.
//
// One trial: the row is erased (optionally narrow text is laid under the place), a wide
// glyph is printed with its head at column p (every column of widths 2..6, the first, the
// middle and the last four of width 80; at the last column it wraps, or with DECAWM off
// stays there without a spacer), its spacer is optionally destroyed (DCH / ICH / ECH / EL 0
// at the spacer, DCH / ICH / EL 1 at the head, a narrow or wide glyph printed over the
// spacer or the head, REP copying the head onto the spacer), the cursor is brought to the
// cell before the head, the head, the spacer or the cell after it by every horizontal
// move (CHA, HPA, CUP, BS, CUB, CR + CUF, CR + HPR, CUF huge + CUB), and then one
// operation is run there: REP with counts omitted / 0 / 1 / 2 / width-col-1 / width-col /
// width-col+1 / width / width+1 / huge, ICH / DCH / ECH with the same counts, a narrow or wide
// print with IRM on or off, TAB / CHT / CBT, CUF / CUB / BS, EL, followed by a print or REP
// that uses the state left behind.
package main

import (
	"fmt"
	"math/rand"

	"verif/harness/termhx"
)

var wideGlyphs = []string{"中", "日", "한", "😀", "｡", "世", "🇩🇪", "👩‍👩‍👧"}

// wideCounts are the boundary counts for an operation run at column t of a row of w cells.
func wideCounts(w, t int) []string {
	return []string{"", "0", "1", "2", fmt.Sprint(maxInt(w-t-1, 0)), fmt.Sprint(w - t), fmt.Sprint(w - t + 1),
		fmt.Sprint(w), fmt.Sprint(w + 1), "65535", "2147483648", "9223372036854775807"}
}

// wideOps are the operations of the class at column t of a row of w cells, REP first.
func wideOps(w, t int) (rep, other []string) {
	for _, c := range wideCounts(w, t) {
		rep = append(rep, "\x1b["+c+"b")
	}
	for _, c := range []string{"", "1", "2", fmt.Sprint(maxInt(w-t-1, 0)), fmt.Sprint(w - t), fmt.Sprint(w), "65536"} {
		other = append(other, "\x1b["+c+"@", "\x1b["+c+"P", "\x1b["+c+"X")
	}
	other = append(other,
		"x", "中", "\x1b[4hx", "\x1b[4h中", "\x1b[4hxy", "\x1b[4h中日", "xy", "中日", "́",
		"\t", "\x1b[I", "\x1b[2I", "\x1b[Z", "\x1b[2Z",
		"\x1b[C", "\x1b[2C", "\x1b[D", "\x1b[2D", "\b", "\b\b",
		"\x1b[K", "\x1b[1K", "\x1b[2K", "\x1b[J", "\x1b[1J", "\x1bH\r\t", "\x1b[L", "\x1b[M")
	return
}

const nWideRemovals = 13

// wideRemoval returns the bytes that destroy the pair head (column p) / spacer (p+1).
func wideRemoval(k, p int) (string, string) {
	hd, sp := p+1, p+2 // 1-based
	at := func(c int, s string) string { return fmt.Sprintf("\x1b[%dG%s", c, s) }
	switch k {
	case 1:
		return at(sp, "\x1b[P"), "dch-spacer"
	case 2:
		return at(sp, "\x1b[@"), "ich-spacer"
	case 3:
		return at(sp, "\x1b[X"), "ech-spacer"
	case 4:
		return at(sp, "\x1b[K"), "el0-spacer"
	case 5:
		return at(sp, "x"), "narrow-over-spacer"
	case 6:
		return at(hd, "x"), "narrow-over-head"
	case 7:
		return at(hd, "\x1b[P"), "dch-head"
	case 8:
		return at(hd, "\x1b[1K"), "el1-head"
	case 9:
		return at(hd, "\x1b[@"), "ich-head"
	case 10:
		return at(sp, "日"), "wide-over-spacer"
	case 11:
		return at(sp, "\x1b[b"), "rep-onto-spacer"
	case 12:
		return at(hd, "\x1b[4h日\x1b[4l"), "irm-wide-at-head"
	}
	return "", "spacer-kept"
}

const nWideMovers = 8

// wideMove returns the bytes that bring the cursor from column c to column t (0-based) of
// the current row cur (0-based).
func wideMove(k, c, t, cur int) string {
	switch k {
	case 0:
		return fmt.Sprintf("\x1b[%dG", t+1)
	case 1:
		return fmt.Sprintf("\x1b[%d`", t+1)
	case 2:
		return fmt.Sprintf("\x1b[%d;%dH", cur+1, t+1)
	case 3:
		s := ""
		for ; c > t; c-- {
			s += "\b"
		}
		for ; c < t; c++ {
			s += "\x1b[C"
		}
		if s == "" {
			s = "\x1b[C\b"
		}
		return s
	case 4:
		if c > t {
			return fmt.Sprintf("\x1b[%dD", c-t)
		}
		if c < t {
			return fmt.Sprintf("\x1b[%dC", t-c)
		}
		return "\x1b[0C\x1b[0D"
	case 5:
		if t == 0 {
			return "\r"
		}
		return fmt.Sprintf("\r\x1b[%dC", t)
	case 6:
		if t == 0 {
			return "\r"
		}
		return fmt.Sprintf("\r\x1b[%da", t)
	default:
		return fmt.Sprintf("\x1b[9999C\x1b[%dG", t+1)
	}
}

var wideTargets = []string{"on-head", "on-spacer", "after-glyph", "before-head"}

// wideCols are the head columns tried on a row of w cells.
func wideCols(w int) []int {
	if w <= 8 {
		out := make([]int, w)
		for i := range out {
			out[i] = i
		}
		return out
	}
	return []int{0, 1, w/2 - 1, w / 2, w - 4, w - 3, w - 2, w - 1}
}

// wideTrial runs one trial on r; ctr selects removal, mover and (for rep=false) the
// operation, so that consecutive trials walk through all of them.
func wideTrial(r *termhx.Runner, rng *rand.Rand, w, h, p, target int, rep bool, ctr int, tags map[string]bool) {
	feed := func(s string) {
		if s != "" && !r.Dead {
			r.FeedBytes([]byte(s), 1, rng)
		}
	}
	row := rng.Intn(h)
	feed("\x1b[4l\x1b[2J")
	switch rng.Intn(3) {
	case 0:
		// narrow text under and around the place
		n := 2 + rng.Intn(5)
		feed(fmt.Sprintf("\x1b[%d;%dH", row+1, maxInt(1, p-1)) + "abcdefgh"[:n])
	case 1:
		// another wide glyph directly before or after
		feed(fmt.Sprintf("\x1b[%d;%dH", row+1, maxInt(1, p-1+3*rng.Intn(2))) + wideGlyphs[rng.Intn(len(wideGlyphs))])
	}
	feed(fmt.Sprintf("\x1b[%d;%dH", row+1, p+1) + wideGlyphs[rng.Intn(len(wideGlyphs))])
	if r.Dead {
		return
	}
	// a head printed at the last column wrapped (or, without DECAWM, has no spacer)
	snap := r.T.Snapshot(false)
	if p == w-1 && snap.Decawm {
		p = 0
		tags["glyph-wrapped"] = true
	}
	if p >= w-2 {
		tags["glyph-at-right-edge"] = true
	}
	rm := 0
	if !rep || ctr%3 == 2 {
		rm = ctr % nWideRemovals
	}
	b, rmTag := wideRemoval(rm, p)
	feed(b)
	tags[rmTag] = true
	t := p + []int{0, 1, 2, -1}[target]
	if t < 0 {
		t = 0
	}
	if t > w-1 {
		t = w - 1
	}
	if r.Dead {
		return
	}
	snap = r.T.Snapshot(false)
	feed(wideMove((ctr+ctr/4)%nWideMovers, snap.CursorCol, t, snap.CursorRow))
	reps, others := wideOps(w, t)
	if rep {
		feed(reps[(ctr/3)%len(reps)])
		tags["op-rep"] = true
	} else {
		feed(others[ctr%len(others)])
	}
	// use what is left behind
	switch rng.Intn(4) {
	case 0:
		feed("z")
	case 1:
		feed("\x1b[2b")
	case 2:
		feed("\x1b[4l한")
	}
}

// wideDirected returns the directed histories of the class: every width, head column and
// cursor target, eight trials each.
func wideDirected(rng *rand.Rand, thorough bool, emit func(r *termhx.Runner, tags []string)) {
	ctr := 0
	rounds := 1
	if thorough {
		rounds = 12
	}
	for round := 0; round < rounds; round++ {
		for _, w := range []int{2, 3, 4, 5, 6, 80} {
			for _, p := range wideCols(w) {
				for target := range wideTargets {
					if target == 3 && (p == 0 || (round == 0 && p%2 == 0)) {
						continue
					}
					h := 1 + (ctr+round)%3
					r := &termhx.Runner{FullEvery: 7}
					r.Start(w, h)
					tags := map[string]bool{wideTargets[target]: true, fmt.Sprintf("width-%d", w): true}
					if ctr%3 == 1 {
						r.FeedBytes([]byte("\x1b[?7l"), 1, rng)
						tags["decawm-off"] = true
					}
					if ctr%5 == 4 {
						r.FeedBytes([]byte("\x1b[?1049h"), 1, rng)
					}
					for k := 0; k < 8 && !r.Dead; k++ {
						wideTrial(r, rng, w, h, p, target, k%4 == 0, ctr, tags)
						ctr++
					}
					var tl []string
					for t := range tags {
						tl = append(tl, t)
					}
					emit(r, tl)
				}
			}
		}
	}
}

// wideRandom builds one random history of the class: wide-heavy text, horizontal moves
// and the operations of the class with boundary parameters, resizes that cut through
// the text by a few columns.
func wideRandom(rng *rand.Rand) (*termhx.Runner, []string) {
	g := &termhx.Gen{R: rng}
	g.W, g.H = 2+rng.Intn(9), 1+rng.Intn(3)
	if rng.Intn(8) == 0 {
		g.W = 80
	}
	r := &termhx.Runner{FullEvery: 7}
	r.Start(g.W, g.H)
	tags := []string{"random"}
	feed := func(s string) {
		if s != "" && !r.Dead {
			r.FeedBytes([]byte(s), 1, rng)
		}
	}
	if rng.Intn(4) == 0 {
		feed("\x1b[?7l")
	}
	for k := 4 + rng.Intn(10); k > 0 && !r.Dead; k-- {
		switch n := rng.Intn(20); {
		case n < 5:
			s := ""
			for i := 1 + rng.Intn(3); i > 0; i-- {
				if rng.Intn(3) == 0 {
					s += g.Pick("a", "b", " ", "é", "́")
				} else {
					s += wideGlyphs[rng.Intn(len(wideGlyphs))]
				}
			}
			feed(s)
		case n < 9:
			feed(g.Pick("\b", "\b\b", "\r", "\t", "\x1b[Z", "\x1b["+g.Param(g.W)+"D", "\x1b["+g.Param(g.W)+"C",
				"\x1b["+g.Param(g.W)+"G", "\x1b["+g.Param(g.W)+"`", "\x1b["+g.Param(g.W)+"a",
				"\x1b["+g.Param(g.H)+";"+g.Param(g.W)+"H", "\x1b["+fmt.Sprint(g.W-rng.Intn(3))+"G"))
		case n < 17:
			snap := r.T.Snapshot(false)
			reps, others := wideOps(g.W, snap.CursorCol)
			if rng.Intn(3) == 0 {
				feed(reps[rng.Intn(len(reps))])
			} else if rng.Intn(4) == 0 {
				feed("\x1b[" + g.Param(g.W) + g.Pick("@", "P", "X", "b"))
			} else {
				feed(others[rng.Intn(len(others))])
			}
		case n < 18:
			feed(g.Pick("\x1b[4h", "\x1b[4l", "\x1b[?7l", "\x1b[?7h", "\x1b[?1049h", "\x1b[?1049l"))
		default:
			g.W = maxInt(1, g.W+rng.Intn(5)-2)
			if g.W > 21 && g.W != 80 {
				g.W = 21
			}
			r.Resize(g.W, g.H)
			tags = append(tags, "resized")
		}
	}
	return r, tags
}
