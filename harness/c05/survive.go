// Directed + random histories for the class "state that survives a resize and is used
// after it": the two saved-cursor slots (primary / alternate screen; written by ESC 7,
// CSI s and CSI ?1049h, read by ESC 8, CSI u and CSI ?1049l), tab stops, the scroll
// region, origin / insert / autowrap modes and the pen are set up on one screen size,
// the host resizes the terminal (shrinks rows, columns or both below the saved position,
// to 1x1, grows, shrinks and grows back), the child then uses the surviving state
// (restores the cursor, tabs, scrolls) and immediately runs an operation that indexes
// the grid at the cursor's row / column.
package main

import (
	"fmt"
	"math/rand"

	"verif/harness/termhx"
)

// around returns a 0-based coordinate near the boundaries of the old extent n and the
// new extent m: 0, m-2..m+1, n-2..n-1 and a random one.
func around(rng *rand.Rand, n, m int) int {
	c := []int{0, m - 2, m - 1, m, m + 1, n - 2, n - 1, n - 1, rng.Intn(n + 1)}
	v := c[rng.Intn(len(c))]
	if v < 0 {
		v = 0
	}
	return v
}

// newSize picks the size after the resize relative to the current one.
func newSize(g *termhx.Gen, rng *rand.Rand, w, h int) (int, int, string) {
	switch rng.Intn(9) {
	case 0:
		return w, 1 + rng.Intn(h), "shrink-rows"
	case 1:
		return 1 + rng.Intn(w), h, "shrink-cols"
	case 2, 3:
		return 1 + rng.Intn(w), 1 + rng.Intn(h), "shrink-both"
	case 4:
		return 1, 1, "to-1x1"
	case 5:
		return w + rng.Intn(4), h + rng.Intn(4), "grow"
	case 6:
		return maxInt(1, w-1), maxInt(1, h-1), "shrink-by-one"
	case 7:
		return w, h, "same-size"
	default:
		nw, nh := g.Size()
		return nw, nh, "any-size"
	}
}

func maxInt(a, b int) int {
	if a > b {
		return a
	}
	return b
}

// cursorOps are the operations that index the active grid at the cursor (row, column or
// both), or move relative to it.
var cursorOps = []string{
	"\x1b[2K", "\x1b[K", "\x1b[1K", "\x1b[J", "\x1b[1J", "\x1b[2J", "\x1b[L", "\x1b[2L", "\x1b[M", "\x1b[@", "\x1b[3@",
	"\x1b[P", "\x1b[2P", "\x1b[X", "\x1b[5X", "x", "中", "x\x1b[3b", "\x1b[4hy", "\x1b[4h中\x1b[4l", "\n", "\x1bD", "\x1bM", "\x1bE",
	"\t", "\x1b[I", "\x1b[Z", "\x1bH", "\x1b[g", "\b", "\r", "\x1b[A", "\x1b[B", "\x1b[C", "\x1b[D", "\x1b[S", "\x1b[T",
	"\x1b[6n", "\x1b#8", "\x1b[?6h", "\x1b[r",
}

// survivorHistory builds one history of the class and returns its tags.
func survivorHistory(rng *rand.Rand) (*termhx.Runner, []string) {
	g := &termhx.Gen{R: rng}
	// sizes with room to shrink, small ones too
	g.W, g.H = 1+rng.Intn(12), 1+rng.Intn(8)
	if rng.Intn(5) == 0 {
		g.W, g.H = g.Size()
	}
	r := &termhx.Runner{FullEvery: 5}
	r.Start(g.W, g.H)
	var tags []string
	feed := func(s string) {
		if s != "" {
			r.FeedBytes([]byte(s), 1, rng)
		}
	}
	onAlt := false
	toggle := func() {
		if onAlt {
			feed("\x1b[?1049l")
		} else {
			feed("\x1b[?1049h")
		}
		onAlt = !onAlt
	}
	// some content for the reflow, then the screen the state is saved on
	if rng.Intn(2) == 0 {
		feed(g.Text() + g.Pick("", "\r\n", "\n") + g.Text())
	}
	if rng.Intn(2) == 0 {
		toggle()
	}
	if rng.Intn(3) == 0 {
		feed(string(g.Chunk(1 + rng.Intn(3))))
		if !r.Dead {
			onAlt = r.T.Snapshot(false).Smcup
		}
	}
	rounds := 1 + rng.Intn(2)
	for k := 0; k < rounds && !r.Dead; k++ {
		nw, nh, how := newSize(g, rng, g.W, g.H)
		tags = append(tags, how)
		// the state that is to survive
		row, col := around(rng, g.H, nh), around(rng, g.W, nw)
		feed(fmt.Sprintf("\x1b[%d;%dH", row+1, col+1))
		switch rng.Intn(6) {
		case 0:
			feed("\x1bH") // a tab stop at the position
		case 1:
			feed(fmt.Sprintf("\x1b[%d;%dr", 1+around(rng, g.H, nh), 1+around(rng, g.H, nh)) + fmt.Sprintf("\x1b[%d;%dH", row+1, col+1))
		case 2:
			feed(g.Pick("\x1b[?6h", "\x1b[4h", "\x1b[?7l", "\x1b(0") + fmt.Sprintf("\x1b[%d;%dH", row+1, col+1))
		case 3:
			feed(g.Sgr())
		}
		save := g.Pick("\x1b7", "\x1b7", "\x1b[s", "\x1b[s", "\x1b[?1049h", "")
		feed(save)
		if save == "\x1b[?1049h" {
			onAlt = true
		}
		if onAlt {
			tags = append(tags, "saved-on-alt")
		} else {
			tags = append(tags, "saved-on-primary")
		}
		// between the save and the resize: leave the position, or the screen
		switch rng.Intn(5) {
		case 0:
			feed("\x1b[H")
		case 1:
			feed(g.Text())
		case 2:
			toggle()
			if rng.Intn(2) == 0 {
				feed(g.Pick("\x1b7", "\x1b[s"))
			}
			tags = append(tags, "screen-switched-before-resize")
		}
		g.W, g.H = nw, nh
		r.Resize(nw, nh)
		if rng.Intn(4) == 0 {
			// and back (or further) before the child writes again
			g.W, g.H, _ = newSize(g, rng, g.W, g.H)
			r.Resize(g.W, g.H)
			tags = append(tags, "resized-twice")
		}
		// after the resize: come back to the screen the state was saved on, or not
		if rng.Intn(5) == 0 {
			toggle()
			tags = append(tags, "screen-switched-after-resize")
		}
		restore := g.Pick("\x1b8", "\x1b8", "\x1b[u", "\x1b[u", "\x1b[?1049l", "\t", "")
		feed(restore)
		if restore == "\x1b[?1049l" {
			onAlt = false
		}
		// use the cursor at once
		for n := 1 + rng.Intn(3); n > 0 && !r.Dead; n-- {
			feed(cursorOps[rng.Intn(len(cursorOps))])
		}
		if rng.Intn(2) == 0 {
			feed(string(g.Chunk(1 + rng.Intn(4))))
			if !r.Dead {
				onAlt = r.T.Snapshot(false).Smcup
			}
		}
	}
	return r, tags
}
