// Harness for C05 (the embedded terminal never crashes or hangs on child output):
// generated histories of child output, resizes and event-drain schedules are run on
// the real emulator through the verif hook; every step's observation is written
// next to the step so that the Coq model (model/Term.v) replays the history.
package main

import (
	"fmt"
	"math/rand"
	"os"

	vaxis "git.sr.ht/~rockorager/vaxis"
	"verif/harness/hx"
	"verif/harness/termhx"
)

const (
	hostCols, hostRows = 24, 14
	winCol, winRow     = 3, 2
)

type levelJSON struct {
	Col, Row, W, H int
}

type drawJSON struct {
	Hist    histJSON    `json:"hist"`
	Chain   []levelJSON `json:"window_chain_innermost_first"`
	Focused bool        `json:"focused"`
	Visible bool        `json:"cursor_visible"`
	Col     int         `json:"cursor_col_abs"`
	Row     int         `json:"cursor_row_abs"`
	Changed int         `json:"host_cells_changed"`
	Resized bool        `json:"resized"`
	Panic   string      `json:"panic,omitempty"`
}

// hostWindow builds the window Draw is given: mode 0 a child of the root of the terminal's
// own size, otherwise a chain of one to three windows below the root, each made by
// Window.New (offsets from -3 to beyond the parent's edge, sizes -1 / smaller / larger than
// the parent: New clamps to the right and bottom edge only) or as a struct literal (any
// offset, any size up to beyond the screen, so that the window overhangs its parent).  The
// innermost window has at least one cell; its size is the terminal's (no resize in Draw)
// or another one.
func hostWindow(rng *rand.Rand, root vaxis.Window, tw, th, mode int) vaxis.Window {
	if mode == 0 {
		return root.New(winCol, winRow, tw, th)
	}
	if mode == 2 {
		// a window without a cell: Window.New for an offset at or beyond the parent's edge
		parent := root
		if rng.Intn(2) == 0 {
			parent = root.New(rng.Intn(6), rng.Intn(4), 6+rng.Intn(10), 4+rng.Intn(6))
		}
		pw, ph := parent.Size()
		if rng.Intn(2) == 0 {
			return parent.New(pw+rng.Intn(3), rng.Intn(ph), 1+rng.Intn(8), 1+rng.Intn(6))
		}
		return parent.New(rng.Intn(pw), ph+rng.Intn(3), 1+rng.Intn(8), 1+rng.Intn(6))
	}
	for try := 0; try < 50; try++ {
		win := root
		depth := 1 + rng.Intn(3)
		for d := 0; d < depth; d++ {
			pw, ph := win.Size()
			last := d == depth-1
			cols, rows := rng.Intn(pw+4)-1, rng.Intn(ph+4)-1
			if last {
				switch rng.Intn(3) {
				case 0:
					cols, rows = tw, th
				case 1:
					cols, rows = 1+rng.Intn(12), 1+rng.Intn(8)
				}
			}
			parent := win
			if rng.Intn(3) == 0 {
				if cols < 1 {
					cols = 1 + rng.Intn(26)
				}
				if rows < 1 {
					rows = 1 + rng.Intn(16)
				}
				win = vaxis.Window{Vx: root.Vx, Parent: &parent, Column: rng.Intn(13) - 4, Row: rng.Intn(9) - 3, Width: cols, Height: rows}
			} else {
				win = parent.New(rng.Intn(pw+5)-3, rng.Intn(ph+4)-2, cols, rows)
			}
			if w, h := win.Size(); !last && (w < 1 || h < 1) {
				break
			}
		}
		if w, h := win.Size(); w >= 1 && h >= 1 && win.Parent != nil {
			return win
		}
	}
	return root.New(winCol, winRow, tw, th)
}

// hostCoq is the Coq term of the host: screen size, window chain (innermost first), focus.
func hostCoq(win vaxis.Window, focused bool) (string, []levelJSON) {
	var levels []string
	var chain []levelJSON
	for w := win; ; w = *w.Parent {
		levels = append(levels, fmt.Sprintf("mkWl %s %s %s %s", hx.Z(int64(w.Column)), hx.Z(int64(w.Row)), hx.Z(int64(w.Width)), hx.Z(int64(w.Height))))
		chain = append(chain, levelJSON{w.Column, w.Row, w.Width, w.Height})
		if w.Parent == nil {
			break
		}
	}
	return fmt.Sprintf("((%d, %d), %s, %s)", hostCols, hostRows, hx.List(levels), hx.Bool(focused)), chain
}

// drawCase draws the emulator into a host window of a real Vaxis whose screen was filled with
// a sentinel and whose cursor was hidden, and returns the Coq term of the host (screen size,
// window chain, focus) and of the observation (outcome, the emulator afterwards, the host's
// cursor in screen coordinates, every host cell that is not the sentinel any more).
func drawCase(vx *vaxis.Vaxis, r *termhx.Runner, win vaxis.Window, focused bool) (string, drawJSON) {
	root := vx.Window()
	sentinel := vaxis.Cell{Character: vaxis.Character{Grapheme: "#", Width: 1}}
	root.Fill(sentinel)
	vx.ShowCursor(0, 0, 0)
	vx.HideCursor()
	vt := r.T.Model()
	if focused {
		vt.Focus()
	} else {
		vt.Blur()
	}
	vt.Draw(win)
	var j drawJSON
	scr := vx.VerifScreenNext()
	var cells []string
	for y := range scr {
		for x := range scr[y] {
			c := scr[y][x]
			if c.Grapheme != "#" || c.Width != 1 || c.Style != (vaxis.Style{}) {
				cells = append(cells, fmt.Sprintf("(%d, %d, (%s, %s, %s))", x, y, hx.Runes(c.Grapheme), hx.Z(int64(c.Width)), termhx.CoqStyle(c.Style)))
			}
		}
	}
	cur := vx.VerifCursorNext()
	o := r.Observe()
	// (with no rows the hook cannot tell which grid is the active one: light observation)
	if snap := r.T.Snapshot(true); snap.Rows > 0 {
		o.Snap, o.Full = &snap, true
	}
	j.Visible, j.Col, j.Row, j.Changed = cur.Visible, cur.Col, cur.Row, len(cells)
	obs := fmt.Sprintf("(0, %s, (%s, %s, %s),\n %s)", o.Coq(), hx.Bool(cur.Visible), hx.Z(int64(cur.Col)), hx.Z(int64(cur.Row)), hx.List(cells))
	return obs, j
}

type histJSON struct {
	Class string        `json:"class,omitempty"`
	Kind  string        `json:"kind"`
	Steps []termhx.Step `json:"steps"`
}

func main() {
	cfg := hx.ParseFlags()
	s := hx.NewStream("hist", "model.Colour model.Sgr model.Term model.TermCheck", "hist_case",
		"c05_hist_mismatches", "c05_hist_violations")
	s.Known = "c05_hist_known"
	s.KnownClass = "event-stall"
	s.ShardMax = 40
	ds := hx.NewStream("draw", "model.Colour model.Sgr model.Term model.TermCheck model.TermDraw", "wdraw_case",
		"c05_wdraw_mismatches", "c05_wdraw_violations")
	ds.ShardMax = 40
	os.Unsetenv("COLORTERM")
	fc := hx.NewFakeConsole(hx.ProfileFromMask(0, hostRows, hostCols))
	vx, err := vaxis.New(vaxis.Options{WithConsole: fc, NoSignals: true})
	if err != nil {
		panic(err)
	}
	defer vx.Close()
	var direct []hx.DirectViolation
	outcomes := map[string]int{}

	nDraw := 0
	add := func(r *termhx.Runner, kind string, tags ...string) {
		// every third surviving history is also drawn: into a window of the terminal's size
		// below the root, or into a chain of windows of any size and position (Draw resizes
		// the terminal first if the innermost window has another size)
		var drawObs, drawHist string
		var dj drawJSON
		var dtags []string
		if !r.Dead && len(r.Steps) > 0 {
			nDraw++
			last := r.Steps[len(r.Steps)-1].Obs
			if nDraw%3 == 0 {
				mode := 1
				if nDraw%9 == 0 && last.Cols <= hostCols-winCol && last.Rows <= hostRows-winRow {
					mode = 0
				}
				if nDraw%15 == 0 {
					// a window without a cell: Draw has to leave everything alone
					mode = 2
				}
				win := hostWindow(cfg.Rand, vx.Window(), last.Cols, last.Rows, mode)
				focused := cfg.Rand.Intn(4) != 0
				w, h := win.Size()
				drawHist = termhx.CoqHistory(r.Steps)
				pre := append([]termhx.Step(nil), r.Steps...)
				hostTerm, chain := hostCoq(win, focused)
				panicked, msg := hx.Catch(func() { drawObs, dj = drawCase(vx, r, win, focused) })
				dj.Hist = histJSON{Kind: kind, Steps: pre}
				dj.Chain, dj.Focused = chain, focused
				dj.Resized = w != last.Cols || h != last.Rows
				if panicked {
					// (also shipped as a case with outcome 1: the model never predicts a panic)
					dj.Panic = msg
					r.Dead = true
					direct = append(direct, hx.DirectViolation{Class: "draw-panic", Case: dj, What: msg})
					drawObs = "(1, mkObs 1 0 0 0 0 false 0 0 0 0 0 [] [] None, (false, 0, 0), [])"
				}
				if drawObs != "" {
					drawObs = hostTerm + ",\n " + drawObs
				}
				if w < 1 || h < 1 {
					// nothing happened; should the terminal have been resized all the same, its
					// history ends before the Draw (the draw case reports it)
					if o := r.Observe(); o.Cols != last.Cols || o.Rows != last.Rows {
						r.Dead = true
					}
					dj.Resized = false
				} else if !panicked && dj.Resized {
					// Draw resized the terminal: that is one more step of the history
					r.Steps = append(r.Steps, termhx.Step{Resize: true, W: w, H: h, Obs: r.Observe()})
				}
				depth := 0
				overhang := false
				for p := win; p.Parent != nil; p = *p.Parent {
					depth++
					pw, ph := p.Parent.Size()
					if p.Column < 0 || p.Row < 0 || p.Column+p.Width > pw || p.Row+p.Height > ph {
						overhang = true
					}
				}
				if w < 1 || h < 1 {
					dtags = append(dtags, "empty-window")
				}
				dtags = append(dtags, kind, fmt.Sprintf("resized-%v", dj.Resized), fmt.Sprintf("depth-%d", depth),
					fmt.Sprintf("overhang-%v", overhang), fmt.Sprintf("focused-%v", focused), fmt.Sprintf("cursor-%v", dj.Visible))
			}
		}
		r.Finish()
		kinds := map[string]bool{}
		for _, st := range r.Steps {
			if st.Item != nil && st.Item.Kind != "print" {
				kinds[fmt.Sprint(st.Item.Kind, st.Item.Inter, st.Item.Final)] = true
			}
		}
		out := []string{"ok", "panic", "stall", "hang"}[r.LastOutcome()]
		outcomes[out]++
		h := histJSON{Kind: kind, Steps: r.Steps}
		if out == "stall" {
			h.Class = "event-stall"
		}
		if out == "hang" {
			direct = append(direct, hx.DirectViolation{Class: "hang", Case: h, What: "update did not return"})
		}
		tags = append(tags, kind, "outcome-"+out, fmt.Sprintf("steps-%d0s", len(r.Steps)/10))
		s.Add(termhx.CoqHistory(r.Steps), h, len(kinds) >= 3, tags...)
		if drawObs != "" {
			ds.Add("("+drawHist+",\n "+drawObs+")", dj, len(kinds) >= 3, dtags...)
		}
	}

	nGrammar, nFuzz, nStall := 640, 150, 60
	if cfg.Thorough() {
		nGrammar, nFuzz, nStall = 6000, 1500, 300
	}
	sizeTag := func(w, h int) string {
		if w*h <= 4 {
			return "size-tiny"
		}
		if w <= 4 && h <= 4 {
			return "size-small"
		}
		return "size-medium"
	}
	// grammar-generated control sequences, resizes between writes, random drains
	for i := 0; i < nGrammar; i++ {
		g := &termhx.Gen{R: cfg.Rand}
		g.W, g.H = g.Size()
		r := &termhx.Runner{FullEvery: 9}
		r.Start(g.W, g.H)
		tags := []string{sizeTag(g.W, g.H)}
		chunks := 1 + cfg.Rand.Intn(4)
		drainP := []float64{1, 0.9, 0.6, 0.3}[cfg.Rand.Intn(4)]
		for c := 0; c < chunks && !r.Dead; c++ {
			if c > 0 {
				g.W, g.H = g.Size()
				r.Resize(g.W, g.H)
				tags = append(tags, "resized")
			}
			r.FeedBytes(g.Chunk(4+cfg.Rand.Intn(14)), drainP, cfg.Rand)
		}
		add(r, "grammar", tags...)
	}
	// raw fuzzed bytes
	for i := 0; i < nFuzz; i++ {
		g := &termhx.Gen{R: cfg.Rand}
		g.W, g.H = g.Size()
		r := &termhx.Runner{FullEvery: 9}
		r.Start(g.W, g.H)
		r.FeedBytes(g.Fuzz(20+cfg.Rand.Intn(80)), 0.9, cfg.Rand)
		if !r.Dead && cfg.Rand.Intn(2) == 0 {
			g.W, g.H = g.Size()
			r.Resize(g.W, g.H)
			r.FeedBytes(g.Fuzz(20+cfg.Rand.Intn(40)), 0.9, cfg.Rand)
		}
		add(r, "fuzz", sizeTag(g.W, g.H))
	}
	// directed: SGR parameter lists cut at every length around the extended colours
	// (38 / 48 / 58, selector omitted/0/2/5/unknown, ';' and ':' and mixed syntax, as the
	// whole list and as its tail), a glyph after every few so that the pen shows in the grid
	trunc := termhx.SgrTruncations()
	cfg.Rand.Shuffle(len(trunc), func(i, j int) { trunc[i], trunc[j] = trunc[j], trunc[i] })
	const perHist = 24
	for lo := 0; lo < len(trunc); lo += perHist {
		hi := lo + perHist
		if hi > len(trunc) {
			hi = len(trunc)
		}
		g := &termhx.Gen{R: cfg.Rand}
		g.W, g.H = g.Size()
		r := &termhx.Runner{FullEvery: 9}
		r.Start(g.W, g.H)
		for k, ps := range trunc[lo:hi] {
			b := "\x1b[" + ps + "m"
			if k%4 == 3 {
				b += "x"
			}
			r.FeedBytes([]byte(b), 1, cfg.Rand)
		}
		add(r, "sgr-truncated", sizeTag(g.W, g.H))
	}
	// hyperlinks: OSC 8 ; params ; URI with targets over an alphabet that contains the
	// field separator ';' and the parameter separators ':' '=', text printed under the
	// link, links closed and replaced, a resize in between
	nLink := 40
	if cfg.Thorough() {
		nLink = 400
	}
	for i := 0; i < nLink; i++ {
		g := &termhx.Gen{R: cfg.Rand}
		g.W, g.H = g.Size()
		r := &termhx.Runner{FullEvery: 3}
		r.Start(g.W, g.H)
		for k := 0; k < 3+cfg.Rand.Intn(6) && !r.Dead; k++ {
			ps, uri := g.Link()
			if cfg.Rand.Intn(4) == 0 {
				ps, uri = "", ""
			}
			b := "\x1b]8;" + ps + ";" + uri + g.Pick("\a", "\x1b\\") + g.Text()
			switch cfg.Rand.Intn(5) {
			case 0:
				b += g.Sgr()
			case 1:
				b += g.Csi()
			}
			r.FeedBytes([]byte(b), 1, cfg.Rand)
			if cfg.Rand.Intn(8) == 0 {
				g.W, g.H = g.Size()
				r.Resize(g.W, g.H)
			}
		}
		add(r, "hyperlink", sizeTag(g.W, g.H))
	}
	// event storms with sparse drains
	for i := 0; i < nStall; i++ {
		g := &termhx.Gen{R: cfg.Rand}
		g.W, g.H = g.Size()
		r := &termhx.Runner{FullEvery: 9}
		r.Start(g.W, g.H)
		var b []byte
		for k := 0; k < 3+cfg.Rand.Intn(8); k++ {
			if cfg.Rand.Intn(3) == 0 {
				b = append(b, g.Text()...)
			} else if cfg.Rand.Intn(2) == 0 {
				b = append(b, 7)
			} else {
				b = append(b, g.Str()...)
			}
		}
		r.FeedBytes(b, []float64{0, 0.3, 0.7, 1}[cfg.Rand.Intn(4)], cfg.Rand)
		add(r, "events", sizeTag(g.W, g.H))
	}
	// state that survives a resize and is used after it (saved cursors of both screens, tab
	// stops, margins, modes), see survive.go
	nSurv := 120
	if cfg.Thorough() {
		nSurv = 2000
	}
	for i := 0; i < nSurv; i++ {
		r, tags := survivorHistory(cfg.Rand)
		add(r, "resize-survivor", tags...)
	}
	// wide glyph neighbourhood (wide.go)
	wideDirected(cfg.Rand, cfg.Thorough(), func(r *termhx.Runner, tags []string) {
		add(r, "wide-neighbourhood", tags...)
	})
	nWide := 80
	if cfg.Thorough() {
		nWide = 1500
	}
	for i := 0; i < nWide; i++ {
		r, tags := wideRandom(cfg.Rand)
		add(r, "wide-neighbourhood", tags...)
	}
	cfg.Write("C05", "histories from New(): first resize to a size from 1x1 upward, then chunks of grammar-generated child output (printable narrow/wide/zero-width text, C0, ESC, CSI with parameters omitted/0/1/size-1/size/size+1/huge/overflowing, SGR, OSC/APC/DCS strings) or raw fuzzed bytes, plus directed histories: SGR lists cut at every length around the extended colours 38/48/58 (selector omitted/0/2/5/unknown, semicolon, colon and mixed syntax, at the start and at the tail of the list) and OSC 8 hyperlinks whose targets and parameters are drawn from an alphabet containing \";\", \":\" and \"=\", and resize-survivor histories (a cursor position at 0 / new size-2..new size+1 / old size-2..old size-1 saved into the primary or the alternate screen's slot by ESC 7, CSI s or CSI ?1049h, optionally with a tab stop, scroll region, origin / insert / autowrap mode or pen, optionally leaving the screen, then one or two resizes that shrink rows, columns or both, go to 1x1, grow or keep the size, then ESC 8, CSI u, CSI ?1049l or a tab on the same or the other screen, at once followed by operations that index the grid at the cursor: erase, insert / delete line and character, repeat, IRM print, wide print, index / reverse index, tabs), and wide-glyph-neighbourhood histories (on widths 2..6 and 80 a wide glyph with its head at every column including the last two, where it wraps or with DECAWM off stays without a spacer; the spacer kept or destroyed by DCH / ICH / ECH / EL / REP / a narrow or wide print at the spacer or at the head; the cursor brought onto the cell before the head, the head, the spacer or the cell after it by CHA, HPA, CUP, BS, CUB, CR+CUF, CR+HPR or CUF huge + CHA; then REP, ICH, DCH, ECH with counts omitted / 0 / 1 / 2 / width-col-1 / width-col / width-col+1 / width / width+1 / huge, narrow and wide prints with IRM on and off, tabs, CUF / CUB / BS, EL / ED / IL / DL, then a print or REP on what is left; plus random wide-heavy text with horizontal moves, these operations and resizes by a few columns), parsed by the real ansi.Parser and fed one sequence at a time through the unmodified update path, with resizes between chunks and a random event-drain schedule; after every step the observation (outcome, size, cursor, deferred-wrap flag, margins, events pending, length of every row of both grids) and every 9th step plus the last one the complete state (both grids, pen, modes, tab stops, charsets, saved cursors); every third surviving history is then drawn by the unmodified Draw into a host window of a real Vaxis (24x14, filled with a sentinel, cursor hidden): a child of the root of the terminal's size, or a chain of one to three windows made by Window.New (offsets -3 .. beyond the parent's edge, sizes -1 / smaller / larger than the parent) or as struct literals that overhang their parent and the screen, the innermost of the terminal's size or of another size >= 1x1 (Draw resizes), focused or blurred; observed: the emulator's complete state afterwards, every host cell that is not the sentinel any more, the host cursor in screen coordinates; non-trivial = at least three different control functions in the history",
		[]*hx.Stream{s, ds}, map[string]interface{}{"outcomes": outcomes}, direct)
}
