// Harness for C05 (the embedded terminal never crashes or hangs on child output):
// generated histories of child output, resizes and event-drain schedules are run on
// the real emulator through the verif hook; every step's observation is written
// next to the step so that the Coq model (model/Term.v) replays the history.
package main

import (
	"fmt"
	"os"
	"strings"

	vaxis "git.sr.ht/~rockorager/vaxis"
	"verif/harness/hx"
	"verif/harness/termhx"
)

const (
	hostCols, hostRows = 24, 14
	winCol, winRow     = 3, 2
)

type drawJSON struct {
	Hist    histJSON `json:"hist"`
	Outside bool     `json:"outside_untouched"`
	Visible bool     `json:"cursor_visible"`
	Col     int      `json:"cursor_col"`
	Row     int      `json:"cursor_row"`
	W, H    int
}

// drawCase draws the emulator into a child window of size w x h of a real Vaxis whose
// screen was filled with a sentinel, and returns the Coq term of the observation.
func drawCase(vx *vaxis.Vaxis, r *termhx.Runner, w, h int) (string, drawJSON) {
	root := vx.Window()
	sentinel := vaxis.Cell{Character: vaxis.Character{Grapheme: "#", Width: 1}}
	root.Fill(sentinel)
	vx.HideCursor()
	win := root.New(winCol, winRow, w, h)
	vt := r.T.Model()
	vt.Focus()
	vt.Draw(win)
	scr := vx.VerifScreenNext()
	outside := true
	var rows []string
	for y := range scr {
		var cells []string
		for x := range scr[y] {
			c := scr[y][x]
			inside := x >= winCol && x < winCol+w && y >= winRow && y < winRow+h
			if inside {
				cells = append(cells, fmt.Sprintf("(%s, %d, %s)", hx.Runes(c.Grapheme), c.Width, termhx.CoqStyle(c.Style)))
			} else if c.Cell != sentinel {
				outside = false
			}
		}
		if y >= winRow && y < winRow+h {
			rows = append(rows, hx.List(cells))
		}
	}
	cur := vx.VerifCursorNext()
	j := drawJSON{Outside: outside, Visible: cur.Visible, Col: cur.Col - winCol, Row: cur.Row - winRow, W: w, H: h}
	obs := fmt.Sprintf("(%s, (%s, %s, %s), [%s])", hx.Bool(outside), hx.Bool(cur.Visible),
		hx.Z(int64(j.Col)), hx.Z(int64(j.Row)), strings.Join(rows, ";\n "))
	return obs, j
}

type histJSON struct {
	Class string        `json:"class,omitempty"`
	Kind  string        `json:"kind"`
	Steps []termhx.Step `json:"steps"`
}

func main() {
	cfg := hx.ParseFlags()
	s := hx.NewStream("hist", "model.Colour model.Sgr model.Term model.TermCheck", "hist_case",
		"c05_hist_mismatches", "c05_hist_violations")
	s.Known = "c05_hist_known"
	s.KnownClass = "event-stall"
	s.ShardMax = 40
	ds := hx.NewStream("draw", "model.Colour model.Sgr model.Term model.TermCheck", "draw_case",
		"c05_draw_mismatches", "c05_draw_violations")
	ds.ShardMax = 40
	os.Unsetenv("COLORTERM")
	fc := hx.NewFakeConsole(hx.ProfileFromMask(0, hostRows, hostCols))
	vx, err := vaxis.New(vaxis.Options{WithConsole: fc, NoSignals: true})
	if err != nil {
		panic(err)
	}
	defer vx.Close()
	var direct []hx.DirectViolation
	outcomes := map[string]int{}

	nDraw := 0
	add := func(r *termhx.Runner, kind string, tags ...string) {
		// every third surviving history is also drawn: into a window of the terminal's
		// size, or of another size (Draw then resizes the terminal first)
		var drawObs string
		var dj drawJSON
		if !r.Dead && len(r.Steps) > 0 {
			nDraw++
			last := r.Steps[len(r.Steps)-1].Obs
			// (a window that does not fit the host screen would be clipped)
			if nDraw%3 == 0 && last.Cols <= hostCols-winCol && last.Rows <= hostRows-winRow {
				w, h := last.Cols, last.Rows
				if nDraw%9 == 0 {
					w, h = 1+cfg.Rand.Intn(12), 1+cfg.Rand.Intn(8)
				}
				panicked, msg := hx.Catch(func() { drawObs, dj = drawCase(vx, r, w, h) })
				if panicked {
					direct = append(direct, hx.DirectViolation{Class: "draw-panic", Case: histJSON{Kind: kind, Steps: r.Steps}, What: msg})
					drawObs = ""
				} else if w != last.Cols || h != last.Rows {
					// Draw resized the terminal: that is one more step of the history
					r.Steps = append(r.Steps, termhx.Step{Resize: true, W: w, H: h, Obs: r.Observe()})
				}
			}
		}
		r.Finish()
		kinds := map[string]bool{}
		for _, st := range r.Steps {
			if st.Item != nil && st.Item.Kind != "print" {
				kinds[fmt.Sprint(st.Item.Kind, st.Item.Inter, st.Item.Final)] = true
			}
		}
		out := []string{"ok", "panic", "stall", "hang"}[r.LastOutcome()]
		outcomes[out]++
		h := histJSON{Kind: kind, Steps: r.Steps}
		if out == "stall" {
			h.Class = "event-stall"
		}
		if out == "hang" {
			direct = append(direct, hx.DirectViolation{Class: "hang", Case: h, What: "update did not return"})
		}
		tags = append(tags, kind, "outcome-"+out, fmt.Sprintf("steps-%d0s", len(r.Steps)/10))
		s.Add(termhx.CoqHistory(r.Steps), h, len(kinds) >= 3, tags...)
		if drawObs != "" {
			dj.Hist = h
			ds.Add("("+termhx.CoqHistory(r.Steps)+",\n "+drawObs+")", dj, len(kinds) >= 3, kind, fmt.Sprintf("window-%v", dj.W == r.Steps[len(r.Steps)-1].W))
		}
	}

	nGrammar, nFuzz, nStall := 640, 150, 60
	if cfg.Thorough() {
		nGrammar, nFuzz, nStall = 6000, 1500, 300
	}
	sizeTag := func(w, h int) string {
		if w*h <= 4 {
			return "size-tiny"
		}
		if w <= 4 && h <= 4 {
			return "size-small"
		}
		return "size-medium"
	}
	// grammar-generated control sequences, resizes between writes, random drains
	for i := 0; i < nGrammar; i++ {
		g := &termhx.Gen{R: cfg.Rand}
		g.W, g.H = g.Size()
		r := &termhx.Runner{FullEvery: 9}
		r.Start(g.W, g.H)
		tags := []string{sizeTag(g.W, g.H)}
		chunks := 1 + cfg.Rand.Intn(4)
		drainP := []float64{1, 0.9, 0.6, 0.3}[cfg.Rand.Intn(4)]
		for c := 0; c < chunks && !r.Dead; c++ {
			if c > 0 {
				g.W, g.H = g.Size()
				r.Resize(g.W, g.H)
				tags = append(tags, "resized")
			}
			r.FeedBytes(g.Chunk(4+cfg.Rand.Intn(14)), drainP, cfg.Rand)
		}
		add(r, "grammar", tags...)
	}
	// raw fuzzed bytes
	for i := 0; i < nFuzz; i++ {
		g := &termhx.Gen{R: cfg.Rand}
		g.W, g.H = g.Size()
		r := &termhx.Runner{FullEvery: 9}
		r.Start(g.W, g.H)
		r.FeedBytes(g.Fuzz(20+cfg.Rand.Intn(80)), 0.9, cfg.Rand)
		if !r.Dead && cfg.Rand.Intn(2) == 0 {
			g.W, g.H = g.Size()
			r.Resize(g.W, g.H)
			r.FeedBytes(g.Fuzz(20+cfg.Rand.Intn(40)), 0.9, cfg.Rand)
		}
		add(r, "fuzz", sizeTag(g.W, g.H))
	}
	// directed: SGR parameter lists cut at every length around the extended colours
	// (38 / 48 / 58, selector omitted/0/2/5/unknown, ';' and ':' and mixed syntax, as the
	// whole list and as its tail), a glyph after every few so that the pen shows in the grid
	trunc := termhx.SgrTruncations()
	cfg.Rand.Shuffle(len(trunc), func(i, j int) { trunc[i], trunc[j] = trunc[j], trunc[i] })
	const perHist = 24
	for lo := 0; lo < len(trunc); lo += perHist {
		hi := lo + perHist
		if hi > len(trunc) {
			hi = len(trunc)
		}
		g := &termhx.Gen{R: cfg.Rand}
		g.W, g.H = g.Size()
		r := &termhx.Runner{FullEvery: 9}
		r.Start(g.W, g.H)
		for k, ps := range trunc[lo:hi] {
			b := "\x1b[" + ps + "m"
			if k%4 == 3 {
				b += "x"
			}
			r.FeedBytes([]byte(b), 1, cfg.Rand)
		}
		add(r, "sgr-truncated", sizeTag(g.W, g.H))
	}
	// hyperlinks: OSC 8 ; params ; URI with targets over an alphabet that contains the
	// field separator ';' and the parameter separators ':' '=', text printed under the
	// link, links closed and replaced, a resize in between
	nLink := 40
	if cfg.Thorough() {
		nLink = 400
	}
	for i := 0; i < nLink; i++ {
		g := &termhx.Gen{R: cfg.Rand}
		g.W, g.H = g.Size()
		r := &termhx.Runner{FullEvery: 3}
		r.Start(g.W, g.H)
		for k := 0; k < 3+cfg.Rand.Intn(6) && !r.Dead; k++ {
			ps, uri := g.Link()
			if cfg.Rand.Intn(4) == 0 {
				ps, uri = "", ""
			}
			b := "\x1b]8;" + ps + ";" + uri + g.Pick("\a", "\x1b\\") + g.Text()
			switch cfg.Rand.Intn(5) {
			case 0:
				b += g.Sgr()
			case 1:
				b += g.Csi()
			}
			r.FeedBytes([]byte(b), 1, cfg.Rand)
			if cfg.Rand.Intn(8) == 0 {
				g.W, g.H = g.Size()
				r.Resize(g.W, g.H)
			}
		}
		add(r, "hyperlink", sizeTag(g.W, g.H))
	}
	// event storms with sparse drains
	for i := 0; i < nStall; i++ {
		g := &termhx.Gen{R: cfg.Rand}
		g.W, g.H = g.Size()
		r := &termhx.Runner{FullEvery: 9}
		r.Start(g.W, g.H)
		var b []byte
		for k := 0; k < 3+cfg.Rand.Intn(8); k++ {
			if cfg.Rand.Intn(3) == 0 {
				b = append(b, g.Text()...)
			} else if cfg.Rand.Intn(2) == 0 {
				b = append(b, 7)
			} else {
				b = append(b, g.Str()...)
			}
		}
		r.FeedBytes(b, []float64{0, 0.3, 0.7, 1}[cfg.Rand.Intn(4)], cfg.Rand)
		add(r, "events", sizeTag(g.W, g.H))
	}
	// state that survives a resize and is used after it (saved cursors of both screens, tab
	// stops, margins, modes), see survive.go
	nSurv := 120
	if cfg.Thorough() {
		nSurv = 2000
	}
	for i := 0; i < nSurv; i++ {
		r, tags := survivorHistory(cfg.Rand)
		add(r, "resize-survivor", tags...)
	}
	// wide glyph neighbourhood (wide.go)
	wideDirected(cfg.Rand, cfg.Thorough(), func(r *termhx.Runner, tags []string) {
		add(r, "wide-neighbourhood", tags...)
	})
	nWide := 80
	if cfg.Thorough() {
		nWide = 1500
	}
	for i := 0; i < nWide; i++ {
		r, tags := wideRandom(cfg.Rand)
		add(r, "wide-neighbourhood", tags...)
	}
	cfg.Write("C05", "histories from New(): first resize to a size from 1x1 upward, then chunks of grammar-generated child output (printable narrow/wide/zero-width text, C0, ESC, CSI with parameters omitted/0/1/size-1/size/size+1/huge/overflowing, SGR, OSC/APC/DCS strings) or raw fuzzed bytes, plus directed histories: SGR lists cut at every length around the extended colours 38/48/58 (selector omitted/0/2/5/unknown, semicolon, colon and mixed syntax, at the start and at the tail of the list) and OSC 8 hyperlinks whose targets and parameters are drawn from an alphabet containing \";\", \":\" and \"=\", and resize-survivor histories (a cursor position at 0 / new size-2..new size+1 / old size-2..old size-1 saved into the primary or the alternate screen's slot by ESC 7, CSI s or CSI ?1049h, optionally with a tab stop, scroll region, origin / insert / autowrap mode or pen, optionally leaving the screen, then one or two resizes that shrink rows, columns or both, go to 1x1, grow or keep the size, then ESC 8, CSI u, CSI ?1049l or a tab on the same or the other screen, at once followed by operations that index the grid at the cursor: erase, insert / delete line and character, repeat, IRM print, wide print, index / reverse index, tabs), and wide-glyph-neighbourhood histories (on widths 2..6 and 80 a wide glyph with its head at every column including the last two, where it wraps or with DECAWM off stays without a spacer; the spacer kept or destroyed by DCH / ICH / ECH / EL / REP / a narrow or wide print at the spacer or at the head; the cursor brought onto the cell before the head, the head, the spacer or the cell after it by CHA, HPA, CUP, BS, CUB, CR+CUF, CR+HPR or CUF huge + CHA; then REP, ICH, DCH, ECH with counts omitted / 0 / 1 / 2 / width-col-1 / width-col / width-col+1 / width / width+1 / huge, narrow and wide prints with IRM on and off, tabs, CUF / CUB / BS, EL / ED / IL / DL, then a print or REP on what is left; plus random wide-heavy text with horizontal moves, these operations and resizes by a few columns), parsed by the real ansi.Parser and fed one sequence at a time through the unmodified update path, with resizes between chunks and a random event-drain schedule; after every step the observation (outcome, size, cursor, deferred-wrap flag, margins, events pending, length of every row of both grids) and every 9th step plus the last one the complete state (both grids, pen, modes, tab stops, charsets, saved cursors); non-trivial = at least three different control functions in the history",
		[]*hx.Stream{s, ds}, map[string]interface{}{"outcomes": outcomes}, direct)
}
