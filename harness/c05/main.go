// Harness for C05 (the embedded terminal never crashes or hangs on child output):
// generated histories of child output, resizes and event-drain schedules are run on
// the real emulator through the verif hook; every step's observation is written
// next to the step so that the Coq model (model/Term.v) replays the history.
package main

import (
	"fmt"

	"verif/harness/hx"
	"verif/harness/termhx"
)

type histJSON struct {
	Class string        `json:"class,omitempty"`
	Kind  string        `json:"kind"`
	Steps []termhx.Step `json:"steps"`
}

func main() {
	cfg := hx.ParseFlags()
	s := hx.NewStream("hist", "model.Colour model.Sgr model.Term model.TermCheck", "hist_case",
		"c05_hist_mismatches", "c05_hist_violations")
	s.Known = "c05_hist_known"
	s.KnownClass = "event-stall"
	s.ShardMax = 40
	var direct []hx.DirectViolation
	outcomes := map[string]int{}

	add := func(r *termhx.Runner, kind string, tags ...string) {
		r.Finish()
		kinds := map[string]bool{}
		for _, st := range r.Steps {
			if st.Item != nil && st.Item.Kind != "print" {
				kinds[fmt.Sprint(st.Item.Kind, st.Item.Inter, st.Item.Final)] = true
			}
		}
		out := []string{"ok", "panic", "stall", "hang"}[r.LastOutcome()]
		outcomes[out]++
		h := histJSON{Kind: kind, Steps: r.Steps}
		if out == "stall" {
			h.Class = "event-stall"
		}
		if out == "hang" {
			direct = append(direct, hx.DirectViolation{Class: "hang", Case: h, What: "update did not return"})
		}
		tags = append(tags, kind, "outcome-"+out, fmt.Sprintf("steps-%d0s", len(r.Steps)/10))
		s.Add(termhx.CoqHistory(r.Steps), h, len(kinds) >= 3, tags...)
	}

	nGrammar, nFuzz, nStall := 260, 60, 30
	if cfg.Thorough() {
		nGrammar, nFuzz, nStall = 6000, 1500, 300
	}
	sizeTag := func(w, h int) string {
		if w*h <= 4 {
			return "size-tiny"
		}
		if w <= 4 && h <= 4 {
			return "size-small"
		}
		return "size-medium"
	}
	// grammar-generated control sequences, resizes between writes, random drains
	for i := 0; i < nGrammar; i++ {
		g := &termhx.Gen{R: cfg.Rand}
		g.W, g.H = g.Size()
		r := &termhx.Runner{FullEvery: 9}
		r.Start(g.W, g.H)
		tags := []string{sizeTag(g.W, g.H)}
		chunks := 1 + cfg.Rand.Intn(4)
		drainP := []float64{1, 0.9, 0.6, 0.3}[cfg.Rand.Intn(4)]
		for c := 0; c < chunks && !r.Dead; c++ {
			if c > 0 {
				g.W, g.H = g.Size()
				r.Resize(g.W, g.H)
				tags = append(tags, "resized")
			}
			r.FeedBytes(g.Chunk(4+cfg.Rand.Intn(14)), drainP, cfg.Rand)
		}
		add(r, "grammar", tags...)
	}
	// raw fuzzed bytes
	for i := 0; i < nFuzz; i++ {
		g := &termhx.Gen{R: cfg.Rand}
		g.W, g.H = g.Size()
		r := &termhx.Runner{FullEvery: 9}
		r.Start(g.W, g.H)
		r.FeedBytes(g.Fuzz(20+cfg.Rand.Intn(80)), 0.9, cfg.Rand)
		if !r.Dead && cfg.Rand.Intn(2) == 0 {
			g.W, g.H = g.Size()
			r.Resize(g.W, g.H)
			r.FeedBytes(g.Fuzz(20+cfg.Rand.Intn(40)), 0.9, cfg.Rand)
		}
		add(r, "fuzz", sizeTag(g.W, g.H))
	}
	// event storms with sparse drains
	for i := 0; i < nStall; i++ {
		g := &termhx.Gen{R: cfg.Rand}
		g.W, g.H = g.Size()
		r := &termhx.Runner{FullEvery: 9}
		r.Start(g.W, g.H)
		var b []byte
		for k := 0; k < 3+cfg.Rand.Intn(8); k++ {
			if cfg.Rand.Intn(3) == 0 {
				b = append(b, g.Text()...)
			} else if cfg.Rand.Intn(2) == 0 {
				b = append(b, 7)
			} else {
				b = append(b, g.Str()...)
			}
		}
		r.FeedBytes(b, []float64{0, 0.3, 0.7, 1}[cfg.Rand.Intn(4)], cfg.Rand)
		add(r, "events", sizeTag(g.W, g.H))
	}
	cfg.Write("C05", "histories from New(): first resize to a size from 1x1 upward, then chunks of grammar-generated child output (printable narrow/wide/zero-width text, C0, ESC, CSI with parameters omitted/0/1/size-1/size/size+1/huge/overflowing, SGR, OSC/APC/DCS strings) or raw fuzzed bytes, parsed by the real ansi.Parser and fed one sequence at a time through the unmodified update path, with resizes between chunks and a random event-drain schedule; after every step the observation (outcome, size, cursor, deferred-wrap flag, margins, events pending, length of every row of both grids) and every 9th step plus the last one the complete state (both grids, pen, modes, tab stops, charsets, saved cursors); non-trivial = at least three different control functions in the history",
		[]*hx.Stream{s}, map[string]interface{}{"outcomes": outcomes}, direct)
}
