// Harness for C17: drives the real vxfw TextField and widgets/textinput Model with real
// vaxis events and exported methods, and writes, per step, the operation (in the abstract
// alphabet of coq/model/Editors.v), the answers of the segmentation/width oracle
// (vaxis.Characters, i.e. uniseg) for the texts involved, and the observed state.
package main

import (
	"fmt"
	"os"
	"strings"
	"time"
	"unicode"

	vaxis "git.sr.ht/~rockorager/vaxis"
	"git.sr.ht/~rockorager/vaxis/vxfw"
	"git.sr.ht/~rockorager/vaxis/vxfw/textfield"
	"git.sr.ht/~rockorager/vaxis/widgets/textinput"
	"github.com/rivo/uniseg"
	"verif/harness/hx"
)

// ---------- alphabets ----------

// Clusters whose concatenations uniseg segments back into exactly these clusters
// (checked at start-up by checkStable): narrow, wide, precomposed, combining sequences,
// ZWJ sequences, flags, emoji modifiers, Hangul jamo.
var stableAlpha = []string{
	"a", "b", "Z", "q", "1", "7", "\u00e9", "\u00df", " ", " ", "-", ".", "_", "/",
	"\u4e16", "\u754c", "\u3042", "\ud55c", "\U0001F600",
	"e\u0301", "o\u0323\u0308", "\U0001F469\u200d\U0001F467", "\U0001F1E6\U0001F1FA", "\U0001F1EF\U0001F1F5",
	"\U0001F44D\U0001F3FD", "\u1112\u1161\u11ab", "\u2600\ufe0f",
}

// Code points that do change their neighbours' segmentation.
var unstableExtra = []string{"\u0301", "\u200d", "\U0001F1E6", "\U0001F1FA", "\U0001F3FD", "\r", "\n", "e",
	"\U0001F469", "\U0001F467", "\ufe0f", "\u1161"}

func clustersOf(s string) []string {
	var out []string
	state := -1
	var c string
	for len(s) > 0 {
		c, s, _, state = uniseg.FirstGraphemeClusterInString(s, state)
		out = append(out, c)
	}
	return out
}

func checkStable(cfg *hx.Config) {
	bad := func(toks []string) bool {
		got := clustersOf(strings.Join(toks, ""))
		if len(got) != len(toks) {
			return true
		}
		for i := range got {
			if got[i] != toks[i] {
				return true
			}
		}
		return false
	}
	for _, a := range stableAlpha {
		for _, b := range stableAlpha {
			if bad([]string{a, b}) {
				fmt.Fprintf(os.Stderr, "alphabet is not boundary-stable: %q + %q\n", a, b)
				os.Exit(2)
			}
		}
	}
	for i := 0; i < 3000; i++ {
		n := 1 + cfg.Rand.Intn(10)
		toks := make([]string, n)
		for j := range toks {
			toks[j] = stableAlpha[cfg.Rand.Intn(len(stableAlpha))]
		}
		if bad(toks) {
			fmt.Fprintf(os.Stderr, "alphabet is not boundary-stable: %q\n", toks)
			os.Exit(2)
		}
	}
}

// ---------- Coq printers ----------

// Every distinct (grapheme, width) gets a name defined once per case file (see
// dictImports); numerals are expensive for Coq to elaborate, identifiers are not.
var dictNames = map[string]string{}
var dictDefs []string

func coqCl(c vaxis.Character) string {
	key := fmt.Sprintf("%s|%d", c.Grapheme, c.Width)
	if n, ok := dictNames[key]; ok {
		return n
	}
	n := fmt.Sprintf("k%d", len(dictDefs))
	dictNames[key] = n
	dictDefs = append(dictDefs, fmt.Sprintf("Definition %s : cluster := %s", n, hx.Tuple(hx.Runes(c.Grapheme), hx.Z(int64(c.Width)))))
	return n
}

// a text, written as the concatenation of the clusters it segments into
func coqText(s string) string {
	if s == "" {
		return "[]"
	}
	if strings.Contains(s, "\t") { // vaxis.Characters expands tabs
		return hx.Runes(s)
	}
	return "(cl_text " + coqCls(chars(s)) + ")"
}

// hx prints "From Vx Require Import base.Prelude <Imports>." at the top of every case
// file; the dictionary definitions ride along behind the import.
func dictImports() string {
	if len(dictDefs) == 0 {
		return "model.Editors model.EditorKeys"
	}
	return "model.Editors model.EditorKeys.\nLocal Open Scope Z_scope.\n" + strings.Join(dictDefs, ".\n")
}

func coqCls(cs []vaxis.Character) string {
	s := make([]string, len(cs))
	for i, c := range cs {
		s[i] = coqCl(c)
	}
	return hx.List(s)
}

func chars(s string) []vaxis.Character { return vaxis.Characters(s) }

func sameChars(a, b []vaxis.Character) bool {
	if len(a) != len(b) {
		return false
	}
	for i := range a {
		if a[i] != b[i] {
			return false
		}
	}
	return true
}

type gen struct {
	cfg          *hx.Config
	direct       []hx.DirectViolation
	vx           *vaxis.Vaxis
	hangs        int
	skippedDraws int
}

func (g *gen) pick(alpha []string) string { return alpha[g.cfg.Rand.Intn(len(alpha))] }

func (g *gen) randText(alpha []string, max int) string {
	n := 1 + g.cfg.Rand.Intn(max)
	var b strings.Builder
	for i := 0; i < n; i++ {
		b.WriteString(g.pick(alpha))
	}
	return b.String()
}

// ---------- programmatic edits whose argument is derived from the text the widget holds ----------

// A derive says how the text of an operation (SetContent, InsertStringAtCursor, a typed or
// pasted text) is computed, at the moment the operation is applied, from the text the widget
// holds then (or from the last non-empty text it held: "Reset, then put the old text back").
// The ideal editor does not care where its argument comes from; code that compares the
// argument with its own state (early returns, caches, "unchanged" shortcuts) does.
type derive struct {
	how   string // "" (not derived), same, prefix, suffix, extend, prepend, double, norm, lastdiff
	k     int    // prefix/suffix: clusters kept, modulo (number of clusters + 1)
	extra string // material of extend / prepend / lastdiff
	last  bool   // derive from the last non-empty text the widget held, not from the current one
}

var deriveHows = []string{"same", "prefix", "suffix", "extend", "prepend", "double", "norm", "lastdiff"}

func (d derive) String() string {
	if d.how == "" {
		return ""
	}
	src := "current"
	if d.last {
		src = "last-nonempty"
	}
	return fmt.Sprintf(" [%s of %s text]", d.how, src)
}

// canonically equivalent spellings that are both clusters of the stable alphabet
var normPairs = map[string]string{"\u00e9": "e\u0301", "e\u0301": "\u00e9", "\ud55c": "\u1112\u1161\u11ab", "\u1112\u1161\u11ab": "\ud55c"}

func (d derive) of(cur, lastNonEmpty string) string {
	base := cur
	if d.last {
		base = lastNonEmpty
	}
	cs := clustersOf(base)
	n := len(cs)
	if n > 40 && (d.how == "double" || d.how == "extend" || d.how == "prepend") {
		return base // keep random histories from growing without bound
	}
	switch d.how {
	case "same":
		return base
	case "prefix":
		return strings.Join(cs[:d.k%(n+1)], "")
	case "suffix":
		return strings.Join(cs[n-d.k%(n+1):], "")
	case "extend":
		return base + d.extra
	case "prepend":
		return d.extra + base
	case "double":
		return base + base
	case "norm": // same line to the reader, different string
		out := make([]string, n)
		for i, c := range cs {
			out[i] = c
			if o, ok := normPairs[c]; ok {
				out[i] = o
			}
		}
		return strings.Join(out, "")
	case "lastdiff": // equal prefix, equal length, different last cluster
		if n == 0 {
			return d.extra
		}
		e := d.extra
		if e == cs[n-1] || e == "" {
			e = "Z"
			if cs[n-1] == "Z" {
				e = "q"
			}
		}
		return strings.Join(cs[:n-1], "") + e
	}
	panic("derive " + d.how)
}

func (g *gen) randDerive(alpha []string) derive {
	r := g.cfg.Rand
	how := deriveHows[r.Intn(len(deriveHows))]
	if r.Intn(3) == 0 {
		how = "same"
	}
	return derive{how: how, k: r.Intn(12), extra: g.randText(alpha, 3), last: r.Intn(4) == 0}
}

// ============================================================ TextField

type tfOp struct {
	kind    string
	s       string
	i       uint
	variant int
	dv      derive
	// extra modifier bits ORed into the key event (lock state reported by the kitty
	// protocol, Shift, Meta, Hyper): see textMods / lockMods
	mods vaxis.ModifierMask
}

// Modifier bits a key that carries Text can arrive with: Shift, the two lock bits (the
// kitty keyboard protocol reports them while Caps Lock / Num Lock is on), Meta and Hyper.
// Neither widget treats any of them as a chord: the Text is typed.  All 32 subsets.
func textMods() []vaxis.ModifierMask {
	bits := []vaxis.ModifierMask{vaxis.ModShift, vaxis.ModCapsLock, vaxis.ModNumLock, vaxis.ModMeta, vaxis.ModHyper}
	var out []vaxis.ModifierMask
	for m := 0; m < 1<<len(bits); m++ {
		var mm vaxis.ModifierMask
		for i, b := range bits {
			if m&(1<<i) != 0 {
				mm |= b
			}
		}
		out = append(out, mm)
	}
	return out
}

// lock state on a navigation / deletion / chord key
var lockMods = []vaxis.ModifierMask{vaxis.ModCapsLock, vaxis.ModNumLock, vaxis.ModCapsLock | vaxis.ModNumLock}

// further bits on a bound key: lock state, or a bit that makes it another (unbound) key
var navMods = append(append([]vaxis.ModifierMask{}, lockMods...), vaxis.ModCapsLock, vaxis.ModNumLock, vaxis.ModShift, vaxis.ModMeta,
	vaxis.ModHyper|vaxis.ModCapsLock, vaxis.ModShift|vaxis.ModNumLock)

func (g *gen) randTextMods() vaxis.ModifierMask {
	tm := textMods()
	return tm[g.cfg.Rand.Intn(len(tm))]
}

func modSuffix(m vaxis.ModifierMask) string {
	if m == 0 {
		return ""
	}
	var names []string
	for _, b := range []struct {
		bit  vaxis.ModifierMask
		name string
	}{{vaxis.ModShift, "Shift"}, {vaxis.ModAlt, "Alt"}, {vaxis.ModCtrl, "Ctrl"}, {vaxis.ModSuper, "Super"}, {vaxis.ModHyper, "Hyper"},
		{vaxis.ModMeta, "Meta"}, {vaxis.ModCapsLock, "CapsLock"}, {vaxis.ModNumLock, "NumLock"}} {
		if m&b.bit != 0 {
			names = append(names, b.name)
		}
	}
	return "+mods(" + strings.Join(names, "|") + ")"
}

func withMods(e vaxis.Event, m vaxis.ModifierMask) vaxis.Event {
	if k, ok := e.(vaxis.Key); ok {
		k.Modifiers |= m
		return k
	}
	return e
}

func (o tfOp) String() string {
	switch o.kind {
	case "text", "insertapi", "setvalue":
		return fmt.Sprintf("%s(%q)%s%s", o.kind, o.s, o.dv, modSuffix(o.mods))
	case "cursortoapi":
		return fmt.Sprintf("cursorto(%d)", o.i)
	}
	if o.variant != 0 {
		return fmt.Sprintf("%s/%d%s", o.kind, o.variant, modSuffix(o.mods))
	}
	return o.kind + modSuffix(o.mods)
}

func (o tfOp) coq() string {
	switch o.kind {
	case "text":
		if o.mods != 0 { // the model decides from the mask (model/EditorKeys.v)
			return "(tf_typed " + hx.Z(int64(o.mods)) + " " + coqText(o.s) + ")"
		}
		return "(TText " + coqText(o.s) + ")"
	case "home", "end", "right", "left", "delete", "backspace", "kill", "enter":
		if o.mods != 0 {
			o2 := o
			o2.mods = 0
			return "(tf_bound " + hx.Z(int64(o.mods)) + " " + strings.TrimPrefix(strings.TrimSuffix(o2.coq(), ")"), "(TKey ") + ")"
		}
	}
	switch o.kind {
	case "home":
		return "(TKey TkHome)"
	case "end":
		return "(TKey TkEnd)"
	case "right":
		return "(TKey TkRight)"
	case "left":
		return "(TKey TkLeft)"
	case "delete":
		return "(TKey TkDelete)"
	case "backspace":
		return "(TKey TkBackspace)"
	case "kill":
		return "(TKey TkKill)"
	case "enter":
		return "(TKey TkEnter)"
	case "ignored":
		return "TIgnored"
	case "insertapi":
		return "(TInsertApi " + coqText(o.s) + ")"
	case "cursortoapi":
		return "(TCursorToApi " + hx.ZU(uint64(o.i)) + ")"
	case "delrightapi":
		return "TDeleteRightApi"
	case "delleftapi":
		return "TDeleteLeftApi"
	case "killapi":
		return "TKillApi"
	case "resetapi":
		return "TResetApi"
	case "setvalue":
		return "(TSetValue " + coqText(o.s) + ")"
	}
	panic("tfOp " + o.kind)
}

// the real key events of the documented bindings: variant 0 = the named key,
// variant 1 = the Ctrl+letter binding
func namedOrCtrl(variant int, named rune, letter rune) vaxis.Key {
	if variant == 1 {
		return vaxis.Key{Keycode: letter, Modifiers: vaxis.ModCtrl}
	}
	return vaxis.Key{Keycode: named}
}

func firstRune(s string) rune {
	for _, r := range s {
		return r
	}
	return 0
}

func (o tfOp) apply(tf *textfield.TextField) {
	ev := func(e vaxis.Event) { tf.HandleEvent(withMods(e, o.mods), vxfw.TargetPhase) }
	switch o.kind {
	case "text":
		k := vaxis.Key{Keycode: firstRune(o.s), Text: o.s}
		switch o.variant {
		case 1:
			k.EventType = vaxis.EventRepeat
		case 2: // a chunk of a bracketed paste: TextField inserts it like typed text
			k.EventType = vaxis.EventPaste
		}
		ev(k)
	case "home":
		ev(namedOrCtrl(o.variant, vaxis.KeyHome, 'a'))
	case "end":
		ev(namedOrCtrl(o.variant, vaxis.KeyEnd, 'e'))
	case "right":
		ev(namedOrCtrl(o.variant, vaxis.KeyRight, 'f'))
	case "left":
		ev(namedOrCtrl(o.variant, vaxis.KeyLeft, 'b'))
	case "delete":
		ev(namedOrCtrl(o.variant, vaxis.KeyDelete, 'd'))
	case "backspace":
		ev(namedOrCtrl(o.variant, vaxis.KeyBackspace, 'h'))
	case "kill":
		ev(vaxis.Key{Keycode: 'k', Modifiers: vaxis.ModCtrl})
	case "enter":
		ev(vaxis.Key{Keycode: vaxis.KeyEnter})
	case "ignored":
		switch o.variant {
		case 0:
			ev(vaxis.Key{Keycode: 'a', Text: "a", EventType: vaxis.EventRelease})
		case 1:
			ev(vaxis.Key{Keycode: vaxis.KeyF05})
		case 2:
			ev(vaxis.Key{Keycode: vaxis.KeyEnter, EventType: vaxis.EventRelease})
		case 3:
			ev(vaxis.PasteEndEvent{})
		default:
			ev(vaxis.FocusIn{})
		}
	case "insertapi":
		tf.InsertStringAtCursor(o.s)
	case "cursortoapi":
		tf.CursorTo(o.i)
	case "delrightapi":
		tf.DeleteCharRightOfCursor()
	case "delleftapi":
		tf.DeleteCharLeftOfCursor()
	case "killapi":
		tf.DeleteCursorToEndOfLine()
	case "resetapi":
		tf.Reset()
	case "setvalue":
		tf.Value = o.s
	default:
		panic("tfOp " + o.kind)
	}
}

func (g *gen) runTF(s *hx.Stream, ops []tfOp, W int, stable bool, tags ...string) {
	var steps []string
	var jsOps, jsObs []string
	nontrivial := false
	run := func() {
		tf := textfield.New()
		var log [][2]string
		tf.OnChange = func(v string) (vxfw.Command, error) {
			log = append(log, [2]string{"CbChange", v})
			return nil, nil
		}
		tf.OnSubmit = func(v string) (vxfw.Command, error) {
			log = append(log, [2]string{"CbSubmit", v})
			return nil, nil
		}
		lastNonEmpty := ""
		for _, o := range ops {
			log = nil
			pre := tf.Value
			preCur, preN := tf.VerifState()
			if o.dv.how != "" {
				o.s = o.dv.of(pre, lastNonEmpty)
				if o.s == "" && o.kind == "text" { // a key event without Text is not an insertion
					o = tfOp{kind: "ignored", variant: 1}
				}
			}
			o.apply(tf)
			if tf.Value != "" {
				lastNonEmpty = tf.Value
			}
			cur, n := tf.VerifState()
			surf, err := tf.Draw(vxfw.DrawContext{Max: vxfw.Size{Width: uint16(W), Height: 1}, Characters: vaxis.Characters})
			if err != nil {
				panic(err)
			}
			col := int64(-1)
			if surf.Cursor != nil {
				col = int64(surf.Cursor.Col)
			}
			switch o.kind {
			case "delete", "backspace", "kill", "delrightapi", "delleftapi", "killapi":
				if tf.Value != pre {
					nontrivial = true
				}
			case "text", "insertapi":
				if preCur < preN {
					nontrivial = true
				}
			}
			logc := make([]string, len(log))
			for i, l := range log {
				if l[1] == tf.Value {
					logc[i] = "(" + l[0] + " (cl_text v))"
				} else {
					logc[i] = "(" + l[0] + " " + coqText(l[1]) + ")"
				}
			}
			obs := "(let v := " + coqCls(chars(tf.Value)) + " in " + hx.Tuple("v", hx.ZU(uint64(cur)), hx.ZU(uint64(n)), hx.List(logc), hx.Z(col)) + ")"
			steps = append(steps, hx.Tuple(o.coq(), coqCls(chars(o.s)), obs))
			jsOps = append(jsOps, o.String())
			jsObs = append(jsObs, fmt.Sprintf("%q cur=%d n=%d cb=%d col=%d", tf.Value, cur, n, len(log), col))
		}
	}
	js := map[string]interface{}{"widget": "textfield", "draw_width": W, "stable": stable, "ops": jsOps, "gen": strings.Join(tags, ",")}
	if p, msg := hx.Catch(run); p {
		js["panic"] = msg
		js["ops"] = jsOps
		g.direct = append(g.direct, hx.DirectViolation{Class: "textfield-panic", Case: js, What: "TextField panicked: " + msg})
		return
	}
	js["ops"] = jsOps
	js["observed"] = jsObs
	s.Add(hx.Tuple(hx.Z(int64(W)), hx.Bool(stable), hx.List(steps)), js, nontrivial, tags...)
}

var tfWidths = []int{0, 1, 3, 8, 30, 200, 200, 200}

// a random operation; a typed text arrives with a random subset of Shift / CapsLock / NumLock /
// Meta / Hyper one time in three, a bound key with lock state one time in five
func (g *gen) randTFOp(alpha []string, curLen int) tfOp {
	o := g.randTFOp0(alpha, curLen)
	return g.tfDecorate(o)
}

func (g *gen) tfDecorate(o tfOp) tfOp {
	r := g.cfg.Rand
	switch o.kind {
	case "text":
		if r.Intn(3) == 0 {
			o.mods = g.randTextMods()
		}
	case "home", "end", "right", "left", "delete", "backspace", "kill", "enter":
		if r.Intn(5) == 0 {
			o.mods = navMods[r.Intn(len(navMods))]
		}
	}
	return o
}

func (g *gen) randTFOp0(alpha []string, curLen int) tfOp {
	r := g.cfg.Rand
	x := r.Intn(100)
	v2 := r.Intn(2)
	switch {
	case x < 34:
		return tfOp{kind: "text", s: g.randText(alpha, 3), variant: r.Intn(3)}
	case x < 44:
		return tfOp{kind: "left", variant: v2}
	case x < 51:
		return tfOp{kind: "right", variant: v2}
	case x < 55:
		return tfOp{kind: "home", variant: v2}
	case x < 59:
		return tfOp{kind: "end", variant: v2}
	case x < 66:
		return tfOp{kind: "delete", variant: v2}
	case x < 74:
		return tfOp{kind: "backspace", variant: v2}
	case x < 77:
		return tfOp{kind: "kill"}
	case x < 79:
		return tfOp{kind: "enter"}
	case x < 82:
		return tfOp{kind: "ignored", variant: r.Intn(5)}
	case x < 86:
		return tfOp{kind: "insertapi", s: g.randText(alpha, 4)}
	case x < 91:
		return tfOp{kind: "cursortoapi", i: uint(r.Intn(curLen + 3))}
	case x < 94:
		return tfOp{kind: "delrightapi"}
	case x < 97:
		return tfOp{kind: "delleftapi"}
	case x < 99:
		return tfOp{kind: "killapi"}
	default:
		return tfOp{kind: "resetapi"}
	}
}

// a programmatic edit (or a typed / pasted text) whose argument is derived from the field's
// own text; "Reset / Enter, then the old text again" comes as two operations
func (g *gen) randTFDerived(alpha []string) []tfOp {
	r := g.cfg.Rand
	d := g.randDerive(alpha)
	switch r.Intn(6) {
	case 0, 1:
		return []tfOp{{kind: "insertapi", dv: d}}
	case 2:
		return []tfOp{{kind: "text", variant: r.Intn(3), dv: d}}
	case 3:
		d.last = true
		return []tfOp{{kind: "resetapi"}, {kind: "insertapi", dv: d}}
	case 4:
		d.last = true
		return []tfOp{{kind: "enter"}, {kind: "text", variant: r.Intn(3), dv: d}}
	default:
		d.last = true
		return []tfOp{{kind: "home"}, {kind: "killapi"}, {kind: "insertapi", dv: d}}
	}
}

// cursor motions and deletions that leave the cursor somewhere inside a line of n clusters
func tfMotions(n int) [][]tfOp {
	return [][]tfOp{
		{},
		{{kind: "left"}},
		{{kind: "left", variant: 1}, {kind: "left"}},
		{{kind: "home"}},
		{{kind: "cursortoapi", i: 1}},
		{{kind: "cursortoapi", i: uint(n - 1)}},
		{{kind: "home"}, {kind: "delete"}},
		{{kind: "left"}, {kind: "backspace"}},
		{{kind: "home", variant: 1}, {kind: "right"}, {kind: "kill"}, {kind: "home"}},
	}
}

// lines the directed classes start from: narrow + wide + combining, words and separators,
// both spellings of one accented letter, a ZWJ sequence, a single cluster
var derivedTexts = []string{"a\u754ce\u0301b", "ab cd-1", "\u00e9x e\u0301\ud55c", "\U0001F469\u200d\U0001F467 x", "q"}

// Directed: the field holds X, the cursor is moved off the end (or the line is edited in the
// middle), then a programmatic edit / typed text arrives whose argument is X itself, a
// prefix or suffix of X, X extended, X in another normalisation form, X with another last
// cluster — also after Reset / Enter / killing the line (the old text put back) — and a
// character is typed afterwards, so a wrong cursor shows in the text as well.
func (g *gen) tfDerivedDirected(s *hx.Stream) {
	full := []derive{{how: "same"}, {how: "prefix", k: 1}, {how: "prefix", k: 3}, {how: "suffix", k: 1}, {how: "extend", extra: "\u4e16z"},
		{how: "prepend", extra: "-"}, {how: "norm"}, {how: "lastdiff", extra: "7"}, {how: "double"}}
	few := []derive{{how: "same"}, {how: "prefix", k: 2}, {how: "norm"}}
	last := func(ds []derive) []derive {
		out := make([]derive, len(ds))
		for i, d := range ds {
			d.last = true
			out[i] = d
		}
		return out
	}
	for ti, x := range derivedTexts {
		n := len(clustersOf(x))
		for mi, mot := range tfMotions(n) {
			fill := tfOp{kind: "insertapi", s: x}
			if (ti+mi)%2 == 1 {
				fill = tfOp{kind: "text", s: x, variant: mi % 3}
			}
			emit := func(mid func(d derive) []tfOp, ds []derive) {
				for _, d := range ds {
					ops := append([]tfOp{fill}, mot...)
					ops = append(ops, mid(d)...)
					ops = append(ops, tfOp{kind: "text", s: "z"}, tfOp{kind: "end"})
					g.runTF(s, ops, 200, true, "tf-derived-directed")
				}
			}
			emit(func(d derive) []tfOp { return []tfOp{{kind: "insertapi", dv: d}} }, full)
			emit(func(d derive) []tfOp { return []tfOp{{kind: "text", variant: mi % 3, dv: d}} }, few)
			emit(func(d derive) []tfOp { return []tfOp{{kind: "resetapi"}, {kind: "insertapi", dv: d}} }, last(few))
			emit(func(d derive) []tfOp {
				return []tfOp{{kind: "enter"}, {kind: "text", dv: d}, {kind: "left"}, {kind: "insertapi", dv: derive{how: "same"}}}
			}, last(few))
		}
	}
}

// Directed: modifier bits on key events.  A key with Text typed into the middle / at the
// start / at the end of a line with EVERY subset of Shift, CapsLock, NumLock, Meta, Hyper
// (press and repeat) must be inserted once at the cursor; every bound key keeps its meaning
// under Caps Lock / Num Lock (Key.Matches strips the lock bits).
func (g *gen) tfModsDirected(s *hx.Stream) {
	typed := []string{"C", "\u754c", "e\u0301", "ab", "7"}
	k := 0
	for _, x := range derivedTexts[:2] {
		for _, mot := range [][]tfOp{{}, {{kind: "left"}}, {{kind: "home"}}} {
			for _, m := range textMods() {
				ops := append([]tfOp{{kind: "insertapi", s: x}}, mot...)
				ops = append(ops, tfOp{kind: "text", s: typed[k%len(typed)], variant: k % 2, mods: m}, tfOp{kind: "text", s: "z"}, tfOp{kind: "end"})
				k++
				g.runTF(s, ops, 200, true, "tf-mods-directed")
			}
		}
	}
	for _, kind := range []string{"home", "end", "right", "left", "delete", "backspace", "kill", "enter"} {
		for v := 0; v < 2; v++ {
			if v == 1 && (kind == "kill" || kind == "enter") {
				continue
			}
			for _, m := range append(append([]vaxis.ModifierMask{}, lockMods...), vaxis.ModShift, vaxis.ModMeta|vaxis.ModNumLock, vaxis.ModHyper) {
				ops := []tfOp{{kind: "insertapi", s: derivedTexts[0]}, {kind: "cursortoapi", i: 2}, {kind: kind, variant: v, mods: m},
					{kind: "text", s: "z", mods: m}, {kind: kind, variant: v, mods: m}}
				g.runTF(s, ops, 200, true, "tf-mods-directed")
			}
		}
	}
}

func (g *gen) tfStream() (*hx.Stream, *hx.Stream) {
	s := hx.NewStream("textfield", "model.Editors", "tf_case", "c17_tf_mismatches", "c17_tf_violations")
	s.ShardMax = 400
	sl := hx.NewStream("textfield_long", "model.Editors", "tf_case", "c17_tf_mismatches", "c17_tf_violations")
	sl.ShardMax = 50
	r := g.cfg.Rand
	// hand-written: the histories of the two known defects and friends
	g.runTF(s, []tfOp{{kind: "text", s: "a"}, {kind: "text", s: "b"}, {kind: "backspace"}, {kind: "end"}}, 200, true, "tf-regress")
	g.runTF(s, []tfOp{{kind: "insertapi", s: "a\u4e16e\u0301"}, {kind: "home"}, {kind: "delete"}, {kind: "end"}, {kind: "left"}, {kind: "text", s: "x"}}, 200, true, "tf-regress")
	g.runTF(s, []tfOp{{kind: "insertapi", s: "abc"}, {kind: "cursortoapi", i: 1}, {kind: "kill"}, {kind: "end"}, {kind: "text", s: "z"}, {kind: "cursortoapi", i: 9}}, 200, true, "tf-regress")
	g.runTF(s, []tfOp{{kind: "text", s: "ab"}, {kind: "enter"}, {kind: "end"}, {kind: "text", s: "c"}}, 200, true, "tf-regress")
	g.tfDerivedDirected(s)
	g.tfModsDirected(s)
	// bounded-exhaustive over a 12-operation alphabet from three starting contents
	ex := []tfOp{{kind: "text", s: "b"}, {kind: "text", s: "\u754c"}, {kind: "text", s: "e\u0301"}, {kind: "left"}, {kind: "right", variant: 1},
		{kind: "home"}, {kind: "end", variant: 1}, {kind: "delete"}, {kind: "backspace"}, {kind: "kill"}, {kind: "enter"}, {kind: "cursortoapi", i: 2}}
	starts := [][]tfOp{
		{{kind: "insertapi", s: "a\u4e16\U0001F469\u200d\U0001F467"}, {kind: "cursortoapi", i: 1}},
		{},
		{{kind: "insertapi", s: "\U0001F1E6\U0001F1FAe\u0301 z"}},
	}
	// quick: depth 2 over the whole alphabet from every start and depth 3 over a core of 8
	// operations from the first; thorough: depth 4 / 3 over the whole alphabet
	core := []tfOp{ex[0], ex[1], ex[3], ex[4], ex[6], ex[7], ex[8], ex[9]}
	type plan struct {
		start int
		alpha []tfOp
		depth int
	}
	plans := []plan{{0, ex, 2}, {1, ex, 2}, {2, ex, 2}, {0, core, 3}}
	if g.cfg.Thorough() {
		plans = []plan{{0, ex, 4}, {1, ex, 3}, {2, ex, 3}}
	}
	seen := map[string]bool{}
	for _, pl := range plans {
		st := starts[pl.start]
		var rec func(prefix []tfOp, d int)
		rec = func(prefix []tfOp, d int) {
			if len(prefix) > 0 {
				ops := append(append([]tfOp{}, st...), prefix...)
				key := fmt.Sprint(pl.start, ops)
				if !seen[key] {
					seen[key] = true
					g.runTF(s, ops, 200, true, "tf-exhaustive")
				}
			}
			if d == 0 {
				return
			}
			for _, o := range pl.alpha {
				rec(append(append([]tfOp{}, prefix...), o), d-1)
			}
		}
		rec(nil, pl.depth)
	}
	// random histories over the boundary-stable alphabet
	nRand, maxLen := 300, 30
	if g.cfg.Thorough() {
		nRand, maxLen = 2000, 200
	}
	for i := 0; i < nRand; i++ {
		L := 3 + r.Intn(maxLen-2)
		if r.Intn(4) == 0 {
			L = 3 + r.Intn(10)
		}
		ops := make([]tfOp, 0, L)
		est := 0
		for j := 0; j < L; j++ {
			o := g.randTFOp(stableAlpha, est)
			if o.kind == "text" || o.kind == "insertapi" {
				est += 2
			}
			ops = append(ops, o)
			if r.Intn(10) == 0 && est < 60 {
				ops = append(ops, g.randTFDerived(stableAlpha)...)
				est += est + 3
			}
		}
		g.runTF(sl, ops, tfWidths[r.Intn(len(tfWidths))], true, "tf-random")
	}
	// histories over an alphabet that is NOT boundary-stable (lone combining marks, ZWJ,
	// regional indicators, CR/LF): model against code only
	both := append(append([]string{}, stableAlpha...), unstableExtra...)
	both = append(both, unstableExtra...)
	nUn := 120
	if g.cfg.Thorough() {
		nUn = 1000
	}
	for i := 0; i < nUn; i++ {
		L := 3 + r.Intn(25)
		ops := make([]tfOp, 0, L)
		for j := 0; j < L; j++ {
			o := g.randTFOp(both, 2*j)
			if r.Intn(25) == 0 {
				o = tfOp{kind: "setvalue", s: g.randText(both, 4)}
			}
			ops = append(ops, o)
			if r.Intn(12) == 0 && j < 12 {
				ops = append(ops, g.randTFDerived(both)...)
			}
		}
		g.runTF(sl, ops, tfWidths[r.Intn(len(tfWidths))], false, "tf-unstable")
	}
	return s, sl
}

// ============================================================ textinput

type tiOp struct {
	kind    string
	s       string
	w       int
	variant int
	dv      derive
	mods    vaxis.ModifierMask // extra modifier bits ORed into the key event (see tfOp.mods)
}

func (o tiOp) String() string {
	switch o.kind {
	case "text", "modtext", "pastechunk", "setcontent":
		return fmt.Sprintf("%s(%q)/%d%s%s", o.kind, o.s, o.variant, o.dv, modSuffix(o.mods))
	case "draw":
		return fmt.Sprintf("draw(%d)", o.w)
	}
	if o.variant != 0 {
		return fmt.Sprintf("%s/%d%s", o.kind, o.variant, modSuffix(o.mods))
	}
	return o.kind + modSuffix(o.mods)
}

var tiKeyCoq = map[string]string{"home": "IkHome", "end": "IkEnd", "right": "IkRight", "left": "IkLeft", "wordf": "IkWordF",
	"wordb": "IkWordB", "delete": "IkDelete", "killend": "IkKillEnd", "killstart": "IkKillStart",
	"backspace": "IkBackspace", "killword": "IkKillWord"}

func (o tiOp) coq() string {
	// a key event with extra modifier bits: the real masks are shipped and the model decides
	// what the key is (model/EditorKeys.v: ti_typed, ti_bound)
	if k, ok := tiKeyCoq[o.kind]; ok {
		if o.mods != 0 {
			k0 := o.event0().(vaxis.Key)
			return "(OEv (ti_bound " + hx.Z(int64(k0.Modifiers)) + " " + hx.Z(int64(o.mods)) + " " + hx.Bool(k0.Keycode >= 'a' && k0.Keycode <= 'z') + " " + k + "))"
		}
		return "(OEv (EKey " + k + "))"
	}
	switch o.kind {
	case "text":
		if o.mods != 0 {
			return "(OEv (ti_typed " + hx.Z(int64(o.event().(vaxis.Key).Modifiers)) + " " + coqText(o.s) + "))"
		}
		return "(OEv (EDefault false " + coqText(o.s) + "))"
	case "modtext":
		return "(OEv (ti_typed " + hx.Z(int64(o.event().(vaxis.Key).Modifiers)) + " " + coqText(o.s) + "))"
	case "notext":
		return "(OEv (EDefault false []))"
	case "release":
		return "(OEv ERelease)"
	case "pastechunk":
		return "(OEv (EPasteChunk " + coqText(o.s) + "))"
	case "pasteend":
		return "(OEv EPasteEnd)"
	case "other":
		return "(OEv EOther)"
	case "setcontent":
		return "(OSetContent " + coqText(o.s) + ")"
	case "draw":
		return "(ODraw " + hx.Z(int64(o.w)) + ")"
	}
	panic("tiOp " + o.kind)
}

func (o tiOp) event() vaxis.Event { return withMods(o.event0(), o.mods) }

func (o tiOp) event0() vaxis.Event {
	switch o.kind {
	case "text":
		k := vaxis.Key{Keycode: firstRune(o.s), Text: o.s}
		switch o.variant {
		case 1:
			k.EventType = vaxis.EventRepeat
		case 2: // a shifted key: String() is "Shift+..." which is not a bound name
			k.Modifiers = vaxis.ModShift
		}
		return k
	case "modtext":
		mods := []vaxis.ModifierMask{vaxis.ModCtrl, vaxis.ModAlt, vaxis.ModSuper, vaxis.ModCtrl | vaxis.ModShift}
		// keycodes chosen so that String() is not a bound name
		return vaxis.Key{Keycode: 'x', Text: o.s, Modifiers: mods[o.variant%len(mods)]}
	case "notext":
		return vaxis.Key{Keycode: vaxis.KeyF05}
	case "home":
		return namedOrCtrl(o.variant, vaxis.KeyHome, 'a')
	case "end":
		return namedOrCtrl(o.variant, vaxis.KeyEnd, 'e')
	case "right":
		return namedOrCtrl(o.variant, vaxis.KeyRight, 'f')
	case "left":
		return namedOrCtrl(o.variant, vaxis.KeyLeft, 'b')
	case "wordf":
		if o.variant == 1 {
			return vaxis.Key{Keycode: 'f', Modifiers: vaxis.ModAlt}
		}
		return vaxis.Key{Keycode: vaxis.KeyRight, Modifiers: vaxis.ModCtrl}
	case "wordb":
		if o.variant == 1 {
			return vaxis.Key{Keycode: 'b', Modifiers: vaxis.ModAlt}
		}
		return vaxis.Key{Keycode: vaxis.KeyLeft, Modifiers: vaxis.ModCtrl}
	case "delete":
		return namedOrCtrl(o.variant, vaxis.KeyDelete, 'd')
	case "killend":
		return vaxis.Key{Keycode: 'k', Modifiers: vaxis.ModCtrl}
	case "killstart":
		return vaxis.Key{Keycode: 'u', Modifiers: vaxis.ModCtrl}
	case "backspace":
		return namedOrCtrl(o.variant, vaxis.KeyBackspace, 'h')
	case "killword":
		return vaxis.Key{Keycode: 'w', Modifiers: vaxis.ModCtrl}
	case "release":
		return vaxis.Key{Keycode: 'a', Text: "a", EventType: vaxis.EventRelease}
	case "pastechunk":
		return vaxis.Key{Keycode: firstRune(o.s), Text: o.s, EventType: vaxis.EventPaste}
	case "pasteend":
		return vaxis.PasteEndEvent{}
	case "other":
		if o.variant == 1 {
			return vaxis.FocusIn{}
		}
		return vaxis.PasteStartEvent{}
	}
	panic("tiOp event " + o.kind)
}

func isAlnumRune(r rune) bool { return unicode.IsLetter(r) || unicode.IsNumber(r) }

func (g *gen) runTI(s *hx.Stream, prompt string, ops []tiOp, stable bool, tags ...string) {
	var steps []string
	var jsOps, jsObs []string
	alnum := map[rune]bool{}
	note := func(cs []vaxis.Character) {
		for _, c := range cs {
			rs := []rune(c.Grapheme)
			if len(rs) == 1 && isAlnumRune(rs[0]) {
				alnum[rs[0]] = true
			}
		}
	}
	nontrivial := false
	m := textinput.New()
	m.SetPrompt(prompt)
	pw := 0
	for _, c := range chars(prompt) {
		pw += c.Width
	}
	root := g.vx.Window()
	paste := ""
	lastNonEmpty := ""
	for _, o := range ops {
		if o.kind == "draw" && g.hangs >= 2 && o.w != 0 && o.w <= pw+4 {
			g.skippedDraws++
			continue
		}
		if o.dv.how != "" {
			o.s = o.dv.of(m.String(), lastNonEmpty)
			if o.s == "" && o.kind != "setcontent" { // a key event without Text is not an insertion
				o = tiOp{kind: "notext"}
			}
		}
		tbl := "[]"
		outcome := int64(0)
		shown := int64(-1)
		preStr, preCur, preOff := m.String(), m.CursorPosition(), m.VerifOffset()
		switch o.kind {
		case "setcontent":
			cs := chars(o.s)
			note(cs)
			tbl = hx.List([]string{hx.Tuple(coqText(o.s), coqCls(cs))})
			if p, _ := hx.Catch(func() { m.SetContent(o.s) }); p {
				outcome = 1
			}
		case "draw":
			win := root.New(0, 0, o.w, 1)
			g.vx.HideCursor()
			var panicked bool
			mm := m
			ok := hx.WithTimeout(2*time.Second, func() { panicked, _ = hx.Catch(func() { mm.Draw(win) }) })
			switch {
			case !ok:
				outcome = 2
				g.hangs++
			case panicked:
				outcome = 1
			default:
				if c := g.vx.VerifCursorNext(); c.Visible {
					shown = int64(c.Col)
				}
			}
		default:
			switch o.kind {
			case "text":
				cs := chars(o.s)
				note(cs)
				tbl = hx.List([]string{hx.Tuple(coqText(o.s), coqCls(cs))})
			case "pastechunk":
				paste += o.s
			case "pasteend":
				cs := chars(paste)
				note(cs)
				tbl = hx.List([]string{hx.Tuple(coqText(paste), coqCls(cs))})
				paste = ""
			}
			ev := o.event()
			if p, _ := hx.Catch(func() { m.Update(ev) }); p {
				outcome = 1
			}
		}
		jsOps = append(jsOps, o.String())
		if outcome == 2 {
			// the widget is still spinning inside Draw: nothing may be read from it
			steps = append(steps, hx.Tuple(o.coq(), tbl, hx.Tuple("[]", "0", "0", "2", "(-1)", "true")))
			jsObs = append(jsObs, "Draw did not return within 2s")
			break
		}
		content := append([]vaxis.Character{}, m.Characters()...)
		reseg := sameChars(chars(m.String()), content)
		if len(content) > 0 {
			lastNonEmpty = m.String()
		}
		obs := hx.Tuple(coqCls(content), hx.Z(int64(m.CursorPosition())), hx.Z(int64(m.VerifOffset())),
			hx.Z(outcome), hx.Z(shown), hx.Bool(reseg))
		steps = append(steps, hx.Tuple(o.coq(), tbl, obs))
		jsObs = append(jsObs, fmt.Sprintf("%q cur=%d off=%d out=%d shown=%d reseg=%v", m.String(), m.CursorPosition(), m.VerifOffset(), outcome, shown, reseg))
		switch o.kind {
		case "setcontent":
			if o.dv.how != "" && preCur < len(chars(preStr)) {
				nontrivial = true
			}
		case "wordf", "wordb", "killword":
			if m.String() != preStr || m.CursorPosition() != preCur {
				nontrivial = true
			}
		case "draw":
			if m.VerifOffset() != preOff || m.VerifOffset() > 0 {
				nontrivial = true
			}
		case "delete", "backspace", "killend", "killstart", "pasteend":
			if m.String() != preStr {
				nontrivial = true
			}
		}
		if outcome != 0 {
			break
		}
	}
	var al []int64
	for r := range alnum {
		al = append(al, int64(r))
	}
	// canonical order
	for i := range al {
		for j := i + 1; j < len(al); j++ {
			if al[j] < al[i] {
				al[i], al[j] = al[j], al[i]
			}
		}
	}
	js := map[string]interface{}{"widget": "textinput", "prompt": prompt, "stable": stable, "ops": jsOps, "observed": jsObs, "gen": strings.Join(tags, ",")}
	s.Add(hx.Tuple(coqCls(chars(prompt)), hx.ZList(al), hx.Bool(stable), hx.List(steps)), js, nontrivial, tags...)
}

var tiWidths = []int{0, 1, 2, 3, 4, 5, 6, 7, 8, 9, 10, 12, 15, 20, 20, 30, 40, 80, 150}
var tiPrompts = []string{"", "", "> ", "\u4e16:", "e\u0301 "}

// random operations; a typed text arrives with a random subset of Shift / CapsLock / NumLock /
// Meta / Hyper one time in three, a chord with Text with extra bits every other time, a bound
// key with lock state one time in five
func (g *gen) randTIOp(alpha []string, unstable bool) []tiOp {
	ops := g.randTIOp0(alpha, unstable)
	for i := range ops {
		ops[i] = g.tiDecorate(ops[i])
	}
	return ops
}

func (g *gen) tiDecorate(o tiOp) tiOp {
	r := g.cfg.Rand
	switch o.kind {
	case "text":
		if r.Intn(3) == 0 {
			o.mods = g.randTextMods()
		}
	case "modtext":
		if r.Intn(2) == 0 {
			o.mods = g.randTextMods()
		}
	default:
		if _, ok := tiKeyCoq[o.kind]; ok && r.Intn(5) == 0 {
			o.mods = navMods[r.Intn(len(navMods))]
		}
	}
	return o
}

func (g *gen) randTIOp0(alpha []string, unstable bool) []tiOp {
	r := g.cfg.Rand
	x := r.Intn(100)
	v2 := r.Intn(2)
	one := func(o tiOp) []tiOp { return []tiOp{o} }
	switch {
	case x < 28:
		return one(tiOp{kind: "text", s: g.randText(alpha, 3), variant: r.Intn(3)})
	case x < 30:
		return one(tiOp{kind: "modtext", s: g.randText(alpha, 1), variant: r.Intn(4)})
	case x < 31:
		return one(tiOp{kind: "notext"})
	case x < 39:
		return one(tiOp{kind: "left", variant: v2})
	case x < 45:
		return one(tiOp{kind: "right", variant: v2})
	case x < 48:
		return one(tiOp{kind: "home", variant: v2})
	case x < 51:
		return one(tiOp{kind: "end", variant: v2})
	case x < 56:
		return one(tiOp{kind: "wordf", variant: v2})
	case x < 62:
		return one(tiOp{kind: "wordb", variant: v2})
	case x < 67:
		return one(tiOp{kind: "delete", variant: v2})
	case x < 73:
		return one(tiOp{kind: "backspace", variant: v2})
	case x < 75:
		return one(tiOp{kind: "killend"})
	case x < 77:
		return one(tiOp{kind: "killstart"})
	case x < 81:
		return one(tiOp{kind: "killword"})
	case x < 82:
		return one(tiOp{kind: "release"})
	case x < 83:
		return one(tiOp{kind: "other", variant: v2})
	case x < 84:
		return one(tiOp{kind: "pasteend"}) // stray
	case x < 88:
		// a bracketed paste
		out := []tiOp{{kind: "other"}}
		for k := 1 + r.Intn(3); k > 0; k-- {
			c := g.randText(alpha, 3)
			if unstable && r.Intn(2) == 0 {
				// split a chunk in the middle of a code-point sequence
				rs := []rune(c)
				if len(rs) > 1 {
					cut := 1 + r.Intn(len(rs)-1)
					out = append(out, tiOp{kind: "pastechunk", s: string(rs[:cut])})
					c = string(rs[cut:])
				}
			}
			out = append(out, tiOp{kind: "pastechunk", s: c})
		}
		return append(out, tiOp{kind: "pasteend"})
	case x < 89:
		return one(tiOp{kind: "setcontent", s: g.randText(alpha, 12)})
	case x < 93:
		return g.randTIDerived(alpha)
	default:
		return one(tiOp{kind: "draw", w: tiWidths[r.Intn(len(tiWidths))]})
	}
}

// a programmatic edit (or a typed / pasted text) whose argument is derived from the
// field's own text; "empty the field, then the old text again" comes as two operations
func (g *gen) randTIDerived(alpha []string) []tiOp {
	r := g.cfg.Rand
	d := g.randDerive(alpha)
	switch r.Intn(8) {
	case 0, 1, 2:
		return []tiOp{{kind: "setcontent", dv: d}}
	case 3:
		return []tiOp{{kind: "text", variant: r.Intn(3), dv: d}}
	case 4:
		return []tiOp{{kind: "other"}, {kind: "pastechunk", dv: d}, {kind: "pasteend"}}
	case 5:
		d.last = true
		return []tiOp{{kind: "setcontent", s: ""}, {kind: "setcontent", dv: d}}
	case 6:
		d.last = true
		return []tiOp{{kind: "killstart"}, {kind: "killend"}, {kind: "setcontent", dv: d}}
	default:
		d.last = true
		return []tiOp{{kind: "home"}, {kind: "killend"}, {kind: "text", dv: d}}
	}
}

// cursor motions and deletions that leave the cursor somewhere inside the line
func tiMotions() [][]tiOp {
	return [][]tiOp{
		{},
		{{kind: "left"}},
		{{kind: "left", variant: 1}, {kind: "left"}},
		{{kind: "home"}},
		{{kind: "wordb"}},
		{{kind: "home", variant: 1}, {kind: "wordf", variant: 1}},
		{{kind: "home"}, {kind: "delete"}},
		{{kind: "left"}, {kind: "backspace"}},
		{{kind: "wordb", variant: 1}, {kind: "killword"}},
	}
}

// Directed: the field holds X, the cursor is moved off the end (or the line is edited in the
// middle), then SetContent / a typed text / a bracketed paste arrives whose argument is X
// itself, a prefix or suffix of X, X extended, X in another normalisation form, X with
// another last cluster — also after the field was emptied (the old text put back) — and a
// character is typed afterwards and the line drawn, so a wrong cursor shows in the text
// and in the drawn column as well.
func (g *gen) tiDerivedDirected(s *hx.Stream) {
	full := []derive{{how: "same"}, {how: "prefix", k: 1}, {how: "prefix", k: 3}, {how: "prefix", k: 0}, {how: "suffix", k: 1}, {how: "extend", extra: "\u4e16z"},
		{how: "prepend", extra: "-"}, {how: "norm"}, {how: "lastdiff", extra: "7"}, {how: "double"}}
	few := []derive{{how: "same"}, {how: "prefix", k: 2}, {how: "norm"}}
	last := func(ds []derive) []derive {
		out := make([]derive, len(ds))
		for i, d := range ds {
			d.last = true
			out[i] = d
		}
		return out
	}
	for ti, x := range derivedTexts {
		for mi, mot := range tiMotions() {
			fill := tiOp{kind: "setcontent", s: x}
			if (ti+mi)%2 == 1 {
				fill = tiOp{kind: "text", s: x, variant: mi % 3}
			}
			emit := func(mid func(d derive) []tiOp, ds []derive) {
				for _, d := range ds {
					ops := append([]tiOp{fill}, mot...)
					ops = append(ops, mid(d)...)
					ops = append(ops, tiOp{kind: "text", s: "z"}, tiOp{kind: "draw", w: 40})
					g.runTI(s, []string{"", "> "}[mi%2], ops, true, "ti-derived-directed")
				}
			}
			emit(func(d derive) []tiOp { return []tiOp{{kind: "setcontent", dv: d}} }, full)
			emit(func(d derive) []tiOp {
				return []tiOp{{kind: "setcontent", dv: d}, {kind: "left"}, {kind: "setcontent", dv: derive{how: "same"}}}
			}, few)
			emit(func(d derive) []tiOp { return []tiOp{{kind: "text", variant: mi % 3, dv: d}} }, few)
			emit(func(d derive) []tiOp { return []tiOp{{kind: "other"}, {kind: "pastechunk", dv: d}, {kind: "pasteend"}} }, few)
			emit(func(d derive) []tiOp {
				return []tiOp{{kind: "setcontent", s: ""}, {kind: "setcontent", dv: d}, {kind: "home"}, {kind: "setcontent", dv: derive{how: "same"}}}
			}, last(few))
		}
	}
}

// Directed: modifier bits on key events.  A key with Text typed into the middle / at the
// start / at the end of a line with EVERY subset of Shift, CapsLock, NumLock, Meta, Hyper
// (press and repeat) is inserted once at the cursor (Update's default branch refuses only
// Ctrl / Alt / Super); a chord with Text stays a chord whatever else is set; every bound key
// under Num Lock keeps its meaning, under Caps Lock the named keys do and the Ctrl/Alt+letter
// bindings do nothing; Shift, Meta or Hyper on a bound key make it another, unbound key (model/EditorKeys.v: ti_bound).
func (g *gen) tiModsDirected(s *hx.Stream) {
	typed := []string{"C", "\u754c", "e\u0301", "ab", "7"}
	k := 0
	for _, x := range derivedTexts[:2] {
		for mi, mot := range [][]tiOp{{}, {{kind: "left"}}, {{kind: "home"}}} {
			for _, m := range textMods() {
				ops := append([]tiOp{{kind: "setcontent", s: x}}, mot...)
				ops = append(ops, tiOp{kind: "text", s: typed[k%len(typed)], variant: k % 2, mods: m}, tiOp{kind: "text", s: "z"}, tiOp{kind: "draw", w: 40})
				k++
				g.runTI(s, []string{"", "> "}[mi%2], ops, true, "ti-mods-directed")
			}
		}
	}
	extra := append([]vaxis.ModifierMask{vaxis.ModMeta, vaxis.ModHyper | vaxis.ModCapsLock, vaxis.ModShift | vaxis.ModNumLock}, lockMods...)
	for v := 0; v < 4; v++ {
		for _, m := range extra {
			ops := []tiOp{{kind: "setcontent", s: derivedTexts[1]}, {kind: "left"}, {kind: "modtext", s: "q", variant: v, mods: m},
				{kind: "text", s: "z", mods: m}, {kind: "draw", w: 40}}
			g.runTI(s, "", ops, true, "ti-mods-directed")
		}
	}
	for _, kind := range []string{"home", "end", "right", "left", "wordf", "wordb", "delete", "backspace", "killend", "killstart", "killword"} {
		for v := 0; v < 2; v++ {
			if v == 1 && (kind == "killend" || kind == "killstart" || kind == "killword") {
				continue
			}
			for _, m := range append(append([]vaxis.ModifierMask{}, lockMods...), vaxis.ModShift, vaxis.ModMeta|vaxis.ModNumLock, vaxis.ModHyper) {
				ops := []tiOp{{kind: "setcontent", s: derivedTexts[1]}, {kind: "left"}, {kind: "left"}, {kind: kind, variant: v, mods: m},
					{kind: "text", s: "z", mods: m}, {kind: kind, variant: v, mods: m}, {kind: "draw", w: 40}}
				g.runTI(s, "", ops, true, "ti-mods-directed")
			}
		}
	}
}

// exactly n clusters of the alphabet
func (g *gen) textN(alpha []string, n int) string {
	var b strings.Builder
	for i := 0; i < n; i++ {
		b.WriteString(g.pick(alpha))
	}
	return b.String()
}

// n clusters entering the field with no frame in between: SetContent (replaces), a
// bracketed paste in 1..3 chunks, one key event carrying the whole text, or n key events
func (g *gen) fillOps(alpha []string, n int, how int) []tiOp {
	r := g.cfg.Rand
	switch how % 4 {
	case 0:
		return []tiOp{{kind: "setcontent", s: g.textN(alpha, n)}}
	case 1:
		out := []tiOp{{kind: "other"}}
		for left, k := n, 1+r.Intn(3); left > 0; k-- {
			c := left
			if k > 1 {
				c = 1 + r.Intn(left)
			}
			out = append(out, tiOp{kind: "pastechunk", s: g.textN(alpha, c)})
			left -= c
		}
		return append(out, tiOp{kind: "pasteend"})
	case 2:
		if n == 0 {
			return nil
		}
		return []tiOp{{kind: "text", s: g.textN(alpha, n)}}
	default:
		var out []tiOp
		for i := 0; i < n; i++ {
			out = append(out, tiOp{kind: "text", s: g.pick(alpha), variant: r.Intn(3)})
		}
		return out
	}
}

// operations that bring the cursor to (or near) the start of the line or empty the field
func (g *gen) rewindOps(which int) []tiOp {
	r := g.cfg.Rand
	rep := func(kind string, n int) []tiOp {
		var out []tiOp
		for i := 0; i < n; i++ {
			out = append(out, tiOp{kind: kind, variant: r.Intn(2)})
		}
		return out
	}
	switch which % 8 {
	case 0:
		return []tiOp{{kind: "killstart"}}
	case 1:
		return []tiOp{{kind: "setcontent", s: ""}}
	case 2:
		return []tiOp{{kind: "home", variant: r.Intn(2)}}
	case 3:
		return []tiOp{{kind: "home"}, {kind: "killend"}}
	case 4:
		return rep("killword", 1+r.Intn(6))
	case 5:
		return rep("wordb", 1+r.Intn(6))
	case 6:
		return rep("backspace", 1+r.Intn(40))
	default:
		return rep("left", 1+r.Intn(40))
	}
}

// Frame histories: ONE model drawn several times.  The scroll offset survives between
// frames, so what a frame shows depends on the frames before it: a line that scrolled, then
// an operation that rewinds the cursor or empties the field, a frame (or none) in that
// state, then material that arrives with no frame in between, then a frame in which
// everything fits (or not).
func (g *gen) frameHistory(alpha []string, prompt string) []tiOp {
	r := g.cfg.Rand
	pw := 0
	for _, c := range chars(prompt) {
		pw += c.Width
	}
	var ops []tiOp
	w := pw + 5 + r.Intn(40)
	for round := 1 + r.Intn(3); round > 0; round-- {
		if r.Intn(3) == 0 {
			w = pw + 5 + r.Intn(40)
		}
		ops = append(ops, g.fillOps(alpha, r.Intn(w+25), r.Intn(4))...)
		if r.Intn(3) == 0 {
			ops = append(ops, g.randTIOp(alpha, false)...)
		}
		ops = append(ops, tiOp{kind: "draw", w: w})
		ops = append(ops, g.rewindOps(r.Intn(8))...)
		switch r.Intn(6) {
		case 0: // no frame in the rewound state
		case 1:
			ops = append(ops, tiOp{kind: "draw", w: tiWidths[r.Intn(len(tiWidths))]})
		default:
			ops = append(ops, tiOp{kind: "draw", w: w})
		}
		ops = append(ops, g.fillOps(alpha, r.Intn(w-pw+2), r.Intn(4))...)
		if r.Intn(4) == 0 {
			ops = append(ops, tiOp{kind: "end", variant: r.Intn(2)})
		}
		if r.Intn(4) == 0 {
			ops = append(ops, tiOp{kind: "draw", w: tiWidths[r.Intn(len(tiWidths))]})
		} else {
			ops = append(ops, tiOp{kind: "draw", w: w})
		}
	}
	return ops
}

func (g *gen) tiStream() (*hx.Stream, *hx.Stream) {
	s := hx.NewStream("textinput", "model.Editors", "ti_case", "c17_ti_mismatches", "c17_ti_violations")
	s.ShardMax = 400
	sl := hx.NewStream("textinput_long", "model.Editors", "ti_case", "c17_ti_mismatches", "c17_ti_violations")
	sl.ShardMax = 50
	// violations = the property as stated (cursor column = width before the cursor whenever
	// prompt + text fit); cases that fail it only under the guard of the recorded finding
	// are reported as KNOWN-FINDING
	for _, st := range []*hx.Stream{s, sl} {
		st.Known = "c17_ti_known"
		st.KnownClass = "textinput-sticky-offset"
	}
	// corpus of the finding, generated on every run: (a) the offset is sticky, (b) the
	// 4-column scroll margin applies with the cursor at the end of a text that fits
	g.runTI(s, "", []tiOp{{kind: "text", s: "aaaaaaaaaaaaaaaaaaaa"}, {kind: "draw", w: 10}, {kind: "draw", w: 80}}, true, "ti-finding-corpus")
	g.runTI(s, "", []tiOp{{kind: "text", s: "aaaaaaa"}, {kind: "draw", w: 10}}, true, "ti-finding-corpus")
	r := g.cfg.Rand
	// hand-written: Draw in windows at most 4 columns wider than the prompt (the hang), and
	// scrolling back and forth
	for _, w := range []int{1, 3, 4, 5, 6} {
		g.runTI(s, "", []tiOp{{kind: "text", s: "hello world"}, {kind: "draw", w: w}}, true, "ti-regress")
	}
	g.runTI(s, "> ", []tiOp{{kind: "draw", w: 6}, {kind: "text", s: "ab"}, {kind: "draw", w: 6}, {kind: "draw", w: 7}}, true, "ti-regress")
	g.runTI(s, "", []tiOp{{kind: "setcontent", s: "0123456789abcdefghij"}, {kind: "draw", w: 10}, {kind: "home"}, {kind: "draw", w: 10},
		{kind: "end"}, {kind: "draw", w: 10}, {kind: "draw", w: 80}, {kind: "killword"}, {kind: "draw", w: 80}}, true, "ti-regress")
	g.runTI(s, "", []tiOp{{kind: "setcontent", s: "ab \u4e16\u754c-cd  e\u0301f"}, {kind: "wordb"}, {kind: "wordb"}, {kind: "wordb"}, {kind: "wordb"}, {kind: "wordb"},
		{kind: "wordf"}, {kind: "wordf"}, {kind: "wordf"}, {kind: "wordf"}, {kind: "killword"}, {kind: "killword"}, {kind: "killword"}}, true, "ti-regress")
	g.tiDerivedDirected(s)
	g.tiModsDirected(s)
	// directed frame histories: a line wider than the window is drawn (the view scrolls), the
	// cursor is rewound / the field emptied in every way the widget offers, that state is drawn
	// or not, k graphemes arrive with no frame in between in every way the widget offers, and
	// the result is drawn: k + margin fits the window, just fits, or does not
	for _, w := range []int{12, 40} {
		for rw := 0; rw < 8; rw++ {
			for how := 0; how < 4; how++ {
				for _, frame := range []bool{true, false} {
					k := []int{w - 10, w - 6, w - 5, w - 2}[(rw+how)%4]
					ops := []tiOp{{kind: "setcontent", s: g.textN([]string{"a", "b", "1", " ", "-"}, w+20)}, {kind: "draw", w: w}}
					ops = append(ops, g.rewindOps(rw)...)
					if frame {
						ops = append(ops, tiOp{kind: "draw", w: w})
					}
					ops = append(ops, g.fillOps([]string{"a", "b", "1", " ", "-"}, k, how)...)
					ops = append(ops, tiOp{kind: "draw", w: w})
					g.runTI(s, []string{"", "> "}[rw%2], ops, true, "ti-frames-directed")
				}
			}
		}
	}
	// bounded-exhaustive over a 14-operation alphabet from three starting contents
	ex := []tiOp{{kind: "text", s: "b"}, {kind: "text", s: "\u754c"}, {kind: "text", s: "-"}, {kind: "left"}, {kind: "right", variant: 1},
		{kind: "home"}, {kind: "end", variant: 1}, {kind: "wordf"}, {kind: "wordb", variant: 1}, {kind: "delete"}, {kind: "backspace"},
		{kind: "killend"}, {kind: "killstart"}, {kind: "killword"}}
	starts := [][]tiOp{
		{{kind: "setcontent", s: "ab \u4e16-1"}, {kind: "left"}, {kind: "left"}, {kind: "left"}},
		{},
		// a ZWJ sequence (first code point not a letter) and multi-code-point clusters whose FIRST
		// code point is a letter, next to a word and on their own: all are separators for the word operations
		{{kind: "setcontent", s: "\U0001F469\u200d\U0001F467 xe\u0301 e\u0301"}},
	}
	core := []tiOp{ex[0], ex[2], ex[3], ex[5], ex[7], ex[8], ex[9], ex[10], ex[13]}
	type plan struct {
		start int
		alpha []tiOp
		depth int
	}
	plans := []plan{{0, ex, 2}, {1, ex, 2}, {2, ex, 2}, {0, core, 3}}
	if g.cfg.Thorough() {
		plans = []plan{{0, ex, 3}, {1, ex, 3}, {2, ex, 3}, {0, core, 4}}
	}
	seen := map[string]bool{}
	for _, pl := range plans {
		st := starts[pl.start]
		var rec func(prefix []tiOp, d int)
		rec = func(prefix []tiOp, d int) {
			if len(prefix) > 0 {
				ops := append(append([]tiOp{}, st...), prefix...)
				ops = append(ops, tiOp{kind: "draw", w: 40})
				key := fmt.Sprint(pl.start, ops)
				if !seen[key] {
					seen[key] = true
					g.runTI(s, "", ops, true, "ti-exhaustive")
				}
			}
			if d == 0 {
				return
			}
			for _, o := range pl.alpha {
				rec(append(append([]tiOp{}, prefix...), o), d-1)
			}
		}
		rec(nil, pl.depth)
	}
	// random histories
	nRand, maxLen := 300, 30
	if g.cfg.Thorough() {
		nRand, maxLen = 2000, 200
	}
	mk := func(alpha []string, L int, unstable bool) []tiOp {
		var ops []tiOp
		for len(ops) < L {
			ops = append(ops, g.randTIOp(alpha, unstable)...)
		}
		return ops
	}
	for i := 0; i < nRand; i++ {
		L := 3 + r.Intn(maxLen-2)
		if r.Intn(4) == 0 {
			L = 3 + r.Intn(10)
		}
		g.runTI(sl, tiPrompts[r.Intn(len(tiPrompts))], mk(stableAlpha, L, false), true, "ti-random")
	}
	// Draw-heavy histories: long contents, every motion followed by a Draw at a random width
	nDraw := 120
	if g.cfg.Thorough() {
		nDraw = 1200
	}
	for i := 0; i < nDraw; i++ {
		ops := []tiOp{{kind: "setcontent", s: g.randText(stableAlpha, 30)}}
		w := tiWidths[r.Intn(len(tiWidths))]
		for j := 3 + r.Intn(20); j > 0; j-- {
			ops = append(ops, g.randTIOp(stableAlpha, false)...)
			if r.Intn(3) == 0 {
				w = tiWidths[r.Intn(len(tiWidths))]
			}
			ops = append(ops, tiOp{kind: "draw", w: w})
		}
		g.runTI(sl, tiPrompts[r.Intn(len(tiPrompts))], ops, true, "ti-draw")
	}
	// random frame histories (see frameHistory), half of them over narrow clusters only so
	// that cluster counts and columns coincide
	nFrames := 160
	if g.cfg.Thorough() {
		nFrames = 1600
	}
	narrow := []string{"a", "b", "Z", "1", "7", " ", "-", ".", "\u00e9"}
	for i := 0; i < nFrames; i++ {
		alpha := stableAlpha
		if i%2 == 0 {
			alpha = narrow
		}
		pr := tiPrompts[r.Intn(len(tiPrompts))]
		g.runTI(sl, pr, g.frameHistory(alpha, pr), true, "ti-frames")
	}
	// not boundary-stable (and tabs, which vaxis.Characters expands): model against code
	both := append(append([]string{}, stableAlpha...), unstableExtra...)
	both = append(both, unstableExtra...)
	both = append(both, "\t")
	nUn := 120
	if g.cfg.Thorough() {
		nUn = 1000
	}
	for i := 0; i < nUn; i++ {
		g.runTI(sl, tiPrompts[r.Intn(len(tiPrompts))], mk(both, 3+r.Intn(25), true), false, "ti-unstable")
	}
	return s, sl
}

func main() {
	os.Unsetenv("COLORTERM")
	cfg := hx.ParseFlags()
	checkStable(cfg)
	fc := hx.NewFakeConsole(hx.ProfileFromMask(0, 3, 200))
	vx, err := vaxis.New(vaxis.Options{WithConsole: fc, NoSignals: true})
	if err != nil {
		panic(err)
	}
	g := &gen{cfg: cfg, vx: vx}
	tf, tfl := g.tfStream()
	ti, til := g.tiStream()
	streams := []*hx.Stream{tf, tfl, ti, til}
	for _, st := range streams {
		st.Imports = dictImports()
	}
	extra := map[string]interface{}{"draw_hangs": g.hangs, "narrow_draws_skipped_after_two_hangs": g.skippedDraws,
		"stable_alphabet": stableAlpha, "unstable_extra": unstableExtra}
	cfg.Write("C17", "operation histories on a fresh TextField / textinput.Model, driven with real vaxis.Key, paste and other events and the exported methods; "+
		"hand-written regressions, bounded-exhaustive sequences over a 12/14-operation alphabet from three starting contents, random histories over a boundary-stable cluster alphabet "+
		"(narrow, wide, combining, ZWJ, flags, modifiers, jamo), Draw at widths 0..150 with several prompts, frame histories on one model (a line that scrolled, the cursor rewound or the field emptied by every "+
		"operation that can do it, that state drawn or not, material arriving by SetContent / paste / keys with no frame in between, then a frame in which it fits or not; directed and random), "+
		"programmatic edits and typed / pasted texts whose argument is derived from the text the widget holds at that moment (the same text, a prefix, a suffix, the text extended / prepended / doubled, "+
		"the same line in the other normalisation form, another last cluster; from the current text or from the last non-empty one after Reset / Enter / emptying the field) after cursor motions and mid-line deletions, "+
		"for SetContent, InsertStringAtCursor, key events and bracketed pastes on both widgets (directed over 5 lines x 9 motions, and inside every random history), "+
		"modifier bits on key events for both widgets: keys with Text under every subset of Shift / CapsLock / NumLock / Meta / Hyper (all typed), chords with Text plus such bits (textinput: not typed), "+
		"every bound key under Caps Lock / Num Lock (directed at three cursor positions of two lines, and inside every random history), "+
		"and histories over a NOT boundary-stable alphabet (model-vs-code only); "+
		"non-trivial = a deletion/word operation/paste that changed the text or cursor, an insertion before the end (TextField), a derived SetContent with the cursor off the end, or a Draw that scrolled",
		streams, extra, g.direct)
	if g.hangs == 0 {
		hx.WithTimeout(2*time.Second, vx.Close)
	}
}
