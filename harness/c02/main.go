// Harness for C02: byte streams -> real ansi.Parser under several read
// chunkings -> canonical item lists, written as Coq cases.
package main

import (
	"fmt"
	"time"
	"unicode/utf8"

	"verif/harness/hx"
	"verif/harness/parsehx"
)

type caseJSON struct {
	Bytes     []int          `json:"bytes"`
	Chunking  string         `json:"chunking"`
	Items     []parsehx.Item `json:"items"`
	Class     string         `json:"class,omitempty"`
	Generator string         `json:"generator"`
}

// plainText: valid UTF-8 without ESC, CAN, SUB, DEL or C1 code points.  Only such streams are judged
// for segmentation: a raw invalid byte comes back as a code point of its own, and a cancelled
// sequence separates two Prints without delivering anything.
func plainText(b []byte) bool {
	if !utf8.Valid(b) {
		return false
	}
	for _, r := range string(b) {
		if r == 0x1b || r == 0x18 || r == 0x1a || (r >= 0x7f && r <= 0x9f) {
			return false
		}
	}
	return true
}

func main() {
	cfg := hx.ParseFlags()
	s := hx.NewStream("stream", "model.Parser model.ParserCheck", "pcase", "c02_mismatches", "c02_violations")
	s.Known = "c02_known"
	s.KnownClass = "empty-string-st"
	var direct []hx.DirectViolation
	chunkDisagreements := 0
	clusterProblems := 0
	runs := 0

	try := func(stream []byte, gen string, nontriv bool) {
		chs := parsehx.Chunkings(cfg.Rand, stream, 3)
		seen := map[string]bool{}
		for ci, ch := range chs {
			var res parsehx.Result
			var term string
			// a stall of the machine longer than the 10 ms escape timer can fire it: retry
			for attempt := 0; attempt < 4; attempt++ {
				res = parsehx.Run(&parsehx.ChunkReader{Chunks: ch}, ci%2 == 0, 5*time.Second)
				runs++
				term = parsehx.CoqItems(res.Items, res.EOFs)
				if ci == 0 || seen[term] {
					break
				}
			}
			js := caseJSON{Chunking: fmt.Sprintf("%d reads", len(ch)), Items: res.Items, Generator: gen}
			for _, b := range stream {
				js.Bytes = append(js.Bytes, int(b))
			}
			if res.Hung || res.Panic != "" || !res.Closed || res.EOFs != 1 || res.AfterEOF != 0 {
				direct = append(direct, hx.DirectViolation{Class: "parser-lifecycle", Case: js,
					What: fmt.Sprintf("hung=%v panic=%q closed=%v eofs=%d afterEOF=%d", res.Hung, res.Panic, res.Closed, res.EOFs, res.AfterEOF)})
				continue
			}
			if res.ClusterProblem != "" && len(ch) == 1 {
				clusterProblems++
				direct = append(direct, hx.DirectViolation{Class: "print-cluster", Case: js, What: res.ClusterProblem})
			}
			if res.SegProblem != "" && len(ch) == 1 && len(stream) < 2048 && plainText(stream) {
				clusterProblems++
				direct = append(direct, hx.DirectViolation{Class: "print-segmentation", Case: js, What: res.SegProblem})
			}
			if seen[term] {
				continue
			}
			if len(seen) > 0 {
				chunkDisagreements++
			}
			seen[term] = true
			s.Add(hx.Tuple(parsehx.CoqSegments([][]byte{stream}), term), js, nontriv, gen)
		}
	}

	// 0. corpus: minimised streams that once disagreed or violated
	for _, c := range []string{"\xd8\x83\xb3", "a\xd8\x83\xff\x1b[A", "\xd8\x83\xb3\xa1\x86\xda\x9eR5!!\x1b[7:1;4{",
		"\xef\xbf\xbd", "\x1b]0;t\x07\x1b\\x", "\x1b]a\x18\x1b\\", "\x1b(\x1b(B", "\x1bP1$r\x1b\\\x1b\\"} {
		try([]byte(c), "corpus", true)
	}

	// 1. bounded-exhaustive over one representative per byte class
	maxLen := 3
	if cfg.Thorough() {
		maxLen = 4
	}
	var rec func(prefix []byte, depth int)
	rec = func(prefix []byte, depth int) {
		if depth > 0 {
			try(append([]byte(nil), prefix...), "exhaustive", len(prefix) > 1)
		}
		if depth == maxLen {
			return
		}
		for _, a := range parsehx.Alphabet {
			rec(append(append([]byte(nil), prefix...), a...), depth+1)
		}
	}
	rec(nil, 0)

	// 1b. directed: a prefix reaching each state (string states also with a body), then
	// every 7-bit byte and a few multi-byte runes, then a suffix that shows where we are
	prefixes := []string{"", "\x1b", "\x1b ", "\x1b[", "\x1b[1", "\x1b[ ", "\x1b[1<", "\x1bP", "\x1bP1", "\x1bP ",
		"\x1bPq", "\x1bPqa", "\x1bP:", "\x1bP:a", "\x1b]", "\x1b]a", "\x1bX", "\x1bXa", "\x1b_", "\x1b_a", "\x1bO",
		"\x1b]a\x1b", "\x1b]\x1b"}
	var mids [][]byte
	for b := 0; b < 0x80; b++ {
		mids = append(mids, []byte{byte(b)})
	}
	mids = append(mids, []byte("é"), []byte{0xff}, []byte{0xef, 0xbf, 0xbd}, []byte{0x80})
	for _, pre := range prefixes {
		for _, mid := range mids {
			for _, suf := range []string{"", ";1 m\x1b\\x"} {
				try([]byte(pre+string(mid)+suf), "state-rune", true)
			}
		}
	}

	// 2. grammar-generated
	n := 1500
	if cfg.Thorough() {
		n = 40000
	}
	for i := 0; i < n; i++ {
		var b []byte
		gen := "grammar"
		for k := 1 + cfg.Rand.Intn(5); k > 0; k-- {
			e, _ := parsehx.Element(cfg.Rand)
			b = append(b, e...)
		}
		try(b, gen, true)
	}
	// 2b. text: runs over one or two members of every grapheme-break class (Prepend, Extend, ZWJ,
	// SpacingMark, Hangul L/V/T/LV/LVT, Regional_Indicator, Extended_Pictographic, emoji modifiers and
	// variation selectors, CR/LF/Control) mixed with ASCII, sometimes between control sequences
	classes := []string{"a", "Z", " ", "~", "1", "\u0600", "\u06dd", "\U000110bd", "\u0301", "\u20dd", "\u200d", "\u0903", "\u0e33",
		"\u1100", "\u1161", "\u11a8", "\uac00", "\uac01", "\U0001f1e9", "\U0001f1ea", "\U0001f600", "\U0001f44d", "\U0001f3fd",
		"\ufe0f", "\ufe0e", "\u2764", "\u00e9", "\u6f22", "\u200b", "\u00ad", "\r", "\n", "\t"}
	nt := 1200
	if cfg.Thorough() {
		nt = 30000
	}
	// every ordered pair, then random runs
	for _, a := range classes {
		for _, b := range classes {
			try([]byte(a+b), "text-pair", true)
		}
	}
	for i := 0; i < nt; i++ {
		var b []byte
		for k := 2 + cfg.Rand.Intn(6); k > 0; k-- {
			if cfg.Rand.Intn(9) == 0 {
				e, _ := parsehx.Element(cfg.Rand)
				b = append(b, e...)
			} else {
				b = append(b, classes[cfg.Rand.Intn(len(classes))]...)
			}
		}
		try(b, "text", true)
	}
	// 3. raw random bytes
	m := 500
	if cfg.Thorough() {
		m = 20000
	}
	for i := 0; i < m; i++ {
		b := make([]byte, 1+cfg.Rand.Intn(30))
		for j := range b {
			switch cfg.Rand.Intn(4) {
			case 0:
				b[j] = 0x1b
			case 1:
				b[j] = byte(cfg.Rand.Intn(256))
			default:
				b[j] = byte(0x20 + cfg.Rand.Intn(0x60))
			}
		}
		try(b, "random", true)
	}
	cfg.Write("C02", "byte streams: all strings up to length 3 (quick) / 4 (thorough) over one representative per byte class of the state machine; directed state x rune cases (a prefix reaching each of the 16 states, every 7-bit byte and some multi-byte runes, two suffixes); grammar-generated concatenations of CSI/OSC/DCS/APC/SS3/ESC/SOS-PM sequences with random parameters (empty, 0, huge, overflowing), intermediates, payloads, embedded C0, CAN/SUB/ESC cancels, empty-bodied strings; text runs over members of every grapheme-break class (all ordered pairs, random runs, mixed with control sequences): when delivered by one read, consecutive Prints must be exactly uniseg's segmentation of the run; raw random bytes. Each stream is parsed under 3 read chunkings (all at once, byte by byte, random); one case per distinct canonical observation. non-trivial = longer than one symbol",
		[]*hx.Stream{s}, map[string]interface{}{"parser_runs": runs, "chunking_disagreements": chunkDisagreements,
			"print_cluster_problems": clusterProblems}, direct)
}
