// Quirks: fake terminals that name themselves (XTVERSION reply), answer the tertiary device
// attributes query in different ways and report mode 2027 in different ways, under every
// combination of the environment variables quirks.go reads for the width method.  Observed: the
// terminal id, the three width flags after New and after Suspend/Resume, how often mode 2027 is
// set / reset in the bytes of New, Suspend, Resume and Close, and RenderedWidth of the probe
// graphemes in both sessions.
package main

import (
	"bytes"
	"fmt"
	"image"
	"os"
	"strings"
	"time"

	vaxis "git.sr.ht/~rockorager/vaxis"
	"verif/harness/hx"
)

// sreply is one scripted reply: Kind "rpm" (DECRPM for Mode), "xtversion" (DCS > | Text ST),
// "da3" (DCS ! | Text ST)
type sreply struct {
	Kind string
	Rpm  rpmReply
	Text string
}

func (r sreply) bytes() string {
	switch r.Kind {
	case "rpm":
		return r.Rpm.bytes()
	case "xtversion":
		return "\x1bP>|" + r.Text + "\x1b\\"
	}
	return "\x1bP!|" + r.Text + "\x1b\\"
}

func (r sreply) coq() string {
	switch r.Kind {
	case "rpm":
		f := "RpmNone"
		switch r.Rpm.Kind {
		case 1:
			f = "RpmNoValue"
		case 2:
			f = "RpmEmpty"
		case 3:
			f = fmt.Sprintf("(RpmVal %d)", r.Rpm.Val)
		}
		return fmt.Sprintf("SRpm %d %s", r.Rpm.Mode, f)
	case "xtversion":
		return "SXtversion " + hx.Runes(r.Text)
	}
	return "SDa3 " + hx.Runes(r.Text)
}

func (r sreply) String() string {
	if r.Kind == "rpm" {
		return "decrpm " + r.Rpm.String()
	}
	return fmt.Sprintf("%s %q", r.Kind, r.Text)
}

type quirkEnv struct{ Wcwidth, Unicode, Nozwj, DisableNozwj bool }

func (e quirkEnv) apply() {
	set := func(k string, b bool) {
		if b {
			os.Setenv(k, "1")
		} else {
			os.Unsetenv(k)
		}
	}
	set("VAXIS_FORCE_WCWIDTH", e.Wcwidth)
	set("VAXIS_FORCE_UNICODE", e.Unicode)
	set("VAXIS_FORCE_NOZWJ", e.Nozwj)
	set("VAXIS_DISABLE_NOZWJ", e.DisableNozwj)
}

func (e quirkEnv) String() string {
	var s []string
	for _, kv := range []struct {
		k string
		b bool
	}{{"FORCE_WCWIDTH", e.Wcwidth}, {"FORCE_UNICODE", e.Unicode}, {"FORCE_NOZWJ", e.Nozwj}, {"DISABLE_NOZWJ", e.DisableNozwj}} {
		if kv.b {
			s = append(s, kv.k)
		}
	}
	if len(s) == 0 {
		return "-"
	}
	return strings.Join(s, "+")
}

func envFromBits(m int) quirkEnv {
	return quirkEnv{m&1 != 0, m&2 != 0, m&4 != 0, m&8 != 0}
}

func count2027(b []byte) string {
	return hx.Tuple(fmt.Sprint(bytes.Count(b, []byte("\x1b[?2027h"))), fmt.Sprint(bytes.Count(b, []byte("\x1b[?2027l"))))
}

func quirkStream(cfg *hx.Config) *hx.Stream {
	os.Unsetenv("COLORTERM")
	os.Unsetenv("VAXIS_GRAPHICS")
	os.Unsetenv("VAXIS_FORCE_LEGACY_SGR")
	s := hx.NewStream("quirk", "model.Gate model.CapReplies model.Quirks", "quirk_case", "c07_quirk_mismatches", "c07_quirk_violations")
	s.ShardMax = 300
	probes := []string{"a", "漢", "👍🏽", "👩‍🚀", "é", "❤️", "🇩🇪", "👋🏿", "́"}
	var pw []string
	for _, g := range probes {
		pw = append(pw, hx.Tuple(fmt.Sprint(vaxis.VerifGwidth(g, 0)), fmt.Sprint(vaxis.VerifGwidth(g, 1)), fmt.Sprint(vaxis.VerifGwidth(g, 2))))
	}
	widths := func(vx *vaxis.Vaxis) ([]string, []int) {
		var ow []string
		var oj []int
		for _, g := range probes {
			w := vx.RenderedWidth(g)
			ow = append(ow, fmt.Sprint(w))
			oj = append(oj, w)
		}
		return ow, oj
	}
	wf := func(got map[string]bool) string {
		return fmt.Sprintf("(mkW %v %v %v)", got["unicodeCore"], got["explicitWidth"], got["noZWJ"])
	}
	// run one terminal.  natural: each reply is sent when its query arrives (DECRPM at the DECRQM,
	// the name at XTVERSION, the unit id at the tertiary DA query) - the replies must then be in
	// that order; otherwise all replies are sent in list order when the tertiary DA query arrives
	// (before the DA1 reply)
	run := func(env quirkEnv, ew bool, mask uint32, replies []sreply, natural bool, tags ...string) {
		mask &^= 1<<1 | 1<<4 | 1<<9 | 1<<11 | 1<<16 // 2027, the name, explicit width, Smulx and VTE are scripted here
		prof := hx.ProfileFromMask(mask, 3, 8)
		prof.ExplicitWidth = ew
		expectExplicit := ew && !env.Wcwidth && !env.Nozwj
		var fc *hx.FakeConsole
		var vx *vaxis.Vaxis
		var got map[string]bool
		attempts := 0
		for {
			attempts++
			fc = hx.NewFakeConsole(prof)
			c := fc
			fc.WriteHook = func(p []byte) {
				for i := 0; i < len(p); i++ {
					if p[i] != 0x1b {
						continue
					}
					at := func(q string) bool { return bytes.HasPrefix(p[i:], []byte(q)) }
					for _, r := range replies {
						switch {
						case !natural:
							if at("\x1b[=c") {
								c.InjectString(r.bytes())
							}
						case r.Kind == "rpm" && at(fmt.Sprintf("\x1b[?%d$p", r.Rpm.Mode)),
							r.Kind == "xtversion" && at("\x1b[>0q"),
							r.Kind == "da3" && at("\x1b[=c"):
							c.InjectString(r.bytes())
						}
					}
				}
			}
			env.apply()
			var err error
			vx, err = vaxis.New(vaxis.Options{WithConsole: fc, NoSignals: true, DisableMouse: true})
			quirkEnv{}.apply()
			if err != nil {
				panic(err)
			}
			got = vx.VerifCaps()
			// the probe waits 50 ms of real time for the cursor position report: on an overloaded
			// machine it can miss the window; such a terminal is started again (at most 3 times)
			if got["explicitWidth"] || !expectExplicit || attempts == 3 {
				break
			}
			hx.WithTimeout(2*time.Second, vx.Close)
		}
		bNew := fc.Take()
		id := vx.TerminalID()
		w1, w1j := widths(vx)
		okS := hx.WithTimeout(8*time.Second, func() { vx.Suspend() })
		bSus := fc.Take()
		okR := okS && hx.WithTimeout(8*time.Second, func() { vx.Resume() })
		bRes := fc.Take()
		got2 := vx.VerifCaps()
		w2, w2j := widths(vx)
		okC := okR && hx.WithTimeout(8*time.Second, vx.Close)
		bClose := fc.Take()
		if !(okS && okR && okC) {
			panic(fmt.Sprintf("quirk stream: Suspend/Resume/Close did not return (%v %v %v)", okS, okR, okC))
		}
		counts := []string{count2027(bNew), count2027(bSus), count2027(bRes), count2027(bClose)}
		var rs, rj []string
		for _, r := range replies {
			rs = append(rs, r.coq())
			rj = append(rj, r.String())
		}
		obs := fmt.Sprintf("(mkQobs %s %v %s %s %s %s %s)", hx.Runes(id), got["styledUnderlines"], wf(got), wf(got2), hx.List(counts), hx.List(w1), hx.List(w2))
		term := hx.Tuple(fmt.Sprintf("mkQenv %v %v %v %v", env.Wcwidth, env.Unicode, env.Nozwj, env.DisableNozwj), hx.Bool(ew), hx.List(rs), hx.List(pw), obs)
		nontrivial := env != (quirkEnv{}) || strings.HasPrefix(id, "kitty") || id == "tmux 3.4"
		s.Add(term, map[string]interface{}{
			"env": env.String(), "terminal_implements_explicit_width": ew, "other_advertised_mask": mask,
			"replies_in_arrival_order": rj, "replies_sent_at_their_queries": natural,
			"terminal_id": id, "unicodeCore": got["unicodeCore"], "explicitWidth": got["explicitWidth"], "noZWJ": got["noZWJ"],
			"flags_after_resume": []bool{got2["unicodeCore"], got2["explicitWidth"], got2["noZWJ"]},
			"mode2027_set_reset_counts_new_suspend_resume_close": counts, "probes": probes,
			"rendered_width_after_new": w1j, "rendered_width_after_resume": w2j, "attempts": attempts},
			nontrivial, tags...)
	}
	names := []string{"kitty(0.35.2)", "kitty", "kitt", "xterm-kitty", "Kitty(1)", "tmux 3.4", "tmux 3.3", "tmux 3.4a", "tmux 3.40", " tmux 3.4",
		"tmux 3.5", "fake(1.0)", "foot(1.17.2)", "XTerm(388)", ""}
	da3s := []string{"7E565445", "00000000", "464F4F54", "7e565445", "kitty", "tmux 3.4", "6B69747479", ""}
	rpms := []rpmReply{{Mode: 2027, Kind: 0}, {Mode: 2027, Kind: 3, Val: 1}, {Mode: 2027, Kind: 3, Val: 2}, {Mode: 2027, Kind: 3, Val: 3},
		{Mode: 2027, Kind: 3, Val: 0}, {Mode: 2027, Kind: 3, Val: 4}, {Mode: 2027, Kind: 2}}
	build := func(rpm rpmReply, named bool, name string, da3 int) []sreply {
		var rs []sreply
		if rpm.Kind != 0 {
			rs = append(rs, sreply{Kind: "rpm", Rpm: rpm})
		}
		if named {
			rs = append(rs, sreply{Kind: "xtversion", Text: name})
		}
		if da3 >= 0 {
			rs = append(rs, sreply{Kind: "da3", Text: da3s[da3]})
		}
		return rs
	}
	rnd := cfg.Rand
	// directed 1: every name x DA3 reply {none, ~VTE, a unit id, a name} x 2027 {silent, reset, permanently
	// set} in a clean environment, replies sent at their queries
	for _, n := range names {
		for _, d := range []int{-1, 0, 1, 4, 5} {
			for _, r := range []int{0, 2, 3} {
				run(quirkEnv{}, rnd.Intn(4) == 0, uint32(rnd.Intn(1<<17)), build(rpms[r], true, n, d), true, "directed name x da3 x 2027")
			}
		}
	}
	// directed 2: every environment x {kitty, tmux 3.4, tmux 3.3, other, unnamed} x 2027 {silent, reset} x
	// explicit width {no, yes}, DA3 reply random
	for e := 0; e < 16; e++ {
		for _, n := range []int{0, 5, 6, 11, -1} {
			for _, r := range []int{0, 2} {
				for _, ew := range []bool{false, true} {
					name := ""
					if n >= 0 {
						name = names[n]
					}
					run(envFromBits(e), ew, uint32(rnd.Intn(1<<17)), build(rpms[r], n >= 0, name, rnd.Intn(len(da3s)+2)-2), true, "directed env x name x 2027 x explicit-width")
				}
			}
		}
	}
	// random: any environment, any list of replies in any order (several names, unit ids before and
	// after the name, repeated / contradicting 2027 reports), all delivered before the DA1 reply
	n := 250
	if cfg.Thorough() {
		n = 6000
	}
	for i := 0; i < n; i++ {
		var rs []sreply
		for k := rnd.Intn(5); k > 0; k-- {
			switch rnd.Intn(3) {
			case 0:
				rs = append(rs, sreply{Kind: "rpm", Rpm: rpms[1+rnd.Intn(len(rpms)-1)]})
			case 1:
				rs = append(rs, sreply{Kind: "xtversion", Text: names[rnd.Intn(len(names))]})
			default:
				rs = append(rs, sreply{Kind: "da3", Text: da3s[rnd.Intn(len(da3s))]})
			}
		}
		e := 0
		if rnd.Intn(2) == 0 {
			e = rnd.Intn(16)
		}
		run(envFromBits(e), rnd.Intn(3) == 0, uint32(rnd.Intn(1<<17)), rs, false, "random replies in any order")
	}
	quirkEnv{}.apply()
	return s
}

// gfxStream: which graphics protocol New settles on (observed through the type NewImage
// returns), for every combination of sixel / kitty graphics replies x ASCIINEMA_REC x
// VAXIS_GRAPHICS x pixel size known (in-band resize reports carry it; the fake console's
// Size() does not)
func gfxStream(cfg *hx.Config) *hx.Stream {
	s := hx.NewStream("gfx", "model.QuirksGfx", "gin * Z", "c07_gfx_mismatches", "c07_gfx_violations")
	words := []string{"", "none", "full", "half", "sixel", "kitty", "best", "KITTY"}
	code := map[string]int{"none": 1, "full": 2, "half": 3, "sixel": 4, "kitty": 5}
	pic := image.NewRGBA(image.Rect(0, 0, 1, 1))
	for m := 0; m < 16; m++ {
		sixel, kit, asc, pix := m&1 != 0, m&2 != 0, m&4 != 0, m&8 != 0
		for _, w := range words {
			mask := uint32(cfg.Rand.Intn(1<<17)) &^ (1<<3 | 1<<6 | 1<<7 | 1<<9)
			prof := hx.ProfileFromMask(mask, 3, 8)
			prof.Sixel, prof.KittyGraphics, prof.InBandResize = sixel, kit, pix
			fc := hx.NewFakeConsole(prof)
			if asc {
				os.Setenv("ASCIINEMA_REC", "1")
			}
			if w != "" {
				os.Setenv("VAXIS_GRAPHICS", w)
			}
			vx, err := vaxis.New(vaxis.Options{WithConsole: fc, NoSignals: true, DisableMouse: true})
			os.Unsetenv("ASCIINEMA_REC")
			os.Unsetenv("VAXIS_GRAPHICS")
			if err != nil {
				panic(err)
			}
			gp := 0
			if img, err := vx.NewImage(pic); err == nil {
				switch img.(type) {
				case *vaxis.FullBlockImage:
					gp = 1
				case *vaxis.HalfBlockImage:
					gp = 2
				case *vaxis.Sixel:
					gp = 3
				case *vaxis.KittyImage:
					gp = 4
				default:
					gp = -1
				}
			}
			s.Add(hx.Tuple(fmt.Sprintf("mkGin %v %v %v %d %v", sixel, kit, asc, code[w], pix), fmt.Sprint(gp)),
				map[string]interface{}{"sixel_reply": sixel, "kitty_graphics_reply": kit, "ASCIINEMA_REC": asc, "VAXIS_GRAPHICS": w,
					"pixel_size_known": pix, "graphics_protocol": gp},
				asc || w != "" || sixel || kit, "VAXIS_GRAPHICS="+w)
			hx.WithTimeout(2*time.Second, vx.Close)
		}
	}
	return s
}
