// float64 side of Color.asIndex: the trial values themselves (bit patterns), and the
// colours on which the float loop and an exact-integer scan pick different entries.
package main

import (
	"fmt"
	"math"
	"runtime"
	"sort"
	"sync"

	vaxis "git.sr.ht/~rockorager/vaxis"
	"verif/harness/hx"
)

// The expression of color.go asIndex, verbatim (trial is a local variable of asIndex, no hook
// can export it; this copy is compiled by the same toolchain with the same flags, and the
// colour stream ties the results of the real loop to the same model).
func sq(v float64) float64 { return v * v }

func trial(dR, oR, dG, oG, dB, oB uint8) float64 {
	return sq(float64(int(dR)-int(oR))*.3) + sq(float64(int(dG)-int(oG))*.59) + sq(float64(int(dB)-int(oB))*.11)
}

// a signed difference d in [-255,255] as a pair of uint8 channels (palette, colour)
func chans(d int) (uint8, uint8) {
	if d >= 0 {
		return uint8(d), 0
	}
	return 0, uint8(-d)
}

func trialD(d [3]int) float64 {
	a, b := chans(d[0])
	c, e := chans(d[1])
	f, g := chans(d[2])
	return trial(a, b, c, e, f, g)
}

func wd(d [3]int) int64 {
	return 900*int64(d[0])*int64(d[0]) + 3481*int64(d[1])*int64(d[1]) + 121*int64(d[2])*int64(d[2])
}

func fdistStream(cfg *hx.Config) *hx.Stream {
	s := hx.NewStream("fdist", "model.Colour model.ColourFloat", "fcase", "c07_fdist_mismatches", "c07_fdist_violations")
	s.ShardMax = 1500
	add := func(d, e [3]int, tag string) {
		td, te := trialD(d), trialD(e)
		obs := hx.Tuple(hx.ZU(math.Float64bits(td)), hx.ZU(math.Float64bits(te)), hx.Bool(td < te), hx.Bool(td == 0))
		trip := func(x [3]int) string { return hx.Tuple(hx.Z(int64(x[0])), hx.Z(int64(x[1])), hx.Z(int64(x[2]))) }
		s.Add(hx.Tuple(trip(d), trip(e), obs),
			map[string]interface{}{"d": d, "e": e, "bits_d": fmt.Sprintf("%#016x", math.Float64bits(td)), "bits_e": fmt.Sprintf("%#016x", math.Float64bits(te)),
				"lt": td < te, "zero": td == 0, "exact_d": wd(d), "exact_e": wd(e)},
			wd(d) != wd(e) || d != e, tag)
	}
	rnd := func() int { return cfg.Rand.Intn(511) - 255 }
	flip := func(d [3]int) [3]int {
		for i := range d {
			if cfg.Rand.Intn(2) == 0 {
				d[i] = -d[i]
			}
		}
		return d
	}
	// every triple over a boundary set, against a random triple and against its mirror image
	bs := []int{-255, -128, -1, 0, 1, 11, 30, 255}
	for _, a := range bs {
		for _, b := range bs {
			for _, c := range bs {
				d := [3]int{a, b, c}
				if cfg.Rand.Intn(4) == 0 {
					add(d, [3]int{-a, -b, -c}, "boundary-mirror")
				} else {
					add(d, [3]int{rnd(), rnd(), rnd()}, "boundary")
				}
			}
		}
	}
	// the 511 values of each single term
	for x := -255; x <= 255; x++ {
		add([3]int{x, 0, 0}, [3]int{0, x, 0}, "single-term")
		add([3]int{0, 0, x}, [3]int{0, 0, -x}, "single-term")
	}
	n := 1500
	if cfg.Thorough() {
		n = 60000
	}
	for i := 0; i < n; i++ {
		add([3]int{rnd(), rnd(), rnd()}, [3]int{rnd(), rnd(), rnd()}, "random")
	}
	// algebraic exact ties between different triples (30*11 = 11*30, 59*30 = 30*59, 59*11 = 11*59)
	// and their neighbours
	for k := 1; k <= 8; k++ {
		for _, dl := range []int{-1, 0, 1} {
			g := cfg.Rand.Intn(256)
			add(flip([3]int{11 * k, g, 0}), flip([3]int{0, g, 30*k + dl}), fmt.Sprintf("algebraic-tie%+d", dl))
			if 59*k <= 255 {
				add(flip([3]int{59 * k, 30 * (4 - k), g}), flip([3]int{0, 30*4 + dl, g}), fmt.Sprintf("algebraic-tie%+d", dl))
				add(flip([3]int{g, 11 * k, 0}), flip([3]int{g, 0, 59*k + dl}), fmt.Sprintf("algebraic-tie%+d", dl))
			}
		}
	}
	// neighbours in the exact order: all non-negative triples of a window sorted by exact
	// distance; adjacent entries with equal distance (exact ties of different triples) and with
	// the smallest positive gaps (where a wrong rounding would invert the order first)
	type ent struct {
		w int64
		d [3]int
	}
	window := func(lo, hi, ties, gaps int, tag string) {
		var es []ent
		for a := lo; a <= hi; a++ {
			for b := lo; b <= hi; b++ {
				for c := lo; c <= hi; c++ {
					d := [3]int{a, b, c}
					es = append(es, ent{wd(d), d})
				}
			}
		}
		sort.Slice(es, func(i, j int) bool {
			if es[i].w != es[j].w {
				return es[i].w < es[j].w
			}
			return es[i].d[0]*65536+es[i].d[1]*256+es[i].d[2] < es[j].d[0]*65536+es[j].d[1]*256+es[j].d[2]
		})
		var tie, gap1 []int
		for i := 0; i+1 < len(es); i++ {
			switch g := es[i+1].w - es[i].w; {
			case g == 0:
				tie = append(tie, i)
			case g <= 2:
				gap1 = append(gap1, i)
			}
		}
		pick := func(idx []int, n int, tag string) {
			for k := 0; k < n && len(idx) > 0; k++ {
				i := idx[cfg.Rand.Intn(len(idx))]
				if cfg.Rand.Intn(2) == 0 {
					add(flip(es[i].d), flip(es[i+1].d), tag)
				} else {
					add(flip(es[i+1].d), flip(es[i].d), tag)
				}
			}
		}
		pick(tie, ties, tag+"-exact-tie")
		pick(gap1, gaps, tag+"-gap<=2")
	}
	m := 1
	if cfg.Thorough() {
		m = 20
	}
	window(0, 48, 150*m, 250*m, "low")
	window(208, 255, 150*m, 250*m, "high")
	return s
}

// xterm palette 16..255 by its formula; used only to choose and tag cases (which colours have an
// exact tie, where the implementation departs from the first exact minimum) - verdicts come from
// Coq, which uses the palette translated from color.go.
func xtermPalette() [][3]int {
	lv := []int{0, 0x5f, 0x87, 0xaf, 0xd7, 0xff}
	var p [][3]int
	for r := 0; r < 6; r++ {
		for g := 0; g < 6; g++ {
			for b := 0; b < 6; b++ {
				p = append(p, [3]int{lv[r], lv[g], lv[b]})
			}
		}
	}
	for k := 0; k < 24; k++ {
		p = append(p, [3]int{8 + 10*k, 8 + 10*k, 8 + 10*k})
	}
	return p
}

type exactScan struct {
	tr, tg, tb [256][240]int32
}

func newExactScan() *exactScan {
	e := &exactScan{}
	for i, p := range xtermPalette() {
		for x := 0; x < 256; x++ {
			e.tr[x][i] = int32(900 * (p[0] - x) * (p[0] - x))
			e.tg[x][i] = int32(3481 * (p[1] - x) * (p[1] - x))
			e.tb[x][i] = int32(121 * (p[2] - x) * (p[2] - x))
		}
	}
	return e
}

// first index at minimal exact distance, the minimum, and how many entries attain it
func (e *exactScan) scan(c uint32) (first int, min int32, count int) {
	r, g, b := &e.tr[c>>16&255], &e.tg[c>>8&255], &e.tb[c&255]
	min = math.MaxInt32
	for i := 0; i < 240; i++ {
		d := r[i] + g[i] + b[i]
		if d < min {
			min, first, count = d, i, 1
		} else if d == min {
			count++
		}
	}
	return
}

func (e *exactScan) dist(c uint32, i int) int32 {
	return e.tr[c>>16&255][i] + e.tg[c>>8&255][i] + e.tb[c&255][i]
}

type sweepResult struct {
	Colours    int      `json:"colours"`
	Differs    int      `json:"asIndex_differs_from_first_exact_minimum"`
	NotNearest int      `json:"asIndex_not_at_minimal_exact_distance"`
	Shipped    int      `json:"shipped_to_coq"`
	Examples   []string `json:"examples"`
	cols       []uint32
}

// sweep runs the real asIndex on all 2^24 RGB colours and collects those whose result is not the
// first entry at minimal exact distance (on the clean tree: exact ties decided differently by
// the float64 rounding); the ones not at minimal distance at all come first.
func sweep(e *exactScan) *sweepResult {
	w := runtime.NumCPU()
	if w > 8 {
		w = 8
	}
	type part struct{ bad, diff []uint32 }
	parts := make([]part, w)
	var wg sync.WaitGroup
	for k := 0; k < w; k++ {
		wg.Add(1)
		go func(k int) {
			defer wg.Done()
			lo, hi := uint32(k)*(1<<24)/uint32(w), uint32(k+1)*(1<<24)/uint32(w)
			for c := lo; c < hi; c++ {
				got := int(uint32(vaxis.VerifAsIndex(vaxis.HexColor(c)))&0xffffff) - 16
				first, min, _ := e.scan(c)
				if got == first {
					continue
				}
				if got < 0 || got >= 240 || e.dist(c, got) != min {
					parts[k].bad = append(parts[k].bad, c)
				} else {
					parts[k].diff = append(parts[k].diff, c)
				}
			}
		}(k)
	}
	wg.Wait()
	res := &sweepResult{Colours: 1 << 24}
	var bad, diff []uint32
	for _, p := range parts {
		bad = append(bad, p.bad...)
		diff = append(diff, p.diff...)
	}
	res.NotNearest, res.Differs = len(bad), len(bad)+len(diff)
	res.cols = append(bad, diff...)
	if len(res.cols) > 300 {
		res.cols = res.cols[:300]
	}
	res.Shipped = len(res.cols)
	for i := 0; i < len(res.cols) && i < 12; i++ {
		res.Examples = append(res.Examples, fmt.Sprintf("#%06x", res.cols[i]))
	}
	return res
}
