// Harness for C07 (colour fallback part): runs Color.asIndex on a
// boundary-rich sample of colours and writes (colour, result) cases.
package main

import (
	vaxis "git.sr.ht/~rockorager/vaxis"
	"verif/harness/hx"
)

func main() {
	cfg := hx.ParseFlags()
	s := hx.NewStream("colour", "model.Colour", "Z * Z", "c07_colour_mismatches", "c07_colour_violations")
	s.ShardMax = 2000
	add := func(c vaxis.Color, tag string) {
		r := vaxis.VerifAsIndex(c)
		s.Add(hx.Tuple(hx.ZU(uint64(c)), hx.ZU(uint64(r))),
			map[string]interface{}{"color": uint32(c), "as_index": uint32(r)},
			c&(1<<25) != 0, tag)
	}
	// non-RGB colours are returned unchanged
	add(vaxis.Color(0), "default")
	for i := 0; i < 256; i += 17 {
		add(vaxis.IndexColor(uint8(i)), "indexed")
	}
	// every channel from a boundary set (palette levels and their neighbours)
	levels := []int{0, 1, 2, 0x2e, 0x2f, 0x30, 0x5e, 0x5f, 0x60, 0x72, 0x73, 0x74, 0x86, 0x87, 0x88,
		0x9a, 0x9b, 0x9c, 0xae, 0xaf, 0xb0, 0xc2, 0xc3, 0xc4, 0xd6, 0xd7, 0xd8, 0xea, 0xeb, 0xec, 0xfd, 0xfe, 0xff,
		0x08, 0x12, 0x80, 0xee}
	if !cfg.Thorough() {
		levels = []int{0, 1, 0x2f, 0x30, 0x5f, 0x60, 0x73, 0x87, 0x9b, 0xaf, 0xc3, 0xd7, 0xeb, 0xfe, 0xff, 0x08, 0x80}
	}
	for _, r := range levels {
		for _, g := range levels {
			for _, b := range levels {
				add(vaxis.RGBColor(uint8(r), uint8(g), uint8(b)), "boundary")
			}
		}
	}
	n := 3000
	if cfg.Thorough() {
		n = 250000
	}
	for i := 0; i < n; i++ {
		add(vaxis.HexColor(uint32(cfg.Rand.Intn(1<<24))), "random")
	}
	// Color values with both tags or stray high bits (HexColor does not mask)
	for i := 0; i < 50; i++ {
		add(vaxis.Color(cfg.Rand.Uint32()), "rawbits")
	}
	cfg.Write("C07", "colours: default, indexed, all triples over a set of boundary channel levels, uniformly random RGB, raw 32-bit values; non-trivial = RGB-tagged (goes through the palette search); distinct by (colour,result)",
		[]*hx.Stream{s}, nil, nil)
}
