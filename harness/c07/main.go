// Harness for C07 (colour fallback part): runs Color.asIndex on a
// boundary-rich sample of colours and writes (colour, result) cases.
package main

import (
	"fmt"
	"os"
	"time"

	vaxis "git.sr.ht/~rockorager/vaxis"
	"verif/harness/hx"
	"verif/harness/renderhx"
)

func bit(m uint32, i uint) bool { return m&(1<<i) != 0 }

func advTerm(m uint32) string {
	return fmt.Sprintf("(Build_adv %v %v %v %v %v %v %v %v %v %v %v %v %v %v %v %v)", bit(m, 0), bit(m, 1), bit(m, 2), bit(m, 3),
		bit(m, 5), bit(m, 6), bit(m, 7), bit(m, 8), bit(m, 9), bit(m, 10), bit(m, 11), bit(m, 12), bit(m, 13), bit(m, 14), bit(m, 15), bit(m, 16))
}

var capOrder = []string{"synchronizedUpdate", "unicodeCore", "colorThemeUpdates", "inBandResize", "kittyKeyboard", "kittyGraphics",
	"sixels", "reportSizeChars", "reportSizePixels", "explicitWidth", "rgb", "styledUnderlines", "osc4", "osc10", "osc11", "osc176"}

func capsStreams(cfg *hx.Config) (*hx.Stream, *hx.Stream, *hx.Stream) {
	os.Unsetenv("COLORTERM")
	os.Unsetenv("VAXIS_GRAPHICS")
	os.Unsetenv("VAXIS_FORCE_LEGACY_SGR")
	caps := hx.NewStream("caps", "model.Gate", "adv * list bool", "c07_caps_violations", "c07_caps_violations")
	caps.ShardMax = 4000
	width := hx.NewStream("width", "model.Gate", "bool * bool * bool * list (Z * Z * Z) * list Z", "c07_width_violations", "c07_width_violations")
	width.ShardMax = 2000
	probes := []string{"a", "漢", "👍🏽", "👩‍🚀", "é", "❤️", "🇩🇪", "", "́"}
	gate := hx.NewStream("gate", "model.RenderTypes model.Gate", "caps * list tok", "c07_gate_violations", "c07_gate_violations")
	gate.ShardMax = 60
	var masks []uint32
	if cfg.Thorough() {
		for m := uint32(0); m < 1<<17; m++ {
			masks = append(masks, m)
		}
	} else {
		masks = append(masks, 0, 1<<17-1)
		for i := uint(0); i < 17; i++ {
			masks = append(masks, 1<<i)
			for j := i + 1; j < 17; j++ {
				masks = append(masks, 1<<i|1<<j)
			}
		}
		for i := 0; i < 400; i++ {
			masks = append(masks, uint32(cfg.Rand.Intn(1<<17)))
		}
	}
	styles := []vaxis.Style{
		{Foreground: vaxis.RGBColor(1, 2, 3), Background: vaxis.IndexColor(3), UnderlineStyle: vaxis.UnderlineCurly, UnderlineColor: vaxis.RGBColor(9, 9, 9)},
		{Foreground: vaxis.IndexColor(200), Attribute: vaxis.AttrBold | vaxis.AttrItalic, UnderlineStyle: vaxis.UnderlineSingle, UnderlineColor: vaxis.IndexColor(5)},
		{Background: vaxis.RGBColor(255, 0, 0), Attribute: vaxis.AttrDim, Hyperlink: "http://x", UnderlineStyle: vaxis.UnderlineDashed},
		{},
	}
	// terminals that never answer the cursor position query: explicit width must not be assumed
	nocpr := map[int]bool{}
	for i := 0; i < 12; i++ {
		nocpr[len(masks)] = true
		masks = append(masks, uint32(cfg.Rand.Intn(1<<17))&^(1<<9))
	}
	for k, m := range masks {
		prof := hx.ProfileFromMask(m, 3, 8)
		prof.NoCPR = nocpr[k]
		if k%5 == 0 && prof.XTVersion != "" {
			prof.XTVersion = "kitty(0.31.0)" // quirk: shaped emoji but no ZWJ sequences
		}
		fc, vx, got, attempts := startTerminal(prof, nil)
		var obs []string
		var obsJ []bool
		for _, n := range capOrder {
			obs = append(obs, hx.Bool(got[n]))
			obsJ = append(obsJ, got[n])
		}
		caps.Add(hx.Tuple(advTerm(m), hx.List(obs)), map[string]interface{}{"advertised_mask": m, "caps": obsJ, "no_cursor_position_reply": nocpr[k], "attempts": attempts}, m != 0, fmt.Sprintf("bits=%d", popcount(m)), fmt.Sprintf("nocpr=%v", nocpr[k]))
		// width method: RenderedWidth against gwidth under each method
		{
			var pw, ow []string
			for _, g := range probes {
				pw = append(pw, hx.Tuple(fmt.Sprint(vaxis.VerifGwidth(g, 0)), fmt.Sprint(vaxis.VerifGwidth(g, 1)), fmt.Sprint(vaxis.VerifGwidth(g, 2))))
				ow = append(ow, fmt.Sprint(vx.RenderedWidth(g)))
			}
			width.Add(hx.Tuple(hx.Bool(got["unicodeCore"]), hx.Bool(got["explicitWidth"]), hx.Bool(got["noZWJ"]), hx.List(pw), hx.List(ow)),
				map[string]interface{}{"advertised_mask": m, "unicodeCore": got["unicodeCore"], "explicitWidth": got["explicitWidth"], "noZWJ": got["noZWJ"]},
				got["unicodeCore"] || got["explicitWidth"] || got["noZWJ"], fmt.Sprintf("u=%v e=%v n=%v", got["unicodeCore"], got["explicitWidth"], got["noZWJ"]))
		}
		// vocabulary: a few frames with every kind of style, wide cells and a cursor
		if !cfg.Thorough() || k%16 == 0 {
			fc.Take()
			var toks []string
			win := vx.Window()
			for f := 0; f < 3; f++ {
				for i := 0; i < 8; i++ {
					st := styles[(i+f+cfg.Rand.Intn(2))%len(styles)]
					g := []string{"a", "漢", "é", "", "👍🏽"}[cfg.Rand.Intn(5)]
					col := cfg.Rand.Intn(7)
					win.SetCell(col, cfg.Rand.Intn(3), vaxis.Cell{Character: vaxis.Character{Grapheme: g}, Style: st})
				}
				if f == 1 {
					vx.ShowCursor(1, 1, vaxis.CursorBeam)
				}
				if f == 2 {
					vx.Refresh()
				} else {
					vx.Render()
				}
				toks = append(toks, renderhx.Tokenize(fc.Take())...)
				for len(vx.Events()) > 0 {
					<-vx.Events()
				}
			}
			adv := fmt.Sprintf("(Build_caps %v %v %v %v)", bit(m, 10), bit(m, 11) || bit(m, 16), bit(m, 0), bit(m, 9))
			gate.Add(hx.Tuple(adv, hx.List(toks)), map[string]interface{}{"advertised_mask": m, "tokens": len(toks)}, true, fmt.Sprintf("bits=%d", popcount(m)))
		}
		hx.WithTimeout(2*time.Second, vx.Close)
	}
	return caps, gate, width
}

// startTerminal runs New on a fake terminal with the given profile.  The explicit-width probe of
// sendQueries waits 50 ms of real time for the cursor position report; on an overloaded machine
// the reply can miss that window although the terminal answered at once.  A terminal that
// advertises explicit width and answers cursor position queries is therefore started again (at
// most three times) when explicit width was not detected; a Vaxis that fails to detect it fails
// all three attempts.  hook, when not nil, is installed as the console's WriteHook first.
func startTerminal(prof hx.Profile, hook func(fc *hx.FakeConsole, p []byte)) (*hx.FakeConsole, *vaxis.Vaxis, map[string]bool, int) {
	for attempt := 1; ; attempt++ {
		fc := hx.NewFakeConsole(prof)
		if hook != nil {
			fc.WriteHook = func(p []byte) { hook(fc, p) }
		}
		vx, err := vaxis.New(vaxis.Options{WithConsole: fc, NoSignals: true, DisableMouse: true})
		if err != nil {
			panic(err)
		}
		got := vx.VerifCaps()
		if got["explicitWidth"] || !prof.ExplicitWidth || prof.NoCPR || attempt == 3 {
			return fc, vx, got, attempt
		}
		hx.WithTimeout(2*time.Second, vx.Close)
	}
}

func popcount(m uint32) int {
	n := 0
	for ; m != 0; m &= m - 1 {
		n++
	}
	return n
}

func main() {
	cfg := hx.ParseFlags()
	// model = the float64 loop (model/ColourFloat.v); property = nearest under the exact distance
	s := hx.NewStream("colour", "model.Colour model.ColourFloat", "Z * Z", "c07_colourf_mismatches", "c07_colour_violations")
	s.ShardMax = 2000
	exact := newExactScan()
	add := func(c vaxis.Color, tag string) {
		r := vaxis.VerifAsIndex(c)
		tags := []string{tag}
		js := map[string]interface{}{"color": uint32(c), "as_index": uint32(r)}
		if c&(1<<25) != 0 {
			first, _, count := exact.scan(uint32(c))
			if count > 1 {
				tags = append(tags, "exact-tie-at-minimum")
				js["entries_at_exact_minimum"] = count
			}
			if int(uint32(r)&0xffffff)-16 != first {
				tags = append(tags, "not-first-exact-minimum")
				js["first_exact_minimum"] = first + 16
			}
		}
		s.Add(hx.Tuple(hx.ZU(uint64(c)), hx.ZU(uint64(r))), js, c&(1<<25) != 0, tags...)
	}
	// all 2^24 colours through the real asIndex: those that are not the first exact minimum
	sw := sweep(exact)
	for _, c := range sw.cols {
		add(vaxis.HexColor(c), "sweep")
	}
	// non-RGB colours are returned unchanged
	add(vaxis.Color(0), "default")
	for i := 0; i < 256; i += 17 {
		add(vaxis.IndexColor(uint8(i)), "indexed")
	}
	// every channel from a boundary set (palette levels and their neighbours)
	levels := []int{0, 1, 2, 0x2e, 0x2f, 0x30, 0x5e, 0x5f, 0x60, 0x72, 0x73, 0x74, 0x86, 0x87, 0x88,
		0x9a, 0x9b, 0x9c, 0xae, 0xaf, 0xb0, 0xc2, 0xc3, 0xc4, 0xd6, 0xd7, 0xd8, 0xea, 0xeb, 0xec, 0xfd, 0xfe, 0xff,
		0x08, 0x12, 0x80, 0xee}
	if !cfg.Thorough() {
		levels = []int{0, 1, 0x2f, 0x30, 0x5f, 0x60, 0x73, 0x87, 0x9b, 0xaf, 0xc3, 0xd7, 0xeb, 0xfe, 0xff, 0x08, 0x80}
	}
	for _, r := range levels {
		for _, g := range levels {
			for _, b := range levels {
				add(vaxis.RGBColor(uint8(r), uint8(g), uint8(b)), "boundary")
			}
		}
	}
	n := 3000
	if cfg.Thorough() {
		n = 250000
	}
	for i := 0; i < n; i++ {
		add(vaxis.HexColor(uint32(cfg.Rand.Intn(1<<24))), "random")
	}
	// histories: conversions are made in sequence by one process, so a result must not depend on
	// what was converted before: exact palette entries and other colours, with repeats
	cube := []int{0, 0x5f, 0x87, 0xaf, 0xd7, 0xff}
	exactEntry := func() vaxis.Color {
		if cfg.Rand.Intn(4) == 0 {
			v := uint8(8 + 10*cfg.Rand.Intn(24))
			return vaxis.RGBColor(v, v, v)
		}
		return vaxis.RGBColor(uint8(cube[cfg.Rand.Intn(6)]), uint8(cube[cfg.Rand.Intn(6)]), uint8(cube[cfg.Rand.Intn(6)]))
	}
	nh := 1500
	if cfg.Thorough() {
		nh = 60000
	}
	prev := exactEntry()
	for i := 0; i < nh; i++ {
		c := prev
		switch x := cfg.Rand.Intn(10); {
		case x < 4: // the same colour again
		case x < 7:
			c = exactEntry()
		case x < 9:
			c = vaxis.HexColor(uint32(cfg.Rand.Intn(1 << 24)))
		default:
			c = vaxis.IndexColor(uint8(cfg.Rand.Intn(256)))
		}
		add(c, "history")
		prev = c
	}
	// Color values with both tags or stray high bits (HexColor does not mask)
	for i := 0; i < 50; i++ {
		add(vaxis.Color(cfg.Rand.Uint32()), "rawbits")
	}
	// colours with an exact tie at the minimum: one channel half way between two cube levels
	for i := 0; i < 150; i++ {
		mid := []int{115, 155, 195, 235}[cfg.Rand.Intn(4)]
		ch := [3]int{cfg.Rand.Intn(256), cfg.Rand.Intn(256), cfg.Rand.Intn(256)}
		ch[cfg.Rand.Intn(3)] = mid
		add(vaxis.RGBColor(uint8(ch[0]), uint8(ch[1]), uint8(ch[2])), "midpoint")
	}
	fdistS := fdistStream(cfg)
	rpmS := rpmStream(cfg)
	capsS, gateS, widthS := capsStreams(cfg)
	quirkS := quirkStream(cfg)
	gfxS := gfxStream(cfg)
	cfg.Write("C07", "gfx: all 16 combinations of sixel reply / kitty graphics reply / ASCIINEMA_REC / pixel size known x VAXIS_GRAPHICS in {unset, none, full, half, sixel, kitty, two unknown words}: the graphics protocol New settles on (type returned by NewImage) compared with the model of New's step order and with the closed-form specification; quirk: fake terminals that name themselves in the XTVERSION reply (kitty(x), kitty, tmux 3.4, tmux 3.3, near misses, others, unnamed), answer the tertiary device attributes query not at all / as VTE / with a unit id / with a text that looks like a name, and report mode 2027 not at all / set / reset / permanently set / permanently reset, under all 16 combinations of VAXIS_FORCE_WCWIDTH, VAXIS_FORCE_UNICODE, VAXIS_FORCE_NOZWJ, VAXIS_DISABLE_NOZWJ, with and without explicit width (directed: name x DA3 x 2027; environment x name x 2027 x explicit width; random reply lists in any order with several names, unit ids before and after the name and contradicting reports); observed: TerminalID, styled underlines, the three width flags after New and after Suspend+Resume, how often CSI ?2027h / CSI ?2027l occur in the bytes of New, Suspend, Resume and Close, RenderedWidth of nine probe graphemes in both sessions; compared with the model (handleSequence + New's loop + applyQuirks + New's order + enableModes/disableModes) and with the specification (closed-form flags; one flag set for modes, capabilities and widths); non-trivial = an environment variable is set or the terminal is kitty / tmux 3.4; rpm: fake terminals that answer the DECRQM start-up queries for modes 2026 / 2027 / 2031 with every DECRPM value (directed: each mode x {no reply, no value, empty value, 0, 1, 2, 3, 4, 5, 9, 255} with the other modes silent or random, on terminals advertising nothing else / everything else / a random subset; random combinations, unsolicited reports for 2048 and other modes, second reports for a queried mode), capabilities reported by Vaxis compared with the model of handleSequence + the start-up loop (three mode capabilities) and with the specification of what each value establishes (all sixteen); non-trivial = at least one report was sent; fdist: pairs of channel-difference triples in [-255,255]^3 (all triples over a boundary set, all 511 values of each term, random, algebraic exact ties and their neighbours, neighbours in the exact order of two windows: exact ties between different triples and gaps <= 2/10^4) with math.Float64bits of asIndex's trial expression for both, Go's trial(d) < trial(e) and trial(d) == 0, compared bit for bit with the binary64 model; non-trivial = the triples differ; colours now also: every one of the 2^24 RGB colours whose asIndex result is not the first entry at minimal exact distance (found by running the real asIndex on all of them), and colours with one channel half way between two cube levels (exact ties); width: on the same terminals (some identifying as kitty: noZWJ quirk) RenderedWidth of probe graphemes (narrow, wide, emoji with modifier, ZWJ sequence, combining, VS16, flag, empty, lone mark) against the library's gwidth under the method the reported capabilities select; caps: fake terminals answering exactly the start-up queries of a capability subset (quick: none, all, every single capability, every pair, 400 random subsets of 17; thorough: all 2^17), capabilities reported by Vaxis compared with those advertised; gate: on such terminals three frames (render, render with cursor, refresh) with direct/indexed colours, styled and coloured underlines, hyperlinks, wide and zero-width cells, every token written classified by allowed; colours: default, indexed, all triples over a set of boundary channel levels, uniformly random RGB, raw 32-bit values, and histories of conversions with repeats of exact palette entries (a result must not depend on earlier conversions); non-trivial = RGB-tagged (goes through the palette search); distinct by (colour,result)",
		[]*hx.Stream{s, fdistS, rpmS, capsS, gateS, widthS, quirkS, gfxS}, map[string]interface{}{"sweep": sw}, nil)
}
