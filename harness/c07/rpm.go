// DECRPM replies with every value: terminals that answer the three DECRQM start-up queries
// (2026, 2027, 2031) with value 0..4, other values, a missing or empty value or not at all,
// and that send reports nobody asked for; the capabilities Vaxis then reports.
package main

import (
	"bytes"
	"fmt"
	"os"
	"strings"
	"time"

	"verif/harness/hx"
)

// rpmReply is one DECRPM report: Kind 0 none, 1 no value, 2 empty value, 3 value Val
type rpmReply struct {
	Mode int
	Kind int
	Val  int
}

func (r rpmReply) bytes() string {
	switch r.Kind {
	case 1:
		return fmt.Sprintf("\x1b[?%d$y", r.Mode)
	case 2:
		return fmt.Sprintf("\x1b[?%d;$y", r.Mode)
	case 3:
		return fmt.Sprintf("\x1b[?%d;%d$y", r.Mode, r.Val)
	}
	return ""
}

func (r rpmReply) coq() string {
	f := "RpmNone"
	switch r.Kind {
	case 1:
		f = "RpmNoValue"
	case 2:
		f = "RpmEmpty"
	case 3:
		f = fmt.Sprintf("(RpmVal %d)", r.Val)
	}
	return hx.Tuple(fmt.Sprint(r.Mode), f)
}

func (r rpmReply) String() string {
	switch r.Kind {
	case 1:
		return fmt.Sprintf("%d:novalue", r.Mode)
	case 2:
		return fmt.Sprintf("%d:empty", r.Mode)
	case 3:
		return fmt.Sprintf("%d:%d", r.Mode, r.Val)
	}
	return fmt.Sprintf("%d:none", r.Mode)
}

func rpmStream(cfg *hx.Config) *hx.Stream {
	os.Unsetenv("COLORTERM")
	os.Unsetenv("VAXIS_GRAPHICS")
	os.Unsetenv("VAXIS_FORCE_LEGACY_SGR")
	s := hx.NewStream("rpm", "model.Gate model.CapReplies", "rpm_case", "c07_rpm_mismatches", "c07_rpm_violations")
	s.ShardMax = 400
	queried := []int{2026, 2027, 2031}
	forms := []rpmReply{{Kind: 0}, {Kind: 1}, {Kind: 2}, {Kind: 3, Val: 0}, {Kind: 3, Val: 1}, {Kind: 3, Val: 2}, {Kind: 3, Val: 3},
		{Kind: 3, Val: 4}, {Kind: 3, Val: 5}, {Kind: 3, Val: 9}, {Kind: 3, Val: 255}}
	randForm := func(mode int) rpmReply {
		var f rpmReply
		if cfg.Rand.Intn(3) == 0 {
			f = forms[cfg.Rand.Intn(len(forms))]
		} else {
			f = rpmReply{Kind: 3, Val: cfg.Rand.Intn(5)}
		}
		f.Mode = mode
		return f
	}
	// run one terminal: other capabilities from the mask (its three mode bits are cleared, the
	// profile then never answers a DECRQM itself), replies[i] answers queried[i], extra reports
	// are sent right after the last answer
	run := func(mask uint32, replies [3]rpmReply, extra []rpmReply, tags ...string) {
		mask &^= 7
		prof := hx.ProfileFromMask(mask, 3, 8)
		_, vx, got, attempts := startTerminal(prof, func(fc *hx.FakeConsole, p []byte) {
			for i := 0; i < len(p); i++ {
				if p[i] != 0x1b {
					continue
				}
				for k, m := range queried {
					if bytes.HasPrefix(p[i:], []byte(fmt.Sprintf("\x1b[?%d$p", m))) {
						fc.InjectString(replies[k].bytes())
						if k == len(queried)-1 {
							for _, e := range extra {
								fc.InjectString(e.bytes())
							}
						}
					}
				}
			}
		})
		var obs []string
		var obsJ []bool
		for _, n := range capOrder {
			obs = append(obs, hx.Bool(got[n]))
			obsJ = append(obsJ, got[n])
		}
		var rs, rj []string
		nontrivial := false
		for _, r := range append(replies[:], extra...) {
			rs = append(rs, r.coq())
			rj = append(rj, r.String())
			nontrivial = nontrivial || r.Kind != 0
		}
		s.Add(hx.Tuple(advTerm(mask), hx.List(rs), hx.List(obs)),
			map[string]interface{}{"other_advertised_mask": mask, "decrpm_replies": strings.Join(rj, " "), "caps": obsJ, "attempts": attempts},
			nontrivial, tags...)
		hx.WithTimeout(2*time.Second, vx.Close)
	}
	none := func() [3]rpmReply {
		return [3]rpmReply{{Mode: 2026}, {Mode: 2027}, {Mode: 2031}}
	}
	// directed: every reply form for each queried mode; the other two modes silent, then random,
	// on a terminal advertising nothing else and on one advertising everything else
	for k, m := range queried {
		for _, f := range forms {
			f.Mode = m
			tag := fmt.Sprintf("directed mode=%d reply=%s", m, strings.SplitN(f.String(), ":", 2)[1])
			r := none()
			r[k] = f
			run(0, r, nil, tag)
			run(1<<17-1, r, nil, tag)
			r2 := [3]rpmReply{randForm(2026), randForm(2027), randForm(2031)}
			r2[k] = f
			run(uint32(cfg.Rand.Intn(1<<17)), r2, nil, tag)
		}
	}
	// reports nobody asked for: in-band resize (detected by its size report, not by DECRPM),
	// other modes, and a second report for a queried mode
	others := []int{2048, 1004, 2004, 1049, 9001, 25}
	n := 300
	if cfg.Thorough() {
		n = 6000
	}
	for i := 0; i < n; i++ {
		r := [3]rpmReply{randForm(2026), randForm(2027), randForm(2031)}
		var extra []rpmReply
		tag := "random"
		switch cfg.Rand.Intn(4) {
		case 0:
			extra = append(extra, rpmReply{Mode: 2048, Kind: 3, Val: cfg.Rand.Intn(5)})
			tag = "random+unsolicited-2048"
		case 1:
			for j := cfg.Rand.Intn(3) + 1; j > 0; j-- {
				e := randForm(others[cfg.Rand.Intn(len(others))])
				if e.Kind == 0 {
					e.Kind, e.Val = 3, 1
				}
				extra = append(extra, e)
			}
			tag = "random+unsolicited-other"
		case 2:
			e := randForm(queried[cfg.Rand.Intn(3)])
			if e.Kind == 0 {
				e.Kind, e.Val = 3, 2
			}
			extra = append(extra, e)
			tag = "random+second-report"
		}
		run(uint32(cfg.Rand.Intn(1<<17)), r, extra, tag)
	}
	return s
}
