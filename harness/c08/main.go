// Harness for C08: parser lifecycle (end of input / read error at every
// offset, retained sequences, Close) and Escape-key timing with real gaps.
package main

import (
	"errors"
	"fmt"
	"io"
	"math/rand"
	"os"
	"os/exec"
	"runtime"
	"strconv"
	"strings"
	"sync"
	"time"

	"git.sr.ht/~rockorager/vaxis/ansi"
	"verif/harness/hx"
	"verif/harness/parsehx"
)

type caseJSON struct {
	Segments [][]int        `json:"segments"`
	End      string         `json:"end"`
	Items    []parsehx.Item `json:"items"`
	EOFs     int            `json:"eofs"`
	Kind     string         `json:"kind"`
}

func ints(b []byte) []int {
	out := make([]int, len(b))
	for i, x := range b {
		out[i] = int(x)
	}
	return out
}

// blockingReader delivers first, then blocks until released, then returns 'x' forever
type blockingReader struct {
	first   []byte
	release chan struct{}
	served  bool
}

func (b *blockingReader) Read(p []byte) (int, error) {
	if !b.served {
		b.served = true
		return copy(p, b.first), nil
	}
	<-b.release
	p[0] = 'x'
	return 1, nil
}

// escReader delivers first, blocks until released, then returns one ESC byte and then blocks forever
type escReader struct {
	first   []byte
	release chan struct{}
	n       int
}

func (b *escReader) Read(p []byte) (int, error) {
	b.n++
	switch b.n {
	case 1:
		if len(b.first) > 0 {
			return copy(p, b.first), nil
		}
		fallthrough
	case 2:
		<-b.release
		p[0] = 0x1b
		return 1, nil
	}
	select {}
}

// closeWithEsc is what Vaxis.Suspend does: Close, then the terminal's DA1 reply (which starts
// with ESC) wakes the reader.  Run in a child process: a timer firing after the channel was
// closed would panic the whole process.
func closeWithEsc() {
	for _, first := range []string{"", "ab", "\x1b]abc"} {
		br := &escReader{first: []byte(first), release: make(chan struct{})}
		p := ansi.NewParser(br)
		done := make(chan struct{})
		go func() {
			for seq := range p.Next() {
				p.Finish(seq)
			}
			close(done)
		}()
		time.Sleep(20 * time.Millisecond)
		p.Close()
		close(br.release)
		select {
		case <-done:
		case <-time.After(3 * time.Second):
			fmt.Println("parser did not stop after Close + ESC")
			os.Exit(3)
		}
		time.Sleep(40 * time.Millisecond) // an escape timer left armed would fire now
	}
	os.Exit(0)
}

// raceChild stresses the Escape timer against the end of the run loop and against the next
// rune: many parsers in parallel, each fed ESC and then, about 10 ms later (the timer's delay,
// with jitter on both sides), either the end of input or the bytes "[A".  A callback that sends
// after the channel was closed panics the whole process (that is why this is a child); a
// callback that runs after the "[" was handled turns ESC [ A into Escape, "A".  Prints
// "<attempts> <hangs> <garbled>" and exits 0; a panic ends the process with Go's exit status 2.
func raceChild() {
	workers, rounds := 48, 10
	if os.Getenv("C08_RACE_LONG") != "" {
		workers, rounds = 64, 60
	}
	var wg sync.WaitGroup
	var mu sync.Mutex
	attempts, hangs, garbled := 0, 0, 0
	garbledWhat := ""
	for w := 0; w < workers; w++ {
		wg.Add(1)
		go func(w int) {
			defer wg.Done()
			for i := 0; i < rounds; i++ {
				pr, pw := io.Pipe()
				p := ansi.NewParser(pr)
				done := make(chan []string, 1)
				go func() {
					var got []string
					for seq := range p.Next() {
						got = append(got, fmt.Sprintf("%T", seq))
						p.Finish(seq)
					}
					done <- got
				}()
				_, _ = pw.Write([]byte{0x1b})
				d := 10*time.Millisecond + time.Duration(((w*rounds+i)*37)%600-300)*time.Microsecond
				t0 := time.Now()
				for time.Since(t0) < d {
					runtime.Gosched()
				}
				tail := (w+i)%2 == 1
				if tail {
					_, _ = pw.Write([]byte("[A"))
				}
				_ = pw.Close()
				select {
				case got := <-done:
					if tail {
						s := strings.Join(got, " ")
						okSeq := s == "ansi.CSI ansi.EOF"
						okEsc := s == "ansi.C0 ansi.Print ansi.Print ansi.EOF"
						if !okSeq && !okEsc {
							mu.Lock()
							garbled++
							garbledWhat = s
							mu.Unlock()
						}
					}
				case <-time.After(5 * time.Second):
					mu.Lock()
					hangs++
					mu.Unlock()
				}
				mu.Lock()
				attempts++
				mu.Unlock()
			}
		}(w)
	}
	wg.Wait()
	time.Sleep(30 * time.Millisecond) // callbacks still outstanding run now
	fmt.Printf("RACE %d %d %d %s\n", attempts, hangs, garbled, garbledWhat)
	os.Exit(0)
}

// ---------------------------------------------------------------- hand-off (retention) runs

// renderSeq is the canonical rendering of one delivered sequence (a deep copy: nothing of the
// sequence's storage is kept), merged into items the way parsehx does (consecutive Prints join).
func renderSeq(items []parsehx.Item, seq ansi.Sequence) []parsehx.Item {
	r64 := func(rs []rune) []int64 {
		out := make([]int64, len(rs))
		for i, r := range rs {
			out[i] = int64(r)
		}
		return out
	}
	switch s := seq.(type) {
	case ansi.Print:
		n := len(items)
		if n > 0 && items[n-1].Kind == "print" {
			items[n-1].Runes = append(items[n-1].Runes, r64([]rune(s.Grapheme))...)
			return items
		}
		return append(items, parsehx.Item{Kind: "print", Runes: r64([]rune(s.Grapheme))})
	case ansi.C0:
		return append(items, parsehx.Item{Kind: "c0", Final: int64(s)})
	case ansi.ESC:
		return append(items, parsehx.Item{Kind: "esc", Inter: r64(s.Intermediate), Final: int64(s.Final)})
	case ansi.SS3:
		return append(items, parsehx.Item{Kind: "ss3", Final: int64(s)})
	case ansi.CSI:
		it := parsehx.Item{Kind: "csi", Inter: r64(s.Intermediate), Final: int64(s.Final)}
		for _, ps := range s.Parameters {
			var sub []int64
			for _, v := range ps {
				sub = append(sub, int64(v))
			}
			it.PS = append(it.PS, sub)
		}
		return append(items, it)
	case ansi.OSC:
		return append(items, parsehx.Item{Kind: "osc", Data: r64(s.Payload)})
	case ansi.DCS:
		it := parsehx.Item{Kind: "dcs", Inter: r64(s.Intermediate), Final: int64(s.Final), Data: r64(s.Data)}
		for _, v := range s.Parameters {
			it.DP = append(it.DP, int64(v))
		}
		return append(items, it)
	case ansi.APC:
		return append(items, parsehx.Item{Kind: "apc", Data: r64([]rune(s.Data))})
	}
	return append(items, parsehx.Item{Kind: fmt.Sprintf("unknown %T", seq)})
}

// runKeep feeds the chunks (no pauses) to a fresh parser.  The consumer keeps sequence number i
// without Finish when keep(i), hands it back at once otherwise, and waits lag before every
// receive so that the parser runs ahead as far as its channel lets it.  Every kept sequence is
// deep-copied on delivery and compared with what it reads as after the parser stopped.
func runKeep(chunks [][]byte, keep func(i int) bool, lag time.Duration, timeout time.Duration) parsehx.Result {
	res, _ := runKeepLater(chunks, keep, lag, timeout)
	return res
}

// laterItem: a sequence the consumer kept, where it stands in the delivered items, and what it
// reads as after the parser stopped
type laterItem struct {
	Pos  int          `json:"pos"`
	Item parsehx.Item `json:"reads"`
}

func runKeepLater(chunks [][]byte, keep func(i int) bool, lag time.Duration, timeout time.Duration) (parsehx.Result, []laterItem) {
	var res parsehx.Result
	var later []laterItem
	for attempt := 0; attempt <= hx.TimerEscRetries; attempt++ {
		var timerEsc bool
		res, later, timerEsc = runKeepOnce(chunks, keep, lag, timeout)
		if !timerEsc || res.Hung {
			break
		}
	}
	return res, later
}

// carriesBuffer: the sequence hands slices of the parser's to the consumer
func carriesBuffer(seq ansi.Sequence) bool {
	switch seq.(type) {
	case ansi.ESC, ansi.CSI, ansi.OSC, ansi.DCS:
		return true
	}
	return false
}

func runKeepOnce(chunks [][]byte, keep func(i int) bool, lag time.Duration, timeout time.Duration) (res parsehx.Result, later []laterItem, timerEsc bool) {
	p := ansi.NewParser(&parsehx.ChunkReader{Chunks: chunks})
	type retained struct {
		seq  ansi.Sequence
		copy string
		pos  int
	}
	var kept []retained
	done := make(chan struct{})
	go func() {
		defer close(done)
		defer func() {
			if r := recover(); r != nil {
				res.Panic = fmt.Sprint(r)
			}
		}()
		i := 0
		for {
			if lag > 0 {
				time.Sleep(lag)
			}
			seq, ok := <-p.Next()
			if !ok {
				break
			}
			if res.EOFs > 0 {
				res.AfterEOF++
			}
			if _, isEOF := seq.(ansi.EOF); isEOF {
				res.EOFs++
				continue
			}
			if _, isErr := seq.(error); isErr {
				continue
			}
			if hx.IsTimerEsc(seq) {
				timerEsc = true
			}
			res.Items = renderSeq(res.Items, seq)
			if keep(i) {
				kept = append(kept, retained{seq, fmt.Sprintf("%#v", seq), len(res.Items) - 1})
			} else {
				p.Finish(seq)
			}
			i++
		}
		res.Closed = true
	}()
	select {
	case <-done:
	case <-time.After(timeout):
		res.Hung = true
		return res, nil, timerEsc
	}
	for _, k := range kept {
		if now := fmt.Sprintf("%#v", k.seq); now != k.copy && res.Mutated == "" {
			res.Mutated = fmt.Sprintf("delivered %s, later reads %s", k.copy, now)
		}
		if carriesBuffer(k.seq) {
			later = append(later, laterItem{Pos: k.pos, Item: renderSeq(nil, k.seq)[0]})
		}
	}
	return res, later, timerEsc
}

// ---------------------------------------------------------------- partial hand-back

// burstKinds: families of sequences that take storage from the parser's pools (parameter
// slices, the parameter list, intermediates) or hand a data buffer over.  Values are drawn from
// a counter so that no two sequences of a stream carry the same numbers: re-use of one
// sequence's storage by another is visible whatever the pool hands out.
var burstKinds = []string{"csi-2", "csi-3", "csi-4", "csi-5", "csi-7", "csi-sub", "csi-mouse", "csi-priv-inter", "csi-inter-only", "esc-inter", "dcs", "osc", "mixed"}

func burstSeq(kind string, n *int, r *rand.Rand) string {
	next := func() int { *n++; return 100 + *n }
	nums := func(k int, sep string) string {
		var parts []string
		for i := 0; i < k; i++ {
			parts = append(parts, strconv.Itoa(next()))
		}
		return strings.Join(parts, sep)
	}
	inter := func() string {
		v := next()
		return string(rune(0x20+v%16)) + string(rune(0x20+(v/16)%16))
	}
	if strings.HasPrefix(kind, "csi-") {
		if k, err := strconv.Atoi(kind[4:]); err == nil {
			return "\x1b[" + nums(k, ";") + "m"
		}
	}
	switch kind {
	case "csi-sub":
		return "\x1b[" + nums(2, ":") + ";" + nums(5, ":") + ";" + nums(1, ":") + "m"
	case "csi-mouse":
		return "\x1b[<" + nums(3, ";") + "M"
	case "csi-priv-inter":
		return "\x1b[" + string(rune(0x3c+next()%4)) + nums(2, ";") + inter() + "p"
	case "csi-inter-only":
		return "\x1b[" + string(rune(0x3c+next()%4)) + inter() + "q"
	case "esc-inter":
		return "\x1b" + inter() + "B"
	case "dcs":
		return "\x1bP" + nums(2, ";") + inter() + "q" + "data-" + strconv.Itoa(next()) + "\x1b\\"
	case "osc":
		return "\x1b]" + strconv.Itoa(next()) + ";payload-" + strconv.Itoa(next()) + "\x07"
	}
	// mixed: any family, the multi-parameter CSIs more often
	ks := burstKinds[:len(burstKinds)-1]
	if r != nil {
		if r.Intn(2) == 0 {
			return burstSeq(ks[r.Intn(7)], n, r)
		}
		return burstSeq(ks[r.Intn(len(ks))], n, r)
	}
	return burstSeq(ks[*n%len(ks)], n, r)
}

// handBack: "Finish every k-th sequence (those with index = off mod k), keep the rest"
func handBack(k, off int) (func(int) bool, string) {
	return func(i int) bool { return i%k != off%k }, fmt.Sprintf("finish every %d. sequence (offset %d), keep the rest", k, off%k)
}

func pick(r *rand.Rand, xs ...string) string { return xs[r.Intn(len(xs))] }

// carrier: a random sequence of one of the kinds that hand a buffer to the consumer, with or
// without private marker / intermediates / parameters / data
func carrier(r *rand.Rand) string {
	fin := func() string { return string(rune(0x40 + r.Intn(0x3f))) }
	params := func(sub bool) string {
		if sub {
			return pick(r, "", "", "0", "1", "1;2", "38:2:1:2:3", ";", "1;;3", "4:3;58:5:1", "9;8;7;6;5;4;3")
		}
		return pick(r, "", "", "0", "1", "1;2", ";", "1;;3", "9;8;7;6;5;4;3")
	}
	inter := func() string { return pick(r, "", "", " ", "$", "#", "!\"", " !") }
	priv := func() string { return pick(r, "", "", "?", ">", "<", "=") }
	data := func() string { return pick(r, "", "d", "data-data", "0123456789012345678901234567890123456789") }
	term := func() string { return pick(r, "\x1b\\", "\x1b\\", "\x1b\\", "\x18", "\x1a") }
	switch r.Intn(5) {
	case 0:
		return "\x1b" + inter() + string(rune(0x30+r.Intn(0x4f)))
	case 1:
		return "\x1b[" + priv() + params(true) + inter() + fin()
	case 2:
		return "\x1bP" + priv() + params(false) + inter() + fin() + data() + term()
	case 3:
		return "\x1b]" + data() + pick(r, "\x07", term())
	default:
		return "\x1b_" + data() + term()
	}
}

func main() {
	if os.Getenv("C08_CHILD") == "close-esc" {
		closeWithEsc()
	}
	if os.Getenv("C08_CHILD") == "race" {
		raceChild()
	}
	cfg := hx.ParseFlags()
	trunc := hx.NewStream("truncate", "model.Parser model.ParserCheck", "pcase", "c08_mismatches", "c08_violations")
	timing := hx.NewStream("timing", "model.Parser model.ParserCheck", "pcase", "c08_mismatches", "c08_violations")
	var direct []hx.DirectViolation
	var mu sync.Mutex
	lifecycle := func(res parsehx.Result, js caseJSON) bool {
		if res.Hung || res.Panic != "" || !res.Closed || res.AfterEOF != 0 || res.Mutated != "" {
			mu.Lock()
			direct = append(direct, hx.DirectViolation{Class: "parser-lifecycle", Case: js,
				What: fmt.Sprintf("hung=%v panic=%q closed=%v eofs=%d afterEOF=%d mutated=%q", res.Hung, res.Panic, res.Closed, res.EOFs, res.AfterEOF, res.Mutated)})
			mu.Unlock()
			return false
		}
		return true
	}

	// 1. end of input or read error at every byte offset; half of the runs retain every sequence
	nStreams := 120
	if cfg.Thorough() {
		nStreams = 3000
	}
	for i := 0; i < nStreams; i++ {
		var b []byte
		for k := 1 + cfg.Rand.Intn(3); k > 0; k-- {
			e, _ := parsehx.Element(cfg.Rand)
			b = append(b, e...)
		}
		for cut := 0; cut <= len(b); cut++ {
			prefix := b[:cut]
			var err error
			end := "eof"
			if (cut+i)%2 == 1 {
				err = errors.New("read error")
				end = "error"
			}
			chunks := [][]byte{prefix}
			if cut > 2 && i%3 == 0 {
				chunks = [][]byte{prefix[:cut/2], prefix[cut/2:]}
			}
			res := parsehx.Run(&parsehx.ChunkReader{Chunks: chunks, Err: err}, i%2 == 0, 5*time.Second)
			js := caseJSON{Segments: [][]int{ints(prefix)}, End: end, Items: res.Items, EOFs: res.EOFs, Kind: "truncate"}
			if !lifecycle(res, js) {
				continue
			}
			trunc.Add(hx.Tuple(parsehx.CoqSegments([][]byte{prefix}), parsehx.CoqItems(res.Items, res.EOFs)), js, cut > 0 && cut < len(b), end)
		}
	}

	// 1b. hand-off: every ordered pair of sequences that carry a buffer (same or different kind,
	// second one shorter, equal or longer), consumer retains everything without Finish
	carriers := []string{"\x1b]0;title-one\x07", "\x1b]8;;http://example.com\x1b\\", "\x1b]1\x07", "\x1bP1;2$qdata-one\x1b\\", "\x1bPqz\x1b\\",
		"\x1b_Gapc-payload-one\x1b\\", "\x1b_x\x1b\\", "\x1b[1;2;3 q", "\x1b[38:2:1:2:3;4:3m", "\x1b[?1$p", "\x1b#3", "\x1b (B", "\x1b[<0;10;20M"}
	for _, a := range carriers {
		for _, b := range carriers {
			for _, tail := range []string{"", "x\x1b]long-long-long-long-payload\x07\x1b[9;8;7;6;5;4 r"} {
				stream := []byte(a + b + tail)
				res := parsehx.Run(&parsehx.ChunkReader{Chunks: [][]byte{stream}}, false, 5*time.Second)
				js := caseJSON{Segments: [][]int{ints(stream)}, End: "eof", Items: res.Items, EOFs: res.EOFs, Kind: "retain-pair"}
				if !lifecycle(res, js) {
					continue
				}
				trunc.Add(hx.Tuple(parsehx.CoqSegments([][]byte{stream}), parsehx.CoqItems(res.Items, res.EOFs)), js, true, "retain-pair")
			}
		}
	}

	// 1c. hand-off classes: every buffer-carrying kind x with/without private marker x
	// with/without intermediates x with/without parameters (data), kept without Finish by a
	// consumer that lags behind, followed by every kind of sequence that collects
	// intermediates / parameters / data (complete, cut by the end of input, cancelled)
	var firsts []string
	for _, in := range []string{"", " ", "#", "( "} {
		firsts = append(firsts, "\x1b"+in+"B")
	}
	for _, pv := range []string{"", "?", ">"} {
		for _, ps := range []string{"", "1", "1;2:3"} {
			for _, in := range []string{"", "$", " !"} {
				firsts = append(firsts, "\x1b["+pv+ps+in+"u")
			}
		}
	}
	for _, pv := range []string{"", "?"} {
		for _, ps := range []string{"", "1;2"} {
			for _, in := range []string{"", "$"} {
				for _, d := range []string{"", "dcs-data-one"} {
					firsts = append(firsts, "\x1bP"+pv+ps+in+"q"+d+"\x1b\\")
				}
			}
		}
	}
	firsts = append(firsts, "\x1b]\x07", "\x1b]1\x07", "\x1b]8;;http://example.com\x1b\\", "\x1b_\x1b\\", "\x1b_Gapc-payload-one\x1b\\")
	followers := []string{"\x1b(B", "\x1b[>c", "\x1b[>1;2c", "\x1b[ q", "\x1b[5;6H", "\x1bP>7;8+rzz\x1b\\", "\x1bPpzzzzzzzzzzzzzzzz\x1b\\",
		"\x1b]2;zzzzzzzzzzzzzzzz\x07", "\x1b_Zzzzzzzzzzzzzzzzz\x1b\\", "\x1b[=9;9", "\x1b*", "\x1b[<7$\x18", "\x1bP=1+", "\x1b]zz", "\x1bXzz\x1b\\\x1b%G"}
	keepAll := func(int) bool { return true }
	addKeep := func(stream []byte, chunks [][]byte, keep func(int) bool, lag time.Duration, kind, tag string) {
		res := runKeep(chunks, keep, lag, 5*time.Second)
		js := caseJSON{Segments: [][]int{ints(stream)}, End: "eof", Items: res.Items, EOFs: res.EOFs, Kind: kind}
		if !lifecycle(res, js) {
			return
		}
		trunc.Add(hx.Tuple(parsehx.CoqSegments([][]byte{stream}), parsehx.CoqItems(res.Items, res.EOFs)), js, true, tag)
	}
	for i, a := range firsts {
		for j, b := range followers {
			stream := []byte(a + b)
			if (i+j)%3 == 0 {
				stream = append(stream, "x\x1b[?u\x1b(0"...)
			}
			lag := time.Duration(0)
			if (i+j)%2 == 0 {
				lag = 300 * time.Microsecond
			}
			addKeep(stream, [][]byte{stream}, keepAll, lag, "retain-class", "retain-class")
		}
	}
	// random: carriers mixed with arbitrary elements, any read chunking, consumers that keep
	// all / every other / a random half of the sequences and hand the rest back at once
	nKeep := 150
	if cfg.Thorough() {
		nKeep = 4000
	}
	for i := 0; i < nKeep; i++ {
		var b []byte
		for k := 2 + cfg.Rand.Intn(5); k > 0; k-- {
			if cfg.Rand.Intn(4) == 0 {
				e, _ := parsehx.Element(cfg.Rand)
				b = append(b, e...)
			} else {
				b = append(b, carrier(cfg.Rand)...)
			}
		}
		chunks := [][]byte{b}
		if cfg.Rand.Intn(3) == 0 {
			cs := parsehx.Chunkings(cfg.Rand, b, 3)
			chunks = cs[cfg.Rand.Intn(len(cs))]
		}
		mask := cfg.Rand.Uint64()
		var keep func(int) bool
		policy := ""
		switch cfg.Rand.Intn(3) {
		case 0:
			keep, policy = keepAll, "keep-all"
		case 1:
			keep, policy = func(i int) bool { return i%2 == 0 }, "keep-every-other"
		default:
			keep, policy = func(i int) bool { return mask>>(uint(i)%64)&1 == 1 }, "keep-random-half"
		}
		lag := time.Duration(cfg.Rand.Intn(3)) * 150 * time.Microsecond
		addKeep(b, chunks, keep, lag, "retain-random "+policy, "retain-random")
	}

	// 1d. PARTIAL hand-back (stream "retain"): the consumer hands some sequences back with Finish
	// and keeps the others, so the pools are neither empty (keep everything) nor in step with the
	// consumer (finish everything): storage that came back is handed out again while sequences
	// delivered in between are still held.  Bursts of sequences of every family that takes storage
	// from a pool (CSIs with 2..7 parameters, sub-parameters, private marker + intermediates,
	// ESC / DCS with intermediates) and of the data-carrying kinds, all numbers distinct within a
	// stream; policies: finish every k-th sequence (k = 2..6, every offset) and keep the rest,
	// finish a prefix then keep everything, a random subset; consumer in step or lagging.  Every
	// kept buffer-carrying sequence is rendered again after the parser stopped; the case carries
	// (input, delivered deep copies, position and later reading of each kept sequence).
	retain := hx.NewStream("retain", "model.Parser model.ParserCheck model.ParserRetain", "rcase", "c08_retain_mismatches", "c08_retain_violations")
	retain.ShardMax = 50
	if cfg.Thorough() {
		retain.ShardMax = 150
	}
	addRetain := func(stream []byte, chunks [][]byte, keep func(int) bool, lag time.Duration, policy, tag string) {
		res, later := runKeepLater(chunks, keep, lag, 5*time.Second)
		js := map[string]interface{}{"segments": [][]int{ints(stream)}, "end": "eof", "items": res.Items, "eofs": res.EOFs,
			"kind": "retain-partial", "policy": policy, "kept_read_later": later, "input": string(stream)}
		if res.Hung || res.Panic != "" || !res.Closed || res.AfterEOF != 0 {
			mu.Lock()
			direct = append(direct, hx.DirectViolation{Class: "parser-lifecycle", Case: js,
				What: fmt.Sprintf("hung=%v panic=%q closed=%v eofs=%d afterEOF=%d", res.Hung, res.Panic, res.Closed, res.EOFs, res.AfterEOF)})
			mu.Unlock()
			return
		}
		var ls []string
		for _, l := range later {
			it := parsehx.CoqItems([]parsehx.Item{l.Item}, 0)
			ls = append(ls, hx.Tuple(hx.Z(int64(l.Pos)), "("+it[1:len(it)-1]+")"))
		}
		retain.Add(hx.Tuple(parsehx.CoqSegments([][]byte{stream}), parsehx.CoqItems(res.Items, res.EOFs), hx.List(ls)), js, len(later) > 0, tag)
	}
	burst := func(kind string, count int, r *rand.Rand) []byte {
		n := 0
		var b []byte
		for i := 0; i < count; i++ {
			b = append(b, burstSeq(kind, &n, r)...)
		}
		return b
	}
	// directed: every family x "finish every k-th" for k = 2..5 at a rotating offset
	for ki, kind := range burstKinds {
		for k := 2; k <= 5; k++ {
			stream := burst(kind, 16, nil)
			keep, policy := handBack(k, ki+k)
			lag := time.Duration(0)
			if (ki+k)%3 == 0 {
				lag = 200 * time.Microsecond
			}
			addRetain(stream, [][]byte{stream}, keep, lag, policy, "retain-partial directed")
		}
	}
	// directed: a multi-parameter sequence handed back, then sequences with parameters kept (every
	// pair of parameter counts 1..5 for the handed-back and the kept ones)
	for a := 1; a <= 5; a++ {
		for b := 1; b <= 5; b++ {
			n := 0
			var stream []byte
			for round := 0; round < 4; round++ {
				stream = append(stream, burstSeq("csi-"+strconv.Itoa(a), &n, nil)...)
				for j := 0; j < 3; j++ {
					stream = append(stream, burstSeq("csi-"+strconv.Itoa(b), &n, nil)...)
				}
			}
			addRetain(stream, [][]byte{stream}, func(i int) bool { return i%4 != 0 }, 0,
				fmt.Sprintf("finish the CSI with %d parameter(s) that opens each group of four, keep the three with %d that follow", a, b), "retain-partial directed")
		}
	}
	// random: mixed bursts, any policy, any read chunking, consumer in step or lagging
	nPartial := 70
	if cfg.Thorough() {
		nPartial = 3000
	}
	for i := 0; i < nPartial; i++ {
		kind := burstKinds[cfg.Rand.Intn(len(burstKinds))]
		if cfg.Rand.Intn(2) == 0 {
			kind = "mixed"
		}
		stream := burst(kind, 8+cfg.Rand.Intn(17), cfg.Rand)
		chunks := [][]byte{stream}
		if cfg.Rand.Intn(3) == 0 {
			cs := parsehx.Chunkings(cfg.Rand, stream, 3)
			chunks = cs[cfg.Rand.Intn(len(cs))]
		}
		var keep func(int) bool
		policy := ""
		switch cfg.Rand.Intn(4) {
		case 0, 1:
			keep, policy = handBack(2+cfg.Rand.Intn(5), cfg.Rand.Intn(6))
		case 2:
			j := 1 + cfg.Rand.Intn(6)
			keep, policy = func(i int) bool { return i >= j }, fmt.Sprintf("finish the first %d sequences, keep the rest", j)
		default:
			mask, d := cfg.Rand.Uint64()&cfg.Rand.Uint64(), cfg.Rand.Intn(64)
			keep, policy = func(i int) bool { return mask>>(uint(i+d)%64)&1 == 0 }, fmt.Sprintf("finish a random quarter (mask %x, shift %d), keep the rest", mask, d)
		}
		lag := time.Duration(cfg.Rand.Intn(3)) * 150 * time.Microsecond
		addRetain(stream, chunks, keep, lag, policy, "retain-partial random")
	}

	// 2. Escape timing: segments separated by real silence (40 ms >> the 10 ms timer)
	heads := []string{"", "a", "\x1b[1", "\x1b]ab", "\x1b]", "\x1bPq", "\x1bPqz", "\x1b_G", "\x1bX", "\x1bO", "\x1b ", "\x1b[1;2", "é"}
	tails := []string{"", "a", "\\", "[A", "\x1b\\", "\x1b", "OP", "]x\x07", "\x18", "é"}
	type tc struct {
		segs [][]byte
	}
	var tcs []tc
	for _, h := range heads {
		for _, t := range tails {
			tcs = append(tcs, tc{[][]byte{[]byte(h + "\x1b"), []byte(t)}})
		}
	}
	for _, h := range heads {
		tcs = append(tcs, tc{[][]byte{[]byte(h), []byte("\x1b"), []byte("\x1b"), []byte("b")}})
		tcs = append(tcs, tc{[][]byte{[]byte(h + "\x1b\x1b"), []byte("\\x")}})
		tcs = append(tcs, tc{[][]byte{[]byte(h + "\x1bb"), []byte("c")}}) // prompt: no Escape
	}
	if !cfg.Thorough() {
		// keep the quick tier short: a deterministic third of the table plus random picks
		var sel []tc
		for i, c := range tcs {
			if i%3 == int(cfg.Seed%3) || cfg.Rand.Intn(6) == 0 {
				sel = append(sel, c)
			}
		}
		tcs = sel
	}
	runTiming := func(c tc) parsehx.Result {
		var chunks [][]byte
		gaps := map[int]bool{}
		for i, s := range c.segs {
			if i > 0 {
				gaps[len(chunks)] = true
			}
			chunks = append(chunks, s)
		}
		return parsehx.Run(&parsehx.ChunkReader{Chunks: chunks, GapAt: gaps, Gap: 40 * time.Millisecond}, true, 10*time.Second)
	}
	type tres struct {
		c    tc
		res  parsehx.Result
		term string
		runs int
	}
	results := make([]tres, len(tcs))
	sem := make(chan struct{}, 24)
	var wg sync.WaitGroup
	for i, c := range tcs {
		wg.Add(1)
		sem <- struct{}{}
		go func(i int, c tc) {
			defer wg.Done()
			defer func() { <-sem }()
			// real time is involved: a machine stall can move an arrival across the
			// 10 ms boundary. Take the majority of up to three runs.
			a := runTiming(c)
			b := runTiming(c)
			ta, tb := parsehx.CoqItems(a.Items, a.EOFs), parsehx.CoqItems(b.Items, b.EOFs)
			r := tres{c: c, res: a, term: ta, runs: 2}
			if ta != tb {
				c3 := runTiming(c)
				r.runs = 3
				if parsehx.CoqItems(c3.Items, c3.EOFs) == tb {
					r.res, r.term = b, tb
				}
			}
			results[i] = r
		}(i, c)
	}
	wg.Wait()
	unstable := 0
	for _, r := range results {
		var segs [][]int
		for _, s := range r.c.segs {
			segs = append(segs, ints(s))
		}
		js := caseJSON{Segments: segs, End: "eof", Items: r.res.Items, EOFs: r.res.EOFs, Kind: "timing"}
		if r.runs == 3 {
			unstable++
		}
		if !lifecycle(r.res, js) {
			continue
		}
		timing.Add(hx.Tuple(parsehx.CoqSegments(r.c.segs), r.term), js, true, fmt.Sprintf("%d segments", len(r.c.segs)))
	}

	// 3. Close followed by the reader returning stops the parser although input never ends
	closeRuns := 0
	for _, first := range []string{"", "ab", "\x1b", "\x1b[1", "\x1b]abc"} {
		br := &blockingReader{first: []byte(first), release: make(chan struct{})}
		p := ansi.NewParser(br)
		done := make(chan int)
		go func() {
			n := 0
			eofs := 0
			for seq := range p.Next() {
				if _, ok := seq.(ansi.EOF); ok {
					eofs++
				}
				n++
				p.Finish(seq)
			}
			done <- eofs
		}()
		time.Sleep(30 * time.Millisecond)
		p.Close()
		close(br.release)
		closeRuns++
		select {
		case eofs := <-done:
			if eofs != 1 {
				direct = append(direct, hx.DirectViolation{Class: "close-stops", Case: first, What: fmt.Sprintf("%d end markers after Close", eofs)})
			}
			if !hx.WithTimeout(time.Second, p.WaitClose) {
				direct = append(direct, hx.DirectViolation{Class: "close-stops", Case: first, What: "WaitClose does not return after the channel closed"})
			}
		case <-time.After(3 * time.Second):
			direct = append(direct, hx.DirectViolation{Class: "close-stops", Case: first, What: "parser keeps running after Close although the reader returned"})
		}
	}
	// 3b. the same with ESC as the wake-up byte (what Suspend provokes), in a child process
	{
		cmd := exec.Command(os.Args[0])
		cmd.Env = append(os.Environ(), "C08_CHILD=close-esc")
		out, err := cmd.CombinedOutput()
		closeRuns++
		if err != nil {
			tail := string(out)
			if len(tail) > 400 {
				tail = tail[len(tail)-400:]
			}
			direct = append(direct, hx.DirectViolation{Class: "close-stops", Case: "Close(), then the reader returns a single ESC byte",
				What: fmt.Sprintf("child process failed: %v: %s", err, tail)})
		}
	}
	// 4. the Escape timer against the end of the run loop / the next rune, under real scheduling
	race := hx.NewStream("race", "model.Parser model.ParserRace", "race_case", "c08_race_mismatches", "c08_race_violations")
	{
		children := 6
		if cfg.Thorough() {
			children = 24
		}
		for c := 0; c < children; c++ {
			cmd := exec.Command(os.Args[0])
			cmd.Env = append(os.Environ(), "C08_CHILD=race")
			if cfg.Thorough() {
				cmd.Env = append(cmd.Env, "C08_RACE_LONG=1")
			}
			out, err := cmd.CombinedOutput()
			attempts, hangs, garbled, panics := 0, 0, 0, 0
			what := ""
			for _, l := range strings.Split(string(out), "\n") {
				if strings.HasPrefix(l, "RACE ") {
					f := strings.SplitN(l, " ", 5)
					attempts, _ = strconv.Atoi(f[1])
					hangs, _ = strconv.Atoi(f[2])
					garbled, _ = strconv.Atoi(f[3])
					if len(f) > 4 {
						what = f[4]
					}
				}
			}
			if err != nil {
				panics = 1
				tail := string(out)
				if k := strings.Index(tail, "panic:"); k >= 0 {
					tail = tail[k:]
				}
				if len(tail) > 300 {
					tail = tail[:300]
				}
				what = tail
			}
			race.Add(hx.Tuple(hx.Z(int64(attempts)), hx.Z(int64(panics)), hx.Z(int64(hangs+garbled))),
				map[string]interface{}{"stream": "race", "input": "ESC, then about 10 ms later (jitter +-0.3 ms) the end of input or the bytes \"[A\", on many parsers in parallel in a child process",
					"attempts": attempts, "child_panicked": panics, "hangs": hangs, "garbled": garbled, "what": what},
				true, "child")
		}
	}
	cfg.Write("C08", "race: child processes stress ESC followed about 10 ms later by the end of input or by \"[A\" (a send on the closed channel panics the child; a late callback garbles ESC [ A); truncate: grammar-generated streams cut at EVERY byte offset, ended by EOF or by a read error (alternating), read in one or two chunks, half of the runs retaining every delivered sequence without Finish (deep copies compared at the end); retain-pair / retain-class / retain-random: sequences of every buffer-carrying kind with and without private marker, intermediates, parameters and data, kept without Finish (all, every other, a random half) by a consumer that may lag behind, followed by sequences that collect intermediates / parameters / data (complete, cut by the end of input, cancelled), deep copies taken on delivery compared with the kept originals at the end; retain: PARTIAL hand-back - bursts of 8..24 sequences of every family that takes storage from the parser's pools (CSIs with 1..7 parameters and sub-parameters, private marker + intermediates, ESC / DCS with intermediates) or carries data, all numbers distinct within a stream, consumer finishes every k-th sequence (k = 2..6, every offset) / a prefix / a random quarter and KEEPS the rest, in step or lagging, any read chunking; each kept sequence is read again after the parser stopped and the case carries its position and that reading (predicate: it reads as delivered); timing: heads that leave the parser in each kind of state, then ESC, then 40 ms of real silence, then a tail (majority of up to three runs because real time is involved); close: Close() on a parser blocked in a read whose reader then returns forever. non-trivial = strictly inside the stream / at least one kept buffer-carrying sequence (retain) / any timing case",
		[]*hx.Stream{trunc, retain, timing, race}, map[string]interface{}{"timing_cases_needing_third_run": unstable, "close_runs": closeRuns}, direct)
}
