// Harness for C08: parser lifecycle (end of input / read error at every
// offset, retained sequences, Close) and Escape-key timing with real gaps.
package main

import (
	"errors"
	"fmt"
	"io"
	"os"
	"os/exec"
	"runtime"
	"strconv"
	"strings"
	"sync"
	"time"

	"git.sr.ht/~rockorager/vaxis/ansi"
	"verif/harness/hx"
	"verif/harness/parsehx"
)

type caseJSON struct {
	Segments [][]int        `json:"segments"`
	End      string         `json:"end"`
	Items    []parsehx.Item `json:"items"`
	EOFs     int            `json:"eofs"`
	Kind     string         `json:"kind"`
}

func ints(b []byte) []int {
	out := make([]int, len(b))
	for i, x := range b {
		out[i] = int(x)
	}
	return out
}

// blockingReader delivers first, then blocks until released, then returns 'x' forever
type blockingReader struct {
	first   []byte
	release chan struct{}
	served  bool
}

func (b *blockingReader) Read(p []byte) (int, error) {
	if !b.served {
		b.served = true
		return copy(p, b.first), nil
	}
	<-b.release
	p[0] = 'x'
	return 1, nil
}

// escReader delivers first, blocks until released, then returns one ESC byte and then blocks forever
type escReader struct {
	first   []byte
	release chan struct{}
	n       int
}

func (b *escReader) Read(p []byte) (int, error) {
	b.n++
	switch b.n {
	case 1:
		if len(b.first) > 0 {
			return copy(p, b.first), nil
		}
		fallthrough
	case 2:
		<-b.release
		p[0] = 0x1b
		return 1, nil
	}
	select {}
}

// closeWithEsc is what Vaxis.Suspend does: Close, then the terminal's DA1 reply (which starts
// with ESC) wakes the reader.  Run in a child process: a timer firing after the channel was
// closed would panic the whole process.
func closeWithEsc() {
	for _, first := range []string{"", "ab", "\x1b]abc"} {
		br := &escReader{first: []byte(first), release: make(chan struct{})}
		p := ansi.NewParser(br)
		done := make(chan struct{})
		go func() {
			for seq := range p.Next() {
				p.Finish(seq)
			}
			close(done)
		}()
		time.Sleep(20 * time.Millisecond)
		p.Close()
		close(br.release)
		select {
		case <-done:
		case <-time.After(3 * time.Second):
			fmt.Println("parser did not stop after Close + ESC")
			os.Exit(3)
		}
		time.Sleep(40 * time.Millisecond) // an escape timer left armed would fire now
	}
	os.Exit(0)
}

// raceChild stresses the Escape timer against the end of the run loop and against the next
// rune: many parsers in parallel, each fed ESC and then, about 10 ms later (the timer's delay,
// with jitter on both sides), either the end of input or the bytes "[A".  A callback that sends
// after the channel was closed panics the whole process (that is why this is a child); a
// callback that runs after the "[" was handled turns ESC [ A into Escape, "A".  Prints
// "<attempts> <hangs> <garbled>" and exits 0; a panic ends the process with Go's exit status 2.
func raceChild() {
	workers, rounds := 48, 10
	if os.Getenv("C08_RACE_LONG") != "" {
		workers, rounds = 64, 60
	}
	var wg sync.WaitGroup
	var mu sync.Mutex
	attempts, hangs, garbled := 0, 0, 0
	garbledWhat := ""
	for w := 0; w < workers; w++ {
		wg.Add(1)
		go func(w int) {
			defer wg.Done()
			for i := 0; i < rounds; i++ {
				pr, pw := io.Pipe()
				p := ansi.NewParser(pr)
				done := make(chan []string, 1)
				go func() {
					var got []string
					for seq := range p.Next() {
						got = append(got, fmt.Sprintf("%T", seq))
						p.Finish(seq)
					}
					done <- got
				}()
				_, _ = pw.Write([]byte{0x1b})
				d := 10*time.Millisecond + time.Duration(((w*rounds+i)*37)%600-300)*time.Microsecond
				t0 := time.Now()
				for time.Since(t0) < d {
					runtime.Gosched()
				}
				tail := (w+i)%2 == 1
				if tail {
					_, _ = pw.Write([]byte("[A"))
				}
				_ = pw.Close()
				select {
				case got := <-done:
					if tail {
						s := strings.Join(got, " ")
						okSeq := s == "ansi.CSI ansi.EOF"
						okEsc := s == "ansi.C0 ansi.Print ansi.Print ansi.EOF"
						if !okSeq && !okEsc {
							mu.Lock()
							garbled++
							garbledWhat = s
							mu.Unlock()
						}
					}
				case <-time.After(5 * time.Second):
					mu.Lock()
					hangs++
					mu.Unlock()
				}
				mu.Lock()
				attempts++
				mu.Unlock()
			}
		}(w)
	}
	wg.Wait()
	time.Sleep(30 * time.Millisecond) // callbacks still outstanding run now
	fmt.Printf("RACE %d %d %d %s\n", attempts, hangs, garbled, garbledWhat)
	os.Exit(0)
}

func main() {
	if os.Getenv("C08_CHILD") == "close-esc" {
		closeWithEsc()
	}
	if os.Getenv("C08_CHILD") == "race" {
		raceChild()
	}
	cfg := hx.ParseFlags()
	trunc := hx.NewStream("truncate", "model.Parser model.ParserCheck", "pcase", "c08_mismatches", "c08_violations")
	timing := hx.NewStream("timing", "model.Parser model.ParserCheck", "pcase", "c08_mismatches", "c08_violations")
	var direct []hx.DirectViolation
	var mu sync.Mutex
	lifecycle := func(res parsehx.Result, js caseJSON) bool {
		if res.Hung || res.Panic != "" || !res.Closed || res.AfterEOF != 0 || res.Mutated != "" {
			mu.Lock()
			direct = append(direct, hx.DirectViolation{Class: "parser-lifecycle", Case: js,
				What: fmt.Sprintf("hung=%v panic=%q closed=%v eofs=%d afterEOF=%d mutated=%q", res.Hung, res.Panic, res.Closed, res.EOFs, res.AfterEOF, res.Mutated)})
			mu.Unlock()
			return false
		}
		return true
	}

	// 1. end of input or read error at every byte offset; half of the runs retain every sequence
	nStreams := 120
	if cfg.Thorough() {
		nStreams = 3000
	}
	for i := 0; i < nStreams; i++ {
		var b []byte
		for k := 1 + cfg.Rand.Intn(3); k > 0; k-- {
			e, _ := parsehx.Element(cfg.Rand)
			b = append(b, e...)
		}
		for cut := 0; cut <= len(b); cut++ {
			prefix := b[:cut]
			var err error
			end := "eof"
			if (cut+i)%2 == 1 {
				err = errors.New("read error")
				end = "error"
			}
			chunks := [][]byte{prefix}
			if cut > 2 && i%3 == 0 {
				chunks = [][]byte{prefix[:cut/2], prefix[cut/2:]}
			}
			res := parsehx.Run(&parsehx.ChunkReader{Chunks: chunks, Err: err}, i%2 == 0, 5*time.Second)
			js := caseJSON{Segments: [][]int{ints(prefix)}, End: end, Items: res.Items, EOFs: res.EOFs, Kind: "truncate"}
			if !lifecycle(res, js) {
				continue
			}
			trunc.Add(hx.Tuple(parsehx.CoqSegments([][]byte{prefix}), parsehx.CoqItems(res.Items, res.EOFs)), js, cut > 0 && cut < len(b), end)
		}
	}

	// 1b. hand-off: every ordered pair of sequences that carry a buffer (same or different kind,
	// second one shorter, equal or longer), consumer retains everything without Finish
	carriers := []string{"\x1b]0;title-one\x07", "\x1b]8;;http://example.com\x1b\\", "\x1b]1\x07", "\x1bP1;2$qdata-one\x1b\\", "\x1bPqz\x1b\\",
		"\x1b_Gapc-payload-one\x1b\\", "\x1b_x\x1b\\", "\x1b[1;2;3 q", "\x1b[38:2:1:2:3;4:3m", "\x1b[?1$p", "\x1b#3", "\x1b (B", "\x1b[<0;10;20M"}
	for _, a := range carriers {
		for _, b := range carriers {
			for _, tail := range []string{"", "x\x1b]long-long-long-long-payload\x07\x1b[9;8;7;6;5;4 r"} {
				stream := []byte(a + b + tail)
				res := parsehx.Run(&parsehx.ChunkReader{Chunks: [][]byte{stream}}, false, 5*time.Second)
				js := caseJSON{Segments: [][]int{ints(stream)}, End: "eof", Items: res.Items, EOFs: res.EOFs, Kind: "retain-pair"}
				if !lifecycle(res, js) {
					continue
				}
				trunc.Add(hx.Tuple(parsehx.CoqSegments([][]byte{stream}), parsehx.CoqItems(res.Items, res.EOFs)), js, true, "retain-pair")
			}
		}
	}

	// 2. Escape timing: segments separated by real silence (40 ms >> the 10 ms timer)
	heads := []string{"", "a", "\x1b[1", "\x1b]ab", "\x1b]", "\x1bPq", "\x1bPqz", "\x1b_G", "\x1bX", "\x1bO", "\x1b ", "\x1b[1;2", "é"}
	tails := []string{"", "a", "\\", "[A", "\x1b\\", "\x1b", "OP", "]x\x07", "\x18", "é"}
	type tc struct {
		segs [][]byte
	}
	var tcs []tc
	for _, h := range heads {
		for _, t := range tails {
			tcs = append(tcs, tc{[][]byte{[]byte(h + "\x1b"), []byte(t)}})
		}
	}
	for _, h := range heads {
		tcs = append(tcs, tc{[][]byte{[]byte(h), []byte("\x1b"), []byte("\x1b"), []byte("b")}})
		tcs = append(tcs, tc{[][]byte{[]byte(h + "\x1b\x1b"), []byte("\\x")}})
		tcs = append(tcs, tc{[][]byte{[]byte(h + "\x1bb"), []byte("c")}}) // prompt: no Escape
	}
	if !cfg.Thorough() {
		// keep the quick tier short: a deterministic third of the table plus random picks
		var sel []tc
		for i, c := range tcs {
			if i%3 == int(cfg.Seed%3) || cfg.Rand.Intn(6) == 0 {
				sel = append(sel, c)
			}
		}
		tcs = sel
	}
	runTiming := func(c tc) parsehx.Result {
		var chunks [][]byte
		gaps := map[int]bool{}
		for i, s := range c.segs {
			if i > 0 {
				gaps[len(chunks)] = true
			}
			chunks = append(chunks, s)
		}
		return parsehx.Run(&parsehx.ChunkReader{Chunks: chunks, GapAt: gaps, Gap: 40 * time.Millisecond}, true, 10*time.Second)
	}
	type tres struct {
		c    tc
		res  parsehx.Result
		term string
		runs int
	}
	results := make([]tres, len(tcs))
	sem := make(chan struct{}, 24)
	var wg sync.WaitGroup
	for i, c := range tcs {
		wg.Add(1)
		sem <- struct{}{}
		go func(i int, c tc) {
			defer wg.Done()
			defer func() { <-sem }()
			// real time is involved: a machine stall can move an arrival across the
			// 10 ms boundary. Take the majority of up to three runs.
			a := runTiming(c)
			b := runTiming(c)
			ta, tb := parsehx.CoqItems(a.Items, a.EOFs), parsehx.CoqItems(b.Items, b.EOFs)
			r := tres{c: c, res: a, term: ta, runs: 2}
			if ta != tb {
				c3 := runTiming(c)
				r.runs = 3
				if parsehx.CoqItems(c3.Items, c3.EOFs) == tb {
					r.res, r.term = b, tb
				}
			}
			results[i] = r
		}(i, c)
	}
	wg.Wait()
	unstable := 0
	for _, r := range results {
		var segs [][]int
		for _, s := range r.c.segs {
			segs = append(segs, ints(s))
		}
		js := caseJSON{Segments: segs, End: "eof", Items: r.res.Items, EOFs: r.res.EOFs, Kind: "timing"}
		if r.runs == 3 {
			unstable++
		}
		if !lifecycle(r.res, js) {
			continue
		}
		timing.Add(hx.Tuple(parsehx.CoqSegments(r.c.segs), r.term), js, true, fmt.Sprintf("%d segments", len(r.c.segs)))
	}

	// 3. Close followed by the reader returning stops the parser although input never ends
	closeRuns := 0
	for _, first := range []string{"", "ab", "\x1b", "\x1b[1", "\x1b]abc"} {
		br := &blockingReader{first: []byte(first), release: make(chan struct{})}
		p := ansi.NewParser(br)
		done := make(chan int)
		go func() {
			n := 0
			eofs := 0
			for seq := range p.Next() {
				if _, ok := seq.(ansi.EOF); ok {
					eofs++
				}
				n++
				p.Finish(seq)
			}
			done <- eofs
		}()
		time.Sleep(30 * time.Millisecond)
		p.Close()
		close(br.release)
		closeRuns++
		select {
		case eofs := <-done:
			if eofs != 1 {
				direct = append(direct, hx.DirectViolation{Class: "close-stops", Case: first, What: fmt.Sprintf("%d end markers after Close", eofs)})
			}
			if !hx.WithTimeout(time.Second, p.WaitClose) {
				direct = append(direct, hx.DirectViolation{Class: "close-stops", Case: first, What: "WaitClose does not return after the channel closed"})
			}
		case <-time.After(3 * time.Second):
			direct = append(direct, hx.DirectViolation{Class: "close-stops", Case: first, What: "parser keeps running after Close although the reader returned"})
		}
	}
	// 3b. the same with ESC as the wake-up byte (what Suspend provokes), in a child process
	{
		cmd := exec.Command(os.Args[0])
		cmd.Env = append(os.Environ(), "C08_CHILD=close-esc")
		out, err := cmd.CombinedOutput()
		closeRuns++
		if err != nil {
			tail := string(out)
			if len(tail) > 400 {
				tail = tail[len(tail)-400:]
			}
			direct = append(direct, hx.DirectViolation{Class: "close-stops", Case: "Close(), then the reader returns a single ESC byte",
				What: fmt.Sprintf("child process failed: %v: %s", err, tail)})
		}
	}
	// 4. the Escape timer against the end of the run loop / the next rune, under real scheduling
	race := hx.NewStream("race", "model.Parser model.ParserRace", "race_case", "c08_race_mismatches", "c08_race_violations")
	{
		children := 6
		if cfg.Thorough() {
			children = 24
		}
		for c := 0; c < children; c++ {
			cmd := exec.Command(os.Args[0])
			cmd.Env = append(os.Environ(), "C08_CHILD=race")
			if cfg.Thorough() {
				cmd.Env = append(cmd.Env, "C08_RACE_LONG=1")
			}
			out, err := cmd.CombinedOutput()
			attempts, hangs, garbled, panics := 0, 0, 0, 0
			what := ""
			for _, l := range strings.Split(string(out), "\n") {
				if strings.HasPrefix(l, "RACE ") {
					f := strings.SplitN(l, " ", 5)
					attempts, _ = strconv.Atoi(f[1])
					hangs, _ = strconv.Atoi(f[2])
					garbled, _ = strconv.Atoi(f[3])
					if len(f) > 4 {
						what = f[4]
					}
				}
			}
			if err != nil {
				panics = 1
				tail := string(out)
				if k := strings.Index(tail, "panic:"); k >= 0 {
					tail = tail[k:]
				}
				if len(tail) > 300 {
					tail = tail[:300]
				}
				what = tail
			}
			race.Add(hx.Tuple(hx.Z(int64(attempts)), hx.Z(int64(panics)), hx.Z(int64(hangs+garbled))),
				map[string]interface{}{"stream": "race", "input": "ESC, then about 10 ms later (jitter +-0.3 ms) the end of input or the bytes \"[A\", on many parsers in parallel in a child process",
					"attempts": attempts, "child_panicked": panics, "hangs": hangs, "garbled": garbled, "what": what},
				true, "child")
		}
	}
	cfg.Write("C08", "race: child processes stress ESC followed about 10 ms later by the end of input or by \"[A\" (a send on the closed channel panics the child; a late callback garbles ESC [ A); truncate: grammar-generated streams cut at EVERY byte offset, ended by EOF or by a read error (alternating), read in one or two chunks, half of the runs retaining every delivered sequence without Finish (deep copies compared at the end); timing: heads that leave the parser in each kind of state, then ESC, then 40 ms of real silence, then a tail (majority of up to three runs because real time is involved); close: Close() on a parser blocked in a read whose reader then returns forever. non-trivial = strictly inside the stream / any timing case",
		[]*hx.Stream{trunc, timing, race}, map[string]interface{}{"timing_cases_needing_third_run": unstable, "close_runs": closeRuns}, direct)
}
