// Harness for C16: runs the real soft-wrap scanners (vxfw/text, vxfw/richtext), the
// hard-wrap scanner and the Draw functions and writes Coq cases.
//
// The third-party segmentation (uniseg) is an oracle: every case carries the table of the
// library's own answers for the queries reachable for that input; the model never gets
// a default for a query outside the table.
package main

import (
	"bytes"
	"fmt"
	"strings"
	"time"
	"unicode"
	"unicode/utf8"

	vaxis "git.sr.ht/~rockorager/vaxis"
	"git.sr.ht/~rockorager/vaxis/vxfw"
	"git.sr.ht/~rockorager/vaxis/vxfw/richtext"
	"git.sr.ht/~rockorager/vaxis/vxfw/text"
	"github.com/rivo/uniseg"
	"verif/harness/hx"
)

type cluster struct {
	g     string
	w     int
	style int
}

func cellTerm(c cluster) string {
	if utf8.RuneCountInString(c.g) == 1 && utf8.ValidString(c.g) {
		r, _ := utf8.DecodeRuneInString(c.g)
		if c.style == 0 {
			return "(c1 " + hx.Z(int64(r)) + " " + hx.Z(int64(c.w)) + ")"
		}
		return "(cs " + hx.Z(int64(r)) + " " + hx.Z(int64(c.w)) + " " + hx.Z(int64(c.style)) + ")"
	}
	return "(mkCell " + hx.Runes(c.g) + " " + hx.Z(int64(c.w)) + " " + hx.Z(int64(c.style)) + ")"
}

func cellsTerm(cs []cluster) string {
	s := make([]string, len(cs))
	for i, c := range cs {
		s[i] = cellTerm(c)
	}
	return hx.List(s)
}

func boolsTerm(bs []bool) string {
	s := make([]string, len(bs))
	for i, b := range bs {
		s[i] = hx.Bool(b)
	}
	return hx.List(s)
}

// segment re-expresses vaxis.Characters(s) as clusters of s: Characters expands a tab into
// eight one-column spaces, which is folded back into one cluster "\t" of width 8.
// ok=false when the characters do not tile s.
func segment(s string) (cs []cluster, ok bool) {
	chars := vaxis.Characters(s)
	pos := 0
	for i := 0; i < len(chars); {
		ch := chars[i]
		if strings.HasPrefix(s[pos:], ch.Grapheme) && ch.Grapheme != "" && !(ch.Grapheme == " " && s[pos] == '\t') {
			cs = append(cs, cluster{ch.Grapheme, ch.Width, 0})
			pos += len(ch.Grapheme)
			i++
			continue
		}
		if pos < len(s) && s[pos] == '\t' && i+8 <= len(chars) {
			all := true
			for j := 0; j < 8; j++ {
				if chars[i+j].Grapheme != " " || chars[i+j].Width != 1 {
					all = false
				}
			}
			if all {
				cs = append(cs, cluster{"\t", 8, 0})
				pos++
				i += 8
				continue
			}
		}
		return nil, false
	}
	return cs, pos == len(s)
}

func lastRuneIsSpace(g string) bool {
	r, _ := utf8.DecodeLastRuneInString(g)
	return unicode.IsSpace(r)
}

func flags(cs []cluster) (sp, bk []bool) {
	for _, c := range cs {
		sp = append(sp, lastRuneIsSpace(c.g))
		bk = append(bk, uniseg.HasTrailingLineBreakInString(c.g))
	}
	return
}

func sumWidth(cs []cluster) int {
	n := 0
	for _, c := range cs {
		n += c.w
	}
	return n
}

// runGuarded runs f and reports 0 ok / 1 panic / 2 no answer within the time limit.
func runGuarded(f func()) int {
	done := make(chan int, 1)
	go func() {
		p, _ := hx.Catch(f)
		if p {
			done <- 1
		} else {
			done <- 0
		}
	}()
	select {
	case c := <-done:
		return c
	case <-time.After(3 * time.Second):
		return 2
	}
}

var ctx = vxfw.DrawContext{Characters: vaxis.Characters}

// ---------------------------------------------------------------- plain scanner

type plainKey struct{ idx, st int }

func charsWidth(str string) int {
	n := 0
	for _, ch := range vaxis.Characters(str) {
		n += ch.Width
	}
	return n
}

// atomize cuts s into the pieces the plain scanner can tell apart: the grapheme clusters of
// the whole text, refined where a line segment of uniseg (or the trimmed word of one, or a
// grapheme of ctx.Characters(word)) ends inside a cluster (uniseg documents that its line
// breaking may break within grapheme clusters, e.g. between a space and a combining mark).
// The width of an atom is what ctx.Characters measures for it on its own.
func atomize(s string) (atoms []cluster, ok bool) {
	cs, ok := segment(s)
	if !ok {
		return nil, false
	}
	bounds := map[int]bool{0: true}
	o := 0
	for _, c := range cs {
		o += len(c.g)
		bounds[o] = true
	}
	type q struct{ off, st int }
	for iter := 0; iter < 20; iter++ {
		changed := false
		seen := map[q]bool{}
		queue := []q{{0, -1}}
		for len(queue) > 0 {
			k := queue[0]
			queue = queue[1:]
			if seen[k] || k.off >= len(s) {
				continue
			}
			seen[k] = true
			seg, _, _, st := uniseg.FirstLineSegment([]byte(s[k.off:]), k.st)
			word := bytes.TrimRightFunc(seg, unicode.IsSpace)
			need := []int{k.off + len(seg), k.off + len(word)}
			p := k.off
			tiles := true
			for _, ch := range vaxis.Characters(string(word)) {
				if !strings.HasPrefix(s[p:], ch.Grapheme) || ch.Grapheme == "" {
					tiles = false
					break
				}
				p += len(ch.Grapheme)
				need = append(need, p)
			}
			if !tiles {
				need = need[:2]
			}
			for _, n := range need {
				if !bounds[n] {
					bounds[n] = true
					changed = true
				}
			}
			queue = append(queue, q{k.off + len(seg), st})
			for b := k.off; b <= k.off+len(word); b++ {
				if bounds[b] {
					queue = append(queue, q{b, -1})
				}
			}
		}
		if !changed {
			break
		}
	}
	prev := 0
	for b := 1; b <= len(s); b++ {
		if bounds[b] {
			piece := s[prev:b]
			w := charsWidth(piece)
			atoms = append(atoms, cluster{piece, w, 0})
			prev = b
		}
	}
	return atoms, true
}

// oracleTable computes the closure of FirstLineSegment queries reachable from (0,-1):
// threading (idx+n, newState) and restarting inside a word (idx+k, -1).  An answer that
// does not fall on atom boundaries, or whose word / trailing space ctx.Characters
// measures differently from the atoms, is recorded with length -1.
type plainAnswer struct {
	n  int
	br bool
	st int
}

func oracleTable(s string, cs []cluster) (tbl string, nmiss int, offsets []int, answers map[plainKey]plainAnswer) {
	offs := make([]int, len(cs)+1)
	at := map[int]int{}
	for i, c := range cs {
		at[offs[i]] = i
		offs[i+1] = offs[i] + len(c.g)
	}
	at[offs[len(cs)]] = len(cs)
	seen := map[plainKey]bool{}
	queue := []plainKey{{0, -1}}
	var entries []string
	answers = map[plainKey]plainAnswer{}
	misses := 0
	for len(queue) > 0 {
		k := queue[0]
		queue = queue[1:]
		if seen[k] || k.idx >= len(cs) {
			continue
		}
		seen[k] = true
		b := []byte(s[offs[k.idx]:])
		seg, _, br, st := uniseg.FirstLineSegment(b, k.st)
		n := -1
		end, ok := at[offs[k.idx]+len(seg)]
		word := bytes.TrimRightFunc(seg, unicode.IsSpace)
		wend, ok2 := at[offs[k.idx]+len(word)]
		if ok && ok2 && len(seg) > 0 {
			aligned := true
			// ctx.Characters(word) must be the atoms idx..wend
			wc := vaxis.Characters(string(word))
			if len(wc) != wend-k.idx {
				aligned = false
			} else {
				for i, ch := range wc {
					if ch.Grapheme != cs[k.idx+i].g || ch.Width != cs[k.idx+i].w {
						aligned = false
					}
				}
			}
			if charsWidth(string(seg[len(word):])) != sumWidth(cs[wend:end]) {
				aligned = false
			}
			// trimming runes and trimming atoms must agree
			for i := wend; i < end; i++ {
				if !lastRuneIsSpace(cs[i].g) {
					aligned = false
				}
			}
			if wend > k.idx && lastRuneIsSpace(cs[wend-1].g) {
				aligned = false
			}
			if aligned {
				n = end - k.idx
			}
		}
		if n < 0 {
			misses++
		}
		entries = append(entries, hx.Tuple(hx.Tuple(hx.Z(int64(k.idx)), hx.Z(int64(k.st))),
			hx.Tuple(hx.Z(int64(n)), hx.Bool(br), hx.Z(int64(st)))))
		answers[k] = plainAnswer{n, br, st}
		if n > 0 {
			queue = append(queue, plainKey{k.idx + n, st})
			for j := 0; j <= wend-k.idx; j++ {
				queue = append(queue, plainKey{k.idx + j, -1})
			}
		}
	}
	return hx.List(entries), misses, offs, answers
}

// oracleConsistent reports whether every answer in the table ends at the next break
// opportunity met when FirstLineSegment is threaded from the start of the text, and reports
// mustBreak exactly there (the hypothesis orc_consistent of the no_needless_split /
// hard_break theorems; restarting with state -1 inside a word can forget context).
func oracleConsistent(n int, answers map[plainKey]plainAnswer) bool {
	isBreak := map[int]bool{}
	isHard := map[int]bool{}
	k := plainKey{0, -1}
	for k.idx < n {
		a, ok := answers[k]
		if !ok || a.n <= 0 {
			return false
		}
		isBreak[k.idx+a.n] = true
		isHard[k.idx+a.n] = a.br
		k = plainKey{k.idx + a.n, a.st}
	}
	for q, a := range answers {
		if a.n <= 0 {
			return false
		}
		end := q.idx + a.n
		if !isBreak[end] || a.br != isHard[end] {
			return false
		}
		for p := q.idx + 1; p < end; p++ {
			if isBreak[p] {
				return false
			}
		}
	}
	return true
}

type obsLine struct {
	Line string `json:"line"`
	Rest int    `json:"rest"`
}

func plainObserve(s string, w uint16, cs []cluster, offs []int) (term string, lines []obsLine, code int, nonspaceSplit bool) {
	at := map[int]int{}
	for i, o := range offs {
		at[o] = i
	}
	var items []string
	code = runGuarded(func() {
		sc := text.NewSoftwrapScanner(s, w)
		for i := 0; ; i++ {
			if i > len(cs)+2 {
				panic("hx-too-many-scans")
			}
			if !sc.Scan(ctx) {
				return
			}
			line := sc.Text()
			restBytes := sc.VerifRestLen()
			rest := -1
			if idx, ok := at[len(s)-restBytes]; ok {
				rest = len(cs) - idx
			}
			lc, ok := segment(line)
			if !ok {
				lc = []cluster{{line, -1, 0}}
			}
			items = append(items, hx.Tuple(cellsTerm(lc), hx.Z(int64(rest))))
			lines = append(lines, obsLine{line, rest})
		}
	})
	if code == 1 && len(lines) > len(cs)+2 {
		code = 2 // the scan loop did not stop
	}
	return hx.List(items), lines, code, false
}

var plainCases, plainConsistent int

type plainJSON struct {
	Text   string      `json:"text"`
	Widths []int       `json:"widths"`
	Lines  [][]obsLine `json:"lines"`
	Codes  []int       `json:"codes"`
	Class  string      `json:"class,omitempty"`
}

func addPlain(st *hx.Stream, s string, widths []uint16, skipped *int, tags ...string) {
	cs, ok := atomize(s)
	if !ok {
		*skipped++
		return
	}
	tbl, misses, offs, answers := oracleTable(s, cs)
	plainCases++
	if oracleConsistent(len(cs), answers) {
		plainConsistent++
	}
	if whole, _ := segment(s); len(whole) != len(cs) {
		tags = append(tags, "segment-ends-inside-grapheme")
	}
	sp, bk := flags(cs)
	var runs []string
	js := plainJSON{Text: s}
	multi := false
	for _, w := range widths {
		obs, lines, code, _ := plainObserve(s, w, cs, offs)
		runs = append(runs, hx.Tuple(hx.ZU(uint64(w)), obs, hx.Z(int64(code))))
		js.Widths = append(js.Widths, int(w))
		js.Lines = append(js.Lines, lines)
		js.Codes = append(js.Codes, code)
		if len(lines) > 1 {
			multi = true
		}
	}
	if misses > 0 {
		tags = append(tags, "oracle-misaligned")
	}
	term := hx.Tuple(cellsTerm(cs), tbl, hx.Tuple(boolsTerm(sp), boolsTerm(bk)), hx.List(runs))
	st.Add(term, js, multi, tags...)
}

// ---------------------------------------------------------------- rich scanner

func styleOf(id int) vaxis.Style { return vaxis.Style{Attribute: vaxis.AttributeMask(id)} }

func toClusters(cells []vaxis.Cell) []cluster {
	cs := make([]cluster, len(cells))
	for i, c := range cells {
		cs[i] = cluster{c.Grapheme, c.Width, int(c.Style.Attribute)}
	}
	return cs
}

func pairTable(cells []vaxis.Cell) string {
	seen := map[[2]string]bool{}
	var entries []string
	for i := 0; i+1 < len(cells); i++ {
		k := [2]string{cells[i].Grapheme, cells[i+1].Grapheme}
		if seen[k] {
			continue
		}
		seen[k] = true
		_, rest, must, _ := uniseg.FirstLineSegmentInString(k[0]+k[1], -1)
		entries = append(entries, hx.Tuple(hx.Tuple(hx.Runes(k[0]), hx.Runes(k[1])), hx.Tuple(hx.Bool(len(rest) > 0), hx.Bool(must))))
	}
	return hx.List(entries)
}

type richLine struct {
	Line   string `json:"line"`
	Styles []int  `json:"styles"`
	Rest   int    `json:"rest"`
}

type richJSON struct {
	Segments []string     `json:"segments"`
	Widths   []int        `json:"widths"`
	Lines    [][]richLine `json:"lines"`
	Codes    []int        `json:"codes"`
}

func richSegments(parts []string) []vaxis.Segment {
	segs := make([]vaxis.Segment, len(parts))
	for i, p := range parts {
		segs[i] = vaxis.Segment{Text: p, Style: styleOf(i%7 + 1)}
	}
	return segs
}

func addRich(st *hx.Stream, parts []string, widths []uint16, tags ...string) {
	rt := richtext.New(richSegments(parts))
	cells := rt.VerifCells(ctx)
	cs := toClusters(cells)
	sp, bk := flags(cs)
	var runs []string
	js := richJSON{Segments: parts}
	multi := false
	for _, w := range widths {
		var items []string
		var lines []richLine
		code := runGuarded(func() {
			in := make([]vaxis.Cell, len(cells))
			copy(in, cells)
			sc := richtext.NewSoftwrapScanner(in, w)
			for i := 0; ; i++ {
				if i > len(cells)+2 {
					panic("hx-too-many-scans")
				}
				if !sc.Scan() {
					return
				}
				lc := toClusters(sc.Text())
				rest := sc.VerifRestLen()
				items = append(items, hx.Tuple(cellsTerm(lc), hx.Z(int64(rest))))
				rl := richLine{Rest: rest}
				for _, c := range lc {
					rl.Line += c.g
					rl.Styles = append(rl.Styles, c.style)
				}
				lines = append(lines, rl)
			}
		})
		if code == 1 && len(lines) > len(cells)+2 {
			code = 2
		}
		runs = append(runs, hx.Tuple(hx.ZU(uint64(w)), hx.List(items), hx.Z(int64(code))))
		js.Widths = append(js.Widths, int(w))
		js.Lines = append(js.Lines, lines)
		js.Codes = append(js.Codes, code)
		if len(lines) > 1 {
			multi = true
		}
	}
	term := hx.Tuple(cellsTerm(cs), pairTable(cells), hx.Tuple(boolsTerm(sp), boolsTerm(bk)), hx.List(runs))
	st.Add(term, js, multi, tags...)
}

// ---------------------------------------------------------------- hard-wrap scanner

func addHard(st *hx.Stream, parts []string, tags ...string) {
	rt := richtext.New(richSegments(parts))
	cells := rt.VerifCells(ctx)
	var lines []string
	var strs []string
	sc := richtext.NewHardwrapScanner(cells)
	for i := 0; i <= len(cells)+1 && sc.Scan(); i++ {
		lc := toClusters(sc.Line())
		lines = append(lines, cellsTerm(lc))
		l := ""
		for _, c := range lc {
			l += c.g
		}
		strs = append(strs, l)
	}
	st.Add(hx.Tuple(cellsTerm(toClusters(cells)), hx.List(lines)),
		map[string]interface{}{"segments": parts, "lines": strs}, len(lines) > 1, tags...)
}

// ---------------------------------------------------------------- Draw

func rawClusters(chars []vaxis.Character, style int) []cluster {
	cs := make([]cluster, len(chars))
	for i, ch := range chars {
		cs[i] = cluster{ch.Grapheme, ch.Width, style}
	}
	return cs
}

func linesTerm(lines [][]cluster) string {
	ls := make([]string, len(lines))
	for i, l := range lines {
		ls[i] = cellsTerm(l)
	}
	return hx.List(ls)
}

func surfaceTerm(sf vxfw.Surface) (string, map[string]interface{}) {
	rows := []string{}
	for r := 0; r < int(sf.Size.Height); r++ {
		row := ""
		for c := 0; c < int(sf.Size.Width); c++ {
			g := sf.Buffer[r*int(sf.Size.Width)+c].Grapheme
			if g == "" {
				g = "·"
			}
			row += g
		}
		rows = append(rows, row)
	}
	return hx.Tuple(hx.ZU(uint64(sf.Size.Width)), hx.ZU(uint64(sf.Size.Height)), cellsTerm(toClusters(sf.Buffer))),
		map[string]interface{}{"width": sf.Size.Width, "height": sf.Size.Height, "rows": rows}
}

func addDraw(st *hx.Stream, parts []string, rich bool, style int, maxW, maxH uint16, tags ...string) {
	dctx := vxfw.DrawContext{Max: vxfw.Size{Width: maxW, Height: maxH}, Characters: vaxis.Characters}
	var lines [][]cluster
	var sf vxfw.Surface
	panicked, msg := hx.Catch(func() {
		if rich {
			rt := richtext.New(richSegments(parts))
			sc := richtext.NewSoftwrapScanner(rt.VerifCells(dctx), maxW)
			for i := 0; i < 100000 && sc.Scan(); i++ {
				lines = append(lines, toClusters(sc.Text()))
			}
			sf, _ = rt.Draw(dctx)
		} else {
			s := strings.Join(parts, "")
			sc := text.NewSoftwrapScanner(s, maxW)
			for i := 0; i < 100000 && sc.Scan(dctx); i++ {
				lines = append(lines, rawClusters(vaxis.Characters(sc.Text()), 0))
			}
			t := text.New(s)
			t.Style = styleOf(style)
			sf, _ = t.Draw(dctx)
		}
	})
	obs, js := surfaceTerm(sf)
	if panicked {
		obs = hx.Tuple("(-1)", "(-1)", "[]")
		js = map[string]interface{}{"panic": msg}
	}
	js["segments"] = parts
	js["rich"] = rich
	js["max"] = []int{int(maxW), int(maxH)}
	// the class that decides the SIZE of the surface: among the lines that get a row, the widest
	// one (in columns) is not the first, and an earlier line has at least as many graphemes
	shown := len(lines)
	if shown > int(maxH) {
		shown = int(maxH)
	}
	widest, wmax, most := 0, -1, 0
	for i := 0; i < shown; i++ {
		if w := sumWidth(lines[i]); w > wmax {
			widest, wmax = i, w
		}
	}
	for i := 0; i < widest; i++ {
		if len(lines[i]) > most {
			most = len(lines[i])
		}
	}
	if widest > 0 && most >= len(lines[widest]) {
		tags = append(tags, "draw-widest-line-later-with-fewer-graphemes")
	}
	if len(lines) > shown && shown > 0 {
		below := 0
		for i := shown; i < len(lines); i++ {
			if w := sumWidth(lines[i]); w > below {
				below = w
			}
		}
		if below > wmax {
			tags = append(tags, "draw-widest-line-below-max-height")
		}
	}
	if wmax > int(maxW) {
		tags = append(tags, "draw-line-wider-than-max-width")
	}
	st.Add(hx.Tuple(hx.Bool(rich), hx.Z(int64(style)), hx.ZU(uint64(maxW)), hx.ZU(uint64(maxH)), linesTerm(lines), obs),
		js, len(lines) > 1 && int(maxH) >= 2, tags...)
}

// ---------------------------------------------------------------- generators

var smallAlphabet = []string{"a", "b", " ", "-", "\n", "中", "́"}

// the rich stream also enumerates a mandatory break that is not LF/CR (U+2028) and VT
var richAlphabet = []string{"a", "b", " ", "-", "\n", "中", "́", "\u2028", "\v"}

func exhaustive(alpha []string, maxLen int, f func(string)) {
	var rec func(prefix string, n int)
	rec = func(prefix string, n int) {
		f(prefix)
		if n == maxLen {
			return
		}
		for _, a := range alpha {
			rec(prefix+a, n+1)
		}
	}
	rec("", 0)
}

var wordAtoms = []string{"a", "b", "c", "x", "y", "z", "A", "Q", "0", "1", "7", "é", "é", "中", "文", "。", "ぁ", "ー",
	"👍", "🇩🇪", "👩‍👧", "­", "​", "ａ", "한"}
var punct = []string{"-", ".", ",", ";", ":", "!", "?", "(", ")", "[", "]", "\"", "'", "/", "%", "$", "—", "…"}
var spaces = []string{" ", " ", " ", " ", "  ", "   ", " ", "　", " "}
var breaks = []string{"\n", "\n", "\n\n", "\r\n", "\r", " ", "\u0085", "\v"}

func randomText(cfg *hx.Config, maxAtoms int, tabs bool) string {
	var b strings.Builder
	n := 1 + cfg.Rand.Intn(maxAtoms)
	for i := 0; i < n; {
		// a word
		wl := 1 + cfg.Rand.Intn(9)
		if cfg.Rand.Intn(6) == 0 {
			wl += cfg.Rand.Intn(20)
		}
		ascii := cfg.Rand.Intn(3) > 0
		for j := 0; j < wl; j++ {
			if ascii {
				b.WriteString(wordAtoms[cfg.Rand.Intn(10)])
			} else {
				b.WriteString(wordAtoms[cfg.Rand.Intn(len(wordAtoms))])
			}
			if cfg.Rand.Intn(12) == 0 {
				b.WriteString(punct[cfg.Rand.Intn(len(punct))])
			}
		}
		i += wl
		switch r := cfg.Rand.Intn(12); {
		case r < 7:
			b.WriteString(spaces[cfg.Rand.Intn(len(spaces))])
		case r < 9:
			b.WriteString(punct[cfg.Rand.Intn(len(punct))])
			if cfg.Rand.Intn(2) == 0 {
				b.WriteString(" ")
			}
		case r < 11:
			b.WriteString(breaks[cfg.Rand.Intn(len(breaks))])
		default:
			if tabs {
				// a tab inside an unbreakable word (tab + closing punctuation) is outside the
				// model: ctx.Characters rewrites it to eight spaces; keep a letter after it
				b.WriteString("\ta")
			} else {
				b.WriteString(" ")
			}
		}
	}
	return b.String()
}

// texts for the size of the surface (findContainerSize): a few lines of different kinds (narrow
// letters, wide CJK / emoji / full-width, mixed, words with spaces), so that the line with the most
// graphemes is not the widest one and the widest one is anywhere, also below Max.Height
var narrowAtoms = []string{"a", "b", "x", "0", "é", "-", "."}
var wideAtoms = []string{"中", "文", "漢", "字", "👍", "한", "ａ", "。"}

func randomLine(cfg *hx.Config) string {
	var b strings.Builder
	n := cfg.Rand.Intn(10)
	kind := cfg.Rand.Intn(5)
	for j := 0; j < n; j++ {
		switch kind {
		case 0:
			b.WriteString(narrowAtoms[cfg.Rand.Intn(len(narrowAtoms))])
		case 1:
			b.WriteString(wideAtoms[cfg.Rand.Intn(len(wideAtoms))])
		case 2:
			if cfg.Rand.Intn(2) == 0 {
				b.WriteString(narrowAtoms[cfg.Rand.Intn(len(narrowAtoms))])
			} else {
				b.WriteString(wideAtoms[cfg.Rand.Intn(len(wideAtoms))])
			}
		case 3:
			if j > 0 && cfg.Rand.Intn(4) == 0 {
				b.WriteString(" ")
			} else {
				b.WriteString(narrowAtoms[cfg.Rand.Intn(5)])
			}
		default:
			if j > 0 && cfg.Rand.Intn(4) == 0 {
				b.WriteString(spaces[cfg.Rand.Intn(len(spaces))])
			} else {
				b.WriteString(wideAtoms[cfg.Rand.Intn(len(wideAtoms))])
			}
		}
	}
	return b.String()
}

func randomLinesText(cfg *hx.Config) (string, int, int) {
	k := 1 + cfg.Rand.Intn(6)
	var b strings.Builder
	wmax := 0
	for i := 0; i < k; i++ {
		l := randomLine(cfg)
		if w := charsWidth(l); w > wmax {
			wmax = w
		}
		b.WriteString(l)
		if i+1 < k || cfg.Rand.Intn(4) == 0 {
			switch cfg.Rand.Intn(8) {
			case 0:
				b.WriteString("\r\n")
			case 1:
				b.WriteString(" ") // the soft wrap decides
			default:
				b.WriteString("\n")
			}
		}
	}
	return b.String(), k, wmax
}

// a Max.Width / Max.Height around the interesting boundary (the widest line, the number of lines)
func around(cfg *hx.Config, v int) uint16 {
	switch cfg.Rand.Intn(8) {
	case 0:
		return 65535
	case 1:
		return uint16(cfg.Rand.Intn(12))
	case 2, 3:
		return uint16(v)
	case 4:
		if v > 0 {
			return uint16(v - 1)
		}
		return 0
	case 5:
		return uint16(v + 1)
	default:
		return uint16(v + 1 + cfg.Rand.Intn(8))
	}
}

// splitParts cuts a text at random rune boundaries into 1..4 styled segments
func splitParts(cfg *hx.Config, s string) []string {
	rs := []rune(s)
	k := cfg.Rand.Intn(4)
	var parts []string
	prev := 0
	for i := 0; i < k && len(rs) > 0; i++ {
		c := prev + cfg.Rand.Intn(len(rs)-prev+1)
		parts = append(parts, string(rs[prev:c]))
		prev = c
	}
	parts = append(parts, string(rs[prev:]))
	return parts
}

func randomWidths(cfg *hx.Config, n int) []uint16 {
	ws := []uint16{}
	for i := 0; i < n; i++ {
		switch cfg.Rand.Intn(10) {
		case 0:
			ws = append(ws, uint16(cfg.Rand.Intn(3)))
		case 1:
			ws = append(ws, 65535)
		default:
			ws = append(ws, uint16(1+cfg.Rand.Intn(40)))
		}
	}
	return ws
}

func main() {
	cfg := hx.ParseFlags()
	plain := hx.NewStream("plain", "model.Softwrap", "plain_case", "c16_plain_mismatches", "c16_plain_violations")
	rich := hx.NewStream("rich", "model.Softwrap", "rich_case", "c16_rich_mismatches", "c16_rich_violations")
	hard := hx.NewStream("hard", "model.Softwrap", "hard_case", "c16_hard_mismatches", "c16_hard_violations")
	draw := hx.NewStream("draw", "model.Softwrap", "draw_case", "c16_draw_mismatches", "c16_draw_violations")
	// recorded finding: a zero-width grapheme shares its column with the next one and is overwritten
	draw.Known, draw.KnownClass = "c16_draw_known", "zero-width-overdraw"
	plain.ShardMax, rich.ShardMax, hard.ShardMax, draw.ShardMax = 150, 150, 500, 300
	skipped := 0

	smallWidths := []uint16{0, 1, 2, 3, 4, 5, 6}
	exLen, nRandom, maxAtoms := 4, 400, 60
	exLenRich := 3
	if cfg.Thorough() {
		exLen, nRandom, maxAtoms = 6, 2000, 120
		exLenRich = 4
	}
	// the defects fixed in /repo (kept as regression inputs) and the examples of the test suite
	for _, s := range []string{"ab。", "中中。", "x ab-cd", "x ab-cd ef", "foo bar", "foo\nbar", "foo         bar",
		" foo\n bar", "foo-bar", "a\r\nb", "\n\na", "a\n", "a \n", "ab  \ncd", "x\tb", "\t\tb c",
		// mandatory breaks other than LF/CR: LS, PS, VT, FF, NEL
		"a\u2028b", "ab\u2028\u2028cd e", "a\vb", "a\fb c", "a\u0085b", "ab \u2029cd", "\u2028a", "a\u2028",
		// zero-width graphemes (ZWSP, a combining mark cut off its space) for Draw
		"\u200bab", "a \u0301b", "ab\u200bcd"} {
		addPlain(plain, s, smallWidths, &skipped, "regression")
		addRich(rich, []string{s}, smallWidths, "regression")
		addHard(hard, []string{s}, "regression")
		for _, w := range []uint16{0, 2, 3, 5} {
			for _, h := range []uint16{0, 1, 2, 65535} {
				addDraw(draw, []string{s}, false, 3, w, h, "regression")
				addDraw(draw, []string{s}, true, 0, w, h, "regression")
			}
		}
	}
	exhaustive(smallAlphabet, exLen, func(s string) {
		addPlain(plain, s, smallWidths, &skipped, fmt.Sprintf("exhaustive-len%d", utf8.RuneCountInString(s)))
	})
	exhaustive(richAlphabet, exLenRich, func(s string) {
		// one style per rune: clusters never join across segments
		addRich(rich, []string{s}, smallWidths, fmt.Sprintf("exhaustive-len%d", utf8.RuneCountInString(s)))
		if utf8.RuneCountInString(s) >= 2 {
			rs := []rune(s)
			addRich(rich, []string{string(rs[:1]), string(rs[1:])}, smallWidths, "exhaustive-2styles")
		}
		addHard(hard, []string{s}, "exhaustive")
	})
	for i := 0; i < nRandom; i++ {
		s := randomText(cfg, maxAtoms, i%10 == 0)
		ws := randomWidths(cfg, 5)
		tag := "random"
		if i%10 == 0 {
			tag = "random-tabs"
		}
		addPlain(plain, s, ws, &skipped, tag)
		addRich(rich, splitParts(cfg, s), ws, tag)
		if i%4 == 0 {
			addHard(hard, splitParts(cfg, s), tag)
		}
		if i%2 == 0 {
			mw, mh := ws[0], uint16(cfg.Rand.Intn(8))
			if cfg.Rand.Intn(6) == 0 {
				mh = 65535
			}
			addDraw(draw, []string{s}, false, 1+cfg.Rand.Intn(5), mw, mh, tag)
			addDraw(draw, splitParts(cfg, s), true, 0, mw, mh, tag)
		}
	}
	exhaustive(smallAlphabet, 3, func(s string) {
		for _, w := range []uint16{1, 2, 3} {
			addDraw(draw, []string{s}, false, 2, w, uint16(1+len(s)%3), "exhaustive-len3")
		}
	})
	// the size of the surface: every ordered pair of lines of different kinds, and random texts of
	// 1..6 such lines, with Max.Width / Max.Height around the widest line / the number of lines
	sizeLines := []string{"abc", "漢漢漢", "ab", "漢", "abcde fg", "漢字漢字漢", "a中b", "👍👍", ""}
	for _, a := range sizeLines {
		for _, b := range sizeLines {
			for _, wh := range [][2]uint16{{10, 3}, {5, 2}, {7, 1}} {
				addDraw(draw, []string{a + "\n" + b}, false, 4, wh[0], wh[1], "size-directed")
				addDraw(draw, []string{a + "\n", b}, true, 0, wh[0], wh[1], "size-directed")
			}
		}
	}
	nSize := 200
	if cfg.Thorough() {
		nSize = 2500
	}
	for i := 0; i < nSize; i++ {
		s, k, wmax := randomLinesText(cfg)
		mw, mh := around(cfg, wmax), around(cfg, k)
		if mw == 0 && cfg.Rand.Intn(3) > 0 {
			mw = uint16(1 + wmax)
		}
		addDraw(draw, []string{s}, false, 1+cfg.Rand.Intn(5), mw, mh, "size-random")
		addDraw(draw, splitParts(cfg, s), true, 0, mw, mh, "size-random")
	}
	cfg.Write("C16", "texts: regression inputs, all strings over {a,b,space,hyphen,newline,wide CJK,combining acute} up to a fixed length at widths 0..6, random word/space/punctuation/line-break texts (wide, emoji, ZWJ, combining, NBSP, CRLF, tabs) at random widths incl. 0 and 65535; one case = one text at all its widths; non-trivial = some width wraps the text into more than one line; Draw stream additionally: ordered pairs and random sequences of 1..6 lines of narrow / wide / mixed characters with Max.Width and Max.Height around the widest line and the number of lines (tags draw-widest-line-later-with-fewer-graphemes, draw-widest-line-below-max-height, draw-line-wider-than-max-width count the classes that decide the size of the surface)",
		[]*hx.Stream{plain, rich, hard, draw}, map[string]interface{}{"skipped_not_tiled_by_characters": skipped,
			"plain_cases": plainCases, "plain_cases_where_oracle_hypothesis_orc_consistent_holds": plainConsistent}, nil)
}
