// Harness for C20 (images): runs the real resizeImage, the block image encoders
// and Draw paths, and the placement diffing of Vaxis.render (through a fake
// console with kitty graphics advertised) and writes Coq case files.
package main

import (
	"bytes"
	"encoding/base64"
	"fmt"
	"image"
	"image/color"
	"image/draw"
	"image/png"
	"math"
	"math/big"
	"os"
	"strconv"
	"strings"
	"time"
	"unicode/utf8"

	vaxis "git.sr.ht/~rockorager/vaxis"
	"git.sr.ht/~rockorager/vaxis/octreequant"
	"verif/harness/hx"
)

// ---------------------------------------------------------------- helpers

// sized is an image with given bounds and a cheap At (no pixel storage)
type sized struct{ w, h int }

func (s sized) ColorModel() color.Model { return color.RGBAModel }
func (s sized) Bounds() image.Rectangle { return image.Rect(0, 0, s.w, s.h) }
func (s sized) At(x, y int) color.Color { return color.RGBA{uint8(x), uint8(y), 7, 255} }

func z(n int) string { return hx.Z(int64(n)) }

func newVaxis(rows, cols int) (*vaxis.Vaxis, *hx.FakeConsole) {
	p := hx.Profile{InBandResize: true, KittyGraphics: true, Sixel: true, RGB: true, Rows: rows, Cols: cols, CursorStyleReply: -1}
	fc := hx.NewFakeConsole(p)
	vx, err := vaxis.New(vaxis.Options{WithConsole: fc, NoSignals: true})
	if err != nil {
		panic(err)
	}
	go func() {
		for range vx.Events() {
		}
	}()
	ws := vx.VerifWinSize()
	if ws.Cols != cols || ws.Rows != rows || ws.XPixel != cols*8 || ws.YPixel != rows*16 {
		panic(fmt.Sprintf("fake console did not establish the window size: %+v", ws))
	}
	return vx, fc
}

func closeVaxis(vx *vaxis.Vaxis) {
	if !hx.WithTimeout(5*time.Second, vx.Close) {
		panic("Close hung")
	}
}

func waitIdle(enc func() bool) {
	deadline := time.Now().Add(20 * time.Second)
	for enc() {
		if time.Now().After(deadline) {
			panic("image encoder did not finish")
		}
		time.Sleep(50 * time.Microsecond)
	}
}

// ---------------------------------------------------------------- stream resize

type resizeIn struct{ wPix, hPix, w, h, cw, ch int }

func runResize(s *hx.Stream, in resizeIn, tags ...string) {
	var nw, nh int
	panicked, _ := hx.Catch(func() {
		out := vaxis.VerifResizeImage(sized{in.wPix, in.hPix}, in.w, in.h, in.cw, in.ch)
		nw, nh = out.Bounds().Max.X, out.Bounds().Max.Y
	})
	oc := 0
	if panicked {
		oc, nw, nh = 1, 0, 0
	}
	scaled := in.cw > 0 && in.ch > 0 && in.w > 0 && in.h > 0 &&
		((in.wPix+in.cw-1)/in.cw > in.w || (in.hPix+in.ch-1)/in.ch > in.h)
	s.Add(hx.Tuple(z(in.wPix), z(in.hPix), z(in.w), z(in.h), z(in.cw), z(in.ch), z(oc), z(nw), z(nh)),
		map[string]interface{}{"stream": "resize", "wPix": in.wPix, "hPix": in.hPix, "w": in.w, "h": in.h,
			"cellPixW": in.cw, "cellPixH": in.ch, "outcome": oc, "newW": nw, "newH": nh},
		scaled, tags...)
}

func gcd(a, b int) int {
	for b != 0 {
		a, b = b, a%b
	}
	return a
}

func genResize(cfg *hx.Config, s *hx.Stream) {
	geoms := [][2]int{{1, 2}, {8, 16}, {10, 20}, {7, 15}}
	maxImg, maxBox, ng := 6, 4, 2
	if cfg.Thorough() {
		maxImg, maxBox, ng = 12, 8, 4
	}
	// bounded-exhaustive in cells: image sizes in pixels are chosen so that every
	// cell count up to maxImg occurs, with and without a partial last cell
	for _, g := range geoms[:ng] {
		for ic := 1; ic <= maxImg; ic++ {
			for il := 1; il <= maxImg; il++ {
				for w := 1; w <= maxBox; w++ {
					for h := 1; h <= maxBox; h++ {
						wp, hp := ic*g[0], il*g[1]
						if (ic+il+w+h)%2 == 1 && g[0] > 1 {
							wp -= 1 + (ic+w)%(g[0]-1)
						}
						if (ic+2*il+w)%3 == 1 && g[1] > 1 {
							hp -= 1 + (il+h)%(g[1]-1)
						}
						runResize(s, resizeIn{wp, hp, w, h, g[0], g[1]}, "exhaustive")
					}
				}
			}
		}
	}
	// both scale factors coincide: w/columns == h/lines == p/q
	n := 300
	if cfg.Thorough() {
		n = 6000
	}
	for i := 0; i < n; i++ {
		q := 2 + cfg.Rand.Intn(9)
		p := 1 + cfg.Rand.Intn(q-1)
		d := gcd(p, q)
		p, q = p/d, q/d
		a, b := 1+cfg.Rand.Intn(6), 1+cfg.Rand.Intn(6)
		g := geoms[cfg.Rand.Intn(len(geoms))]
		wp, hp := q*a*g[0]-cfg.Rand.Intn(g[0]), q*b*g[1]-cfg.Rand.Intn(g[1])
		runResize(s, resizeIn{wp, hp, p * a, p * b, g[0], g[1]}, "equal-factors")
	}
	// w/columns * columns: the products that binary64 rounds below the integer (1/49*49)
	lim := 70
	if cfg.Thorough() {
		lim = 400
	}
	for cols := 2; cols <= lim; cols++ {
		for w := 1; w < cols; w++ {
			if !cfg.Thorough() && (w > 3 && cols-w > 2 && cfg.Rand.Intn(4) != 0) {
				continue
			}
			runResize(s, resizeIn{cols, 1 + w%2, w, 1, 1, 2}, "float-product")
		}
	}
	// random, moderate sizes
	n = 1000
	if cfg.Thorough() {
		n = 40000
	}
	for i := 0; i < n; i++ {
		g := geoms[cfg.Rand.Intn(len(geoms))]
		in := resizeIn{1 + cfg.Rand.Intn(600), 1 + cfg.Rand.Intn(600), 1 + cfg.Rand.Intn(30), 1 + cfg.Rand.Intn(16), g[0], g[1]}
		if cfg.Rand.Intn(4) == 0 {
			in.cw, in.ch = 1+cfg.Rand.Intn(24), 1+cfg.Rand.Intn(40)
		}
		runResize(s, in, "random")
	}
	// large, thin images (up to 60000 pixels on one side) into small boxes
	n = 300
	if cfg.Thorough() {
		n = 6000
	}
	for i := 0; i < n; i++ {
		g := geoms[cfg.Rand.Intn(len(geoms))]
		long, short := 1000+cfg.Rand.Intn(59000), 1+cfg.Rand.Intn(40)
		in := resizeIn{long, short, 1 + cfg.Rand.Intn(200), 1 + cfg.Rand.Intn(8), g[0], g[1]}
		if cfg.Rand.Intn(2) == 0 {
			in.wPix, in.hPix = short, long
			in.w, in.h = 1+cfg.Rand.Intn(8), 1+cfg.Rand.Intn(200)
		}
		runResize(s, in, "large")
	}
	// empty boxes and a zero cell geometry (the integer division panics)
	for _, in := range []resizeIn{{5, 5, 0, 3, 1, 2}, {5, 5, 3, 0, 1, 2}, {5, 5, 0, 0, 8, 16}, {40, 3, 0, 1, 8, 16},
		{5, 5, 3, 3, 0, 2}, {5, 5, 3, 3, 2, 0}, {5, 5, 9, 9, 0, 0}} {
		runResize(s, in, "degenerate")
	}
}

// ---------------------------------------------------------------- stream cellsize

func genCellSize(cfg *hx.Config, s *hx.Stream) {
	vx, _ := newVaxis(24, 80)
	defer closeVaxis(vx)
	ws := vx.VerifWinSize()
	cw, ch := ws.XPixel/ws.Cols, ws.YPixel/ws.Rows
	add := func(kind, wp, hp, w, h, gw, gh, ow, oh int, tag string) {
		scaled := (wp+gw-1)/gw > w || (hp+gh-1)/gh > h
		s.Add(hx.Tuple(z(kind), z(wp), z(hp), z(w), z(h), z(gw), z(gh), z(ow), z(oh)),
			map[string]interface{}{"stream": "cellsize", "kind": tag, "wPix": wp, "hPix": hp, "w": w, "h": h,
				"cellPixW": gw, "cellPixH": gh, "cellsW": ow, "cellsH": oh}, scaled, tag)
	}
	nb, np := 500, 120
	if cfg.Thorough() {
		nb, np = 8000, 1500
	}
	for i := 0; i < nb; i++ {
		wp, hp := 1+cfg.Rand.Intn(40), 1+cfg.Rand.Intn(40)
		w, h := 1+cfg.Rand.Intn(24), 1+cfg.Rand.Intn(14)
		img := image.NewRGBA(image.Rect(0, 0, wp, hp))
		if i%2 == 0 {
			hb := vx.NewHalfBlockImage(img)
			hb.Resize(w, h)
			ow, oh := hb.CellSize()
			add(0, wp, hp, w, h, 1, 2, ow, oh, "halfblock")
		} else {
			fb := vx.NewFullBlockImage(img)
			fb.Resize(w, h)
			ow, oh := fb.CellSize()
			add(1, wp, hp, w, h, 1, 2, ow, oh, "fullblock")
		}
	}
	for i := 0; i < np; i++ {
		wp, hp := 1+cfg.Rand.Intn(160), 1+cfg.Rand.Intn(120)
		w, h := 1+cfg.Rand.Intn(16), 1+cfg.Rand.Intn(6)
		img := image.NewRGBA(image.Rect(0, 0, wp, hp))
		for j := 0; j < len(img.Pix); j += 4 {
			img.Pix[j], img.Pix[j+1], img.Pix[j+2], img.Pix[j+3] = uint8(j), uint8(j>>3), uint8(i), 255
		}
		if i%2 == 0 {
			k := vx.NewKittyGraphic(img)
			k.Resize(w, h)
			ow, oh := k.CellSize()
			waitIdle(k.VerifEncoding)
			add(2, wp, hp, w, h, cw, ch, ow, oh, "kitty")
		} else {
			sx := vx.NewSixel(img)
			sx.Resize(w, h)
			waitIdle(sx.VerifEncoding)
			ow, oh := sx.CellSize()
			add(3, wp, hp, w, h, cw, ch, ow, oh, "sixel")
		}
	}
}

// ---------------------------------------------------------------- stream pixels

func pxTerm(c color.Color) (string, []uint32) {
	r, g, b, a := c.RGBA()
	return hx.Tuple(hx.ZU(uint64(r)), hx.ZU(uint64(g)), hx.ZU(uint64(b)), hx.ZU(uint64(a))), []uint32{r, g, b, a}
}

func imgTerm(img image.Image) (string, interface{}) {
	b := img.Bounds()
	rows := make([]string, 0, b.Max.Y)
	var js [][][]uint32
	for y := 0; y < b.Max.Y; y++ {
		row := make([]string, 0, b.Max.X)
		var jr [][]uint32
		for x := 0; x < b.Max.X; x++ {
			t, j := pxTerm(img.At(x, y))
			row = append(row, t)
			jr = append(jr, j)
		}
		rows = append(rows, hx.List(row))
		js = append(js, jr)
	}
	return hx.Tuple(z(b.Max.X), z(b.Max.Y), hx.List(rows)), map[string]interface{}{"w": b.Max.X, "h": b.Max.Y, "rgba": js}
}

var sentinel = vaxis.Cell{Character: vaxis.Character{Grapheme: "x", Width: 1}, Style: vaxis.Style{Foreground: vaxis.IndexColor(3)}}

func cellTerm(c vaxis.VerifCell) (string, interface{}) {
	g := -1
	if utf8.RuneCountInString(c.Grapheme) == 1 && c.Width == 1 && !c.Sixel && c.Hyperlink == "" && c.HyperlinkParams == "" &&
		c.UnderlineColor == 0 && c.UnderlineStyle == 0 && c.Attribute == 0 {
		r, _ := utf8.DecodeRuneInString(c.Grapheme)
		g = int(r)
	}
	return hx.Tuple(z(g), hx.ZU(uint64(c.Foreground)), hx.ZU(uint64(c.Background))),
		[]interface{}{c.Grapheme, uint32(c.Foreground), uint32(c.Background)}
}

type alphaGen struct{ n int }

// every alpha level in turn, the threshold neighbourhood more often
func (a *alphaGen) next(cfg *hx.Config) uint8 {
	a.n++
	switch cfg.Rand.Intn(6) {
	case 0:
		return uint8(a.n)
	case 1:
		return uint8(47 + cfg.Rand.Intn(6))
	case 2:
		return 0
	default:
		return 255
	}
}

func genPixels(cfg *hx.Config, s *hx.Stream, direct *[]hx.DirectViolation) map[string]interface{} {
	const rows, cols = 16, 40
	vx, _ := newVaxis(rows, cols)
	defer closeVaxis(vx)
	n := 500
	if cfg.Thorough() {
		n = 12000
	}
	ag := &alphaGen{}
	alphaSeen := map[uint8]bool{}
	for i := 0; i < n; i++ {
		W, H := 1+cfg.Rand.Intn(7), 1+cfg.Rand.Intn(9)
		var img image.Image
		kindImg := cfg.Rand.Intn(4)
		switch kindImg {
		case 0, 1:
			m := image.NewNRGBA(image.Rect(0, 0, W, H))
			for j := 0; j < len(m.Pix); j += 4 {
				a := ag.next(cfg)
				alphaSeen[a] = true
				m.Pix[j], m.Pix[j+1], m.Pix[j+2], m.Pix[j+3] = uint8(cfg.Rand.Intn(256)), uint8(cfg.Rand.Intn(256)), uint8(cfg.Rand.Intn(256)), a
			}
			img = m
		case 2:
			m := image.NewRGBA(image.Rect(0, 0, W, H))
			for j := 0; j < len(m.Pix); j += 4 {
				a := ag.next(cfg)
				alphaSeen[a] = true
				// premultiplied: channels do not exceed alpha
				m.Pix[j], m.Pix[j+1], m.Pix[j+2], m.Pix[j+3] = uint8(cfg.Rand.Intn(int(a)+1)), uint8(cfg.Rand.Intn(int(a)+1)), uint8(cfg.Rand.Intn(int(a)+1)), a
			}
			img = m
		default:
			m := image.NewNRGBA64(image.Rect(0, 0, W, H))
			for y := 0; y < H; y++ {
				for x := 0; x < W; x++ {
					a := uint16(cfg.Rand.Intn(65536))
					if cfg.Rand.Intn(2) == 0 {
						a = uint16(50*256 - 3 + cfg.Rand.Intn(6)) // around the threshold in 16 bits
					}
					m.SetNRGBA64(x, y, color.NRGBA64{uint16(cfg.Rand.Intn(65536)), uint16(cfg.Rand.Intn(65536)), uint16(cfg.Rand.Intn(65536)), a})
				}
			}
			img = m
		}
		// the box: fits, or forces a scaling
		w, h := W+cfg.Rand.Intn(3), (H+1)/2+cfg.Rand.Intn(3)
		tag := "fits"
		if cfg.Rand.Intn(5) < 2 {
			w, h = 1+cfg.Rand.Intn(W+1), 1+cfg.Rand.Intn((H+1)/2+1)
			tag = "box-random"
		}
		kind := i % 2
		var draw func(vaxis.Window)
		var ow, oh int
		if kind == 0 {
			hb := vx.NewHalfBlockImage(img)
			hb.Resize(w, h)
			ow, oh = hb.CellSize()
			draw = hb.Draw
		} else {
			fb := vx.NewFullBlockImage(img)
			fb.Resize(w, h)
			ow, oh = fb.CellSize()
			draw = fb.Draw
		}
		rsz := vaxis.VerifResizeImage(img, w, h, 1, 2)
		// draw into a window at an offset on a screen filled with a sentinel
		root := vx.Window()
		root.Fill(sentinel)
		ox, oy := cfg.Rand.Intn(cols-9), cfg.Rand.Intn(rows-7)
		win := root.New(ox, oy, ow+cfg.Rand.Intn(2), oh+cfg.Rand.Intn(2))
		if cfg.Rand.Intn(3) == 0 {
			// through a nested window
			mid := root.New(ox/2, oy/2, -1, -1)
			win = mid.New(ox-ox/2, oy-oy/2, ow+cfg.Rand.Intn(2), oh+cfg.Rand.Intn(2))
		}
		draw(win)
		scr := vx.VerifScreenNext()
		outside := 0
		var cells []string
		var cj []interface{}
		for y := 0; y < rows; y++ {
			for x := 0; x < cols; x++ {
				in := x >= ox && x < ox+ow && y >= oy && y < oy+oh
				if !in && (scr[y][x].Cell != sentinel || scr[y][x].Sixel) {
					outside++
				}
			}
		}
		for y := 0; y < oh; y++ {
			for x := 0; x < ow; x++ {
				t, j := cellTerm(scr[oy+y][ox+x])
				cells = append(cells, t)
				cj = append(cj, j)
			}
		}
		st, sj := imgTerm(img)
		rt, rj := imgTerm(rsz)
		scaled := rsz.Bounds().Max != img.Bounds().Max
		if scaled {
			tag += "+scaled"
		}
		kn := []string{"halfblock", "fullblock"}[kind]
		s.Add(hx.Tuple(z(kind), st, z(w), z(h), rt, z(ow), z(oh), hx.List(cells), z(outside)),
			map[string]interface{}{"stream": "pixels", "kind": kn, "src": sj, "w": w, "h": h, "resized": rj,
				"cellsW": ow, "cellsH": oh, "cells": cj, "outside": outside},
			true, kn, tag, []string{"NRGBA", "NRGBA", "RGBA", "NRGBA64"}[kindImg])

		// clipping (window smaller than the image): nothing outside the window changes.
		// Window clipping itself is C11; this only confirms Draw goes through SetCell.
		if i%10 == 0 && ow > 1 && oh > 1 {
			root.Fill(sentinel)
			small := root.New(ox, oy, ow-1, oh-1)
			draw(small)
			scr := vx.VerifScreenNext()
			for y := 0; y < rows; y++ {
				for x := 0; x < cols; x++ {
					in := x >= ox && x < ox+ow-1 && y >= oy && y < oy+oh-1
					if !in && scr[y][x].Cell != sentinel {
						*direct = append(*direct, hx.DirectViolation{Class: "draw-outside-window",
							Case: map[string]interface{}{"kind": kn, "src": sj, "w": w, "h": h, "win": []int{ox, oy, ow - 1, oh - 1}, "cell": []int{x, y}},
							What: "a block image drawn into a window smaller than the image changed a cell outside the window"})
					}
				}
			}
		}
	}
	return map[string]interface{}{"alpha_levels_covered_8bit": len(alphaSeen)}
}

// ---------------------------------------------------------------- stream placement

type token struct {
	kind int // 0 other, 1 CUP, 2 APC, 3 DCS
	a, b int
	body string
}

// tokenize splits console output into CUP sequences, APC strings and the rest
func tokenize(b []byte) []token {
	var out []token
	for i := 0; i < len(b); {
		if b[i] == 0x1b && i+1 < len(b) && b[i+1] == '_' {
			j := i + 2
			for j+1 < len(b) && !(b[j] == 0x1b && b[j+1] == '\\') {
				j++
			}
			out = append(out, token{kind: 2, body: string(b[i+2 : j])})
			i = j + 2
			continue
		}
		if b[i] == 0x1b && i+1 < len(b) && b[i+1] == 'P' {
			j := i + 2
			for j+1 < len(b) && !(b[j] == 0x1b && b[j+1] == '\\') {
				j++
			}
			out = append(out, token{kind: 3, body: string(b[i+2 : j])})
			i = j + 2
			continue
		}
		if b[i] == 0x1b && i+1 < len(b) && b[i+1] == '[' {
			j := i + 2
			for j < len(b) && (b[j] < 0x40 || b[j] > 0x7e) {
				j++
			}
			if j < len(b) && b[j] == 'H' {
				var r, c int
				if n, _ := fmt.Sscanf(string(b[i+2:j]), "%d;%d", &r, &c); n == 2 {
					out = append(out, token{kind: 1, a: r, b: c})
					i = j + 1
					continue
				}
			}
			out = append(out, token{kind: 0})
			i = j + 1
			continue
		}
		if len(out) == 0 || out[len(out)-1].kind != 0 {
			out = append(out, token{kind: 0})
		}
		i++
	}
	return out
}

func kv(body string) map[string]string {
	m := map[string]string{}
	body = strings.TrimPrefix(body, "G")
	if k := strings.IndexByte(body, ';'); k >= 0 {
		body = body[:k]
	}
	for _, f := range strings.Split(body, ",") {
		if p := strings.SplitN(f, "=", 2); len(p) == 2 {
			m[p[0]] = p[1]
		}
	}
	return m
}

// events extracts (tag, id, col, row) for each placement control sequence and (2, id, 0, 0) for
// each complete image upload, in output order
func events(b []byte) (evs [][4]int) { return eventsOf(tokenize(b)) }

func eventsOf(toks []token) (evs [][4]int) {
	for i, t := range toks {
		if t.kind == 3 {
			// a sixel string: parameters, 'q', data
			k := strings.IndexByte(t.body, 'q')
			if k < 0 || strings.Trim(t.body[:k], "0123456789;") != "" {
				continue
			}
			if i > 0 && toks[i-1].kind == 1 {
				evs = append(evs, [4]int{1, 0, toks[i-1].b - 1, toks[i-1].a - 1})
			} else {
				evs = append(evs, [4]int{9, 0, 0, 0})
			}
			continue
		}
		if t.kind != 2 || !strings.HasPrefix(t.body, "G") {
			continue
		}
		m := kv(t.body)
		id, _ := strconv.Atoi(m["i"])
		pid, _ := strconv.Atoi(m["p"])
		switch {
		case m["a"] == "d" && m["d"] == "i":
			evs = append(evs, [4]int{0, id, pid >> 16, pid & 0xffff})
		case m["a"] == "p":
			tag := 1
			j := i - 1
			for j >= 0 && toks[j].kind == 2 && strings.HasPrefix(toks[j].body, "Gf=100") {
				j--
			}
			if j < 0 || toks[j].kind != 1 || toks[j].a != (pid&0xffff)+1 || toks[j].b != (pid>>16)+1 || m["C"] != "1" {
				tag = 9 // not positioned at the placement's cell
			}
			evs = append(evs, [4]int{tag, id, pid >> 16, pid & 0xffff})
		case m["f"] == "100":
			if m["m"] == "0" {
				evs = append(evs, [4]int{2, id, 0, 0}) // final chunk of an upload of image id
			}
		default:
			evs = append(evs, [4]int{8, id, 0, 0})
		}
	}
	return
}

type placeable interface {
	Draw(vaxis.Window)
	Resize(w int, h int)
	CellSize() (int, int)
	VerifID() uint64
	VerifEncoding() bool
}

// history drives one Vaxis through Clear / Resize / Draw / Render and records the
// operations (model terms) and what was observed at every render.
type history struct {
	cfg     *hx.Config
	sixel   bool
	stream  string
	vx      *vaxis.Vaxis
	fc      *hx.FakeConsole
	root    vaxis.Window
	cleared bool
	ops     []string
	opsJ    [][]int
	frames  []string
	framesJ []interface{}
	tags    map[string]bool
	// sixel: images re-encoded since their last write, and those drawn (and fitting) this frame
	pending map[int]bool
	drawn   map[int][2]int
	direct  *[]hx.DirectViolation
	stale   int
	// kitty: the source of every image and the picture of its last Resize (for the kittytx stream)
	srcs  map[int]image.Image
	pics  map[int]image.Image
	boxes map[int][2]int
	// terminal size, and whether the size-changed branch of Render ran since the last frame
	rows, cols  int
	termResized bool
}

func newHistory(cfg *hx.Config, sixel bool, direct *[]hx.DirectViolation) *history {
	h := &history{cfg: cfg, sixel: sixel, stream: "placement", tags: map[string]bool{}, pending: map[int]bool{},
		drawn: map[int][2]int{}, direct: direct, srcs: map[int]image.Image{}, pics: map[int]image.Image{}, boxes: map[int][2]int{},
		rows: 24, cols: 80}
	if sixel {
		h.stream = "sixel"
	}
	h.vx, h.fc = newVaxis(24, 80)
	h.vx.Render()
	h.fc.Take()
	h.root = h.vx.Window()
	return h
}

func (h *history) addOp(code, id, col, row, w, ht, ww, wh int) {
	h.ops = append(h.ops, hx.Tuple(z(code), z(id), z(col), z(row), z(w), z(ht), z(ww), z(wh)))
	h.opsJ = append(h.opsJ, []int{code, id, col, row, w, ht, ww, wh})
}

func (h *history) newImage(src image.Image) placeable {
	if h.sixel {
		return h.vx.NewSixel(src)
	}
	k := h.vx.NewKittyGraphic(src)
	h.srcs[int(k.VerifID())] = src
	return k
}

// termResize: the terminal reports a new size (in-band report CSI 48 ; rows ; cols ; ypix ; xpix t,
// cells stay 8 x 16 pixels) and the application calls Render (or Refresh).  When the size differs
// the call takes the size-changed branch: it writes nothing and draws no frame (op 5); the frame
// after it is a full refresh.  A report of the size the terminal already has changes nothing: the
// call is an ordinary frame.
func (h *history) termResize(rows, cols int, byRefresh bool) {
	changed := rows != h.rows || cols != h.cols
	h.fc.SetSize(rows, cols)
	h.fc.InjectString(fmt.Sprintf("\x1b[48;%d;%d;%d;%dt", rows, cols, rows*16, cols*8))
	deadline := time.Now().Add(20 * time.Second)
	for {
		st := h.vx.VerifC03State()
		if st.ResizeFlag && st.NextSize.Rows == rows && st.NextSize.Cols == cols {
			break
		}
		if time.Now().After(deadline) {
			panic("the size report did not reach Vaxis")
		}
		time.Sleep(50 * time.Microsecond)
	}
	if !changed {
		h.tags["size-report-same-size"] = true
		h.render(byRefresh)
		return
	}
	if byRefresh {
		h.vx.Refresh()
	} else {
		h.vx.Render()
	}
	h.addOp(5, 0, 0, 0, 0, 0, 0, 0)
	h.tags["term-resize"] = true
	if out := h.fc.Take(); len(eventsOf(tokenize(out))) != 0 {
		*h.direct = append(*h.direct, hx.DirectViolation{Class: "resize-branch-writes-graphics",
			Case: map[string]interface{}{"stream": h.stream, "ops": h.opsJ, "output": string(out)},
			What: "the Render that notices a new terminal size wrote graphics commands (it must draw nothing)"})
	}
	if ws := h.vx.VerifWinSize(); ws.Rows != rows || ws.Cols != cols {
		panic(fmt.Sprintf("Render did not take the new size: %+v", ws))
	}
	h.rows, h.cols = rows, cols
	h.termResized = true
	// the screens were made anew: an application gets its window again; what Sixel.Draw marked
	// before is gone (the refresh marks it again)
	h.root = h.vx.Window()
	h.cleared = false
}

func (h *history) clear() {
	h.root = h.vx.Window()
	h.root.Clear()
	h.cleared = true
	h.addOp(0, 0, 0, 0, 0, 0, 0, 0)
}

func (h *history) resize(k placeable, w, ht int) {
	k.Resize(w, ht)
	waitIdle(k.VerifEncoding)
	if src := h.srcs[int(k.VerifID())]; src != nil {
		ws := h.vx.VerifWinSize()
		if rsz := vaxis.VerifResizeImage(src, w, ht, ws.XPixel/ws.Cols, ws.YPixel/ws.Rows); rsz.Bounds().Max.X > 0 && rsz.Bounds().Max.Y > 0 {
			h.pics[int(k.VerifID())], h.boxes[int(k.VerifID())] = rsz, [2]int{w, ht}
		}
	}
	h.pending[int(k.VerifID())] = true
	h.addOp(4, int(k.VerifID()), 0, 0, 0, 0, 0, 0)
}

func (h *history) draw(k placeable, col, row, ww, wh int, nested bool) {
	w, ht := k.CellSize()
	win := h.root.New(col, row, ww, wh)
	if nested {
		win = h.root.New(col/2, row/2, -1, -1).New(col-col/2, row-row/2, ww, wh)
	}
	ww, wh = win.Size()
	k.Draw(win)
	h.addOp(1, int(k.VerifID()), col, row, w, ht, ww, wh)
	if w <= ww && ht <= wh {
		h.drawn[int(k.VerifID())] = [2]int{col, row}
	}
}

func (h *history) render(refresh bool) {
	snap := h.vx.VerifGraphicsNext()
	if h.sixel && h.cleared {
		// Sixel.Draw marks exactly the cells of the drawn rectangles.  (Only on frames
		// that start from a cleared screen: a placement left over from an earlier frame
		// re-marks cells at render time with the image's current size, see writeFunc.)
		scr := h.vx.VerifScreenNext()
		want := map[[2]int]bool{}
		for _, p := range snap {
			for y := 0; y < p.H; y++ {
				for x := 0; x < p.W; x++ {
					want[[2]int{p.Col + x, p.Row + y}] = true
				}
			}
		}
		for y := range scr {
			for x := range scr[y] {
				if scr[y][x].Sixel != want[[2]int{x, y}] {
					*h.direct = append(*h.direct, hx.DirectViolation{Class: "sixel-cells",
						Case: map[string]interface{}{"ops": h.opsJ, "cell": []int{x, y}, "marked": scr[y][x].Sixel},
						What: "the cells marked by Sixel.Draw are not the cells of the drawn image rectangles"})
				}
			}
		}
	}
	if refresh {
		h.vx.Refresh()
		h.addOp(3, 0, 0, 0, 0, 0, 0, 0)
		h.tags["refresh"] = true
	} else {
		h.vx.Render()
		h.addOp(2, 0, 0, 0, 0, 0, 0, 0)
	}
	toks := tokenize(h.fc.Take())
	evs := eventsOf(toks)
	for id, pic := range h.pics {
		recordTx(toks, id, pic, h.srcs[id], h.boxes[id], "placement")
	}
	if h.sixel {
		// a sixel string carries no identifier, so the transmission clause is checked here:
		// an image re-encoded since its last write and drawn in this frame must be written
		for id, at := range h.drawn {
			if !h.pending[id] {
				continue
			}
			written := false
			for _, e := range evs {
				if e[0] == 1 && e[2] == at[0] && e[3] == at[1] {
					written = true
				}
			}
			if written {
				h.pending[id] = false
			} else {
				h.stale++
				if h.stale == 1 {
					*h.direct = append(*h.direct, hx.DirectViolation{Class: "resize-same-cells",
						Case: map[string]interface{}{"stream": "sixel", "ops": h.opsJ, "id": id},
						What: "a Sixel image resized to the same cell size is not written again, so the new pixels are not shown"})
				}
			}
		}
	}
	h.drawn = map[int][2]int{}
	h.cleared = false
	var ps, es []string
	var pj, ej [][]int
	for _, p := range snap {
		ps = append(ps, hx.Tuple(hx.ZU(p.ID), z(p.Col), z(p.Row), z(p.W), z(p.H)))
		pj = append(pj, []int{int(p.ID), p.Col, p.Row, p.W, p.H})
	}
	for _, e := range evs {
		es = append(es, hx.Tuple(z(e[0]), z(e[1]), z(e[2]), z(e[3])))
		ej = append(ej, []int{e[0], e[1], e[2], e[3]})
	}
	// a full refresh: Refresh(), or the first frame after a change of the terminal size
	rf := 0
	if refresh || h.termResized {
		rf = 1
	}
	if h.termResized {
		h.tags["frame-after-term-resize"] = true
	}
	h.termResized = false
	h.frames = append(h.frames, hx.Tuple(z(rf), hx.List(ps), hx.List(es)))
	h.framesJ = append(h.framesJ, map[string]interface{}{"refresh": rf == 1, "graphicsNext": pj, "events": ej})
}

func (h *history) finish(s *hx.Stream, nontrivial bool) {
	closeVaxis(h.vx)
	var tl []string
	for t := range h.tags {
		tl = append(tl, t)
	}
	s.Add(hx.Tuple(hx.List(h.ops), hx.List(h.frames)),
		map[string]interface{}{"stream": h.stream, "ops": h.opsJ, "frames": h.framesJ}, nontrivial, tl...)
}

func gradient(w, ht, seed int) *image.RGBA {
	src := image.NewRGBA(image.Rect(0, 0, w, ht))
	for j := 0; j < len(src.Pix); j += 4 {
		src.Pix[j], src.Pix[j+1], src.Pix[j+2], src.Pix[j+3] = uint8(j), uint8(j>>4), uint8(seed*90), 255
	}
	return src
}

// corpusPlacement is the deterministic replay of the recorded finding resize-same-cells:
// a 40x40 pixel image (cells of 8x16 pixels) is 32x32 pixels in a 4x3 box and 26x26 in a
// 4x2 box, 4x2 cells both times; the second Resize changes the pixels but not the placement.
func corpusPlacement(cfg *hx.Config, s *hx.Stream, direct *[]hx.DirectViolation, sixel bool) {
	h := newHistory(cfg, sixel, direct)
	k := h.newImage(gradient(40, 40, 1))
	h.resize(k, 4, 3)
	h.clear()
	h.draw(k, 2, 3, 10, 5, false)
	h.render(false)
	h.clear()
	h.resize(k, 4, 2)
	h.draw(k, 2, 3, 10, 5, false)
	h.render(false) // nothing is written: the 26x26 encoding stays unsent
	h.clear()
	h.draw(k, 5, 3, 10, 5, false)
	h.render(false) // the move writes it
	h.tags["corpus"] = true
	h.tags["resize-same-cells"] = true
	h.finish(s, true)
}

// corpusTermResize: directed histories around a change of the terminal size between two frames.
// The frame after it is a full refresh; what was placed before must be deleted from the terminal
// (moved, dropped or kept by the application) and what is drawn must be placed, whichever of Render
// and Refresh notices the new size, also after two changes in a row and before the first frame.
func corpusTermResize(cfg *hx.Config, s *hx.Stream, direct *[]hx.DirectViolation, sixel bool) {
	for v := 0; v < 8; v++ {
		h := newHistory(cfg, sixel, direct)
		k := h.newImage(gradient(40, 40, 1))
		k2 := h.newImage(gradient(24, 30, 2))
		h.resize(k, 4, 3)
		h.resize(k2, 3, 2)
		if v == 6 {
			h.termResize(20, 60, false) // before the first frame
		}
		h.clear()
		h.draw(k, 2, 3, 10, 5, false)
		if v >= 4 {
			h.draw(k2, 20, 1, 10, 5, false)
		}
		h.render(false)
		byRefresh := v%2 == 1
		switch v {
		case 5:
			h.termResize(30, 100, byRefresh)
			h.termResize(28, 90, !byRefresh) // twice in a row
		case 7:
			h.termResize(24, 80, byRefresh) // a report of the same size: an ordinary frame
			h.termResize(30, 100, byRefresh)
		default:
			h.termResize(30, 100, byRefresh)
		}
		h.clear()
		switch v {
		case 0, 1, 5, 7: // moved by the new layout
			h.draw(k, 5, 4, 10, 5, false)
			h.tags["move"] = true
		case 2, 4: // dropped (of two: one dropped, one kept)
			if v == 4 {
				h.draw(k2, 20, 1, 10, 5, false)
			}
			h.tags["drop"] = true
		default: // kept where it was
			h.draw(k, 2, 3, 10, 5, false)
			h.tags["keep"] = true
		}
		if v == 4 {
			// the size changes after the frame was drawn, just before it is rendered
			h.termResize(26, 84, byRefresh)
		}
		h.render(false)
		h.clear()
		if v != 2 {
			h.draw(k, 5, 4, 10, 5, false)
		}
		h.render(false)
		h.render(false)
		h.tags["corpus"] = true
		h.finish(s, true)
	}
}

func genPlacement(cfg *hx.Config, s *hx.Stream, direct *[]hx.DirectViolation, sixel bool) {
	corpusPlacement(cfg, s, direct, sixel)
	corpusTermResize(cfg, s, direct, sixel)
	n := 250
	if cfg.Thorough() {
		n = 5000
	}
	if sixel {
		n /= 2
	}
	for c := 0; c < n; c++ {
		h := newHistory(cfg, sixel, direct)
		type im struct {
			k        placeable
			col, row int
			bw, bh   int
			shown    bool
		}
		imgs := make([]*im, 1+cfg.Rand.Intn(3))
		for i := range imgs {
			// 8..64 pixels a side: at most 8 x 4 cells of 8 x 16, so no Resize into a box of
			// at least one cell truncates a side to 0 (an empty image has an empty sixel
			// encoding, which Sixel.Draw skips, and no PNG encoding at all)
			m := &im{k: h.newImage(gradient(8+cfg.Rand.Intn(57), 8+cfg.Rand.Intn(57), i)), col: cfg.Rand.Intn(40),
				row: cfg.Rand.Intn(12), bw: 1 + cfg.Rand.Intn(6), bh: 1 + cfg.Rand.Intn(4)}
			h.resize(m.k, m.bw, m.bh)
			imgs[i] = m
		}
		clearEvery := cfg.Rand.Intn(6) != 0 // most applications clear every frame
		nframes := 3 + cfg.Rand.Intn(8)
		// one history in three lives in a terminal whose size changes now and then
		resizing := cfg.Rand.Intn(3) == 0
		newSize := func() (int, int) {
			switch cfg.Rand.Intn(8) {
			case 0:
				return h.rows, h.cols // a report that changes nothing
			case 1:
				return 6 + cfg.Rand.Intn(10), 20 + cfg.Rand.Intn(30) // small: windows are cut
			default:
				return 16 + cfg.Rand.Intn(16), 50 + cfg.Rand.Intn(60)
			}
		}
		for f := 0; f < nframes; f++ {
			lateResize := false
			if resizing && cfg.Rand.Intn(3) == 0 {
				if cfg.Rand.Intn(4) == 0 {
					lateResize = true
				} else {
					r, c := newSize()
					h.termResize(r, c, cfg.Rand.Intn(3) == 0)
				}
			}
			if clearEvery || cfg.Rand.Intn(3) == 0 {
				h.clear()
			} else {
				h.tags["no-clear"] = true
			}
			for _, m := range imgs {
				r := cfg.Rand.Intn(10)
				switch {
				case !m.shown && r < 5:
					m.shown = true
					h.tags["add"] = true
				case !m.shown:
					continue
				case r < 5:
					h.tags["keep"] = true
				case r < 7:
					m.col, m.row = cfg.Rand.Intn(40), cfg.Rand.Intn(12)
					h.tags["move"] = true
				case r < 8:
					// a new box; half of the time a neighbouring one, which often keeps the cell size
					ow, oh := m.k.CellSize()
					if cfg.Rand.Intn(2) == 0 {
						m.bw, m.bh = 1+cfg.Rand.Intn(6), 1+cfg.Rand.Intn(4)
					} else if cfg.Rand.Intn(2) == 0 {
						m.bw++
					} else {
						m.bh++
					}
					h.resize(m.k, m.bw, m.bh)
					h.tags["resize"] = true
					if nw, nh := m.k.CellSize(); nw == ow && nh == oh {
						h.tags["resize-same-cells"] = true
					}
				default:
					m.shown = false
					h.tags["drop"] = true
					continue
				}
				// the window: usually roomy, sometimes exactly the image, sometimes too small
				w, ht := m.k.CellSize()
				ww, wh := 10, 5
				switch cfg.Rand.Intn(8) {
				case 0:
					ww, wh = w, ht
				case 1:
					ww, wh = cfg.Rand.Intn(w+1), 1+cfg.Rand.Intn(5)
					h.tags["small-window"] = true
				case 2:
					ww, wh = 1+cfg.Rand.Intn(10), cfg.Rand.Intn(ht+1)
					h.tags["small-window"] = true
				}
				h.draw(m.k, m.col, m.row, ww, wh, cfg.Rand.Intn(3) == 0)
			}
			if lateResize {
				// the size changes after the frame was drawn, before it is rendered
				r, c := newSize()
				h.termResize(r, c, cfg.Rand.Intn(3) == 0)
			}
			h.render(cfg.Rand.Intn(7) == 0)
		}
		h.finish(s, h.tags["move"] || h.tags["drop"] || h.tags["refresh"] || h.tags["resize"] || h.tags["term-resize"])
	}
}

// ---------------------------------------------------------------- stream blockhist

// a block image object as the application sees it
type blockObj interface {
	Draw(vaxis.Window)
	Resize(w int, h int)
	Destroy()
	CellSize() (int, int)
}

// histPicture makes a picture with opaque, transparent and semi-transparent regions: bands,
// a checkerboard, or per-pixel random alpha (every level, the threshold neighbourhood often)
func histPicture(cfg *hx.Config, ag *alphaGen, W, H int) (image.Image, string) {
	var img draw.Image
	typ := cfg.Rand.Intn(4)
	switch typ {
	case 0, 1:
		img = image.NewNRGBA(image.Rect(0, 0, W, H))
	case 2:
		img = image.NewRGBA(image.Rect(0, 0, W, H))
	default:
		img = image.NewNRGBA64(image.Rect(0, 0, W, H))
	}
	opaque := func() color.NRGBA {
		return color.NRGBA{uint8(cfg.Rand.Intn(256)), uint8(cfg.Rand.Intn(256)), uint8(cfg.Rand.Intn(256)), 255}
	}
	// a band is opaque, transparent, or around the threshold
	band := func() color.NRGBA {
		c := opaque()
		switch cfg.Rand.Intn(5) {
		case 0, 1:
			c.A = 0
		case 2:
			c.A = uint8(46 + cfg.Rand.Intn(8))
		}
		return c
	}
	pat := cfg.Rand.Intn(5)
	name := []string{"columns", "rows", "checker", "random", "random"}[pat]
	switch pat {
	case 0, 1:
		n := W
		if pat == 1 {
			n = H
		}
		cols := make([]color.NRGBA, n)
		for i := 0; i < n; {
			c, l := band(), 1+cfg.Rand.Intn(3)
			for j := 0; j < l && i < n; j, i = j+1, i+1 {
				cols[i] = c
			}
		}
		for y := 0; y < H; y++ {
			for x := 0; x < W; x++ {
				if pat == 0 {
					img.Set(x, y, cols[x])
				} else {
					img.Set(x, y, cols[y])
				}
			}
		}
	case 2:
		a, b := opaque(), band()
		b.A = 0
		k := 1 + cfg.Rand.Intn(2)
		for y := 0; y < H; y++ {
			for x := 0; x < W; x++ {
				if (x/k+y/(2*k))%2 == 0 {
					img.Set(x, y, a)
				} else {
					img.Set(x, y, b)
				}
			}
		}
	default:
		for y := 0; y < H; y++ {
			for x := 0; x < W; x++ {
				c := opaque()
				c.A = ag.next(cfg)
				img.Set(x, y, c)
			}
		}
	}
	return img, name + "/" + []string{"NRGBA", "NRGBA", "RGBA", "NRGBA64"}[typ]
}

// genBlockHist: one HalfBlockImage / FullBlockImage object per case and a history of calls on
// it: Resize into fitting, growing, shrinking, equal and empty boxes, Draw, Destroy, Resize again.
// Every Draw goes onto a screen filled with a sentinel; the cells that changed are the observation.
func genBlockHist(cfg *hx.Config, s *hx.Stream) {
	const rows, cols = 16, 40
	vx, _ := newVaxis(rows, cols)
	defer closeVaxis(vx)
	n := 300
	if cfg.Thorough() {
		n = 6000
	}
	ag := &alphaGen{}
	for c := 0; c < n; c++ {
		W, H := 1+cfg.Rand.Intn(8), 1+cfg.Rand.Intn(10)
		src, pname := histPicture(cfg, ag, W, H)
		kind := c % 2
		var obj blockObj
		if kind == 0 {
			obj = vx.NewHalfBlockImage(src)
		} else {
			obj = vx.NewFullBlockImage(src)
		}
		st, sj := imgTerm(src)
		var ops []string
		var opsJ []interface{}
		tags := map[string]bool{pname: true}
		lines := (H + 1) / 2
		lastW, lastH := W, lines // box of the last Resize
		resizes, drawsAfterSecond, destroyed, defaultCells := 0, 0, false, 0

		doResize := func(class string) {
			pw, ph := obj.CellSize()
			var w, h int
			switch class {
			case "fits":
				w, h = W+cfg.Rand.Intn(3), lines+cfg.Rand.Intn(3)
			case "shrink":
				w, h = 1+cfg.Rand.Intn(pw+1), 1+cfg.Rand.Intn(ph+1)
				if cfg.Rand.Intn(2) == 0 && pw > 1 {
					w = 1 + cfg.Rand.Intn(pw-1)
				}
			case "grow":
				w, h = pw+1+cfg.Rand.Intn(3), ph+1+cfg.Rand.Intn(2)
			case "equal":
				w, h = lastW, lastH
			case "zero":
				w, h = cfg.Rand.Intn(W+2), cfg.Rand.Intn(lines+2)
				switch cfg.Rand.Intn(3) {
				case 0:
					w = 0
				case 1:
					h = 0
				default:
					w, h = 0, 0
				}
			default:
				w, h = cfg.Rand.Intn(W+3), cfg.Rand.Intn(lines+3)
			}
			panicked, _ := hx.Catch(func() { obj.Resize(w, h) })
			oc := 0
			if panicked {
				oc = 1
			}
			ow, oh := obj.CellSize()
			rsz := vaxis.VerifResizeImage(src, w, h, 1, 2)
			rt, rj := imgTerm(rsz)
			ops = append(ops, hx.Tuple(z(0), z(w), z(h), z(oc), z(ow), z(oh), rt, hx.List(nil)))
			opsJ = append(opsJ, map[string]interface{}{"op": "Resize", "w": w, "h": h, "outcome": oc, "cellsW": ow, "cellsH": oh, "resized": rj})
			if resizes > 0 && !destroyed {
				switch {
				case ow*oh < pw*ph:
					tags["resize-fewer-cells"] = true
				case ow*oh > pw*ph:
					tags["resize-more-cells"] = true
				default:
					tags["resize-same-cells"] = true
				}
			}
			if destroyed {
				tags["resize-after-destroy"] = true
			}
			if w == 0 || h == 0 {
				tags["empty-box"] = true
			}
			if rsz.Bounds().Max != src.Bounds().Max {
				tags["scaled"] = true
			}
			resizes++
			destroyed = false
			lastW, lastH = w, h
		}
		doDraw := func() {
			ow, oh := obj.CellSize()
			root := vx.Window()
			root.Fill(sentinel)
			ox, oy := cfg.Rand.Intn(cols-9), cfg.Rand.Intn(rows-6)
			// the window: the image's size or a cell more; sometimes smaller (the image is cut)
			ww, wh := ow+cfg.Rand.Intn(2), oh+cfg.Rand.Intn(2)
			if cfg.Rand.Intn(6) == 0 {
				if cfg.Rand.Intn(2) == 0 {
					ww = cfg.Rand.Intn(ow + 1)
				} else {
					wh = cfg.Rand.Intn(oh + 1)
				}
				tags["window-cuts-image"] = true
			}
			win := root.New(ox, oy, ww, wh)
			if cfg.Rand.Intn(3) == 0 {
				win = root.New(ox/2, oy/2, -1, -1).New(ox-ox/2, oy-oy/2, ww, wh)
			}
			ww, wh = win.Size()
			panicked, _ := hx.Catch(func() { obj.Draw(win) })
			oc := 0
			if panicked {
				oc = 1
			}
			scr := vx.VerifScreenNext()
			var drawn []string
			var dj []interface{}
			for y := 0; y < rows; y++ {
				for x := 0; x < cols; x++ {
					if scr[y][x].Cell != sentinel || scr[y][x].Sixel {
						t, j := cellTerm(scr[y][x])
						drawn = append(drawn, hx.Tuple(z(x-ox), z(y-oy), t))
						dj = append(dj, []interface{}{x - ox, y - oy, j})
						if scr[y][x].Background == 0 && scr[y][x].Foreground == 0 {
							defaultCells++
						}
					}
				}
			}
			ow, oh = obj.CellSize()
			ops = append(ops, hx.Tuple(z(1), z(ww), z(wh), z(oc), z(ow), z(oh), hx.Tuple(z(0), z(0), hx.List(nil)), hx.List(drawn)))
			opsJ = append(opsJ, map[string]interface{}{"op": "Draw", "outcome": oc, "cellsW": ow, "cellsH": oh, "window_origin": []int{ox, oy}, "window_size": []int{ww, wh}, "drawn": dj})
			if resizes >= 2 && !destroyed {
				drawsAfterSecond++
			}
			if destroyed {
				tags["draw-after-destroy"] = true
			}
			if resizes == 0 {
				tags["draw-before-resize"] = true
			}
		}
		doDestroy := func() {
			panicked, _ := hx.Catch(func() { obj.Destroy() })
			oc := 0
			if panicked {
				oc = 1
			}
			ow, oh := obj.CellSize()
			ops = append(ops, hx.Tuple(z(2), z(0), z(0), z(oc), z(ow), z(oh), hx.Tuple(z(0), z(0), hx.List(nil)), hx.List(nil)))
			opsJ = append(opsJ, map[string]interface{}{"op": "Destroy", "outcome": oc, "cellsW": ow, "cellsH": oh})
			destroyed = true
			tags["destroy"] = true
		}

		if c%5 == 0 {
			// directed: large, smaller, same, empty, larger, destroyed, small again - drawn each time
			tags["directed"] = true
			for _, cl := range []string{"fits", "shrink", "equal", "zero", "grow", "destroy", "shrink"} {
				if cl == "destroy" {
					doDestroy()
				} else {
					doResize(cl)
				}
				doDraw()
			}
		} else {
			tags["random"] = true
			if cfg.Rand.Intn(8) == 0 {
				doDraw() // before the first Resize
			}
			doResize([]string{"fits", "fits", "random", "shrink"}[cfg.Rand.Intn(4)])
			for k, nops := 0, 3+cfg.Rand.Intn(8); k < nops; k++ {
				switch r := cfg.Rand.Intn(20); {
				case r < 9:
					doResize([]string{"shrink", "shrink", "shrink", "grow", "fits", "equal", "zero", "random"}[cfg.Rand.Intn(8)])
				case r < 17:
					doDraw()
				default:
					doDestroy()
				}
			}
			doDraw()
		}
		if defaultCells > 0 {
			tags["default-colour-cells"] = true
		}
		var tl []string
		for t := range tags {
			tl = append(tl, t)
		}
		kn := []string{"halfblock", "fullblock"}[kind]
		s.Add(hx.Tuple(z(kind), st, hx.List(ops)),
			map[string]interface{}{"stream": "blockhist", "kind": kn, "src": sj, "ops": opsJ},
			drawsAfterSecond > 0, append(tl, kn)...)
	}
}

// ---------------------------------------------------------------- stream gfxhist

// sixelPic is a decoded sixel string: the colour (r g b in percent) of every pixel that is set
type sixelPic struct {
	px         map[[2]int][3]int
	maxX, maxY int
}

// decodeSixel decodes the body of a sixel DCS string ("0;0;8q" parameters, raster attributes,
// colour definitions #n;2;r;g;b, colour selections #n, repeats !n, $ and -)
func decodeSixel(body string) (*sixelPic, bool) {
	k := strings.IndexByte(body, 'q')
	if k < 0 {
		return nil, false
	}
	p := &sixelPic{px: map[[2]int][3]int{}, maxX: -1, maxY: -1}
	pal := map[int][3]int{}
	cur, x, bandN := 0, 0, 0
	b := body[k+1:]
	num := func(i int) (int, int) {
		n := 0
		for i < len(b) && b[i] >= '0' && b[i] <= '9' {
			n = n*10 + int(b[i]-'0')
			i++
		}
		return n, i
	}
	put := func(c byte, count int) bool {
		if c < '?' || c > '~' {
			return false
		}
		bits := int(c - '?')
		for ; count > 0; count-- {
			for q := 0; q < 6; q++ {
				if bits>>uint(q)&1 == 1 {
					y := bandN*6 + q
					p.px[[2]int{x, y}] = pal[cur]
					if x > p.maxX {
						p.maxX = x
					}
					if y > p.maxY {
						p.maxY = y
					}
				}
			}
			x++
		}
		return true
	}
	for i := 0; i < len(b); {
		switch c := b[i]; {
		case c == '"':
			i++
			for i < len(b) && (b[i] == ';' || (b[i] >= '0' && b[i] <= '9')) {
				i++
			}
		case c == '#':
			var n int
			n, i = num(i + 1)
			if i < len(b) && b[i] == ';' {
				var v [4]int
				for j := 0; j < 4; j++ {
					if i >= len(b) || b[i] != ';' {
						return nil, false
					}
					v[j], i = num(i + 1)
				}
				if v[0] != 2 {
					return nil, false
				}
				pal[n] = [3]int{v[1], v[2], v[3]}
			} else {
				cur = n
			}
		case c == '!':
			var n int
			n, i = num(i + 1)
			if i >= len(b) || !put(b[i], n) {
				return nil, false
			}
			i++
		case c == '$':
			x = 0
			i++
		case c == '-':
			x = 0
			bandN++
			i++
		default:
			if !put(c, 1) {
				return nil, false
			}
			i++
		}
	}
	return p, true
}

// sixelPadRows counts the pixel rows found below a picture inside its last band of six
var sixelPadRows = map[int]int{}

// sixelShows: the decoded string shows exactly the picture (opaque pixels with their colour at
// sixel precision, transparent pixels not set, nothing outside).  Not compared: the rows below
// the picture inside its last band of six - go-sixel reads them through image.Paletted.At, which
// answers palette entry 0 outside the bounds, and writes them (oracle behaviour, counted in
// the statistics as sixel_rows_below_picture)
func sixelShows(p *sixelPic, want image.Image) bool {
	b := want.Bounds()
	seen := 0
	pad := 0
	for at := range p.px {
		if at[1] >= b.Max.Y && at[1] < (b.Max.Y+5)/6*6 && at[0] < b.Max.X {
			seen++
			if at[1]-b.Max.Y+1 > pad {
				pad = at[1] - b.Max.Y + 1
			}
		}
	}
	sixelPadRows[pad]++
	for y := 0; y < b.Max.Y; y++ {
		for x := 0; x < b.Max.X; x++ {
			r, g, bl, a := want.At(x, y).RGBA()
			got, ok := p.px[[2]int{x, y}]
			if a == 0 {
				if ok {
					return false
				}
				continue
			}
			if !ok || got != [3]int{int(r * 100 / 0xFFFF), int(g * 100 / 0xFFFF), int(bl * 100 / 0xFFFF)} {
				return false
			}
			seen++
		}
	}
	return seen == len(p.px)
}

func samePixels(a, b image.Image) bool {
	if a.Bounds() != b.Bounds() {
		return false
	}
	r := a.Bounds()
	for y := r.Min.Y; y < r.Max.Y; y++ {
		for x := r.Min.X; x < r.Max.X; x++ {
			r1, g1, b1, a1 := a.At(x, y).RGBA()
			r2, g2, b2, a2 := b.At(x, y).RGBA()
			if r1 != r2 || g1 != g2 || b1 != b2 || a1 != a2 {
				return false
			}
		}
	}
	return true
}

// gfxHist drives one KittyImage / Sixel through Resize / Show / Destroy on its own Vaxis
type gfxHist struct {
	cfg      *hx.Config
	sixel    bool
	vx       *vaxis.Vaxis
	fc       *hx.FakeConsole
	src      image.Image
	img      placeable
	destroy  func()
	cw, ch   int
	ops      []string
	opsJ     []interface{}
	tags     map[string]bool
	lastRsz  image.Image // what resizeImage returns for the last Resize
	lastBox  [2]int
	enc      bool        // the last Resize gave a picture that is not empty, no Destroy since
	termData image.Image // kitty: the picture the terminal holds for the image id
	shows    int
	lastPic  image.Image // the picture of the last Resize that gave one (what an encoding exists of)
	picBox   [2]int
}

func newGfxHist(cfg *hx.Config, sixel bool, src image.Image) *gfxHist {
	g := &gfxHist{cfg: cfg, sixel: sixel, src: src, tags: map[string]bool{}, lastBox: [2]int{3, 2}}
	g.vx, g.fc = newVaxis(24, 80)
	ws := g.vx.VerifWinSize()
	g.cw, g.ch = ws.XPixel/ws.Cols, ws.YPixel/ws.Rows
	if sixel {
		sx := g.vx.NewSixel(src)
		g.img, g.destroy = sx, sx.Destroy
	} else {
		k := g.vx.NewKittyGraphic(src)
		g.img, g.destroy = k, k.Destroy
	}
	g.vx.Render()
	g.fc.Take()
	return g
}

func (g *gfxHist) add(code, a, b, oc, nw, nh, placed, sent, dw, dh, same int, name string) {
	ow, oh := g.img.CellSize()
	g.ops = append(g.ops, hx.Tuple(z(code), z(a), z(b), z(oc), z(ow), z(oh), z(nw), z(nh), z(placed), z(sent), z(dw), z(dh), z(same)))
	g.opsJ = append(g.opsJ, map[string]interface{}{"op": name, "a": a, "b": b, "outcome": oc, "cellsW": ow, "cellsH": oh,
		"resizedW": nw, "resizedH": nh, "placed": placed, "sent": sent, "dataW": dw, "dataH": dh, "same": same})
}

func (g *gfxHist) resize(w, h int) {
	pw, ph := g.img.CellSize()
	panicked, _ := hx.Catch(func() { g.img.Resize(w, h) })
	waitIdle(g.img.VerifEncoding)
	oc := 0
	if panicked {
		oc = 1
	}
	g.lastRsz = vaxis.VerifResizeImage(g.src, w, h, g.cw, g.ch)
	m := g.lastRsz.Bounds().Max
	g.enc = m.X > 0 && m.Y > 0
	g.lastBox = [2]int{w, h}
	if g.enc {
		g.lastPic, g.picBox = g.lastRsz, [2]int{w, h}
	}
	g.add(0, w, h, oc, m.X, m.Y, 0, 0, 0, 0, 0, "Resize")
	ow, oh := g.img.CellSize()
	if len(g.ops) > 1 {
		switch {
		case ow == pw && oh == ph:
			g.tags["resize-same-cells"] = true
		case ow*oh < pw*ph:
			g.tags["resize-fewer-cells"] = true
		default:
			g.tags["resize-more-cells"] = true
		}
	}
	if w == 0 || h == 0 {
		g.tags["empty-box"] = true
	}
	if !g.enc {
		g.tags["empty-picture"] = true
	}
}

// show: Clear, Draw into a window of ww x wh cells, Refresh; then read graphicsNext and the output
func (g *gfxHist) show(ww, wh int) {
	id := int(g.img.VerifID())
	ow, oh := g.img.CellSize()
	root := g.vx.Window()
	root.Clear()
	col, row := g.cfg.Rand.Intn(40), g.cfg.Rand.Intn(12)
	win := root.New(col, row, ww, wh)
	if g.cfg.Rand.Intn(4) == 0 {
		win = root.New(col/2, row/2, -1, -1).New(col-col/2, row-row/2, ww, wh)
	}
	ww, wh = win.Size()
	panicked, _ := hx.Catch(func() { g.img.Draw(win) })
	oc := 0
	if panicked {
		oc = 1
	}
	snap := g.vx.VerifGraphicsNext()
	g.vx.Refresh()
	toks := tokenize(g.fc.Take())
	if !g.sixel {
		recordTx(toks, id, g.lastPic, g.src, g.picBox, "gfxhist")
	}
	puts, sent, dels, bad := 0, 0, 0, false
	var payload strings.Builder
	var sixelData *sixelPic
	for i, t := range toks {
		switch {
		case t.kind == 3:
			k := strings.IndexByte(t.body, 'q')
			if k < 0 || strings.Trim(t.body[:k], "0123456789;") != "" {
				continue
			}
			sent++
			if i > 0 && toks[i-1].kind == 1 && toks[i-1].a == row+1 && toks[i-1].b == col+1 {
				puts++
			} else {
				bad = true
			}
			if d, ok := decodeSixel(t.body); ok {
				sixelData = d
			} else {
				bad = true
			}
		case t.kind == 2 && strings.HasPrefix(t.body, "G"):
			m := kv(t.body)
			tid, _ := strconv.Atoi(m["i"])
			if tid != id {
				continue
			}
			switch {
			case m["f"] == "100":
				if k := strings.IndexByte(t.body, ';'); k >= 0 {
					payload.WriteString(t.body[k+1:])
				}
				if m["m"] == "0" {
					// the upload is complete: the terminal now holds this picture
					sent++
					raw, err := base64.StdEncoding.DecodeString(payload.String())
					payload.Reset()
					g.termData = nil
					if err == nil {
						if pic, err := png.Decode(bytes.NewReader(raw)); err == nil {
							g.termData = pic
						}
					}
					if g.termData == nil {
						bad = true
					}
				}
			case m["a"] == "p":
				pid, _ := strconv.Atoi(m["p"])
				j := i - 1
				for j >= 0 && toks[j].kind == 2 && strings.HasPrefix(toks[j].body, "Gf=100") {
					j--
				}
				if j >= 0 && toks[j].kind == 1 && toks[j].a == row+1 && toks[j].b == col+1 && pid == col<<16|row && m["C"] == "1" {
					puts++
				} else {
					bad = true
				}
			case m["a"] == "d" && m["d"] == "i":
				// the placement of the frame before is deleted on a refresh
				dels++
			default:
				bad = true
			}
		}
	}
	placed := 9
	switch {
	case bad:
	case len(snap) == 0 && puts == 0:
		placed = 0
	case len(snap) == 1 && puts == 1 && snap[0] == (vaxis.VerifPlacement{ID: uint64(id), Col: col, Row: row, W: ow, H: oh}):
		placed = 1
	case len(snap) == 1 && puts == 0:
		placed = 8 // a placement that was not written
	}
	dw, dh, same := 0, 0, 0
	if placed == 1 {
		if g.sixel {
			if sixelData != nil {
				dw, dh = sixelData.maxX+1, sixelData.maxY+1
				if g.lastRsz != nil && sixelShows(sixelData, g.lastRsz) {
					// a sixel string has no size of its own: when it shows exactly the picture, its
					// size is the picture's (trailing transparent pixels are not written)
					same = 1
					dw, dh = g.lastRsz.Bounds().Max.X, g.lastRsz.Bounds().Max.Y
				}
			}
		} else if g.termData != nil {
			dw, dh = g.termData.Bounds().Max.X, g.termData.Bounds().Max.Y
			if g.lastRsz != nil && samePixels(g.termData, g.lastRsz) {
				same = 1
			}
		}
		g.tags["placed"] = true
	} else {
		g.tags["not-placed"] = true
	}
	if sent > 0 {
		g.tags["data-sent"] = true
	} else if placed == 1 {
		g.tags["placed-without-resend"] = true
	}
	// (for a Show the field "resizedW" carries the number of placement deletions)
	g.add(1, ww, wh, oc, dels, 0, placed, sent, dw, dh, same, "Show")
	g.shows++
}

func (g *gfxHist) destroyImg() {
	id := int(g.img.VerifID())
	panicked, _ := hx.Catch(g.destroy)
	oc := 0
	if panicked {
		oc = 1
	}
	deleted := 0
	for _, t := range tokenize(g.fc.Take()) {
		if t.kind == 2 && strings.HasPrefix(t.body, "G") {
			m := kv(t.body)
			if tid, _ := strconv.Atoi(m["i"]); tid == id && m["a"] == "d" && m["d"] == "I" {
				deleted = 1
				g.termData = nil
			}
		}
	}
	g.enc = false
	g.tags["destroy"] = true
	g.add(2, 0, 0, oc, 0, 0, deleted, 0, 0, 0, 0, "Destroy")
}

func (g *gfxHist) finish(s *hx.Stream, resizes int) {
	closeVaxis(g.vx)
	var tl []string
	for t := range g.tags {
		tl = append(tl, t)
	}
	kind, kn := 2, "kitty"
	if g.sixel {
		kind, kn = 3, "sixel"
	}
	b := g.src.Bounds().Max
	nr := image.NewNRGBA(g.src.Bounds())
	draw.Draw(nr, nr.Bounds(), g.src, image.Point{}, draw.Src)
	s.Add(hx.Tuple(z(kind), z(b.X), z(b.Y), z(g.cw), z(g.ch), hx.List(g.ops)),
		map[string]interface{}{"stream": "gfxhist", "kind": kn, "wPix": b.X, "hPix": b.Y, "cellPix": []int{g.cw, g.ch},
			"src_nrgba_base64": base64.StdEncoding.EncodeToString(nr.Pix), "ops": g.opsJ},
		resizes >= 2 && g.shows > 0, append(tl, kn)...)
}

// fewColours: an opaque picture of at most 6 colours (exact through the sixel quantiser) with a
// few fully transparent pixels
func fewColours(cfg *hx.Config, W, H int) image.Image {
	pal := make([]color.NRGBA, 2+cfg.Rand.Intn(5))
	for i := range pal {
		pal[i] = color.NRGBA{uint8(cfg.Rand.Intn(256)), uint8(cfg.Rand.Intn(256)), uint8(cfg.Rand.Intn(256)), 255}
	}
	img := image.NewNRGBA(image.Rect(0, 0, W, H))
	bw, bh := 1+cfg.Rand.Intn(9), 1+cfg.Rand.Intn(9)
	holes := cfg.Rand.Intn(3) == 0
	for y := 0; y < H; y++ {
		for x := 0; x < W; x++ {
			if holes && cfg.Rand.Intn(9) == 0 {
				continue
			}
			img.SetNRGBA(x, y, pal[(x/bw+2*(y/bh))%len(pal)])
		}
	}
	return img
}

// corpusNoEncoding is the deterministic replay of the fixed defect kitty-no-encoding (props/C20.v,
// C20_kitty_no_encoding_refuted is the behaviour before the fix): 20x40 pixels, cells 8x16; the
// second Show must place nothing
func corpusNoEncoding(cfg *hx.Config, s *hx.Stream) {
	g := newGfxHist(cfg, false, fewColours(cfg, 20, 40))
	g.resize(3, 3)
	g.show(10, 5)
	g.resize(0, 2)
	g.show(10, 5)
	g.tags["corpus"] = true
	g.tags["no-encoding"] = true
	g.finish(s, 2)
}

// genGfxHist: histories of Resize (random, equal, neighbouring, empty boxes; thin pictures that
// scale to an empty one), Show (roomy, exact and too small windows) and Destroy on one object
func genGfxHist(cfg *hx.Config, s *hx.Stream) {
	corpusNoEncoding(cfg, s)
	n := 120
	if cfg.Thorough() {
		n = 2400
	}
	for c := 0; c < n; c++ {
		sixel := c%2 == 1
		W, H := 8+cfg.Rand.Intn(41), 8+cfg.Rand.Intn(57)
		switch cfg.Rand.Intn(6) {
		case 0: // tall and thin: a low box scales the width to 0
			W, H = 1+cfg.Rand.Intn(8), 100+cfg.Rand.Intn(100)
		case 1:
			W, H = 100+cfg.Rand.Intn(200), 1+cfg.Rand.Intn(16)
		}
		g := newGfxHist(cfg, sixel, fewColours(cfg, W, H))
		resizes := 0
		doResize := func() {
			w, h := 1+cfg.Rand.Intn(6), 1+cfg.Rand.Intn(4)
			switch r := cfg.Rand.Intn(20); {
			case r < 3:
				switch cfg.Rand.Intn(3) {
				case 0:
					w = 0
				case 1:
					h = 0
				default:
					w, h = 0, 0
				}
			case r < 6:
				w, h = g.lastBox[0], g.lastBox[1]
			case r < 10:
				w, h = g.lastBox[0], g.lastBox[1]
				if cfg.Rand.Intn(2) == 0 {
					w += 1 - 2*cfg.Rand.Intn(2)
				} else {
					h += 1 - 2*cfg.Rand.Intn(2)
				}
				if w < 0 {
					w = 0
				}
				if h < 0 {
					h = 0
				}
			}
			g.resize(w, h)
			resizes++
		}
		doShow := func() {
			// also without a current encoding (before the first Resize, after Destroy, after a
			// Resize into an empty box): nothing may be placed then
			if !g.enc {
				g.tags["no-encoding"] = true
			}
			ow, oh := g.img.CellSize()
			ww, wh := 10, 5
			switch cfg.Rand.Intn(7) {
			case 0:
				ww, wh = ow, oh
			case 1:
				ww = cfg.Rand.Intn(ow + 1)
				g.tags["small-window"] = true
			case 2:
				wh = cfg.Rand.Intn(oh + 1)
				g.tags["small-window"] = true
			}
			g.show(ww, wh)
		}
		if cfg.Rand.Intn(8) == 0 {
			doShow() // before the first Resize
			g.tags["show-before-resize"] = true
		}
		doResize()
		for k, nops := 0, 3+cfg.Rand.Intn(7); k < nops; k++ {
			switch r := cfg.Rand.Intn(20); {
			case r < 8:
				doResize()
			case r < 18:
				doShow()
			default:
				g.destroyImg()
			}
		}
		doShow()
		g.finish(s, resizes)
	}
}

// ---------------------------------------------------------------- stream float

func fracOf(f float64) (string, string) {
	mant, exp := math.Frexp(f) // f = mant * 2^exp, 0.5 <= mant < 1
	n := new(big.Int).SetInt64(int64(mant * (1 << 53)))
	e := exp - 53
	d := big.NewInt(1)
	if e >= 0 {
		n.Lsh(n, uint(e))
	} else {
		d.Lsh(d, uint(-e))
	}
	return n.String(), d.String()
}

func genFloat(cfg *hx.Config, s *hx.Stream) {
	n := 1000
	if cfg.Thorough() {
		n = 60000
	}
	pick := func() int64 {
		switch cfg.Rand.Intn(5) {
		case 0:
			return 1 + cfg.Rand.Int63n(64)
		case 1:
			return 1 + cfg.Rand.Int63n(70000)
		case 2:
			return 1 + cfg.Rand.Int63n(1<<40)
		case 3:
			return (1 << 53) - 8 + cfg.Rand.Int63n(4096) // around 2^53: the conversion rounds
		default:
			return 1 + cfg.Rand.Int63n(1<<62)
		}
	}
	add := func(a, b, k int64, tag string) {
		f := float64(a) / float64(b)
		f = f * float64(k)
		nn, dd := fracOf(f)
		s.Add(hx.Tuple(hx.Z(a), hx.Z(b), hx.Z(k), nn, dd),
			map[string]interface{}{"stream": "float", "a": a, "b": b, "k": k, "bits": fmt.Sprintf("%016x", math.Float64bits(f))},
			f != float64(a)*float64(k)/float64(b) || a%b != 0, tag)
	}
	for b := int64(1); b <= 64; b++ {
		for a := int64(1); a <= 12; a++ {
			add(a, b, b, "a/b*b")
		}
	}
	for i := 0; i < n; i++ {
		add(pick(), pick(), pick(), "random")
	}
}

// genQuant: the sixel path quantises with octreequant.Paletted(img, 254).  No Coq model;
// direct checks: indices are valid, the palette has at most 254 entries, and an image
// with few colours is reproduced exactly (transparent pixels map to a transparent entry).
func genQuant(cfg *hx.Config, direct *[]hx.DirectViolation) int {
	n := 150
	if cfg.Thorough() {
		n = 2500
	}
	for i := 0; i < n; i++ {
		W, H := 1+cfg.Rand.Intn(24), 1+cfg.Rand.Intn(24)
		k := 1 + cfg.Rand.Intn(12)
		if i%5 == 0 {
			k = 1 + cfg.Rand.Intn(254)
		}
		cols := make([]color.NRGBA, k)
		for j := range cols {
			cols[j] = color.NRGBA{uint8(cfg.Rand.Intn(256)), uint8(cfg.Rand.Intn(256)), uint8(cfg.Rand.Intn(256)), 255}
		}
		transparent := i%3 == 0
		img := image.NewNRGBA(image.Rect(0, 0, W, H))
		for y := 0; y < H; y++ {
			for x := 0; x < W; x++ {
				if transparent && cfg.Rand.Intn(6) == 0 {
					img.SetNRGBA(x, y, color.NRGBA{})
				} else {
					img.SetNRGBA(x, y, cols[cfg.Rand.Intn(k)])
				}
			}
		}
		bad := ""
		var pal *image.Paletted
		if panicked, msg := hx.Catch(func() { pal = octreequant.Paletted(img, 254) }); panicked {
			bad = "panic: " + msg
		} else if len(pal.Palette) > 254 {
			bad = fmt.Sprintf("palette of %d entries", len(pal.Palette))
		} else {
			for y := 0; y < H && bad == ""; y++ {
				for x := 0; x < W; x++ {
					ix := int(pal.ColorIndexAt(x, y))
					if ix >= len(pal.Palette) {
						bad = fmt.Sprintf("pixel %d,%d has index %d outside the palette of %d", x, y, ix, len(pal.Palette))
						break
					}
					r, g, b, a := pal.Palette[ix].RGBA()
					r0, g0, b0, a0 := img.At(x, y).RGBA()
					if a != a0 || (a0 != 0 && (r != r0 || g != g0 || b != b0)) {
						bad = fmt.Sprintf("pixel %d,%d: %v became %v", x, y, img.At(x, y), pal.Palette[ix])
						break
					}
				}
			}
		}
		if bad != "" {
			_, ij := imgTerm(img)
			*direct = append(*direct, hx.DirectViolation{Class: "sixel-quantisation",
				Case: map[string]interface{}{"image": ij, "colours": k}, What: "octreequant.Paletted(img, 254): " + bad})
		}
	}
	return n
}

// histModelReady: the Coq side of the blockhist / gfxhist streams is present
const histModelReady = true

func main() {
	os.Unsetenv("COLORTERM")
	os.Unsetenv("VAXIS_GRAPHICS")
	cfg := hx.ParseFlags()
	var direct []hx.DirectViolation

	rs := hx.NewStream("resize", "model.Image", "resize_case", "c20_resize_mismatches", "c20_resize_violations")
	rs.ShardMax = 1500
	genResize(cfg, rs)

	cs := hx.NewStream("cellsize", "model.Image", "cellsize_case", "c20_cellsize_mismatches", "c20_cellsize_violations")
	cs.ShardMax = 1500
	genCellSize(cfg, cs)

	ps := hx.NewStream("pixels", "model.Image", "pixels_case", "c20_pixels_mismatches", "c20_pixels_violations")
	ps.ShardMax = 250
	extra := genPixels(cfg, ps, &direct)

	txStream = hx.NewStream("kittytx", "model.Image", "tx_case", "c20_kittytx_mismatches", "c20_kittytx_violations")
	txStream.ShardMax = 1500

	pl := hx.NewStream("placement", "model.Image", "placement_case", "c20_placement_mismatches", "c20_placement_violations")
	pl.ShardMax = 400
	pl.Known = "c20_known"
	pl.KnownClass = "resize-same-cells"
	genPlacement(cfg, pl, &direct, false)

	sx := hx.NewStream("sixel", "model.Image", "placement_case", "c20_sixel_mismatches", "c20_sixel_violations")
	sx.ShardMax = 400
	genPlacement(cfg, sx, &direct, true)

	// streams blockhist / gfxhist: generators below are complete; enabled once their Coq side
	// (blockhist_case, gfxhist_case in model/ImageHist.v) exists
	histStreams := []*hx.Stream{}
	if histModelReady {
		bh := hx.NewStream("blockhist", "model.ImageHist", "blockhist_case", "c20_blockhist_mismatches", "c20_blockhist_violations")
		bh.ShardMax = 150
		genBlockHist(cfg, bh)

		gh := hx.NewStream("gfxhist", "model.ImageHist", "gfxhist_case", "c20_gfxhist_mismatches", "c20_gfxhist_violations")
		gh.ShardMax = 300
		genGfxHist(cfg, gh)
		for k, v := range genKittyTx(cfg, gh) {
			extra[k] = v
		}
		extra["sixel_rows_below_picture"] = fmt.Sprint(sixelPadRows)
		extra["kittytx_payload_classes"] = fmt.Sprint(txStats)
		histStreams = append(histStreams, bh, gh)
	}

	extra["quantiser_images_checked"] = genQuant(cfg, &direct)

	fs := hx.NewStream("float", "model.Image", "float_case", "c20_float_mismatches", "c20_float_violations")
	fs.ShardMax = 1500
	genFloat(cfg, fs)

	extra["transparentEnough"] = vaxis.VerifTransparentEnough
	cfg.Write("C20", "resize: resizeImage on bounded-exhaustive cell counts x boxes x cell geometries, equal scale factors, "+
		"products that binary64 rounds below an integer, random and large sizes (non-trivial = the scaling branch is taken); "+
		"cellsize: Resize+CellSize of real half-block/full-block/kitty/sixel images (non-trivial = scaled); "+
		"pixels: block images of random NRGBA/RGBA/NRGBA64 pixels over every alpha level, drawn through Window.SetCell onto a sentinel screen and read back (all non-trivial); "+
		"placement: a fixed corpus history (recorded finding resize-same-cells) and random add/keep/move/resize/drop/refresh histories of kitty images on a fake console, placement and image-data control sequences parsed from the output (non-trivial = contains a move, drop, resize or refresh); "+
		"both with changes of the terminal size between frames (in-band size report, then Render or Refresh takes the size-changed branch; directed: placement moved / dropped / kept in the frame after it, two changes in a row, before the first frame, after the frame was drawn, a report of the same size; random: one history in three), the terminal's placement table replayed from the output; "+
		"kittytx: every transmission of a KittyImage's picture found in the output of the placement and gfxhist histories as (m flag, payload size) per chunk up to the a=p command, payload compared with the harness's own PNG/base64 encoding of resizeImage's picture, plus pictures found by a bounded deterministic search whose payload is a whole number of 4096-byte chunks, one base64 group less and one more, kept and scaled (non-trivial = more than one chunk); "+
		"sixel: the same histories with Sixel images, sixel strings located in the output, marked cells compared with the drawn rectangles; "+
		"blockhist: one half-block / full-block object per case on pictures with opaque, transparent and threshold-alpha bands, checkerboards and random alpha, and a history of Resize (fitting, growing, shrinking, equal, empty boxes), Draw (into a window of the image's size, a cell more, or smaller so that the image is cut; the cells that changed on a sentinel screen, relative to the window) and Destroy, directed and random (non-trivial = a Draw after a second Resize); "+
		"gfxhist: one KittyImage / Sixel per case and a history of Resize (random, equal, neighbouring, empty boxes; thin pictures that scale to an empty one), Show (also before the first Resize, after Destroy and after a Resize into an empty box; Clear, Draw into a roomy / exact / too small window, Refresh; placement from graphicsNext, placement deletions counted, transmitted PNG / sixel data decoded and compared with resizeImage's picture) and Destroy (non-trivial = two Resizes and a Show); "+
		"quantiser (direct checks, no model): octreequant.Paletted on images of at most 254 colours must reproduce every pixel; "+
		"float: hardware float64(a)/float64(b)*float64(k) against the integer-only rounding model (non-trivial = inexact)",
		append([]*hx.Stream{rs, cs, ps, pl, sx, fs, txStream}, histStreams...), extra, direct)
}
