// Stream "kittytx": the chunk framing of every transmission of a KittyImage's picture found in the
// console output, and the deterministic search for pictures whose payload length sits on a chunk
// boundary.
package main

import (
	"bytes"
	"encoding/base64"
	"fmt"
	"image"
	"image/color"
	"image/png"
	"math/rand"
	"strconv"
	"strings"

	vaxis "git.sr.ht/~rockorager/vaxis"
	"verif/harness/hx"
)

const chunkSize = 4096

// txStream receives one case per transmission seen (set in main before the generators run)
var txStream *hx.Stream

// txStats counts the transmissions by the residue class of their payload length
var txStats = map[string]int{}

// kittyPayload is the text a KittyImage transmits for a picture: the base64 form of its PNG
// encoding (the same two encoders KittyImage.Resize uses).  "" when the picture cannot be encoded.
func kittyPayload(pic image.Image) string {
	var buf bytes.Buffer
	if err := png.Encode(&buf, pic); err != nil {
		return ""
	}
	return base64.StdEncoding.EncodeToString(buf.Bytes())
}

type txTok struct{ tag, m, size int }

// transmissions cuts the output of one frame into the transmissions of image id: from the first
// data chunk (f=100) of the image up to and including the next a=p command of the image, or to the
// end of the output.  tag 0 = data chunk of the image (m, payload size), 1 = the a=p command,
// 2 = anything else in between.  The payloads of the data chunks are concatenated.
func transmissions(toks []token, id int) (out [][]txTok, payloads []string) {
	var cur []txTok
	var pay strings.Builder
	open := false
	for _, t := range toks {
		isG := t.kind == 2 && strings.HasPrefix(t.body, "G")
		var m map[string]string
		mine := false
		if isG {
			m = kv(t.body)
			tid, _ := strconv.Atoi(m["i"])
			mine = tid == id
		}
		switch {
		case mine && m["f"] == "100":
			open = true
			mm, err := strconv.Atoi(m["m"])
			if err != nil {
				mm = -1
			}
			p := ""
			if k := strings.IndexByte(t.body, ';'); k >= 0 {
				p = t.body[k+1:]
			}
			pay.WriteString(p)
			cur = append(cur, txTok{0, mm, len(p)})
		case open && mine && m["a"] == "p":
			cur = append(cur, txTok{1, 0, 0})
			out, payloads = append(out, cur), append(payloads, pay.String())
			cur, open = nil, false
			pay.Reset()
		case open:
			cur = append(cur, txTok{2, 0, 0})
		}
	}
	if open {
		out, payloads = append(out, cur), append(payloads, pay.String())
	}
	return
}

// recordTx adds one kittytx case per transmission of image id found in toks; want is the picture
// the image was last resized to (what resizeImage returned), src / box say how to make it again
func recordTx(toks []token, id int, want image.Image, src image.Image, box [2]int, origin string, tags ...string) {
	if txStream == nil {
		return
	}
	txs, pays := transmissions(toks, id)
	for i, tx := range txs {
		text := ""
		if want != nil {
			text = kittyPayload(want)
		}
		n := len(text)
		same := 0
		if n > 0 && pays[i] == text {
			if raw, err := base64.StdEncoding.DecodeString(pays[i]); err == nil {
				if pic, err := png.Decode(bytes.NewReader(raw)); err == nil && samePixels(pic, want) {
					same = 1
				}
			}
		}
		var tt []string
		var tj [][]int
		for _, t := range tx {
			tt = append(tt, hx.Tuple(z(t.tag), z(t.m), z(t.size)))
			tj = append(tj, []int{t.tag, t.m, t.size})
		}
		class := "short-last-chunk"
		switch {
		case n > 0 && n%chunkSize == 0:
			class = "exact-multiple"
		case n%chunkSize == 4:
			class = "one-group-over"
		case n%chunkSize == chunkSize-4:
			class = "one-group-under"
		}
		txStats[class]++
		js := map[string]interface{}{"stream": "kittytx", "from": origin, "payload_len": n, "chunks": (n + chunkSize - 1) / chunkSize,
			"tokens": tj, "same": same, "box": box}
		if src != nil {
			b := src.Bounds().Max
			nr := image.NewNRGBA(src.Bounds())
			for y := 0; y < b.Y; y++ {
				for x := 0; x < b.X; x++ {
					nr.Set(x, y, src.At(x, y))
				}
			}
			js["src_size"] = []int{b.X, b.Y}
			js["src_nrgba_base64"] = base64.StdEncoding.EncodeToString(nr.Pix)
		}
		txStream.Add(hx.Tuple(z(n), hx.List(tt), z(same)), js, n > chunkSize, append(tags, class, origin)...)
	}
}

// ---------------------------------------------------------------- pictures on a chunk boundary

// boundaryPic makes a W x H opaque picture whose first k pixels (row-major) are noise and whose
// other pixels have one colour: the PNG encoding grows by about three bytes per noise pixel
func boundaryPic(W, H, k int, tweak uint8, noise []byte) *image.NRGBA {
	m := image.NewNRGBA(image.Rect(0, 0, W, H))
	for i := 0; i < W*H; i++ {
		c := color.NRGBA{tweak, 90, 200, 255}
		if i < k {
			c = color.NRGBA{noise[3*i], noise[3*i+1], noise[3*i+2], 255}
		}
		m.SetNRGBA(i%W, i/W, c)
	}
	return m
}

// double makes the picture with every pixel as a 2 x 2 block: resizeImage's nearest-neighbour
// scaling by one half gives the original pixels back (as an *image.RGBA)
func double(p *image.NRGBA) *image.NRGBA {
	b := p.Bounds().Max
	m := image.NewNRGBA(image.Rect(0, 0, 2*b.X, 2*b.Y))
	for y := 0; y < 2*b.Y; y++ {
		for x := 0; x < 2*b.X; x++ {
			m.SetNRGBA(x, y, p.NRGBAAt(x/2, y/2))
		}
	}
	return m
}

type boundaryCase struct {
	src    image.Image
	w, h   int // box
	n      int // payload length of the picture resizeImage makes of it
	target int
	scaled bool
	tries  int
}

// findBoundary searches, deterministically and with a bounded number of encodings, for a picture
// whose transmitted payload has exactly target bytes.  W x H (multiples of 8 x 16, the cell size)
// must be large enough: about 3*W*H*4/3 >= target.  scaled: the source is twice as large and the
// box half of its cells, so the transmitted picture is resizeImage's scaled copy.
func findBoundary(target, W, H int, scaled bool, cw, ch int) boundaryCase {
	best := boundaryCase{target: target, scaled: scaled}
	tries := 0
	// other noise (and a wider picture) when the neighbourhood of the first one misses the length
	for salt := 0; salt < 4; salt++ {
		w := W
		if salt%2 == 1 && W+8 <= 80 {
			w = W + 8
		}
		bc := findBoundaryIn(target, w, H, scaled, cw, ch, int64(salt))
		tries += bc.tries
		if best.src == nil || (bc.src != nil && abs(bc.n-target) < abs(best.n-target)) {
			best = bc
		}
		if best.n == target {
			break
		}
	}
	best.tries = tries
	return best
}

func abs(x int) int {
	if x < 0 {
		return -x
	}
	return x
}

func findBoundaryIn(target, W, H int, scaled bool, cw, ch int, salt int64) boundaryCase {
	rng := rand.New(rand.NewSource(int64(target)*31 + int64(W) + 1000003*salt))
	noise := make([]byte, 3*W*H)
	rng.Read(noise)
	tries := 0
	mk := func(k int, tweak uint8) (image.Image, int, int) {
		p := boundaryPic(W, H, k, tweak, noise)
		if scaled {
			return double(p), W / cw, H / ch
		}
		return p, (W + cw - 1) / cw, (H + ch - 1) / ch
	}
	length := func(k int, tweak uint8) int {
		tries++
		src, w, h := mk(k, tweak)
		return len(kittyPayload(vaxis.VerifResizeImage(src, w, h, cw, ch)))
	}
	best := boundaryCase{target: target, scaled: scaled}
	bestD := 1 << 30
	// the smallest k whose payload reaches the target (the length grows with k, up to jitter)
	lo, hi := 0, W*H
	for lo < hi {
		mid := (lo + hi) / 2
		if length(mid, 0) < target {
			lo = mid + 1
		} else {
			hi = mid
		}
	}
	for d := 0; d <= 24 && tries < 1500; d++ {
		for _, k := range []int{lo + d, lo - d} {
			if k < 0 || k > W*H || (d == 0 && k != lo) {
				continue
			}
			for tweak := 0; tweak < 24; tweak++ {
				n := length(k, uint8(tweak*10))
				if dd := n - target; dd*dd < bestD {
					bestD = dd * dd
					src, w, h := mk(k, uint8(tweak*10))
					best.src, best.w, best.h, best.n = src, w, h, n
				}
				if n == target {
					best.tries = tries
					return best
				}
			}
		}
	}
	best.tries = tries
	return best
}

// genKittyTx: pictures whose payload length is a whole number of chunks (the last chunk is full),
// one base64 group (4 bytes) less or more, and a single short chunk; each is resized into a box in
// which it is kept (or scaled by one half), shown, kept, resized again and shown again on its own
// Vaxis.  The histories go to the gfxhist stream, every transmission to the kittytx stream.
func genKittyTx(cfg *hx.Config, gh *hx.Stream) map[string]interface{} {
	type tgt struct {
		chunks, delta int
		scaled       bool
	}
	targets := []tgt{{1, 0, false}, {2, 0, false}, {2, 0, true}, {3, 0, false}, {1, 4, false}, {1, -4, false}, {2, 4, true}, {2, -4, false}, {3, -4, true}}
	if cfg.Thorough() {
		targets = append(targets, tgt{4, 0, false}, tgt{4, 0, true}, tgt{5, 0, false}, tgt{6, 0, false}, tgt{3, 4, false}, tgt{5, -4, true}, tgt{1, 0, true}, tgt{3, 0, true})
	}
	found, missed, tries := 0, 0, 0
	var got []string
	for _, t := range targets {
		target := t.chunks*chunkSize + t.delta
		// W x H in pixels, multiples of the cell size 8 x 16, at most 10 x 5 cells (the window)
		W, H := 48, 32
		for 3*W*H < target*3/4+400 {
			if W < 80 {
				W += 8
			} else {
				H += 16
			}
		}
		bc := findBoundary(target, W, H, t.scaled, 8, 16)
		tries += bc.tries
		got = append(got, fmt.Sprintf("%d:%d/%d", target, bc.n, bc.tries))
		if bc.src == nil {
			missed++
			continue
		}
		if bc.n == target {
			found++
		} else {
			missed++
		}
		g := newGfxHist(cfg, false, bc.src)
		g.tags["boundary"] = true
		g.resize(bc.w, bc.h)
		g.show(10, 5)
		g.show(10, 5) // kept: nothing is sent again
		g.resize(bc.w, bc.h)
		g.show(10, 5) // the same picture again, as a new transmission
		g.finish(gh, 2)
	}
	return map[string]interface{}{"boundary_targets": len(targets), "boundary_found_exact": found, "boundary_missed": missed,
		"boundary_search_encodings": tries, "boundary_target_payload_tries": strings.Join(got, " ")}
}
