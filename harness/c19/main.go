// Harness for C19 (lists and pagers): drives the real vxfw/list.Dynamic,
// widgets/list.List, widgets/pager.Model and widgets/scrollbar.Model through
// operation sequences and writes (operation, observation) traces as Coq cases.
//
// Dynamic is driven with instrumented item widgets (each reports the height
// the oracle gives for its index); List, pager and scrollbar draw into windows
// of a real Vaxis running on the fake console and the cells are read back
// through vx.VerifScreenNext().
package main

import (
	"fmt"
	"math"
	"os"
	"strings"

	vaxis "git.sr.ht/~rockorager/vaxis"
	"git.sr.ht/~rockorager/vaxis/vxfw"
	vlist "git.sr.ht/~rockorager/vaxis/vxfw/list"
	wlist "git.sr.ht/~rockorager/vaxis/widgets/list"
	"git.sr.ht/~rockorager/vaxis/widgets/pager"
	"git.sr.ht/~rockorager/vaxis/widgets/scrollbar"
	"verif/harness/hx"
)

const scrRows, scrCols = 16, 16

// ---------------------------------------------------------------- Dynamic

type item struct {
	idx int
	h   uint16
}

func (it *item) HandleEvent(vaxis.Event, vxfw.EventPhase) (vxfw.Command, error) { return nil, nil }
func (it *item) Draw(ctx vxfw.DrawContext) (vxfw.Surface, error) {
	return vxfw.NewSurface(1, it.h, it), nil
}

type dynOp struct {
	kind string // next prev setcursor wheeldown wheelup setpending setitems draw
	a, b int64
	u    uint64
	hs   []int64
	via  string // "key"/"call" for next/prev
}

func (o dynOp) coq() string {
	switch o.kind {
	case "next":
		return "DNext"
	case "prev":
		return "DPrev"
	case "setcursor":
		return "(DSetCursor " + hx.ZU(o.u) + ")"
	case "wheeldown":
		return "DWheelDown"
	case "wheelup":
		return "DWheelUp"
	case "setpending":
		return "(DSetPending " + hx.Z(o.a) + ")"
	case "setitems":
		return "(DSetItems " + hx.ZList(o.hs) + ")"
	case "draw":
		return "(DDraw " + hx.Z(o.a) + " " + hx.Z(o.b) + ")"
	}
	panic("bad op")
}

func (o dynOp) String() string {
	switch o.kind {
	case "setcursor":
		return fmt.Sprintf("setcursor(%d)", o.u)
	case "setpending":
		return fmt.Sprintf("setpending(%d)", o.a)
	case "setitems":
		return fmt.Sprintf("setitems(%v)", o.hs)
	case "draw":
		return fmt.Sprintf("draw(w=%d,h=%d)", o.a, o.b)
	}
	return o.kind
}

type dynCase struct {
	gap int
	dc  bool
	hs  []int64
	ops []dynOp
}

// statistics over all Dynamic draws (evidence only)
var dynStats = map[string]int{}

// runDyn executes the case on a fresh Dynamic; returns the Coq term, JSON and whether a
// scroll / cursor-follow path was taken in some Draw.
func runDyn(c dynCase) (string, map[string]interface{}, bool, bool) {
	var items []*item
	setItems := func(hs []int64) {
		items = make([]*item, len(hs))
		for i, h := range hs {
			items[i] = &item{idx: i, h: uint16(h)}
		}
	}
	setItems(c.hs)
	d := &vlist.Dynamic{DrawCursor: c.dc, Gap: c.gap}
	d.Builder = func(i uint, cursor uint) vxfw.Widget {
		if i < uint(len(items)) {
			return items[i]
		}
		return nil
	}
	var steps []string
	var jsteps []interface{}
	nontriv := false
	panicked := false
	sel := false
	for _, op := range c.ops {
		var children [][4]int64
		pcur, ptop, poff, ppend, pwants := d.VerifState()
		isPanic, msg := hx.Catch(func() {
			switch op.kind {
			case "next":
				if op.via == "key" {
					d.CaptureEvent(vaxis.Key{Keycode: 'j'})
				} else if op.via == "arrow" {
					d.CaptureEvent(vaxis.Key{Keycode: vaxis.KeyDown})
				} else {
					d.NextItem()
				}
			case "prev":
				if op.via == "key" {
					d.CaptureEvent(vaxis.Key{Keycode: 'k'})
				} else if op.via == "arrow" {
					d.CaptureEvent(vaxis.Key{Keycode: vaxis.KeyUp})
				} else {
					d.PrevItem()
				}
			case "setcursor":
				d.SetCursor(uint(op.u))
			case "wheeldown":
				d.HandleEvent(vaxis.Mouse{Button: vaxis.MouseWheelDown}, vxfw.TargetPhase)
			case "wheelup":
				d.HandleEvent(vaxis.Mouse{Button: vaxis.MouseWheelUp}, vxfw.TargetPhase)
			case "setpending":
				d.SetPendingScroll(int(op.a))
			case "setitems":
				setItems(op.hs)
			case "draw":
				if ppend != 0 || pwants {
					nontriv = true
				}
				s, err := d.Draw(vxfw.DrawContext{
					Max:        vxfw.Size{Width: uint16(op.a), Height: uint16(op.b)},
					Characters: vaxis.Characters,
				})
				if err != nil {
					panic(err)
				}
				for _, ch := range s.Children {
					it, ok := ch.Surface.Widget.(*item)
					if !ok {
						panic("child widget is not an item")
					}
					children = append(children, [4]int64{int64(it.idx), int64(ch.Origin.Row), int64(ch.Origin.Col), int64(ch.Surface.Size.Height)})
				}
			}
		})
		cur, top, off, pend, wants := d.VerifState()
		if op.kind == "draw" && !isPanic {
			dynStats["draws"]++
			if len(children) > 0 && uint64(children[0][0]) < uint64(ptop) {
				dynStats["draws_inserting_above_top"]++
				if c.gap > 0 && len(children) > 1 {
					dynStats["draws_inserting_above_top_with_gap"]++
				}
			}
			if pwants {
				dynStats["draws_following_cursor"]++
			}
			if sel && ppend == 0 && c.gap >= 0 && uint64(pcur) < uint64(len(items)) && op.b > 0 {
				dynStats["draws_after_selection_change"]++
				if poff >= 0 && (poff == 0 || (uint64(ptop) < uint64(len(items)) && poff < int(items[ptop].h))) {
					dynStats["draws_after_selection_change_with_ioff(visibility_checked)"]++
				}
			}
		}
		sel = op.kind == "setcursor" || ((op.kind == "next" || op.kind == "prev") && cur != pcur)
		oc := int64(0)
		if isPanic {
			oc = 1
			panicked = true
		}
		var cts []string
		for _, ch := range children {
			cts = append(cts, hx.Tuple(hx.Z(ch[0]), hx.Z(ch[1]), hx.Z(ch[2]), hx.Z(ch[3])))
		}
		st := hx.Tuple(hx.ZU(uint64(cur)), hx.ZU(uint64(top)), hx.Z(int64(off)), hx.Z(int64(pend)), hx.Bool(wants))
		steps = append(steps, hx.Tuple(op.coq(), hx.Tuple(hx.Z(oc), st, hx.List(cts))))
		js := map[string]interface{}{"op": op.String(), "outcome": oc,
			"state": map[string]interface{}{"cursor": uint64(cur), "top": uint64(top), "offset": off, "pending": pend, "wantsCursor": wants}}
		if op.kind == "draw" {
			js["children_idx_row_col_h"] = children
		}
		if isPanic {
			js["panic"] = msg
		}
		jsteps = append(jsteps, js)
		if isPanic {
			break
		}
	}
	term := hx.Tuple(hx.Z(int64(c.gap)), hx.Bool(c.dc), hx.ZList(c.hs), hx.List(steps))
	js := map[string]interface{}{"widget": "vxfw/list.Dynamic", "gap": c.gap, "drawCursor": c.dc, "item_heights": c.hs, "trace": jsteps}
	return term, js, nontriv, panicked
}

func genHeights(cfg *hx.Config, n int) []int64 {
	hs := make([]int64, n)
	style := cfg.Rand.Intn(4)
	for i := range hs {
		switch style {
		case 0:
			hs[i] = 1
		case 1:
			hs[i] = int64(1 + cfg.Rand.Intn(3))
		default:
			r := cfg.Rand.Intn(20)
			switch {
			case r == 0:
				hs[i] = 0
			case r == 1:
				hs[i] = int64(5 + cfg.Rand.Intn(8))
			default:
				hs[i] = int64(1 + cfg.Rand.Intn(4))
			}
		}
	}
	return hs
}

func genDynCase(cfg *hx.Config, maxOps int) dynCase {
	r := cfg.Rand
	c := dynCase{dc: r.Intn(2) == 0}
	switch r.Intn(6) {
	case 0, 1, 2:
		c.gap = 0
	case 3:
		c.gap = 1
	case 4:
		c.gap = 2
	case 5:
		c.gap = r.Intn(4) // 0..3
	}
	scrolly := r.Intn(10) < 4 // scroll-heavy traces: upward insertion needs offset > 0 or a negative pending scroll
	n := r.Intn(10)
	if r.Intn(10) == 0 {
		n = 0
	}
	H := int64(r.Intn(9))
	if scrolly {
		n = 6 + r.Intn(14)
		H = int64(1 + r.Intn(5))
	}
	cur := append([]int64{}, genHeights(cfg, n)...)
	c.hs = append([]int64{}, cur...)
	W := int64(r.Intn(7))
	nops := 1 + r.Intn(maxOps)
	autodraw := r.Intn(10) < 7
	draw := func() dynOp {
		h, w := H, W
		if r.Intn(10) == 0 {
			h = int64(r.Intn(10))
		}
		return dynOp{kind: "draw", a: w, b: h}
	}
	vias := []string{"call", "key", "arrow"}
	for len(c.ops) < nops {
		var op dynOp
		x := r.Intn(100)
		if scrolly {
			switch y := r.Intn(100); {
			case y < 25:
				x = 57 // wheel down
			case y < 50:
				x = 68 // wheel up
			case y < 60:
				x = 86 // pending scroll
			}
		}
		switch {
		case x < 30:
			op = draw()
		case x < 45:
			op = dynOp{kind: "next", via: vias[r.Intn(3)]}
		case x < 57:
			op = dynOp{kind: "prev", via: vias[r.Intn(3)]}
		case x < 68:
			op = dynOp{kind: "wheeldown"}
		case x < 79:
			op = dynOp{kind: "wheelup"}
		case x < 86:
			var u uint64
			switch y := r.Intn(12); {
			case y < 8 && len(cur) > 0:
				u = uint64(r.Intn(len(cur)))
			case y < 10:
				u = uint64(len(cur) + r.Intn(4))
			case y == 10:
				u = 1 << 63
			default:
				u = math.MaxUint64 - uint64(r.Intn(2))
			}
			op = dynOp{kind: "setcursor", u: u}
		case x < 91:
			k := int64(r.Intn(17) - 8)
			if scrolly && k > 0 && r.Intn(2) == 0 {
				k = -k
			}
			op = dynOp{kind: "setpending", a: k}
		default:
			m := r.Intn(10)
			if r.Intn(4) == 0 {
				m = r.Intn(3)
			}
			cur = genHeights(cfg, m)
			op = dynOp{kind: "setitems", hs: append([]int64{}, cur...)}
		}
		c.ops = append(c.ops, op)
		if op.kind != "draw" && autodraw && r.Intn(10) < 8 {
			c.ops = append(c.ops, draw())
		}
	}
	return c
}

func rep(n int, op dynOp) []dynOp {
	out := make([]dynOp, n)
	for i := range out {
		out[i] = op
	}
	return out
}

func ones(n int, h int64) []int64 {
	out := make([]int64, n)
	for i := range out {
		out[i] = h
	}
	return out
}

// the scenarios of DESIGN.md section 6 rows 21/22 and their neighbours
func directedDyn() []dynCase {
	dr := func(h int64) dynOp { return dynOp{kind: "draw", a: 4, b: h} }
	wd, wu := dynOp{kind: "wheeldown"}, dynOp{kind: "wheelup"}
	nx, pv := dynOp{kind: "next", via: "call"}, dynOp{kind: "prev", via: "call"}
	var cs []dynCase
	for _, dc := range []bool{true, false} {
		for _, gap := range []int{0, 1, 2} {
			// wheel scroll moves the top item past the cursor (uint underflow of cursor-top)
			cs = append(cs, dynCase{gap: gap, dc: dc, hs: ones(10, 1), ops: []dynOp{dr(4), wd, dr(4), wd, dr(4), dr(4)}})
			// wheel up after a scroll: insertChildren, then an idle redraw
			cs = append(cs, dynCase{gap: gap, dc: dc, hs: ones(12, 2), ops: []dynOp{dr(4), wd, dr(4), wd, dr(4), wu, dr(4), dr(4), wu, dr(4), dr(4), wu, dr(4), wu, dr(4), dr(4)}})
			cs = append(cs, dynCase{gap: gap, dc: dc, hs: []int64{3, 1, 2, 4, 1, 1, 3, 2}, ops: []dynOp{dr(5), nx, dr(5), nx, dr(5), wd, dr(5), wd, dr(5), wu, dr(5), dr(5), pv, dr(5), wu, dr(5), dr(5)}})
			// items replaced by a shorter list while scrolled down, then wheel up
			cs = append(cs, dynCase{gap: gap, dc: dc, hs: ones(10, 2), ops: []dynOp{dr(4), wd, dr(4), wd, dr(4), wd, dr(4), wd, dr(4), {kind: "setitems", hs: ones(3, 2)}, dr(4), wu, dr(4), wu, dr(4), dr(4)}})
			cs = append(cs, dynCase{gap: gap, dc: dc, hs: ones(10, 2), ops: []dynOp{{kind: "setcursor", u: 9}, dr(4), {kind: "setitems", hs: ones(3, 2)}, dr(4), {kind: "setpending", a: -3}, dr(4), dr(4), {kind: "setcursor", u: 2}, dr(4)}})
			// cursor far beyond the end
			cs = append(cs, dynCase{gap: gap, dc: dc, hs: ones(3, 1), ops: []dynOp{{kind: "setcursor", u: 1 << 63}, dr(4), nx, dr(4), {kind: "setcursor", u: math.MaxUint64}, dr(4), nx, dr(4), pv, dr(4)}})
			// empty list
			cs = append(cs, dynCase{gap: gap, dc: dc, hs: nil, ops: []dynOp{dr(4), nx, pv, wd, dr(4), wu, dr(4), {kind: "setpending", a: -2}, dr(4), {kind: "setitems", hs: ones(2, 1)}, nx, dr(4), dr(0)}})
			// cursor following through tall items
			cs = append(cs, dynCase{gap: gap, dc: dc, hs: []int64{2, 7, 1, 9, 2}, ops: []dynOp{dr(5), nx, dr(5), nx, dr(5), nx, dr(5), nx, dr(5), pv, dr(5), pv, dr(5), pv, dr(5), pv, dr(5)}})
		}
	}
	return cs
}

// every sequence of at most maxLen operations over a small alphabet, each followed by a draw
func exhaustiveDyn(maxLen int, thorough bool) []dynCase {
	alpha := []dynOp{{kind: "next", via: "call"}, {kind: "prev", via: "call"}, {kind: "wheeldown"}, {kind: "wheelup"}, {kind: "draw"}}
	type conf struct {
		n   int
		h   int64
		H   int64
		dc  bool
		gap int
	}
	var confs []conf
	ns := []int{0, 3}
	Hs := []int64{3}
	hh := []int64{2}
	if thorough {
		ns = []int{0, 1, 3}
		Hs = []int64{0, 2}
		hh = []int64{1, 2}
	}
	for _, n := range ns {
		for _, h := range hh {
			for _, H := range Hs {
				for _, dc := range []bool{false, true} {
					for _, gap := range []int{0, 1} {
						if !thorough && gap == 1 && dc {
							continue
						}
						confs = append(confs, conf{n, h, H, dc, gap})
					}
				}
			}
		}
	}
	var out []dynCase
	var seqs [][]int
	var gen func(prefix []int)
	gen = func(prefix []int) {
		if len(prefix) > 0 {
			seqs = append(seqs, append([]int{}, prefix...))
		}
		if len(prefix) == maxLen {
			return
		}
		for i := range alpha {
			gen(append(prefix, i))
		}
	}
	gen(nil)
	for _, cf := range confs {
		for _, sq := range seqs {
			c := dynCase{gap: cf.gap, dc: cf.dc, hs: ones(cf.n, cf.h)}
			c.ops = append(c.ops, dynOp{kind: "draw", a: 4, b: cf.H})
			for _, k := range sq {
				op := alpha[k]
				if op.kind == "draw" {
					op.a, op.b = 4, cf.H
				}
				c.ops = append(c.ops, op)
			}
			c.ops = append(c.ops, dynOp{kind: "draw", a: 4, b: cf.H}, dynOp{kind: "draw", a: 4, b: cf.H})
			out = append(out, c)
		}
	}
	return out
}

// ---------------------------------------------------------------- screen helpers

type screenReader struct {
	vx *vaxis.Vaxis
}

func (s screenReader) win(w, h int) vaxis.Window {
	root := s.vx.Window()
	root.Clear()
	if w >= 0 && h >= 0 {
		return root.New(0, 0, w, h)
	}
	// negative sizes cannot be requested through New (they mean "the rest")
	return vaxis.Window{Vx: s.vx, Width: w, Height: h}
}

func runesOf(s string) []int64 {
	var out []int64
	for _, r := range s {
		out = append(out, int64(r))
	}
	return out
}

func runeList(s string) string { return hx.ZList(runesOf(s)) }

// ---------------------------------------------------------------- widgets/list

type wlOp struct {
	kind  string
	w, h  int
	items []string
}

func textList(items []string) string {
	ts := make([]string, len(items))
	for i, it := range items {
		ts[i] = runeList(it)
	}
	return hx.List(ts)
}

func (o wlOp) coq() string {
	switch o.kind {
	case "down":
		return "LDown"
	case "up":
		return "LUp"
	case "home":
		return "LHome"
	case "end":
		return "LEnd"
	case "pagedown":
		return "(LPageDown " + hx.Z(int64(o.h)) + ")"
	case "pageup":
		return "(LPageUp " + hx.Z(int64(o.h)) + ")"
	case "setitems":
		return "(LSetItems " + textList(o.items) + ")"
	case "draw":
		return "(LDraw " + hx.Z(int64(o.w)) + " " + hx.Z(int64(o.h)) + ")"
	}
	panic("bad op")
}

func (o wlOp) String() string {
	switch o.kind {
	case "pagedown", "pageup":
		return fmt.Sprintf("%s(h=%d)", o.kind, o.h)
	case "setitems":
		return fmt.Sprintf("setitems(%q)", o.items)
	case "draw":
		return fmt.Sprintf("draw(w=%d,h=%d)", o.w, o.h)
	}
	return o.kind
}

func runWl(sr screenReader, items []string, ops []wlOp) (string, map[string]interface{}, bool) {
	m := wlist.New(append([]string{}, items...))
	var steps []string
	var jsteps []interface{}
	nontriv := false
	for _, op := range ops {
		type row struct {
			text string
			rev  bool
		}
		var rows []row
		isPanic, msg := hx.Catch(func() {
			switch op.kind {
			case "down":
				m.Down()
			case "up":
				m.Up()
			case "home":
				m.Home()
			case "end":
				m.End()
			case "pagedown":
				m.PageDown(sr.win(3, op.h))
			case "pageup":
				m.PageUp(sr.win(3, op.h))
			case "setitems":
				m.SetItems(append([]string{}, op.items...))
			case "draw":
				win := sr.win(op.w, op.h)
				m.Draw(win)
				scr := sr.vx.VerifScreenNext()
				for r := 0; r < op.h && r < scrRows; r++ {
					var sb strings.Builder
					rv := false
					for c := 0; c < op.w && c < scrCols; c++ {
						cell := scr[r][c]
						if cell.Grapheme != " " {
							sb.WriteString(cell.Grapheme)
							if cell.Attribute&vaxis.AttrReverse != 0 {
								rv = true
							}
						}
					}
					rows = append(rows, row{sb.String(), rv})
				}
			}
		})
		index, offset, n := m.VerifState()
		if op.kind == "draw" && offset > 0 && n > 0 {
			nontriv = true
		}
		oc := int64(0)
		if isPanic {
			oc = 1
		}
		var rts []string
		var jrows []interface{}
		for _, r := range rows {
			rts = append(rts, hx.Tuple(runeList(r.text), hx.Bool(r.rev)))
			jrows = append(jrows, []interface{}{r.text, r.rev})
		}
		steps = append(steps, hx.Tuple(op.coq(), hx.Tuple(hx.Z(oc), hx.Tuple(hx.Z(int64(index)), hx.Z(int64(offset))), hx.List(rts))))
		js := map[string]interface{}{"op": op.String(), "outcome": oc, "index": index, "offset": offset}
		if op.kind == "draw" {
			js["rows_text_reversed"] = jrows
		}
		if isPanic {
			js["panic"] = msg
		}
		jsteps = append(jsteps, js)
		if isPanic {
			break
		}
	}
	term := hx.Tuple(textList(items), hx.List(steps))
	return term, map[string]interface{}{"widget": "widgets/list.List", "items": items, "trace": jsteps}, nontriv
}

var wlCounter int

func genItems(cfg *hx.Config, n int) []string {
	out := make([]string, n)
	for i := range out {
		k := wlCounter
		wlCounter++
		s := string([]rune{rune('a' + (k/26)%26), rune('A' + k%26)})
		switch cfg.Rand.Intn(12) {
		case 0:
			s = s[:1]
		case 1:
			s = s + "x"
		case 2:
			if cfg.Rand.Intn(3) == 0 {
				s = ""
			}
		}
		out[i] = s
	}
	return out
}

func genWlCase(cfg *hx.Config, maxOps int) ([]string, []wlOp) {
	r := cfg.Rand
	wlCounter = r.Intn(100)
	n := r.Intn(9)
	if r.Intn(6) == 0 {
		n = 0
	}
	items := genItems(cfg, n)
	H := r.Intn(7)
	W := r.Intn(5)
	var ops []wlOp
	nops := 1 + r.Intn(maxOps)
	autodraw := r.Intn(10) < 7
	draw := func() wlOp {
		h, w := H, W
		if r.Intn(8) == 0 {
			h = r.Intn(8) - 1
		}
		if r.Intn(12) == 0 {
			w = r.Intn(5)
		}
		return wlOp{kind: "draw", w: w, h: h}
	}
	for len(ops) < nops {
		var op wlOp
		switch x := r.Intn(100); {
		case x < 28:
			op = draw()
		case x < 45:
			op = wlOp{kind: "down"}
		case x < 57:
			op = wlOp{kind: "up"}
		case x < 62:
			op = wlOp{kind: "home"}
		case x < 71:
			op = wlOp{kind: "end"}
		case x < 81:
			op = wlOp{kind: "pagedown", h: H}
		case x < 90:
			op = wlOp{kind: "pageup", h: H}
		default:
			m := r.Intn(9)
			if r.Intn(3) == 0 {
				m = r.Intn(2)
			}
			op = wlOp{kind: "setitems", items: genItems(cfg, m)}
		}
		ops = append(ops, op)
		if op.kind != "draw" && autodraw && r.Intn(10) < 8 {
			ops = append(ops, draw())
		}
	}
	return items, ops
}

// ---------------------------------------------------------------- pager

type pgOp struct {
	kind string
	w, h int
	k    int
	segs []string
}

func pcharsOf(segs []string) (string, []interface{}) {
	var ts []string
	var js []interface{}
	for _, s := range segs {
		for _, ch := range vaxis.Characters(s) {
			ts = append(ts, hx.Tuple(runeList(ch.Grapheme), hx.Z(int64(ch.Width))))
			js = append(js, []interface{}{ch.Grapheme, ch.Width})
		}
	}
	return hx.List(ts), js
}

func (o pgOp) coq() string {
	switch o.kind {
	case "draw":
		return "(PDraw " + hx.Z(int64(o.w)) + " " + hx.Z(int64(o.h)) + ")"
	case "down":
		return "PScrollDown"
	case "up":
		return "PScrollUp"
	case "setoffset":
		return "(PSetOffset " + hx.Z(int64(o.k)) + ")"
	case "settext":
		t, _ := pcharsOf(o.segs)
		return "(PSetText " + t + ")"
	case "layout":
		return "PLayout"
	}
	panic("bad op")
}

func (o pgOp) String() string {
	switch o.kind {
	case "draw":
		return fmt.Sprintf("draw(w=%d,h=%d)", o.w, o.h)
	case "setoffset":
		return fmt.Sprintf("setoffset(%d)", o.k)
	case "settext":
		return fmt.Sprintf("settext(%q)", o.segs)
	}
	return o.kind
}

func cellsTerm(cells []vaxis.Cell) (string, []interface{}) {
	ts := make([]string, len(cells))
	js := make([]interface{}, len(cells))
	for i, c := range cells {
		ts[i] = hx.Tuple(runeList(c.Grapheme), hx.Z(int64(c.Width)))
		js[i] = []interface{}{c.Grapheme, c.Width}
	}
	return hx.List(ts), js
}

func mkSegs(segs []string) []vaxis.Segment {
	out := make([]vaxis.Segment, len(segs))
	for i, s := range segs {
		out[i] = vaxis.Segment{Text: s}
		if i%2 == 1 {
			out[i].Style = vaxis.Style{Attribute: vaxis.AttrBold}
		}
	}
	return out
}

func runPager(sr screenReader, segs []string, ops []pgOp) (string, map[string]interface{}, bool) {
	m := &pager.Model{Segments: mkSegs(segs)}
	var steps []string
	var jsteps []interface{}
	nontriv := false
	for _, op := range ops {
		var grid [][]vaxis.Cell
		switch op.kind {
		case "draw":
			win := sr.win(op.w, op.h)
			m.Draw(win)
			scr := sr.vx.VerifScreenNext()
			for r := 0; r < op.h && r < scrRows; r++ {
				var row []vaxis.Cell
				for c := 0; c < op.w && c < scrCols; c++ {
					row = append(row, scr[r][c].Cell)
				}
				grid = append(grid, row)
			}
		case "down":
			m.ScrollDown()
		case "up":
			m.ScrollUp()
		case "setoffset":
			m.Offset = op.k
		case "settext":
			m.Segments = mkSegs(op.segs)
		case "layout":
			m.Layout()
		}
		lines, width := m.VerifLines()
		if op.kind == "draw" && m.Offset > 0 {
			nontriv = true
		}
		var lts, gts []string
		var jl, jg []interface{}
		for _, l := range lines {
			t, j := cellsTerm(l)
			lts = append(lts, t)
			jl = append(jl, j)
		}
		for _, g := range grid {
			t, j := cellsTerm(g)
			gts = append(gts, t)
			jg = append(jg, j)
		}
		steps = append(steps, hx.Tuple(op.coq(), hx.Tuple(hx.Z(int64(m.Offset)), hx.Z(int64(width)), hx.List(lts), hx.List(gts))))
		js := map[string]interface{}{"op": op.String(), "offset": m.Offset, "width": width, "lines": jl}
		if op.kind == "draw" {
			js["window_cells"] = jg
		}
		jsteps = append(jsteps, js)
	}
	ct, cj := pcharsOf(segs)
	term := hx.Tuple(ct, hx.List(steps))
	return term, map[string]interface{}{"widget": "widgets/pager.Model", "segments": segs, "characters": cj, "trace": jsteps}, nontriv
}

var pagerAlphabet = []string{"a", "b", "c", "d", "e", "x", "y", "z", " ", "\n", "\n", "界", "語", "é", "\t", "\r\n", "👩‍🚀", "​"}

func genText(cfg *hx.Config) []string {
	r := cfg.Rand
	nseg := 1 + r.Intn(3)
	segs := make([]string, nseg)
	style := r.Intn(5)
	for i := range segs {
		n := r.Intn(14)
		var sb strings.Builder
		for j := 0; j < n; j++ {
			switch style {
			case 0: // plain ASCII with newlines
				if r.Intn(6) == 0 {
					sb.WriteString("\n")
				} else {
					sb.WriteString(pagerAlphabet[r.Intn(8)])
				}
			default:
				sb.WriteString(pagerAlphabet[r.Intn(len(pagerAlphabet))])
			}
		}
		s := sb.String()
		if i == nseg-1 {
			switch r.Intn(4) {
			case 0:
				s += "\n"
			case 1:
				s = strings.TrimRight(s, "\n") + "q" // unterminated last line
			}
		}
		segs[i] = s
	}
	return segs
}

// fullRowText: texts for a window of W >= 1 columns in which most lines end
// exactly at the window width (their last row is flushed by the wrap, not by
// the newline; wide characters count 2 columns) and are followed by 1..3 empty
// lines - at the start, in the middle and at the end of the text - with "\n"
// or "\r\n" terminators, optionally an unterminated last line, cut into up to
// 3 segments at arbitrary rune boundaries.
func fullRowText(cfg *hx.Config, W int) []string {
	r := cfg.Rand
	nl := func() string {
		if r.Intn(4) == 0 {
			return "\r\n"
		}
		return "\n"
	}
	line := func(width int) string { // a line of exactly width columns
		var sb strings.Builder
		for c := 0; c < width; {
			if width-c >= 2 && r.Intn(5) == 0 {
				sb.WriteString(pagerAlphabet[11+r.Intn(2)])
				c += 2
			} else {
				sb.WriteString(pagerAlphabet[r.Intn(8)])
				c++
			}
		}
		return sb.String()
	}
	var sb strings.Builder
	for i, n := 0, 1+r.Intn(4); i < n; i++ {
		if r.Intn(4) == 0 { // any line, also an empty one
			sb.WriteString(line(r.Intn(2*W + 2)))
			sb.WriteString(nl())
			continue
		}
		sb.WriteString(line(W * (1 + r.Intn(2))))
		for k, m := 0, 2+r.Intn(3); k < m; k++ {
			sb.WriteString(nl())
		}
	}
	if r.Intn(3) == 0 {
		sb.WriteString(line(1 + r.Intn(W+1))) // unterminated last line
	}
	rs := []rune(sb.String())
	var segs []string
	for nseg := 1 + r.Intn(3); nseg > 1 && len(rs) > 0; nseg-- {
		k := r.Intn(len(rs) + 1)
		segs = append(segs, string(rs[:k]))
		rs = rs[k:]
	}
	return append(segs, string(rs))
}

func genTextFor(cfg *hx.Config, W int) []string {
	if W >= 1 && cfg.Rand.Intn(3) == 0 {
		return fullRowText(cfg, W)
	}
	return genText(cfg)
}

// directedFullRow: a line whose last row ends exactly at the width w, followed
// by k empty lines, at the start, in the middle (second row of a wrapped line)
// and at the end of the text; LF, CRLF and a wide character in the last column.
func directedFullRow() (out [][]string, ws []int) {
	for _, w := range []int{1, 2, 3, 5} {
		full := "abcde"[:w]
		for k := 1; k <= 3; k++ {
			lf := strings.Repeat("\n", k+1)
			crlf := strings.Repeat("\r\n", k+1)
			for _, segs := range [][]string{
				{full + lf + "xyz"},
				{"q\n" + full + full + lf + "xy"},
				{"q\n" + full + lf},
				{full + crlf + "z"},
				{full, lf, "z" + lf},
				{full + "\n" + full + crlf + full + lf},
			} {
				out = append(out, segs)
				ws = append(ws, w)
			}
		}
	}
	for k := 1; k <= 3; k++ {
		out = append(out, []string{"a界" + strings.Repeat("\n", k+1) + "語b" + strings.Repeat("\n", k+1)})
		ws = append(ws, 3)
	}
	return out, ws
}

func genPagerCase(cfg *hx.Config, maxOps int) ([]string, []pgOp) {
	r := cfg.Rand
	W := r.Intn(9)
	H := r.Intn(6)
	segs := genTextFor(cfg, W)
	var ops []pgOp
	nops := 1 + r.Intn(maxOps)
	draw := func() pgOp {
		w, h := W, H
		if r.Intn(6) == 0 {
			w = r.Intn(10) - 1
		}
		if r.Intn(8) == 0 {
			h = r.Intn(7)
		}
		return pgOp{kind: "draw", w: w, h: h}
	}
	ops = append(ops, draw())
	for len(ops) < nops {
		var op pgOp
		switch x := r.Intn(100); {
		case x < 35:
			op = draw()
		case x < 55:
			op = pgOp{kind: "down"}
		case x < 70:
			op = pgOp{kind: "up"}
		case x < 80:
			op = pgOp{kind: "setoffset", k: r.Intn(30) - 8}
		case x < 90:
			op = pgOp{kind: "settext", segs: genTextFor(cfg, W)}
		default:
			op = pgOp{kind: "layout"}
		}
		ops = append(ops, op)
		if op.kind != "draw" && r.Intn(10) < 6 {
			ops = append(ops, draw())
		}
	}
	return segs, ops
}

// ---------------------------------------------------------------- scrollbar

func runScrollbar(sr screenReader, total, view, top, w, h int) (string, map[string]interface{}) {
	m := &scrollbar.Model{TotalHeight: total, ViewHeight: view, Top: top}
	win := sr.win(w, h)
	m.Draw(win)
	scr := sr.vx.VerifScreenNext()
	var rows []int64
	for r := 0; r < scrRows; r++ {
		for c := 0; c < scrCols; c++ {
			if scr[r][c].Grapheme == "▐" {
				if c != 0 {
					panic("scrollbar drew outside column 0")
				}
				rows = append(rows, int64(r))
			}
		}
	}
	term := hx.Tuple(hx.Tuple(hx.Z(int64(total)), hx.Z(int64(view)), hx.Z(int64(top)), hx.Z(int64(w)), hx.Z(int64(h))), hx.ZList(rows))
	return term, map[string]interface{}{"widget": "widgets/scrollbar.Model", "total": total, "view": view, "top": top, "w": w, "h": h, "bar_rows": rows}
}

// ---------------------------------------------------------------- main

func main() {
	cfg := hx.ParseFlags()
	os.Unsetenv("COLORTERM")
	fc := hx.NewFakeConsole(hx.ProfileFromMask(0, scrRows, scrCols))
	vx, err := vaxis.New(vaxis.Options{WithConsole: fc, NoSignals: true})
	if err != nil {
		panic(err)
	}
	sr := screenReader{vx}
	if w, h := vx.Window().Size(); w != scrCols || h != scrRows {
		panic(fmt.Sprintf("unexpected screen size %dx%d", w, h))
	}

	var direct []hx.DirectViolation

	// ---- Dynamic
	ds := hx.NewStream("dyn", "model.Lists", "dyn_case", "c19_dyn_mismatches", "c19_dyn_violations")
	ds.ShardMax = 150
	ds.Known = "c19_dyn_known"
	ds.KnownClass = "scroll-past-end"
	addDyn := func(c dynCase, tag string) {
		term, js, nontriv, panicked := runDyn(c)
		tags := []string{tag}
		if panicked {
			tags = append(tags, "panic")
		}
		if c.gap > 0 {
			tags = append(tags, "gap>0")
		}
		if c.dc {
			tags = append(tags, "drawcursor")
		}
		ds.Add(term, js, nontriv, tags...)
	}
	// corpus case of finding scroll-past-end (always generated): three items of height 1 in a
	// viewport of 5 rows, one wheel-down: everything is drawn above row 0 and the scroll is not recorded
	addDyn(dynCase{gap: 0, dc: false, hs: ones(3, 1), ops: []dynOp{{kind: "draw", a: 4, b: 5}, {kind: "wheeldown"}, {kind: "draw", a: 4, b: 5}, {kind: "draw", a: 4, b: 5}}}, "corpus-scroll-past-end")
	for _, c := range directedDyn() {
		addDyn(c, "directed")
	}
	exLen := 3
	if cfg.Thorough() {
		exLen = 4
	}
	for _, c := range exhaustiveDyn(exLen, cfg.Thorough()) {
		addDyn(c, "exhaustive")
	}
	nd, dmax := 1000, 30
	if cfg.Thorough() {
		nd, dmax = 9000, 60
	}
	for i := 0; i < nd; i++ {
		m := dmax
		if i%50 == 0 {
			m = 200
		}
		addDyn(genDynCase(cfg, m), "random")
	}

	// ---- widgets/list
	ws := hx.NewStream("wlist", "model.Lists", "wl_case", "c19_wlist_mismatches", "c19_wlist_violations")
	ws.ShardMax = 150
	addWl := func(items []string, ops []wlOp, tag string) {
		term, js, nontriv := runWl(sr, items, ops)
		ws.Add(term, js, nontriv, tag)
	}
	dw := func(h int) wlOp { return wlOp{kind: "draw", w: 3, h: h} }
	// DESIGN.md section 6 row 17: the empty list
	for _, k := range []string{"end", "down", "pagedown", "up", "home", "pageup"} {
		addWl(nil, []wlOp{{kind: k, h: 3}, dw(3), {kind: "setitems", items: []string{"aa", "bb"}}, dw(3), {kind: "setitems", items: nil}, dw(3), dw(0)}, "directed")
		addWl([]string{"aa"}, []wlOp{{kind: "setitems", items: nil}, {kind: k, h: 3}, dw(0), dw(1), {kind: "setitems", items: []string{"cc"}}, dw(1)}, "directed")
	}
	addWl(nil, []wlOp{dw(0), dw(-1), dw(2)}, "directed")
	addWl([]string{"aa"}, []wlOp{dw(-1), dw(0), dw(1)}, "directed")
	nw, wmax := 800, 30
	if cfg.Thorough() {
		nw, wmax = 8000, 60
	}
	for i := 0; i < nw; i++ {
		items, ops := genWlCase(cfg, wmax)
		addWl(items, ops, "random")
	}

	// ---- pager
	ps := hx.NewStream("pager", "model.Lists", "pager_case", "c19_pager_mismatches", "c19_pager_violations")
	ps.ShardMax = 60
	addPg := func(segs []string, ops []pgOp, tag string) {
		term, js, nontriv := runPager(sr, segs, ops)
		ps.Add(term, js, nontriv, tag)
	}
	pd := func(w, h int) pgOp { return pgOp{kind: "draw", w: w, h: h} }
	// DESIGN.md section 6 row 17: a last line without terminator
	for _, t := range []string{"abc", "abc\ndef", "abc\n", "", "\n", "abcd", "abcde", "ab界", "a\n\nb"} {
		addPg([]string{t}, []pgOp{pd(4, 3), {kind: "down"}, pd(4, 3), {kind: "down"}, {kind: "down"}, pd(4, 1), {kind: "setoffset", k: -5}, pd(4, 2), pd(2, 2), pd(0, 2)}, "directed")
	}
	// a row flushed exactly at the width followed by 1..3 empty lines (start, middle, end of text)
	frTexts, frWidths := directedFullRow()
	for i, segs := range frTexts {
		w := frWidths[i]
		addPg(segs, []pgOp{pd(w, 3), {kind: "down"}, pd(w, 3), {kind: "setoffset", k: 50}, pd(w, 2), pd(w+1, 2), pd(w, 4), {kind: "settext", segs: []string{segs[0] + "\n\n"}}, {kind: "layout"}, pd(w, 9)}, "directed-fullrow")
	}
	np, pmax := 600, 14
	if cfg.Thorough() {
		np, pmax = 4000, 30
	}
	for i := 0; i < np; i++ {
		segs, ops := genPagerCase(cfg, pmax)
		addPg(segs, ops, "random")
	}

	// ---- scrollbar
	ss := hx.NewStream("sbar", "model.Lists", "sb_case", "c19_sbar_mismatches", "c19_sbar_violations")
	ss.ShardMax = 1000
	addSb := func(total, view, top, w, h int, tag string) {
		term, js := runScrollbar(sr, total, view, top, w, h)
		sensible := view >= 1 && view < total && top >= 0 && top <= total-view && h >= 1 && w >= 1
		ss.Add(term, js, sensible, tag)
	}
	nb := 500
	if cfg.Thorough() {
		nb = 10000
	}
	for i := 0; i < nb; i++ {
		r := cfg.Rand
		total := r.Intn(40)
		view := r.Intn(20)
		h := r.Intn(14)
		w := r.Intn(3)
		var top int
		tag := "sensible"
		if r.Intn(4) == 0 || total <= view {
			top = r.Intn(50) - 10
			tag = "arbitrary"
			if r.Intn(3) == 0 {
				total -= 3
				h -= 2
			}
		} else {
			top = r.Intn(total - view + 1)
			if r.Intn(3) == 0 {
				view = h // the usual use: the view is the window
				if view >= total || view < 1 {
					view = 1
					if total <= 1 {
						total = 2
					}
				}
				top = r.Intn(total - view + 1)
			}
		}
		addSb(total, view, top, w, h, tag)
	}

	hx.WithTimeout(2e9, vx.Close)

	cfg.Write("C19",
		"operation traces: vxfw/list.Dynamic (directed DESIGN-6 scenarios, every sequence of <=3 (quick) / <=4 (thorough) ops over {next,prev,wheel-down,wheel-up,draw} on small uniform lists, random sequences over next/prev (method, j/k, arrow keys), wheel events, SetCursor incl. beyond the end and >= 2^63, SetPendingScroll, item replacement, draws; item counts 0..9, heights 0..12, gaps 0..3, viewports 0..9); widgets/list.List (all methods, item replacement, windows 0..4 x -1..6 read back from the Vaxis screen); pager (texts with newlines, wide, combining, ZWJ, tab, CRLF, zero-width characters over up to 3 segments, and texts whose lines end exactly at the window width followed by 1..3 empty lines at the start, middle and end; draws at widths -1..8, scrolling, Offset assignment, re-layout); scrollbar (random totals/views/tops/windows). non-trivial = dyn: some Draw ran with a pending scroll or the wants-cursor flag; wlist: some Draw with offset > 0; pager: some Draw with Offset > 0; sbar: sensible position (1<=view<total, 0<=top<=total-view, window >= 1x1)",
		[]*hx.Stream{ds, ws, ps, ss}, map[string]interface{}{"dynamic_draw_statistics": dynStats}, direct)
}
