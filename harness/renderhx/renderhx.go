// Package renderhx: helpers shared by the renderer harnesses (C01, C07, C12):
// tokenising what Vaxis wrote, Coq printers for cells/styles/ops.
package renderhx

import (
	"fmt"
	"io"
	"strconv"
	"strings"

	vaxis "git.sr.ht/~rockorager/vaxis"
	"git.sr.ht/~rockorager/vaxis/ansi"
	"verif/harness/hx"
)

type byteReader struct {
	b []byte
}

func (r *byteReader) Read(p []byte) (int, error) {
	if len(r.b) == 0 {
		return 0, io.EOF
	}
	n := copy(p, r.b)
	r.b = r.b[n:]
	return n, nil
}

// Tokenize turns the bytes of one flush into Coq `tok` terms (model/RenderTypes.v),
// using the real ansi parser. Anything outside the renderer's vocabulary becomes
// KMouseShape [-1; ...] (which no model output equals).
func Tokenize(b []byte) []string {
	out, timerEsc := tokenizeOnce(b)
	for n := 0; n < hx.TimerEscRetries && timerEsc; n++ {
		out, timerEsc = tokenizeOnce(b) // scheduling artefact, see hx.IsTimerEsc
	}
	return out
}

func tokenizeOnce(b []byte) (out []string, timerEsc bool) {
	unknown := func(s string) {
		out = append(out, "KMouseShape "+hx.Runes("￿unknown:"+s))
	}
	p := ansi.NewParser(&byteReader{b: b})
	for seq := range p.Next() {
		switch s := seq.(type) {
		case ansi.EOF:
		case ansi.Print:
			out = append(out, "KText "+hx.Runes(s.Grapheme))
		case ansi.CSI:
			inter := string(s.Intermediate)
			switch {
			case s.Final == 'H' && inter == "" && len(s.Parameters) == 2:
				out = append(out, fmt.Sprintf("KCup %d %d", s.Parameters[0][0], s.Parameters[1][0]))
			case s.Final == 'm' && inter == "":
				out = append(out, sgr(s.Parameters)...)
			case s.Final == 'h' && inter == "?" && len(s.Parameters) == 1 && s.Parameters[0][0] == 25:
				out = append(out, "KShowCursor")
			case s.Final == 'l' && inter == "?" && len(s.Parameters) == 1 && s.Parameters[0][0] == 25:
				out = append(out, "KHideCursor")
			case s.Final == 'h' && inter == "?" && len(s.Parameters) == 1 && s.Parameters[0][0] == 2026:
				out = append(out, "KSyncOn")
			case s.Final == 'l' && inter == "?" && len(s.Parameters) == 1 && s.Parameters[0][0] == 2026:
				out = append(out, "KSyncOff")
			case s.Final == 'q' && inter == " " && len(s.Parameters) == 1:
				out = append(out, fmt.Sprintf("KCursorStyle %d", s.Parameters[0][0]))
			default:
				unknown(fmt.Sprint(s))
			}
		case ansi.OSC:
			pl := string(s.Payload)
			switch {
			case strings.HasPrefix(pl, "8;"):
				parts := strings.SplitN(pl[2:], ";", 2)
				if len(parts) != 2 {
					unknown(pl)
					break
				}
				out = append(out, "KLink "+hx.Runes(parts[0])+" "+hx.Runes(parts[1]))
			case strings.HasPrefix(pl, "66;w="):
				parts := strings.SplitN(pl[5:], ";", 2)
				w, err := strconv.Atoi(parts[0])
				if len(parts) != 2 || err != nil {
					unknown(pl)
					break
				}
				out = append(out, fmt.Sprintf("KTextW %d %s", w, hx.Runes(parts[1])))
			case strings.HasPrefix(pl, "22;"):
				out = append(out, "KMouseShape "+hx.Runes(pl[3:]))
			default:
				unknown(pl)
			}
		default:
			if hx.IsTimerEsc(seq) {
				timerEsc = true
			}
			unknown(fmt.Sprintf("%T %v", seq, seq))
		}
		p.Finish(seq)
	}
	return out, timerEsc
}

func ints(v []int) string {
	s := make([]string, len(v))
	for i, x := range v {
		s[i] = strconv.Itoa(x)
	}
	return "[" + strings.Join(s, "; ") + "]"
}

func sgr(ps [][]int) []string {
	if len(ps) == 0 {
		return []string{"KSgrReset"}
	}
	var out []string
	for _, p := range ps {
		n := p[0]
		switch {
		case len(p) == 1 && n >= 30 && n <= 37:
			out = append(out, fmt.Sprintf("KFg [%d]", n-30))
		case len(p) == 1 && n >= 90 && n <= 97:
			out = append(out, fmt.Sprintf("KFg [%d]", n-90+8))
		case len(p) == 1 && n >= 40 && n <= 47:
			out = append(out, fmt.Sprintf("KBg [%d]", n-40))
		case len(p) == 1 && n >= 100 && n <= 107:
			out = append(out, fmt.Sprintf("KBg [%d]", n-100+8))
		case len(p) == 1 && n == 39:
			out = append(out, "KFg []")
		case len(p) == 1 && n == 49:
			out = append(out, "KBg []")
		case len(p) == 1 && n == 59:
			out = append(out, "KUl []")
		case len(p) == 3 && p[1] == 5 && (n == 38 || n == 48 || n == 58):
			out = append(out, fmt.Sprintf("%s [%d]", map[int]string{38: "KFg", 48: "KBg", 58: "KUl"}[n], p[2]))
		case len(p) == 5 && p[1] == 2 && (n == 38 || n == 48 || n == 58):
			out = append(out, fmt.Sprintf("%s %s", map[int]string{38: "KFg", 48: "KBg", 58: "KUl"}[n], ints(p[2:])))
		case len(p) == 2 && n == 4:
			out = append(out, fmt.Sprintf("KUlStyle %d", p[1]))
		case len(p) == 1:
			out = append(out, fmt.Sprintf("KSgr %d", n))
		default:
			out = append(out, "KMouseShape "+hx.Runes(fmt.Sprintf("￿unknown sgr %v", p)))
		}
	}
	return out
}

// ---------- Coq printers ----------

func Style(s vaxis.Style) string {
	return fmt.Sprintf("(Build_style %d %d %d %d %d %s %s)", uint32(s.Foreground), uint32(s.Background),
		uint32(s.UnderlineColor), s.UnderlineStyle, s.Attribute, hx.Runes(s.Hyperlink), hx.Runes(s.HyperlinkParams))
}

// Cell prints a cell with its measured width (the oracle's answer for this Vaxis)
func Cell(vx *vaxis.Vaxis, c vaxis.Cell) string {
	return fmt.Sprintf("(Build_cell %s %s %d %s false)", hx.Runes(c.Grapheme), hx.Z(int64(c.Width)),
		vx.RenderedWidth(c.Grapheme), Style(c.Style))
}

func Caps(vx *vaxis.Vaxis) string {
	c := vx.VerifCaps()
	return fmt.Sprintf("(Build_caps %v %v %v %v)", c["rgb"], c["styledUnderlines"], c["synchronizedUpdate"], c["explicitWidth"])
}
