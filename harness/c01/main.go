// Harness for C01: random frame histories on a real Vaxis over a fake console;
// after every frame the bytes written are tokenised and recorded.
package main

import (
	"fmt"
	"math/rand"
	"os"
	"time"

	vaxis "git.sr.ht/~rockorager/vaxis"
	"verif/harness/hx"
	"verif/harness/renderhx"
)

var graphemes = []string{"a", "b", " ", "", "é", "漢", "👍🏽", "́", "x", "W", "한", "🇩🇪"}

func randColor(r *rand.Rand) vaxis.Color {
	switch r.Intn(7) {
	case 0, 1:
		return 0
	case 2:
		return vaxis.IndexColor(uint8(r.Intn(8)))
	case 3:
		return vaxis.IndexColor(uint8(8 + r.Intn(8)))
	case 4:
		return vaxis.IndexColor(uint8(16 + r.Intn(240)))
	default:
		return vaxis.RGBColor(uint8(r.Intn(256)), uint8(r.Intn(256)), uint8(r.Intn(256)))
	}
}

var styles []vaxis.Style

func randStyle(r *rand.Rand) vaxis.Style {
	if len(styles) > 0 && r.Intn(3) > 0 {
		return styles[r.Intn(len(styles))]
	}
	var s vaxis.Style
	if r.Intn(2) == 0 {
		s.Foreground = randColor(r)
	}
	if r.Intn(3) == 0 {
		s.Background = randColor(r)
	}
	if r.Intn(4) == 0 {
		s.UnderlineColor = randColor(r)
	}
	if r.Intn(3) == 0 {
		s.UnderlineStyle = vaxis.UnderlineStyle(r.Intn(6))
	}
	switch r.Intn(4) {
	case 0:
		s.Attribute = vaxis.AttributeMask(r.Intn(256))
	case 1:
		s.Attribute = vaxis.AttributeMask(1 << uint(1+r.Intn(7)))
	}
	if r.Intn(5) == 0 {
		s.Hyperlink = []string{"http://a", "http://b"}[r.Intn(2)]
		if r.Intn(2) == 0 {
			s.HyperlinkParams = []string{"id=1", "id=2"}[r.Intn(2)]
		}
	}
	if len(styles) < 6 {
		styles = append(styles, s)
	}
	return s
}

func randCell(r *rand.Rand, valid bool) vaxis.Cell {
	g := graphemes[r.Intn(len(graphemes))]
	c := vaxis.Cell{Character: vaxis.Character{Grapheme: g}, Style: randStyle(r)}
	switch r.Intn(6) {
	case 0: // explicit, correct width for ascii
		if g == "a" || g == "b" || g == "x" || g == "W" || g == " " {
			c.Width = 1
		}
	case 1:
		if g == "漢" || g == "한" {
			c.Width = 2
		}
	case 2:
		if !valid { // an explicit width the terminal will not honour without OSC 66
			c.Width = 1 + r.Intn(3)
		}
	}
	return c
}

func main() {
	os.Unsetenv("COLORTERM")
	os.Unsetenv("VAXIS_GRAPHICS")
	cfg := hx.ParseFlags()
	r := cfg.Rand
	s := hx.NewStream("history", "model.RenderTypes model.Render model.RenderCheck", "hcase", "c01_mismatches", "c01_violations")
	s.ShardMax = 40
	s.Known = "c01_known"
	s.KnownClass = "wide-overhang"
	sb := hx.NewStream("bytes", "model.RenderTypes model.Render model.RenderCheck model.RenderBytes", "bhcase", "c01_bytes_mismatches", "c01_bytes_violations")
	sb.ShardMax = 20
	nHist, nBytes := 320, 120
	maxRows, maxCols, maxFrames := 5, 10, 9
	if cfg.Thorough() {
		nHist, nBytes, maxRows, maxCols, maxFrames = 12000, 1200, 12, 40, 12
	}
	frames := 0
	nBytesDone := 0
	for h := 0; h < nHist; h++ {
		styles = nil
		rows, cols := 1+r.Intn(maxRows), 1+r.Intn(maxCols)
		if r.Intn(6) == 0 {
			cols = 1 + r.Intn(3)
		}
		var mask uint32
		for _, bit := range []uint{0, 9, 10, 11} { // sync, explicit width, rgb, smulx
			if r.Intn(2) == 0 {
				mask |= 1 << bit
			}
		}
		if r.Intn(3) == 0 {
			mask |= 1 << 1 // unicode core (changes the width method only)
		}
		initRows, initCols := rows, cols
		fc := hx.NewFakeConsole(hx.ProfileFromMask(mask, rows, cols))
		vx, err := vaxis.New(vaxis.Options{WithConsole: fc, NoSignals: true, DisableMouse: true})
		if err != nil {
			panic(err)
		}
		fc.Take()
		valid := r.Intn(8) != 0 // most histories only use cells whose width the terminal agrees with
		overhang := h < 2 || r.Intn(25) == 0 // corpus + a few random histories with the recorded finding
		var fterms []string
		var fjson []interface{}
		nf := 2 + r.Intn(maxFrames)
		wide := false
		haveCursor, curCol, curRow := false, 0, 0
		var rawFrames []string
		for f := 0; f < nf; f++ {
			win := vx.Window()
			var ops []string
			var opsJ []string
			nops := r.Intn(7)
			if f == 0 {
				nops += 3
			}
			idle := f > 0 && haveCursor && r.Intn(8) == 0
			if idle {
				// an idle frame: nothing but the cursor's shape (or nothing at all) changes
				nops = r.Intn(2)
			}
			for k := 0; k < nops; k++ {
				sel := r.Intn(12)
				if idle {
					sel = 2
				}
				if overhang && f == 0 && k == 0 {
					sel = 11
				}
				switch sel {
				case 0:
					st := randStyle(r)
					col, row := r.Intn(cols+1)-0, r.Intn(rows+1)
					win.SetStyle(col, row, st)
					ops = append(ops, fmt.Sprintf("OStyle %d %d %s", col, row, renderhx.Style(st)))
					opsJ = append(opsJ, fmt.Sprintf("SetStyle(%d,%d)", col, row))
				case 1:
					c := randCell(r, valid)
					if r.Intn(3) > 0 {
						c = vaxis.Cell{Character: vaxis.Character{Grapheme: " ", Width: 1}}
					}
					if c.Width == 0 && vx.RenderedWidth(c.Grapheme) > 1 && cols > 0 {
						c.Grapheme = "a" // a fill with wide cells overhangs the edge on odd widths
					}
					win.Fill(c)
					ops = append(ops, "OFill "+renderhx.Cell(vx, c))
					opsJ = append(opsJ, fmt.Sprintf("Fill(%q)", c.Grapheme))
				case 2:
					col, row, st := r.Intn(cols+2)-1, r.Intn(rows+2)-1, r.Intn(7)
					if idle || (haveCursor && r.Intn(4) == 0) {
						col, row = curCol, curRow // same place, maybe another shape
					}
					haveCursor, curCol, curRow = true, col, row
					vx.ShowCursor(col, row, vaxis.CursorStyle(st))
					ops = append(ops, fmt.Sprintf("OShowCursor %s %s %d", hx.Z(int64(col)), hx.Z(int64(row)), st))
					opsJ = append(opsJ, fmt.Sprintf("ShowCursor(%d,%d,%d)", col, row, st))
				case 3:
					vx.HideCursor()
					ops = append(ops, "OHideCursor")
					opsJ = append(opsJ, "HideCursor")
				case 4:
					shape := []vaxis.MouseShape{vaxis.MouseShapeDefault, vaxis.MouseShapeTextInput, vaxis.MouseShapeClickable}[r.Intn(3)]
					vx.SetMouseShape(shape)
					ops = append(ops, "OMouseShape "+hx.Runes(string(shape)))
					opsJ = append(opsJ, "SetMouseShape("+string(shape)+")")
				default:
					c := randCell(r, valid)
					col, row := r.Intn(cols+1), r.Intn(rows+1)
					if r.Intn(10) == 0 {
						col = -1
					}
					w := c.Width
					if w == 0 {
						w = vx.RenderedWidth(c.Grapheme)
					}
					if overhang && k == 0 && f == 0 {
						c = vaxis.Cell{Character: vaxis.Character{Grapheme: "漢"}}
						w = vx.RenderedWidth(c.Grapheme)
						col, row = cols-1, 0
					}
					if valid && !overhang && w > 1 && col+w > cols {
						// keep wide cells off the right edge in "valid" histories (finding wide-overhang)
						if cols >= w {
							col = r.Intn(cols - w + 1)
						} else {
							c.Grapheme = "a"
						}
					}
					if w > 1 {
						wide = true
					}
					win.SetCell(col, row, c)
					ops = append(ops, fmt.Sprintf("OSet %s %s %s", hx.Z(int64(col)), hx.Z(int64(row)), renderhx.Cell(vx, c)))
					opsJ = append(opsJ, fmt.Sprintf("SetCell(%d,%d,%q,w=%d)", col, row, c.Grapheme, c.Width))
				}
			}
			var end string
			switch x := r.Intn(20); {
			case x < 2:
				vx.Refresh()
				end = "FRefresh"
			case x < 4 && f > 0:
				oldRows, oldCols := rows, cols
				rows, cols = 1+r.Intn(maxRows), 1+r.Intn(maxCols)
				if r.Intn(3) == 0 {
					rows, cols = oldRows, oldCols // a size report that changes nothing must not cancel or cause anything
				}
				fc.SetSize(rows, cols)
				vx.Resize()
				byRefresh := r.Intn(2) == 0
				if byRefresh {
					vx.Refresh() // a pending size change is consumed by whichever of Render/Refresh comes first
				} else {
					vx.Render()
				}
				if rows == oldRows && cols == oldCols {
					// same size as before: rendered normally
					if byRefresh {
						end = "FRefresh"
					} else {
						end = "FRender"
					}
				} else {
					end = fmt.Sprintf("(FResize %d %d)", rows, cols)
				}
			default:
				vx.Render()
				end = "FRender"
			}
			raw := fc.Take()
			toks := renderhx.Tokenize(raw)
			rawFrames = append(rawFrames, hx.Bytes(raw))
			fterms = append(fterms, hx.Tuple(hx.List(ops), end, hx.List(toks)))
			fjson = append(fjson, map[string]interface{}{"ops": opsJ, "end": end, "tokens": len(toks)})
			frames++
			// keep the event queue from filling up
			for len(vx.Events()) > 0 {
				<-vx.Events()
			}
		}
		var wt []string
		for _, g := range graphemes {
			wt = append(wt, hx.Tuple(hx.Runes(g), fmt.Sprint(vx.RenderedWidth(g))))
		}
		caseTerm := fmt.Sprintf("Build_hcase %s %d %d %s %s", renderhx.Caps(vx), initRows, initCols, hx.List(wt), hx.List(fterms))
		hx.WithTimeout(2*time.Second, vx.Close)
		rawTotal := 0
		for _, rf := range rawFrames {
			rawTotal += len(rf)
		}
		// (literal size bounds the cost of elaborating the case file: histories whose flushes print
		// to more than 40k characters of Coq numerals are left to the token-level stream)
		if nBytesDone < nBytes && rawTotal < 40000 {
			nBytesDone++
			sb.Add(hx.Tuple("("+caseTerm+")", hx.List(rawFrames)), map[string]interface{}{"caps_mask": mask, "rows": initRows, "cols": initCols, "frames": fjson},
				nf > 2, fmt.Sprintf("frames=%d", nf))
		}
		s.Add(caseTerm, map[string]interface{}{"caps_mask": mask, "rows": initRows, "cols": initCols, "frames": fjson, "valid_widths": valid},
			nf > 2, fmt.Sprintf("frames=%d", nf), fmt.Sprintf("wide=%v", wide), fmt.Sprintf("valid=%v", valid))
	}
	cfg.Write("C01", "random frame histories on a real Vaxis over a fake console: sizes 1x1..5x10 (quick) / 12x40 (thorough), random subsets of {sync, explicit width, rgb, styled underlines, unicode core}, cells over narrow/wide/zero-width/multi-codepoint graphemes with measured or explicit widths, styles over default/0-7/8-15/16-255/RGB colours x all attribute masks x 6 underline styles x hyperlinks with params; SetCell/SetStyle/Fill/ShowCursor/HideCursor/SetMouseShape; frames ended by Render, Refresh or a resize consumed by Render or by Refresh; idle frames in which only the cursor shape changes; for the first histories also the raw bytes of every flush (stream bytes: model tokens serialised = bytes written, parser model reads them as the harness tokenizer did). non-trivial = more than two frames",
		[]*hx.Stream{s, sb}, map[string]interface{}{"frames": frames}, nil)
}
