package main

import (
	"fmt"
	"os"
	"time"

	vaxis "git.sr.ht/~rockorager/vaxis"
	"verif/harness/hx"
)

func main() {
	os.Unsetenv("COLORTERM")
	if len(os.Args) > 1 && os.Args[1] == "wc" {
		os.Setenv("VAXIS_FORCE_WCWIDTH", "1")
	}
	for _, mask := range []uint32{0, 0x1ffff, 2} {
		p := hx.ProfileFromMask(mask, 2, 3)
		p.CursorStyleReply = 4
		fc := hx.NewFakeConsole(p)
		t0 := time.Now()
		vx, err := vaxis.New(vaxis.Options{WithConsole: fc, NoSignals: true})
		if err != nil {
			panic(err)
		}
		fmt.Println("new", time.Since(t0))
		fmt.Printf("%q\n", fc.Take()[8192:])
		win := vx.Window()
		win.SetCell(1, 0, vaxis.Cell{Character: vaxis.Character{Grapheme: "a", Width: 1}, Style: vaxis.Style{Foreground: vaxis.IndexColor(3), Attribute: vaxis.AttrBold, Hyperlink: "u"}})
		vx.ShowCursor(1, 1, vaxis.CursorBeam)
		vx.SetMouseShape(vaxis.MouseShapeClickable)
		vx.Render()
		fmt.Printf("frame %q\n", fc.Take())
		vx.Render()
		fmt.Printf("frame2 %q\n", fc.Take())
		ok := hx.WithTimeout(2*time.Second, func() { vx.Suspend() })
		fmt.Printf("suspend %v %q\n", ok, fc.Take())
		vx.Resume()
		b := fc.Take()
		fmt.Printf("resume %d %q\n", len(b), b[8192:])
		vx.Render()
		fmt.Printf("frame3 %q\n", fc.Take())
		t0 = time.Now()
		ok = hx.WithTimeout(2*time.Second, vx.Close)
		fmt.Println("close", ok, time.Since(t0))
		fmt.Printf("%q\n", fc.Take())
		ok = hx.WithTimeout(300*time.Millisecond, vx.Close)
		fmt.Printf("close2 %v %q\n", ok, fc.Take())
	}
}
