// Harness for C04 (terminal state is restored on every exit path).
//
// Every case starts a real Vaxis on hx.FakeConsole, runs a generated session
// (frames, cursor / pointer-shape / app-id changes, Suspend/Resume cycles,
// Close, a termination signal, a panic inside the input goroutine), and records
// every byte written to the console per operation together with an outcome
// code (0 returned, 2 never returned).  Sessions that end in a signal or a
// panic run in a child process (this binary, -c04child) which streams every
// console write to its stdout, so that the bytes survive the re-panic.
package main

import (
	"bufio"
	"bytes"
	"encoding/hex"
	"encoding/json"
	"errors"
	"fmt"
	"math/rand"
	"os"
	"os/exec"
	"strings"
	"sync"
	"syscall"
	"time"

	vaxis "git.sr.ht/~rockorager/vaxis"
	"github.com/containerd/console"
	"verif/harness/hx"
)

// ---------- sessions ----------

type cell struct {
	G    int    `json:"g"`  // 0: zero Cell{}
	Fg   int    `json:"fg"` // -1 default, else palette index
	Bold bool   `json:"bold"`
	Link string `json:"link"`
}

type op struct {
	K     string   `json:"k"` // frame render refresh show hide shape appid suspend resume close kill panic
	Grid  [][]cell `json:"grid,omitempty"`
	Col   int      `json:"col,omitempty"`
	Row   int      `json:"row,omitempty"`
	Style int      `json:"style,omitempty"`
	S     string   `json:"s,omitempty"`
}

type spec struct {
	Mask        uint32 `json:"mask"` // hx.ProfileFromMask
	CursorReply int    `json:"cursor_reply"`
	NoMouse     bool   `json:"no_mouse"`
	NoKitty     bool   `json:"no_kitty"` // Options.DisableKittyKeyboard
	CSIuMask    int    `json:"csiu_mask"`
	ReportKB    bool   `json:"report_kb"`
	XTVersion   string `json:"xtversion"`
	ForceWc     bool   `json:"force_wcwidth"`
	ForceUni    bool   `json:"force_unicode"`
	ForceNoZWJ  bool   `json:"force_nozwj"`
	Rows        int    `json:"rows"`
	Cols        int    `json:"cols"`
	// the reference terminal the bytes are interpreted on
	// (the kitty keyboard protocol keeps one flag stack per screen: Kitty0 is the stack of the
	// main screen before start-up, KittyAlt0 the one of the alternate screen)
	HonoursInband bool   `json:"honours_inband"`
	Kitty0        []int  `json:"kitty0"`
	KittyAlt0     []int  `json:"kitty_alt0"`
	Ops           []op   `json:"ops"`
	Class         string `json:"class,omitempty"`
	// overlapped shutdown (stream "overlap"): after Ops, Trigger ("kill" / "panic") starts Close on the
	// input goroutine while the console withholds the DA1 answer; During Close calls of the application
	// follow, then the answer, then After more Close calls
	Trigger string `json:"trigger,omitempty"`
	During  int    `json:"during,omitempty"`
	After   int    `json:"after,omitempty"`
}

type chunk struct {
	Code  int
	Bytes []byte
}

type observation struct {
	Chunks []chunk
	Caps   map[string]bool
	KFlags int
	UStyle int
	AppID  string
	Exit   string // child: how the process ended
}

func (s *spec) profile() hx.Profile {
	p := hx.ProfileFromMask(s.Mask, s.Rows, s.Cols)
	p.CursorStyleReply = s.CursorReply
	p.XTVersion = s.XTVersion
	return p
}

func setenv(k string, on bool) {
	if on {
		os.Setenv(k, "1")
	} else {
		os.Unsetenv(k)
	}
}

var envMu sync.Mutex

func (s *spec) options(fc console.Console, noSignals bool) vaxis.Options {
	return vaxis.Options{WithConsole: fc, NoSignals: noSignals, DisableMouse: s.NoMouse,
		DisableKittyKeyboard: s.NoKitty, CSIuBitMask: vaxis.CSIuBitMask(s.CSIuMask), ReportKeyboardEvents: s.ReportKB}
}

func toCell(c cell) vaxis.Cell {
	if c.G == 0 && c.Fg < 0 && !c.Bold && c.Link == "" {
		return vaxis.Cell{}
	}
	st := vaxis.Style{Hyperlink: c.Link}
	if c.Fg >= 0 {
		st.Foreground = vaxis.IndexColor(uint8(c.Fg))
	}
	if c.Bold {
		st.Attribute = vaxis.AttrBold
	}
	ch := vaxis.Character{}
	if c.G != 0 {
		ch = vaxis.Character{Grapheme: string(rune(c.G)), Width: 1}
	}
	return vaxis.Cell{Character: ch, Style: st}
}

const opTimeout = 8 * time.Second // only a cap on genuine hangs; 3 s expired on a loaded machine (false alarm seen once)

// apply runs one synchronous operation; it reports false when it did not return.
func apply(vx *vaxis.Vaxis, o op) bool {
	return hx.WithTimeout(opTimeout, func() {
		switch o.K {
		case "frame":
			win := vx.Window()
			for r, row := range o.Grid {
				for c, cl := range row {
					win.SetCell(c, r, toCell(cl))
				}
			}
			vx.Render()
		case "render":
			vx.Render()
		case "refresh":
			vx.Refresh()
		case "show":
			vx.ShowCursor(o.Col, o.Row, vaxis.CursorStyle(o.Style))
		case "hide":
			vx.HideCursor()
		case "shape":
			vx.SetMouseShape(vaxis.MouseShape(o.S))
		case "appid":
			vx.SetAppID(o.S)
		case "suspend":
			vx.Suspend()
		case "resume":
			vx.Resume()
		case "close":
			vx.Close()
		default:
			panic("unknown op " + o.K)
		}
	})
}

// runInProcess executes a session that contains no kill / panic operation.
func runInProcess(s *spec) observation {
	envMu.Lock()
	setenv("VAXIS_FORCE_WCWIDTH", s.ForceWc)
	setenv("VAXIS_FORCE_UNICODE", s.ForceUni)
	setenv("VAXIS_FORCE_NOZWJ", s.ForceNoZWJ)
	fc := hx.NewFakeConsole(s.profile())
	vx, err := vaxis.New(s.options(fc, true))
	envMu.Unlock()
	if err != nil {
		panic(err)
	}
	var ob observation
	ob.Chunks = append(ob.Chunks, chunk{0, fc.Take()})
	ob.Caps = vx.VerifCaps()
	ob.KFlags = vx.VerifKittyFlags()
	ob.UStyle = vx.VerifUserCursorStyle()
	ob.AppID = vx.VerifAppIDLast()
	hung := false
	for _, o := range s.Ops {
		if hung {
			ob.Chunks = append(ob.Chunks, chunk{0, nil})
			continue
		}
		ok := apply(vx, o)
		code := 0
		if !ok {
			code, hung = 2, true
		}
		ob.Chunks = append(ob.Chunks, chunk{code, fc.Take()})
	}
	return ob
}

// ---------- child process (kill / panic paths) ----------

// The child prints lines: "W <hex>" for every console write, "B <code-of-previous>" at
// every operation boundary, "I <json>" once after New, "E" when the session is over.
func childMain(arg string) {
	var s spec
	if err := json.Unmarshal([]byte(arg), &s); err != nil {
		panic(err)
	}
	os.Unsetenv("COLORTERM")
	setenv("VAXIS_FORCE_WCWIDTH", s.ForceWc)
	setenv("VAXIS_FORCE_UNICODE", s.ForceUni)
	setenv("VAXIS_FORCE_NOZWJ", s.ForceNoZWJ)
	var mu sync.Mutex
	say := func(line string) {
		mu.Lock()
		os.Stdout.WriteString(line + "\n")
		mu.Unlock()
	}
	fc := hx.NewFakeConsole(s.profile())
	fc.WriteHook = func(p []byte) { say("W " + hex.EncodeToString(p)) }
	vx, err := vaxis.New(s.options(fc, false)) // with signal handlers
	if err != nil {
		panic(err)
	}
	info, _ := json.Marshal(map[string]interface{}{"caps": vx.VerifCaps(), "kflags": vx.VerifKittyFlags(),
		"ustyle": vx.VerifUserCursorStyle(), "appid": vx.VerifAppIDLast()})
	say("I " + string(info))
	for _, o := range s.Ops {
		say("B")
		switch o.K {
		case "kill":
			syscall.Kill(os.Getpid(), syscall.SIGTERM)
			select {
			case <-vx.VerifQuitCh():
			case <-time.After(opTimeout):
				say("H")
			}
		case "panic":
			vx.VerifPoisonCursorPos()
			fc.InjectString("\x1b[5;5R")
			// the input goroutine recovers, calls Close and panics again: the process dies
			time.Sleep(opTimeout)
			say("H")
		default:
			if !apply(vx, o) {
				say("H")
			}
		}
	}
	say("E")
	os.Exit(0)
}

func runInChild(s *spec) observation {
	js, _ := json.Marshal(s)
	cmd := exec.Command(os.Args[0], "-c04child", string(js))
	cmd.Env = append(os.Environ(), "GOTRACEBACK=none")
	out, err := cmd.StdoutPipe()
	if err != nil {
		panic(err)
	}
	if err := cmd.Start(); err != nil {
		panic(err)
	}
	var ob observation
	cur := chunk{}
	sc := bufio.NewScanner(out)
	sc.Buffer(make([]byte, 1<<20), 1<<26)
	ended := false
	for sc.Scan() {
		line := sc.Text()
		switch {
		case strings.HasPrefix(line, "W "):
			b, _ := hex.DecodeString(line[2:])
			cur.Bytes = append(cur.Bytes, b...)
		case line == "B":
			ob.Chunks = append(ob.Chunks, cur)
			cur = chunk{}
		case line == "H":
			cur.Code = 2
		case strings.HasPrefix(line, "I "):
			var info struct {
				Caps   map[string]bool `json:"caps"`
				KFlags int             `json:"kflags"`
				UStyle int             `json:"ustyle"`
				AppID  string          `json:"appid"`
			}
			json.Unmarshal([]byte(line[2:]), &info)
			ob.Caps, ob.KFlags, ob.UStyle, ob.AppID = info.Caps, info.KFlags, info.UStyle, info.AppID
		case line == "E":
			ended = true
		}
	}
	ob.Chunks = append(ob.Chunks, cur)
	err = cmd.Wait()
	switch {
	case ended && err == nil:
		ob.Exit = "exit0"
	case err != nil:
		ob.Exit = err.Error()
	default:
		ob.Exit = "eof"
	}
	for len(ob.Chunks) < len(s.Ops)+1 {
		ob.Chunks = append(ob.Chunks, chunk{})
	}
	return ob
}

// ---------- overlapped shutdown (child process) ----------

// holdConsole is the scripted terminal of the overlap scenarios: while hold is set it
// records a DA1 query (CSI c) without answering it, so that the Close that wrote it
// stays in Suspend, waiting for the parser; release answers what was withheld.
type holdConsole struct {
	*hx.FakeConsole
	mu   sync.Mutex
	hold bool
	held int
	saw  chan struct{}
}

var da1Query = []byte("\x1b[c")

func (h *holdConsole) Write(p []byte) (int, error) {
	h.mu.Lock()
	defer h.mu.Unlock()
	if n := bytes.Count(p, da1Query); h.hold && n > 0 {
		h.held += n
		h.FakeConsole.AutoReply = false
		k, err := h.FakeConsole.Write(p)
		h.FakeConsole.AutoReply = true
		select {
		case h.saw <- struct{}{}:
		default:
		}
		return k, err
	}
	return h.FakeConsole.Write(p)
}

func (h *holdConsole) setHold() {
	h.mu.Lock()
	h.hold = true
	h.mu.Unlock()
}

func (h *holdConsole) release() {
	h.mu.Lock()
	n := h.held
	h.held, h.hold = 0, false
	h.mu.Unlock()
	for i := 0; i < n; i++ {
		h.FakeConsole.InjectString("\x1b[?62;22c")
	}
}

const overlapWindow = 1500 * time.Millisecond // how long a Close of the application may take before the terminal answers

// childOverlap prints the lines of childMain plus "R <i>" when the i-th overlapping
// Close of the application has returned.  Chunks: start-up, each operation, the trigger
// (until its Close has written the DA1 query), each overlapping Close, the answer (until
// the first Close has finished), each later Close.
func childOverlap(arg string) {
	var s spec
	if err := json.Unmarshal([]byte(arg), &s); err != nil {
		panic(err)
	}
	os.Unsetenv("COLORTERM")
	setenv("VAXIS_FORCE_WCWIDTH", s.ForceWc)
	setenv("VAXIS_FORCE_UNICODE", s.ForceUni)
	setenv("VAXIS_FORCE_NOZWJ", s.ForceNoZWJ)
	var mu sync.Mutex
	say := func(line string) {
		mu.Lock()
		os.Stdout.WriteString(line + "\n")
		mu.Unlock()
	}
	fc := hx.NewFakeConsole(s.profile())
	fc.WriteHook = func(p []byte) { say("W " + hex.EncodeToString(p)) }
	hc := &holdConsole{FakeConsole: fc, saw: make(chan struct{}, 16)}
	vx, err := vaxis.New(s.options(hc, false)) // with signal handlers
	if err != nil {
		panic(err)
	}
	info, _ := json.Marshal(map[string]interface{}{"caps": vx.VerifCaps(), "kflags": vx.VerifKittyFlags(),
		"ustyle": vx.VerifUserCursorStyle(), "appid": vx.VerifAppIDLast()})
	say("I " + string(info))
	for _, o := range s.Ops {
		say("B")
		if !apply(vx, o) {
			say("H")
		}
	}
	// the trigger: Close starts on the input goroutine and waits for the terminal
	say("B")
	hc.setHold()
	switch s.Trigger {
	case "kill":
		syscall.Kill(os.Getpid(), syscall.SIGTERM)
	case "panic":
		vx.VerifPoisonCursorPos()
		fc.InjectString("\x1b[5;5R")
	default:
		panic("trigger " + s.Trigger)
	}
	select {
	case <-hc.saw:
	case <-time.After(opTimeout):
		say("H") // the first Close never reached Suspend's query
	}
	// the application reacts to QuitEvent with its own Close, one call after the other
	returned := make([]chan struct{}, s.During)
	blocked := false
	launched := -1
	for i := 0; i < s.During; i++ {
		say("B")
		returned[i] = make(chan struct{})
		if blocked {
			say(fmt.Sprintf("N %d", i)) // never issued: the application's goroutine is still inside the previous call
			continue
		}
		launched = i
		go func(i int) {
			vx.Close()
			say(fmt.Sprintf("R %d", i))
			close(returned[i])
		}(i)
		select {
		case <-returned[i]:
		case <-time.After(overlapWindow):
			blocked = true
		}
	}
	// the terminal answers
	say("B")
	hc.release()
	switch s.Trigger {
	case "kill":
		select {
		case <-vx.VerifQuitCh():
		case <-time.After(opTimeout):
			say("H")
		}
	case "panic":
		// the input goroutine finishes Close and panics again: the process dies here
		time.Sleep(opTimeout)
		say("H")
	}
	if blocked {
		// did the call the application is stuck in return once the terminal had answered?
		select {
		case <-returned[launched]:
			blocked = false
		case <-time.After(2 * time.Second):
		}
	}
	for i := 0; i < s.After; i++ {
		say("B")
		if blocked {
			continue
		}
		if !apply(vx, op{K: "close"}) {
			say("H")
			blocked = true
		}
	}
	say("E")
	os.Exit(0)
}

func runOverlapChild(s *spec) observation {
	js, _ := json.Marshal(s)
	cmd := exec.Command(os.Args[0], "-c04ovl", string(js))
	cmd.Env = append(os.Environ(), "GOTRACEBACK=none")
	out, err := cmd.StdoutPipe()
	if err != nil {
		panic(err)
	}
	if err := cmd.Start(); err != nil {
		panic(err)
	}
	var ob observation
	cur := chunk{}
	sc := bufio.NewScanner(out)
	sc.Buffer(make([]byte, 1<<20), 1<<26)
	ended := false
	ret := map[int]bool{}
	for sc.Scan() {
		line := sc.Text()
		switch {
		case strings.HasPrefix(line, "W "):
			b, _ := hex.DecodeString(line[2:])
			cur.Bytes = append(cur.Bytes, b...)
		case line == "B":
			ob.Chunks = append(ob.Chunks, cur)
			cur = chunk{}
		case line == "H":
			cur.Code = 2
		case strings.HasPrefix(line, "R "), strings.HasPrefix(line, "N "):
			var i int
			fmt.Sscanf(line[2:], "%d", &i)
			ret[i] = true
		case strings.HasPrefix(line, "I "):
			var info struct {
				Caps   map[string]bool `json:"caps"`
				KFlags int             `json:"kflags"`
				UStyle int             `json:"ustyle"`
				AppID  string          `json:"appid"`
			}
			json.Unmarshal([]byte(line[2:]), &info)
			ob.Caps, ob.KFlags, ob.UStyle, ob.AppID = info.Caps, info.KFlags, info.UStyle, info.AppID
		case line == "E":
			ended = true
		}
	}
	ob.Chunks = append(ob.Chunks, cur)
	err = cmd.Wait()
	switch {
	case ended && err == nil:
		ob.Exit = "exit0"
	case err != nil:
		ob.Exit = err.Error()
	default:
		ob.Exit = "eof"
	}
	total := 1 + len(s.Ops) + 1 + s.During + 1 + s.After
	for len(ob.Chunks) < total {
		ob.Chunks = append(ob.Chunks, chunk{})
	}
	// an overlapping Close that had not returned when the scenario (or the process) ended
	for i := 0; i < s.During; i++ {
		if !ret[i] {
			ob.Chunks[1+len(s.Ops)+1+i].Code = 2
		}
	}
	return ob
}

// ---------- New fails after start-up ----------

// badSize is a console whose Size() fails, so that reportWinsize (ioctl on the
// fake descriptor fails too) returns an error after New has enabled everything.
type badSize struct{ *hx.FakeConsole }

func (b badSize) Size() (console.WinSize, error) { return console.WinSize{}, errors.New("no size") }

func runFailingNew(s *spec) ([]byte, error) {
	envMu.Lock()
	defer envMu.Unlock()
	setenv("VAXIS_FORCE_WCWIDTH", false)
	setenv("VAXIS_FORCE_UNICODE", false)
	setenv("VAXIS_FORCE_NOZWJ", false)
	fc := hx.NewFakeConsole(s.profile())
	var err error
	ok := hx.WithTimeout(opTimeout, func() {
		_, err = vaxis.New(s.options(badSize{fc}, true))
	})
	if !ok {
		return fc.Take(), errors.New("New did not return")
	}
	return fc.Take(), err
}

func (s *spec) failTerm(b []byte) string {
	m := s.Mask
	det := []bool{bit(m, 0), bit(m, 1), bit(m, 9), bit(m, 5) && !s.NoKitty, bit(m, 7), bit(m, 2), bit(m, 15), bit(m, 3)}
	var ds []string
	for _, d := range det {
		ds = append(ds, hx.Bool(d))
	}
	appid := ""
	if bit(m, 15) {
		appid = "fakeapp"
	}
	ustyle := 0
	if s.CursorReply >= 0 && s.CursorReply <= 6 {
		ustyle = s.CursorReply
	}
	return fmt.Sprintf("mkFail (mkOpts %s false false false false) (mkFlags %s %s) %s %s %s %s %s %s %s\n %s",
		hx.Bool(s.NoMouse), strings.Join(ds, " "), hx.Bool(s.NoMouse), hx.Z(int64(s.CSIuMask)), hx.Bool(s.ReportKB),
		coqStr(appid), hx.Z(int64(ustyle)), hx.Bool(s.HonoursInband), hx.IntList(s.Kitty0), hx.IntList(s.KittyAlt0), coqSegs(b))
}

// ---------- Coq printing ----------

func coqStr(s string) string { return hx.Bytes([]byte(s)) }

func coqCell(c cell) string {
	if c.G == 0 && c.Fg < 0 && !c.Bold && c.Link == "" {
		return "blank"
	}
	return fmt.Sprintf("(mkCell %s %s %s %s)", hx.Z(int64(c.G)), hx.Z(int64(c.Fg)), hx.Bool(c.Bold), coqStr(c.Link))
}

func coqOp(o op) string {
	switch o.K {
	case "frame":
		var rows []string
		for _, r := range o.Grid {
			var cs []string
			for _, c := range r {
				cs = append(cs, coqCell(c))
			}
			rows = append(rows, hx.List(cs))
		}
		return "OpFrame " + hx.List(rows)
	case "render":
		return "OpRender"
	case "refresh":
		return "OpRefresh"
	case "show":
		return fmt.Sprintf("OpShowCursor %s %s %s", hx.Z(int64(o.Col)), hx.Z(int64(o.Row)), hx.Z(int64(o.Style)))
	case "hide":
		return "OpHideCursor"
	case "shape":
		return "OpSetMouseShape " + coqStr(o.S)
	case "appid":
		return "OpSetAppID " + coqStr(o.S)
	case "suspend":
		return "OpSuspend"
	case "resume":
		return "OpResume"
	case "close":
		return "OpClose"
	case "kill":
		return "OpKill"
	case "panic":
		return "OpPanic"
	}
	panic("op " + o.K)
}

// segs run-length encodes NUL runs of 32 or more
func coqSegs(b []byte) string {
	var segs []string
	i := 0
	start := 0
	flush := func(end int) {
		if end > start {
			segs = append(segs, "Raw "+hx.Bytes(b[start:end]))
		}
	}
	for i < len(b) {
		if b[i] == 0 {
			j := i
			for j < len(b) && b[j] == 0 {
				j++
			}
			if j-i >= 32 {
				flush(i)
				segs = append(segs, fmt.Sprintf("Nuls %d", j-i))
				start = j
			}
			i = j
			continue
		}
		i++
	}
	flush(len(b))
	return hx.List(segs)
}

var capOrder = []string{"synchronizedUpdate", "unicodeCore", "explicitWidth", "kittyKeyboard", "sixels", "colorThemeUpdates", "osc176", "inBandResize"}

func bit(m uint32, i uint) bool { return m&(1<<i) != 0 }

func (s *spec) term(ob observation) string {
	m := s.Mask
	det := []bool{bit(m, 0), bit(m, 1), bit(m, 9), bit(m, 5) && !s.NoKitty, bit(m, 7), bit(m, 2), bit(m, 15), bit(m, 3)}
	// The explicit-width probe depends on a cursor position report arriving within
	// 50 ms (CursorPosition's timeout): on a loaded machine Vaxis may miss it.  What
	// Vaxis detected is an input of the model, so take it from Vaxis when no quirk
	// overrides it anyway.
	if !s.ForceWc && !s.ForceNoZWJ {
		det[2] = ob.Caps["explicitWidth"]
	}
	var ds []string
	for _, d := range det {
		ds = append(ds, hx.Bool(d))
	}
	flags := "(mkFlags " + strings.Join(ds, " ") + " " + hx.Bool(s.NoMouse) + ")"
	opts := fmt.Sprintf("(mkOpts %s %s %s %s %s)", hx.Bool(s.NoMouse), hx.Bool(s.XTVersion == "tmux 3.4"),
		hx.Bool(s.ForceWc), hx.Bool(s.ForceUni), hx.Bool(s.ForceNoZWJ))
	appid := ""
	if bit(m, 15) {
		appid = "fakeapp"
	}
	ustyle := 0
	if s.CursorReply >= 0 && s.CursorReply <= 6 {
		ustyle = s.CursorReply
	}
	var ops, obs, caps []string
	for _, o := range s.Ops {
		ops = append(ops, coqOp(o))
	}
	for _, c := range ob.Chunks {
		obs = append(obs, hx.Tuple(hx.Z(int64(c.Code)), coqSegs(c.Bytes)))
	}
	for _, k := range capOrder {
		caps = append(caps, hx.Bool(ob.Caps[k]))
	}
	return fmt.Sprintf("mkCase %s %s %s %s %s %s %s %s %s %s %s\n %s\n %s\n %s %s",
		opts, flags, hx.Z(int64(s.CSIuMask)), hx.Bool(s.ReportKB), coqStr(appid), hx.Z(int64(ustyle)),
		hx.Z(int64(s.Rows)), hx.Z(int64(s.Cols)), hx.Bool(s.HonoursInband), hx.IntList(s.Kitty0), hx.IntList(s.KittyAlt0),
		hx.List(ops), hx.List(obs), hx.List(caps), hx.Z(int64(ob.KFlags)))
}

// ---------- generators ----------

var shapes = []string{"default", "text", "pointer", "help", "progress", "wait", "ew-resize", "ns-resize", "cell"}
var links = []string{"", "", "u", "http://x"}
var fgs = []int{-1, -1, 1, 9, 200}

func genGrid(r *rand.Rand, rows, cols int, styled bool) [][]cell {
	g := make([][]cell, rows)
	for i := range g {
		g[i] = make([]cell, cols)
		for j := range g[i] {
			c := cell{Fg: -1}
			if r.Intn(3) > 0 {
				c.G = 33 + r.Intn(94)
				if styled {
					c.Fg = fgs[r.Intn(len(fgs))]
					c.Bold = r.Intn(3) == 0
					c.Link = links[r.Intn(len(links))]
				}
			}
			g[i][j] = c
		}
	}
	return g
}

// genOps produces a session that respects the API protocol (no Resume unless
// suspended, nothing but cursor / shape changes while suspended, only Close
// after Close) and ends with `last`.
func genOps(r *rand.Rand, s *spec, n int, last string) []op {
	var ops []op
	suspended := false
	osc176 := bit(s.Mask, 15)
	for len(ops) < n {
		if suspended {
			switch r.Intn(5) {
			case 0:
				ops = append(ops, op{K: "show", Col: r.Intn(s.Cols), Row: r.Intn(s.Rows), Style: r.Intn(7)})
			case 1:
				ops = append(ops, op{K: "shape", S: shapes[r.Intn(len(shapes))]})
			default:
				ops = append(ops, op{K: "resume"})
				suspended = false
			}
			continue
		}
		switch x := r.Intn(20); {
		case x < 6:
			ops = append(ops, op{K: "frame", Grid: genGrid(r, s.Rows, s.Cols, r.Intn(4) > 0)})
		case x < 8:
			ops = append(ops, op{K: "render"})
		case x < 9:
			ops = append(ops, op{K: "refresh"})
		case x < 12:
			ops = append(ops, op{K: "show", Col: r.Intn(s.Cols), Row: r.Intn(s.Rows), Style: r.Intn(7)})
		case x < 13:
			ops = append(ops, op{K: "hide"})
		case x < 15:
			ops = append(ops, op{K: "shape", S: shapes[r.Intn(len(shapes))]})
		case x < 16:
			if osc176 {
				ops = append(ops, op{K: "appid", S: "app" + fmt.Sprint(r.Intn(100))})
			}
		case x < 19:
			ops = append(ops, op{K: "suspend"})
			suspended = true
		default:
			ops = append(ops, op{K: "render"})
		}
	}
	switch last {
	case "suspend":
		if suspended {
			ops = append(ops, op{K: "resume"}, op{K: "render"})
		}
		ops = append(ops, op{K: "suspend"})
	default:
		if suspended {
			ops = append(ops, op{K: "resume"})
			if r.Intn(2) == 0 {
				ops = append(ops, op{K: "frame", Grid: genGrid(r, s.Rows, s.Cols, true)})
			}
		}
		ops = append(ops, op{K: last})
		if last == "close" && r.Intn(3) == 0 {
			ops = append(ops, op{K: "close"}) // a second Close is harmless
		}
	}
	return ops
}

// modeBits are the profile switches that reach enableModes / disableModes / the writer
var modeBits = []uint{0, 1, 2, 3, 5, 7, 9, 15}
var otherBits = []uint{4, 6, 8, 10, 11, 12, 13, 14, 16}

func maskOf(r *rand.Rand, combo int) uint32 {
	var m uint32
	for i, b := range modeBits {
		if combo&(1<<uint(i)) != 0 {
			m |= 1 << b
		}
	}
	for _, b := range otherBits {
		if r.Intn(2) == 0 {
			m |= 1 << b
		}
	}
	return m
}

func baseSpec(r *rand.Rand, combo int, noMouse bool) *spec {
	s := &spec{Mask: maskOf(r, combo), CursorReply: -1, NoMouse: noMouse, CSIuMask: 0, Rows: 1 + r.Intn(2), Cols: 1 + r.Intn(3)}
	if bit(s.Mask, 4) {
		s.XTVersion = "fake(1.0)"
	}
	switch r.Intn(4) {
	case 0:
		s.CursorReply = r.Intn(7)
	case 1:
		s.CursorReply = -2
	}
	s.HonoursInband = bit(s.Mask, 3)
	if r.Intn(3) == 0 {
		s.Kitty0 = []int{r.Intn(32)}
	}
	if r.Intn(3) == 0 {
		s.KittyAlt0 = []int{r.Intn(32)}
	}
	return s
}

func main() {
	if len(os.Args) == 3 && os.Args[1] == "-c04child" {
		childMain(os.Args[2])
		return
	}
	if len(os.Args) == 3 && os.Args[1] == "-c04ovl" {
		childOverlap(os.Args[2])
		return
	}
	cfg := hx.ParseFlags()
	os.Unsetenv("COLORTERM")
	for _, k := range []string{"VAXIS_FORCE_LEGACY_SGR", "VAXIS_FORCE_XTWINOPS", "VAXIS_DISABLE_NOZWJ", "VAXIS_GRAPHICS", "ASCIINEMA_REC", "VAXIS_LOG_LEVEL"} {
		os.Unsetenv(k)
	}
	r := cfg.Rand
	st := hx.NewStream("session", "model.ModeTerm model.ModesTypes model.Modes", "c04case", "c04_session_mismatches", "c04_session_violations")
	st.Known = "c04_session_known"
	st.KnownClass = "suspend-then-close"
	st.ShardMax = 48
	var direct []hx.DirectViolation
	t0 := time.Now()
	spawned := 0

	add := func(s *spec, tags ...string) {
		child := false
		for _, o := range s.Ops {
			if o.K == "kill" || o.K == "panic" {
				child = true
			}
		}
		var ob observation
		if child {
			ob = runInChild(s)
			spawned++
		} else {
			ob = runInProcess(s)
		}
		cycles := false
		for _, o := range s.Ops {
			if o.K == "resume" {
				cycles = true
			}
		}
		nontriv := s.NoMouse || cycles || s.ForceWc || s.ForceUni || s.ForceNoZWJ
		for _, b := range modeBits {
			nontriv = nontriv || bit(s.Mask, b)
		}
		js := map[string]interface{}{"spec": s, "exit": ob.Exit}
		if s.Class != "" {
			js["class"] = s.Class
		}
		var codes []int
		for _, c := range ob.Chunks {
			codes = append(codes, c.Code)
		}
		js["outcomes"] = codes
		tags = append(tags, fmt.Sprintf("ops=%d", (len(s.Ops)+3)/4*4))
		if bit(s.Mask, 9) && !s.ForceWc && !s.ForceNoZWJ && !ob.Caps["explicitWidth"] {
			tags = append(tags, "cpr-reply-missed-50ms")
		}
		st.Add(s.term(ob), js, nontriv, tags...)
	}

	perCombo := 1
	if cfg.Thorough() {
		perCombo = 6
	}
	// 1. every subset of the mode-relevant capabilities x DisableMouse
	for combo := 0; combo < 256; combo++ {
		for _, nm := range []bool{false, true} {
			for k := 0; k < perCombo; k++ {
				s := baseSpec(r, combo, nm)
				last := "close"
				if r.Intn(5) == 0 {
					last = "suspend"
				}
				s.Ops = genOps(r, s, 2+r.Intn(7), last)
				add(s, "allcaps", "last="+last)
			}
		}
	}
	// 2. quirks (applyQuirks runs between capability detection and enableModes)
	for q := 0; q < 16; q++ {
		for ue := 0; ue < 4; ue++ {
			combo := 0
			if ue&1 != 0 {
				combo |= 1 << 1 // unicode
			}
			if ue&2 != 0 {
				combo |= 1 << 6 // explicit width
			}
			s := baseSpec(r, combo|r.Intn(256)&^((1<<1)|(1<<6)), r.Intn(4) == 0)
			s.ForceWc, s.ForceUni, s.ForceNoZWJ = q&1 != 0, q&2 != 0, q&4 != 0
			if q&8 != 0 {
				s.XTVersion = "tmux 3.4"
				s.Mask |= 1 << 4
			}
			s.Ops = genOps(r, s, 1+r.Intn(5), "close")
			add(s, "quirks")
		}
	}
	// 3. cursor style replies, kitty keyboard options
	for _, cr := range []int{-2, -1, 0, 1, 2, 3, 4, 5, 6} {
		s := baseSpec(r, r.Intn(256), false)
		s.CursorReply = cr
		s.Ops = genOps(r, s, 3, "close")
		add(s, "cursorstyle")
	}
	for _, km := range []int{0, 1, 2, 3, 8, 31} {
		for _, rep := range []bool{false, true} {
			s := baseSpec(r, r.Intn(256)|1<<4, false) // kitty keyboard advertised
			s.CSIuMask, s.ReportKB = km, rep
			s.NoKitty = km == 8 && rep
			s.Kitty0 = []int{5, 1}
			s.KittyAlt0 = []int{3}
			s.Ops = genOps(r, s, 4, "close")
			add(s, "kittyflags")
		}
	}
	// 3b. Suspend/Resume cycles on a terminal with the kitty keyboard protocol: the flags must be
	// pushed on (and popped from) the stack of the alternate screen in every cycle, whatever
	// the two stacks held before
	for i, tl := range [][]string{
		{"suspend", "resume", "close"},
		{"suspend", "resume", "suspend"},
		{"render", "suspend", "resume", "render", "suspend", "resume", "close"},
		{"suspend", "show", "resume", "render", "close", "close"},
	} {
		for _, stacks := range [][2][]int{{nil, nil}, {{5, 1}, nil}, {nil, {3}}, {{7}, {9, 2}}} {
			s := baseSpec(r, r.Intn(256)|1<<4, i%2 == 1) // kitty keyboard advertised
			s.Kitty0, s.KittyAlt0 = stacks[0], stacks[1]
			s.Ops = nil
			for _, k := range tl {
				o := op{K: k}
				if k == "show" {
					o.Style = 3
				}
				s.Ops = append(s.Ops, o)
			}
			add(s, "kitty-resume-cycle")
		}
	}
	// 4. a terminal that implements ?2048 but does not send the immediate report
	for i := 0; i < 6; i++ {
		s := baseSpec(r, r.Intn(256)&^(1<<3), i%2 == 0)
		s.HonoursInband = true
		last := "close"
		if i >= 4 {
			last = "suspend"
		}
		s.Ops = genOps(r, s, 1+r.Intn(4), last)
		add(s, "inband-silent")
	}
	// 5. termination signal and panic inside the input goroutine (child processes)
	nchild := 12
	if cfg.Thorough() {
		nchild = 128
	}
	for i := 0; i < nchild; i++ {
		s := baseSpec(r, r.Intn(256), r.Intn(3) == 0)
		last := "kill"
		if i%2 == 1 {
			last = "panic"
		}
		s.Ops = genOps(r, s, r.Intn(6), last)
		add(s, "exit="+last)
	}
	// 6. the recorded finding: Suspend or Close while suspended never returns
	{
		var wg sync.WaitGroup
		var mu sync.Mutex
		type res struct {
			s  *spec
			ob observation
		}
		tails := [][]string{{"suspend", "close"}, {"suspend", "suspend"}, {"render", "suspend", "show", "close"}, {"suspend", "resume", "suspend", "close"}}
		rs := make([]res, len(tails))
		for i, tl := range tails {
			s := baseSpec(r, r.Intn(256), false)
			s.Class = "suspend-then-close"
			for _, k := range tl {
				o := op{K: k}
				if k == "show" {
					o.Style = 4
				}
				s.Ops = append(s.Ops, o)
			}
			wg.Add(1)
			go func(i int, s *spec) {
				defer wg.Done()
				ob := runInProcess(s)
				mu.Lock()
				rs[i] = res{s, ob}
				mu.Unlock()
			}(i, s)
		}
		wg.Wait()
		for _, x := range rs {
			var codes []int
			for _, c := range x.ob.Chunks {
				codes = append(codes, c.Code)
			}
			st.Add(x.s.term(x.ob), map[string]interface{}{"spec": x.s, "class": x.s.Class, "outcomes": codes}, true, "known-hang")
		}
	}
	// 7. New fails after start-up (reportWinsize error): every subset of the capabilities
	// that does not take the in-band path, without the explicit-width probe
	sf := hx.NewStream("newfail", "model.ModeTerm model.ModesTypes model.Modes", "c04fail", "c04_newfail_mismatches", "c04_newfail_violations")
	sf.ShardMax = 32
	for combo := 0; combo < 256; combo++ {
		if combo&(1<<3) != 0 || combo&(1<<6) != 0 {
			continue
		}
		for _, nm := range []bool{false, true} {
			s := baseSpec(r, combo, nm)
			s.HonoursInband = r.Intn(2) == 0
			b, err := runFailingNew(s)
			if err == nil {
				direct = append(direct, hx.DirectViolation{Class: "newfail-setup", Case: s, What: "New succeeded although Size() fails: the harness did not reach the error path"})
				continue
			}
			sf.Add(s.failTerm(b), map[string]interface{}{"spec": s, "error": err.Error()}, combo != 0 || nm, "newfail")
		}
	}
	// 8. a shutdown started by the library (termination signal / panic in the input goroutine) that
	// overlaps the application: the console withholds the DA1 answer, so the Close on the input
	// goroutine waits inside Suspend while the application issues its own Close calls (the usual
	// reaction to QuitEvent); then the terminal answers; then more Close calls.  Child processes,
	// several at a time.
	so := hx.NewStream("overlap", "model.ModeTerm model.ModesTypes model.Modes", "c04ovl", "c04_overlap_mismatches", "c04_overlap_violations")
	so.ShardMax = 16
	{
		var specs []*spec
		mk := func(trigger string, during, after int, combo int) {
			s := baseSpec(r, combo, r.Intn(3) == 0)
			s.Ops = genOps(r, s, r.Intn(5), "render") // ends in the running state, Suspend/Resume cycles included
			s.Trigger, s.During, s.After = trigger, during, after
			specs = append(specs, s)
		}
		for during := 0; during <= 3; during++ {
			for after := 0; after <= 2; after++ {
				mk("kill", during, after, r.Intn(256))
			}
			mk("panic", during, 0, r.Intn(256))
		}
		nrand := 8
		if cfg.Thorough() {
			nrand = 96
		}
		for i := 0; i < nrand; i++ {
			if i%3 == 2 {
				mk("panic", 1+r.Intn(3), 0, r.Intn(256))
			} else {
				mk("kill", 1+r.Intn(4), r.Intn(3), r.Intn(256))
			}
		}
		obs := make([]observation, len(specs))
		sem := make(chan struct{}, 6)
		var wg sync.WaitGroup
		for i := range specs {
			wg.Add(1)
			sem <- struct{}{}
			go func(i int) {
				defer wg.Done()
				obs[i] = runOverlapChild(specs[i])
				<-sem
			}(i)
		}
		wg.Wait()
		spawned += len(specs)
		for i, s := range specs {
			ob := obs[i]
			head := ob
			head.Chunks = ob.Chunks[:1+len(s.Ops)]
			var tail []string
			var codes []int
			for _, c := range ob.Chunks {
				codes = append(codes, c.Code)
			}
			for _, c := range ob.Chunks[1+len(s.Ops):] {
				tail = append(tail, hx.Tuple(hx.Z(int64(c.Code)), coqSegs(c.Bytes)))
			}
			trig := "OpKill"
			if s.Trigger == "panic" {
				trig = "OpPanic"
			}
			term := fmt.Sprintf("mkOvl (%s)\n %s %d %d\n %s", s.term(head), trig, s.During, s.After, hx.List(tail))
			so.Add(term, map[string]interface{}{"spec": s, "exit": ob.Exit, "outcomes": codes,
				"outcome_legend": "start-up, each operation, trigger (until its Close waits for the terminal), each overlapping Close of the application, the terminal's answer (until the first Close finished), each later Close; 2 = never returned"},
				true, "overlap", "trigger="+s.Trigger, fmt.Sprintf("during=%d", s.During), fmt.Sprintf("after=%d", s.After))
		}
	}
	extra := map[string]interface{}{"child_processes": spawned, "harness_seconds": time.Since(t0).Seconds(),
		"capability_subsets": "all 256 subsets of {sync, unicode, colortheme, inband, kittykb, sixel, explicitwidth, osc176} x DisableMouse"}
	cfg.Write("C04", "sessions on a real Vaxis over hx.FakeConsole: every subset of the 8 mode-relevant capabilities x DisableMouse with a generated session (frames with styled/hyperlinked cells, Render, Refresh, ShowCursor/HideCursor, SetMouseShape, SetAppID, Suspend/Resume cycles) ending in Close or Suspend; quirk environment variables; cursor-style replies; kitty flag options; fixed Suspend/Resume cycles on kitty-keyboard terminals with every combination of empty / non-empty main- and alternate-screen flag stacks; a terminal that implements ?2048 silently; SIGTERM and a panic in the input goroutine in child processes; Suspend/Close while suspended (recorded finding); New on a console whose size cannot be read (error path of New); overlapped shutdown: SIGTERM / injected panic in a child whose console withholds the DA1 answer while the application issues 0-4 Close calls of its own, then answers, then 0-2 more Close calls. non-trivial = some capability/option-conditional branch of enableModes/disableModes is taken or the session has a Suspend/Resume cycle; distinct by the whole case",
		[]*hx.Stream{st, sf, so}, extra, direct)
}
