// Harness for C09: runs the real decodeKey / Key.Matches / Key.MatchString /
// Key.String (and, for the pipeline stream, a real Vaxis fed through a fake
// console) and writes Coq case files for model/Keys.v.
package main

import (
	"fmt"
	"os"
	"sort"
	"strings"
	"time"
	"unicode"
	"unicode/utf8"

	vaxis "git.sr.ht/~rockorager/vaxis"
	"git.sr.ht/~rockorager/vaxis/ansi"
	"verif/harness/hx"
	"verif/harness/parsehx"
)

// ---------- the unicode oracle, from Go's own tables ----------

type uinfo struct {
	flags        int
	up, lo, fold rune
}

func foldRep(r rune) rune {
	if r < 0 || r > unicode.MaxRune {
		return r
	}
	min := r
	for x := unicode.SimpleFold(r); x != r; x = unicode.SimpleFold(x) {
		if x < min {
			min = x
		}
	}
	return min
}

func info(r rune) uinfo {
	f := 0
	if unicode.IsUpper(r) {
		f |= 1
	}
	if unicode.IsLower(r) {
		f |= 2
	}
	if unicode.IsLetter(r) {
		f |= 4
	}
	if unicode.IsGraphic(r) {
		f |= 8
	}
	if unicode.IsPrint(r) {
		f |= 16
	}
	return uinfo{f, unicode.ToUpper(r), unicode.ToLower(r), foldRep(r)}
}

func (i uinfo) term() string {
	return hx.Tuple(hx.Z(int64(i.flags)), hx.Z(int64(i.up)), hx.Z(int64(i.lo)), hx.Z(int64(i.fold)))
}

// table of the oracle values of the given runes and of their case mappings
// (ASCII and out-of-range runes are built into the model and omitted)
func utab(rs ...rune) string {
	set := map[rune]bool{}
	var add func(r rune, depth int)
	add = func(r rune, depth int) {
		if r >= 0 && r < 128 || r < 0 || r > unicode.MaxRune || set[r] {
			return
		}
		set[r] = true
		if depth > 0 {
			add(unicode.ToUpper(r), depth-1)
			add(unicode.ToLower(r), depth-1)
		}
	}
	for _, r := range rs {
		add(r, 2)
	}
	keys := make([]rune, 0, len(set))
	for r := range set {
		keys = append(keys, r)
	}
	sort.Slice(keys, func(i, j int) bool { return keys[i] < keys[j] })
	items := make([]string, len(keys))
	for i, r := range keys {
		items[i] = hx.Tuple(hx.Z(int64(r)), info(r).term())
	}
	return hx.List(items)
}

// ---------- Coq printers ----------

func keyTerm(k vaxis.Key) string {
	return fmt.Sprintf("(mkKey %s %s %s %s %s %s)", hx.Runes(k.Text), hx.Z(int64(k.Keycode)), hx.Z(int64(k.ShiftedCode)),
		hx.Z(int64(k.BaseLayoutCode)), hx.Z(int64(k.Modifiers)), hx.Z(int64(k.EventType)))
}

func keyJSON(k vaxis.Key) map[string]interface{} {
	return map[string]interface{}{"text": k.Text, "keycode": k.Keycode, "shifted": k.ShiftedCode, "base": k.BaseLayoutCode,
		"mods": int(k.Modifiers), "event": int(k.EventType)}
}

func keyRunes(k vaxis.Key) []rune {
	rs := []rune{k.Keycode, k.ShiftedCode, k.BaseLayoutCode}
	rs = append(rs, []rune(k.Text)...)
	return rs
}

func paramsTerm(p [][]int) string {
	items := make([]string, len(p))
	for i, pm := range p {
		items[i] = hx.IntList(pm)
	}
	return hx.List(items)
}

func seqTerm(s ansi.Sequence) string {
	switch s := s.(type) {
	case ansi.Print:
		return "(SPrint " + hx.Runes(s.Grapheme) + ")"
	case ansi.C0:
		return "(SC0 " + hx.Z(int64(s)) + ")"
	case ansi.ESC:
		return "(SESC " + hx.RuneSlice(s.Intermediate) + " " + hx.Z(int64(s.Final)) + ")"
	case ansi.SS3:
		return "(SSS3 " + hx.Z(int64(s)) + ")"
	case ansi.CSI:
		return "(SCSI " + hx.RuneSlice(s.Intermediate) + " " + paramsTerm(s.Parameters) + " " + hx.Z(int64(s.Final)) + ")"
	}
	return "SOther"
}

func seqJSON(s ansi.Sequence) interface{} {
	switch s := s.(type) {
	case ansi.Print:
		return map[string]interface{}{"print": s.Grapheme}
	case ansi.C0:
		return map[string]interface{}{"c0": int(s)}
	case ansi.ESC:
		return map[string]interface{}{"esc": string(s.Final), "intermediate": string(s.Intermediate)}
	case ansi.SS3:
		return map[string]interface{}{"ss3": string(rune(s))}
	case ansi.CSI:
		return map[string]interface{}{"csi": s.Parameters, "final": string(s.Final), "intermediate": string(s.Intermediate)}
	}
	return fmt.Sprintf("%T", s)
}

// ---------- encodings (mirror of the Coq type [encoding]) ----------

type shape struct {
	n, s, b, n0 int
	m, e, n1    int
	tx          []int
	hasTx       bool
	fin         rune
}

func (x shape) params() [][]int {
	p0 := []int{x.n}
	if x.n0 >= 1 {
		p0 = append(p0, x.s)
	}
	if x.n0 >= 2 {
		p0 = append(p0, x.b)
	}
	p1 := []int{0}
	if x.n1 == 1 {
		p1 = []int{x.m}
	} else if x.n1 >= 2 {
		p1 = []int{x.m, x.e}
	}
	if x.hasTx {
		tx := append([]int{}, x.tx...)
		return [][]int{p0, p1, tx}
	}
	if x.n1 == 0 {
		return [][]int{p0}
	}
	return [][]int{p0, p1}
}

func (x shape) term() string {
	tx := hx.None
	if x.hasTx {
		tx = hx.Some(hx.IntList(x.tx))
	}
	return fmt.Sprintf("(EShape (mkShape %d %d %d %d %d %d %d %s %d))", x.n, x.s, x.b, x.n0, x.m, x.e, x.n1, tx, x.fin)
}

// wire bytes of a shape, as a terminal would send them (0 sub-fields are sent empty when
// they are not the last of their parameter, to exercise the parser's empty fields)
func (x shape) bytes(emptyZero bool) string {
	num := func(v int, last bool) string {
		if v == 0 && emptyZero && !last {
			return ""
		}
		return fmt.Sprint(v)
	}
	join := func(p []int) string {
		s := make([]string, len(p))
		for i, v := range p {
			s[i] = num(v, i == len(p)-1)
		}
		return strings.Join(s, ":")
	}
	ps := x.params()
	parts := make([]string, len(ps))
	for i, p := range ps {
		parts[i] = join(p)
	}
	return "\x1b[" + strings.Join(parts, ";") + string(x.fin)
}

type harness struct {
	cfg     *hx.Config
	oracle  *hx.Stream
	decode  *hx.Stream
	match   *hx.Stream
	str     *hx.Stream
	mstring *hx.Stream
	cross   *hx.Stream
	desc    *hx.Stream
	pipe    *hx.Stream
	stream  *hx.Stream
	streamRetries int
	streamDirect  []hx.DirectViolation
	keys    []vaxis.Key // decoded keys, reused as events by the other streams
	names   []vaxis.VerifKeyName
	special []vaxis.VerifSpecialKey
}

func (h *harness) pick(n int) int { return h.cfg.Rand.Intn(n) }

var sampleRunes = []rune{
	0xA0, 0xAA, 0xB5, 0xBA, 0xC0, 0xC9, 0xD7, 0xDF, 0xE0, 0xE9, 0xF7, 0xFF, // Latin-1
	0x100, 0x101, 0x130, 0x131, 0x149, 0x178, 0x17F, 0x1C4, 0x1C5, 0x1C6, 0x1F0, // Latin extended, title case
	0x386, 0x391, 0x3A3, 0x3B1, 0x3C2, 0x3C3, 0x3A9, 0x3C9, 0x3D0, // Greek
	0x410, 0x416, 0x42F, 0x430, 0x436, 0x44F, 0x401, 0x451, 0x444, // Cyrillic
	0x531, 0x561, 0x10A0, 0x10D0, 0x2D00, 0x1C90, // Armenian, Georgian
	0x5D0, 0x627, 0x905, 0xE01, 0x3042, 0x30A2, 0x4E2D, 0xAC00, // caseless scripts
	0x2126, 0x212A, 0x212B, 0x2160, 0x2170, 0x24B6, 0x24D0, // Ohm, Kelvin, Angstrom, Roman numerals, circled
	0xFF21, 0xFF41, 0xFF01, 0x10400, 0x10428, 0x1E900, 0x1E922, // fullwidth, Deseret, Adlam
	0x300, 0x200B, 0x200D, 0x2028, 0xAD, 0x85, 0x9F, 0x80, // combining, format, separators, C1
	0x20AC, 0x2603, 0x1F600, 0x1F1FA, 0xE000, 0xF8FF, 0xFFFD, 0xFFFE, 0x10FFFF, // symbols, emoji, private use
}

func (h *harness) randRune() rune {
	switch h.pick(10) {
	case 0, 1, 2, 3:
		return rune(0x20 + h.pick(0x60))
	case 4, 5, 6:
		return sampleRunes[h.pick(len(sampleRunes))]
	case 7:
		return h.names[h.pick(len(h.names))].Key
	case 8:
		return rune(h.pick(0x3000))
	}
	return rune(h.pick(0x110000))
}

// ---------- oracle stream ----------

func (h *harness) genOracle() {
	add := func(r rune, tag string) {
		i := info(r)
		h.oracle.Add(hx.Tuple(hx.Z(int64(r)), i.term()),
			map[string]interface{}{"rune": r, "flags": i.flags, "upper": i.up, "lower": i.lo, "fold": i.fold},
			i.flags != 0 || i.up != r || i.lo != r, tag)
	}
	for r := rune(0); r < 128; r++ {
		add(r, "ascii")
	}
	for _, r := range []rune{-1, -2147483648, 0x110000, 0x110001, 2147483647} {
		add(r, "out-of-range")
	}
	for _, kn := range h.names {
		add(kn.Key, "named-key")
	}
	step := rune(37)
	if h.cfg.Thorough() {
		step = 1
	}
	// every rune that is lower case (hypothesis: ToUpper of it is never an ASCII non-letter)
	for r := rune(128); r <= unicode.MaxRune; r += step {
		if unicode.IsLower(r) || unicode.ToUpper(r) < 128 || unicode.ToLower(r) < 128 {
			add(r, "lower-or-maps-to-ascii")
		}
	}
	for _, r := range sampleRunes {
		add(r, "sample")
	}
}

// ---------- decode stream ----------

func (h *harness) addDecode(enc string, encJS interface{}, seq ansi.Sequence, nontrivial bool, tags ...string) vaxis.Key {
	// decodeKey may overwrite seq.Parameters of its own copy only; print the term first
	st := seqTerm(seq)
	sj := seqJSON(seq)
	var k vaxis.Key
	panicked, msg := hx.Catch(func() { k = vaxis.VerifDecodeKey(seq) })
	if panicked {
		// decodeKey has no panicking path in the model; make it visible as a mismatch
		k = vaxis.Key{Keycode: -424242, Text: "panic: " + msg}
	}
	var first rune
	if p, ok := seq.(ansi.Print); ok {
		for _, r := range p.Grapheme {
			first = r
			break
		}
	}
	rs := append(keyRunes(k), first)
	if c, ok := seq.(ansi.CSI); ok {
		for _, pm := range c.Parameters {
			for _, p := range pm {
				rs = append(rs, rune(p))
			}
		}
	}
	encT := hx.None
	if enc != "" {
		encT = hx.Some(enc)
	}
	js := map[string]interface{}{"sequence": sj, "encoding": encJS, "key": keyJSON(k), "string": k.String()}
	if cl := decodeClass(seq, k); cl != "" {
		js["class"] = cl
	}
	h.decode.Add(hx.Tuple(utab(rs...), encT, st, keyTerm(k)), js, nontrivial, tags...)
	h.keys = append(h.keys, k)
	return k
}

// classes of recorded findings for the decode stream (none at present)
func decodeClass(seq ansi.Sequence, k vaxis.Key) string { return "" }

func (h *harness) decodeShape(x shape, tags ...string) vaxis.Key {
	return h.addDecode(x.term(), map[string]interface{}{"csi_shape": fmt.Sprintf("%+v", x), "bytes": x.bytes(false)},
		ansi.CSI{Parameters: x.params(), Final: x.fin}, true, tags...)
}

func (h *harness) genDecode() {
	th := h.cfg.Thorough()
	// legacy bytes: every ASCII character, DEL, a sample of other scripts, clusters
	for r := rune(0x20); r <= 0x7F; r++ {
		g := string(r)
		h.addDecode("(EPrint "+hx.Runes(g)+")", g, ansi.Print{Grapheme: g, Width: 1}, unicode.IsUpper(r) || r == 0x7F, "legacy-byte")
	}
	for _, r := range sampleRunes {
		g := string(r)
		h.addDecode("(EPrint "+hx.Runes(g)+")", g, ansi.Print{Grapheme: g, Width: 1}, unicode.IsUpper(r), "print-unicode")
	}
	for _, g := range []string{"", "é", "É", "\U0001F1FA\U0001F1F8", "Ж́", "Å", "\U0001F468‍\U0001F469", "\x7fx", "ab"} {
		h.addDecode("(EPrint "+hx.Runes(g)+")", g, ansi.Print{Grapheme: g, Width: 1}, true, "print-cluster")
	}
	// C0
	for b := 0; b < 32; b++ {
		h.addDecode(fmt.Sprintf("(EC0 %d)", b), b, ansi.C0(b), true, "c0")
	}
	for _, b := range []int{32, 127, 128, 159, -1, 1 << 20} {
		h.addDecode("", nil, ansi.C0(b), false, "c0-out-of-range")
	}
	// ESC-prefixed
	for r := rune(0x20); r <= 0x7F; r++ {
		h.addDecode(fmt.Sprintf("(EEsc %d)", r), string(r), ansi.ESC{Final: r}, true, "esc")
	}
	for _, r := range sampleRunes[:20] {
		h.addDecode(fmt.Sprintf("(EEsc %d)", r), string(r), ansi.ESC{Final: r}, true, "esc")
	}
	h.addDecode("", nil, ansi.ESC{Intermediate: []rune{'('}, Final: 'B'}, false, "esc-intermediate")
	// SS3
	for r := rune(0x40); r <= 0x7E; r++ {
		h.addDecode(fmt.Sprintf("(ESs3 %d)", r), string(r), ansi.SS3(r), true, "ss3")
	}
	// other sequence types
	h.addDecode("", nil, ansi.DCS{Final: 'q'}, false, "other")
	h.addDecode("", nil, ansi.EOF{}, false, "other")

	// CSI: every entry of specialsKeys, every field layout
	masks := []int{0, 1, 2, 5, 6, 17, 33, 65, 130, 257}
	if th {
		masks = nil
		for m := 0; m <= 257; m++ {
			masks = append(masks, m)
		}
	}
	events := []int{0, 1, 2, 3, 4, 5}
	sort.Slice(h.special, func(i, j int) bool {
		a, b := h.special[i], h.special[j]
		return a.Final < b.Final || a.Final == b.Final && a.Code < b.Code
	})
	for _, sk := range h.special {
		for _, m := range masks {
			x := shape{n: int(sk.Code), fin: sk.Final, m: m, n1: 1}
			h.decodeShape(x, "csi-special-mods")
		}
		h.decodeShape(shape{n: int(sk.Code), fin: sk.Final}, "csi-special-plain")
		for _, e := range events {
			h.decodeShape(shape{n: int(sk.Code), fin: sk.Final, m: 1 + h.pick(256), e: e, n1: 2}, "csi-special-event")
		}
	}
	// letter finals with and without the 1, including back-tab
	for fin := rune('A'); fin <= 'Z'; fin++ {
		h.addDecode("", nil, ansi.CSI{Final: fin}, true, "csi-letter-noparam")
		for _, m := range masks {
			h.decodeShape(shape{n: 1, fin: fin, m: m, n1: 1}, "csi-letter-mods")
		}
		h.decodeShape(shape{n: 1, fin: fin, m: 1 + h.pick(256), e: h.pick(4), n1: 2}, "csi-letter-event")
		h.decodeShape(shape{n: 2 + h.pick(30), fin: fin, m: 1 + h.pick(256), n1: 1}, "csi-letter-not1")
	}
	// CSI u, ASCII key codes
	ncodes := 128
	for c := 0; c < ncodes; c++ {
		cm := masks
		if !th {
			cm = []int{0, 1, 2, 1 + h.pick(256), 1 + h.pick(256)}
		}
		for _, m := range cm {
			h.decodeShape(shape{n: c, fin: 'u', m: m, n1: 1}, "csi-u-ascii-mods")
		}
		up := int(unicode.ToUpper(rune(c)))
		// all 2^5 layouts of the optional fields
		for lay := 0; lay < 3*3*3; lay++ {
			x := shape{n: c, fin: 'u', n0: lay % 3, n1: (lay / 3) % 3, s: up, b: c, m: 1 + []int{0, 1, 64, 129, 4, 2}[h.pick(6)], e: 1 + h.pick(3)}
			if h.pick(4) == 0 {
				x.s = 0 // empty shifted field, base present
			}
			if h.pick(6) == 0 {
				x.m = 0
			}
			if h.pick(6) == 0 {
				x.e = 0 // empty event-type field
			}
			switch lay / 9 {
			case 1:
				x.hasTx = true
				x.tx = []int{c}
				if x.m == 2 {
					x.tx = []int{up}
				}
			case 2:
				x.hasTx = true
				if h.pick(2) == 0 {
					x.tx = []int{}
				} else {
					x.tx = []int{c, 0x301}
				}
			}
			if !th && c%4 != 0 && lay%5 != c%5 {
				continue
			}
			h.decodeShape(x, "csi-u-layouts")
		}
	}
	// 256 masks on a few keys
	for m := 0; m <= 257; m++ {
		for _, c := range []int{'a', ' ', 9, 57399} {
			if th || c == 'a' || m%4 == c%4 {
				h.decodeShape(shape{n: c, fin: 'u', m: m, n1: 1}, "csi-u-allmasks")
			}
		}
		h.decodeShape(shape{n: 1, fin: 'A', m: m, n1: 1}, "csi-u-allmasks")
		if th || m%2 == 0 {
			h.decodeShape(shape{n: 3, fin: '~', m: m, n1: 1}, "csi-u-allmasks")
		}
	}
	// other scripts and boundary code points
	codes := append([]rune{}, sampleRunes...)
	codes = append(codes, 0xD800, 0xDFFF, 0x110000, 0x110001, 57343, 57344, 57357, 57364, 57375, 57455, 63743, 2147483647)
	for _, kn := range h.names {
		codes = append(codes, kn.Key)
	}
	for _, c := range codes {
		up, lo := int(unicode.ToUpper(c)), int(unicode.ToLower(c))
		h.decodeShape(shape{n: int(c), fin: 'u'}, "csi-u-unicode")
		h.decodeShape(shape{n: int(c), fin: 'u', m: 2, n1: 1}, "csi-u-unicode")
		h.decodeShape(shape{n: lo, fin: 'u', s: up, n0: 1, m: 2, n1: 1, hasTx: true, tx: []int{up}}, "csi-u-unicode")
		h.decodeShape(shape{n: lo, fin: 'u', s: up, b: 'a' + h.pick(26), n0: 2, m: 1 + h.pick(256), e: h.pick(4), n1: 2, hasTx: true, tx: []int{int(c), 0x110000, 0xD800}}, "csi-u-unicode")
		h.decodeShape(shape{n: int(c), fin: '~', m: 1 + h.pick(64), n1: 1}, "csi-tilde-unicode")
	}
	// xterm modifyOtherKeys
	for _, k := range []int{9, 13, 27, 32, 'a', 'A', '1', 127, 0x416} {
		for _, m := range []int{0, 1, 2, 5, 6, 8, 16} {
			h.addDecode(fmt.Sprintf("(EOtherKeys %d %d)", m, k), fmt.Sprintf("CSI 27;%d;%d~", m, k),
				ansi.CSI{Parameters: [][]int{{27}, {m}, {k}}, Final: '~'}, true, "other-keys")
		}
	}
	// random well-formed shapes
	n := 400
	if th {
		n = 40000
	}
	finals := []rune{'u', 'u', 'u', '~', '~', 'A', 'B', 'H', 'P', 'Z', 'E', 'R', 'x', 'u'}
	for i := 0; i < n; i++ {
		x := shape{fin: finals[h.pick(len(finals))], n0: h.pick(3), n1: h.pick(3), m: h.pick(258), e: h.pick(5)}
		switch h.pick(4) {
		case 0:
			sk := h.special[h.pick(len(h.special))]
			x.n, x.fin = int(sk.Code), sk.Final
		case 1:
			x.n = int(h.randRune())
		case 2:
			x.n = h.pick(128)
		default:
			x.n = []int{0, 1, 9, 13, 27, 127, 57427, 2147483647}[h.pick(8)]
		}
		if x.n < 0 {
			x.n = 0
		}
		x.s = int(unicode.ToUpper(rune(x.n)))
		if h.pick(3) == 0 {
			x.s = h.pick(0x3000)
		}
		x.b = []int{0, 'a' + h.pick(26), x.n}[h.pick(3)]
		if h.pick(3) == 0 {
			x.hasTx = true
			for j := h.pick(4); j > 0; j-- {
				x.tx = append(x.tx, int(h.randRune()))
			}
		}
		if x.n == 27 && x.fin == '~' && len(x.tx) > 0 {
			x.fin = 'u'
		}
		if x.n == 1 && x.fin == 'Z' && (x.n1 == 0 && x.hasTx || x.n1 > 0 && x.m == 0) {
			x.m, x.n1 = 1+h.pick(64), 1
		}
		h.decodeShape(x, "csi-random-shape")
	}
	// raw CSI outside the shape grammar: empty parameter lists, extra parameters and
	// sub-parameters, negative and >32-bit numbers, intermediates
	raw := [][][]int{
		{}, {{}}, {{}, {}}, {{106}, {}, {106}}, {{97, 65, 97, 5}, {2, 1, 7}, {65}, {66}}, {{97}, {2}, {}, {3}},
		{{-1}}, {{97}, {-5}}, {{97}, {0, -3}}, {{4294967297}, {2}}, {{4294967393}}, {{97, 4294967361}}, {{97}, {4294967298}},
		{{97}, {9223372036854775807}}, {{97}, {-9223372036854775808}}, {{97}, {1, -9223372036854775808}}, {{2147483648}}, {{97}, {1}, {2147483745, -1}},
		{{1}, {0}}, {{1}, {}}, {{1}, {0}, {97}}, {{1, 2, 3}, {5}}, {{27}, {5}, {}}, {{27}, {5}, {13, 14}}, {{27}, {}, {9}},
	}
	for _, p := range raw {
		for _, fin := range []rune{'u', '~', 'Z', 'A'} {
			cp := make([][]int, len(p))
			for i := range p {
				cp[i] = append([]int(nil), p[i]...)
			}
			var params [][]int
			if len(cp) > 0 {
				params = cp
			}
			h.addDecode("", nil, ansi.CSI{Parameters: params, Final: fin}, true, "csi-raw")
		}
	}
	h.addDecode("", nil, ansi.CSI{Intermediate: []rune{'?'}, Parameters: [][]int{{97}, {5}}, Final: 'u'}, true, "csi-raw")
	for i := 0; i < n/2; i++ {
		var params [][]int
		for j := h.pick(5); j > 0; j-- {
			var pm []int
			for l := h.pick(5); l > 0; l-- {
				v := h.pick(300)
				switch h.pick(8) {
				case 0:
					v = int(h.randRune())
				case 1:
					v = -h.pick(5)
				case 2:
					v = 1<<32 + h.pick(200)
				}
				pm = append(pm, v)
			}
			params = append(params, pm)
		}
		h.addDecode("", nil, ansi.CSI{Parameters: params, Final: finals[h.pick(len(finals))]}, true, "csi-raw-random")
	}
}

// ---------- match stream ----------

func (h *harness) addMatch(k vaxis.Key, r rune, mods int, l1, l2 int, tags ...string) {
	obs := k.Matches(r, vaxis.ModifierMask(mods))
	k2 := k
	k2.Modifiers ^= vaxis.ModifierMask(l1)
	obs2 := k2.Matches(r, vaxis.ModifierMask(mods^l2))
	rs := append(keyRunes(k), r)
	h.match.Add(hx.Tuple(utab(rs...), keyTerm(k), hx.Z(int64(r)), hx.Z(int64(mods)), hx.Z(int64(l1)), hx.Z(int64(l2)), hx.Bool(obs), hx.Bool(obs2)),
		map[string]interface{}{"key": keyJSON(k), "binding_rune": r, "binding_mods": mods, "lock_toggle_key": l1, "lock_toggle_binding": l2,
			"matches": obs, "matches_with_locks_toggled": obs2},
		obs, tags...)
}

func (h *harness) relatedRunes(k vaxis.Key) []rune {
	rs := []rune{k.Keycode, k.ShiftedCode, k.BaseLayoutCode, unicode.ToUpper(k.Keycode), unicode.ToLower(k.Keycode),
		unicode.ToLower(k.ShiftedCode)}
	for _, r := range k.Text {
		rs = append(rs, r, unicode.ToLower(r), unicode.ToUpper(r))
	}
	return rs
}

func (h *harness) genMatch() {
	th := h.cfg.Thorough()
	locks := []int{0, 64, 128, 192}
	// events: a spread of the decoded keys plus synthetic ones
	var evs []vaxis.Key
	stride := len(h.keys)/200 + 1
	if th {
		stride = len(h.keys)/6000 + 1
	}
	for i := 0; i < len(h.keys); i += stride {
		evs = append(evs, h.keys[i])
	}
	synth := 120
	if th {
		synth = 4000
	}
	for i := 0; i < synth; i++ {
		k := vaxis.Key{Keycode: h.randRune(), Modifiers: vaxis.ModifierMask(h.pick(256)), EventType: vaxis.EventType(h.pick(3))}
		if h.pick(2) == 0 {
			k.ShiftedCode = unicode.ToUpper(k.Keycode)
		}
		if h.pick(3) == 0 {
			k.ShiftedCode = h.randRune()
		}
		if h.pick(3) == 0 {
			k.BaseLayoutCode = h.randRune()
		}
		switch h.pick(4) {
		case 0:
			k.Text = string(k.Keycode)
		case 1:
			k.Text = string(unicode.ToUpper(k.Keycode))
		case 2:
			k.Text = string([]rune{h.randRune(), 0x301})
		}
		if !utf8.ValidString(k.Text) || strings.ContainsRune(k.Text, 0xFFFD) && h.pick(2) == 0 {
			k.Text = ""
		}
		evs = append(evs, k)
	}
	for _, k := range evs {
		km := int(k.Modifiers)
		// the chord itself, with every lock combination on either side
		h.addMatch(k, k.Keycode, km, locks[h.pick(4)], locks[h.pick(4)], "self")
		rel := h.relatedRunes(k)
		for _, r := range rel {
			for _, m := range []int{km, km ^ 1, km &^ 1, km | 1, km &^ 192, km ^ (1 << uint(1+h.pick(5))), 0} {
				if !th && h.pick(5) != 0 {
					continue
				}
				h.addMatch(k, r, m, locks[h.pick(4)], locks[h.pick(4)], "related")
			}
		}
		for i := 0; i < 2; i++ {
			h.addMatch(k, h.randRune(), h.pick(256), locks[h.pick(4)], locks[h.pick(4)], "random")
		}
	}
	// all 256 x 256 masks on one letter would be 65536 cases: all binding masks against a
	// few events, and all event masks against a few bindings
	few := []vaxis.Key{
		{Keycode: 'a', Text: "a"}, {Keycode: 'a', ShiftedCode: 'A', Text: "A", Modifiers: vaxis.ModShift},
		{Keycode: ';', ShiftedCode: ':', Text: ":", Modifiers: vaxis.ModShift}, {Keycode: vaxis.KeyTab, Modifiers: vaxis.ModShift},
		{Keycode: vaxis.KeyUp, Modifiers: vaxis.ModCtrl | vaxis.ModHyper},
	}
	for _, k := range few {
		for m := 0; m < 256; m++ {
			if !th && m%3 != 0 && m > 8 {
				continue
			}
			for _, r := range []rune{k.Keycode, k.ShiftedCode} {
				h.addMatch(k, r, m, 0, locks[1+h.pick(3)], "all-binding-masks")
			}
			k2 := k
			k2.Modifiers = vaxis.ModifierMask(m)
			h.addMatch(k2, k.Keycode, int(k.Modifiers), locks[1+h.pick(3)], 0, "all-event-masks")
		}
	}
}

// ---------- string and binding-string streams ----------

// String() does not look at Caps Lock for these key codes (mirror of caps_blind in model/Keys.v)
func capsBlind(c rune) bool {
	return c > unicode.MaxRune || c < 32 || c == vaxis.KeySpace || c == vaxis.KeyBackspace
}

// a variation of k that String() must not distinguish from k: other text and alternate codes, Num Lock
// toggled, press <-> repeat, Caps Lock toggled where String() does not look at it, and the two code
// points of Backspace (BS, DEL) exchanged
func (h *harness) stringTwin(k vaxis.Key) vaxis.Key {
	t := k
	switch {
	case k.Keycode == 8:
		t.Keycode = vaxis.KeyBackspace
	case k.Keycode == vaxis.KeyBackspace && h.pick(2) == 0:
		t.Keycode = 8
	}
	if h.pick(2) == 0 {
		t.Modifiers ^= vaxis.ModNumLock
	}
	if capsBlind(k.Keycode) && capsBlind(t.Keycode) && h.pick(2) == 0 {
		t.Modifiers ^= vaxis.ModCapsLock
	}
	switch h.pick(3) {
	case 0:
		t.Text = ""
	case 1:
		t.Text = "x"
	}
	if h.pick(2) == 0 {
		t.ShiftedCode, t.BaseLayoutCode = rune(0x21+h.pick(0x5E)), rune(h.pick(0x7F))
	}
	if k.EventType != vaxis.EventRelease {
		t.EventType = []vaxis.EventType{vaxis.EventPress, vaxis.EventRepeat}[h.pick(2)]
	}
	return t
}

func (h *harness) addString(k vaxis.Key, tags ...string) {
	s := k.String()
	ms := k.MatchString(s)
	k2 := h.stringTwin(k)
	s2 := k2.String()
	rs := append(keyRunes(k), []rune(s)...)
	rs = append(append(rs, keyRunes(k2)...), []rune(s2)...)
	js := map[string]interface{}{"key": keyJSON(k), "string": s, "matchstring_of_own_string": ms,
		"variation": keyJSON(k2), "variation_string": s2}
	if cl := stringClass(k, s, ms); cl != "" {
		js["class"] = cl
	}
	h.str.Add(hx.Tuple(utab(rs...), keyTerm(k), hx.Runes(s), hx.Bool(ms), keyTerm(k2), hx.Runes(s2)), js, len(s) > 1, tags...)
}

// recorded findings of the string stream
func stringClass(k vaxis.Key, s string, ms bool) string {
	if k.Keycode == vaxis.KeyPrintScreen {
		return "keyname-print-duplicate"
	}
	return ""
}

var modNames = []struct {
	bit  int
	name string
}{{32, "Meta"}, {16, "Hyper"}, {8, "Super"}, {4, "Ctrl"}, {2, "Alt"}, {1, "Shift"}, {64, "Caps"}, {128, "Num"}}

func (h *harness) bindingString(mask int, name string) string {
	var parts []string
	for _, mn := range modNames {
		if mask&mn.bit != 0 {
			n := mn.name
			switch h.pick(4) {
			case 0:
				n = strings.ToLower(n)
			case 1:
				n = strings.ToUpper(n)
			}
			parts = append(parts, n)
		}
	}
	// any order
	h.cfg.Rand.Shuffle(len(parts), func(i, j int) { parts[i], parts[j] = parts[j], parts[i] })
	parts = append(parts, name)
	return strings.Join(parts, "+")
}

func (h *harness) addMString(k vaxis.Key, tgt string, printed bool, mask int, r rune, class string, tags ...string) {
	obs := k.MatchString(tgt)
	b := hx.None
	js := map[string]interface{}{"key": keyJSON(k), "binding": tgt, "matchstring": obs}
	if printed {
		direct := k.Matches(r, vaxis.ModifierMask(mask))
		b = hx.Some(hx.Tuple(hx.Z(int64(mask)), hx.Z(int64(r)), hx.Bool(direct)))
		js["binding_mods"], js["binding_rune"], js["matches"] = mask, r, direct
	}
	if class != "" {
		js["class"] = class
	}
	rs := append(keyRunes(k), []rune(tgt)...)
	for _, x := range tgt {
		rs = append(rs, unicode.ToUpper(x))
	}
	h.mstring.Add(hx.Tuple(utab(rs...), keyTerm(k), hx.Runes(tgt), b, hx.Bool(obs)), js, obs, tags...)
}

func (h *harness) genStrings() {
	th := h.cfg.Thorough()
	stride := len(h.keys)/500 + 1
	if th {
		stride = len(h.keys)/8000 + 1
	}
	for i := 0; i < len(h.keys); i += stride {
		h.addString(h.keys[i], "decoded")
	}
	// every named key, every ASCII code, with a few masks and event types
	for _, kn := range h.names {
		for _, m := range []int{0, 1, 4, 16, 63, 64, 128, h.pick(256)} {
			h.addString(vaxis.Key{Keycode: kn.Key, Modifiers: vaxis.ModifierMask(m)}, "named")
		}
		h.addString(vaxis.Key{Keycode: kn.Key, Modifiers: vaxis.ModifierMask(h.pick(256)), EventType: vaxis.EventRelease}, "named-release")
	}
	for c := rune(-2); c < 130; c++ {
		for _, m := range []int{0, 1, 6, 16, 64, h.pick(256)} {
			k := vaxis.Key{Keycode: c, Modifiers: vaxis.ModifierMask(m), EventType: vaxis.EventType(h.pick(3))}
			if c >= 0x20 {
				k.Text = string(c)
			}
			h.addString(k, "ascii")
		}
	}
	for _, c := range append(append([]rune{}, sampleRunes...), 0xD800, 0x110000, vaxis.KeyF63+1, vaxis.KeyKeyPadBegin+1, 2147483647, -2147483648) {
		h.addString(vaxis.Key{Keycode: c, Modifiers: vaxis.ModifierMask(h.pick(256))}, "unicode")
		h.addString(vaxis.Key{Keycode: c, Modifiers: vaxis.ModCapsLock}, "unicode-caps")
	}

	// binding strings printed from (mask, name) for a sample of events
	var evs []vaxis.Key
	for i := 0; i < len(h.keys); i += len(h.keys)/40 + 1 {
		evs = append(evs, h.keys[i])
	}
	nameKey := func(i int) (string, rune, string) {
		kn := h.names[i]
		cl := ""
		if kn.Key == vaxis.KeyPrintScreen {
			cl = "keyname-print-duplicate"
		}
		return kn.Name, kn.Key, cl
	}
	reps := 1
	if th {
		reps = 12
	}
	for rep := 0; rep < reps; rep++ {
		for i := range h.names {
			name, key, cl := nameKey(i)
			mask := h.pick(256)
			if rep == 0 {
				mask = []int{0, 1, 2, 4, 8, 16, 32, 64, 128}[i%9]
			}
			// an event that should match, and an unrelated one
			ev := vaxis.Key{Keycode: key, Modifiers: vaxis.ModifierMask(mask &^ 192)}
			switch h.pick(3) {
			case 0:
				name = strings.ToLower(name)
			case 1:
				name = strings.ToUpper(name)
			}
			h.addMString(ev, h.bindingString(mask, name), true, mask, key, cl, "named-binding")
			h.addMString(evs[h.pick(len(evs))], h.bindingString(mask, name), true, mask, key, cl, "named-binding-other-event")
		}
	}
	for c := rune(0x20); c < 0x7F; c++ {
		for _, mask := range []int{0, 1, 4, 16, 22, h.pick(256)} {
			cl := ""
			if c == '+' && mask != 0 {
				cl = "plus-binding"
			}
			ev := vaxis.Key{Keycode: unicode.ToLower(c), Modifiers: vaxis.ModifierMask(mask &^ 192)}
			if unicode.IsUpper(c) {
				ev.ShiftedCode = c
				ev.Modifiers |= vaxis.ModShift
			}
			h.addMString(ev, h.bindingString(mask, string(c)), true, mask, c, cl, "rune-binding")
		}
	}
	for _, c := range sampleRunes {
		if !utf8.ValidRune(c) {
			continue
		}
		mask := h.pick(64)
		ev := vaxis.Key{Keycode: c, Modifiers: vaxis.ModifierMask(mask), Text: string(c)}
		h.addMString(ev, h.bindingString(mask, string(c)), true, mask, c, "", "unicode-binding")
	}
	// strings outside the printed form
	junk := []string{"", "+", "++", "a+", "+a", "Ctrl+", "Ctrl++a", "shift+alt", "foo+a", "Foo", "ctrl+Foo", "Ctrl+ab", "Up+Ctrl", "ctrl+up+down",
		"BacKSpace", "ctrl+ſpace", "ſhift+a", "SHİFT+a", "alt+K", "Ctrl+éé", "É", "ctrl+É", "hyper+hyper+a",
		"Ctrl +a", " ", "Shift+ ", "space", "Shift+space", "Shift+Tab", "shift+BACKSPACE", "Ctrl+F1", "ctrl+f63", "ctrl+f64", "Print", "escape", "Alt+Enter",
		"Ctrl+ß", "\U0001F600", "Ctrl+\U0001F600", "á"}
	for _, tgt := range junk {
		for j := 0; j < 3; j++ {
			h.addMString(evs[h.pick(len(evs))], tgt, false, 0, 0, "", "junk-binding")
		}
		h.addMString(vaxis.Key{Keycode: 'a', Modifiers: vaxis.ModCtrl}, tgt, false, 0, 0, "", "junk-binding")
		h.addMString(vaxis.Key{Keycode: vaxis.KeySpace, Text: " "}, tgt, false, 0, 0, "", "junk-binding")
		h.addMString(vaxis.Key{Keycode: vaxis.KeyBackspace, Modifiers: vaxis.ModShift}, tgt, false, 0, 0, "", "junk-binding")
		h.addMString(vaxis.Key{Keycode: 0xFFFD, Modifiers: vaxis.ModCtrl}, tgt, false, 0, 0, "", "junk-binding")
	}
}


// ---------- cross-protocol stream (mirror of legacy_encs / kitty_encs in model/Keys.v) ----------

type pair struct{ a, b rune }

var letterSpec = []pair{{'A', vaxis.KeyUp}, {'B', vaxis.KeyDown}, {'C', vaxis.KeyRight}, {'D', vaxis.KeyLeft}, {'E', vaxis.KeyKeyPadBegin},
	{'F', vaxis.KeyEnd}, {'H', vaxis.KeyHome}, {'P', vaxis.KeyF01}, {'Q', vaxis.KeyF02}, {'R', vaxis.KeyF03}, {'S', vaxis.KeyF04}}
var ss3Spec = []pair{{'A', vaxis.KeyUp}, {'B', vaxis.KeyDown}, {'C', vaxis.KeyRight}, {'D', vaxis.KeyLeft},
	{'F', vaxis.KeyEnd}, {'H', vaxis.KeyHome}, {'P', vaxis.KeyF01}, {'Q', vaxis.KeyF02}, {'R', vaxis.KeyF03}, {'S', vaxis.KeyF04}}
var tildeSpec = []pair{{1, vaxis.KeyHome}, {2, vaxis.KeyInsert}, {3, vaxis.KeyDelete}, {4, vaxis.KeyEnd}, {5, vaxis.KeyPgUp}, {6, vaxis.KeyPgDown},
	{7, vaxis.KeyHome}, {8, vaxis.KeyEnd}, {11, vaxis.KeyF01}, {12, vaxis.KeyF02}, {13, vaxis.KeyF03}, {14, vaxis.KeyF04}, {15, vaxis.KeyF05},
	{17, vaxis.KeyF06}, {18, vaxis.KeyF07}, {19, vaxis.KeyF08}, {20, vaxis.KeyF09}, {21, vaxis.KeyF10}, {23, vaxis.KeyF11}, {24, vaxis.KeyF12},
	{25, vaxis.KeyF13}, {26, vaxis.KeyF14}, {28, vaxis.KeyF15}, {29, vaxis.KeyF16}, {31, vaxis.KeyF17}, {32, vaxis.KeyF18}, {33, vaxis.KeyF19}, {34, vaxis.KeyF20}}
var kittyF = []pair{{57376, vaxis.KeyF13}, {57377, vaxis.KeyF14}, {57378, vaxis.KeyF15}, {57379, vaxis.KeyF16}, {57380, vaxis.KeyF17},
	{57381, vaxis.KeyF18}, {57382, vaxis.KeyF19}, {57383, vaxis.KeyF20}}
var namedChordKeys = []rune{vaxis.KeyUp, vaxis.KeyDown, vaxis.KeyRight, vaxis.KeyLeft, vaxis.KeyKeyPadBegin, vaxis.KeyEnd, vaxis.KeyHome,
	vaxis.KeyInsert, vaxis.KeyDelete, vaxis.KeyPgUp, vaxis.KeyPgDown, vaxis.KeyF01, vaxis.KeyF02, vaxis.KeyF03, vaxis.KeyF04, vaxis.KeyF05,
	vaxis.KeyF06, vaxis.KeyF07, vaxis.KeyF08, vaxis.KeyF09, vaxis.KeyF10, vaxis.KeyF11, vaxis.KeyF12, vaxis.KeyF13, vaxis.KeyF14, vaxis.KeyF15,
	vaxis.KeyF16, vaxis.KeyF17, vaxis.KeyF18, vaxis.KeyF19, vaxis.KeyF20}

func keysOf(t []pair, k rune) []rune {
	var out []rune
	for _, p := range t {
		if p.b == k {
			out = append(out, p.a)
		}
	}
	return out
}

func isLowerASCII(c rune) bool { return c >= 'a' && c <= 'z' }

func legacyEncs(k rune, m int) []ansi.Sequence {
	csi := func(fin rune, ps ...[]int) ansi.Sequence {
		var params [][]int
		for _, p := range ps {
			params = append(params, p)
		}
		return ansi.CSI{Parameters: params, Final: fin}
	}
	switch {
	case k >= 32 && k <= 126:
		nonUpper := !(k >= 'A' && k <= 'Z')
		switch {
		case m == 0 && nonUpper:
			return []ansi.Sequence{ansi.Print{Grapheme: string(k), Width: 1}}
		case m == 1 && isLowerASCII(k):
			return []ansi.Sequence{ansi.Print{Grapheme: string(k - 32), Width: 1}}
		case m == 2 && k >= 48 && !(k >= 65 && k <= 95):
			return []ansi.Sequence{ansi.ESC{Final: k}}
		case m == 3 && isLowerASCII(k) && k != 'o' && k != 'p' && k != 'x':
			return []ansi.Sequence{ansi.ESC{Final: k - 32}}
		case m == 4 && (isLowerASCII(k) && k != 'h' && k != 'i' && k != 'm'):
			return []ansi.Sequence{ansi.C0(k - 96)}
		case m == 4 && (k == 92 || k == 93):
			return []ansi.Sequence{ansi.C0(k - 64)}
		}
		return nil
	case k == vaxis.KeyTab:
		if m == 0 {
			return []ansi.Sequence{ansi.C0(9)}
		} else if m == 1 {
			return []ansi.Sequence{csi('Z'), csi('Z', []int{1}, []int{2})}
		}
		return nil
	case k == vaxis.KeyEnter:
		if m == 0 {
			return []ansi.Sequence{ansi.C0(13)}
		}
		return nil
	case k == vaxis.KeyEsc:
		if m == 0 {
			return []ansi.Sequence{ansi.C0(27)}
		}
		return nil
	case k == vaxis.KeyBackspace:
		if m == 0 {
			return []ansi.Sequence{ansi.Print{Grapheme: "\x7f"}, ansi.C0(8)}
		} else if m == 2 {
			return []ansi.Sequence{ansi.ESC{Final: 127}}
		}
		return nil
	}
	var out []ansi.Sequence
	for _, fin := range keysOf(letterSpec, k) {
		if m == 0 {
			out = append(out, csi(fin))
			for _, f2 := range keysOf(ss3Spec, k) {
				if f2 == fin {
					out = append(out, ansi.SS3(fin))
				}
			}
		} else {
			out = append(out, csi(fin, []int{1}, []int{m + 1}))
		}
	}
	for _, n := range keysOf(tildeSpec, k) {
		if m == 0 {
			out = append(out, csi('~', []int{int(n)}))
		} else {
			out = append(out, csi('~', []int{int(n)}, []int{m + 1}))
		}
	}
	return out
}

type kittyVariant struct {
	seq   ansi.Sequence
	noAlt bool // no shifted alternate code in the report
}

func kittySeq(n int, fin rune, alts []int, m, l int, ev bool, tx []int, hasTx bool) []ansi.Sequence {
	mk := func(ps ...[]int) ansi.Sequence {
		var params [][]int
		for _, p := range ps {
			params = append(params, append([]int(nil), p...))
		}
		return ansi.CSI{Parameters: params, Final: fin}
	}
	p0 := append([]int{n}, alts...)
	p1 := []int{m + l + 1}
	if ev {
		p1 = append(p1, 1)
	}
	if hasTx {
		return []ansi.Sequence{mk(p0, p1, tx)}
	}
	if m+l == 0 && !ev {
		out := []ansi.Sequence{mk(p0, p1), mk(p0)}
		if n == 1 && fin != 'u' && fin != '~' && len(alts) == 0 {
			out = append(out, mk())
		}
		return out
	}
	return []ansi.Sequence{mk(p0, p1)}
}

func kittyEncs(k rune, m int) []kittyVariant {
	var out []kittyVariant
	if k >= 32 && k <= 126 {
		shifted := isLowerASCII(k) && m&1 != 0
		altss := [][]int{{}, {0, int(k)}}
		if shifted {
			altss = append(altss, []int{int(k) - 32}, []int{int(k) - 32, int(k)})
		}
		type txo struct {
			tx  []int
			has bool
		}
		txs := []txo{{nil, false}}
		if m == 0 {
			txs = append(txs, txo{[]int{int(k)}, true})
		} else if m == 1 && isLowerASCII(k) {
			txs = append(txs, txo{[]int{int(k) - 32}, true})
		}
		for _, alts := range altss {
			for _, tx := range txs {
				for _, l := range []int{0, 128} {
					for _, ev := range []bool{false, true} {
						for _, s := range kittySeq(int(k), 'u', alts, m, l, ev, tx.tx, tx.has) {
							out = append(out, kittyVariant{s, len(alts) == 0 || alts[0] == 0})
						}
					}
				}
			}
		}
		return out
	}
	type nf struct {
		n   int
		fin rune
	}
	var forms []nf
	if k == vaxis.KeyTab || k == vaxis.KeyEnter || k == vaxis.KeyEsc || k == vaxis.KeyBackspace {
		forms = []nf{{int(k), 'u'}}
	} else {
		for _, fin := range keysOf(letterSpec, k) {
			forms = append(forms, nf{1, fin})
		}
		for _, n := range keysOf(tildeSpec, k) {
			forms = append(forms, nf{int(n), '~'})
		}
		for _, n := range keysOf(kittyF, k) {
			forms = append(forms, nf{int(n), 'u'})
		}
	}
	for _, f := range forms {
		for _, l := range []int{0, 64, 128, 192} {
			for _, ev := range []bool{false, true} {
				for _, s := range kittySeq(f.n, f.fin, nil, m, l, ev, nil, false) {
					out = append(out, kittyVariant{s, true})
				}
			}
		}
	}
	return out
}

func cloneSeq(s ansi.Sequence) ansi.Sequence {
	if c, ok := s.(ansi.CSI); ok {
		var params [][]int
		for _, p := range c.Parameters {
			params = append(params, append([]int(nil), p...))
		}
		c.Parameters = params
		return c
	}
	return s
}

func (h *harness) addCross(k rune, m int, sl ansi.Sequence, sk kittyVariant, tags ...string) {
	kl := vaxis.VerifDecodeKey(cloneSeq(sl))
	kk := vaxis.VerifDecodeKey(cloneSeq(sk.seq))
	strl, strk := kl.String(), kk.String()
	// bindings: the runes of both events and their case variants, a few others; masks around the chord's
	rs := []rune{k, unicode.ToUpper(k), kl.Keycode, kl.ShiftedCode, kk.Keycode, kk.ShiftedCode, kk.BaseLayoutCode,
		rune(0x20 + h.pick(0x5F)), h.names[h.pick(len(h.names))].Key, 0}
	ms := []int{m, m ^ 1, m | 1, m &^ 1, 0, m | 64, m | 128, h.pick(256)}
	var bts []string
	var bjs []interface{}
	differ := strl != strk
	for _, r := range rs {
		if r >= 128 && r <= unicode.MaxRune {
			continue
		}
		for _, bm := range ms {
			if h.pick(3) == 0 && bm != m {
				continue
			}
			ol := kl.Matches(r, vaxis.ModifierMask(bm))
			ok := kk.Matches(r, vaxis.ModifierMask(bm))
			bts = append(bts, hx.Tuple(hx.Z(int64(r)), hx.Z(int64(bm)), hx.Bool(ol), hx.Bool(ok)))
			if ol != ok && r != 0 {
				differ = true
				bjs = append(bjs, map[string]interface{}{"binding_rune": r, "binding_mods": bm, "legacy_matches": ol, "kitty_matches": ok})
			}
		}
	}
	js := map[string]interface{}{"chord_key": k, "chord_mods": m, "legacy": seqJSON(sl), "kitty": seqJSON(sk.seq),
		"legacy_string": strl, "kitty_string": strk, "legacy_key": keyJSON(kl), "kitty_key": keyJSON(kk), "differing_bindings": bjs}
	if k >= 32 && k <= 126 && m == 3 {
		js["class"] = "esc-upper"
	} else if k >= 32 && k <= 126 && m&1 != 0 && sk.noAlt {
		js["class"] = "kitty-shift-without-alternate"
	}
	h.cross.Add(hx.Tuple(fmt.Sprintf("(mkChord %d %d)", k, m), seqTerm(sl), seqTerm(sk.seq), hx.Runes(strl), hx.Runes(strk), hx.List(bts)),
		js, differ || m != 0, tags...)
}

func (h *harness) genCross() {
	th := h.cfg.Thorough()
	type chord struct {
		k rune
		m int
	}
	var chords []chord
	for k := rune(32); k <= 126; k++ {
		for m := 0; m <= 4; m++ {
			chords = append(chords, chord{k, m})
		}
	}
	chords = append(chords, chord{vaxis.KeyTab, 0}, chord{vaxis.KeyTab, 1}, chord{vaxis.KeyEnter, 0}, chord{vaxis.KeyEsc, 0},
		chord{vaxis.KeyBackspace, 0}, chord{vaxis.KeyBackspace, 2})
	for _, k := range namedChordKeys {
		for m := 0; m < 64; m++ {
			chords = append(chords, chord{k, m})
		}
	}
	for _, c := range chords {
		ls := legacyEncs(c.k, c.m)
		if len(ls) == 0 {
			continue
		}
		ks := kittyEncs(c.k, c.m)
		named := c.k > unicode.MaxRune
		for _, sl := range ls {
			if th {
				for _, sk := range ks {
					h.addCross(c.k, c.m, sl, sk, "all-pairs")
				}
				continue
			}
			// quick: every chord with a few of its kitty variants
			n := 3
			if named {
				n = 1
				if c.m > 8 && h.pick(4) != 0 {
					continue
				}
			}
			for i := 0; i < n; i++ {
				h.addCross(c.k, c.m, sl, ks[h.pick(len(ks))], "sampled-pairs")
			}
		}
	}
}

// ---------- description stream (mirror of other_encs / all_encs / desc_chord in model/Keys.v) ----------

func isSpecial4(k rune) bool {
	return k == vaxis.KeyTab || k == vaxis.KeyEnter || k == vaxis.KeyEsc || k == vaxis.KeyBackspace
}

func printableNonUpper(k rune) bool { return k >= 32 && k <= 126 && !(k >= 'A' && k <= 'Z') }

// the code points under which a CSI report may carry the key: Backspace is DEL or BS
func reportCodes(k rune) []int {
	if k == vaxis.KeyBackspace {
		return []int{127, 8}
	}
	return []int{int(k)}
}

// xterm modifyOtherKeys reports of the chord: CSI 27;m;code~ and CSI code;m u
func otherEncs(k rune, m int) []ansi.Sequence {
	if !printableNonUpper(k) && !isSpecial4(k) {
		return nil
	}
	locks := []int{0, 128}
	if isSpecial4(k) {
		locks = []int{0, 64, 128, 192}
	}
	var out []ansi.Sequence
	for _, n := range reportCodes(k) {
		for _, l := range locks {
			out = append(out, ansi.CSI{Parameters: [][]int{{27}, {m + l + 1}, {n}}, Final: '~'})
			for _, ev := range []bool{false, true} {
				out = append(out, kittySeq(n, 'u', nil, m, l, ev, nil, false)...)
			}
		}
	}
	return out
}

type descEnc struct {
	seq  ansi.Sequence
	kind string // legacy | kitty | other
}

func allEncs(k rune, m int) []descEnc {
	var out []descEnc
	for _, s := range legacyEncs(k, m) {
		out = append(out, descEnc{s, "legacy"})
	}
	for _, v := range kittyEncs(k, m) {
		out = append(out, descEnc{v.seq, "kitty"})
	}
	for _, s := range otherEncs(k, m) {
		out = append(out, descEnc{s, "other"})
	}
	return out
}

func (h *harness) addDesc(k rune, m int, a, b descEnc, tags ...string) {
	ka := vaxis.VerifDecodeKey(cloneSeq(a.seq))
	kb := vaxis.VerifDecodeKey(cloneSeq(b.seq))
	strc := vaxis.Key{Keycode: k, Modifiers: vaxis.ModifierMask(m)}.String()
	stra, strb := ka.String(), kb.String()
	// own binding: the decoded key against the chord's binding (code, modifiers) and against its own String()
	ma, mb := ka.Matches(k, vaxis.ModifierMask(m)), kb.Matches(k, vaxis.ModifierMask(m))
	msa, msb := ka.MatchString(stra), kb.MatchString(strb)
	js := map[string]interface{}{"chord_key": k, "chord_mods": m, "chord_string": strc,
		"first": seqJSON(a.seq), "first_kind": a.kind, "first_key": keyJSON(ka), "first_string": stra,
		"first_matches_chord": ma, "first_matchstring_of_own_string": msa,
		"second": seqJSON(b.seq), "second_kind": b.kind, "second_key": keyJSON(kb), "second_string": strb,
		"second_matches_chord": mb, "second_matchstring_of_own_string": msb}
	h.desc.Add(hx.Tuple(fmt.Sprintf("(mkChord %d %d)", k, m), seqTerm(a.seq), seqTerm(b.seq), hx.Runes(strc), hx.Runes(stra), hx.Runes(strb),
		hx.Tuple(hx.Bool(ma), hx.Bool(msa)), hx.Tuple(hx.Bool(mb), hx.Bool(msb))),
		js, m != 0 || a.kind != b.kind, append(tags, a.kind+"/"+b.kind)...)
}

func (h *harness) genDesc() {
	th := h.cfg.Thorough()
	var keys []rune
	for k := rune(32); k <= 126; k++ {
		if printableNonUpper(k) {
			keys = append(keys, k)
		}
	}
	keys = append(keys, vaxis.KeyTab, vaxis.KeyEnter, vaxis.KeyEsc, vaxis.KeyBackspace)
	ofKind := func(es []descEnc, kind string) []descEnc {
		var out []descEnc
		for _, e := range es {
			if e.kind == kind {
				out = append(out, e)
			}
		}
		return out
	}
	for _, k := range keys {
		for m := 0; m < 64; m++ {
			es := allEncs(k, m)
			if th && (isSpecial4(k) || m <= 4 || h.pick(4) == 0) {
				// every encoding once, against a random other encoding of the chord
				for _, e := range es {
					h.addDesc(k, m, e, es[h.pick(len(es))], "every-encoding")
				}
				continue
			}
			others, kitty, legacy := ofKind(es, "other"), ofKind(es, "kitty"), ofKind(es, "legacy")
			if isSpecial4(k) {
				// every report code in both xterm forms against a kitty report, a random pair of xterm
				// reports, every legacy byte against a random report
				for _, n := range reportCodes(k) {
					l := []int{0, 64, 128, 192}[h.pick(4)]
					tilde := descEnc{ansi.CSI{Parameters: [][]int{{27}, {m + l + 1}, {n}}, Final: '~'}, "other"}
					us := kittySeq(n, 'u', nil, m, l, h.pick(2) == 0, nil, false)
					h.addDesc(k, m, tilde, kitty[h.pick(len(kitty))], "special", "code-forms")
					h.addDesc(k, m, descEnc{us[h.pick(len(us))], "other"}, kitty[h.pick(len(kitty))], "special", "code-forms")
				}
				h.addDesc(k, m, others[h.pick(len(others))], others[h.pick(len(others))], "special", "random-pair")
				for _, e := range legacy {
					h.addDesc(k, m, e, es[h.pick(len(es))], "special", "legacy-byte")
				}
				continue
			}
			// printable: the five modifier sets a legacy byte can express, and a sample of the others
			if m > 4 && h.pick(6) != 0 {
				continue
			}
			h.addDesc(k, m, others[h.pick(len(others))], kitty[h.pick(len(kitty))], "printable", "random-pair")
			for _, e := range legacy {
				h.addDesc(k, m, e, others[h.pick(len(others))], "printable", "legacy-byte")
			}
		}
	}
}

// ---------- pipeline stream: bytes -> fake console -> real Vaxis -> Events() ----------

func (h *harness) genPipeline() []hx.DirectViolation {
	var direct []hx.DirectViolation
	fc := hx.NewFakeConsole(hx.ProfileFromMask(1<<5, 24, 80))
	vx, err := vaxis.New(vaxis.Options{WithConsole: fc, NoSignals: true})
	if err != nil {
		panic(err)
	}
	// drain start-up events
	drain := func(d time.Duration) {
		for {
			select {
			case <-vx.Events():
			case <-time.After(d):
				return
			}
		}
	}
	drain(50 * time.Millisecond)
	paste := false
	var recent []string // what was written to the console before, most recent last
	inject := func(b string) {
		fc.InjectString(b)
		recent = append(recent, fmt.Sprintf("%q", b))
		if len(recent) > 4 {
			recent = recent[1:]
		}
	}
	send := func(b string, tags ...string) {
		// what the parser makes of these bytes
		p := ansi.NewParser(strings.NewReader(b))
		var seq ansi.Sequence
		select {
		case seq = <-p.Next():
		case <-time.After(time.Second):
			return
		}
		if _, eof := seq.(ansi.EOF); eof || seq == nil {
			return
		}
		// copy before the parser recycles the sequence
		st, sj := seqTerm(seq), seqJSON(seq)
		var rs []rune
		if pr, ok := seq.(ansi.Print); ok {
			rs = append(rs, []rune(pr.Grapheme)...)
		}
		if c, ok := seq.(ansi.CSI); ok {
			for _, pm := range c.Parameters {
				for _, x := range pm {
					rs = append(rs, rune(x))
				}
			}
		}
		p.Finish(seq)
		before := append([]string{}, recent...)
		var k vaxis.Key
		got := false
		for attempt := 0; ; attempt++ {
			inject(b)
			got = false
			deadline := time.After(2 * time.Second)
		wait:
			for {
				select {
				case ev := <-vx.Events():
					if kk, ok := ev.(vaxis.Key); ok {
						k, got = kk, true
						break wait
					}
				case <-deadline:
					break wait
				}
			}
			// an Escape key for bytes that continue after ESC: Vaxis' parser goroutine was not
			// scheduled for 10 ms between two bytes of one write and its Escape timer fired (see
			// hx.IsTimerEsc).  Let the rest arrive, drop it and send the bytes again; a decoder
			// that answers Escape on every attempt is still reported
			if got && k.Keycode == vaxis.KeyEsc && len(b) > 1 && b[0] == 0x1b && attempt < 2 { // (legitimate encodings of Escape pay two re-sends)
				time.Sleep(30 * time.Millisecond)
				for drained := false; !drained; {
					select {
					case <-vx.Events():
					default:
						drained = true
					}
				}
				continue
			}
			break
		}
		if !got {
			direct = append(direct, hx.DirectViolation{Class: "pipeline-no-key-event", Case: map[string]interface{}{"bytes": fmt.Sprintf("%q", b), "sequence": sj,
				"written_to_the_same_vaxis_before": before},
				What: "no Key event was delivered for a key encoding"})
			return
		}
		rs = append(rs, keyRunes(k)...)
		h.pipe.Add(hx.Tuple(utab(rs...), st, hx.Bool(paste), keyTerm(k)),
			map[string]interface{}{"bytes": b, "sequence": sj, "paste": paste, "key": keyJSON(k), "string": k.String()}, len(b) > 1, tags...)
	}
	for r := rune(0x20); r <= 0x7F; r++ {
		send(string(r), "legacy-byte")
	}
	for _, r := range sampleRunes {
		if utf8.ValidRune(r) && r >= 0xA0 {
			send(string(r), "utf8")
		}
	}
	for b := 0; b < 32; b++ {
		if b == 0x1b {
			continue
		}
		send(string(rune(b)), "c0")
	}
	send("\x1b", "lone-esc")
	for r := rune(0x30); r <= 0x7F; r++ {
		if r >= 'N' && r <= '_' && (r == 'O' || r == 'P' || r == 'X' || r >= '[') {
			continue
		}
		send("\x1b"+string(r), "esc")
	}
	for _, r := range "ABCDFHPQRS" {
		send("\x1bO"+string(r), "ss3")
	}
	okFinal := func(f rune) bool { return !strings.ContainsRune("cIOMmtyn", f) }
	count := 0
	for _, sk := range h.special {
		for _, m := range []int{0, 2, 5, 1 + h.pick(256)} {
			x := shape{n: int(sk.Code), fin: sk.Final, m: m, n1: 1}
			if m == 0 {
				x.n1 = 0
			}
			if x.fin == '~' && (x.n == 200 || x.n == 201) || !okFinal(x.fin) {
				continue
			}
			send(x.bytes(false), "csi-special")
			count++
		}
	}
	for c := 0x20; c < 0x7F; c++ {
		up := int(unicode.ToUpper(rune(c)))
		for i := 0; i < 3; i++ {
			x := shape{n: c, fin: 'u', n0: h.pick(3), n1: h.pick(3), s: up, b: c, m: 1 + h.pick(256), e: h.pick(4)}
			if h.pick(3) == 0 {
				x.s = 0
			}
			if h.pick(2) == 0 {
				x.hasTx, x.tx = true, []int{c}
			}
			send(x.bytes(h.pick(2) == 0), "csi-u")
		}
	}
	send("\x1b[1;5Z", "backtab")
	send("\x1b[Z", "backtab")
	send("\x1b[27;6;9~", "other-keys")
	send("\x1b[97;5:u", "empty-event")
	send("\x1b[97;;97u", "empty-mods")
	send("\x1b[97::98u", "empty-shifted")
	// bracketed paste: the keys in between are marked as paste events
	fc.InjectString("\x1b[200~")
	drain(20 * time.Millisecond)
	paste = true
	for _, b := range []string{"a", "B", "\r", "\t", "é", "\x1b[A", "\x1b[97;5u", "\x1bx", "\x1bOP"} {
		send(b, "paste")
	}
	fc.InjectString("\x1b[201~")
	drain(20 * time.Millisecond)
	paste = false
	send("z", "after-paste")
	// keys behind terminal replies (a reply yields no Key event and must not affect the next key)
	for _, rp := range []string{"\x1b]11;rgb:0000/0000/0000\x07", "\x1b]10;rgb:ffff/ffff/ffff\x1b\\", "\x1b]4;1;rgb:cd00/0000/0000\x07"} {
		inject(rp)
		drain(20 * time.Millisecond)
		send("a", "after-reply")
		send("\x1b\\", "after-reply")
		send("\x1bb", "after-reply")
	}
	if !hx.WithTimeout(3*time.Second, vx.Close) {
		direct = append(direct, hx.DirectViolation{Class: "pipeline-close-hang", Case: "close", What: "Close did not return"})
	}
	return direct
}


// ---------- stream: several reports through ONE parser instance + decodeKey ----------
//
// A report is what a terminal sends as one unit: a key report in the legacy or the kitty
// encoding, or a reply to a query (OSC colour answers, CSI/DCS/APC replies).  A case feeds a
// list of reports to one long-lived ansi.Parser and decodes every delivered sequence with
// decodeKey; each report is also fed alone to a fresh parser.  The property on the
// observation: the stream's events are the concatenation of the reports' own events.

type sreport struct {
	bytes  string
	gap    bool          // a silence longer than the escape timer follows
	exp    ansi.Sequence // the sequence these bytes are the canonical wire form of (nil: none)
	enc    string        // Coq term of the encoding the report was built from ("" none)
	kind   string
	reply  bool
	opener bool // starts with ESC or leaves/enters a parser state other than ground
}

type event struct {
	term string
	js   string
	rs   []rune
}

const streamGap = 60 * time.Millisecond

// runParser feeds the segments (a silence before every segment but the first) to a fresh
// parser and decodes everything it delivers.
func runParser(segs []string) (evs []event, hung bool) {
	rd := &parsehx.ChunkReader{Gap: streamGap, GapAt: map[int]bool{}}
	for i, s := range segs {
		rd.Chunks = append(rd.Chunks, []byte(s))
		if i > 0 {
			rd.GapAt[i] = true
		}
	}
	p := ansi.NewParser(rd)
	deadline := time.After(10 * time.Second)
	for {
		select {
		case seq, ok := <-p.Next():
			if !ok {
				return evs, false
			}
			switch seq.(type) {
			case ansi.EOF:
				continue
			case error:
				continue
			}
			st := seqTerm(seq)
			sj := fmt.Sprint(seqJSON(seq))
			var rs []rune
			if pr, ok := seq.(ansi.Print); ok {
				rs = append(rs, []rune(pr.Grapheme)...)
			}
			if c, ok := seq.(ansi.CSI); ok {
				for _, pm := range c.Parameters {
					for _, x := range pm {
						rs = append(rs, rune(x))
					}
				}
			}
			var k vaxis.Key
			if panicked, msg := hx.Catch(func() { k = vaxis.VerifDecodeKey(seq) }); panicked {
				k = vaxis.Key{Keycode: -424242, Text: "panic: " + msg}
			}
			p.Finish(seq)
			rs = append(rs, keyRunes(k)...)
			js := sj + " -> " + k.String()
			if st == "SOther" {
				js = sj + " (not a key report)"
			}
			evs = append(evs, event{hx.Tuple(st, keyTerm(k)), js, rs})
		case <-deadline:
			return evs, true
		}
	}
}

func segsOf(rs []sreport) []string {
	var segs []string
	cur := ""
	for _, r := range rs {
		cur += r.bytes
		if r.gap {
			segs = append(segs, cur)
			cur = ""
		}
	}
	return append(segs, cur)
}

func eventsEqual(a, b []event) bool {
	if len(a) != len(b) {
		return false
	}
	for i := range a {
		if a[i].term != b[i].term {
			return false
		}
	}
	return true
}

// canonical wire bytes of a sequence (mirror of kseq_wire in model/KeysStream.v)
func seqBytes(s ansi.Sequence) string {
	switch s := s.(type) {
	case ansi.Print:
		return s.Grapheme
	case ansi.C0:
		return string(rune(s))
	case ansi.ESC:
		return "\x1b" + string(s.Final)
	case ansi.SS3:
		return "\x1bO" + string(rune(s))
	case ansi.CSI:
		parts := make([]string, len(s.Parameters))
		for i, pm := range s.Parameters {
			sub := make([]string, len(pm))
			for j, v := range pm {
				sub[j] = fmt.Sprint(v)
			}
			parts[i] = strings.Join(sub, ":")
		}
		return "\x1b[" + strings.Join(parts, ";") + string(s.Final)
	}
	panic("no wire form")
}

func repPrint(r rune) sreport {
	g := string(r)
	return sreport{bytes: g, exp: ansi.Print{Grapheme: g, Width: 1}, enc: "(EPrint " + hx.Runes(g) + ")", kind: "print"}
}
func repC0(b int) sreport {
	return sreport{bytes: string(rune(b)), exp: ansi.C0(b), enc: fmt.Sprintf("(EC0 %d)", b), kind: "c0"}
}
func repLoneEsc() sreport {
	return sreport{bytes: "\x1b", gap: true, exp: ansi.C0(27), enc: "(EC0 27)", kind: "lone-esc", opener: true}
}
func repEsc(c rune) sreport {
	return sreport{bytes: "\x1b" + string(c), exp: ansi.ESC{Final: c}, enc: fmt.Sprintf("(EEsc %d)", c), kind: "esc", opener: true}
}
func repSs3(c rune) sreport {
	return sreport{bytes: "\x1bO" + string(c), exp: ansi.SS3(c), enc: fmt.Sprintf("(ESs3 %d)", c), kind: "ss3", opener: true}
}
func repShape(x shape, emptyZero bool) sreport {
	r := sreport{bytes: x.bytes(emptyZero), enc: x.term(), kind: "csi-key", opener: true}
	if r.bytes == x.bytes(false) {
		r.exp = ansi.CSI{Parameters: x.params(), Final: x.fin}
	}
	return r
}
func repSeq(s ansi.Sequence, kind string) sreport {
	return sreport{bytes: seqBytes(s), exp: cloneSeq(s), kind: kind, opener: true}
}
func repReply(b, kind string) sreport {
	return sreport{bytes: b, kind: kind, reply: true, opener: true}
}

func escFinalOK(c rune) bool {
	return c >= 48 && c <= 127 && !strings.ContainsRune("OPX[]^_", c)
}

// replies a terminal sends to the queries vaxis issues (sequences.go), with both string terminators
func replyReports() []sreport {
	var out []sreport
	for _, pl := range []string{"10;rgb:ffff/ffff/ffff", "11;rgb:0000/0000/0000", "12;rgb:8080/8080/8080",
		"4;1;rgb:cd00/0000/0000", "52;c;aGVsbG8=", "176;vaxis", "8;;", "0;title é", "11;?"} {
		out = append(out, repReply("\x1b]"+pl+"\x07", "osc-bel"), repReply("\x1b]"+pl+"\x1b\\", "osc-st"))
	}
	for _, b := range []string{"\x1b[?62;4;22c", "\x1b[>1;4000;29c", "\x1b[?2027;2$y", "\x1b[?2026;1$y", "\x1b[12;40R", "\x1b[?1u", "\x1b[?31u",
		"\x1b[4;600;800t", "\x1b[8;24;80t", "\x1b[48;24;80;600;800t", "\x1b[I", "\x1b[O", "\x1b[?997;1n", "\x1b[?997;2n", "\x1b[0n",
		"\x1b[<0;10;5M", "\x1b[<0;10;5m", "\x1b[<35;1;1M", "\x1b[200~", "\x1b[201~", "\x1b[?12;2$y", "\x1b[1;1R"} {
		out = append(out, repReply(b, "csi-reply"))
	}
	for _, b := range []string{"\x1bP>|foot(1.16.2)\x1b\\", "\x1bP1$r0m\x1b\\", "\x1bP1+r5463=323536\x1b\\", "\x1bP0$rx\x1b\\", "\x1bP!|00000000\x1b\\"} {
		out = append(out, repReply(b, "dcs-reply"))
	}
	for _, b := range []string{"\x1b_Gi=1;OK\x1b\\", "\x1b_Gi=31,p=1;ENOENT:x\x1b\\"} {
		out = append(out, repReply(b, "apc-reply"))
	}
	return out
}

var plainRunes = []rune{0xE9, 0xDF, 0x416, 0x436, 0x3A9, 0x4E2D, 0x3042, 0x20AC, 0xC9}

func (h *harness) randKeyReport() sreport {
	switch h.pick(12) {
	case 0, 1:
		return repPrint(rune(0x20 + h.pick(0x60)))
	case 2:
		return repPrint(plainRunes[h.pick(len(plainRunes))])
	case 3:
		b := h.pick(32)
		if b == 27 {
			return repLoneEsc()
		}
		return repC0(b)
	case 4, 5:
		for {
			c := rune(48 + h.pick(80))
			if escFinalOK(c) {
				return repEsc(c)
			}
		}
	case 6:
		return repEsc('\\')
	case 7:
		return repSs3(rune("ABCDFHPQRSEM"[h.pick(12)]))
	case 8:
		// legacy function keys
		switch h.pick(3) {
		case 0:
			return repShape(shape{n: 1, fin: rune("ABCDEFHPQRSZ"[h.pick(12)]), m: 1 + h.pick(64), n1: 1}, false)
		case 1:
			return repShape(shape{n: []int{1, 2, 3, 4, 5, 6, 7, 8, 11, 15, 17, 21, 23, 24, 25, 34}[h.pick(16)], fin: '~', m: h.pick(17), n1: h.pick(2)}, false)
		}
		return repSeq(ansi.CSI{Final: rune("ABCDEFHPQRSZ"[h.pick(12)])}, "csi-key")
	case 9:
		return repShape(shape{n: 27, fin: '~', m: 1 + h.pick(16), n1: 1, hasTx: false}, false)
	}
	// kitty, any layout of the optional fields
	c := 0x20 + h.pick(0x5F)
	if h.pick(4) == 0 {
		c = int(h.special[h.pick(len(h.special))].Code)
	}
	if h.pick(8) == 0 {
		c = int(sampleRunes[h.pick(len(sampleRunes))])
	}
	x := shape{n: c, fin: 'u', n0: h.pick(3), n1: h.pick(3), s: int(unicode.ToUpper(rune(c))), b: c, m: h.pick(258), e: h.pick(5)}
	if h.pick(3) == 0 {
		x.s = 0
	}
	if h.pick(3) == 0 {
		x.hasTx, x.tx = true, []int{c}
		if h.pick(3) == 0 {
			x.tx = append(x.tx, 0x301)
		}
	}
	return repShape(x, h.pick(3) == 0)
}

func (h *harness) addStream(rs []sreport, tags ...string) {
	type attempt struct {
		obs   []event
		alone [][]event
		hung  bool
	}
	run := func() attempt {
		var a attempt
		a.obs, a.hung = runParser(segsOf(rs))
		for _, r := range rs {
			segs := []string{r.bytes}
			if r.gap {
				segs = append(segs, "")
			}
			ev, hg := runParser(segs)
			a.hung = a.hung || hg
			a.alone = append(a.alone, ev)
		}
		return a
	}
	consistent := func(a attempt) bool {
		var cat []event
		for i, r := range rs {
			cat = append(cat, a.alone[i]...)
			if r.exp != nil && (len(a.alone[i]) != 1 || !strings.HasPrefix(a.alone[i][0].term, "("+seqTerm(r.exp)+", ")) {
				return false
			}
		}
		return !a.hung && eventsEqual(a.obs, cat)
	}
	// the escape timer (10 ms) is a real-time race outside the model: an attempt disturbed by
	// scheduling is repeated; a deterministic difference persists
	a := run()
	for try := 0; try < 3 && !consistent(a); try++ {
		h.streamRetries++
		a = run()
	}
	if a.hung {
		h.streamDirect = append(h.streamDirect, hx.DirectViolation{Class: "stream-parser-hang", Case: fmt.Sprintf("%q", segsOf(rs)),
			What: "the parser did not reach the end of its input"})
		return
	}
	var rsAll []rune
	for _, e := range a.obs {
		rsAll = append(rsAll, e.rs...)
	}
	var rterms []string
	var rjs []interface{}
	var cat []string
	nontriv := false
	for i, r := range rs {
		for _, e := range a.alone[i] {
			rsAll = append(rsAll, e.rs...)
			cat = append(cat, e.js)
		}
		exp, enc := hx.None, hx.None
		if r.exp != nil {
			exp = hx.Some(seqTerm(r.exp))
		}
		if r.enc != "" {
			enc = hx.Some(r.enc)
		}
		al := make([]string, len(a.alone[i]))
		aj := make([]string, len(a.alone[i]))
		for j, e := range a.alone[i] {
			al[j], aj[j] = e.term, e.js
		}
		rterms = append(rterms, hx.Tuple(hx.Bytes([]byte(r.bytes)), hx.Bool(r.gap), exp, enc, hx.List(al)))
		rjs = append(rjs, map[string]interface{}{"bytes": fmt.Sprintf("%q", r.bytes), "kind": r.kind, "silence_after": r.gap, "alone": aj})
		if i > 0 && i == len(rs)-1 {
			for _, q := range rs[:i] {
				nontriv = nontriv || q.opener
			}
		}
	}
	ot := make([]string, len(a.obs))
	oj := make([]string, len(a.obs))
	for j, e := range a.obs {
		ot[j], oj[j] = e.term, e.js
	}
	h.stream.Add(hx.Tuple(utab(rsAll...), hx.List(rterms), hx.List(ot)),
		map[string]interface{}{"input": fmt.Sprintf("%q", segsOf(rs)), "reports": rjs, "one_parser_instance": oj, "each_report_alone": cat},
		nontriv, tags...)
}

func (h *harness) genStream() {
	th := h.cfg.Thorough()
	replies := replyReports()
	// histories: every reply, and the key reports that pass through a parser state other than ground
	hist := append([]sreport{}, replies...)
	hist = append(hist, repEsc('\\'), repEsc('a'), repEsc(0x7F), repSs3('P'), repLoneEsc(), repC0(0x18), repC0(0x1A), repC0(7),
		repShape(shape{n: 1, fin: 'A', m: 5, n1: 1}, false), repShape(shape{n: 97, fin: 'u', s: 65, n0: 1, m: 2, n1: 1, hasTx: true, tx: []int{65}}, false),
		repPrint('a'), repPrint(0xE9))
	// probes: what must arrive intact after each history
	var escProbes []sreport
	for c := rune(48); c <= 127; c++ {
		if escFinalOK(c) {
			escProbes = append(escProbes, repEsc(c))
		}
	}
	probes := []sreport{repEsc('\\'), repLoneEsc(), repPrint('a'), repPrint('\\'), repPrint(']'), repPrint('['), repPrint('O'), repPrint('P'),
		repPrint('_'), repPrint('^'), repPrint('X'), repPrint(0x7F), repPrint(0x416),
		repC0(13), repC0(9), repC0(0), repC0(7), repC0(0x18), repC0(0x1A), repC0(0x1C),
		repSs3('A'), repSs3('P'), repSeq(ansi.CSI{Final: 'A'}, "csi-key"), repSeq(ansi.CSI{Final: 'Z'}, "csi-key"),
		repShape(shape{n: 1, fin: 'B', m: 5, n1: 1}, false), repShape(shape{n: 3, fin: '~'}, false), repShape(shape{n: 15, fin: '~', m: 6, n1: 1}, false),
		repShape(shape{n: 97, fin: 'u', m: 5, n1: 1}, false), repShape(shape{n: 92, fin: 'u', m: 3, n1: 1}, false),
		repShape(shape{n: 97, fin: 'u', s: 65, b: 97, n0: 2, m: 2, e: 1, n1: 2, hasTx: true, tx: []int{65}}, true),
		repShape(shape{n: 27, fin: '~', m: 6, n1: 1, hasTx: true, tx: []int{9}}, false), repShape(shape{n: 57399, fin: 'u', m: 129, n1: 1}, false)}
	fillers := [][]sreport{nil, {repPrint('a')}, {repPrint('a'), repPrint('b'), repC0(13)}, {repC0(1)}, {repPrint(0xE9), repC0(9)}}
	for _, hr := range hist {
		// the string terminator as a key, after every filler
		for _, f := range fillers {
			rs := append(append([]sreport{hr}, f...), repEsc('\\'), repPrint('y'))
			h.addStream(rs, "directed-alt-backslash", "history-"+hr.kind)
		}
		ps := append([]sreport{}, probes...)
		if th {
			ps = append(ps, escProbes...)
		} else {
			for i := 0; i < 6; i++ {
				ps = append(ps, escProbes[h.pick(len(escProbes))])
			}
		}
		for _, pr := range ps {
			if !th && pr.gap && h.pick(3) != 0 {
				continue // silences cost real time
			}
			rs := append(append([]sreport{hr}, fillers[h.pick(len(fillers))]...), pr)
			h.addStream(rs, "directed-probe", "history-"+hr.kind)
		}
	}
	// every ESC-prefixed key twice in a row, and after a lone Esc
	for _, pr := range escProbes {
		h.addStream([]sreport{pr, pr, repPrint('y')}, "esc-twice")
		if th || h.pick(6) == 0 {
			h.addStream([]sreport{repLoneEsc(), pr}, "after-lone-esc")
		}
	}
	// both encodings of a both-expressible chord in one stream, behind a history
	type chord struct {
		k rune
		m int
	}
	var chords []chord
	for k := rune(32); k <= 126; k++ {
		for m := 0; m <= 4; m++ {
			chords = append(chords, chord{k, m})
		}
	}
	chords = append(chords, chord{vaxis.KeyTab, 0}, chord{vaxis.KeyTab, 1}, chord{vaxis.KeyEnter, 0}, chord{vaxis.KeyEsc, 0},
		chord{vaxis.KeyBackspace, 0}, chord{vaxis.KeyBackspace, 2})
	for _, k := range namedChordKeys {
		for m := 0; m < 64; m++ {
			chords = append(chords, chord{k, m})
		}
	}
	for _, c := range chords {
		ls := legacyEncs(c.k, c.m)
		if len(ls) == 0 {
			continue
		}
		if !th && c.k > unicode.MaxRune && c.m > 2 && h.pick(8) != 0 {
			continue
		}
		ks := kittyEncs(c.k, c.m)
		for _, sl := range ls {
			var lr sreport
			if c0, ok := sl.(ansi.C0); ok && c0 == 27 {
				lr = repLoneEsc()
			} else {
				lr = repSeq(sl, "chord-legacy")
			}
			n := 1
			if th {
				n = 4
			}
			for i := 0; i < n; i++ {
				rs := []sreport{hist[h.pick(len(hist))]}
				if h.pick(2) == 0 {
					rs = append(rs, h.randKeyReport())
				}
				rs = append(rs, lr)
				if h.pick(2) == 0 {
					rs = append(rs, replies[h.pick(len(replies))])
				}
				rs = append(rs, repSeq(ks[h.pick(len(ks))].seq, "chord-kitty"))
				if !th && lr.gap && h.pick(2) == 0 {
					continue
				}
				h.addStream(rs, "chord-both-encodings")
			}
		}
	}
	// random histories
	n := 700
	if th {
		n = 40000
	}
	for i := 0; i < n; i++ {
		var rs []sreport
		gaps := 0
		for j := 2 + h.pick(9); j > 0; j-- {
			var r sreport
			if h.pick(3) == 0 {
				r = replies[h.pick(len(replies))]
			} else {
				r = h.randKeyReport()
			}
			if r.gap {
				if gaps >= 1 || (!th && h.pick(4) != 0) {
					continue
				}
				gaps++
			}
			rs = append(rs, r)
		}
		if len(rs) < 2 {
			continue
		}
		h.addStream(rs, "random")
	}
}

func main() {
	os.Unsetenv("COLORTERM")
	cfg := hx.ParseFlags()
	h := &harness{cfg: cfg,
		oracle:  hx.NewStream("oracle", "model.Keys", "Z * uinfo", "c09_oracle_mismatches", "c09_oracle_violations"),
		decode:  hx.NewStream("decode", "model.Keys", "decode_case", "c09_decode_mismatches", "c09_decode_violations"),
		match:   hx.NewStream("match", "model.Keys", "match_case", "c09_match_mismatches", "c09_match_violations"),
		str:     hx.NewStream("string", "model.Keys", "string_case", "c09_string_mismatches", "c09_string_violations"),
		mstring: hx.NewStream("mstring", "model.Keys", "mstring_case", "c09_mstring_mismatches", "c09_mstring_violations"),
		cross:   hx.NewStream("cross", "model.Keys", "cross_case", "c09_cross_mismatches", "c09_cross_violations"),
		desc:    hx.NewStream("desc", "model.Keys", "desc_case", "c09_desc_mismatches", "c09_desc_violations"),
		pipe:    hx.NewStream("pipeline", "model.Keys", "pipeline_case", "c09_pipeline_mismatches", "c09_pipeline_violations"),
		stream:  hx.NewStream("stream", "model.Keys model.KeysStream", "stream_case", "c09_stream_mismatches", "c09_stream_violations"),
		names:   vaxis.VerifKeyNames(),
		special: vaxis.VerifSpecialsKeys(),
	}
	for _, s := range []*hx.Stream{h.oracle, h.decode, h.match, h.str, h.mstring, h.cross, h.desc, h.pipe, h.stream} {
		s.ShardMax = 1500
	}
	h.oracle.ShardMax = 4000
	h.cross.ShardMax = 150
	h.desc.ShardMax = 400
	h.stream.ShardMax = 250
	t0 := time.Now()
	h.genOracle()
	h.genDecode()
	h.genMatch()
	h.genStrings()
	h.genCross()
	h.genDesc()
	direct := h.genPipeline()
	h.genStream()
	direct = append(direct, h.streamDirect...)
	streams := []*hx.Stream{h.oracle, h.decode, h.match, h.str, h.mstring, h.cross, h.desc, h.pipe, h.stream}
	extra := map[string]interface{}{"harness_seconds": time.Since(t0).Seconds(), "stream_attempts_repeated_for_timing": h.streamRetries}
	cfg.Write("C09", "oracle: Go's unicode tables on ASCII, out-of-range runes, every lower-case rune (stride in quick); "+
		"decode: decodeKey on legacy bytes, C0, ESC, SS3, every specialsKeys entry x modifier parameters x event types, CSI u with every layout of the optional fields, other scripts, xterm modifyOtherKeys, random and malformed parameter lists; "+
		"match: Key.Matches of decoded and synthetic events against related/random bindings, each evaluated twice with lock bits toggled; "+
		"string: Key.String and MatchString of it, and String of a variation of the key (text, alternate codes, Num Lock, press/repeat, Caps Lock where it is not printed, BS/DEL code point) that must be described identically; mstring: MatchString on printed and malformed binding strings; "+
		"cross: every both-expressible chord, each legacy encoding against kitty encodings (all pairs in thorough), String() of both and Matches of both against bindings around the chord; "+
		"desc: every chord of a printable ASCII character / Tab / Enter / Esc / Backspace with each of the 64 modifier sets (all of them for the four special keys, a sample beyond the legacy-expressible sets for characters in quick; every encoding of every chord in thorough), pairs of its legacy, kitty and xterm modifyOtherKeys encodings (CSI 27;m;code~ and CSI code;m u, Backspace under both code points DEL and BS, lock bits, explicit press event), String() of both decoded keys and of Key{Keycode, Modifiers}, and for each decoded key Matches(chord code, chord modifiers) and MatchString of its own String(); "+
		"pipeline: encodings written byte-wise to the fake console of a real Vaxis, Key events read from Events(), including a bracketed paste and keys behind OSC replies; "+
		"stream: lists of reports (key reports in every legacy and kitty encoding, OSC/CSI/DCS/APC replies with BEL and ST terminators, the Esc key with a real silence) through ONE ansi.Parser + decodeKey, each report also alone through a fresh parser: every reply/state-changing report followed by fillers and each probe key (every ESC-prefixed key incl. ESC \\), both encodings of each both-expressible chord behind a history, random histories. "+
		"non-trivial = decode: a special-key, modifier, event, alternate-code or text path is taken; match: the call returned true; string: more than one character; mstring: the call returned true; oracle: the rune has a class or a case mapping; cross: the chord has modifiers or the two protocols differ; desc: the chord has modifiers or the two encodings are of different families; pipeline: more than one byte; stream: the last report comes after a reply or an ESC-introduced report",
		streams, extra, direct)
}
