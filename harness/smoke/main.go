package main

import (
	"fmt"
	"os"
	"time"

	vaxis "git.sr.ht/~rockorager/vaxis"
	"verif/harness/hx"
)

func main() {
	os.Unsetenv("COLORTERM")
	for _, mask := range []uint32{0, 0x1ffff} {
		fc := hx.NewFakeConsole(hx.ProfileFromMask(mask, 5, 10))
		t0 := time.Now()
		vx, err := vaxis.New(vaxis.Options{WithConsole: fc, NoSignals: true})
		if err != nil {
			panic(err)
		}
		fmt.Println("new", time.Since(t0), len(fc.Take()))
		win := vx.Window()
		win.Print(vaxis.Segment{Text: "hi"})
		vx.Render()
		fmt.Printf("%q\n", fc.Take())
		t0 = time.Now()
		ok := hx.WithTimeout(2*time.Second, vx.Close)
		fmt.Println("close", ok, time.Since(t0))
		fmt.Printf("%q\n", fc.Take())
	}
}
