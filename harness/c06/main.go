// Harness for C06 (the embedded terminal shows what a VT/xterm would show, core
// vocabulary): operation sequences from the vocabulary of coq/model/VtSpec.v are
// written as child output (omitted, zero and explicit parameters), parsed by the
// real ansi.Parser and fed to the real emulator through the verif hook; the complete
// state after every operation is written next to the operation, so that Coq compares
// it (abstracted) with the independent reference terminal.
package main

import (
	"fmt"
	"math/rand"
	"strings"

	"verif/harness/hx"
	"verif/harness/termhx"
)

type par struct {
	Om bool
	N  int64
}

func (p par) coq() string {
	if p.Om {
		return "Om"
	}
	return "(Ex " + hx.Z(p.N) + ")"
}

func (p par) text() string {
	if p.Om {
		return ""
	}
	return fmt.Sprint(p.N)
}

type op struct {
	Name         string
	P            []par
	G            string
	W            int
	Sgr          []string // Coq constructors
	SgrB         string   // parameter text
	LinkP, LinkU string   // OSC 8 params and URI
	End          string   // OSC terminator
	L            bool     // observe this step lightly (size, cursor, wrap flag, region) even after the preamble
	X            []string // Name "XSGR": the commands with their spelling (constructors of VtSgrSpell.v); bytes in SgrB
}

var final1 = map[string]string{"CUU": "A", "CUD": "B", "CUF": "C", "CUB": "D", "CNL": "E", "CPL": "F", "CHA": "G",
	"HPA": "`", "VPA": "d", "HPR": "a", "VPR": "e", "ED": "J", "EL": "K", "ECH": "X", "ICH": "@", "DCH": "P",
	"IL": "L", "DL": "M", "SU": "S", "SD": "T"}
var final2 = map[string]string{"CUP": "H", "HVP": "f", "DECSTBM": "r"}
var plain = map[string]string{"CR": "\r", "LF": "\n", "IND": "\x1bD", "RI": "\x1bM", "NEL": "\x1bE",
	"DECSC": "\x1b7", "DECRC": "\x1b8", "AltOn": "\x1b[?1049h", "AltOff": "\x1b[?1049l"}

func (o op) bytes() string {
	if o.Name == "Print" {
		return o.G
	}
	if s, ok := plain[o.Name]; ok {
		return s
	}
	if f, ok := final1[o.Name]; ok {
		return "\x1b[" + o.P[0].text() + f
	}
	if f, ok := final2[o.Name]; ok {
		a, b := o.P[0], o.P[1]
		switch {
		case a.Om && b.Om:
			return "\x1b[" + f
		case b.Om:
			return "\x1b[" + a.text() + f
		default:
			return "\x1b[" + a.text() + ";" + b.text() + f
		}
	}
	if o.Name == "SGR" || o.Name == "XSGR" {
		return "\x1b[" + o.SgrB + "m"
	}
	if o.Name == "Link" {
		end := o.End
		if end == "" {
			end = "\x1b\\"
		}
		return "\x1b]8;" + o.LinkP + ";" + o.LinkU + end
	}
	panic("op " + o.Name)
}

func (o op) coq() string {
	switch {
	case o.Name == "Print":
		return "Print " + hx.Runes(o.G) + " " + fmt.Sprint(o.W)
	case o.Name == "SGR":
		return "SGR " + hx.List(o.Sgr)
	case o.Name == "Link":
		return "Link " + hx.Runes(o.LinkP) + " " + hx.Runes(o.LinkU)
	case len(o.P) == 1:
		return o.Name + " " + o.P[0].coq()
	case len(o.P) == 2:
		return o.Name + " " + o.P[0].coq() + " " + o.P[1].coq()
	}
	return o.Name
}

type gen struct {
	r        *rand.Rand
	w, h     int
	top, bot int // the scrolling region requested so far (1-based; used by the boundary generator only)
}

func (g *gen) par(size int) par {
	switch k := g.r.Intn(16); {
	case k < 2:
		return par{Om: true}
	case k < 4:
		return par{N: 0}
	case k < 7:
		return par{N: 1}
	case k < 9:
		return par{N: 2}
	case k < 10:
		return par{N: int64(size - 1)}
	case k < 11:
		return par{N: int64(size)}
	case k < 12:
		return par{N: int64(size + 1)}
	case k < 15:
		return par{N: int64(g.r.Intn(size + 2))}
	default:
		return par{N: []int64{2147483648, 9223372036854775807, 65535, 65536, 1000}[g.r.Intn(5)]}
	}
}

var glyphs1 = []string{"a", "b", "c", "d", "e", "x", "y", "z", "#", " ", "é", "λ"}
var glyphs2 = []string{"中", "日", "한"}

func (g *gen) print() op {
	if g.r.Intn(5) == 0 {
		return op{Name: "Print", G: glyphs2[g.r.Intn(len(glyphs2))], W: 2}
	}
	return op{Name: "Print", G: glyphs1[g.r.Intn(len(glyphs1))], W: 1}
}

func (g *gen) sgr() op {
	n := g.r.Intn(3)
	if g.r.Intn(8) == 0 {
		return op{Name: "SGR"}
	}
	var cs, ps []string
	for i := 0; i <= n; i++ {
		k := g.r.Intn(26)
		simple := []struct{ c, p string }{{"SReset", "0"}, {"SBold", "1"}, {"SDim", "2"}, {"SItalic", "3"}, {"SUnderline", "4"},
			{"SBlink", "5"}, {"SReverse", "7"}, {"SInvisible", "8"}, {"SStrike", "9"}, {"SNormalInt", "22"}, {"SNoItalic", "23"},
			{"SNoUnderline", "24"}, {"SNoBlink", "25"}, {"SNoReverse", "27"}, {"SVisible", "28"}, {"SNoStrike", "29"},
			{"SFgDefault", "39"}, {"SBgDefault", "49"}}
		switch {
		case k < 18:
			cs, ps = append(cs, simple[k].c), append(ps, simple[k].p)
		case k < 20:
			v := g.r.Intn(8)
			cs, ps = append(cs, fmt.Sprintf("SFg %d", v)), append(ps, fmt.Sprint(30+v))
		case k < 22:
			v := g.r.Intn(8)
			cs, ps = append(cs, fmt.Sprintf("SBg %d", v)), append(ps, fmt.Sprint(40+v))
		case k < 23:
			v := g.r.Intn(8)
			if g.r.Intn(2) == 0 {
				cs, ps = append(cs, fmt.Sprintf("SFgBright %d", v)), append(ps, fmt.Sprint(90+v))
			} else {
				cs, ps = append(cs, fmt.Sprintf("SBgBright %d", v)), append(ps, fmt.Sprint(100+v))
			}
		case k < 24:
			v := g.r.Intn(256)
			if g.r.Intn(2) == 0 {
				cs, ps = append(cs, fmt.Sprintf("SFgIdx %d", v)), append(ps, fmt.Sprintf("38;5;%d", v))
			} else {
				cs, ps = append(cs, fmt.Sprintf("SBgIdx %d", v)), append(ps, fmt.Sprintf("48;5;%d", v))
			}
		default:
			a, b, c := g.r.Intn(256), g.r.Intn(256), g.r.Intn(256)
			if g.r.Intn(2) == 0 {
				cs, ps = append(cs, fmt.Sprintf("SFgRgb %d %d %d", a, b, c)), append(ps, fmt.Sprintf("38;2;%d;%d;%d", a, b, c))
			} else {
				cs, ps = append(cs, fmt.Sprintf("SBgRgb %d %d %d", a, b, c)), append(ps, fmt.Sprintf("48;2;%d;%d;%d", a, b, c))
			}
		}
	}
	return op{Name: "SGR", Sgr: cs, SgrB: strings.Join(ps, ";")}
}

// link: OSC 8 ; params ; URI with params and URI over an alphabet that contains the field
// separator ';' (URI only), the parameter separators ':' and '=' and other URI punctuation;
// an empty URI closes the link
func (g *gen) link() op {
	tg := &termhx.Gen{R: g.r}
	o := op{Name: "Link", End: []string{"\a", "\x1b\\"}[g.r.Intn(2)]}
	if g.r.Intn(4) != 0 {
		o.LinkP, o.LinkU = tg.Link()
	}
	return o
}

func (g *gen) one(name string) op {
	size := g.w
	switch name {
	case "CUU", "CUD", "CNL", "CPL", "VPA", "VPR", "IL", "DL", "SU", "SD":
		size = g.h
	case "ED", "EL":
		return op{Name: name, P: []par{[]par{{Om: true}, {N: 0}, {N: 1}, {N: 2}, {N: 3}}[g.r.Intn(5)]}}
	}
	return op{Name: name, P: []par{g.par(size)}}
}

func (g *gen) two(name string) op {
	if name == "DECSTBM" {
		return op{Name: name, P: []par{g.par(g.h), g.par(g.h)}}
	}
	return op{Name: name, P: []par{g.par(g.h), g.par(g.w)}}
}

func (g *gen) op() op {
	switch k := g.r.Intn(100); {
	case k < 30:
		return g.print()
	case k < 34:
		return op{Name: "CR"}
	case k < 38:
		return op{Name: "LF"}
	case k < 46:
		return g.two([]string{"CUP", "CUP", "CUP", "HVP"}[g.r.Intn(4)])
	case k < 50:
		return g.two("DECSTBM")
	case k < 56:
		return op{Name: []string{"IND", "RI", "NEL", "RI"}[g.r.Intn(4)]}
	case k < 64:
		return g.one([]string{"CUU", "CUD", "CUF", "CUB", "CNL", "CPL", "CHA", "HPA", "VPA", "HPR", "VPR"}[g.r.Intn(11)])
	case k < 70:
		return g.one([]string{"ED", "EL"}[g.r.Intn(2)])
	case k < 78:
		return g.one([]string{"ECH", "ICH", "DCH"}[g.r.Intn(3)])
	case k < 84:
		return g.one([]string{"IL", "DL"}[g.r.Intn(2)])
	case k < 89:
		return g.one([]string{"SU", "SD"}[g.r.Intn(2)])
	case k < 91:
		return op{Name: []string{"DECSC", "DECRC"}[g.r.Intn(2)]}
	case k < 93:
		return op{Name: []string{"AltOn", "AltOff"}[g.r.Intn(2)]}
	case k < 96:
		return g.link()
	default:
		return g.sgr()
	}
}

// operations that move the cursor and nothing else: their step is observed lightly (size,
// cursor, wrap flag, region - compared with the reference terminal all the same); the grid is
// seen at the next complete observation, at the latest at the end of the history
var cursorOnly = map[string]bool{"CR": true, "CUU": true, "CUD": true, "CUF": true, "CUB": true, "CNL": true, "CPL": true,
	"CHA": true, "HPA": true, "VPA": true, "HPR": true, "VPR": true, "CUP": true, "HVP": true}

func lightIfCursorOnly(o op) op {
	if cursorOnly[o.Name] {
		o.L = true
	}
	return o
}

type caseJSON struct {
	W, H  int
	Ops   []string      `json:"ops"`
	Steps []termhx.Step `json:"steps"`
}

func main() {
	cfg := hx.ParseFlags()
	s := hx.NewStream("vt", "model.Colour model.Sgr model.Term model.TermCheck model.VtSpec model.TermAbs model.VtCheck", "vt_case",
		"c06_vt_mismatches", "c06_vt_violations_every")
	s.ShardMax = 60

	// the same histories with SGR in every spelling of the extended colours (sgrspell.go)
	sx := hx.NewStream("sgrx", "model.Colour model.Sgr model.Term model.TermCheck model.VtSpec model.TermAbs model.VtCheck model.VtSgrSpell", "xvt_case",
		"c06_sgrx_mismatches", "c06_sgrx_violations")
	sx.ShardMax = 60

	reparsed := 0
	var runCase, runX func(w, h int, skip int, ops []op, tags ...string)
	mkRun := func(s *hx.Stream, coqOf func(op) string) func(w, h int, skip int, ops []op, tags ...string) {
		return func(w, h int, skip int, ops []op, tags ...string) {
			r := &termhx.Runner{FullEvery: 1}
			r.Start(w, h)
			r.FullEvery = 0
			var coqSteps, names []string
			kinds := map[string]bool{}
			for i, o := range ops {
				if r.Dead {
					break
				}
				r.FullEvery = 0
				if i >= skip && !o.L {
					r.FullEvery = 1
				}
				// one operation is one sequence; under machine load the parser's
				// 10 ms escape timer can split "ESC [" (C08's subject, not ours):
				// parse again until the bytes arrive as one sequence
				seqs := termhx.Parse([]byte(o.bytes()))
				for try := 0; len(seqs) != 1 && try < 20; try++ {
					reparsed++
					seqs = termhx.Parse([]byte(o.bytes()))
				}
				if len(seqs) != 1 {
					panic(fmt.Sprintf("operation %s produced %d sequences", o.coq(), len(seqs)))
				}
				r.FeedSeq(seqs[0], true, fmt.Sprintf("%q", o.bytes()))
				st := r.Steps[len(r.Steps)-1]
				coqSteps = append(coqSteps, fmt.Sprintf("(%s, %s, %s)", coqOf(o), st.Item.Coq(), st.Obs.Coq()))
				names = append(names, coqOf(o))
				kinds[o.Name] = true
			}
			r.Finish()
			term := fmt.Sprintf("(%d, %d, %s, [%s])", w, h, r.Steps[0].Obs.Coq(), strings.Join(coqSteps, ";\n "))
			s.Add(term, caseJSON{W: w, H: h, Ops: names, Steps: r.Steps}, len(kinds) >= 3, tags...)
		}
	}
	runCase = mkRun(s, func(o op) string { return o.coq() })
	runX = mkRun(sx, func(o op) string { return o.xcoq() })

	// preambles that fill the screen with distinct glyphs so that every shift shows
	fill := func(g *gen, styled bool) []op {
		var ops []op
		if styled {
			ops = append(ops, op{Name: "SGR", Sgr: []string{"SBg 4", "SBold"}, SgrB: "44;1"})
		}
		for r := 0; r < g.h; r++ {
			ops = append(ops, op{Name: "CUP", P: []par{{N: int64(r + 1)}, {N: 1}}})
			for c := 0; c < g.w; c++ {
				ops = append(ops, op{Name: "Print", G: string(rune('A' + (r*g.w+c)%26)), W: 1})
			}
		}
		if styled {
			ops = append(ops, op{Name: "SGR", Sgr: []string{"SBg 2"}, SgrB: "42"})
		}
		return ops
	}

	// every operation shape once (and, thorough, every pair) at every cursor position class
	vocab := func(g *gen) []op {
		var v []op
		v = append(v, op{Name: "Print", G: "x", W: 1}, op{Name: "Print", G: "中", W: 2})
		for _, n := range []string{"CR", "LF", "IND", "RI", "NEL", "DECSC", "DECRC", "AltOn", "AltOff"} {
			v = append(v, op{Name: n})
		}
		for n := range final1 {
			for _, p := range []par{{Om: true}, {N: 0}, {N: 1}, {N: 2}, {N: int64(maxi(g.w, g.h))}, {N: 65536}} {
				if (n == "ED" || n == "EL") && p.N > 2 {
					continue
				}
				v = append(v, op{Name: n, P: []par{p}})
			}
		}
		for n := range final2 {
			for _, a := range []par{{Om: true}, {N: 0}, {N: 1}, {N: 2}, {N: int64(g.h + 1)}} {
				for _, b := range []par{{Om: true}, {N: 0}, {N: 2}, {N: int64(maxi(g.w, g.h))}} {
					v = append(v, op{Name: n, P: []par{a, b}})
				}
			}
		}
		v = append(v, op{Name: "SGR"}, op{Name: "SGR", Sgr: []string{"SReverse"}, SgrB: "7"}, op{Name: "SGR", Sgr: []string{"SBgIdx 200"}, SgrB: "48;5;200"})
		// hyperlinks: plain, closing, and targets containing ';' ':' '=' (with and without params)
		for _, l := range [][2]string{{"", "http://a"}, {"", ""}, {"id=1", "http://a/b;c"}, {"", "x;y;z"}, {"id=a:k=v", "m:a@b?s=x;y=z"},
			{"", ";"}, {"id=x=y", "u"}, {"", "data:text/plain;charset=utf-8;base64,aGk="}} {
			v = append(v, op{Name: "Link", LinkP: l[0], LinkU: l[1]})
		}
		return v
	}

	sizes := [][2]int{{2, 2}, {3, 3}}
	if cfg.Thorough() {
		sizes = [][2]int{{2, 2}, {3, 2}, {2, 3}, {3, 3}, {4, 3}}
	}
	for _, sz := range sizes {
		g := &gen{r: cfg.Rand, w: sz[0], h: sz[1]}
		voc := vocab(g)
		for _, styled := range []bool{false, true} {
			for pi, pos := range [][2]int{{1, 1}, {g.h, g.w}, {(g.h + 1) / 2, (g.w + 1) / 2}, {g.h, 1}, {1, g.w}} {
				pre := append(fill(g, styled), op{Name: "CUP", P: []par{{N: int64(pos[0])}, {N: int64(pos[1])}}})
				if !cfg.Thorough() && ((styled && pi != 2) || (!styled && pi > 2)) {
					continue
				}
				for _, o := range voc {
					ops := append(append([]op{}, pre...), lightIfCursorOnly(o), op{Name: "Print", G: "q", W: 1})
					runCase(g.w, g.h, len(pre), ops, "exhaustive-1", fmt.Sprintf("size-%dx%d", g.w, g.h))
				}
			}
		}
		// with a scrolling region in place: cursor below it, above it, on its edges
		if g.h >= 3 && (cfg.Thorough() || (g.w == 3 && g.h == 3)) {
			type rg struct{ t, b, r int }
			for _, v := range []rg{{1, g.h - 1, g.h}, {2, g.h, 1}, {2, g.h, g.h}, {1, g.h - 1, 1}} {
				pre := append(fill(g, true), op{Name: "DECSTBM", P: []par{{N: int64(v.t)}, {N: int64(v.b)}}},
					op{Name: "CUP", P: []par{{N: int64(v.r)}, {N: 2}}})
				for _, o := range voc {
					ops := append(append([]op{}, pre...), lightIfCursorOnly(o), op{Name: "Print", G: "q", W: 1})
					runCase(g.w, g.h, len(pre), ops, "exhaustive-1-region", fmt.Sprintf("size-%dx%d", g.w, g.h))
				}
				if cfg.Thorough() && g.w*g.h <= 9 {
					for _, o1 := range voc {
						for _, o2 := range voc {
							if cfg.Rand.Intn(40) != 0 {
								continue
							}
							ops := append(append([]op{}, pre...), o1, o2, op{Name: "Print", G: "q", W: 1})
							runCase(g.w, g.h, len(pre), ops, "exhaustive-2", fmt.Sprintf("size-%dx%d", g.w, g.h))
						}
					}
				}
			}
		}
	}
	// random histories
	n := 400
	if cfg.Thorough() {
		n = 4000
	}
	for i := 0; i < n; i++ {
		g := &gen{r: cfg.Rand, w: 2 + cfg.Rand.Intn(5), h: 2 + cfg.Rand.Intn(4)}
		var ops []op
		skip := 0
		switch cfg.Rand.Intn(3) {
		case 0:
			ops = fill(g, cfg.Rand.Intn(2) == 0)
			skip = len(ops) - 1
		case 1:
			for k := 0; k < g.w*g.h/2; k++ {
				ops = append(ops, g.print())
			}
		}
		m := 6 + cfg.Rand.Intn(20)
		for k := 0; k < m; k++ {
			ops = append(ops, lightIfCursorOnly(g.op()))
		}
		runCase(g.w, g.h, skip, ops, "random", fmt.Sprintf("len-%d0s", len(ops)/10))
	}
	// directed boundary classes and random histories biased towards them (boundary.go)
	boundary(cfg.Thorough(), cfg.Rand, runCase, fill)
	// SGR: every spelling of indexed and direct colours for 38, 48 and 58 (sgrspell.go)
	sgrSpellings(cfg.Thorough(), cfg.Rand, runX)
	cfg.Write("C06", "operation sequences over the vocabulary of VtSpec.v (printable narrow and wide text, CR, LF, IND, RI, NEL, CUU..CUP/HVP, ED, EL, ECH, ICH, DCH, IL, DL, SU, SD, DECSTBM, DECSC, DECRC, alternate screen, SGR, OSC 8 hyperlinks with targets and parameters over an alphabet containing \";\", \":\", \"=\") with parameters omitted, 0, 1, 2, size-1, size, size+1 and huge, on screens from 2x2: (a) every operation shape once after a preamble that fills the screen with distinct glyphs (plain and styled) and places the cursor in a corner, the middle or an edge, followed by one more glyph; thorough: also pairs of shapes inside a scrolling region; (b) random histories of 6-45 operations; (c) boundaries: on small screens every scrolling region shape (and none), the cursor on every line (on / one above / one below either margin, first, last line), then CUU CUD CNL CPL VPR VPA with every parameter omitted, 0..height+1, 65535, 65536, 2^63-1, IL DL SU SD with parameters around the distance to the bottom margin and the region height and huge, IND RI NEL LF, and autowrap by a narrow glyph, a wide glyph that does not fit and after a wide glyph ending in the last column; every column with CUF CUB HPR CHA HPA ECH ICH DCH ED EL and glyphs; the deferred-wrap state (after a narrow or a wide glyph, inside / on the bottom margin of / below / above a region) followed by every operation specified in it (CUP/HVP onto the same cell, beyond the width, elsewhere; CHA HPA VPA CR SGR hyperlink glyphs) and two glyphs; DECSC/DECRC/1049 combinations with differing saved position and pen on both screens; saved cursors against scrolling regions: every region shape (and none) x the saved line on every line of the screen (above, on either margin, inside, below the region) x DECSC..DECRC on the normal screen, ?1049h..?1049l, DECSC..DECRC on the alternate screen x the region set before the save or between the save and the restore, then a glyph, an index and a second restore; (d) random histories that aim at those positions, with save / change region / work elsewhere / restore episodes started on lines near and below the margins; written as bytes, parsed by the real ansi.Parser; the complete emulator state is observed after every operation under test (size, cursor, wrap flag and region after every other one); (e) stream sgrx: SGR with every spelling of the indexed and direct colours of the foreground (38), background (48) and underline colour (58): semicolons, colons, colons with the colourspace slot (empty, 0, a number), colon forms that spell nothing (38:5, 38:2, 38:2:r:g), semicolon forms cut short by the end of the sequence, alone and inside longer parameter lists, from a default and a coloured pen, each followed by a glyph, EL, ICH, ECH, a wide glyph, DCH, IL and a scroll so that the pen reaches printed and erased cells; random histories of the whole vocabulary with such SGRs mixed in; non-trivial = at least three different operations in the history",
		[]*hx.Stream{s, sx}, map[string]interface{}{"reparsed_after_escape_timer": reparsed}, nil)
}

func maxi(a, b int) int {
	if a > b {
		return a
	}
	return b
}
