// C06, stream sgrx: SGR with every spelling of the extended colours (coq/model/VtSgrSpell.v).
// A command is a Coq constructor (what it means) together with the parameter text the child
// writes (how it is spelled); the reference terminal gives all spellings the same meaning.
package main

import (
	"fmt"
	"math/rand"
	"strings"

	"verif/harness/hx"
)

func (o op) xcoq() string {
	if o.Name == "XSGR" {
		return "XSGR " + hx.List(o.X)
	}
	return "XV (" + o.coq() + ")"
}

// one command: constructor and parameter text
type xcmd struct{ c, p string }

var targets = []struct {
	code int
	coq  string
}{{38, "TFg"}, {48, "TBg"}, {58, "TUl"}}

func xidx(t int, colon bool, n int) xcmd {
	sep, b := ";", "false"
	if colon {
		sep, b = ":", "true"
	}
	return xcmd{fmt.Sprintf("XIdx %s %s %d", targets[t].coq, b, n), fmt.Sprintf("%d%s5%s%d", targets[t].code, sep, sep, n)}
}

// sp: 0 semicolons, 1 colons, 2 colons with an empty colourspace slot, 3 colons with the slot = cs
func xrgb(t, sp, cs, r, g, b int) xcmd {
	k := targets[t]
	switch sp {
	case 0:
		return xcmd{fmt.Sprintf("XRgb %s SpSemi %d %d %d", k.coq, r, g, b), fmt.Sprintf("%d;2;%d;%d;%d", k.code, r, g, b)}
	case 1:
		return xcmd{fmt.Sprintf("XRgb %s SpColon %d %d %d", k.coq, r, g, b), fmt.Sprintf("%d:2:%d:%d:%d", k.code, r, g, b)}
	case 2:
		return xcmd{fmt.Sprintf("XRgb %s (SpColonCs 0) %d %d %d", k.coq, r, g, b), fmt.Sprintf("%d:2::%d:%d:%d", k.code, r, g, b)}
	}
	return xcmd{fmt.Sprintf("XRgb %s (SpColonCs %d) %d %d %d", k.coq, cs, r, g, b), fmt.Sprintf("%d:2:%d:%d:%d:%d", k.code, cs, r, g, b)}
}

func ints(l []int, sep string) string {
	var s []string
	for _, v := range l {
		s = append(s, fmt.Sprint(v))
	}
	return strings.Join(s, sep)
}

// a colon form with 2 or 4 sub-parameters: spells nothing
func xshort(t int, l []int) xcmd {
	return xcmd{fmt.Sprintf("XShort %s [%s]", targets[t].coq, ints(l, "; ")), fmt.Sprintf("%d:%s", targets[t].code, ints(l, ":"))}
}

// a semicolon form cut short by the end of the sequence (last command only)
func xcut(t int, l []int) xcmd {
	p := fmt.Sprint(targets[t].code)
	if len(l) > 0 {
		p += ";" + ints(l, ";")
	}
	return xcmd{fmt.Sprintf("XCut %s [%s]", targets[t].coq, ints(l, "; ")), p}
}

func xc(c, p string) xcmd { return xcmd{"XC (" + c + ")", p} }

func xsgr(cmds ...xcmd) op {
	var cs, ps []string
	for _, c := range cmds {
		cs, ps = append(cs, c.c), append(ps, c.p)
	}
	return op{Name: "XSGR", X: cs, SgrB: strings.Join(ps, ";")}
}

// every spelling of one colour for target t; the cut forms last
func spellings(t int, r, g, b, n int) (anywhere, lastOnly []xcmd) {
	anywhere = []xcmd{xidx(t, false, n), xidx(t, true, n),
		xrgb(t, 0, 0, r, g, b), xrgb(t, 1, 0, r, g, b), xrgb(t, 2, 0, r, g, b), xrgb(t, 3, 0, r, g, b), xrgb(t, 3, 1, r, g, b),
		xshort(t, []int{5}), xshort(t, []int{2}), xshort(t, []int{2, r, g}), xshort(t, []int{5, n, 0})}
	lastOnly = []xcmd{xcut(t, nil), xcut(t, []int{5}), xcut(t, []int{2}), xcut(t, []int{2, r}), xcut(t, []int{2, r, g})}
	return
}

// what follows an SGR so that the pen reaches cells: a glyph, the erasing and shifting
// operations (their blanks take the background), a wide glyph, a scroll
func penReaches() []op {
	return []op{{Name: "Print", G: "x", W: 1}, {Name: "EL", P: []par{{Om: true}}},
		{Name: "CUP", P: []par{{N: 2}, {N: 1}}, L: true}, {Name: "ICH", P: []par{{N: 2}}},
		{Name: "Print", G: "中", W: 2}, {Name: "ECH", P: []par{{N: 1}}}, {Name: "DCH", P: []par{{Om: true}}},
		{Name: "IL", P: []par{{N: 1}}}, {Name: "SU", P: []par{{N: 1}}}, {Name: "ED", P: []par{{N: 1}}},
		{Name: "LF"}, {Name: "LF"}, {Name: "Print", G: "y", W: 1}}
}

func (g *gen) xrandom() op {
	n := 1 + g.r.Intn(4)
	byteV := func() int {
		switch g.r.Intn(6) {
		case 0:
			return 0
		case 1:
			return 255
		}
		return g.r.Intn(256)
	}
	var cmds []xcmd
	for i := 0; i < n; i++ {
		t := g.r.Intn(3)
		switch k := g.r.Intn(12); {
		case k < 2:
			cmds = append(cmds, xidx(t, g.r.Intn(2) == 0, byteV()))
		case k < 7:
			cmds = append(cmds, xrgb(t, g.r.Intn(4), []int{0, 0, 1, byteV()}[g.r.Intn(4)], byteV(), byteV(), byteV()))
		case k < 8:
			any, _ := spellings(t, byteV(), byteV(), byteV(), byteV())
			cmds = append(cmds, any[7+g.r.Intn(4)])
		case k < 9:
			cmds = append(cmds, xc("SReset", "0"), xc("SUnderline", "4"))
		case k < 10:
			cmds = append(cmds, xcmd{"XUlDefault", "59"})
		default:
			o := g.sgr()
			// the spelling of main.go's generator is the one of VtSpec.v
			if len(o.Sgr) > 0 {
				cmds = append(cmds, xcmd{"XC (" + strings.Join(o.Sgr, "); XC (") + ")", o.SgrB})
			}
		}
	}
	if g.r.Intn(6) == 0 {
		_, last := spellings(g.r.Intn(3), byteV(), byteV(), byteV(), byteV())
		cmds = append(cmds, last[g.r.Intn(len(last))])
	}
	if len(cmds) == 0 {
		return op{Name: "XSGR"}
	}
	return xsgr(cmds...)
}

func sgrSpellings(thorough bool, rnd *rand.Rand, run func(w, h int, skip int, ops []op, tags ...string)) {
	colours := [][4]int{{10, 20, 30, 200}}
	if thorough {
		colours = append(colours, [4]int{255, 0, 1, 0}, [4]int{0, 0, 0, 255})
	}
	// a pen whose three colours are set, so that a form that spells nothing is seen to change nothing
	coloured := xsgr(xc("SFg 1", "31"), xc("SBg 4", "44"), xidx(2, true, 9), xc("SUnderline", "4"))
	for t := range targets {
		for _, col := range colours {
			any, last := spellings(t, col[0], col[1], col[2], col[3])
			for ci, c := range append(append([]xcmd{}, any...), last...) {
				isLast := ci >= len(any)
				shapes := [][]xcmd{{c}, {xc("SBold", "1"), c}}
				if !isLast {
					shapes = append(shapes, []xcmd{xc("SBold", "1"), c, xc("SItalic", "3")},
						[]xcmd{xrgb((t+1)%3, 2, 0, 1, 2, 3), c, xidx((t+2)%3, true, 7)})
				}
				for si, sh := range shapes {
					for _, pre := range [][]op{nil, {coloured}} {
						if !thorough && pre != nil && si != 2 && !(isLast && si == 1) {
							continue
						}
						ops := append(append([]op{}, pre...), xsgr(sh...))
						ops = append(ops, penReaches()...)
						run(4, 3, 0, ops, "sgr-spelling", fmt.Sprintf("sgr-target-%d", targets[t].code))
					}
				}
			}
		}
	}
	// the empty SGR and 59
	run(4, 2, 0, append([]op{coloured, {Name: "Print", G: "a", W: 1}, xsgr(xcmd{"XUlDefault", "59"}), {Name: "Print", G: "b", W: 1},
		{Name: "XSGR"}}, penReaches()[:4]...), "sgr-spelling")
	// random histories over the whole vocabulary with spelled SGRs mixed in
	n := 150
	if thorough {
		n = 1500
	}
	for i := 0; i < n; i++ {
		g := &gen{r: rnd, w: 2 + rnd.Intn(5), h: 2 + rnd.Intn(4)}
		var ops []op
		m := 8 + rnd.Intn(20)
		for k := 0; k < m; k++ {
			switch j := rnd.Intn(10); {
			case j < 3:
				ops = append(ops, g.xrandom())
			case j < 5:
				ops = append(ops, g.print())
			case j < 7:
				ops = append(ops, g.one([]string{"EL", "ED", "ECH", "ICH", "DCH", "IL", "DL", "SU", "SD"}[rnd.Intn(9)]))
			default:
				o := g.op()
				if o.Name == "SGR" {
					o = g.xrandom()
				}
				ops = append(ops, lightIfCursorOnly(o))
			}
		}
		run(g.w, g.h, 0, ops, "sgr-random", fmt.Sprintf("len-%d0s", len(ops)/10))
	}
}
