// Directed boundary generator for C06: scrolling regions of every shape on small screens,
// the cursor on every line (so: exactly on / one above / one below the top and the bottom
// margin, on the first and on the last line), then every relative vertical move and every
// scroll with parameters omitted, 0, 1, the distances to the margins +-1, the region height
// +-1 and huge; the same horizontally for every column up to the last one and for the
// deferred-wrap state; the saved cursors around alternate-screen switches; the saved cursor on
// every line relative to every scrolling region (restoring ignores the region); and random
// histories biased towards those positions.
package main

import (
	"fmt"
	"math/rand"
)

type runFn func(w, h, skip int, ops []op, tags ...string)
type fillFn func(g *gen, styled bool) []op

const maxPar = int64(9223372036854775807)

// pars: explicit parameters, negatives dropped, duplicates removed, after the omitted one
func pars(om bool, ns ...int64) []par {
	var out []par
	if om {
		out = append(out, par{Om: true})
	}
	seen := map[int64]bool{}
	for _, n := range ns {
		if n < 0 || seen[n] {
			continue
		}
		seen[n] = true
		out = append(out, par{N: n})
	}
	return out
}

func upTo(n int) []int64 {
	var out []int64
	for i := 0; i <= n; i++ {
		out = append(out, int64(i))
	}
	return out
}

func cup(r, c int) op { return op{Name: "CUP", P: []par{{N: int64(r)}, {N: int64(c)}}} }
func pr(s string) op {
	if s == "中" {
		return op{Name: "Print", G: s, W: 2}
	}
	return op{Name: "Print", G: s, W: 1}
}
func o1(name string, p par) op { return op{Name: name, P: []par{p}} }

func light(o op) op { o.L = true; return o }

// marks: one distinct glyph at the start of every line (under a coloured pen), so that every
// movement of a line shows; then a different background for the cells erased afterwards
func marks(g *gen) []op {
	ops := []op{{Name: "SGR", Sgr: []string{"SBg 4", "SBold"}, SgrB: "44;1"}}
	for r := 0; r < g.h; r++ {
		ops = append(ops, cup(r+1, 1), pr(string(rune('A'+r))))
	}
	return append(ops, op{Name: "SGR", Sgr: []string{"SBg 2"}, SgrB: "42"})
}

type region struct {
	t, b int
	set  bool // false: no DECSTBM is sent (the default region)
}

func allRegions(h int) []region {
	rs := []region{{1, h, false}}
	for t := 1; t <= h; t++ {
		for b := t + 1; b <= h; b++ {
			rs = append(rs, region{t, b, true})
		}
	}
	return rs
}

func boundary(thorough bool, rng *rand.Rand, run runFn, fill fillFn) {
	huge := []int64{65535, 65536, maxPar}

	// ---------------------------------------------------------------- vertical
	type vsize struct {
		w, h int
		rs   []region
	}
	vs := []vsize{{3, 4, allRegions(4)}, {2, 7, []region{{3, 5, true}}}}
	if thorough {
		vs = []vsize{{3, 3, allRegions(3)}, {3, 4, allRegions(4)}, {2, 5, allRegions(5)}, {4, 5, allRegions(5)}, {3, 6, allRegions(6)},
			{2, 7, []region{{3, 5, true}, {2, 6, true}, {3, 4, true}, {1, 6, true}, {2, 7, true}}}}
	}
	for _, v := range vs {
		g := &gen{r: rng, w: v.w, h: v.h}
		sz := fmt.Sprintf("size-%dx%d", v.w, v.h)
		for _, rg := range v.rs {
			rh := int64(rg.b - rg.t + 1)
			for r := 1; r <= v.h; r++ {
				c := 2
				pre := marks(g)
				if rg.set {
					pre = append(pre, op{Name: "DECSTBM", P: []par{{N: int64(rg.t)}, {N: int64(rg.b)}}})
				}
				pre = append(pre, cup(r, c))
				skip := len(pre)
				with := func(tail ...op) []op { return append(append([]op{}, pre...), tail...) }
				// cursor moves: every parameter in one history (the cursor is put back each time)
				all := append(upTo(v.h+1), huge...)
				for _, name := range []string{"CUU", "CUD", "CNL", "CPL", "VPR", "VPA"} {
					var tail []op
					for i, p := range pars(true, all...) {
						if i > 0 {
							tail = append(tail, light(cup(r, c)))
						}
						tail = append(tail, light(o1(name, p)))
					}
					run(v.w, v.h, skip, with(append(tail, pr("q"))...), "boundary-v-move", sz)
				}
				// scrolls and line insertion / deletion: one history per parameter
				toBot := int64(rg.b - r)
				ild := pars(true, 0, 1, toBot, toBot+1, toBot+2, 65536, maxPar)
				if r < rg.t || r > rg.b {
					ild = pars(true, 65536) // outside the region IL / DL do nothing
				}
				for _, name := range []string{"IL", "DL"} {
					for _, p := range ild {
						run(v.w, v.h, skip, with(o1(name, p)), "boundary-v-lines", sz)
					}
				}
				for _, name := range []string{"SU", "SD"} {
					if r != rg.t && !thorough { // SU / SD do not look at the cursor
						break
					}
					for _, p := range pars(true, 0, 1, rh-1, rh, rh+1, 65536, maxPar) {
						run(v.w, v.h, skip, with(o1(name, p)), "boundary-v-scroll", sz)
					}
				}
				for _, name := range []string{"IND", "RI", "NEL", "LF"} {
					run(v.w, v.h, skip, with(op{Name: name}), "boundary-v-index", sz)
				}
				// autowrap on this line: after a glyph in the last column, by a wide glyph that
				// does not fit, after a wide glyph that ends in the last column
				run(v.w, v.h, skip, with(light(cup(r, v.w)), light(pr("x")), pr("y"), light(pr("z"))), "boundary-v-wrap", sz)
				run(v.w, v.h, skip, with(light(cup(r, v.w)), pr("中"), light(pr("z"))), "boundary-v-wrap", sz)
				run(v.w, v.h, skip, with(light(cup(r, v.w-1)), light(pr("中")), pr("y"), light(pr("z"))), "boundary-v-wrap", sz)
			}
		}
	}

	// ---------------------------------------------------------------- horizontal
	ws := []int{2, 3, 4}
	if thorough {
		ws = []int{2, 3, 4, 5}
	}
	for _, w := range ws {
		h := 3
		g := &gen{r: rng, w: w, h: h}
		sz := fmt.Sprintf("size-%dx%d", w, h)
		for c := 1; c <= w; c++ {
			pre := append(fill(g, true), cup(2, c))
			skip := len(pre)
			with := func(tail ...op) []op { return append(append([]op{}, pre...), tail...) }
			all := append(upTo(w+1), huge...)
			for _, name := range []string{"CUF", "CUB", "HPR", "CHA", "HPA"} {
				var tail []op
				for i, p := range pars(true, all...) {
					if i > 0 {
						tail = append(tail, light(cup(2, c)))
					}
					tail = append(tail, light(o1(name, p)))
				}
				run(w, h, skip, with(append(tail, pr("q"))...), "boundary-h-move", sz)
			}
			left := int64(w - c + 1) // cells from the cursor to the end of the line
			for _, name := range []string{"ECH", "ICH", "DCH"} {
				for _, p := range pars(true, 0, 1, left-1, left, left+1, int64(w), 65536, maxPar) {
					run(w, h, skip, with(o1(name, p)), "boundary-h-chars", sz)
				}
			}
			for _, name := range []string{"ED", "EL"} {
				for _, p := range pars(true, 0, 1, 2, 3) {
					run(w, h, skip, with(o1(name, p)), "boundary-h-erase", sz)
				}
			}
			run(w, h, skip, with(pr("x"), pr("q")), "boundary-h-print", sz)
			run(w, h, skip, with(pr("中"), pr("q")), "boundary-h-print", sz)
		}
		// the deferred-wrap state: reached by a narrow glyph in the last column or a wide glyph
		// ending there, on a line that is inside the region, on its bottom margin, below it on
		// the last line, above it; then every operation specified in that state, then glyphs
		type place struct {
			rg region
			r  int
		}
		places := []place{{region{1, 3, false}, 1}, {region{1, 3, false}, 3}, {region{1, 2, true}, 2}, {region{1, 2, true}, 3}, {region{2, 3, true}, 1}}
		if thorough {
			places = nil
			for _, rg := range allRegions(h) {
				for r := 1; r <= h; r++ {
					places = append(places, place{rg, r})
				}
			}
		}
		if w > 3 && !thorough {
			continue
		}
		for pi, pl := range places {
			for way := 0; way < 2; way++ {
				pre := marks(g)
				if pl.rg.set {
					pre = append(pre, op{Name: "DECSTBM", P: []par{{N: int64(pl.rg.t)}, {N: int64(pl.rg.b)}}})
				}
				if way == 0 {
					pre = append(pre, cup(pl.r, w), pr("x"))
				} else {
					pre = append(pre, cup(pl.r, w-1), pr("中"))
				}
				skip := len(pre)
				r64, w64 := int64(pl.r), int64(w)
				var mid []op
				for _, name := range []string{"CUP", "HVP"} {
					for _, rc := range [][2]par{{{N: r64}, {N: w64}}, {{N: r64}, {N: w64 + 1}}, {{N: r64}, {N: 65536}}, {{N: r64}, {N: maxPar}},
						{{N: r64}, {Om: true}}, {{N: r64}, {N: w64 - 1}}, {{Om: true}, {N: w64}}, {{N: int64(h)}, {N: w64}}, {{N: int64(h) + 1}, {N: w64 + 1}}} {
						if name == "HVP" && (rc[1].N > w64+1 || rc[1].N == w64-1 || rc[0].N > r64 || rc[1].Om) {
							continue
						}
						mid = append(mid, op{Name: name, P: []par{rc[0], rc[1]}})
					}
				}
				for _, p := range pars(true, 0, w64-1, w64, w64+1, 65536) {
					mid = append(mid, o1("CHA", p))
				}
				for _, p := range pars(false, w64, w64+1) {
					mid = append(mid, o1("HPA", p))
				}
				for _, p := range pars(true, r64, int64(h)+1) {
					mid = append(mid, o1("VPA", p))
				}
				mid = append(mid, op{Name: "CR"}, op{Name: "SGR"}, op{Name: "SGR", Sgr: []string{"SReverse"}, SgrB: "7"},
					op{Name: "Link", LinkU: "http://a"}, pr("y"), pr("中"))
				if pi > 0 && !thorough {
					mid = []op{cup(pl.r, w), o1("CHA", par{N: w64}), o1("VPA", par{N: r64}), {Name: "CR"}, pr("y"), pr("中")}
				}
				for _, m := range mid {
					ops := append(append([]op{}, pre...), light(m), light(pr("q")), pr("z"))
					run(w, h, skip, ops, "boundary-h-pending", sz)
				}
			}
		}
	}

	// ---------------------------------------------------------------- saved cursors
	{
		g := &gen{r: rng, w: 3, h: 3}
		red := op{Name: "SGR", Sgr: []string{"SFg 1", "SBg 4"}, SgrB: "31;44"}
		reset := op{Name: "SGR"}
		n := func(names ...string) []op {
			var out []op
			for _, s := range names {
				out = append(out, op{Name: s})
			}
			return out
		}
		firsts := [][]op{nil, n("DECSC"), n("AltOn", "AltOff"), n("AltOn"), n("AltOn", "DECSC"),
			{{Name: "DECSC"}, {Name: "DECSTBM", P: []par{{N: 2}, {N: 3}}}}}
		seconds := [][]op{n("DECRC"), n("AltOff"), n("AltOff", "AltOff"), n("AltOn"), n("AltOn", "DECRC"), n("AltOn", "AltOff"),
			n("AltOn", "DECSC", "AltOff"), n("AltOn", "AltOn", "AltOff"), n("DECSC", "AltOff"), n("AltOff", "DECRC")}
		for _, pos := range [][4]int{{2, 2, 3, 3}, {3, 3, 1, 1}} {
			for _, f := range firsts {
				for _, s := range seconds {
					ops := append(marks(g), cup(pos[0], pos[1]), red)
					skip := len(ops)
					for _, o := range f {
						ops = append(ops, light(o))
					}
					ops = append(ops, light(reset), light(cup(pos[2], pos[3])), light(pr("a")), light(op{Name: "CR"}))
					for i, o := range s {
						if i < len(s)-1 {
							o = light(o)
						}
						ops = append(ops, o)
					}
					ops = append(ops, light(pr("q")), light(o1("EL", par{Om: true})), o1("SU", par{N: 1}))
					run(g.w, g.h, skip, ops, "boundary-saved", "size-3x3")
				}
			}
		}
	}

	// ---------------------------------------------------------------- saved cursors and scrolling regions
	// Restoring a cursor puts it back on the absolute saved line and column; the scrolling
	// region plays no part (no origin mode in the vocabulary).  Every region shape (and none)
	// x the saved line on every line of the screen (above / on the top margin / inside / on the
	// bottom margin / below the region, first and last line) x the save/restore pairs of the
	// vocabulary (DECSC..DECRC on the normal screen, ?1049h..?1049l, DECSC..DECRC on the
	// alternate screen) x the region set before the save or between the save and the restore
	// (over a different region that was there at the save).  After the restore a glyph and an
	// index show on which line, relative to the region, the cursor really is.
	{
		type ssize struct {
			w, h int
			rs   []region
		}
		ss := []ssize{{3, 4, allRegions(4)}, {2, 6, []region{{2, 4, true}, {3, 5, true}}}}
		if thorough {
			ss = []ssize{{3, 3, allRegions(3)}, {3, 4, allRegions(4)}, {2, 5, allRegions(5)}, {4, 6, allRegions(6)}, {2, 7, allRegions(7)}}
		}
		red := op{Name: "SGR", Sgr: []string{"SFg 1", "SBg 4"}, SgrB: "31;44"}
		stbm := func(rg region) op { return op{Name: "DECSTBM", P: []par{{N: int64(rg.t)}, {N: int64(rg.b)}}} }
		for _, v := range ss {
			g := &gen{r: rng, w: v.w, h: v.h}
			sz := fmt.Sprintf("size-%dx%d", v.w, v.h)
			for ri, rg := range v.rs {
				for r := 1; r <= v.h; r++ {
					for pair := 0; pair < 3; pair++ {
						for after := 0; after < 2; after++ {
							if after == 1 && !rg.set {
								continue
							}
							c := 2
							if (r+pair+after)%2 == 0 {
								c = v.w // the last column (no wrap pending: reached by CUP)
							}
							save, restore := op{Name: "DECSC"}, op{Name: "DECRC"}
							if pair == 1 {
								save, restore = op{Name: "AltOn"}, op{Name: "AltOff"}
							}
							var ops []op
							if pair == 2 {
								ops = append(ops, op{Name: "AltOn"})
							}
							ops = append(ops, marks(g)...)
							if other := v.rs[(ri+2)%len(v.rs)]; after == 0 && rg.set {
								ops = append(ops, stbm(rg))
							} else if after == 1 && ri%2 == 1 && other.set {
								// a different region is in place at the save
								ops = append(ops, stbm(other))
							}
							ops = append(ops, cup(r, c), red)
							skip := len(ops)
							ops = append(ops, save, light(op{Name: "SGR"}))
							if after == 1 {
								ops = append(ops, light(stbm(rg)))
							}
							// work elsewhere: inside the region, on its top line
							ops = append(ops, light(cup(rg.t, 1)), light(pr("a")))
							ops = append(ops, restore, pr("q"), light(cup(r, 1)), op{Name: "IND"}, light(restore), pr("z"))
							run(v.w, v.h, skip, ops, "boundary-saved-region", sz)
						}
					}
				}
			}
		}
	}

	// ---------------------------------------------------------------- random, biased to the boundaries
	n := 80
	if thorough {
		n = 2000
	}
	for i := 0; i < n; i++ {
		g := &gen{r: rng, w: 2 + rng.Intn(3), h: 3 + rng.Intn(3)}
		g.top, g.bot = 1, g.h
		ops := fill(g, rng.Intn(2) == 0)
		skip := len(ops)
		m := 5 + rng.Intn(10)
		for k := 0; k < m; k++ {
			switch j := rng.Intn(10); {
			case j < 1 || k == 0:
				o := op{Name: "DECSTBM", P: []par{{N: int64(1 + rng.Intn(g.h))}, {N: int64(1 + rng.Intn(g.h+1))}}}
				g.note(o)
				ops = append(ops, g.defined(o)...)
			case j < 6:
				ops = append(ops, g.near()...)
			case j < 7:
				ops = append(ops, g.savedEpisode()...)
			default:
				o := g.op()
				g.note(o)
				ops = append(ops, g.defined(o)...)
			}
		}
		run(g.w, g.h, skip, ops, "random-boundary", fmt.Sprintf("len-%d0s", len(ops)/10))
	}
}

// note: the scrolling region a VT has after this operation (the generator's own bookkeeping,
// used only to aim at the margins)
func (g *gen) note(o op) {
	if o.Name != "DECSTBM" {
		return
	}
	t, b := o.P[0].N, o.P[1].N
	if o.P[0].Om || t == 0 {
		t = 1
	}
	if o.P[1].Om || b == 0 || b > int64(g.h) {
		b = int64(g.h)
	}
	if t < b {
		g.top, g.bot = int(t), int(b)
	}
}

// marginRow: a line on, one above or one below a margin, or the first / last line
func (g *gen) marginRow() int {
	rows := []int{g.top - 1, g.top, g.top + 1, g.bot - 1, g.bot, g.bot + 1, g.bot + 1, 1, g.h, g.h}
	r := rows[g.r.Intn(len(rows))]
	if r < 1 {
		r = 1
	}
	if r > g.h {
		r = g.h
	}
	return r
}

// savedEpisode: the cursor is saved on a line near a margin (often below the region), then
// the region may change and the cursor works elsewhere, then the cursor is restored by the
// same or by the other mechanism, and a glyph and an index show where it is
func (g *gen) savedEpisode() []op {
	saves := [][]op{{{Name: "DECSC"}}, {{Name: "AltOn"}}, {{Name: "AltOn"}, {Name: "DECSC"}}, {{Name: "AltOff"}, {Name: "DECSC"}}}
	restores := [][]op{{{Name: "DECRC"}}, {{Name: "AltOff"}}, {{Name: "AltOn"}, {Name: "AltOff"}}, {{Name: "DECRC"}, {Name: "DECRC"}}}
	out := []op{light(cup(g.marginRow(), 1+g.r.Intn(g.w)))}
	out = append(out, saves[g.r.Intn(len(saves))]...)
	if g.r.Intn(2) == 0 {
		o := op{Name: "DECSTBM", P: []par{{N: int64(1 + g.r.Intn(g.h))}, {N: int64(1 + g.r.Intn(g.h+1))}}}
		g.note(o)
		out = append(out, o)
	}
	for k := g.r.Intn(3); k > 0; k-- {
		out = append(out, g.near()...)
	}
	// a wrap may be pending: an absolute move first (restoring is left open in that state)
	out = append(out, light(cup(g.top, 1)))
	out = append(out, restores[g.r.Intn(len(restores))]...)
	out = append(out, pr("q"))
	if g.r.Intn(2) == 0 {
		out = append(out, light(o1("CHA", par{Om: true})), op{Name: []string{"IND", "LF", "RI", "NEL"}[g.r.Intn(4)]})
	}
	return out
}

// the operations the reference terminal specifies while a wrap is pending (allowed_pending)
var inPending = map[string]bool{"Print": true, "CR": true, "CHA": true, "HPA": true, "VPA": true, "CUP": true, "HVP": true, "SGR": true, "Link": true}

// defined: a wrap may be pending here (the generator does not track it); an operation the
// property leaves open in that state would end the constrained part of the history, so it
// is preceded by an absolute move
func (g *gen) defined(o op) []op {
	if inPending[o.Name] {
		return []op{o}
	}
	return []op{light(cup(1+g.r.Intn(g.h), 1+g.r.Intn(g.w))), o}
}

// near: put the cursor on, one above or one below a margin, or on the first / last line, in
// the first, the last but one or the last column (possibly with a wrap pending), then one
// relative move, scroll, line or character operation with a parameter around the distances
// to the margins and the region height
func (g *gen) near() []op {
	rows := []int{g.top - 1, g.top, g.top + 1, g.bot - 1, g.bot, g.bot + 1, 1, g.h}
	r := rows[g.r.Intn(len(rows))]
	if r < 1 {
		r = 1
	}
	if r > g.h {
		r = g.h
	}
	c := []int{1, g.w - 1, g.w, g.w, g.w + 1}[g.r.Intn(5)]
	if c < 1 {
		c = 1
	}
	out := []op{light(cup(r, c))}
	pend := false
	if c >= g.w && g.r.Intn(3) == 0 {
		out = append(out, light(pr("x")))
		pend = true
	}
	rh := g.bot - g.top + 1
	vals := []int64{0, 1, int64(rh - 1), int64(rh), int64(rh + 1), int64(g.bot - r), int64(g.bot - r + 1), int64(r - g.top), int64(r - g.top + 1),
		int64(g.h), int64(g.w - c), int64(g.w - c + 1), int64(g.w), 65535, 65536, 131073, maxPar}
	p := par{Om: true}
	if g.r.Intn(8) != 0 {
		v := vals[g.r.Intn(len(vals))]
		if v < 0 {
			v = 0
		}
		p = par{N: v}
	}
	if pend {
		switch g.r.Intn(6) {
		case 0:
			out = append(out, op{Name: "CUP", P: []par{{N: int64(r)}, {N: int64(g.w + g.r.Intn(2))}}})
		case 1:
			out = append(out, o1([]string{"CHA", "HPA"}[g.r.Intn(2)], par{N: int64(g.w + g.r.Intn(2))}))
		case 2:
			out = append(out, o1("VPA", par{N: int64(r)}))
		case 3:
			out = append(out, op{Name: "CR"})
		case 4:
			out = append(out, pr("中"))
		}
		return append(out, pr("y"))
	}
	switch k := g.r.Intn(20); {
	case k < 8:
		out = append(out, o1([]string{"CUU", "CUD", "CNL", "CPL", "VPR", "VPA", "CUU", "CUD"}[k], p))
	case k < 12:
		out = append(out, o1([]string{"IL", "DL", "SU", "SD"}[k-8], p))
	case k < 16:
		out = append(out, op{Name: []string{"IND", "RI", "NEL", "LF"}[k-12]})
	case k < 19:
		out = append(out, o1([]string{"CUF", "CUB", "HPR", "ECH", "ICH", "DCH"}[g.r.Intn(6)], p))
	default:
		out = append(out, []op{{Name: "DECSC"}, {Name: "DECRC"}, {Name: "AltOn"}, {Name: "AltOff"}}[g.r.Intn(4)])
	}
	if cursorOnly[out[len(out)-1].Name] {
		out[len(out)-1].L = true
	}
	if g.r.Intn(2) == 0 {
		out = append(out, pr("q"))
	}
	return out
}
