package main

// Part of GenAccess (property C10): the facts the query/reply hand-off model of
// coq/model/Conc.v (Part D) is instantiated with.  Emitted at the end of
// GenAccess.v by accState.emit.
//
//  chan_caps   for every channel-valued field of Vaxis, writer, ansi.Parser: the
//              capacity written in its (single) make call; 0 for an unbuffered
//              make, -1 when the capacity is not an integer literal (the event
//              queue: Options.EventQueueSize).
//  chan_ops    every send, receive and close on such a field, with the function
//              it occurs in (function literals are attributed to the enclosing
//              declaration) and how it is performed:
//                0 blocking      a bare statement/expression, a range loop, or
//                                the only case of a select without default
//                1 non-blocking  case of a select that has a default clause
//                2 timed         case of a select (without default) that also has
//                                a case receiving from a chan time.Time
//                                (time.After, Timer.C), or from the Done channel
//                                of a context that the same function created
//                                with context.WithTimeout / WithDeadline (a
//                                context passed in by the caller is not a timer:
//                                it may never end)
//                3 multi         case of a select over several channels, no
//                                default, no timer
//  cpr_*       the protocol of the cursor-position request flag
//              Vaxis.reqCursorPos: where CursorPosition sets it relative to the
//              write of the query, on which branches of its select it clears it,
//              and where the 'R' handler of handleSequence clears it relative to
//              its send.  Any other access to the flag, or another shape of the
//              two functions, is outside the accepted grammar (die).

import (
	"fmt"
	"go/ast"
	"go/parser"
	"go/token"
	"go/types"
	"os"
	"path/filepath"
	"sort"
	"strings"
)

type qryOp struct {
	field, fn string
	op, mode  int
	pos       token.Pos
}

type qryWalk struct {
	st   *accState
	pk   *accPkg
	fn   string
	ops  []qryOp
	done map[ast.Node]bool
	body *ast.BlockStmt // body of the declaration being walked (for isLocalDeadline)
}

// field resolves e (possibly parenthesised) to a tracked channel field
func (q *qryWalk) field(e ast.Expr) (string, bool) {
	for {
		p, ok := e.(*ast.ParenExpr)
		if !ok {
			break
		}
		e = p.X
	}
	sel, ok := e.(*ast.SelectorExpr)
	if !ok {
		return "", false
	}
	w := &accWalker{st: q.st, pk: q.pk}
	id, ok := w.trackedField(sel)
	if !ok || !accIsChan(q.st.fieldType[id]) {
		return "", false
	}
	return q.st.fields[id], true
}

func (q *qryWalk) isTimeChan(e ast.Expr) bool {
	tv, ok := q.pk.info.Types[e]
	if !ok {
		return false
	}
	ch, ok := tv.Type.Underlying().(*types.Chan)
	if !ok {
		return false
	}
	n, ok := ch.Elem().(*types.Named)
	return ok && n.Obj().Pkg() != nil && n.Obj().Pkg().Path() == "time" && n.Obj().Name() == "Time"
}

// isLocalDeadline: e is `ctx.Done()` where ctx is a variable that the function being
// walked defines as the first result of context.WithTimeout or context.WithDeadline
func (q *qryWalk) isLocalDeadline(e ast.Expr) bool {
	call, ok := e.(*ast.CallExpr)
	if !ok || len(call.Args) != 0 || q.body == nil {
		return false
	}
	sel, ok := call.Fun.(*ast.SelectorExpr)
	if !ok || sel.Sel.Name != "Done" {
		return false
	}
	id, ok := sel.X.(*ast.Ident)
	if !ok {
		return false
	}
	obj := q.pk.info.Uses[id]
	if obj == nil {
		return false
	}
	found := false
	ast.Inspect(q.body, func(n ast.Node) bool {
		as, ok := n.(*ast.AssignStmt)
		if !ok || len(as.Rhs) != 1 || len(as.Lhs) < 1 {
			return true
		}
		lhs, ok := as.Lhs[0].(*ast.Ident)
		if !ok || (q.pk.info.Defs[lhs] != obj && q.pk.info.Uses[lhs] != obj) {
			return true
		}
		c, ok := as.Rhs[0].(*ast.CallExpr)
		if !ok {
			return true
		}
		fs, ok := c.Fun.(*ast.SelectorExpr)
		if !ok {
			return true
		}
		fo, _ := q.pk.info.Uses[fs.Sel].(*types.Func)
		if fo != nil && fo.Pkg() != nil && fo.Pkg().Path() == "context" && (fo.Name() == "WithTimeout" || fo.Name() == "WithDeadline") {
			found = true
		}
		return true
	})
	return found
}

// commRecv returns the channel expression of a receive used as a select case
// or statement: `<-c`, `v := <-c`, `v, ok = <-c`
func commRecv(s ast.Stmt) (ast.Expr, *ast.UnaryExpr) {
	var e ast.Expr
	switch v := s.(type) {
	case *ast.ExprStmt:
		e = v.X
	case *ast.AssignStmt:
		if len(v.Rhs) == 1 {
			e = v.Rhs[0]
		}
	}
	for {
		p, ok := e.(*ast.ParenExpr)
		if !ok {
			break
		}
		e = p.X
	}
	if u, ok := e.(*ast.UnaryExpr); ok && u.Op == token.ARROW {
		return u.X, u
	}
	return nil, nil
}

func (q *qryWalk) add(field string, op, mode int, pos token.Pos) {
	q.ops = append(q.ops, qryOp{field, q.fn, op, mode, pos})
}

func (q *qryWalk) selectStmt(s *ast.SelectStmt) {
	hasDefault, hasTimer, nch := false, false, 0
	for _, c := range s.Body.List {
		cc := c.(*ast.CommClause)
		if cc.Comm == nil {
			hasDefault = true
			continue
		}
		nch++
		if x, _ := commRecv(cc.Comm); x != nil && (q.isTimeChan(x) || q.isLocalDeadline(x)) {
			hasTimer = true
		}
	}
	mode := 0
	switch {
	case hasDefault:
		mode = 1
	case hasTimer:
		mode = 2
	case nch > 1:
		mode = 3
	}
	for _, c := range s.Body.List {
		cc := c.(*ast.CommClause)
		if cc.Comm == nil {
			continue
		}
		if snd, ok := cc.Comm.(*ast.SendStmt); ok {
			if f, ok := q.field(snd.Chan); ok {
				q.add(f, 0, mode, snd.Pos())
			}
			q.done[snd] = true
			continue
		}
		if x, u := commRecv(cc.Comm); x != nil {
			if f, ok := q.field(x); ok {
				q.add(f, 1, mode, u.Pos())
			}
			q.done[u] = true
		}
	}
}

func (q *qryWalk) walk(body *ast.BlockStmt) {
	q.body = body
	ast.Inspect(body, func(n ast.Node) bool {
		switch v := n.(type) {
		case *ast.SelectStmt:
			q.selectStmt(v)
		case *ast.SendStmt:
			if !q.done[v] {
				if f, ok := q.field(v.Chan); ok {
					q.add(f, 0, 0, v.Pos())
				}
			}
		case *ast.UnaryExpr:
			if v.Op == token.ARROW && !q.done[v] {
				if f, ok := q.field(v.X); ok {
					q.add(f, 1, 0, v.Pos())
				}
			}
		case *ast.RangeStmt:
			if f, ok := q.field(v.X); ok {
				q.add(f, 1, 0, v.Pos())
			}
		case *ast.CallExpr:
			if id, ok := v.Fun.(*ast.Ident); ok && id.Name == "close" && len(v.Args) == 1 {
				if _, isBuiltin := q.pk.info.Uses[id].(*types.Builtin); isBuiltin {
					if f, ok := q.field(v.Args[0]); ok {
						q.add(f, 2, 0, v.Pos())
					}
				}
			}
		}
		return true
	})
}

// makeCap: capacity of a make(chan T[, n]) expression; ok=false when e is not such a call
func (q *qryWalk) makeCap(e ast.Expr) (int64, bool) {
	call, ok := e.(*ast.CallExpr)
	if !ok {
		return 0, false
	}
	id, ok := call.Fun.(*ast.Ident)
	if !ok || id.Name != "make" || len(call.Args) < 1 {
		return 0, false
	}
	if _, isBuiltin := q.pk.info.Uses[id].(*types.Builtin); !isBuiltin {
		return 0, false
	}
	if _, isChan := call.Args[0].(*ast.ChanType); !isChan {
		return 0, false
	}
	if len(call.Args) == 1 {
		return 0, true
	}
	if n, ok := intLit(call.Args[1]); ok && n >= 0 {
		return n, true
	}
	return -1, true
}

// flagCall recognises atomicLoad(&vx.reqCursorPos) / atomicStore(&vx.reqCursorPos, b):
// kind 0 load, 1 store true, 2 store false
func (q *qryWalk) flagCall(e ast.Expr, flag string) (int, bool) {
	call, ok := e.(*ast.CallExpr)
	if !ok {
		return 0, false
	}
	id, ok := call.Fun.(*ast.Ident)
	if !ok || (id.Name != "atomicLoad" && id.Name != "atomicStore") || len(call.Args) < 1 {
		return 0, false
	}
	u, ok := call.Args[0].(*ast.UnaryExpr)
	if !ok || u.Op != token.AND {
		return 0, false
	}
	sel, ok := u.X.(*ast.SelectorExpr)
	if !ok {
		return 0, false
	}
	w := &accWalker{st: q.st, pk: q.pk}
	fid, ok := w.trackedField(sel)
	if !ok || q.st.fields[fid] != flag {
		return 0, false
	}
	if id.Name == "atomicLoad" {
		return 0, true
	}
	if len(call.Args) != 2 {
		die("query: %s: atomicStore with %d arguments", accPos(call.Pos()), len(call.Args))
	}
	b, ok := call.Args[1].(*ast.Ident)
	if !ok || (b.Name != "true" && b.Name != "false") {
		die("query: %s: the value stored into %s is not a boolean literal (outside the accepted grammar)", accPos(call.Pos()), flag)
	}
	if b.Name == "true" {
		return 1, true
	}
	return 2, true
}

// stmtFlag: s is the statement `atomicStore(&vx.flag, b)`
func (q *qryWalk) stmtFlag(s ast.Stmt, flag string) (int, bool) {
	es, ok := s.(*ast.ExprStmt)
	if !ok {
		return 0, false
	}
	return q.flagCall(es.X, flag)
}

func (q *qryWalk) countFlag(n ast.Node, flag string) int {
	c := 0
	ast.Inspect(n, func(m ast.Node) bool {
		if e, ok := m.(ast.Expr); ok {
			if _, ok := q.flagCall(e, flag); ok {
				c++
			}
		}
		return true
	})
	return c
}

// mentionsField: n contains a selection of the tracked field
func (q *qryWalk) mentionsField(n ast.Node, field string) bool {
	found := false
	w := &accWalker{st: q.st, pk: q.pk}
	ast.Inspect(n, func(m ast.Node) bool {
		if sel, ok := m.(*ast.SelectorExpr); ok {
			if id, ok := w.trackedField(sel); ok && q.st.fields[id] == field {
				found = true
			}
		}
		return true
	})
	return found
}

func coqBool(b bool) string {
	if b {
		return "true"
	}
	return "false"
}

func (st *accState) emitQueries() string {
	var b strings.Builder
	var root *accPkg
	for _, p := range st.pkgs {
		if p.path == accModule {
			root = p
		}
	}
	if root == nil {
		die("query: root package not loaded")
	}
	// ---- channel capacities and operations
	caps := map[string]int64{}
	capSeen := map[string]token.Pos{}
	setCap := func(f string, n int64, pos token.Pos) {
		if p, dup := capSeen[f]; dup {
			die("query: channel field %s is created twice (%s and %s): outside the accepted grammar", f, accPos(p), accPos(pos))
		}
		capSeen[f] = pos
		caps[f] = n
	}
	var ops []qryOp
	funcs := map[string]*ast.FuncDecl{}
	for _, pk := range st.pkgs {
		for _, file := range pk.files {
			for _, d := range file.Decls {
				fd, ok := d.(*ast.FuncDecl)
				if !ok || fd.Body == nil {
					continue
				}
				obj, _ := pk.info.Defs[fd.Name].(*types.Func)
				key := st.shortKey(obj)
				if pk == root {
					funcs[key] = fd
				}
				q := &qryWalk{st: st, pk: pk, fn: key, done: map[ast.Node]bool{}}
				q.walk(fd.Body)
				ops = append(ops, q.ops...)
				ast.Inspect(fd.Body, func(n ast.Node) bool {
					switch v := n.(type) {
					case *ast.AssignStmt:
						if len(v.Lhs) != len(v.Rhs) {
							return true
						}
						for i := range v.Lhs {
							if f, ok := q.field(v.Lhs[i]); ok {
								n, isMake := q.makeCap(v.Rhs[i])
								if !isMake {
									die("query: %s: channel field %s is assigned something other than make(chan ...)", accPos(v.Pos()), f)
								}
								setCap(f, n, v.Pos())
							}
						}
					case *ast.CompositeLit:
						tv, ok := pk.info.Types[v]
						if !ok {
							return true
						}
						named := accNamedOf(tv.Type)
						if named == nil {
							return true
						}
						owner := ""
						for _, tr := range accTracked {
							if named.Obj().Pkg() != nil && named.Obj().Pkg().Path() == accModule+tr[0] && named.Obj().Name() == tr[1] {
								owner = tr[1]
							}
						}
						if owner == "" {
							return true
						}
						for _, el := range v.Elts {
							kv, ok := el.(*ast.KeyValueExpr)
							if !ok {
								continue
							}
							id, ok := kv.Key.(*ast.Ident)
							if !ok {
								continue
							}
							name := owner + "." + id.Name
							fid, ok := st.fieldID[name]
							if !ok || !accIsChan(st.fieldType[fid]) {
								continue
							}
							n, isMake := q.makeCap(kv.Value)
							if !isMake {
								die("query: %s: channel field %s is initialised with something other than make(chan ...)", accPos(kv.Pos()), name)
							}
							setCap(name, n, kv.Pos())
						}
					}
					return true
				})
			}
		}
	}
	var chanFields []string
	for i, f := range st.fields {
		if accIsChan(st.fieldType[i]) {
			chanFields = append(chanFields, f)
			if _, ok := caps[f]; !ok {
				die("query: channel field %s is never created with make (outside the accepted grammar)", f)
			}
		}
	}
	b.WriteString("\n(* ---- query/reply hand-off facts (gen/query.go) ---- *)\n")
	b.WriteString("(* capacity written in the make call of every channel field; -1: not an integer literal *)\n")
	b.WriteString("Definition chan_caps : list (string * Z) := [\n")
	for i, f := range chanFields {
		sep := ";"
		if i == len(chanFields)-1 {
			sep = ""
		}
		fmt.Fprintf(&b, "  (\"%s\", %s)%s\n", f, coqZ(caps[f]), sep)
	}
	b.WriteString("].\n\n")
	sort.SliceStable(ops, func(i, j int) bool {
		if ops[i].field != ops[j].field {
			return ops[i].field < ops[j].field
		}
		if ops[i].fn != ops[j].fn {
			return ops[i].fn < ops[j].fn
		}
		return ops[i].pos < ops[j].pos
	})
	b.WriteString("(* (field, function, op, mode): op 0 send, 1 receive, 2 close;\n   mode 0 blocking, 1 non-blocking (select with default), 2 timed (select with a timer case), 3 select over several channels *)\n")
	b.WriteString("Definition chan_ops : list (string * string * Z * Z) := [\n")
	for i, o := range ops {
		sep := ";"
		if i == len(ops)-1 {
			sep = ""
		}
		fmt.Fprintf(&b, "  (\"%s\", \"%s\", %d, %d)%s (* line %d *)\n", o.field, o.fn, o.op, o.mode, sep, fset.Position(o.pos).Line)
	}
	b.WriteString("].\n\n")

	// ---- the cursor-position request flag
	const flag = "Vaxis.reqCursorPos"
	const reply = "Vaxis.chCursorPos"
	if _, ok := st.fieldID[flag]; !ok {
		die("query: field %s no longer exists", flag)
	}
	q := &qryWalk{st: st, pk: root, done: map[ast.Node]bool{}}
	qfn, hfn := "vaxis.Vaxis.CursorPosition", "vaxis.Vaxis.handleSequence"
	for key, fd := range funcs {
		if key != qfn && key != hfn && q.countFlag(fd.Body, flag) > 0 {
			die("query: %s accesses %s: only %s and %s may (outside the accepted grammar)", key, flag, qfn, hfn)
		}
	}
	cp := funcs[qfn]
	hs := funcs[hfn]
	if cp == nil || hs == nil {
		die("query: %s or %s no longer exists", qfn, hfn)
	}
	// CursorPosition: top-level statements  [store true] write [store true] ... select{timer: ..; reply: ..}
	armPos, writeIdx, selIdx := -1, -1, -1
	var sel *ast.SelectStmt
	for i, s := range cp.Body.List {
		if k, ok := q.stmtFlag(s, flag); ok {
			if k != 1 || armPos >= 0 || selIdx >= 0 {
				die("query: %s: CursorPosition accesses the request flag at top level other than by one store of true before its select", accPos(s.Pos()))
			}
			if writeIdx < 0 {
				armPos = 0
			} else {
				armPos = 1
			}
			continue
		}
		if ss, ok := s.(*ast.SelectStmt); ok {
			if sel != nil {
				die("query: %s: CursorPosition has two select statements", accPos(s.Pos()))
			}
			sel, selIdx = ss, i
			continue
		}
		if writeIdx < 0 && selIdx < 0 && (q.mentionsField(s, "Vaxis.console") || q.mentionsField(s, "Vaxis.tw")) {
			writeIdx = i
			continue
		}
		if q.countFlag(s, flag) > 0 {
			die("query: %s: CursorPosition accesses the request flag inside a compound statement other than its select", accPos(s.Pos()))
		}
	}
	if armPos < 0 || writeIdx < 0 || sel == nil {
		die("query: CursorPosition no longer has the shape store-flag / write-query / select (arm %d write %d select %d)", armPos, writeIdx, selIdx)
	}
	if len(sel.Body.List) != 2 {
		die("query: %s: CursorPosition's select has %d cases, expected a timer case and a reply case", accPos(sel.Pos()), len(sel.Body.List))
	}
	clr := map[string]bool{}
	for _, c := range sel.Body.List {
		cc := c.(*ast.CommClause)
		x, _ := commRecv(cc.Comm)
		which := ""
		switch {
		case x != nil && q.isTimeChan(x):
			which = "timeout"
		case x != nil:
			if f, ok := q.field(x); ok && f == reply {
				which = "reply"
			}
		}
		if which == "" {
			die("query: %s: a case of CursorPosition's select is neither the timer nor a receive from %s", accPos(cc.Pos()), reply)
		}
		if _, dup := clr[which]; dup {
			die("query: %s: CursorPosition's select has two %s cases", accPos(cc.Pos()), which)
		}
		clr[which] = false
		for _, s := range cc.Body {
			if k, ok := q.stmtFlag(s, flag); ok {
				if k != 2 {
					die("query: %s: a branch of CursorPosition's select does something else than clearing the flag", accPos(s.Pos()))
				}
				clr[which] = true
			} else if q.countFlag(s, flag) > 0 {
				die("query: %s: nested access to the request flag in CursorPosition's select (outside the accepted grammar)", accPos(s.Pos()))
			}
		}
	}
	// handleSequence: exactly one `if atomicLoad(&vx.reqCursorPos) { ... }`, every access to the flag inside it
	var gate *ast.IfStmt
	ast.Inspect(hs.Body, func(n ast.Node) bool {
		if is, ok := n.(*ast.IfStmt); ok && is.Init == nil {
			if k, ok := q.flagCall(is.Cond, flag); ok && k == 0 {
				if gate != nil {
					die("query: %s: handleSequence tests the request flag twice", accPos(is.Pos()))
				}
				gate = is
			}
		}
		return true
	})
	if gate == nil {
		die("query: handleSequence no longer has `if atomicLoad(&vx.reqCursorPos) {`")
	}
	if q.countFlag(hs.Body, flag) != q.countFlag(gate, flag) {
		die("query: handleSequence accesses the request flag outside its `if atomicLoad(&vx.reqCursorPos)` block")
	}
	if gate.Else != nil {
		die("query: %s: the request-flag test of handleSequence has an else branch (outside the accepted grammar)", accPos(gate.Pos()))
	}
	hclr, sendSeen, nstores := 0, false, 0
	for _, s := range gate.Body.List {
		if k, ok := q.stmtFlag(s, flag); ok {
			if k != 2 {
				die("query: %s: the handler sets the request flag", accPos(s.Pos()))
			}
			nstores++
			if sendSeen {
				hclr = 2
			} else {
				hclr = 1
			}
			continue
		}
		isSend := false
		ast.Inspect(s, func(n ast.Node) bool {
			if snd, ok := n.(*ast.SendStmt); ok {
				if f, ok := q.field(snd.Chan); ok && f == reply {
					isSend = true
				}
			}
			return true
		})
		if isSend {
			if sendSeen {
				die("query: %s: the handler sends on %s twice", accPos(s.Pos()), reply)
			}
			sendSeen = true
		}
		if q.countFlag(s, flag) > 0 {
			die("query: %s: nested access to the request flag in the handler (outside the accepted grammar)", accPos(s.Pos()))
		}
	}
	if !sendSeen || nstores > 1 {
		die("query: the request-flag block of handleSequence no longer has the shape [clear] ... send ... (send %v, stores %d)", sendSeen, nstores)
	}
	last := gate.Body.List[len(gate.Body.List)-1]
	if _, ok := last.(*ast.ReturnStmt); !ok {
		die("query: %s: the request-flag block of handleSequence does not end in return (the sequence would also be decoded as a key)", accPos(last.Pos()))
	}
	b.WriteString("(* the cursor-position request flag Vaxis.reqCursorPos (CursorPosition / handleSequence):\n")
	b.WriteString("   cpr_arm_pos 0: set before the query is written, 1: after; cprh_clear_pos 0: the handler never clears it,\n   1: clears it before its send on chCursorPos, 2: after *)\n")
	fmt.Fprintf(&b, "Definition cpr_arm_pos : Z := %d.\n", armPos)
	fmt.Fprintf(&b, "Definition cpr_clear_on_timeout : bool := %s.\n", coqBool(clr["timeout"]))
	fmt.Fprintf(&b, "Definition cpr_clear_on_reply : bool := %s.\n", coqBool(clr["reply"]))
	fmt.Fprintf(&b, "Definition cprh_clear_pos : Z := %d.\n", hclr)
	b.WriteString(emitLockedPosts())
	return b.String()
}

// ---------------------------------------------------------------- posts under a lock
//
// posts_under_lock: every call of PostEvent / PostEventBlocking / SyncFunc (on any
// receiver) that is made, in any non-test file of the module outside cmd/, while a
// mutex is held SYNTACTICALLY in the same function body: between `E.Lock()` /
// `E.RLock()` and the matching `E.Unlock()` / `E.RUnlock()` statement of the same
// statement list, or anywhere after `defer E.Unlock()`.  A function literal is a
// body of its own (it runs as a goroutine or a callback: nothing is held on entry).
// Accepted grammar: a compound statement (if / for / switch / select / block) must
// leave the set of held locks as it found it unless it ends in return, break,
// continue, goto or panic; otherwise die.  Not seen: a post made by a function that
// is called with the lock held.
//   (function, lock expression, blocking)
type lockedPost struct {
	fn, lock string
	blocking bool
	pos      token.Pos
}

type lockScan struct {
	fs  *token.FileSet
	fn  string
	out []lockedPost
}

func lockCall(s ast.Stmt) (string, string, bool) {
	var call *ast.CallExpr
	deferred := false
	switch v := s.(type) {
	case *ast.ExprStmt:
		call, _ = v.X.(*ast.CallExpr)
	case *ast.DeferStmt:
		call, deferred = v.Call, true
	}
	if call == nil || len(call.Args) != 0 {
		return "", "", false
	}
	sel, ok := call.Fun.(*ast.SelectorExpr)
	if !ok {
		return "", "", false
	}
	switch sel.Sel.Name {
	case "Lock", "RLock":
		if deferred {
			return "", "", false
		}
		return types.ExprString(sel.X), "lock", true
	case "Unlock", "RUnlock":
		if deferred {
			return types.ExprString(sel.X), "defer-unlock", true
		}
		return types.ExprString(sel.X), "unlock", true
	}
	return "", "", false
}

func (ls *lockScan) posts(n ast.Node, held []string) {
	if n == nil {
		return
	}
	ast.Inspect(n, func(m ast.Node) bool {
		switch v := m.(type) {
		case *ast.FuncLit:
			ls.body(v.Body, ls.fn+"$lit")
			return false
		case *ast.CallExpr:
			if sel, ok := v.Fun.(*ast.SelectorExpr); ok && len(held) > 0 {
				switch sel.Sel.Name {
				case "PostEvent", "SyncFunc":
					ls.out = append(ls.out, lockedPost{ls.fn, held[len(held)-1], false, v.Pos()})
				case "PostEventBlocking":
					ls.out = append(ls.out, lockedPost{ls.fn, held[len(held)-1], true, v.Pos()})
				}
			}
		}
		return true
	})
}

func endsInJump(list []ast.Stmt) bool {
	if len(list) == 0 {
		return false
	}
	switch v := list[len(list)-1].(type) {
	case *ast.ReturnStmt, *ast.BranchStmt:
		return true
	case *ast.ExprStmt:
		if c, ok := v.X.(*ast.CallExpr); ok {
			if id, ok := c.Fun.(*ast.Ident); ok && id.Name == "panic" {
				return true
			}
		}
	}
	return false
}

func sameLocks(a, b []string) bool {
	if len(a) != len(b) {
		return false
	}
	for i := range a {
		if a[i] != b[i] {
			return false
		}
	}
	return true
}

// list walks one statement list and returns the locks held at its end
func (ls *lockScan) list(list []ast.Stmt, held []string) []string {
	held = append([]string(nil), held...)
	nested := func(body []ast.Stmt, pos token.Pos) {
		after := ls.list(body, held)
		if !sameLocks(after, held) && !endsInJump(body) {
			die("query: %s: a compound statement in %s changes the set of held locks (outside the accepted grammar of posts_under_lock)", ls.fs.Position(pos), ls.fn)
		}
	}
	for _, s := range list {
		if e, what, ok := lockCall(s); ok {
			switch what {
			case "lock":
				held = append(held, e)
			case "unlock":
				for i := len(held) - 1; i >= 0; i-- {
					if held[i] == e {
						held = append(held[:i:i], held[i+1:]...)
						break
					}
				}
			}
			continue
		}
		switch v := s.(type) {
		case *ast.BlockStmt:
			nested(v.List, v.Pos())
		case *ast.IfStmt:
			ls.posts(v.Init, held)
			ls.posts(v.Cond, held)
			nested(v.Body.List, v.Pos())
			if v.Else != nil {
				nested([]ast.Stmt{v.Else}, v.Pos())
			}
		case *ast.ForStmt:
			ls.posts(v.Init, held)
			ls.posts(v.Cond, held)
			ls.posts(v.Post, held)
			nested(v.Body.List, v.Pos())
		case *ast.RangeStmt:
			ls.posts(v.X, held)
			nested(v.Body.List, v.Pos())
		case *ast.SwitchStmt:
			ls.posts(v.Init, held)
			ls.posts(v.Tag, held)
			for _, c := range v.Body.List {
				nested(c.(*ast.CaseClause).Body, c.Pos())
			}
		case *ast.TypeSwitchStmt:
			for _, c := range v.Body.List {
				nested(c.(*ast.CaseClause).Body, c.Pos())
			}
		case *ast.SelectStmt:
			for _, c := range v.Body.List {
				cc := c.(*ast.CommClause)
				ls.posts(cc.Comm, held)
				nested(cc.Body, c.Pos())
			}
		case *ast.LabeledStmt:
			nested([]ast.Stmt{v.Stmt}, v.Pos())
		default:
			ls.posts(s, held)
		}
	}
	return held
}

func (ls *lockScan) body(b *ast.BlockStmt, name string) {
	if b == nil {
		return
	}
	saved := ls.fn
	ls.fn = name
	ls.list(b.List, nil)
	ls.fn = saved
}

func emitLockedPosts() string {
	var files []string
	err := filepath.WalkDir(".", func(p string, d os.DirEntry, err error) error {
		if err != nil {
			return err
		}
		if d.IsDir() {
			n := d.Name()
			if p != "." && (strings.HasPrefix(n, ".") || strings.HasPrefix(n, "_") || n == "cmd" || n == "testdata" || n == "vendor") {
				return filepath.SkipDir
			}
			return nil
		}
		if strings.HasSuffix(p, ".go") && !strings.HasSuffix(p, "_test.go") && !strings.HasPrefix(filepath.Base(p), "zz_") {
			files = append(files, p)
		}
		return nil
	})
	if err != nil {
		die("query: walking the module: %v", err)
	}
	sort.Strings(files)
	lfset := token.NewFileSet()
	ls := &lockScan{fs: lfset}
	var posOf = map[token.Pos]string{}
	for _, p := range files {
		f, err := parser.ParseFile(lfset, p, nil, parser.SkipObjectResolution)
		if err != nil {
			die("query: %v", err)
		}
		dir := filepath.ToSlash(filepath.Dir(p))
		if dir == "." {
			dir = "vaxis"
		}
		for _, d := range f.Decls {
			fd, ok := d.(*ast.FuncDecl)
			if !ok || fd.Body == nil {
				continue
			}
			name := dir + "." + fd.Name.Name
			if fd.Recv != nil && len(fd.Recv.List) == 1 {
				name = dir + "." + strings.TrimPrefix(types.ExprString(fd.Recv.List[0].Type), "*") + "." + fd.Name.Name
			}
			before := len(ls.out)
			ls.body(fd.Body, name)
			for i := before; i < len(ls.out); i++ {
				posOf[ls.out[i].pos] = fmt.Sprintf("%s:%d", p, lfset.Position(ls.out[i].pos).Line)
			}
		}
	}
	var b strings.Builder
	b.WriteString("\n(* posts made while a mutex is held syntactically in the same function body, in every non-test file of the\n   module outside cmd/ (gen/query.go): (function, lock, blocking) *)\n")
	b.WriteString("Definition posts_under_lock : list (string * string * bool) := [\n")
	for i, lp := range ls.out {
		sep := ";"
		if i == len(ls.out)-1 {
			sep = ""
		}
		fmt.Fprintf(&b, "  (\"%s\", \"%s\", %s)%s (* %s *)\n", lp.fn, lp.lock, coqBool(lp.blocking), sep, posOf[lp.pos])
	}
	b.WriteString("].\n")
	return b.String()
}
