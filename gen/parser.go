package main

import (
	"fmt"
	"go/ast"
	"go/token"
	"path/filepath"
	"strings"
)

// GenParser: ansi/parser.go — the state functions and `anywhere` become
// tables of clauses (guards, actions, next state) interpreted by
// coq/model/Parser.v.  Accepted grammar (anything else is refused):
//
//	func <state>(r rune, p *Parser) stateFn {
//	    <simple>*                      // p.field = const, defer func(){<simple>*}()
//	    switch { case <guard>,...: <simple>* return <state|nil> ... default: ... }
//	}
//	guard  ::= in(r, lo, hi) | r == c
//	simple ::= p.method(r) | p.method() | p.emit(SS3(r)|C0(c)|fmt.Errorf(..)) | p.field = v
//	         | p.apcData = append(p.apcData, r) | if p.ignoreST { return <state> }
//	         | if p.exit != nil { p.exit(); p.exit = nil }
//	         | p.escTimeout = time.AfterFunc(d, func(){<guard-prefix>? <simple>*}) | p.mu.Lock()/Unlock()
//	         | p.escPending = true          (the flag the timer body tests: this is "armed")
//	guard-prefix ::= p.mu.Lock(); defer p.mu.Unlock(); if !p.escPending || p.state == nil { return }
//
// and, for the interleaving model (coq/model/ParserRace.v), three facts about the shape of the
// timer body and of Parser.run are emitted as booleans: timer_guarded, run_clears_pending,
// run_end_finishes.
var parserStates = map[string]string{
	"ground": "Ground", "escape": "Escape", "escapeIntermediate": "EscapeIntermediate",
	"csiEntry": "CsiEntry", "csiParam": "CsiParam", "csiIntermediate": "CsiIntermediate", "csiIgnore": "CsiIgnore",
	"dcsEntry": "DcsEntry", "dcsParam": "DcsParam", "dcsIntermediate": "DcsIntermediate",
	"dcsPassthrough": "DcsPassthrough", "dcsIgnore": "DcsIgnore", "oscString": "OscString",
	"sosPm": "SosPm", "apc": "Apc", "ss3": "Ss3",
}

var parserStateOrder = []string{"ground", "escape", "escapeIntermediate", "csiEntry", "csiParam", "csiIntermediate",
	"csiIgnore", "dcsEntry", "dcsParam", "dcsIntermediate", "dcsPassthrough", "dcsIgnore", "oscString", "sosPm", "apc", "ss3"}

var parserMethods = map[string]string{
	"execute": "AExecute", "print": "APrint", "clear": "AClear", "collect": "ACollect", "param": "AParam",
	"escapeDispatch": "AEscDispatch", "csiDispatch": "ACsiDispatch", "hook": "AHook", "put": "APut",
	"oscStart": "AOscStart", "oscPut": "AOscPut", "exit": "ACallExit",
}

var parserExits = map[string]string{"oscEnd": "ExOscEnd", "unhook": "ExUnhook", "apcUnhook": "ExApcUnhook"}

type pgen struct {
	timerBody    string
	timerMs      int64
	eofVal       int64
	timerGuarded bool
}

// isNotPendingOrFinished: !p.escPending || p.state == nil
func isNotPendingOrFinished(e ast.Expr) bool {
	be, ok := e.(*ast.BinaryExpr)
	if !ok || be.Op != token.LOR {
		return false
	}
	ue, ok := be.X.(*ast.UnaryExpr)
	if !ok || ue.Op != token.NOT || !isP(ue.X, "escPending") {
		return false
	}
	ce, ok := be.Y.(*ast.BinaryExpr)
	return ok && ce.Op == token.EQL && isP(ce.X, "state") && isIdent(ce.Y, "nil")
}

func isMuCall(s ast.Stmt, name string) bool {
	var call *ast.CallExpr
	switch v := s.(type) {
	case *ast.ExprStmt:
		call, _ = v.X.(*ast.CallExpr)
	case *ast.DeferStmt:
		call = v.Call
	}
	if call == nil || len(call.Args) != 0 {
		return false
	}
	se, ok := call.Fun.(*ast.SelectorExpr)
	return ok && isP(se.X, "mu") && se.Sel.Name == name
}

func isAssignP(s ast.Stmt, field, val string) bool {
	as, ok := s.(*ast.AssignStmt)
	return ok && as.Tok == token.ASSIGN && len(as.Lhs) == 1 && len(as.Rhs) == 1 && isP(as.Lhs[0], field) && isIdent(as.Rhs[0], val)
}

// timerPrefix: the callback starts with Lock; defer Unlock; if !pending || finished { return }
func timerPrefix(l []ast.Stmt) bool {
	if len(l) < 3 || !isMuCall(l[0], "Lock") {
		return false
	}
	if _, ok := l[1].(*ast.DeferStmt); !ok || !isMuCall(l[1], "Unlock") {
		return false
	}
	is, ok := l[2].(*ast.IfStmt)
	if !ok || is.Init != nil || is.Else != nil || !isNotPendingOrFinished(is.Cond) || len(is.Body.List) != 1 {
		return false
	}
	rs, ok := is.Body.List[0].(*ast.ReturnStmt)
	return ok && len(rs.Results) == 0
}

// runShape inspects Parser.run: (a) inside the read loop `p.escPending = false` stands between
// p.mu.Lock() and `p.state = anywhere(r, p)`; (b) after the loop, before the EOF marker is emitted,
// `p.escPending = false` and `p.state = nil` are executed between Lock and Unlock.
func runShape(f *ast.File) (clears, finishes bool) {
	fd := findFunc(f, "Parser", "run")
	if fd == nil {
		die("ansi/parser.go: method run not found")
	}
	// (a)
	ast.Inspect(fd.Body, func(n ast.Node) bool {
		bl, ok := n.(*ast.CaseClause)
		if !ok {
			if cc, ok2 := n.(*ast.CommClause); ok2 {
				l := cc.Body
				for i := 0; i+2 < len(l); i++ {
					if isMuCall(l[i], "Lock") && isAssignP(l[i+1], "escPending", "false") {
						if as, ok := l[i+2].(*ast.AssignStmt); ok && len(as.Lhs) == 1 && isP(as.Lhs[0], "state") {
							if call, ok := as.Rhs[0].(*ast.CallExpr); ok && isIdent(call.Fun, "anywhere") {
								clears = true
							}
						}
					}
				}
			}
			return true
		}
		_ = bl
		return true
	})
	// (b): top-level statements of run after the loop
	l := fd.Body.List
	emitAt := -1
	for i, s := range l {
		if es, ok := s.(*ast.ExprStmt); ok {
			if call, ok := es.X.(*ast.CallExpr); ok {
				if se, ok := call.Fun.(*ast.SelectorExpr); ok && isIdent(se.X, "p") && se.Sel.Name == "emit" {
					emitAt = i
					break
				}
			}
		}
	}
	for i := 0; i+3 < len(l) && i+3 < emitAt; i++ {
		if isMuCall(l[i], "Lock") && isMuCall(l[i+3], "Unlock") {
			a, b := l[i+1], l[i+2]
			if (isAssignP(a, "escPending", "false") && isAssignP(b, "state", "nil")) || (isAssignP(b, "escPending", "false") && isAssignP(a, "state", "nil")) {
				finishes = true
			}
		}
	}
	return
}

func isP(e ast.Expr, field string) bool {
	se, ok := e.(*ast.SelectorExpr)
	if !ok || se.Sel.Name != field {
		return false
	}
	id, ok := se.X.(*ast.Ident)
	return ok && id.Name == "p"
}

func isIdent(e ast.Expr, name string) bool {
	id, ok := e.(*ast.Ident)
	return ok && id.Name == name
}

func pos(n ast.Node) string { return fset.Position(n.Pos()).String() }

func (g *pgen) constVal(e ast.Expr) int64 {
	if isIdent(e, "eof") {
		return g.eofVal
	}
	n, ok := intLit(e)
	if !ok {
		die("%s: expected an integer constant", pos(e))
	}
	return n
}

func (g *pgen) guard(e ast.Expr) string {
	switch v := e.(type) {
	case *ast.CallExpr:
		if isIdent(v.Fun, "in") && len(v.Args) == 3 && isIdent(v.Args[0], "r") {
			return fmt.Sprintf("GRange %s %s", coqZ(g.constVal(v.Args[1])), coqZ(g.constVal(v.Args[2])))
		}
	case *ast.BinaryExpr:
		if v.Op == token.EQL && isIdent(v.X, "r") {
			return fmt.Sprintf("GEq %s", coqZ(g.constVal(v.Y)))
		}
	}
	die("%s: guard outside the grammar", pos(e))
	return ""
}

func (g *pgen) stateName(e ast.Expr) string {
	if id, ok := e.(*ast.Ident); ok {
		if id.Name == "nil" {
			return "None"
		}
		if s, ok := parserStates[id.Name]; ok {
			return "(Some " + s + ")"
		}
	}
	die("%s: return value is not a state", pos(e))
	return ""
}

// simple statements -> list of actions (strings); returns nil,false for a return statement
func (g *pgen) simple(s ast.Stmt) []string {
	switch v := s.(type) {
	case *ast.ExprStmt:
		call, ok := v.X.(*ast.CallExpr)
		if !ok {
			break
		}
		se, ok := call.Fun.(*ast.SelectorExpr)
		if !ok {
			break
		}
		// p.mu.Lock() / p.mu.Unlock()
		if isP(se.X, "mu") && (se.Sel.Name == "Lock" || se.Sel.Name == "Unlock") {
			return []string{}
		}
		if !isIdent(se.X, "p") {
			break
		}
		if se.Sel.Name == "emit" && len(call.Args) == 1 {
			arg, ok := call.Args[0].(*ast.CallExpr)
			if !ok {
				break
			}
			if isIdent(arg.Fun, "SS3") && len(arg.Args) == 1 && isIdent(arg.Args[0], "r") {
				return []string{"AEmitSS3"}
			}
			if isIdent(arg.Fun, "C0") && len(arg.Args) == 1 {
				return []string{fmt.Sprintf("AEmitC0 %s", coqZ(g.constVal(arg.Args[0])))}
			}
			if fs, ok := arg.Fun.(*ast.SelectorExpr); ok && isIdent(fs.X, "fmt") && fs.Sel.Name == "Errorf" {
				return []string{"AEmitError"}
			}
			break
		}
		if a, ok := parserMethods[se.Sel.Name]; ok {
			if len(call.Args) > 1 || (len(call.Args) == 1 && !isIdent(call.Args[0], "r")) {
				break
			}
			return []string{a}
		}
	case *ast.AssignStmt:
		if len(v.Lhs) != 1 || len(v.Rhs) != 1 || v.Tok != token.ASSIGN {
			break
		}
		switch {
		case isP(v.Lhs[0], "escPending"):
			// the flag the timer body tests: setting it is what arms the Escape report
			if isIdent(v.Rhs[0], "true") {
				return []string{"AArmTimer"}
			}
			if isIdent(v.Rhs[0], "false") {
				return []string{}
			}
		case isP(v.Lhs[0], "ignoreST"):
			if isIdent(v.Rhs[0], "true") {
				return []string{"ASetIgnoreST true"}
			}
			if isIdent(v.Rhs[0], "false") {
				return []string{"ASetIgnoreST false"}
			}
		case isP(v.Lhs[0], "exit"):
			if isIdent(v.Rhs[0], "nil") {
				return []string{"ASetExit None"}
			}
			if se, ok := v.Rhs[0].(*ast.SelectorExpr); ok && isIdent(se.X, "p") {
				if ex, ok := parserExits[se.Sel.Name]; ok {
					return []string{"ASetExit (Some " + ex + ")"}
				}
			}
		case isP(v.Lhs[0], "state"):
			if id, ok := v.Rhs[0].(*ast.Ident); ok {
				if st, ok := parserStates[id.Name]; ok {
					return []string{"ASetState " + st}
				}
			}
		case isP(v.Lhs[0], "apcData"):
			if call, ok := v.Rhs[0].(*ast.CallExpr); ok && isIdent(call.Fun, "append") && len(call.Args) == 2 &&
				isP(call.Args[0], "apcData") && isIdent(call.Args[1], "r") {
				return []string{"AApcPut"}
			}
		case isP(v.Lhs[0], "escTimeout"):
			call, ok := v.Rhs[0].(*ast.CallExpr)
			if !ok || len(call.Args) != 2 {
				break
			}
			se, ok := call.Fun.(*ast.SelectorExpr)
			if !ok || !isIdent(se.X, "time") || se.Sel.Name != "AfterFunc" {
				break
			}
			// duration: N*time.Millisecond
			be, ok := call.Args[0].(*ast.BinaryExpr)
			if !ok || be.Op != token.MUL {
				break
			}
			ms, ok := intLit(be.X)
			if !ok {
				break
			}
			if ds, ok := be.Y.(*ast.SelectorExpr); !ok || !isIdent(ds.X, "time") || ds.Sel.Name != "Millisecond" {
				break
			}
			fl, ok := call.Args[1].(*ast.FuncLit)
			if !ok {
				break
			}
			var body []string
			stmts := fl.Body.List
			g.timerGuarded = timerPrefix(stmts)
			if g.timerGuarded {
				stmts = stmts[3:]
			}
			for _, st := range stmts {
				body = append(body, g.simple(st)...)
			}
			g.timerBody = "[" + strings.Join(body, "; ") + "]"
			g.timerMs = ms
			if g.timerGuarded {
				// the callback reports Escape only while p.escPending: `p.escPending = true` arms
				return []string{}
			}
			// unguarded callback: the running timer itself is what is armed
			return []string{"AArmTimer"}
		}
	case *ast.IfStmt:
		if v.Init != nil || v.Else != nil {
			break
		}
		// if p.ignoreST { return <state> }
		if isP(v.Cond, "ignoreST") && len(v.Body.List) == 1 {
			if rs, ok := v.Body.List[0].(*ast.ReturnStmt); ok && len(rs.Results) == 1 {
				if id, ok := rs.Results[0].(*ast.Ident); ok {
					if st, ok := parserStates[id.Name]; ok {
						return []string{"AIfIgnoreSTGoto " + st}
					}
				}
			}
		}
		// if p.exit != nil { p.exit(); p.exit = nil }
		if be, ok := v.Cond.(*ast.BinaryExpr); ok && be.Op == token.NEQ && isP(be.X, "exit") && isIdent(be.Y, "nil") &&
			len(v.Body.List) == 2 {
			a := g.simple(v.Body.List[0])
			b := g.simple(v.Body.List[1])
			if len(a) == 1 && a[0] == "ACallExit" && len(b) == 1 && b[0] == "ASetExit None" {
				return []string{"ACallExitIfSet"}
			}
		}
	}
	die("%s: statement outside the translator's grammar", pos(s))
	return nil
}

type pclause struct {
	guards string
	acts   string
	next   string
	deflt  bool
	deleg  bool // return p.state(r, p)
}

func (g *pgen) body(fd *ast.FuncDecl) (pre, post []string, clauses []pclause) {
	stmts := fd.Body.List
	if len(stmts) == 0 {
		die("%s: empty body", pos(fd))
	}
	sw, ok := stmts[len(stmts)-1].(*ast.SwitchStmt)
	if !ok || sw.Tag != nil || sw.Init != nil {
		die("%s: the last statement of %s is not a tagless switch", pos(fd), fd.Name.Name)
	}
	for _, s := range stmts[:len(stmts)-1] {
		if ds, ok := s.(*ast.DeferStmt); ok {
			fl, ok := ds.Call.Fun.(*ast.FuncLit)
			if !ok || len(ds.Call.Args) != 0 {
				die("%s: defer outside the grammar", pos(s))
			}
			for _, st := range fl.Body.List {
				post = append(post, g.simple(st)...)
			}
			continue
		}
		pre = append(pre, g.simple(s)...)
	}
	for _, cs := range sw.Body.List {
		cc := cs.(*ast.CaseClause)
		var c pclause
		var gs []string
		for _, e := range cc.List {
			gs = append(gs, g.guard(e))
		}
		c.deflt = cc.List == nil
		c.guards = "[" + strings.Join(gs, "; ") + "]"
		if len(cc.Body) == 0 {
			die("%s: case without return", pos(cc))
		}
		var acts []string
		for _, s := range cc.Body[:len(cc.Body)-1] {
			acts = append(acts, g.simple(s)...)
		}
		rs, ok := cc.Body[len(cc.Body)-1].(*ast.ReturnStmt)
		if !ok || len(rs.Results) != 1 {
			die("%s: case does not end in a return", pos(cc))
		}
		if call, ok := rs.Results[0].(*ast.CallExpr); ok {
			if isP(call.Fun, "state") && len(call.Args) == 2 && isIdent(call.Args[0], "r") && isIdent(call.Args[1], "p") {
				c.deleg = true
			} else {
				die("%s: return outside the grammar", pos(rs))
			}
		} else {
			c.next = g.stateName(rs.Results[0])
		}
		c.acts = "[" + strings.Join(acts, "; ") + "]"
		clauses = append(clauses, c)
	}
	return
}

func init() {
	register("GenParser", func(repo string) string {
		f := parseFile(filepath.Join(repo, "ansi", "parser.go"))
		g := &pgen{}
		e := findVar(f, "eof")
		if e == nil {
			die("ansi/parser.go: const eof not found")
		}
		n, ok := intLit(e)
		if !ok {
			die("ansi/parser.go: eof is not an integer constant")
		}
		g.eofVal = n
		var b strings.Builder
		b.WriteString("From Vx Require Import model.ParserTypes.\n\n")
		fmt.Fprintf(&b, "Definition eof_rune : Z := %s.\n\n", coqZ(g.eofVal))
		emit := func(name string, fd *ast.FuncDecl, allowDeleg bool) {
			pre, post, clauses := g.body(fd)
			fmt.Fprintf(&b, "Definition fn_%s : statefn :=\n  {| f_pre := [%s];\n     f_post := [%s];\n     f_clauses := [\n", name,
				strings.Join(pre, "; "), strings.Join(post, "; "))
			var cl []string
			sawDefault := false
			for _, c := range clauses {
				if c.deleg {
					if !allowDeleg || !c.deflt {
						die("ansi/parser.go: %s delegates to p.state outside `anywhere`'s default", name)
					}
					sawDefault = true
					continue
				}
				if c.deflt {
					sawDefault = true
				}
				cl = append(cl, fmt.Sprintf("       {| c_guards := %s; c_default := %v; c_acts := %s; c_next := %s |}", c.guards, c.deflt, c.acts, c.next))
			}
			if allowDeleg && !sawDefault {
				die("ansi/parser.go: anywhere has no default delegating to the current state")
			}
			b.WriteString(strings.Join(cl, ";\n"))
			b.WriteString("\n     ] |}.\n\n")
		}
		for _, name := range parserStateOrder {
			fd := findFunc(f, "", name)
			if fd == nil {
				die("ansi/parser.go: state function %s not found", name)
			}
			emit(name, fd, false)
		}
		fd := findFunc(f, "", "anywhere")
		if fd == nil {
			die("ansi/parser.go: anywhere not found")
		}
		emit("anywhere", fd, true)
		if g.timerBody == "" {
			die("ansi/parser.go: anywhere does not arm the escape timer")
		}
		fmt.Fprintf(&b, "Definition timer_body : list act := %s.\nDefinition timer_ms : Z := %d.\n\n", g.timerBody, g.timerMs)
		clears, finishes := runShape(f)
		b.WriteString("(* shape facts for the interleaving model (model/ParserRace.v): the timer callback runs under\n   p.mu and returns at once unless p.escPending and the parser has not finished; Parser.run\n   clears p.escPending under p.mu before it handles a rune; Parser.run clears it and marks the\n   parser finished (p.state = nil) under p.mu before it emits the end marker *)\n")
		fmt.Fprintf(&b, "Definition timer_guarded : bool := %v.\nDefinition run_clears_pending : bool := %v.\nDefinition run_end_finishes : bool := %v.\n\n", g.timerGuarded, clears, finishes)
		b.WriteString("Definition state_fn (s : pstate) : statefn :=\n  match s with\n")
		for _, name := range parserStateOrder {
			fmt.Fprintf(&b, "  | %s => fn_%s\n", parserStates[name], name)
		}
		b.WriteString("  end.\n")
		// every other top-level function with the stateFn signature must be known
		for _, d := range f.Decls {
			fd, ok := d.(*ast.FuncDecl)
			if !ok || fd.Recv != nil || fd.Type.Results == nil || len(fd.Type.Results.List) != 1 {
				continue
			}
			if isIdent(fd.Type.Results.List[0].Type, "stateFn") {
				if _, ok := parserStates[fd.Name.Name]; !ok && fd.Name.Name != "anywhere" {
					die("ansi/parser.go: unknown state function %s", fd.Name.Name)
				}
			}
		}
		return b.String()
	})
}
